"""C06, part A — EOF, ACK, Prompt and Keep Alive PDUs (and the FileDirectivePduBase they share).
Streams, implementation adapter, oracle.  Run through the aggregator harness/props/c06.py."""
import itertools
from harness import core
from harness.props import c05 as h5
from spacepackets.cfdp.defs import ConditionCode, LargeFileFlag
from spacepackets.cfdp.pdu.file_directive import FileDirectivePduBase, DirectiveType
from spacepackets.cfdp.pdu.eof import EofPdu
from spacepackets.cfdp.pdu.ack import AckPdu, TransactionStatus
from spacepackets.cfdp.pdu.prompt import PromptPdu, ResponseRequired
from spacepackets.cfdp.pdu.keep_alive import KeepAlivePdu
from spacepackets.cfdp.tlv.tlv import EntityIdTlv

OP_RANGE = (1300, 1339)
_F = "SP.Model.FileDirective."
_H = "SP.Model.PduHeader."
ENUMS = [
    ("spacepackets.cfdp.pdu.file_directive:DirectiveType.EOF_PDU", _F + "DT_EOF"),
    ("spacepackets.cfdp.pdu.file_directive:DirectiveType.FINISHED_PDU", _F + "DT_FINISHED"),
    ("spacepackets.cfdp.pdu.file_directive:DirectiveType.ACK_PDU", _F + "DT_ACK"),
    ("spacepackets.cfdp.pdu.file_directive:DirectiveType.METADATA_PDU", _F + "DT_METADATA"),
    ("spacepackets.cfdp.pdu.file_directive:DirectiveType.NAK_PDU", _F + "DT_NAK"),
    ("spacepackets.cfdp.pdu.file_directive:DirectiveType.PROMPT_PDU", _F + "DT_PROMPT"),
    ("spacepackets.cfdp.pdu.file_directive:DirectiveType.KEEP_ALIVE_PDU", _F + "DT_KEEP_ALIVE"),
    ("spacepackets.cfdp.pdu.file_directive:DirectiveType.NONE", _F + "DT_NONE"),
    ("spacepackets.cfdp.pdu.file_directive:FileDirectivePduBase.FILE_DIRECTIVE_PDU_LEN", _F + "FILE_DIRECTIVE_PDU_LEN"),
    ("spacepackets.cfdp.pdu.ack:TransactionStatus.UNDEFINED", "SP.Model.Ack.TS_UNDEFINED"),
    ("spacepackets.cfdp.pdu.ack:TransactionStatus.ACTIVE", "SP.Model.Ack.TS_ACTIVE"),
    ("spacepackets.cfdp.pdu.ack:TransactionStatus.TERMINATED", "SP.Model.Ack.TS_TERMINATED"),
    ("spacepackets.cfdp.pdu.ack:TransactionStatus.UNRECOGNIZED", "SP.Model.Ack.TS_UNRECOGNIZED"),
    ("spacepackets.cfdp.pdu.prompt:ResponseRequired.NAK", "SP.Model.Prompt.RR_NAK"),
    ("spacepackets.cfdp.pdu.prompt:ResponseRequired.KEEP_ALIVE", "SP.Model.Prompt.RR_KEEP_ALIVE"),
    ("spacepackets.cfdp.tlv.tlv:EntityIdTlv.TLV_TYPE", "SP.Model.Tlv.TLV_ENTITY_ID"),
    ("spacepackets.cfdp.pdu.eof:Direction.TOWARDS_RECEIVER", _H + "DIR_TOWARDS_RECEIVER"),
    ("spacepackets.cfdp.pdu.keep_alive:Direction.TOWARDS_SENDER", _H + "DIR_TOWARDS_SENDER"),
    ("spacepackets.cfdp.pdu.ack:Direction.TOWARDS_RECEIVER", _H + "DIR_TOWARDS_RECEIVER"),
    ("spacepackets.cfdp.pdu.ack:Direction.TOWARDS_SENDER", _H + "DIR_TOWARDS_SENDER"),
    ("spacepackets.cfdp.pdu.eof:CrcFlag.WITH_CRC", _H + "CRC_WITH_CRC"),
    ("spacepackets.cfdp.pdu.keep_alive:LargeFileFlag.LARGE", _H + "FILE_LARGE"),
    ("spacepackets.cfdp.pdu.file_directive:PduType.FILE_DIRECTIVE", _H + "PDU_FILE_DIRECTIVE"),
    ("spacepackets.cfdp.pdu.file_directive:SegmentMetadataFlag.NOT_PRESENT", _H + "SEGMETA_NOT_PRESENT"),
]
ASSUMPTIONS = h5.ASSUMPTIONS + [
    "crcmod's crc-ccitt-false equals the bitwise CRC-16 of Base/Crc16.v (tied exhaustively in family 17 / C04); "
    "every packed CRC trailer is additionally recomputed bitwise by the oracle",
    "copy.copy(pdu_conf) is shallow and nothing else aliases the caller's PduConfig (its fields are compared after construction)",
    "condition codes / statuses are passed to the constructors as the IntEnum member when one exists, else as a plain int",
]
TRUSTED = ["crcmod 1.7 (C extension) as CRC-16/CCITT-FALSE"]
EXPLORED_ONLY = []

WIDTHS = (1, 2, 4, 8)
CC_MEMBERS = sorted(int(c) for c in ConditionCode)


def _enum(cls, v):
    return core.enum_or_int(cls, v)


def _fault(l):
    return EntityIdTlv(bytes(l[1:])) if l and l[0] == 1 else None


def _fault_enc(t):
    return [0] if t is None else [1] + list(t.value)


def _conf_lists(c):
    return [[c.source_entity_id.value, c.source_entity_id.byte_len, c.dest_entity_id.value, c.dest_entity_id.byte_len,
             c.transaction_seq_num.value, c.transaction_seq_num.byte_len],
            [int(c.trans_mode), int(c.file_flag), int(c.crc_flag), int(c.direction), int(c.seg_ctrl)]]


def _pack_res(p):
    try:
        return [0] + list(p.pack())
    except Exception as e:  # noqa
        return [1, core.classify_exception(e)]


def _unpack(cls, octs):
    """K.unpack from bytes or -- every third input, and half of the inputs of 512 octets or more -- from a bytearray
    (a receive buffer) that is overwritten after the call: the decoded object must not depend on it any more"""
    if (len(octs) + sum(octs[:8])) % 3 and not (len(octs) >= 512 and sum(octs[:8]) % 2):
        return cls.unpack(bytes(octs))
    buf = bytearray(octs)
    p = cls.unpack(buf)
    buf[:] = b"\xa5" * len(buf)
    return p


# ---- EOF
def _eof(a):
    conf = h5._conf(a[0], a[1])
    fl = _fault(a[4])
    return EofPdu(conf, bytes(a[2]), a[3][0], fl, _enum(ConditionCode, a[3][1])), conf


def _eof_fields(p):
    return h5._fields(p.pdu_header) + [[int(p.pdu_file_directive.directive_type), int(p.condition_code), p.file_size],
                                        list(p.file_checksum), _fault_enc(p.fault_location)]


# ---- ACK
def _ack(a):
    conf = h5._conf(a[0], a[1])
    code, cc, st = a[2]
    return AckPdu(conf, _enum(DirectiveType, code), _enum(ConditionCode, cc), _enum(TransactionStatus, st)), conf


def _ack_fields(p):
    return h5._fields(p.pdu_header) + [[int(p.pdu_file_directive.directive_type), int(p.directive_code_of_acked_pdu),
                                        int(p.directive_subtype_code), int(p.condition_code_of_acked_pdu),
                                        int(p.transaction_status)]]


# ---- Prompt
def _prompt(a):
    conf = h5._conf(a[0], a[1])
    return PromptPdu(conf, _enum(ResponseRequired, a[2][0])), conf


def _prompt_fields(p):
    return h5._fields(p.pdu_header) + [[int(p.pdu_file_directive.directive_type), int(p.response_required)]]


# ---- Keep Alive
def _ka(a):
    conf = h5._conf(a[0], a[1])
    return KeepAlivePdu(conf, a[2][0]), conf


def _ka_fields(p):
    return h5._fields(p.pdu_header) + [[int(p.pdu_file_directive.directive_type), p.progress]]


KINDS = {
    "eof": dict(base=1300, cls=EofPdu, mk=_eof, fields=_eof_fields, nargs=5, name="EofPdu"),
    "ack": dict(base=1310, cls=AckPdu, mk=_ack, fields=_ack_fields, nargs=3, name="AckPdu"),
    "prompt": dict(base=1315, cls=PromptPdu, mk=_prompt, fields=_prompt_fields, nargs=3, name="PromptPdu"),
    "ka": dict(base=1320, cls=KeepAlivePdu, mk=_ka, fields=_ka_fields, nargs=3, name="KeepAlivePdu"),
}
BASE2KIND = {k["base"]: n for n, k in KINDS.items()}
XOR_KIND = {1334: "eof", 1335: "ack", 1336: "prompt", 1337: "ka"}
XOR_OP = {v: k for k, v in XOR_KIND.items()}


def _kind_of(op):
    for n, k in KINDS.items():
        if k["base"] <= op < k["base"] + (6 if n in ("eof", "ka") else 5):
            return n, op - k["base"]
    return None, None


def impl(op, a):
    if 1306 <= op <= 1309:
        from harness.props import c06h
        return c06h.impl(op, a)
    kn, sub = _kind_of(op)
    if kn is not None:
        k = KINDS[kn]
        if sub == 0:
            p, conf = k["mk"](a)
            return k["fields"](p) + _conf_lists(conf)
        if sub == 1:
            return [list(k["mk"](a)[0].pack())]
        if sub == 2:
            return k["fields"](_unpack(k["cls"], a[0]))
        if sub == 3:
            return [list(_unpack(k["cls"], a[0]).pack())]
        if sub == 4:
            p, _ = k["mk"](a)
            b = p.pack()
            sfx = a[k["nargs"]] if len(a) > k["nargs"] else []
            p2 = _unpack(k["cls"], list(b) + list(sfx))
            try:
                eq = [int(p2 == p)]
            except Exception as e:  # noqa  (EntityIdTlv.__eq__ can raise)
                eq = [2, core.canon_code(core.classify_exception(e))]
            return [eq] + k["fields"](p2) + [_pack_res(p2)]
        if sub == 5 and kn == "eof":
            p, _ = _eof(a)
            for o in a[5:]:
                p.fault_location = _fault(o)
            return _eof_fields(p) + [[p.packet_len], _pack_res(p), _pack_res(p)]
        if sub == 5 and kn == "ka":
            p, _ = _ka(a)
            for o in a[3:]:
                try:
                    p.file_flag = _enum(LargeFileFlag, o[0] if o else 0)
                except ValueError:
                    if (o[0] if o else 0) in (0, 1) and 0 <= p.progress < 2 ** 32:
                        raise
                    # a flag outside the enum (or NORMAL while the progress needs 64 bits) refused at assignment instead of
                    # at pack(): the PDU stays as it was (judged on the views / lengths / packs below), the history goes on
            return _ka_fields(p) + [[p.packet_len], _pack_res(p), _pack_res(p)]
    if 1334 <= op <= 1337:
        k = KINDS[XOR_KIND[op]]
        e = list(a[1]) + [0] * (len(a[0]) - len(a[1]))
        return k["fields"](k["cls"].unpack(bytes(x ^ y for x, y in zip(a[0], e))))
    if op == 1326:
        f = FileDirectivePduBase.unpack(bytes(a[0]))
        return h5._fields(f.pdu_header) + [[int(f.directive_type), f.header_len, f.directive_param_field_len]]
    if op == 1327:
        conf = h5._conf(a[0], a[1])
        return [list(FileDirectivePduBase(conf, _enum(DirectiveType, a[2][0]), a[2][1]).pack())]
    if op == 1328:
        conf = h5._conf(a[0], a[1])
        FileDirectivePduBase(conf, DirectiveType.NONE, 0)._verify_file_len(a[2][0])
        return []
    if op == 1329:
        conf = h5._conf(a[0], a[1])
        idx, v = FileDirectivePduBase(conf, DirectiveType.NONE, 0).parse_fss_field(bytes(a[2]), a[3][0])
        return [[idx, v]]
    raise RuntimeError("bad op")


# ------------------------------------------------------------------ independent transcription (727.0-B-5, 5.2)
def directive_layout(ids, flags, direction, code, params):
    mode, large, crc, _, seg = flags
    dlen = 1 + len(params) + (2 if crc else 0)
    pre = h5.layout(ids, [mode, large, crc, direction, seg], [0, 0, dlen]) + [code] + list(params)
    if crc:
        c = h5.crc16_bitwise(pre)
        pre = pre + [c >> 8, c & 0xFF]
    return pre


def fss(flags):
    return 8 if flags[1] else 4


def eof_params(flags, checksum, size, cc, fault):
    out = [cc * 16] + list(checksum) + list(size.to_bytes(fss(flags), "big"))
    if fault and fault[0] == 1:
        out += [6, len(fault) - 1] + list(fault[1:])
    return out


def lay(kn, a, direction=None):
    ids, flags = a[0], a[1]
    if kn == "eof":
        return directive_layout(ids, flags, 0 if direction is None else direction, 4,
                                eof_params(flags, a[2], a[3][0], a[3][1], a[4]))
    if kn == "ack":
        code, cc, st = a[2]
        d = (0 if code == 5 else 1) if direction is None else direction
        return directive_layout(ids, flags, d, 6, [code * 16 + (1 if code == 5 else 0), cc * 16 + st])
    if kn == "prompt":
        return directive_layout(ids, flags, 0 if direction is None else direction, 9, [a[2][0] * 128])
    if kn == "ka":
        return directive_layout(ids, flags, 1 if direction is None else direction, 12, list(a[2][0].to_bytes(fss(flags), "big")))
    raise RuntimeError(kn)


def conf_ok(a):
    return h5.valid_args(a[0], a[1], [0, 0, 0])


def params_ok(kn, a, ignore_size=False):
    """valid parameter set (apart from the header configuration)"""
    flags = a[1]
    if kn == "eof":
        size, cc = a[3]
        fl = a[4]
        return (len(a[2]) == 4 and 0 <= cc <= 15 and (ignore_size or 0 <= size < 256 ** fss(flags))
                and (not (fl and fl[0] == 1) or len(fl) - 1 <= 255))
    if kn == "ack":
        code, cc, st = a[2]
        return code in (4, 5) and 0 <= cc <= 15 and 0 <= st <= 3
    if kn == "prompt":
        return a[2][0] in (0, 1)
    if kn == "ka":
        return ignore_size or 0 <= a[2][0] < 256 ** fss(flags)


def valid(kn, a):
    return conf_ok(a) and all(f in (0, 1) for f in a[1]) and params_ok(kn, a)


SPEC_OP = {"eof": 1330, "ack": 1331, "prompt": 1332, "ka": 1333}
NEEDED = {"eof": lambda large: 9 + (4 if large else 0), "ack": lambda large: 2, "prompt": lambda large: 1,
          "ka": lambda large: 8 if large else 4}


def std_decode(kn, b):
    """What the standard says the octets b[:declared length] of an accepted PDU contain: the parameter values,
    or None when the declared data field cannot hold the directive's parameters (a decoder must refuse).
    Also returns whether the data field is exactly as long as the parameters need."""
    hl = h5._declared(b)
    pl = hl + b[1] * 256 + b[2]
    crc = (b[0] >> 1) & 1
    large = b[0] & 1
    end = pl - 2 if crc else pl
    par = list(b[hl + 1:end])
    if end < hl + 1 or len(par) < NEEDED[kn](large):
        return None, False
    n = 8 if large else 4
    if kn == "eof":
        rest = par[5 + n:]
        fault = [0]
        exact = not rest
        if rest:
            if len(rest) < 2 or rest[0] != 6 or 2 + rest[1] > len(rest):
                return ("refuse",), False
            fault = [1] + rest[2:2 + rest[1]]
            exact = 2 + rest[1] == len(rest)
        return ([b[hl], par[0] // 16, int.from_bytes(bytes(par[5:5 + n]), "big")], par[1:5], fault), exact and par[0] % 16 == 0
    if kn == "ack":
        return ([b[hl], par[0] // 16, par[0] % 16, par[1] // 16, par[1] % 4],), len(par) == 2 and (par[1] // 4) % 4 == 0
    if kn == "prompt":
        return ([b[hl], par[0] // 128],), len(par) == 1 and par[0] % 128 == 0
    if kn == "ka":
        return ([b[hl], int.from_bytes(bytes(par[:n]), "big")],), len(par) == n


# ------------------------------------------------------------------ generators
def _rand_conf(rng, sl=None, ql=None, crc=None, large=None):
    sl = sl or rng.choice(WIDTHS); ql = ql or rng.choice(WIDTHS)
    ids = [rng.randrange(256 ** sl), sl, rng.randrange(256 ** sl), sl, rng.randrange(256 ** ql), ql]
    flags = [rng.randrange(2) for _ in range(5)]
    if crc is not None: flags[2] = crc
    if large is not None: flags[1] = large
    return ids, flags


def _rand_size(rng, large):
    w = 8 if large else 4
    return rng.choice([0, 1, 255, 256, 0x01020304, 2 ** (8 * w - 1), 256 ** w - 1, rng.randrange(256 ** w), rng.randrange(256 ** w)])


def _rand_fault(rng, n=None):
    if n is None:
        if rng.random() < 0.4:
            return [0]
        n = rng.choice([0, 1, 2, 4, 8, 1, 2, 3, 5])
    return [1] + [rng.randrange(256) for _ in range(n)]


def _rand_params(kn, rng, flags):
    if kn == "eof":
        return [[rng.randrange(256) for _ in range(4)], [_rand_size(rng, flags[1]), rng.randrange(16)], _rand_fault(rng)]
    if kn == "ack":
        return [[rng.choice([4, 5]), rng.randrange(16), rng.randrange(4)]]
    if kn == "prompt":
        return [[rng.randrange(2)]]
    if kn == "ka":
        return [[_rand_size(rng, flags[1])]]


def _rand_pdu(kn, rng, **kw):
    ids, flags = _rand_conf(rng, **kw)
    return [ids, flags] + _rand_params(kn, rng, flags)


def _suffix(rng):
    r = rng.random()
    if r < 0.3:
        n = rng.choice([0, 1, 2, 4, 8])
        return [6, n] + [rng.randrange(256) for _ in range(n)]        # looks like an entity-ID TLV
    if r < 0.5:
        kn = rng.choice(list(KINDS))
        a = _rand_pdu(kn, rng)
        return lay(kn, a)                                                # a further valid PDU
    if r < 0.6:
        return [rng.randrange(256)]
    return [rng.randrange(256) for _ in range(rng.randrange(1, 18))]


SIZES = [0, 1, 2 ** 31 - 1, 2 ** 31, 2 ** 32 - 1, 2 ** 32, 2 ** 32 + 1, 2 ** 63, 2 ** 64 - 1, 2 ** 64, 2 ** 64 + 1, 2 ** 65, -1, -2 ** 31]


def streams(tier, rng):
    big = tier == "thorough"
    B = {kn: k["base"] for kn, k in KINDS.items()}
    # 1. every header configuration (CRC x large x segctrl x mode x direction x 16 width pairs) for every kind
    cases = []
    for crc, large, seg, mode, direction in itertools.product((0, 1), repeat=5):
        for sl, ql in itertools.product(WIDTHS, WIDTHS):
            ids = [rng.choice(h5.bnd(sl)), sl, rng.choice(h5.bnd(sl)), sl, rng.choice(h5.bnd(ql)), ql]
            flags = [mode, large, crc, direction, seg]
            for kn in KINDS:
                reps = 2 if kn in ("eof", "ack", "prompt") else 1
                for r in range(reps):
                    par = _rand_params(kn, rng, flags)
                    if kn == "eof":
                        par[2] = _rand_fault(rng, rng.choice([1, 2, 4, 8])) if r else [0]
                    if kn == "ack":
                        par[0][0] = 4 + r
                    if kn == "prompt":
                        par[0][0] = r
                    a = [ids, flags] + par
                    cases.append((B[kn] + 1, a)); cases.append((B[kn] + 4, a + [[]]))
                    if big or rng.random() < 0.3:
                        cases.append((B[kn] + 0, a))
    yield "exh_configs_pack_roundtrip", "exact", cases
    # 2. every enum member / every value of the small parameter fields (and values just outside)
    cases = []
    for cc in list(range(-2, 18)) + [96, 255, 256]:
        for crc, large, fl in itertools.product((0, 1), (0, 1), (0, 1)):
            ids, flags = _rand_conf(rng, crc=crc, large=large)
            a = [ids, flags, [rng.randrange(256) for _ in range(4)], [_rand_size(rng, large), cc],
                 _rand_fault(rng, rng.choice([1, 2, 4, 8])) if fl else [0]]
            cases.append((1301, a)); cases.append((1304, a + [[]])); cases.append((1300, a))
    for code in list(range(-1, 17)) + [255]:
        for cc in list(range(-1, 17)):
            for st in range(-1, 5):
                for crc in (0, 1):
                    if not big and not (code in (4, 5) and 0 <= cc <= 15 and 0 <= st <= 3) and rng.random() < 0.7:
                        continue
                    ids, flags = _rand_conf(rng, crc=crc)
                    a = [ids, flags, [code, cc, st]]
                    cases.append((1311, a)); cases.append((1314, a + [[]]))
                    if rng.random() < 0.2:
                        cases.append((1310, a))
    for rr in (-1, 0, 1, 2, 3, 255, 256):
        for crc, large in itertools.product((0, 1), (0, 1)):
            ids, flags = _rand_conf(rng, crc=crc, large=large)
            a = [ids, flags, [rr]]
            cases.append((1316, a)); cases.append((1319, a + [[]])); cases.append((1315, a))
    yield "exh_enum_members", "exact", cases
    # 3. file size / progress: boundaries of the 32/64-bit range and beyond
    cases = []
    for large, crc in itertools.product((0, 1), (0, 1)):
        for v in SIZES + [0x01020304, 0x0102030405060708]:
            ids, flags = _rand_conf(rng, crc=crc, large=large)
            a = [ids, flags, [rng.randrange(256) for _ in range(4)], [v, rng.randrange(16)], _rand_fault(rng)]
            cases.append((1301, a)); cases.append((1304, a + [[]])); cases.append((1300, a))
            a = [ids, flags, [v]]
            cases.append((1321, a)); cases.append((1324, a + [[]])); cases.append((1320, a))
            cases.append((1328, [ids, flags, [v]]))
    yield "file_size_boundaries", "exact", cases
    # 4. EOF: checksum lengths, fault-location lengths (every entity-ID width and the TLV limits)
    cases = []
    for n in list(range(0, 12)) + [16, 254, 255, 256, 300]:
        for crc, large in itertools.product((0, 1), (0, 1)):
            ids, flags = _rand_conf(rng, crc=crc, large=large)
            a = [ids, flags, [rng.randrange(256) for _ in range(4)], [_rand_size(rng, large), rng.randrange(16)], _rand_fault(rng, n)]
            cases.append((1301, a)); cases.append((1304, a + [[]])); cases.append((1300, a))
    for n in (0, 1, 3, 5, 8):
        ids, flags = _rand_conf(rng)
        a = [ids, flags, [7] * n, [1, 0], [0]]
        cases.append((1301, a)); cases.append((1300, a))
    for sl, dl, ql in itertools.product((0, 1, 2, 3, 4, 8), repeat=3):   # widths the header refuses / unequal widths
        if sl == dl and sl in WIDTHS and ql in WIDTHS and rng.random() < 0.8:
            continue
        ids = [0, sl, 0, dl, 0, ql]
        flags = [0, rng.randrange(2), rng.randrange(2), 0, 0]
        cases.append((1300, [ids, flags, [0] * 4, [0, 0], [0]])); cases.append((1311, [ids, flags, [4, 0, 0]]))
        cases.append((1316, [ids, flags, [0]])); cases.append((1321, [ids, flags, [0]]))
    yield "eof_checksum_fault_lengths", "exact", cases
    # 4b. size sweep: every fault-location length 0..255 (+ 256 refused) for every (CRC, large); packet lengths
    #     straddle 256; special octet patterns in the entity ID
    cases = []
    for n in range(0, 257):
        if not big and 16 < n < 246 and n % 2 and n % 64 not in (63, 1):
            continue
        for crc, large in (itertools.product((0, 1), (0, 1)) if big or n < 10 else [(rng.randrange(2), rng.randrange(2))]):
            ids, flags = _rand_conf(rng, crc=crc, large=large)
            fl = [1] + [rng.choice([0x00, 0x80, 0xFF, 0x7F, rng.randrange(256)]) for _ in range(n)]
            a = [ids, flags, [rng.choice([0, 0x80, 0xFF, rng.randrange(256)]) for _ in range(4)], [_rand_size(rng, large), rng.randrange(16)], fl]
            cases.append((1304, a + [[]]))
            if n % 16 in (0, 15) or n > 250:
                cases.append((1301, a)); cases.append((1300, a))
    yield "sizes_eof_fault_location", "exact", cases
    # 5. random PDUs: pack, round trip, round trip with look-alike suffix, decode of layout ++ suffix
    cases = []
    for _ in range(8000 if big else 800):
        for kn in KINDS:
            a = _rand_pdu(kn, rng)
            sfx = _suffix(rng)
            cases.append((B[kn] + 1, a)); cases.append((B[kn] + 4, a + [[]])); cases.append((B[kn] + 4, a + [sfx]))
            p = lay(kn, a)
            cases.append((B[kn] + 2, [p + sfx])); cases.append((B[kn] + 3, [p]))
    yield "random_roundtrip_suffix", "exact", cases
    # 6. targeted malformed: every truncation; substitutions in header / length / directive / parameter octets;
    #    the length field set to every small value with a CRC that is right for the re-declared packet
    cases = []
    for _ in range(60 if big else 10):
        for kn in KINDS:
            a = _rand_pdu(kn, rng)
            p = lay(kn, a)
            hl = 4 + 2 * a[0][1] + a[0][5]
            op = B[kn] + 2
            for n in range(len(p) + 1):
                cases.append((op, [p[:n]]))
                cases.append((1326, [p[:n]]))
            for i in list(range(4)) + [hl, hl + 1, hl + 2]:
                if i >= len(p):
                    continue
                for v in {0, 1, 0x0F, 0x10, 0x60, 0x7F, 0x80, 0xFF, (p[i] + 1) % 256, (p[i] - 1) % 256, p[i] ^ 0x08, p[i] ^ 0x02, p[i] ^ 0x01, p[i] ^ 0x10}:
                    q = list(p); q[i] = v
                    cases.append((op, [q])); cases.append((op, [q + [rng.randrange(256) for _ in range(3)]]))
            for dl in list(range(0, 18)) + [len(p) - hl - 1, len(p) - hl + 1, len(p) - hl + 2, 65535]:
                if dl < 0:
                    continue
                for tail in ([], [rng.randrange(256) for _ in range(rng.choice([1, 2, 9]))]):
                    q = list(p) + tail; q[1] = dl >> 8; q[2] = dl & 0xFF
                    cases.append((op, [q]))
                    if q[0] & 2 and 2 <= hl + dl <= len(q):
                        c = h5.crc16_bitwise(q[:hl + dl - 2]); q2 = list(q); q2[hl + dl - 2:hl + dl] = [c >> 8, c & 0xFF]
                        cases.append((op, [q2])); cases.append((op + 1, [q2]))
    # minimal packets: header + data field of 0..16 octets for each (crc, large), correct CRC, with / without trailing octets
    for crc, large, dl in itertools.product((0, 1), (0, 1), range(0, 17)):
        for kn in KINDS:
            ids, flags = _rand_conf(rng, crc=crc, large=large)
            code = {"eof": 4, "ack": 6, "prompt": 9, "ka": 12}[kn]
            hdr = h5.layout(ids, [flags[0], large, crc, rng.randrange(2), flags[4]], [0, 0, dl])
            body = ([code] + [rng.choice([0, 6, 1, 0x80, 0x45, 0xFF, rng.randrange(256)]) for _ in range(dl)])[:dl]
            q = hdr + body
            if crc and dl >= 2:
                c = h5.crc16_bitwise(q[:-2]); q[-2:] = [c >> 8, c & 0xFF]
            for tail in ([], [6, 1, 9], [rng.randrange(256) for _ in range(rng.choice([1, 2, 4, 12]))]):
                cases.append((B[kn] + 2, [q + tail])); cases.append((B[kn] + 3, [q + tail]))
    yield "targeted_malformed", "exact", cases
    # 7. histories of setter calls (EOF fault location, Keep Alive file flag)
    cases = []
    for _ in range(3000 if big else 500):
        a = _rand_pdu("eof", rng)
        ops = [_rand_fault(rng, rng.choice([None, None, 0, 3, 8, 255, 256])) for _ in range(rng.randrange(0, 5))]
        cases.append((1305, a + ops))
        a = _rand_pdu("ka", rng)
        ops = [[rng.choice([0, 1, 0, 1, 2])] for _ in range(rng.randrange(0, 5))]
        cases.append((1325, a + ops))
    yield "setter_histories", "exact", cases
    # 8. FileDirectivePduBase: pack with every directive code, parse_fss_field at every index, _verify_file_len
    cases = []
    for code in list(range(-1, 17)) + [255, 256]:
        for pl in (0, 1, 9, 65534, 65535):
            ids, flags = _rand_conf(rng)
            cases.append((1327, [ids, flags, [code, pl]]))
    for _ in range(1500 if big else 300):
        ids, flags = _rand_conf(rng)
        raw = [rng.randrange(256) for _ in range(rng.randrange(0, 20))]
        cases.append((1329, [ids, flags, raw, [rng.randrange(0, 22)]]))
        cases.append((1328, [ids, flags, [rng.choice(SIZES)]]))
    yield "file_directive_base", "exact", cases
    # 8b. C04: CRC-flagged packed PDUs with every single-bit flip and with bursts of up to 16 bits, at every bit
    #     offset outside octets 1..3 and the CRC flag bit; also flips inside those fields (correspondence only)
    cases = []
    for _ in range(30 if big else 5):
        for kn in KINDS:
            a = _rand_pdu(kn, rng, crc=1)
            p = lay(kn, a)
            nb = 8 * len(p)
            for pos in range(nb):
                for blen in ([1] + ([rng.choice([2, 3, 8, 15, 16])] if rng.random() < 0.5 else [])) if not big else (1, 2, 3, 8, 15, 16):
                    if pos + blen > nb:
                        continue
                    bits = [pos, pos + blen - 1] + [q for q in range(pos + 1, pos + blen - 1) if rng.random() < 0.5]
                    e = [0] * len(p)
                    for q in set(bits):
                        e[q // 8] |= 0x80 >> (q % 8)
                    cases.append((XOR_OP[kn], [p, e]))
    yield "crc_corruption", "exact", cases
    # PDUs whose (correct) CRC-16 trailer is 0x0000 / 0xFFFF / has a zero octet / a single bit (a derived quantity random
    # packets hit once in 65536; found by steering the sequence number, c05.steer_crc): decode, re-pack, round trip
    cases = []
    for kn in KINDS:
        base = KINDS[kn]["base"]
        for sl, ql in (itertools.product(WIDTHS, WIDTHS) if big else [(1, 1), (1, 2), (2, 1), (2, 4), (4, 8), (8, 8)]):
            for target in h5.crc_targets(rng):
                for _ in range(50):
                    a = _rand_pdu(kn, rng, sl=sl, ql=ql, crc=1)
                    if valid(kn, a):
                        break
                b2 = h5.steer_crc(lay(kn, a), target)
                a2 = [list(x) for x in a]; a2[0] = h5.ids_of(b2)
                if lay(kn, a2) != b2:
                    raise RuntimeError("steered PDU is not the layout of its arguments")
                cases.append((base + 2, [b2])); cases.append((base + 3, [b2])); cases.append((base + 4, a2 + [[]])); cases.append((base + 1, a2))
                cases.append((base + 2, [b2 + [rng.randrange(256) for _ in range(rng.choice([1, 3]))]]))
                q = list(b2); q[-1 - rng.randrange(2)] ^= 1 << rng.randrange(8)
                cases.append((base + 2, [q]))
    yield "crc_trailer_special_values", "exact", cases
    # 9. garbage: random octets biased to directive headers with valid widths, consistent lengths and right CRC
    cases = []
    for _ in range(12000 if big else 1500):
        n = rng.randrange(0, 44)
        d = [rng.randrange(256) for _ in range(n)]
        if d and rng.random() < 0.85:
            d[0] = 0x20 | (d[0] & 0x0F)
        if len(d) > 3 and rng.random() < 0.85:
            d[3] = (d[3] & 0x88) | rng.choice([0, 1, 3, 7]) << 4 | rng.choice([0, 1, 3, 7])
            hl = 4 + 2 * (((d[3] >> 4) & 7) + 1) + (d[3] & 7) + 1
            if rng.random() < 0.85 and len(d) >= hl:
                dl = len(d) - hl - rng.choice([0, 0, 0, 1, 2, 5])
                if dl >= 0:
                    d[1] = dl >> 8; d[2] = dl & 0xFF
                    if len(d) > hl and rng.random() < 0.6:
                        d[hl] = rng.choice([4, 6, 9, 12])
                    if d[0] & 2 and dl >= 2 and rng.random() < 0.85:
                        c = h5.crc16_bitwise(d[:hl + dl - 2]); d[hl + dl - 2:hl + dl] = [c >> 8, c & 0xFF]
        for kn in KINDS:
            cases.append((B[kn] + 2, [d]))
        cases.append((1326, [d]))
        if rng.random() < 0.3:
            cases.append((B[rng.choice(list(KINDS))] + 3, [d]))
    yield "garbage", "verdict", cases
    # 10. operation histories (harness/props/c06h.py, model Run/DirHist.v)
    from harness.props import c06h
    for st in c06h.streams_for(["eof", "ack", "prompt", "ka"], tier, rng, "a"):
        yield st


# ------------------------------------------------------------------ oracle
VALUE_CODES = (1, 2, 3)
DOC = lambda code: code not in core.UNDOCUMENTED and code != 97


def oracle_spec(case, ires):
    op, a = case
    kn, sub = _kind_of(op)
    if kn is not None and sub in (1, 4) and valid(kn, a[:KINDS[kn]["nargs"]]):
        return [(SPEC_OP[kn], a[:KINDS[kn]["nargs"]])]
    return []


def _decoded_params(kn, ires, off):
    """the kind-specific part of a fields list starting at index off"""
    return tuple(ires[off:off + (3 if kn == "eof" else 1)])


def _check_decoded(kn, name, b, ires):
    """An accepted octet string: the decoded parameters must be those that the octets inside the declared PDU
    (in front of its CRC trailer) denote per the standard; a data field too short for them must be refused."""
    hd, ids, flags, lens = ires[1:5]
    hl = 4 + 2 * ids[1] + ids[5]
    exp, _ = std_decode(kn, b)
    got = _decoded_params(kn, ires, 5)
    if exp is None:
        return ("C06/%s.unpack/reads-beyond-declared-length" % name,
                "octets %s declare a data field of %d octets (CRC flag %d), too short for the directive parameters, but were decoded as %s"
                % (list(b[:44]), b[1] * 256 + b[2], (b[0] >> 1) & 1, got))
    if exp == ("refuse",):
        return ("C06/%s.unpack/malformed-fault-location-accepted" % name,
                "octets %s: the fault location inside the declared data field is not an entity-ID TLV, decoded as %s" % (list(b[:44]), got))
    if got != exp:
        if kn == "eof" and got[0][1] != exp[0][1] and got[1:] == exp[1:] and got[0][0] == exp[0][0] and got[0][2] == exp[0][2]:
            return ("C06/EofPdu.unpack/condition-code", "condition code %d decoded as %d (octets %s)" % (exp[0][1], got[0][1], list(b[:30])))
        return ("C06/%s.unpack/fold-in" % name,
                "octets %s (declared packet length %d, CRC flag %d) decoded to %s, the octets inside the declared PDU say %s"
                % (list(b[:44]), hl + b[1] * 256 + b[2], (b[0] >> 1) & 1, got, exp))
    if lens[0] != hl:
        return ("C06/%s.unpack/header-len" % name, "header_len %s, expected %d" % (lens, hl))
    return None


def oracle(case, ires, sres):
    """The property itself, evaluated on the implementation's observable behaviour."""
    op, a = case
    if 1306 <= op <= 1309:
        from harness.props import c06h
        return c06h.oracle(case, ires, sres)
    err = ires[0][0] == 1
    code = ires[0][1] if err else None
    kn, sub = _kind_of(op)
    if kn is None and op in XOR_KIND:
        p, e = a
        name = KINDS[XOR_KIND[op]]["name"]
        if not any(e) or any(e[1:4]) or (e[0] & 2) or not (p[0] & 2):
            if err and not DOC(code):
                return ("C06/%s.unpack/undocumented-error" % name, "unpack(%s) escaped with %s" % ([x ^ y for x, y in zip(p, e)][:40], core.ERR_NAMES.get(code, code)))
            return None
        setbits = [8 * i + j for i, x in enumerate(e) for j in range(8) if x & (0x80 >> j)]
        if setbits[-1] - setbits[0] >= 16:
            return None
        if not err or not DOC(code):
            return ("C06/%s.unpack/corrupted-accepted" % name,
                    "CRC-flagged PDU %s with bits %s flipped was %s" % (p[:40], setbits, "accepted" if not err else core.ERR_NAMES.get(code, code)))
        return None
    if kn is None:
        if op == 1326 and err and not DOC(code):
            return ("C06/FileDirectivePduBase.unpack/undocumented-error", "unpack(%s) escaped with %s" % (a[0][:40], core.ERR_NAMES.get(code, code)))
        if op == 1328:
            ids, flags, (v,) = a
            if not conf_ok(a):
                return None
            lim = 256 ** fss(flags)
            if v >= lim and not err:
                return ("C06/FileDirectivePduBase._verify_file_len/too-large-accepted",
                        "file size %d accepted for a %d-octet field" % (v, fss(flags)))
            if 0 <= v < lim and err:
                return ("C06/FileDirectivePduBase._verify_file_len/valid-refused", "file size %d refused" % v)
        return None
    k = KINDS[kn]
    name = k["name"]
    na = k["nargs"]
    if sub in (0, 1, 4, 5) and not (conf_ok(a) and all(f in (0, 1) for f in a[1])):
        return None
    if sub == 1:
        if not params_ok(kn, a, ignore_size=True):
            return None
        if not params_ok(kn, a):
            if not err:
                return ("C06/%s.pack/too-large-not-refused" % name,
                        "value %s does not fit the %d-octet field but was packed: %s" % (a[3][0] if kn == "eof" else a[2][0], fss(a[1]), ires[1][:40]))
            return None
        exp = lay(kn, a)
        if err or ires[1] != exp or not sres or sres[0][1] != exp:
            return ("C06/%s.pack/layout" % name, "pack%s = %s, standard says %s" % ([x[:12] for x in a[:na]], ires[1][:48] if not err else ires, exp[:48]))
        return None
    if sub == 0:
        if not params_ok(kn, a, ignore_size=True):
            return None
        if err:
            if not params_ok(kn, a) and code in VALUE_CODES:
                return None         # a file size / progress the selected width cannot hold: refused by the constructor instead of by pack()
            return ("C06/%s.__init__/refuses-valid" % name, "valid parameters refused: %s" % ires)
        hl = 4 + 2 * a[0][1] + a[0][5]
        b = [list(x) for x in a[:na]]
        if kn == "eof": b[3] = [0, a[3][1]]
        if kn == "ka": b[2] = [0]
        exp = lay(kn, b)
        if ires[4] != [hl, len(exp)] or ires[1][2] != len(exp) - hl:
            return ("C06/%s/data-field-len" % name, "header_len/packet_len %s, data field length %d; the packed PDU has %d octets" % (ires[4], ires[1][2], len(exp)))
        if ires[-2:] != [a[0], a[1]]:
            return ("C06/%s.__init__/caller-conf-modified" % name, "caller's PduConfig %s -> %s" % ([a[0], a[1]], ires[-2:]))
        return None
    if sub == 4:
        sfx = a[na] if len(a) > na else []
        if not valid(kn, a[:na]):
            return None
        exp = lay(kn, a)
        if err:
            if sfx and DOC(code):
                return None         # C09: a PDU followed by further octets may be refused with a documented error
            return ("C06/%s.unpack/roundtrip-refused" % name, "own output%s refused (%s): %s" % (" + suffix" if sfx else "", core.ERR_NAMES.get(code), exp[:48]))
        eq, hd, idsr, flagsr, lens = ires[1:6]
        got = _decoded_params(kn, ires, 6)
        repack = ires[-1]
        hl = 4 + 2 * a[0][1] + a[0][5]
        tag = "-suffix" if sfx else ""
        if kn == "eof":
            want = ([4, a[3][1], a[3][0]], list(a[2]), a[4] if a[4] and a[4][0] == 1 else [0])
        elif kn == "ack":
            want = ([6, a[2][0], 1 if a[2][0] == 5 else 0, a[2][1], a[2][2]],)
        elif kn == "prompt":
            want = ([9, a[2][0]],)
        else:
            want = ([12, a[2][0]],)
        if got != want:
            if kn == "eof" and got[0][1] != want[0][1] and got[0][0] == want[0][0] and got[0][2] == want[0][2] and got[1:] == want[1:]:
                return ("C06/EofPdu.unpack/condition-code", "condition code %d decoded as %d" % (want[0][1], got[0][1]))
            return ("C06/%s.unpack/parameters%s" % (name, tag), "parameters %s decoded as %s (crc=%d, large=%d, %d suffix octets)" % (want, got, a[1][2], a[1][1], len(sfx)))
        if lens != [hl, len(exp)] or hd != [0, 0, len(exp) - hl]:
            return ("C06/%s.unpack/length%s" % (name, tag), "decoded header %s lens %s, packed PDU has %d octets (header %d)" % (hd, lens, len(exp), hl))
        if idsr != a[0] or flagsr != [a[1][0], a[1][1], a[1][2], exp[0] >> 3 & 1, a[1][4]]:
            return ("C06/%s.unpack/header-fields%s" % (name, tag), "%s %s decoded as %s %s" % (a[0], a[1], idsr, flagsr))
        if eq[0] == 2:
            return ("C06/%s.__eq__/raises" % name, "comparing the decoded PDU with the original raised %s (fault location %s)"
                    % (core.ERR_NAMES.get(eq[1], eq[1]), a[4] if kn == "eof" else None))
        if eq != [1]:
            return ("C06/%s.__eq__/roundtrip%s" % (name, tag), "decoded PDU not equal to the original")
        if repack != [0] + exp:
            return ("C06/%s.pack/repack%s" % (name, tag), "re-packed %s, original %s" % (repack[:48], exp[:48]))
        if sres and sres[0][1] != exp:
            return ("C06/%s.pack/layout" % name, "Coq spec layout differs from the packed octets")
        return None
    if sub == 2:
        b = a[0]
        if err:
            if not DOC(code):
                return ("C06/%s.unpack/undocumented-error" % name, "unpack(%s) escaped with %s" % (b[:40], core.ERR_NAMES.get(code, code)))
            return None
        return _check_decoded(kn, name, b, ires)
    if sub == 3:
        b = a[0]
        if err or len(b) < 4:
            return None
        hl = h5._declared(b)
        if len(b) < hl:
            return None
        pl = hl + b[1] * 256 + b[2]
        exp, exact = std_decode(kn, b)
        if exp not in (None, ("refuse",)) and exact and not (b[0] & 0x10) and ires[1] != list(b[:pl]):
            return ("C06/%s.unpack-pack/repack" % name, "unpack(%s).pack() = %s" % (b[:40], ires[1][:40]))
        return None
    if sub == 5:
        if err:
            return None
        if kn == "eof":
            got = _decoded_params(kn, ires, 5)
            plen, p1, p2 = ires[8:11]
            final = [a[0], a[1], got[1], [got[0][2], got[0][1]], got[2]]
        else:
            got = _decoded_params(kn, ires, 5)
            plen, p1, p2 = ires[6:9]
            fl = list(ires[3])
            final = [a[0], fl, [got[0][1]]]
        if p1 != p2:
            return ("C06/%s.pack/not-repeatable" % name, "two packs differ")
        if p1[0] == 0:
            if plen != [len(p1) - 1] or ires[4][1] != len(p1) - 1:
                return ("C06/%s.setters/length" % name, "packet_len %s after %s, %d octets packed" % (plen, [o[:6] for o in a[na:]], len(p1) - 1))
            if valid(kn, final) and p1[1:] != lay(kn, final):
                return ("C06/%s.setters/fresh" % name, "octets after setters %s differ from a fresh PDU with the same values %s" % (p1[1:40], lay(kn, final)[:40]))
        return None
    return None


def neighbours(case):
    op, a = case
    out = []
    kn, sub = _kind_of(op)
    if op == 1326 or sub in (2, 3):
        for n in range(min(len(a[0]), 40)):
            out.append((op, [a[0][:n]]))
        for i in range(min(4, len(a[0]))):
            for bit in range(8):
                l = list(a[0]); l[i] ^= 1 << bit; out.append((op, [l]))
    elif sub in (0, 1, 4):
        for crc in (0, 1):
            for large in (0, 1):
                b = [list(x) for x in a]; b[1][2] = crc; b[1][1] = large; out.append((op, b))
    return out


# ---- registry for the cross-cutting checks C09 / C10
def _valid_of(kn):
    def f(rng):
        return [lay(kn, _rand_pdu(kn, rng)) for _ in range(40)]
    return f


def _declared(b):
    return h5._declared(b) + b[1] * 256 + b[2]


DECODERS = [
    {"op": 1302, "name": "EofPdu.unpack", "extra": [], "valid": _valid_of("eof"), "declared_len": _declared},
    {"op": 1312, "name": "AckPdu.unpack", "extra": [], "valid": _valid_of("ack"), "declared_len": _declared},
    {"op": 1317, "name": "PromptPdu.unpack", "extra": [], "valid": _valid_of("prompt"), "declared_len": _declared},
    {"op": 1322, "name": "KeepAlivePdu.unpack", "extra": [], "valid": _valid_of("ka"), "declared_len": _declared},
    {"op": 1326, "name": "FileDirectivePduBase.unpack", "extra": [], "valid": _valid_of("ack"), "declared_len": lambda b: h5._declared(b) + 1},
]
