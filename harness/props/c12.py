"""C12 — the PDU factory and holder (spacepackets/cfdp/pdu/helper.py).  Streams, implementation
adapter, oracle.  Ops 1500-1517 (family 15, Run/DispFactory.v).  The eight PDU kinds are driven with
the argument formats, field marshalling and independent layout transcriptions of their own
families (harness/props/c07.py, c06a.py, c06b.py, c06c.py)."""
import gc
import itertools
import warnings
from harness import core
from harness.props import c05 as h5, c07 as h7, c06a as ha, c06b as hb, c06c as hc
from spacepackets.cfdp.pdu.helper import PduFactory, PduHolder
from spacepackets.cfdp.pdu import (AckPdu, EofPdu, FinishedPdu, MetadataPdu, NakPdu, PromptPdu, KeepAlivePdu)
from spacepackets.cfdp.pdu.file_data import FileDataPdu

ID = "C12"
_F = "SP.Model.FileDirective."
_H = "SP.Model.PduHeader."
ENUMS = [
    ("spacepackets.cfdp.pdu.helper:DirectiveType.EOF_PDU", _F + "DT_EOF"),
    ("spacepackets.cfdp.pdu.helper:DirectiveType.FINISHED_PDU", _F + "DT_FINISHED"),
    ("spacepackets.cfdp.pdu.helper:DirectiveType.ACK_PDU", _F + "DT_ACK"),
    ("spacepackets.cfdp.pdu.helper:DirectiveType.METADATA_PDU", _F + "DT_METADATA"),
    ("spacepackets.cfdp.pdu.helper:DirectiveType.NAK_PDU", _F + "DT_NAK"),
    ("spacepackets.cfdp.pdu.helper:DirectiveType.PROMPT_PDU", _F + "DT_PROMPT"),
    ("spacepackets.cfdp.pdu.helper:DirectiveType.KEEP_ALIVE_PDU", _F + "DT_KEEP_ALIVE"),
    ("spacepackets.cfdp.pdu.helper:DirectiveType.NONE", _F + "DT_NONE"),
    ("spacepackets.cfdp.pdu.helper:PduType.FILE_DIRECTIVE", _H + "PDU_FILE_DIRECTIVE"),
    ("spacepackets.cfdp.pdu.helper:PduType.FILE_DATA", _H + "PDU_FILE_DATA"),
    ("spacepackets.cfdp.pdu.header:AbstractPduBase.FIXED_LENGTH", _H + "FIXED_LENGTH"),
]
ASSUMPTIONS = sorted(set(h5.ASSUMPTIONS + [
    "the eight <Pdu>.unpack models are those of C06 / C07 (tied by their own correspondence streams); here they are "
    "exercised again through the factory",
    "isinstance / typing.cast of the holder are modelled by the constructor of the sum type `pdu`; a user-defined class "
    "implementing AbstractFileDirectiveBase is outside the model",
    "the deprecated PduHolder.base property only forwards to PduHolder.pdu (its DeprecationWarning is not observed)",
]))
TRUSTED = ["crcmod 1.7 (C extension) as CRC-16/CCITT-FALSE"]
EXPLORED_ONLY = [
    "op 1599 / stream explore_holder_object_identity (outside the model: object identity / the allocator): one holder (or a "
    "fresh one per PDU) takes several hundred PDUs in a row, each of ANOTHER kind than the one before, built directly by "
    "the constructors from one existing PduConfig right after every reference to the previous PDU was dropped and the "
    "collector ran (CPython hands the address of the released PDU to the next one): pdu_type, is_file_directive, "
    "pdu_directive_type, packet_len, pack() and all eight typed accessors answer for the PDU that is stored NOW (the "
    "accessor of its kind returns that very object, the seven others raise TypeError)",
]
ORACLE_LIMIT = {"quick": 30000, "thorough": 100000}
WIDTHS = (1, 2, 4, 8)
OP_RANGE = (1500, 1599)
DOC = lambda code: code not in core.UNDOCUMENTED and code != 97

# class index: 0 file data, 1 EOF, 2 Finished, 3 ACK, 4 Metadata, 5 NAK, 6 Prompt, 7 Keep Alive
NAMES = ["FileDataPdu", "EofPdu", "FinishedPdu", "AckPdu", "MetadataPdu", "NakPdu", "PromptPdu", "KeepAlivePdu"]
CLASSES = [FileDataPdu, EofPdu, FinishedPdu, AckPdu, MetadataPdu, NakPdu, PromptPdu, KeepAlivePdu]
CODE = [None, 4, 5, 6, 7, 8, 9, 12]          # directive code of class k
CODE2KIND = {4: 1, 5: 2, 6: 3, 7: 4, 8: 5, 9: 6, 12: 7}
TO = ["to_file_data_pdu", "to_eof_pdu", "to_finished_pdu", "to_ack_pdu", "to_metadata_pdu", "to_nak_pdu",
      "to_prompt_pdu", "to_keep_alive_pdu"]
FIELDS = [h7._fields, ha._eof_fields, hb._fin_fields, ha._ack_fields, hb._md_fields, hc._fields, ha._prompt_fields, ha._ka_fields]
MK = [lambda a: h7._pdu(a)[0], lambda a: ha._eof(a)[0], lambda a: hb._fin(a)[0], lambda a: ha._ack(a)[0],
      lambda a: hb._md(a)[0], lambda a: hc._pdu(a)[0], lambda a: ha._prompt(a)[0], lambda a: ha._ka(a)[0]]
RAND = [lambda rng, **kw: h7._rand_pdu(rng, **kw), lambda rng, **kw: ha._rand_pdu("eof", rng, **kw),
        lambda rng, **kw: hb._rand_fin(rng, small=True, **kw), lambda rng, **kw: ha._rand_pdu("ack", rng, **kw),
        lambda rng, **kw: hb._rand_md(rng, small=True, **kw), lambda rng, **kw: hc._rand_pdu(rng, **kw),
        lambda rng, **kw: ha._rand_pdu("prompt", rng, **kw), lambda rng, **kw: ha._rand_pdu("ka", rng, **kw)]
LAY = [h7.lay, lambda a: ha.lay("eof", a), hb.fin_lay, lambda a: ha.lay("ack", a), hb.md_lay, hc.lay,
       lambda a: ha.lay("prompt", a), lambda a: ha.lay("ka", a)]
VALID = [h7.valid_fd, lambda a: ha.valid("eof", a), hb.valid_fin, lambda a: ha.valid("ack", a), hb.valid_md, hc.valid_nak,
         lambda a: ha.valid("prompt", a), lambda a: ha.valid("ka", a)]


# ------------------------------------------------------------------ adapter
def _kind(p):
    for k, c in enumerate(CLASSES):
        if isinstance(p, c):
            return k
    raise RuntimeError("unknown PDU class %r" % type(p))


def _pdu_fields(p):
    k = _kind(p)
    return [[k]] + FIELDS[k](p)


def _opt_fields(p):
    return [[-1]] if p is None else _pdu_fields(p)


def _res_bytes(f):
    try:
        return [0] + list(f())
    except Exception as e:  # noqa
        return [1, core.classify_exception(e)]


def _res_bool(f):
    try:
        return [0, int(bool(f()))]
    except Exception as e:  # noqa
        return [1, core.classify_exception(e)]


def _opt(v):
    return [0] if v is None else [1, int(v)]


def _inspect(h):
    return [[int(h.pdu_type)], [int(h.is_file_directive)], _opt(h.pdu_directive_type)]


def _holder_state(p):
    f = _opt_fields(p)
    return [[len(f)]] + f


def _apply_holder_op(h, l):
    """one operation of Model/FactoryOps.v (holder_op) on the holder object h"""
    k = l[0] if l else -1
    if k == 1 and len(l) >= 2:
        style, data = l[1], l[2:]
        if style == 1:
            buf = bytearray(data)
            pdu = PduFactory.from_raw(buf)
            h5.scramble(buf)
            h.pdu = pdu
        elif style == 2:
            h.base = PduFactory.from_raw(bytes(data))
        elif style == 3:
            h.pdu = PduFactory.from_raw_to_holder(bytes(data)).pdu
        elif style == 4:
            # the PDU held so far is released BEFORE the next one is created (its address is free for the new one);
            # octets the factory refuses leave the holder as it was, so they are tried first
            PduFactory.from_raw(bytes(data))
            h.pdu = None
            gc.collect(0)
            h.pdu = PduFactory.from_raw(bytes(data))
        else:
            h.pdu = PduFactory.from_raw(bytes(data))
        return []
    if k == 2:
        h.pdu = None; return []
    if k == 3:
        return [int(h.pdu_type), int(h.is_file_directive)] + _opt(h.pdu_directive_type)
    if k == 4:
        return [h.packet_len]
    if k == 5:
        return list(h.pack())
    if k == 6 and len(l) >= 2 and 0 <= l[1] <= 7:
        return [_kind(getattr(h, TO[l[1]])())]
    if k == 7 and len(l) >= 2:
        h.to_file_data_pdu().file_data = bytearray(l[2:]) if l[1] & 1 else bytes(l[2:]); return []
    raise RuntimeError("bad op")


core.NO_THREAD_OPS.update(range(1500, 1530))   # catch_warnings below swaps the process-wide filter list
core.NO_THREAD_OPS.add(1599)
core.NO_LIVE_PROBE_OPS.add(1599)   # thousands of objects per case


# ------------------------------------------------------------------ exploration outside the model (op 1599)
def _explore_identity(a):
    from spacepackets.cfdp.defs import ConditionCode, DeliveryCode, FileStatus, ChecksumType
    from spacepackets.cfdp.pdu.file_directive import DirectiveType
    from spacepackets.cfdp.pdu.ack import TransactionStatus
    from spacepackets.cfdp.pdu.prompt import ResponseRequired
    from spacepackets.cfdp.pdu.finished import FinishedParams
    from spacepackets.cfdp.pdu.metadata import MetadataParams
    from spacepackets.cfdp.pdu.file_data import FileDataParams
    rounds = a[0][1]
    conf = h5._conf(a[1], a[2])
    vals = a[3]
    large = a[2][1] == 1
    fdp = FileDataParams(file_data=bytes(a[4][:40]), offset=7)
    finp = FinishedParams(condition_code=ConditionCode.NO_ERROR, delivery_code=DeliveryCode.DATA_COMPLETE, file_status=FileStatus.FILE_RETAINED)
    mdp = MetadataParams(True, ChecksumType.MODULAR, 12, "a.txt", "b.txt")
    cs = bytes([1, 2, 3, 4])
    build = [lambda: FileDataPdu(conf, fdp), lambda: EofPdu(conf, cs, 12), lambda: FinishedPdu(conf, finp),
             lambda: AckPdu(conf, DirectiveType.EOF_PDU, ConditionCode.NO_ERROR, TransactionStatus.ACTIVE),
             lambda: MetadataPdu(conf, mdp), lambda: NakPdu(conf, 0, 10), lambda: PromptPdu(conf, ResponseRequired.KEEP_ALIVE),
             lambda: KeepAlivePdu(conf, 77)]
    raws = [bytes(b().pack()) for b in build]      # the packed form of each kind, for the factory
    junk = raws[7]
    h = PduHolder(None)
    pdu = got = None
    prev = -1
    gc.collect()
    for r in range(rounds):
        x = vals[r % len(vals)] + r // len(vals)
        k = x % 8
        if k == prev:
            k = (k + 1 + (x >> 8) % 7) % 8
        style = (x >> 3) % 4
        # every reference to the previous PDU goes away ...
        if style == 3:
            h = None
        else:
            h.pdu = None
        pdu = got = None
        if r % 64 == 0:
            gc.collect()
        else:
            gc.collect(0)
        # ... then the next PDU, of another kind, is created and stored
        if (x >> 10) & 3 == 3:
            for _ in range((x >> 12) % 4):            # other traffic is decoded and dropped in between
                PduFactory.from_raw(junk)
            pdu = PduFactory.from_raw(raws[k])
        else:
            pdu = build[k]()
        if style == 3:
            h = PduHolder(pdu)
        elif style == 2:
            with warnings.catch_warnings():
                warnings.simplefilter("ignore")
                h.base = pdu
        else:
            h.pdu = pdu
        order = list(range(8))
        if x & 128:
            order.reverse()
        if style == 1:
            order = order[k:] + order[:k]
        if (x >> 5) & 1:
            if int(h.pdu_type) != (1 if k == 0 else 0) or bool(h.is_file_directive) != (k != 0):
                return [[0, 1, r, k]]
            dt = h.pdu_directive_type
            if (dt is None) != (k == 0) or (dt is not None and int(dt) != CODE[k]):
                return [[0, 2, r, k, -1 if dt is None else int(dt)]]
        for j in order:
            try:
                got = getattr(h, TO[j])()
            except TypeError:
                if j == k:
                    return [[0, 3, r, k, j]]
                continue
            if j != k or got is not pdu:
                return [[0, 4, r, k, j, _kind(got)]]
        dt = h.pdu_directive_type
        if (dt is None) != (k == 0) or (dt is not None and int(dt) != CODE[k]):
            return [[0, 2, r, k, -1 if dt is None else int(dt)]]
        if h.packet_len != pdu.packet_len or h.pack() != pdu.pack():
            return [[0, 5, r, k]]
        prev = k
    return [[1]]


def impl(op, a):
    with warnings.catch_warnings():
        warnings.simplefilter("ignore")
        return _impl(op, a)


def _strict(f):
    """The typed accessors run with warnings escalated to errors (python -W error, pytest filterwarnings=error)."""
    with warnings.catch_warnings():
        warnings.simplefilter("error")
        return f()


def _impl(op, a):
    if op == 1599:
        # the live-object probe (harness/liveprobe.py) keeps every object created under its profiler alive and
        # snapshots all of them again and again: here that would both defeat the purpose (no address is ever handed
        # out again) and cost minutes for the thousands of short-lived PDUs -- the exploration runs unobserved
        import sys
        prof = sys.getprofile()
        sys.setprofile(None)
        try:
            return _explore_identity(a)
        finally:
            sys.setprofile(prof)
    if op == 1500:
        return _opt_fields(PduFactory.from_raw(bytes(a[0])))
    if op == 1501:
        return [[int(PduFactory.pdu_type(bytes(a[0])))]]
    if op == 1502:
        return [[int(PduFactory.is_file_directive(bytes(a[0])))]]
    if op == 1503:
        return [_opt(PduFactory.pdu_directive_type(bytes(a[0])))]
    if op == 1504:
        h = PduFactory.from_raw_to_holder(bytes(a[0]))
        return _pdu_fields(_strict(getattr(h, TO[a[1][0]])))
    if op == 1505:
        h = PduFactory.from_raw_to_holder(bytes(a[0]))
        return [_res_bytes(h.pack), [h.packet_len]]
    if op == 1506:
        return _inspect(PduFactory.from_raw_to_holder(bytes(a[0])))
    if op == 1507:
        h = PduHolder(CLASSES[a[1][0]].unpack(bytes(a[0])))
        return _pdu_fields(_strict(getattr(h, TO[a[2][0]])))
    if op == 1508:
        h = PduHolder(CLASSES[a[1][0]].unpack(bytes(a[0])))
        return _inspect(h) + [[h.packet_len]]
    if op == 1509:
        return _pdu_fields(_strict(getattr(PduHolder(None), TO[a[0][0]])))
    if op == 1520:
        b1, b2 = a[0], a[1]
        if a[2] and a[2][0] == 1:
            buf = bytearray(b1)                     # one receive buffer, used for both PDUs
            p1 = PduFactory.from_raw(buf)
            buf[:] = bytes(b2)
            p2 = PduFactory.from_raw(buf)
            h5.scramble(buf)
        else:
            p1 = PduFactory.from_raw(bytes(b1))
            p2 = PduFactory.from_raw(bytes(b2))
        return _holder_state(p1) + _holder_state(p2) + [_res_bytes(PduHolder(p1).pack), _res_bytes(PduHolder(p2).pack)]
    if op == 1521:
        h = PduHolder(None)
        return h5.run_history(a, lambda l: _apply_holder_op(h, l), lambda: _holder_state(h.pdu))
    if 1510 <= op <= 1517:
        p = MK[op - 1510](a)
        b = p.pack()
        p2 = PduFactory.from_raw(bytes(b))
        if p2 is None:
            return [[-1]]
        return [[_kind(p2)], _res_bool(lambda: p2 == p), _res_bytes(p2.pack), list(b)]
    raise RuntimeError("bad op")


# ------------------------------------------------------------------ what the octets say
def octet_kind(b):
    """Class index the packed octets b denote (PDU type bit, directive octet behind the header), None when the
    directive code is not one of the seven, 'short' when the octets end before it."""
    if len(b) < 1:
        return "short"
    if (b[0] >> 4) & 1:
        return 0
    if len(b) < 4:
        return "short"
    hl = h5._declared(b)
    if len(b) <= hl:
        return "short"
    return CODE2KIND.get(b[hl])


def _valid_packed(rng, k, **kw):
    for _ in range(200):
        a = RAND[k](rng, **kw)
        if VALID[k](a):
            return a, LAY[k](a)
    raise RuntimeError("no valid PDU of kind %d" % k)


def streams(tier, rng):
    big = tier == "thorough"
    # 1. the 8 x 8 accessor table (+ the empty holder): every held kind x every typed accessor, all 16 width pairs
    cases = []
    for j in range(8):
        for sl, ql in itertools.product(WIDTHS, WIDTHS):
            _, b = _valid_packed(rng, j, sl=sl, ql=ql)
            for k in range(8):
                cases.append((1504, [b, [k]]))
            cases.append((1506, [b])); cases.append((1505, [b]))
    for sl, ql in itertools.product(WIDTHS, WIDTHS):     # directive code NONE (0x0A): from_raw returns None
        a, b = _valid_packed(rng, 6, sl=sl, ql=ql, crc=0)
        hl = h5._declared(b); b = list(b); b[hl] = 10
        for k in range(8):
            cases.append((1504, [b, [k]]))
        cases.append((1500, [b])); cases.append((1505, [b])); cases.append((1506, [b]))
    for k in range(8):
        cases.append((1509, [[k]]))
    yield "exh_holder_accessor_table", "exact", cases
    # 2. every kind x every header configuration (16 width pairs x CRC x large): from_raw of the packed PDU
    #    (kind, equality, re-pack), inspectors
    cases = []
    for k in range(8):
        for sl, ql in itertools.product(WIDTHS, WIDTHS):
            for crc, large in itertools.product((0, 1), (0, 1)):
                a, b = _valid_packed(rng, k, sl=sl, ql=ql, crc=crc, large=large)
                cases.append((1510 + k, a)); cases.append((1500, [b]))
                cases.append((1501, [b])); cases.append((1502, [b])); cases.append((1503, [b]))
    yield "exh_kinds_configs_from_raw", "exact", cases
    # 3. the directive octet: all 256 values behind headers of all 16 width pairs (both PDU type bits)
    cases = []
    for sl, ql in itertools.product(WIDTHS, WIDTHS):
        ids = [rng.randrange(256 ** sl), sl, rng.randrange(256 ** sl), sl, rng.randrange(256 ** ql), ql]
        for t in (0, 1):
            hdr = h5.layout(ids, [rng.randrange(2), rng.randrange(2), 0, rng.randrange(2), 0], [t, 0, 12])
            for v in range(256):
                d = hdr + [v] + [rng.randrange(256) for _ in range(11)]
                cases.append((1503, [d]))
                if t == 0 or v % 16 == 0:
                    cases.append((1500, [d]))
    for o0 in range(256):                                  # first octet: PDU type bit
        d = [o0] + [rng.randrange(256) for _ in range(rng.choice([0, 3, 20]))]
        cases.append((1501, [d])); cases.append((1502, [d]))
    yield "exh_directive_octet_first_octet", "exact", cases
    # 4. random PDUs of every kind through the factory (valid and boundary-invalid parameters)
    cases = []
    for _ in range(6000 if big else 900):
        k = rng.randrange(8)
        a = RAND[k](rng)
        cases.append((1510 + k, a))
        if VALID[k](a):
            b = LAY[k](a)
            cases.append((1500, [b]))
            cases.append((1504, [b, [rng.randrange(8)]]))
            cases.append((1500, [b + [rng.randrange(256) for _ in range(rng.choice([1, 2, 8, 16]))]]))
    yield "random_factory_roundtrip", "exact", cases
    # 5. short inputs and truncations: every prefix of packed PDUs of every kind through every entry point
    cases = []
    for k in range(8):
        for _ in range(12 if big else 3):
            _, b = _valid_packed(rng, k)
            b = b[:60]
            for n in range(len(b) + 1):
                for op in (1500, 1501, 1502, 1503):
                    cases.append((op, [b[:n]]))
                if n < 6 or n % 3 == 0:
                    cases.append((1505, [b[:n]])); cases.append((1504, [b[:n], [k]]))
    yield "truncations_all_entry_points", "exact", cases
    # 6. targeted malformed: substitutions in the fixed header octets and the directive octet of valid PDUs
    cases = []
    for k in range(8):
        for _ in range(20 if big else 5):
            _, b = _valid_packed(rng, k)
            hl = h5._declared(b)
            for i in list(range(4)) + [hl]:
                if i >= len(b):
                    continue
                for v in {0, 1, 4, 5, 6, 7, 8, 9, 10, 11, 12, 13, 0x7F, 0x80, 0xFF, b[i] ^ 0x10, b[i] ^ 0x20, b[i] ^ 0x02, b[i] ^ 0x01,
                          (b[i] + 1) % 256, (b[i] - 1) % 256, b[i] ^ 0x70, b[i] ^ 0x07}:
                    q = list(b); q[i] = v
                    cases.append((1500, [q])); cases.append((1503, [q]))
    yield "targeted_malformed", "exact", cases
    # 7. a holder filled directly with <class j>.unpack(octets of kind i): accessors and inspectors
    cases = []
    for i in range(8):
        for _ in range(6 if big else 2):
            _, b = _valid_packed(rng, i)
            for j in range(8):
                cases.append((1508, [b, [j]]))
                for k in range(8):
                    cases.append((1507, [b, [j], [k]]))
    yield "holder_direct_unpack", "exact", cases
    # 9. two PDUs decoded in a row through the factory (two buffers, or one receive buffer used twice): the first one
    #    is looked at again after the second call
    cases = []
    for _ in range(4000 if big else 700):
        k1, k2 = rng.randrange(8), rng.randrange(8)
        b1, b2 = _valid_packed(rng, k1)[1], _valid_packed(rng, k2)[1]
        if rng.random() < 0.1:
            b2 = b2[:rng.randrange(len(b2))]
        cases.append((1520, [b1, b2, [rng.randrange(2)]]))
    for n in [511, 512, 513, 1024, 2048, 4096]:           # long file segments (the other kinds have no bulk field)
        for _ in range(2):
            a1 = h7._rand_pdu(rng); a1[3] = h7._special_data(rng, n)
            a2 = h7._rand_pdu(rng); a2[3] = h7._special_data(rng, n + rng.choice([-1, 0, 1]))
            if h7.valid_fd(a1) and h7.valid_fd(a2):
                cases.append((1520, [h7.lay(a1), h7.lay(a2), [1]]))
    yield "two_pdus_in_a_row", "exact", cases
    # 10. one holder object used again and again: filled through the factory (pdu attribute, deprecated base setter,
    #     from a bytearray that is overwritten afterwards), emptied, inspected, packed, typed accessors, the held File
    #     Data PDU edited through the accessor
    cases = []
    for _ in range(3000 if big else 500):
        ops, used = [], []
        for _ in range(rng.randrange(1, 11)):
            c = rng.choice([1, 1, 1, 2, 3, 4, 5, 6, 6, 7])
            if c == 1 and used and rng.random() < 0.35:
                ops.append([1, rng.randrange(5)] + rng.choice(used))      # the same octets arrive again
            elif c == 1:
                k = rng.choice([0, 0, rng.randrange(8)])
                b = _valid_packed(rng, k)[1]
                used.append(list(b))
                r = rng.random()
                if r < 0.1: b = b[:rng.randrange(len(b))]
                elif r < 0.15: b = list(b); b[0] ^= 0x40
                elif r < 0.2 and k: hl = h5._declared(b); b = list(b); b[hl] = 10
                ops.append([1, rng.randrange(5)] + b)
            elif c == 6:
                ops.append([6, rng.randrange(8)])
            elif c == 7:
                ops.append([7, rng.randrange(2)] + h7._special_data(rng, rng.choice([0, 1, 5, 64, 512, 600])))
            else:
                ops.append([c])
            if rng.random() < 0.15:
                ops.append(ops[-1])
        cases.append((1521, ops + [[5], [5]]))
    yield "holder_histories", "exact", cases
    # 10b. outside the model (op 1599, see EXPLORED_ONLY): holders re-used for PDUs that are created at the address of the
    #      PDU released just before
    cases = []
    for i in range(40 if big else 10):
        ids, flags = h7._rand_conf(rng)
        cases.append((1599, [[0, 600 if big else 240], ids, flags, [rng.randrange(2 ** 16) for _ in range(97)], h7._special_data(rng, 24)]))
    yield "explore_holder_object_identity", "exact", cases
    # 10c. PDUs whose (correct) CRC-16 trailer is 0x0000 / 0xFFFF / has a zero octet / a single bit -- a derived quantity no
    #      generator aims at and random packets hit once in 65536: found by steering the transaction sequence number
    #      (c05.steer_crc), for every kind and width pair (quick: 6 pairs), through the factory, the holder, the typed
    #      accessors, the inspectors, the class's own decoder, two-in-a-row and a holder history
    cases = []
    pairs = list(itertools.product(WIDTHS, WIDTHS)) if big else [(1, 1), (1, 2), (2, 1), (2, 4), (4, 8), (8, 8)]
    for k in range(8):
        for sl, ql in pairs:
            for target in h5.crc_targets(rng):
                a, b = _valid_packed(rng, k, sl=sl, ql=ql, crc=1)
                b2 = h5.steer_crc(b, target)
                a2 = [list(x) for x in a]; a2[0] = h5.ids_of(b2)
                if LAY[k](a2) != b2:
                    raise RuntimeError("steered PDU is not the layout of its arguments")
                cases.append((1510 + k, a2)); cases.append((1500, [b2])); cases.append((1505, [b2])); cases.append((1506, [b2]))
                cases.append((1504, [b2, [k]])); cases.append((1504, [b2, [rng.randrange(8)]]))
                cases.append((1507, [b2, [k], [k]])); cases.append((1508, [b2, [k]]))
                cases.append((1500, [b2 + [rng.randrange(256) for _ in range(rng.choice([1, 2, 9]))]]))
                other = _valid_packed(rng, rng.randrange(8))[1]
                cases.append((1520, [b2, other, [rng.randrange(2)]])); cases.append((1520, [other, b2, [rng.randrange(2)]]))
                cases.append((1521, [[1, rng.randrange(5)] + b2, [3], [4], [5], [6, k], [1, rng.randrange(5)] + other, [1, rng.randrange(5)] + b2, [5], [5]]))
                q = list(b2); q[-1] ^= 1 << rng.randrange(8)          # ... and the same PDU with a wrong trailer
                cases.append((1500, [q]))
    yield "crc_trailer_special_values", "exact", cases
    # 11. sizes: File Data PDUs with every file-data length near the multiples of 256 up to 1100 (thorough: every
    #     length 0..2100), around 4 KiB and at the limit, packed and decoded through the factory; every kind followed by
    #     0..1100 further octets in the buffer
    cases = []
    sweep = (list(range(0, 2101)) if big else sorted({m + d for m in (0, 256, 512, 768, 1024) for d in range(-8, 9) if m + d >= 0} | set(range(1090, 1101))))
    sweep += [4095, 4096, 4097]
    for i, n in enumerate(sweep):
        a = h7._rand_pdu(rng, crc=i % 2); a[3] = h7._special_data(rng, n)
        cases.append((1510, a))
        if h7.valid_fd(a):
            cases.append((1504, [h7.lay(a), [0]]))
    ids, flags = h7._rand_conf(rng, crc=0, large=1)
    room = 65535 - 8
    cases.append((1510, [ids, flags, [h7._rand_off(rng, 1)], [0xFF] * room, [0]]))
    for n in list(range(0, 1101)) + [4096, 65536]:
        k = rng.randrange(8)
        b = _valid_packed(rng, k, crc=0)[1]
        cases.append((1500, [b + [rng.randrange(256) for _ in range(n)]]))
        cases.append((1503, [b + [0] * n]))
    yield "sizes_through_factory", "exact", cases
    # 8. garbage
    cases = []
    for _ in range(30000 if big else 4000):
        n = rng.randrange(0, 48)
        d = [rng.randrange(256) for _ in range(n)]
        if d and rng.random() < 0.85:
            d[0] = 0x20 | (d[0] & 0x1F)
        if len(d) > 3 and rng.random() < 0.85:
            d[3] = (d[3] & 0x88) | rng.choice([0, 1, 3, 7]) << 4 | rng.choice([0, 1, 3, 7])
            hl = 4 + 2 * (((d[3] >> 4) & 7) + 1) + (d[3] & 7) + 1
            if len(d) > hl and rng.random() < 0.8:
                d[hl] = rng.choice([4, 5, 6, 7, 8, 9, 12, 10])
            if rng.random() < 0.8 and len(d) >= hl:
                dl = len(d) - hl - rng.choice([0, 0, 0, 1, 2])
                if dl >= 0:
                    d[1] = dl >> 8; d[2] = dl & 0xFF
                    if rng.random() < 0.8:
                        d = hc._with_crc(d, hl)
        cases.append((1500, [d]))
        if rng.random() < 0.3:
            cases.append((1503, [d]))
        if rng.random() < 0.1:
            cases.append((1505, [d]))
    yield "garbage", "verdict", cases


# ------------------------------------------------------------------ oracle
def oracle_spec(case, ires):
    return []


def _alone(b):
    """what the factory makes of the octets b on their own: (state lines, pack result) or None when it refuses them"""
    r = core.run_impl(impl, 1500, [b])
    if r[0][0] == 1:
        return None
    f = r[1:]
    pk = core.run_impl(impl, 1505, [b])
    return [[len(f)]] + f, (pk[1] if pk[0][0] == 0 else None)


def _split_states(lines, n):
    """n holder states ([count] then that many lines) from the front of lines -> (states, rest)"""
    out = []
    for _ in range(n):
        c = lines[0][0]
        out.append(lines[:1 + c]); lines = lines[1 + c:]
    return out, lines


def _fd_expected_pack(state):
    """octets a held File Data PDU has to pack to, from its own views (lines as c07._fields)"""
    hd, ids, flags, lens, off, data, meta = state[2:9]
    st = {"hd": hd, "ids": ids, "flags": flags, "off": off, "data": data, "meta": meta}
    return h7.fd_pack_expect(st)


def _check_holder_history(ops, body):
    prev = [[1], [-1]]
    held = None          # class index, None for an empty holder
    clean = None         # the octets the held PDU was decoded from, while it has not been edited
    prev_pack = None
    for i, l in enumerate(ops):
        status = body[0]
        (state,), body = _split_states(body[1:], 1)
        out, body = body[0], body[1:]
        where = "operation %d %s" % (i, l[:10])
        k = l[0]
        if status[0] == 1 and (status[1] == 99 or (status[1] in core.UNDOCUMENTED and not (
                (k in (6, 7) and status[1] == core.E_TYPE) or (k == 3 and held is None and status[1] == core.E_ASSERT)))):
            return ("C12/PduHolder.history/undocumented-error", "%s raised %s" % (where, core.ERR_NAMES.get(status[1], status[1])))
        if status[0] == 1 or k in (3, 4, 5, 6):
            if state != prev:
                return ("C12/PduHolder.history/changed-by-%s" % ("refused-call" if status[0] == 1 else "inspection"),
                        "%s changed what the holder holds: %s -> %s" % (where, str(prev)[:120], str(state)[:120]))
        if k != 5:
            prev_pack = None
        if k == 1 and status[0] == 0:
            al = _alone(l[2:])
            if al is None or state != al[0]:
                return ("C12/PduHolder.history/holds-other-pdu", "%s: the holder holds %s, the factory alone decodes these octets to %s" % (
                    where, str(state)[:160], str(al[0] if al else None)[:160]))
            j = octet_kind(l[2:])
            held = j if isinstance(j, int) else None
            if state[1] != [held if held is not None else -1]:
                return ("C12/PduFactory.from_raw/wrong-kind", "%s: octets denote class %s, holder holds class index %s" % (where, j, state[1]))
            if held == 0:
                r = h7._check_decoded(l[2:], [[0]] + state[2:9], "fold-in")
                if r:
                    return ("C12/PduFactory.from_raw/not-what-the-octets-say", r[1])
            clean = al[1]
        elif k == 2 and status[0] == 0:
            held, clean = None, None
            if state != [[1], [-1]]:
                return ("C12/PduHolder.history/not-emptied", "%s: holder holds %s" % (where, str(state)[:120]))
        elif k == 3 and status[0] == 0:
            exp = None if held is None else ([1, 0, 0] if held == 0 else [0, 1, 1, CODE[held]])
            if exp is None or out != exp:
                return ("C12/PduHolder.inspectors/value", "%s: holder of class %s reports %s" % (where, held, out))
        elif k == 4 and status[0] == 0:
            exp = 0 if held is None else state[5][1] if held == 0 else len(clean) - 1 if clean is not None and clean[0] == 0 else None
            if exp is not None and out != [exp]:
                return ("C12/PduHolder.packet_len/value", "%s: %s, the held PDU has %s octets" % (where, out, exp))
        elif k == 5 and status[0] == 0:
            exp = [] if held is None else clean[1:] if clean is not None and clean[0] == 0 else None
            if held == 0 and exp is None:
                e = _fd_expected_pack(state)
                exp = e if isinstance(e, list) else None
            if exp is not None and out != exp:
                return ("C12/PduHolder.pack/octets", "%s: packed %s.. (%d octets), expected %s.. (%d octets)" % (where, out[:24], len(out), exp[:24], len(exp)))
            if prev_pack is not None and out != prev_pack:
                return ("C12/PduHolder.pack/not-repeatable", "%s: two packs in a row differ" % where)
            prev_pack = out
        elif k == 6:
            if (status[0] == 0) != (held == l[1]) or (status[0] == 0 and out != [held]) or (status[0] == 1 and status[1] != core.E_TYPE):
                return ("C12/PduHolder.%s/table" % TO[l[1]], "%s on a holder of class %s: %s %s" % (where, held, status, out))
        elif k == 7:
            if held != 0:
                if status[0] == 0 or status[1] != core.E_TYPE:
                    return ("C12/PduHolder.to_file_data_pdu/table", "%s on a holder of class %s: %s" % (where, held, status))
            elif status[0] == 0:
                clean = None
                hd, ids, flags, lens, off, data, meta = state[2:9]
                req = h7.fd_required({"flags": flags, "data": list(l[2:]), "meta": meta})
                if data != list(l[2:]) or hd[2] != req or lens[1] != lens[0] + req:
                    return ("C11/FileDataPdu.setters/length", "%s: the held PDU has %d octets of file data, data field length %d, lengths %s; "
                            "expected %d octets and a data field of %d" % (where, len(data), hd[2], lens, len(l) - 2, req))
        prev = state
    return None


def oracle(case, ires, sres):
    """The property itself, evaluated on the implementation's observable behaviour."""
    op, a = case
    err = ires[0][0] == 1
    code = ires[0][1] if err else None
    if op == 1599:
        if ires == [[0], [1]]:
            return None
        d = ires[1] if len(ires) > 1 else ires[0]
        what = {1: "pdu_type / is_file_directive", 2: "pdu_directive_type", 3: "the typed accessor of the stored kind (it raised TypeError)",
                4: "a typed accessor of another kind (it returned an object)", 5: "packet_len / pack()"}.get(d[1] if len(d) > 1 else -1, "the adapter ended with %s" % (ires[:2],))
        return ("C12/PduHolder.accessors/object-identity-reuse", "a holder given a %s built right after the previous PDU (another kind) was "
                "released: wrong answer of %s (round %s, detail %s)" % (NAMES[d[3]] if len(d) > 3 and 0 <= d[3] < 8 else "PDU", what, d[2] if len(d) > 2 else "?", d[3:]))
    if op == 1520:
        a1, a2 = _alone(a[0]), _alone(a[1])
        if err:
            if a1 is not None and a2 is not None:
                return ("C12/PduFactory.from_raw/earlier-pdu-changed", "each PDU alone is decoded, the two in a row raise %s%s" % (
                    core.ERR_NAMES.get(code, code), " (the first PDU keeps a view of the receive buffer)" if code == 99 else ""))
            if not DOC(code):
                return ("C12/PduFactory.from_raw/undocumented-error", "from_raw escaped with %s" % core.ERR_NAMES.get(code, code))
            return None
        (s1, s2), rest = _split_states(ires[1:], 2)
        if a1 is None or a2 is None:
            return ("C12/PduFactory.from_raw/accepts-in-a-row", "octets the factory refuses on their own were decoded")
        for b, st_ in ((a[0], s1), (a[1], s2)):
            if st_[1] == [0]:
                r = h7._check_decoded(b, [[0]] + st_[2:9], "fold-in")
                if r:
                    return ("C12/PduFactory.from_raw/not-what-the-octets-say", r[1])
        if s1 != a1[0] or rest[0] != a1[1]:
            return ("C12/PduFactory.from_raw/earlier-pdu-changed", "the first PDU, looked at after the second was decoded: %s (packs to %s..); "
                    "decoded alone: %s (packs to %s..)" % (str(s1)[:200], rest[0][:16], str(a1[0])[:200], (a1[1] or [])[:16]))
        if s2 != a2[0] or rest[1] != a2[1]:
            return ("C12/PduFactory.from_raw/later-pdu-differs", "the second PDU %s differs from what it is decoded to alone %s" % (str(s2)[:200], str(a2[0])[:200]))
        return None
    if op == 1521:
        if err:
            return ("C12/PduHolder.history/undocumented-error", "the history as a whole raised %s" % core.ERR_NAMES.get(code, code))
        return _check_holder_history(a, ires[1:])
    if 1510 <= op <= 1517:
        k = op - 1510
        if not VALID[k](a):
            return None
        exp = LAY[k](a)
        if err:
            return ("C12/PduFactory.from_raw/refuses-packed-pdu", "%s built from %s: pack / from_raw raised %s" % (NAMES[k], [x[:10] for x in a[:5]], core.ERR_NAMES.get(code, code)))
        if ires[1] != [k]:
            return ("C12/PduFactory.from_raw/wrong-kind", "packed %s decoded as class index %s" % (NAMES[k], ires[1]))
        # a fault location together with NO_ERROR / UNSUPPORTED_CHECKSUM_TYPE is not a parameter set of 727.0-B-5
        # (the location is not transmitted), so equality is only required of valid parameter sets (as in C06)
        untransmitted = k == 2 and a[3] and a[3][0] == 1 and a[2][0] in (0, 11)
        if ires[2] != [0, 1] and not untransmitted:
            return ("C12/PduFactory.from_raw/not-equal", "%s from the factory does not compare equal to the original (%s)" % (NAMES[k], ires[2]))
        if ires[4] != exp:
            return ("C12/%s.pack/layout" % NAMES[k], "packed octets differ from the standard's layout")
        if ires[3] != [0] + exp:
            return ("C12/PduFactory.from_raw/repack", "%s from the factory re-packs to %s, original %s" % (NAMES[k], ires[3][:40], exp[:40]))
        al = _alone(exp)
        if al is not None:
            m = h5.alias_probe(PduFactory.from_raw, _holder_state, exp, al[0])
            if m:
                return ("C12/PduFactory.from_raw/aliases-input-buffer", m)
        return None
    if op in (1500, 1505):
        b = a[0]
        if err:
            if not DOC(code):
                return ("C12/PduFactory.from_raw/undocumented-error", "from_raw(%s) escaped with %s" % (b[:24], core.ERR_NAMES.get(code, code)))
            return None
        if op == 1500:
            k = octet_kind(b)
            got = ires[1][0]
            if k == "short" or (k is None and got != -1) or (k is not None and got != k):
                return ("C12/PduFactory.from_raw/wrong-kind", "octets %s denote class %s, factory returned class index %s" % (b[:24], k, got))
            m = h5.alias_probe(PduFactory.from_raw, _opt_fields, b, ires[1:])
            if m:
                return ("C12/PduFactory.from_raw/aliases-input-buffer", m)
        return None
    if op in (1501, 1502):
        b = a[0]
        if len(b) < 1:
            if not err or not DOC(code):
                return ("C12/PduFactory.pdu_type/undocumented-error", "%s(b'') -> %s" % ("pdu_type" if op == 1501 else "is_file_directive", ires[0]))
            return None
        t = (b[0] >> 4) & 1
        exp = [t] if op == 1501 else [1 - t]
        if err or ires[1] != exp:
            return ("C12/PduFactory.pdu_type/value", "first octet %d: %s" % (b[0], ires))
        return None
    if op == 1503:
        b = a[0]
        k = octet_kind(b)
        if k == "short":
            if not err or not DOC(code):
                return ("C12/PduFactory.pdu_directive_type/undocumented-error", "pdu_directive_type(%s) -> %s" % (b[:24], ires[0]))
            return None
        if k == 0:
            exp = [0]
        else:
            v = b[h5._declared(b)]
            exp = [1, v] if v in (4, 5, 6, 7, 8, 9, 10, 12) else "value-error"
        if exp == "value-error":
            if not err or code not in (1, 2, 3):
                return ("C12/PduFactory.pdu_directive_type/value", "directive octet %d not refused with ValueError: %s" % (v, ires))
        elif err or ires[1] != exp:
            return ("C12/PduFactory.pdu_directive_type/value", "octets %s: %s, expected %s" % (b[:24], ires, exp))
        return None
    if op == 1504:
        b, (k,) = a
        j = octet_kind(b)
        if err and code not in (core.E_TYPE,):
            if not DOC(code):
                return ("C12/PduFactory.from_raw_to_holder/undocumented-error", "from_raw_to_holder(%s) escaped with %s" % (b[:24], core.ERR_NAMES.get(code, code)))
            return None     # the factory refused the octets
        if j == "short":
            return None
        if j == k:
            if err or ires[1] != [k]:
                return ("C12/PduHolder.%s/table" % TO[k], "holder of a %s: %s() -> %s" % (NAMES[k], TO[k], ires[:2]))
        elif not err:
            return ("C12/PduHolder.%s/table" % TO[k], "holder of class %s: %s() returned class index %s instead of raising TypeError" % (j, TO[k], ires[1]))
        return None
    if op == 1509:
        if not err or code != core.E_TYPE:
            return ("C12/PduHolder.%s/table" % TO[a[0][0]], "empty holder: %s" % ires[:2])
        return None
    if op == 1506:
        b = a[0]
        if err:
            return None
        j = octet_kind(b)
        if j in ("short", None):
            return None
        exp = [[1], [0], [0]] if j == 0 else [[0], [1], [1, CODE[j]]]
        if ires[1:4] != exp:
            return ("C12/PduHolder.inspectors/value", "holder of class %d reports %s" % (j, ires[1:4]))
        return None
    if op == 1507:
        b, (j,), (k,) = a
        i = octet_kind(b)
        if err or i != j:
            return None         # a decoder applied to a PDU of another kind: the caller's responsibility (docstrings)
        if ires[1] != [k] or k != j:
            return ("C12/PduHolder.%s/table" % TO[k], "PduHolder(%s.unpack(..)).%s() returned class index %s" % (NAMES[j], TO[k], ires[1]))
        return None
    return None


def neighbours(case):
    op, a = case
    out = []
    if op in (1500, 1501, 1502, 1503, 1505):
        for n in range(min(len(a[0]), 40)):
            for o in (1500, 1501, 1503):
                out.append((o, [a[0][:n]]))
    if 1510 <= op <= 1517:
        k = op - 1510
        try:
            if VALID[k](a):
                b = LAY[k](a)
                out.append((1500, [b]))
                for kk in range(8):
                    out.append((1504, [b, [kk]]))
        except Exception:  # noqa
            pass
    return out


# ---- registry for the cross-cutting checks C09 / C10
def _valid_pdus(rng):
    return [_valid_packed(rng, k)[1] for k in range(8) for _ in range(5)]


def _declared(b):
    return h5._declared(b) + b[1] * 256 + b[2]


DECODERS = [
    {"op": 1500, "name": "PduFactory.from_raw", "extra": [], "valid": _valid_pdus, "declared_len": _declared},
    {"op": 1505, "name": "PduFactory.from_raw_to_holder", "extra": [], "valid": _valid_pdus, "declared_len": _declared},
    {"op": 1501, "name": "PduFactory.pdu_type", "extra": [], "valid": _valid_pdus, "declared_len": None},
    {"op": 1502, "name": "PduFactory.is_file_directive", "extra": [], "valid": _valid_pdus, "declared_len": None},
    {"op": 1503, "name": "PduFactory.pdu_directive_type", "extra": [], "valid": _valid_pdus, "declared_len": None},
]
