"""C19 — sequence counters (spacepackets/seqcount.py).  Streams, implementation adapter, oracle.

The file-backed provider is driven on a real file inside a fresh temporary directory that is
removed afterwards; after every operation the content is read back (bytes) and compared with
the model's explicit file state.  History ops (case = whole operation list):
  [0] new provider object   [1] next()   [2] current()   [3] file deleted from outside
  4::codes file overwritten from outside   [5,k] k x next()   [6,k] k x (new object; next())
Live-object histories (ops 303 / 304) additionally drive every public setter / attribute of ONE provider
object: [7,w] max_bit_width = w, [10,c] count = c (in-memory), [0,w] new object of another width,
[8] file_name = other path, [9] create_new(), [12] next() on a second provider object living on the other
file with its own width, 13::codes check_count(line); observed after every op.
Op 399 = explorations outside the model (the model's side is the constant [1]); a[0][0] selects the statement:
  0  file-system object behind the configured path (FS_LAYOUTS: symbolic link to an existing / to a not yet existing
     file, relative link, chain of links, link through a linked directory, hard link, `..` components, relative path
     or the default file name after chdir): a[0] = [0, layout, width, pus], a[1] = initial content, a[2:] = the history
     ops of op 301.  Statement: every returned count / exception class and the content read through the path after
     every step are those of the same history on a regular file, the path stays the kind of object it was, and the
     file it finally refers to is the one holding the count.
  1  a user subclass of SeqCountProvider whose max_bit_width is not the stored attribute (property reading a shared
     link configuration / constant class attribute): a[0] = [1, variant, constructor width, configured width],
     a[1:] = ops of op 303 where [7, w] changes the CONFIGURED width.  Statement: it returns what the library class
     returns when the same widths are assigned through its setter at the same moments.
  2  the same for FileSeqCountProvider: a[0] = [2, variant, constructor width, configured width], a[1] = content,
     a[2:] = ops [0] new object [1] next [2] current [7, w] configured width 13::codes check_count.
"""
import itertools, os, re, shutil, tempfile
from pathlib import Path
from spacepackets import seqcount as S
from harness import core
from harness.props.c13 import _Clock     # simulated pauses between calls (see c13.py)

ID = "C19"
ENUMS = [
    ("spacepackets.ccsds.spacepacket:MAX_SEQ_COUNT", "SP.Model.SeqCount.MAX_SEQ_COUNT"),
]
ASSUMPTIONS = [
    "CPython text-mode file I/O on POSIX as modelled in Model/SeqCount.v: universal newlines on reading, '\\n' written "
    "unchanged, seek(0)+write overwrites in place without truncating, default encoding UTF-8 restricted to ASCII content",
    "only inter-call crash points are expressible (as the property states): a crash inside a single write is OS behaviour "
    "outside the model; 'a new instance at any inter-call point' is the Restart op of the histories",
    "int() refuses numerals longer than sys.int_max_str_digits (4300) with ValueError; the model parses them and refuses them "
    "as out of range - the same class for every width below ~14000 bits (a numeral padded with > 4300 leading zeros is "
    "refused by int() although its value is small: outside the model)",
    "max_bit_width >= 0",
    "pauses between calls (and between a stop and the next instance) are simulated through the time module's clock functions "
    "(harness/props/c13.py _Clock), not waited for; file time stamps kept by the operating system are real",
]
TRUSTED = ["the adapter's temporary-file handling (tempfile.mkdtemp, read_bytes after each call)"]
EXPLORED_ONLY = [
    "a count the caller itself puts outside [0, 2^w - 1] (SeqCountProvider.count attribute, or narrowing max_bit_width "
    "below the running count) is returned once by the in-memory provider before it wraps; the file provider refuses such "
    "content with ValueError.  Modelled faithfully, not judged by the oracle (the property's histories contain no setter)",
    "non-ASCII file content (Unicode digits are accepted by str.isdigit and int; invalid UTF-8 raises UnicodeDecodeError, "
    "a ValueError): explored on the implementation only with the oracle 'ValueError, or a count in range and a valid file "
    "afterwards' (stream explored_non_ascii); outside the model's alphabet, not proved",
    "stream explored_path_objects (op 399): the configured path is a symbolic link (to an existing file, to a file that "
    "does not exist yet, relative, chained, through a linked directory), a hard link, a path with .. components, a relative "
    "path or the default file name after chdir; statement: same counts, exceptions and file content as on a regular file, "
    "the link stays a link and its target holds the count.  File-system semantics are outside the model",
    "stream explored_width_overriding_subclasses (op 399): user subclasses of SeqCountProvider / FileSeqCountProvider that "
    "override the abstract max_bit_width property (shared link configuration, read-only computed property, class "
    "attribute) count like the library class whose width is assigned through the setter at the same moments "
    "('modulo 2^width for the width configured at that moment'); user subclasses are outside the model",
]
ORACLE_LIMIT = {"quick": 100000, "thorough": 1000000}

E_VALUE, E_FNF = 1, 9


def _file_arg(content):
    return [0] if content is None else [1] + list(content)


class _Env:
    def __init__(self, w, content, pus=False):
        self.dir = tempfile.mkdtemp(prefix="c19-")
        self.path = Path(self.dir) / "seqcnt.txt"
        self.w, self.pus = w, pus
        if content is not None:
            self.path.write_bytes(bytes(content))
        self.new()

    def new(self):
        self.prov = S.PusFileSeqCountProvider(self.path) if self.pus else S.FileSeqCountProvider(self.w, self.path)

    def file(self):
        return _file_arg(self.path.read_bytes() if self.path.exists() else None)

    def close(self):
        shutil.rmtree(self.dir, ignore_errors=True)


def _err(e):
    if isinstance(e, (RuntimeError, MemoryError, KeyboardInterrupt, SystemExit)):
        raise e
    return core.canon_code(core.classify_exception(e))


def _file_history(w, content, ops, pus):
    # two histories out of three: simulated pauses (c13._Clock: seconds .. minutes / hours .. years) between the calls; a
    # process that stops and a new instance much later are what the property's restart clause is about
    with _Clock((len(ops) + w + (len(content) if content else 0)) % 3) as clock:
        return _file_history_clocked(w, content, ops, pus, clock)


def _file_history_clocked(w, content, ops, pus, clock):
    env = _Env(w, content, pus)
    try:
        out = [env.file()]
        flip = 0
        for n_, o in enumerate(ops):
            clock.advance(n_)
            k = o[0]
            if k == 0:
                env.new(); r = [0]
            elif k in (1, 2):
                try:
                    if k == 2:
                        v = env.prov.current()
                    else:
                        flip ^= 1
                        v = next(env.prov) if flip else env.prov.get_and_increment()
                    r = [0, v]
                except Exception as e:
                    r = [1, _err(e)]
            elif k == 3:
                if env.path.exists():
                    os.remove(env.path)
                r = [0]
            elif k == 4:
                env.path.write_bytes(bytes(o[1:])); r = [0]
            elif k in (5, 6):
                vals, r = [], None
                for _ in range(o[1]):
                    try:
                        if k == 6:
                            env.new()
                        vals.append(next(env.prov))
                    except Exception as e:
                        r = [1, _err(e)] + vals
                        break
                if r is None:
                    r = [0] + vals
            else:
                raise RuntimeError("bad history op")
            out += [r, env.file()]
        return out
    finally:
        env.close()


class _Env2:
    """two count files A and B; the main provider starts on A, a second provider (own width) lives on B"""
    def __init__(self, w, pus, w2, content_a, content_b):
        self.dir = tempfile.mkdtemp(prefix="c19-")
        self.paths = [Path(self.dir) / "seqcnt.txt", Path(self.dir) / "other.txt"]
        self.pus = pus
        for p, c in zip(self.paths, (content_a, content_b)):
            if c is not None:
                p.write_bytes(bytes(c))
        self.prov = self.make(w, self.paths[0])
        self.prov2 = S.FileSeqCountProvider(w2, self.paths[1])

    def make(self, w, path):
        return S.PusFileSeqCountProvider(path) if (self.pus and w == 14) else S.FileSeqCountProvider(w, path)

    def obs(self):
        fa, fb = [_file_arg(p.read_bytes() if p.exists() else None) for p in self.paths]
        return [fa, fb, [self.prov.max_bit_width, self.paths.index(self.prov.file_name)]]

    def close(self):
        shutil.rmtree(self.dir, ignore_errors=True)


def _call(fn):
    try:
        return [0, fn()]
    except Exception as e:
        return [1, _err(e)]


def _world_history(w, pus, w2, ca, cb, ops):
    with _Clock((len(ops) + w + w2) % 3) as clock:
        return _world_history_clocked(w, pus, w2, ca, cb, ops, clock)


def _world_history_clocked(w, pus, w2, ca, cb, ops, clock):
    env = _Env2(w, pus, w2, ca, cb)
    try:
        out = env.obs()
        flip = 0
        for n_, o in enumerate(ops):
            clock.advance(n_)
            k = o[0]
            if k == 0:
                try:
                    env.prov = env.make(o[1], env.prov.file_name); r = [0]
                except ValueError as e:          # (never raised by the unchanged constructor) recorded, the history goes on
                    r = [1, _err(e)]
            elif k == 1:
                flip ^= 1
                r = _call((lambda: next(env.prov)) if flip else env.prov.get_and_increment)
            elif k == 2:
                r = _call(env.prov.current)
            elif k == 3:
                if env.prov.file_name.exists():
                    os.remove(env.prov.file_name)
                r = [0]
            elif k == 4:
                env.prov.file_name.write_bytes(bytes(o[1:])); r = [0]
            elif k in (5, 6):
                vals, r = [], None
                for _ in range(o[1]):
                    try:
                        if k == 6:
                            env.prov = env.make(env.prov.max_bit_width, env.prov.file_name)
                        vals.append(next(env.prov))
                    except Exception as e:
                        r = [1, _err(e)] + vals
                        break
                if r is None:
                    r = [0] + vals
            elif k == 7:
                try:
                    env.prov.max_bit_width = o[1]; r = [0]
                except ValueError as e:          # (never raised by the unchanged setter) recorded, the history goes on
                    r = [1, _err(e)]
            elif k == 8:
                env.prov.file_name = env.paths[1 - env.paths.index(env.prov.file_name)]; r = [0]
            elif k == 9:
                env.prov.create_new(); r = [0]
            elif k == 12:
                r = _call(lambda: next(env.prov2))
            elif k == 13:
                line = bytes(o[1:]).decode("ascii")
                r = _call(lambda: env.prov.check_count(line))
            else:
                raise RuntimeError("bad history op")
            out += [r] + env.obs()
        return out
    finally:
        env.close()



# ---------------------------------------------------------------- explorations (op 399)
FS_LAYOUTS = ["regular file", "symbolic link to the file", "symbolic link, target in another directory (created on first use)",
              "relative symbolic link", "chain of two symbolic links", "file inside a directory reached through a linked directory",
              "hard link", "path with .. components", "relative path after chdir", "default file name after chdir",
              "relative path with .. after chdir"]
core.NO_THREAD_OPS.add(399)      # layouts 8..10 change the working directory of the process for the duration of the call


class _FsEnv:
    """a fresh directory in which the configured path is the requested kind of file-system object; `target` is the
    plain name of the file that finally holds the count"""
    def __init__(self, layout, content):
        self.dir = tempfile.mkdtemp(prefix="c19-")
        d = Path(self.dir)
        self.layout, self.cwd, self.default_name = layout, None, False
        self.links = []                     # paths that must stay symbolic links
        (d / "nvram").mkdir()
        (d / "run").mkdir()
        if layout == 0:
            self.path = self.target = d / "seqcnt.txt"
        elif layout == 1:
            self.path, self.target = d / "seqcnt.txt", d / "real.txt"
            os.symlink(self.target, self.path)
        elif layout == 2:
            self.path, self.target = d / "run" / "seqcnt.txt", d / "nvram" / "seqcnt.txt"
            os.symlink(self.target, self.path)
        elif layout == 3:
            self.path, self.target = d / "run" / "seqcnt.txt", d / "nvram" / "count"
            os.symlink(os.path.join("..", "nvram", "count"), self.path)
        elif layout == 4:
            self.path, mid, self.target = d / "seqcnt.txt", d / "run" / "current", d / "nvram" / "seqcnt.txt"
            os.symlink(self.target, mid)
            os.symlink(mid, self.path)
            self.links.append(mid)
        elif layout == 5:
            os.symlink(d / "nvram", d / "state")
            self.path, self.target = d / "state" / "seqcnt.txt", d / "nvram" / "seqcnt.txt"
        elif layout == 6:
            self.path, self.target = d / "seqcnt.txt", d / "nvram" / "other-name.txt"
        elif layout == 7:
            self.path, self.target = d / "run" / ".." / "nvram" / ".." / "seqcnt.txt", d / "seqcnt.txt"
        elif layout == 8:
            self.path, self.target, self.cwd = Path("seqcnt.txt"), d / "seqcnt.txt", d
        elif layout == 9:
            self.path, self.target, self.cwd, self.default_name = Path("seqcnt.txt"), d / "seqcnt.txt", d, True
        elif layout == 10:
            self.path, self.target, self.cwd = Path("..") / "nvram" / "count.txt", d / "nvram" / "count.txt", d / "run"
        else:
            raise RuntimeError("bad layout")
        if layout in (1, 2, 3, 4):
            self.links.append(self.path)
        self.hard = False                   # path and target are two names of one file
        if layout == 6 and content is None:
            self.target = self.path         # nothing to link to yet: a plain missing file
        if content is not None:
            self.target.write_bytes(bytes(content))
            if layout == 6:
                os.link(self.target, self.path)
                self.hard = True
        self.old_cwd = None
        if self.cwd is not None:
            self.old_cwd = os.getcwd()
            os.chdir(self.cwd)

    def make(self, w, pus):
        if self.default_name:
            return S.PusFileSeqCountProvider() if pus else S.FileSeqCountProvider(w)
        return S.PusFileSeqCountProvider(self.path) if pus else S.FileSeqCountProvider(w, self.path)

    def delete(self):
        """the count file is deleted from outside (for a link: the file it refers to)"""
        for p_ in {self.target, self.path}:
            if not os.path.islink(p_) and p_.exists():
                os.remove(p_)
        if self.hard:
            self.hard, self.target = False, self.path

    def obs(self):
        """content read through the configured path; -1 when the object behind the path is no longer what was configured"""
        seen = _file_arg(self.path.read_bytes() if self.path.exists() else None)
        direct = _file_arg(self.target.read_bytes() if self.target.exists() else None)
        if seen != direct or any(not os.path.islink(l) for l in self.links) or \
                (self.hard and not (self.path.exists() and os.path.samefile(self.path, self.target))):
            return [-1] + seen
        return seen

    def close(self):
        if self.old_cwd is not None:
            os.chdir(self.old_cwd)
        shutil.rmtree(self.dir, ignore_errors=True)


def _fs_history(layout, w, pus, content, ops):
    env = _FsEnv(layout, content)
    try:
        prov = [None]

        def new():
            prov[0] = env.make(w, pus)
            return 0
        out = [_call(new), env.obs()]
        flip = 0
        for o in ops:
            k = o[0]
            if k == 0:
                r = _call(new)
            elif k == 1:
                flip ^= 1
                r = _call((lambda: next(prov[0])) if flip else (lambda: prov[0].get_and_increment()))
            elif k == 2:
                r = _call(lambda: prov[0].current())
            elif k == 3:
                env.delete(); r = [0]
            elif k == 4:
                env.path.write_bytes(bytes(o[1:])); r = [0]
            elif k in (5, 6):
                vals, r = [], None
                for _ in range(o[1]):
                    try:
                        if k == 6:
                            new()
                        vals.append(next(prov[0]))
                    except Exception as e:
                        r = [1, _err(e)] + vals
                        break
                if r is None:
                    r = [0] + vals
            else:
                raise RuntimeError("bad history op")
            out += [r, env.obs()]
        return out
    finally:
        env.close()


class _Link:
    """a configuration object shared by every counter of one link"""
    def __init__(self, width):
        self.width = width


def _subclass(base, variant, link):
    if variant == 0:
        class LinkCounter(base):
            """width follows the link configuration"""
            @property
            def max_bit_width(self):
                return link.width

            @max_bit_width.setter
            def max_bit_width(self, width):
                link.width = width
        return LinkCounter
    if variant == 1:
        class ReadOnlyWidth(base):
            """the width is computed; assigning it is not supported"""
            max_bit_width = property(lambda self: link.width)
        return ReadOnlyWidth
    if variant == 2:
        class FixedWidth(base):
            max_bit_width = link.width         # a plain class attribute satisfies the abstract property as well
        return FixedWidth
    raise RuntimeError("bad subclass variant")


def _explore_mem_subclass(a):
    variant, w_ctor, w_link = a[0][1:4]
    link = _Link(w_link)
    if variant == 2:
        ops = [o for o in a[1:] if o[0] != 7]          # a constant: there is no later re-configuration
    else:
        ops = a[1:]
    sub = _subclass(S.SeqCountProvider, variant, link)(w_ctor)
    ref = S.SeqCountProvider(w_link)
    for i, o in enumerate(ops):
        k = o[0]
        if k in (7, 10):
            # the reference first: a width / count it refuses (ValueError; the unchanged class stores anything) is not
            # configured on the subclass either
            try:
                if k == 7:
                    ref.max_bit_width = o[1]
                else:
                    ref.count = o[1]
            except ValueError:
                continue
        if k == 7:
            if variant == 0 and i % 2:
                sub.max_bit_width = o[1]       # the subclass's own setter writes the shared configuration
            else:
                link.width = o[1]
            continue
        if k == 10:
            sub.count = o[1]
            continue
        n = 1 if k == 1 else o[1]
        for j in range(n):
            x, y = (next(sub), next(ref)) if (i + j) % 2 else (sub.get_and_increment(), ref.get_and_increment())
            if x != y or sub.count != ref.count:
                return [[0, 1, variant, i, j, x, y]]
    return [[1]]


def _explore_file_subclass(a):
    variant, w_ctor, w_link = a[0][1:4]
    content = None if (not a[1] or a[1][0] == 0) else a[1][1:]
    link = _Link(w_link)
    ops = [o for o in a[2:] if not (variant == 2 and o[0] == 7)]
    cls = _subclass(S.FileSeqCountProvider, variant, link)
    envs = [_FsEnv(0, content), _FsEnv(0, content)]
    try:
        sub, ref = cls(w_ctor, envs[0].path), S.FileSeqCountProvider(w_link, envs[1].path)
        if envs[0].obs() != envs[1].obs():
            return [[0, 2, variant, -1]]
        for i, o in enumerate(ops):
            k = o[0]
            if k == 0:
                sub, ref = cls(w_ctor, envs[0].path), S.FileSeqCountProvider(ref.max_bit_width, envs[1].path)
                x = y = [0]
            elif k == 1:
                x, y = _call(lambda: next(sub)), _call(lambda: next(ref))
            elif k == 2:
                x, y = _call(sub.current), _call(ref.current)
            elif k == 7:
                try:
                    ref.max_bit_width = o[1]
                except ValueError:               # (never raised by the unchanged setter) not configured on the subclass either
                    continue
                if variant == 0 and i % 2:
                    sub.max_bit_width = o[1]
                else:
                    link.width = o[1]
                x = y = [0]
            elif k == 13:
                line = bytes(o[1:]).decode("ascii")
                x, y = _call(lambda: sub.check_count(line)), _call(lambda: ref.check_count(line))
            else:
                raise RuntimeError("bad history op")
            if x != y or envs[0].obs() != envs[1].obs():
                return [[0, 2, variant, i] + x[:2] + y[:2]]
        return [[1]]
    finally:
        for e in envs:
            e.close()


def _explore(a):
    kind = a[0][0]
    if kind == 0:
        layout, w, pus = a[0][1], a[0][2], bool(a[0][3]) and a[0][2] == 14
        content = None if (not a[1] or a[1][0] == 0) else a[1][1:]
        want = _fs_history(0, w, pus, content, a[2:])
        got = _fs_history(layout, w, pus, content, a[2:])
        if got == want:
            return [[1]]
        i = next((i for i, (x, y) in enumerate(zip(got, want)) if x != y), min(len(got), len(want)))
        return [[0, 0, layout, i] + [int(v) for v in got[i][:3]] + [-9] + [int(v) for v in want[i][:3]]]
    if kind == 1:
        return _explore_mem_subclass(a)
    if kind == 2:
        return _explore_file_subclass(a)
    raise RuntimeError("bad exploration")


# ---- reference reading of a count file, written independently of the implementation and the model
_LINE = re.compile(rb"([0-9]+)[\t\n\x0b\x0c\r\x1c-\x1f ]*\Z")


def held_count(w, file_arg):
    """None when missing, 'bad' when the first line is not a valid count, else the count."""
    if file_arg[0] == 0:
        return None
    b = bytes(file_arg[1:])
    m = re.search(rb"[\r\n]", b)
    first = b if m is None else b[:m.start()]
    mm = _LINE.fullmatch(first)
    if mm is None or len(mm.group(1)) > 4000:
        return "bad"
    v = int(mm.group(1))
    return v if 0 <= v <= 2 ** w - 1 else "bad"


def line_count(w, b):
    """reference for check_count(line): 'bad' or the count"""
    mm = _LINE.fullmatch(bytes(b))
    if mm is None or len(mm.group(1)) > 4000:
        return "bad"
    v = int(mm.group(1))
    return v if 0 <= v <= 2 ** w - 1 else "bad"


def impl(op, a):
    if op == 399:
        return _explore(a)
    if op == 303:
        import copy
        p = S.SeqCountProvider(a[0][0])
        out = [[p.count, p.max_bit_width]]
        flip = 0
        # a provider that is copied half-way (copy.copy / copy.deepcopy) is an independent provider in the
        # same state: mode 2 goes on with the copy, mode 3 goes on with the original and examines the copy last
        mode = (len(a) * 7 + a[0][0]) % 4 if len(a) >= 3 else 0
        fork_at = (len(a) - 1) // 2
        frozen = snap = None
        for i, o in enumerate(a[1:]):
            if i == fork_at and mode in (2, 3):
                snap = [p.count, p.max_bit_width]
                g = copy.copy(p) if a[0][0] % 2 == 0 else copy.deepcopy(p)
                if mode == 2:
                    frozen, p = p, g
                else:
                    frozen = g
            k = o[0]
            if k == 1:
                flip ^= 1
                r = [0, next(p) if flip else p.get_and_increment()]
            elif k == 5:
                r = [0] + [next(p) for _ in range(o[1])]
            elif k in (7, 10):
                # (the unchanged provider stores whatever it is given.)  A refused assignment is recorded -- [1, class] in
                # place of [0] -- and the history goes on with the provider as it is
                try:
                    if k == 7:
                        p.max_bit_width = o[1]
                    else:
                        p.count = o[1]
                    r = [0]
                except ValueError as e:
                    r = [1, _err(e)]
            else:
                raise RuntimeError("bad history op")
            out += [r, [p.count, p.max_bit_width]]
        if frozen is not None:
            ok = [frozen.count, frozen.max_bit_width] == snap
            if ok and snap[1] >= 0:
                top = 2 ** snap[1]
                frozen.count = max(top - 2, 0)
                got = [next(frozen) for _ in range(4)]
                ok = got == [(max(top - 2, 0) + j) % top for j in range(4)]
            if not ok:
                out[-1] = [-1, -1]
        return out
    if op == 304:
        w, pus, w2 = a[0][0], len(a[0]) > 1 and a[0][1] == 1 and a[0][0] == 14, a[0][2]
        ca = None if (not a[1] or a[1][0] == 0) else a[1][1:]
        cb = None if (not a[2] or a[2][0] == 0) else a[2][1:]
        return _world_history(w, pus, w2, ca, cb, a[3:])
    if op == 300:
        w, n = a[0]
        p = S.SeqCountProvider(w)
        return [[(next(p) if i % 2 else p.get_and_increment()) for i in range(n)]]
    if op == 301:
        w = a[0][0]
        pus = len(a[0]) > 1 and a[0][1] == 1 and w == 14
        content = None if (not a[1] or a[1][0] == 0) else a[1][1:]
        return _file_history(w, content, a[2:], pus)
    if op == 302:
        # exploration outside the model's alphabet: verdict computed here, on the implementation only
        w = a[0][0]
        env = _Env(w, a[1])
        try:
            try:
                v = next(env.prov)
            except ValueError:
                return [[1]]
            after = held_count(w, env.file())
            okv = isinstance(v, int) and 0 <= v <= 2 ** w - 1 and after == (v + 1) % 2 ** w
            return [[1]] if okv else [[0, v], env.file()]
        finally:
            env.close()
    raise RuntimeError("bad op")


def _restart_pattern(w, k, total):
    """total next() calls, a new provider object after every k-th call, one op per call so that the file is
    observed between all calls"""
    ops = []
    for i in range(total):
        ops.append([1])
        if (i + 1) % k == 0:
            ops.append([0])
    return ops


def streams(tier, rng):
    big = tier == "thorough"
    # 1. in-memory provider: every width 0..16, 2^w + 3 calls (every counter value, the wrap and beyond)
    cases = [(300, [[w, 2 ** w + 3]]) for w in range(0, 17)]
    cases += [(300, [[w, 3 * 2 ** w + 2]]) for w in range(0, 9)]
    if big:
        cases += [(300, [[17, 2 ** 17 + 3]])]   # deeper runs overflow the extracted (non tail-recursive) model's stack
    yield "exh_mem_all_values", "exact", cases
    # 2. file provider: every counter value of widths 1..10 with a new provider object before EVERY call,
    #    and the same without restarts; file observed after every single call for w <= 6
    cases = []
    for w in range(0, 11):
        n = 2 ** w + 3
        cases.append((301, [[w], [0], [6, n]]))
        cases.append((301, [[w], [0], [5, n]]))
        if w <= 6 or big:
            cases.append((301, [[w], [0]] + _restart_pattern(w, 1, n)))
            cases.append((301, [[w], [0]] + [[1], [2]] * n))
    cases.append((301, [[14, 1], [0], [5, 2 ** 14 + 3]]))
    cases.append((301, [[14], _file_arg(b"16000\n"), [6, 800]]))
    cases.append((301, [[16], _file_arg(b"65000\n"), [6, 600], [5, 600]]))
    if big:
        cases.append((301, [[16], [0], [5, 2 ** 16 + 3]]))
        cases.append((301, [[14], [0], [6, 2 ** 14 + 3]]))
    yield "exh_file_restart_every_call", "exact", cases
    # 3. boundary restarts (Appendix B): widths {1,2,3,8,14,16}, restart after every k-th call, started just
    #    below the wrap, file observed after every call
    cases = []
    for w in (1, 2, 3, 8, 14, 16):
        top = 2 ** w
        for k in sorted({1, 2, max(top - 1, 1), top}):
            if k > 300 and not big:
                k = 7
            start = max(top - 4, 0)
            cases.append((301, [[w, rng.randrange(2)], _file_arg(b"%d\n" % start)] + _restart_pattern(w, k, min(top + 3, 12))))
            cases.append((301, [[w], _file_arg(b"%d" % (top - 1))] + _restart_pattern(w, k, 5)))
    yield "restart_boundaries", "exact", cases
    # 4. file contents (rejection clause): every string of length <= 3 over a 13-letter alphabet,
    #    then targeted and random ASCII contents; next() and current() on each
    alpha = [48, 49, 57, 32, 10, 13, 45, 43, 95, 9, 97, 0, 28]
    cases = []
    for ln in range(0, 4):
        for s in itertools.product(alpha, repeat=ln):
            cases.append((301, [[3], _file_arg(s), [2], [1], [1]]))
    yield "exh_short_contents", "exact", cases
    cases = []
    targeted = [b"", b"0\n", b"007\n", b"7", b"7 \t\n", b" 7\n", b"7\r8\n", b"7\r\n8\n", b"-1\n", b"+1\n", b"1_0\n", b"\n5\n",
                b"12\x0b\x0c\x1c\x1d\x1e\x1f\n", b"5\x00\n", b"9" * 20 + b"\n", b"12\n34\n56\n", b"99\n", b"0009\n", b"5\x1a\n",
                b"3\x0c4\n", b"0x10\n", b"1e3\n", b"1.0\n", b"12 34\n", b"\t3\n", b"3\x7f\n", b"00000000000000000000001\n",
                b"0" * 300 + b"5\n", b"1" + b"0" * 200 + b"\n", b"4\n\n\n", b"4\r\r\n", b"4 x\n", b"\r4\n", b"4\x1f\x20\x1c"]
    for w in (0, 1, 2, 3, 8, 14, 16, 32, 64):
        top = 2 ** w
        edge = [b"%d\n" % v for v in (0, 1, top - 2, top - 1, top, top + 1, 10 * top) if v >= 0]
        edge += [b"%d" % (top - 1), b"000%d\n" % (top - 1), b"%d  \n" % (top - 1), b"%d\r\n" % (top - 1)]
        for c in targeted + edge:
            cases.append((301, [[w, rng.randrange(2)], _file_arg(c), [2], [1], [2], [0], [1], [1]]))
    if big:   # beyond sys.int_max_str_digits: int() itself raises ValueError
        cases.append((301, [[14], _file_arg(b"1" + b"0" * 5000 + b"\n"), [2], [1]]))
    for _ in range(6000 if big else 1200):
        w = rng.choice([1, 2, 3, 8, 14, 16])
        ln = rng.randrange(0, 9)
        c = [rng.choice([48, 49, 50, 53, 57, 57, 48, 10, 13, 32, 9, 45, rng.randrange(128)]) for _ in range(ln)]
        cases.append((301, [[w], _file_arg(c), [1], [2], [1]]))
    yield "file_contents", "exact", cases
    # 5. random histories with deletion / outside overwrite / restarts
    cases = []
    for _ in range(3000 if big else 500):
        w = rng.choice([0, 1, 2, 3, 4, 8, 14, 16])
        top = 2 ** w
        start = rng.choice([None, b"0\n", b"%d\n" % rng.randrange(top), b"%d\n" % (top - 1), b"%d\n" % top, b"junk\n", b""])
        ops = []
        for _ in range(rng.randrange(1, 14)):
            k = rng.random()
            if k < 0.5:
                ops.append([1])
            elif k < 0.65:
                ops.append([2])
            elif k < 0.8:
                ops.append([0])
            elif k < 0.86:
                ops.append([3])
            elif k < 0.94:
                ops.append([4] + list(rng.choice([b"%d\n" % rng.randrange(top + 2), b"%d" % rng.randrange(top), b"x\n", b"", b"03\n"])))
            else:
                ops.append([rng.choice([5, 6]), rng.randrange(0, 2 * min(top, 40) + 3)])
        cases.append((301, [[w, rng.randrange(2)], _file_arg(start)] + ops))
    yield "random_histories", "exact", cases
    # 7. live in-memory provider: every width 0..66 with the count placed just below the maximum through the
    #    public `count` attribute, the width changed through the public setter (widened / narrowed) on the live
    #    object, and random histories of up to 10 such operations
    cases = []
    for w in list(range(0, 67)) + [100, 128]:
        top = 2 ** w
        cases.append((303, [[w], [10, max(top - 3, 0)], [5, 7]]))
        cases.append((303, [[w], [10, top - 1], [1], [1], [1]]))
        for w0 in {max(w - 3, 0), w + 3, 14, 0}:
            # constructed with another width, then re-configured: must count modulo 2^w from then on
            cases.append((303, [[w0], [7, w], [10, max(top - 2, 0)], [5, 5]]))
            cases.append((303, [[w0], [5, 3], [7, w], [10, max(top - 2, 0)], [1], [1], [1], [7, w0], [10, 0], [1], [1]]))
        if w <= 10:
            cases.append((303, [[w + 2], [7, w], [5, 2 * top + 3]]))
            cases.append((303, [[max(w - 1, 0)], [7, w], [5, 2 * top + 3]]))
    for _ in range(3000 if big else 600):
        w = rng.choice([0, 1, 2, 3, 4, 8, 14, 16, 31, 32, 53, 54, 63, 64])
        ops = []
        for _ in range(rng.randrange(1, 11)):
            k = rng.random()
            top = 2 ** w
            if k < 0.4:
                ops.append([1])
            elif k < 0.55:
                ops.append([5, rng.randrange(0, 2 * min(top, 20) + 3)])
            elif k < 0.8:
                w = rng.choice([0, 1, 2, 3, 4, 8, 14, 16, 31, 32, 53, 54, 63, 64, max(w - 1, 0), w + 1])
                ops.append([7, w])
            else:
                ops.append([10, max(0, rng.choice([0, top - 2, top - 1, rng.randrange(top)]))])
        cases.append((303, [[rng.choice([0, 1, 2, 8, 14, 16, 64])]] + ops))
    yield "live_mem_setters", "exact", cases
    # 8. live file provider: every width 0..66 reached through the max_bit_width setter from another width
    #    (widened and narrowed), file contents 2^w-2 .. 2^w+1 and counts run over the wrap
    cases = []
    for w in list(range(0, 67)) + [100, 128]:
        top = 2 ** w
        for w0 in sorted({max(w - 3, 0), w + 3, 14}):
            ops = [[7, w]]
            for v in (top - 1, top, top + 1, max(top - 2, 0)):
                ops += [[4] + list(b"%d\n" % v), [2], [1], [2]]
            ops += [[1], [1], [6, 2], [7, w0], [2], [1]]
            cases.append((304, [[w0, int(w0 == 14), w], [0], [0]] + ops))
        cases.append((304, [[w, 0, max(w - 1, 0)], _file_arg(b"%d\n" % max(top - 2, 0)), _file_arg(b"%d\n" % max(top // 2 - 1, 0)),
                            [1], [12], [1], [12], [1], [8], [1], [8], [1], [12]]))
        if w <= 11:
            # a full cycle after widening / after narrowing on the live object, and after a new object of that width
            cases.append((304, [[w + 3, 0, 3], [0], [0], [7, w], [5, top + 3]]))
            cases.append((304, [[max(w - 2, 0), 0, 3], [0], [0], [7, w], [5, top + 3], [0, w], [5, 2]]))
    yield "exh_file_setter_widths", "exact", cases
    cases = []
    for _ in range(4000 if big else 700):
        w = rng.choice([0, 1, 2, 3, 4, 8, 14, 16, 32, 64])
        w2 = rng.choice([0, 1, 2, 3, 8, 14])
        first = [w, rng.randrange(2), w2]
        ca = rng.choice([None, b"0\n", b"%d\n" % rng.randrange(2 ** w), b"%d\n" % (2 ** w - 1), b"%d\n" % 2 ** w, b"junk\n", b""])
        cb = rng.choice([None, b"0\n", b"%d\n" % (2 ** w2 - 1), b"%d" % rng.randrange(2 ** w2)])
        ops = []
        for _ in range(rng.randrange(1, 12)):
            k = rng.random()
            top = 2 ** w
            if k < 0.3:
                ops.append([1])
            elif k < 0.38:
                ops.append([2])
            elif k < 0.55:
                w = rng.choice([0, 1, 2, 3, 4, 8, 14, 16, 32, 64, max(w - 1, 0), w + 1])
                ops.append([rng.choice([7, 7, 0]), w])
            elif k < 0.62:
                ops.append([8])
            elif k < 0.67:
                ops.append([9])
            elif k < 0.75:
                ops.append([12])
            elif k < 0.80:
                ops.append([3])
            elif k < 0.88:
                ops.append([4] + list(rng.choice([b"%d\n" % max(0, rng.choice([top - 2, top - 1, top, top + 1])), b"%d" % rng.randrange(top), b"x\n", b"", b"03\n"])))
            elif k < 0.94:
                ops.append([rng.choice([5, 6]), rng.randrange(0, 2 * min(top, 20) + 3)])
            else:
                ops.append([13] + list(rng.choice([b"%d\n" % max(0, rng.choice([top - 1, top, top + 1])), b"7 \t\n", b" 7\n", b"", b"1\n2", b"-1\n", b"007"])))
        cases.append((304, [first, _file_arg(ca), _file_arg(cb)] + ops))
    yield "live_file_setters", "exact", cases
    # 9. content sizes: every length 0..1100 (thorough 0..3900) of leading zeros / trailing blanks / digits /
    #    bytes behind the first line (kept by the in-place write)
    cases = []
    for n in range(0, 3901 if big else 1101):
        # (the long all-digit numeral costs the extracted model ~n^2: sampled near the multiples of 256 only)
        near = n < 40 or min(n % 256, 256 - n % 256) <= 8
        kinds = [0, 1, 3] + ([2] if ((near and n <= 2100) or n % (64 if big else 32) == 0) else [])
        for kind in kinds:
            c = [b"0" * n + b"5\n", b"6" + b" \t"[n % 2:n % 2 + 1] * n + b"\n", b"9" * n + b"\n", b"3\n" + b"x" * n][kind]
            cases.append((301, [[rng.choice([3, 14, 64])], _file_arg(c), [2], [1], [0], [1]]))
    # first lines longer than one I/O buffer (8192) and than 64 KiB: a valid-looking prefix, a long run of
    # blanks, then garbage / more digits; and long tails behind a valid first line
    for n in [8185, 8190, 8191, 8192, 8193, 8200, 10000, 16384, 65536, 70001] + ([131072, 300000] if big else []):
        for c in (b"12" + b" " * n + b"34\n", b"7" + b"\t" * n + b"junk\n", b"5" + b" " * n + b"\n", b"3\n" + b"y" * n,
                  b" " * n + b"4\n"):
            cases.append((301, [[rng.choice([3, 14, 64])], _file_arg(c), [2], [1], [0], [1]]))
    yield "exh_content_sizes", "exact", cases
    # 6. exploration only: non-ASCII content (outside the model's alphabet; model side is a constant)
    cases = []
    for c in ["٣\n", "²\n", "é\n", "1٣\n", "１２\n", "5 \n", "5  6\n", "५\n", "①\n", "3\u0085\n"]:
        cases.append((302, [[14], list(c.encode())]))
    for c in [b"\xff\n", b"5\x85\n", b"\xc3\n", b"12\xe2\x82\n", b"\x80"]:
        cases.append((302, [[14], list(c)]))
    for _ in range(400 if big else 100):
        cases.append((302, [[rng.choice([3, 14])], [rng.choice([48, 49, 57, 10, rng.randrange(128, 256), rng.randrange(256)]) for _ in range(rng.randrange(1, 6))]]))
    yield "explored_non_ascii", "exact", cases
    # 10. exploration only: the file-system object behind the configured path (op 399 kind 0)
    cases = []
    for layout in range(1, len(FS_LAYOUTS)):
        for w, pus in ((3, 0), (14, 1), (14, 0), (1, 0)):
            top = 2 ** w
            contents = [None, b"0\n", b"%d\n" % (top - 1), b"junk\n", b"1", b"%d\n" % top]
            hists = [[[1], [1], [0], [1], [2]], [[5, top + 2 if w <= 3 else 5]], [[6, 4]], [[2], [1], [3], [0], [1], [1]], [[1], [3], [1], [2]],
                     [[4] + list(b"1\n"), [1], [0], [1]], [[3], [4] + list(b"0\n"), [2], [1], [1]], []]
            for ci, c in enumerate(contents):
                for hi, ops in enumerate(hists):
                    if big or (ci + hi + layout + w) % 3 == 0 or (c is None and hi < 3):
                        cases.append((399, [[0, layout, w, pus], _file_arg(c)] + ops))
    for _ in range(3000 if big else 400):
        w = rng.choice([0, 1, 2, 3, 8, 14])
        top = 2 ** w
        start = rng.choice([None, None, b"0\n", b"%d\n" % rng.randrange(top), b"%d\n" % (top - 1), b"%d\n" % top, b"junk\n", b""])
        ops = []
        for _ in range(rng.randrange(1, 12)):
            k = rng.random()
            if k < 0.45:
                ops.append([1])
            elif k < 0.6:
                ops.append([2])
            elif k < 0.78:
                ops.append([0])
            elif k < 0.86:
                ops.append([3])
            elif k < 0.94:
                ops.append([4] + list(rng.choice([b"%d\n" % rng.randrange(top + 2), b"%d" % rng.randrange(top), b"x\n", b"", b"03\n"])))
            else:
                ops.append([rng.choice([5, 6]), rng.randrange(0, 2 * min(top, 20) + 3)])
        cases.append((399, [[0, rng.randrange(1, len(FS_LAYOUTS)), w, rng.randrange(2)], _file_arg(start)] + ops))
    yield "explored_path_objects", "exact", cases
    # 11. exploration only: user subclasses whose max_bit_width is computed (op 399 kinds 1 and 2)
    cases = []
    widths = [0, 1, 2, 3, 5, 8, 14, 16]
    for variant in (0, 1, 2):
        for wc, wl in itertools.product(widths, widths):
            if wl <= 8:
                cases.append((399, [[1, variant, wc, wl], [5, 2 * 2 ** wl + 3], [7, max(wl - 1, 0)], [5, 2 ** wl + 2], [7, wl + 1], [10, 2 ** wl - 1], [5, 4]]))
            cases.append((399, [[1, variant, wc, wl], [10, max(2 ** wl - 2, 0)], [5, 5], [7, wc], [10, max(2 ** wc - 2, 0)], [1], [1], [1], [7, wl], [1]]))
            top = 2 ** wl
            cases.append((399, [[2, variant, wc, wl], _file_arg(b"%d\n" % max(top - 2, 0)), [1], [1], [1], [2], [0], [1], [7, wc],
                                [13] + list(b"%d\n" % (2 ** wc - 1)), [13] + list(b"%d\n" % 2 ** wc), [1], [2], [7, wl], [1], [2]]))
            cases.append((399, [[2, variant, wc, wl], [0], [1], [1], [0], [1], [13] + list(b"%d" % (top - 1)), [13] + list(b"%d" % top)]))
    for _ in range(4000 if big else 600):
        variant = rng.randrange(3)
        wc, w = rng.choice(widths + [32, 64]), rng.choice(widths + [32, 64])
        first = [rng.choice([1, 2]), variant, wc, w]
        ops = []
        for _ in range(rng.randrange(1, 11)):
            k = rng.random()
            top = 2 ** w
            if k < 0.45:
                ops.append([1])
            elif k < 0.6 and first[0] == 1:
                ops.append([5, rng.randrange(0, 2 * min(top, 20) + 3)])
            elif k < 0.6:
                ops.append([rng.choice([0, 2])])
            elif k < 0.85:
                w = rng.choice(widths + [max(w - 1, 0), w + 1])
                ops.append([7, w])
            elif first[0] == 1:
                ops.append([10, max(0, rng.choice([0, top - 2, top - 1, rng.randrange(top)]))])
            else:
                ops.append([13] + list(rng.choice([b"%d\n" % max(0, rng.choice([top - 1, top, top + 1])), b"7 \n", b"", b"-1\n"])))
        if first[0] == 2:
            ops = [_file_arg(rng.choice([None, b"0\n", b"%d\n" % (2 ** first[3] - 1), b"%d\n" % rng.randrange(2 ** first[3])]))] + ops
        cases.append((399, [first] + ops))
    yield "explored_width_overriding_subclasses", "exact", cases


# ---------------------------------------------------------------- oracle
def oracle_spec(case, ires):
    op, a = case
    if op == 300:
        return [(350, [[a[0][0], 0, a[0][1]]])]
    return []


def oracle(case, ires, sres):
    op, a = case
    if core.is_err(ires):
        return ("C19/adapter/exception", "unexpected exception escaping the history: %s" % (ires,))
    if op == 300:
        w, n = a[0]
        vals = ires[1]
        exp = [i % 2 ** w for i in range(n)]
        if vals != exp or (sres and sres[0][1] != exp):
            i = next((i for i, (x, y) in enumerate(zip(vals, exp)) if x != y), min(len(vals), len(exp)))
            return ("C19/SeqCountProvider.get_and_increment/no-wrap",
                    "width %d: call %d returned %s, expected %d mod 2^%d = %s (values must stay in [0, %d])" %
                    (w, i, vals[i] if i < len(vals) else None, i, w, exp[i] if i < len(exp) else None, 2 ** w - 1))
        return None
    if op == 303:
        return _oracle_mem(a, ires)
    if op == 304:
        return _oracle_world(a, ires)
    if op == 302:
        if ires[1] != [1]:
            return ("C19/FileSeqCountProvider/non-ascii-content", "content %s: returned %s, file afterwards %s" % (a[1], ires[1], ires[2:]))
        return None
    if op == 399:
        if ires[1] == [1]:
            return None
        d = ires[1]
        if a[0][0] == 0:
            layout = a[0][1]
            what = "symbolic-link-path" if 1 <= layout <= 5 else "hard-link-path" if layout == 6 else "relative-or-dotdot-path"
            cut = d.index(-9) if -9 in d else len(d)
            return ("C19/FileSeqCountProvider/" + what,
                    "configured path = %s, width %d, initial content %s, history %s: observation %d (0 = construction, 1 = file after it, then "
                    "result / file per step; a leading -1 in a file line = the path is no longer that kind of object or the file it refers "
                    "to does not hold the count) is %s..., on a regular file %s..." % (FS_LAYOUTS[layout], a[0][2], a[1][:12], a[2:8], d[3], d[4:cut], d[cut + 1:]))
        name = "SeqCountProvider" if a[0][0] == 1 else "FileSeqCountProvider"
        return ("C19/%s.max_bit_width/subclass-override-ignored" % name,
                "a subclass of %s whose max_bit_width is %s (constructor width %d, configured width %d), history %s: step %d differs from "
                "the library class with the same widths assigned through its setter (detail %s)" %
                (name, ["a property reading a shared link configuration", "a read-only computed property", "a class attribute"][a[0][1]],
                 a[0][2], a[0][3], a[1:8], d[3], d[4:]))
    if op == 301:
        w = a[0][0]
        top = 2 ** w
        given = a[1] if a[1] else [0]
        pos = 1
        f = ires[pos]; pos += 1
        # construction: creates "0\n" when missing, otherwise leaves the file alone
        if held_count(w, given) is None:
            if held_count(w, f) != 0:
                return ("C19/FileSeqCountProvider.__init__/create", "missing file not created with count 0: %s" % (f,))
        elif f != given:
            return ("C19/FileSeqCountProvider.__init__/touches-file", "existing file changed by construction: %s -> %s" % (given, f))
        for o in a[2:]:
            r, f2 = ires[pos], ires[pos + 1]; pos += 2
            h = held_count(w, f)
            k = o[0]
            if k == 0:
                if (h is None and held_count(w, f2) != 0) or (h is not None and f2 != f):
                    return ("C19/FileSeqCountProvider.__init__/restart", "new instance on %s left %s" % (f, f2))
            elif k in (3, 4):
                pass
            elif k == 2:
                exp = [1, E_FNF] if h is None else [1, E_VALUE] if h == "bad" else [0, h]
                if r != exp or f2 != f:
                    return ("C19/FileSeqCountProvider.current/%s" % ("missing" if h is None else "bad-content" if h == "bad" else "value"),
                            "current() on %s gave %s (file then %s), expected %s" % (f, r, f2, exp))
            elif k == 1:
                if h is None or h == "bad":
                    exp = [1, E_FNF] if h is None else [1, E_VALUE]
                    if r != exp or f2 != f:
                        return ("C19/FileSeqCountProvider.get_and_increment/%s" % ("missing" if h is None else "bad-content"),
                                "next() on %s gave %s (file then %s), expected %s" % (f, r, f2, exp))
                else:
                    if r != [0, h]:
                        return ("C19/FileSeqCountProvider.get_and_increment/sequence", "file %s holds %d but next() gave %s" % (f, h, r))
                    if held_count(w, f2) != (h + 1) % top:
                        return ("C19/FileSeqCountProvider.get_and_increment/file-state",
                                "after returning %d the file %s does not hold %d" % (h, f2, (h + 1) % top))
            elif k in (5, 6):
                n = o[1]
                if k == 6 and h is None:
                    h = 0
                if h is None or h == "bad":
                    exp = ([1, E_FNF] if h is None else [1, E_VALUE]) if n > 0 else [0]
                    if r != exp:
                        return ("C19/FileSeqCountProvider.get_and_increment/%s" % ("missing" if h is None else "bad-content"),
                                "%d x next() on %s gave %s" % (n, f, r[:6]))
                else:
                    exp = [0] + [(h + i) % top for i in range(n)]
                    if r != exp:
                        i = next((i for i, (x, y) in enumerate(zip(r, exp)) if x != y), min(len(r), len(exp)))
                        return ("C19/FileSeqCountProvider.get_and_increment/sequence",
                                "width %d from %d%s: position %d is %s, expected %s" %
                                (w, h, " (new instance before every call)" if k == 6 else "", i - 1, r[i:i + 1], exp[i:i + 1]))
                    if n > 0 and held_count(w, f2) != (h + n) % top:
                        return ("C19/FileSeqCountProvider.get_and_increment/file-state", "after %d calls from %d the file %s does not hold %d" % (n, h, f2, (h + n) % top))
            f = f2
        return None
    return None


def _oracle_mem(a, ires):
    """live in-memory provider: next() returns the current count and moves to (count + 1) mod 2^w for the width
    configured AT THAT MOMENT; setters change exactly what they name.  A count the caller itself placed outside
    [0, 2^w - 1] (count attribute, or narrowing below the running count) is not judged for that call."""
    w, c = a[0][0], 0
    n_ops = len(a) - 1
    if ires[-1] == [-1, -1]:
        return ("C19/SeqCountProvider.copy/diverged", "a provider copied (copy.copy / copy.deepcopy) half-way through the history "
                "does not behave like an independent provider in the same state: either it changed while the other one was used, "
                "or it no longer wraps at 2^(its own width)")
    if len(ires) != 2 + 2 * n_ops:
        return ("C19/adapter/history-shape", "%d lines for %d ops" % (len(ires), n_ops))
    if ires[1] != [0, w]:
        return ("C19/SeqCountProvider.__init__/state", "fresh provider of width %d shows (count, width) = %s" % (w, ires[1]))
    for i, o in enumerate(a[1:]):
        r, st = ires[2 + 2 * i], ires[3 + 2 * i]
        k = o[0]
        if k in (7, 10) and r[0] == 1:
            # the assignment was refused.  Fine (ValueError, provider unchanged: checked below) when it would have left a
            # count outside [0, 2^width - 1] -- a count set beyond the range, a width narrowed below the running count, a
            # negative width: the unchanged provider stores such values and returns the stray count once before it wraps
            nw, nc = (o[1], c) if k == 7 else (w, o[1])
            if nw >= 0 and 0 <= nc <= 2 ** nw - 1:
                return ("C19/SeqCountProvider.%s/refuses-valid" % ("max_bit_width" if k == 7 else "count"),
                        "step %d: %s = %d refused with %s although count %d lies in [0, 2^%d - 1]" % (
                            i, "max_bit_width" if k == 7 else "count", o[1], core.ERR_NAMES.get(r[1], r[1]), nc, nw))
        elif k == 7:
            w = o[1]
        elif k == 10:
            c = o[1]
        else:
            n = 1 if k == 1 else o[1]
            vals = r[1:]
            if r[0] != 0 or len(vals) != n:
                return ("C19/SeqCountProvider.get_and_increment/raises", "step %d: %s" % (i, r[:6]))
            for j, x in enumerate(vals):
                if 0 <= c <= 2 ** w - 1:
                    if x != c:
                        return ("C19/SeqCountProvider.get_and_increment/sequence",
                                "step %d (width now %d): call %d returned %d, expected %d" % (i, w, j, x, c))
                    c = (c + 1) % 2 ** w
                else:      # caller-made out-of-range state: re-base on what the provider does next
                    c = None
                    break
            if c is None:
                c = st[0]
                continue
        if st != [c, w]:
            return ("C19/SeqCountProvider.%s/state" % {7: "max_bit_width", 10: "count"}.get(k, "get_and_increment"),
                    "step %d (%s): (count, width) is %s, expected %s" % (i, o[:2], st, [c, w]))
    return None


def _oracle_world(a, ires):
    """live file providers: every call obeys the width the provider object is configured with at that moment and
    the file its file_name names at that moment; nothing else is touched."""
    w, w2 = a[0][0], a[0][2]
    ops = a[3:]
    if len(ires) != 1 + 3 + 4 * len(ops):
        return ("C19/adapter/history-shape", "%d lines for %d ops" % (len(ires), len(ops)))
    files = [ires[1], ires[2]]
    given = [a[1] if a[1] else [0], a[2] if a[2] else [0]]
    for g, f, ww in zip(given, files, (w, w2)):
        if g[0] == 0:
            if held_count(ww, f) != 0:
                return ("C19/FileSeqCountProvider.__init__/create", "missing file not created with count 0: %s" % (f,))
        elif f != g:
            return ("C19/FileSeqCountProvider.__init__/touches-file", "existing file changed by construction: %s -> %s" % (g, f))
    if ires[3] != [w, 0]:
        return ("C19/FileSeqCountProvider.__init__/state", "(max_bit_width, file) = %s, expected %s" % (ires[3], [w, 0]))
    cur = 0

    def nxt(name, ww, f, r, f2, i):
        """one next() of a provider of width ww on file content f"""
        h = held_count(ww, f)
        if h is None or h == "bad":
            exp = [1, E_FNF] if h is None else [1, E_VALUE]
            if r != exp or f2 != f:
                return ("C19/%s.get_and_increment/%s" % (name, "missing" if h is None else "bad-content"),
                        "step %d (width now %d): next() on %s gave %s (file then %s), expected %s" % (i, ww, f[:24], r, f2[:24], exp))
            return None
        if r != [0, h]:
            return ("C19/%s.get_and_increment/sequence" % name, "step %d (width now %d): file %s holds %d but next() gave %s" % (i, ww, f[:24], h, r))
        if held_count(ww, f2) != (h + 1) % 2 ** ww:
            return ("C19/%s.get_and_increment/file-state" % name,
                    "step %d (width now %d): after returning %d the file %s does not hold %d" % (i, ww, h, f2[:24], (h + 1) % 2 ** ww))
        return None

    for i, o in enumerate(ops):
        r = ires[4 + 4 * i]
        f2s = [ires[5 + 4 * i], ires[6 + 4 * i]]
        st = ires[7 + 4 * i]
        k = o[0]
        f, f2 = files[cur], f2s[cur]
        touched = {cur}
        if k in (0, 7) and r[0] == 1:
            # a width refused by the constructor / the setter: only a negative one is outside the domain
            if o[1] >= 0:
                return ("C19/FileSeqCountProvider.max_bit_width/refuses-valid", "step %d: width %d refused with %s" % (i, o[1], core.ERR_NAMES.get(r[1], r[1])))
            touched = set()
        elif k == 0:
            w = o[1]
            h = held_count(w, f)
            if (h is None and held_count(w, f2) != 0) or (h is not None and f2 != f):
                return ("C19/FileSeqCountProvider.__init__/restart", "step %d: new instance on %s left %s" % (i, f[:24], f2[:24]))
        elif k == 1:
            m = nxt("FileSeqCountProvider", w, f, r, f2, i)
            if m:
                return m
        elif k == 2:
            h = held_count(w, f)
            exp = [1, E_FNF] if h is None else [1, E_VALUE] if h == "bad" else [0, h]
            if r != exp or f2 != f:
                return ("C19/FileSeqCountProvider.current/%s" % ("missing" if h is None else "bad-content" if h == "bad" else "value"),
                        "step %d (width now %d): current() on %s gave %s (file then %s), expected %s" % (i, w, f[:24], r, f2[:24], exp))
        elif k in (3, 4):
            pass
        elif k in (5, 6):
            n = o[1]
            h = held_count(w, f)
            if k == 6 and h is None and n > 0:
                h = 0
            if h is None or h == "bad":
                exp = ([1, E_FNF] if h is None else [1, E_VALUE]) if n > 0 else [0]
                if r != exp:
                    return ("C19/FileSeqCountProvider.get_and_increment/%s" % ("missing" if h is None else "bad-content"),
                            "step %d: %d x next() on %s gave %s" % (i, n, f[:24], r[:6]))
            else:
                exp = [0] + [(h + j) % 2 ** w for j in range(n)]
                if r != exp:
                    j = next((j for j, (x, y) in enumerate(zip(r, exp)) if x != y), min(len(r), len(exp)))
                    return ("C19/FileSeqCountProvider.get_and_increment/sequence",
                            "step %d: width now %d, from %d%s: position %d is %s, expected %s" %
                            (i, w, h, " (new instance before every call)" if k == 6 else "", j - 1, r[j:j + 1], exp[j:j + 1]))
                if n > 0 and held_count(w, f2) != (h + n) % 2 ** w:
                    return ("C19/FileSeqCountProvider.get_and_increment/file-state",
                            "step %d: after %d calls from %d the file %s does not hold %d" % (i, n, h, f2[:24], (h + n) % 2 ** w))
        elif k == 7:
            w = o[1]
            touched = set()
        elif k == 8:
            cur = 1 - cur
            touched = set()
        elif k == 9:
            if f2 != _file_arg(b"0\n"):
                return ("C19/FileSeqCountProvider.create_new/content", "step %d: create_new() left %s" % (i, f2[:24]))
        elif k == 12:
            m = nxt("FileSeqCountProvider(second object)", w2, files[1], r, f2s[1], i)
            if m:
                return m
            touched = {1}
        elif k == 13:
            h = line_count(w, o[1:])
            exp = [1, E_VALUE] if h == "bad" else [0, h]
            if r != exp:
                return ("C19/FileSeqCountProvider.check_count/%s" % ("bad-content" if h == "bad" else "value"),
                        "step %d (width now %d): check_count(%s) gave %s, expected %s" % (i, w, o[1:24], r, exp))
            touched = set()
        for j in (0, 1):
            if j not in touched and f2s[j] != files[j]:
                return ("C19/FileSeqCountProvider/foreign-file-touched", "step %d (%s): file %d changed from %s to %s" % (i, o[:2], j, files[j][:24], f2s[j][:24]))
        if st != [w, cur]:
            return ("C19/FileSeqCountProvider.max_bit_width/state", "step %d (%s): (max_bit_width, file) = %s, expected %s" % (i, o[:2], st, [w, cur]))
        files = f2s
    return None


def neighbours(case):
    op, a = case
    out = []
    if op == 300:
        w, n = a[0]
        out += [(300, [[w, 2 ** w + 3]]), (300, [[max(w - 1, 0), 2 ** max(w - 1, 0) + 3]]), (300, [[2, 7]])]
    if op == 301:
        w = a[0][0]
        out += [(301, [[w], [0], [5, 2 ** min(w, 10) + 3]]), (301, [[w], [0], [6, 2 ** min(w, 10) + 3]]),
                (301, [[w], _file_arg(b"%d\n" % (2 ** w - 1)), [1], [0], [1], [2]]),
                (301, [[w], a[1]] + a[2:][:1])]
    return out


DECODERS = []   # no octet-string decoder in this slice (the count file is text; its rejection clause is in the streams above)
