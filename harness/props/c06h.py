"""C06 / C11 — operation histories of the seven file-directive PDUs (ops 1306-1309 EOF / ACK / Prompt /
Keep Alive, 1346 Finished, 1356 Metadata, 1380 NAK; model: coq/theories/Run/DirHist.v).

Not a check of its own: c06a / c06b / c06c route their history ops, streams and oracle clauses here.

One case = one or two objects, each built on a construction path (constructor, decode of the own packed
form from bytes / from a bytearray that is overwritten afterwards, alternate constructors such as
FinishedPdu.success_pdu), then driven through up to ~10 operations: every documented setter, the header
accessors all directive PDUs inherit, plain assignments to public attributes, operations of the CALLER on
the objects it handed in (PduConfig, parameter object, its list mutated in place and assigned again), and
observations (pack, lengths) in between.  The adapter performs the operations on the real classes; the
oracle follows the same history on the level of VALUES only (what was assigned is what is exposed; a
refused assignment changes nothing) and evaluates the C11 / C06 statements on what the implementation
reports: exposed values, reported length = packed length, packed octets = the standard's layout of the
current values, pack repeatable, caller objects untouched."""
import copy as _copy
import itertools
from harness import core
from harness.props import c05 as h5, c08 as h8
from harness.props import c06a as A, c06b as B, c06c as C
from spacepackets.cfdp import defs as D
from spacepackets.cfdp.conf import PduConfig
from spacepackets.cfdp.defs import ConditionCode, DeliveryCode, FileStatus, ChecksumType
from spacepackets.cfdp.pdu.file_directive import DirectiveType
from spacepackets.cfdp.pdu.eof import EofPdu
from spacepackets.cfdp.pdu.ack import AckPdu, TransactionStatus
from spacepackets.cfdp.pdu.prompt import PromptPdu, ResponseRequired
from spacepackets.cfdp.pdu.keep_alive import KeepAlivePdu
from spacepackets.cfdp.pdu.finished import FinishedPdu, FinishedParams
from spacepackets.cfdp.pdu.metadata import MetadataPdu, MetadataParams
from spacepackets.cfdp.pdu.nak import NakPdu
from spacepackets.cfdp.tlv import EntityIdTlv
from spacepackets.util import UnsignedByteField

OPS = {"eof": 1306, "ack": 1307, "prompt": 1308, "ka": 1309, "fin": 1346, "md": 1356, "nak": 1380}
KIND = {v: k for k, v in OPS.items()}
NCTOR = {"eof": 3, "ack": 1, "prompt": 1, "ka": 1, "fin": 3, "md": 4, "nak": 2}
CODE = {"eof": 4, "ack": 6, "prompt": 9, "ka": 12, "fin": 5, "md": 7, "nak": 8}
CLS = {"eof": EofPdu, "ack": AckPdu, "prompt": PromptPdu, "ka": KeepAlivePdu, "fin": FinishedPdu,
       "md": MetadataPdu, "nak": NakPdu}
NAME = {k: c.__name__ for k, c in CLS.items()}
WIDTHS = (1, 2, 4, 8)
SEP = [-1]


def enchunk(items):
    out = []
    for i in items:
        out += [len(i)] + list(i)
    return out


def chunks(l):
    out, i = [], 0
    while i < len(l):
        n = max(l[i], 0)
        out.append(list(l[i + 1:i + 1 + n])); i += 1 + n
    return out


def g(r, k):
    return r[k] if len(r) > k else 0


def split_parts(a):
    parts, cur = [], []
    for o in a:
        if o and o[0] == -1:
            parts.append(cur); cur = []
        else:
            cur.append(o)
    parts.append(cur)
    return parts[:2] if len(parts) > 1 and parts[1] else parts[:1]


# ------------------------------------------------------------------ adapter
class St:
    pass


def _mkconf(ids, flags, via_default):
    if not via_default:
        return h5._conf(ids, flags)
    c = PduConfig.default()
    c.source_entity_id = UnsignedByteField(ids[0], ids[1])
    c.dest_entity_id = UnsignedByteField(ids[2], ids[3])
    c.transaction_seq_num = UnsignedByteField(ids[4], ids[5])
    c.trans_mode = h5._e(D.TransmissionMode, flags[0]); c.file_flag = h5._e(D.LargeFileFlag, flags[1])
    c.crc_flag = h5._e(D.CrcFlag, flags[2]); c.direction = h5._e(D.Direction, flags[3])
    c.seg_ctrl = h5._e(D.SegmentationControl, flags[4])
    return c


def _pack(p):
    try:
        return [0] + list(p.pack())
    except Exception as e:  # noqa
        return [1, core.canon_code(core.classify_exception(e))]


def build(kind, a):
    st = St()
    st.kind = kind
    desc = a[2]
    path = g(desc, 0)
    conf = _mkconf(a[0], a[1], g(desc, 1))
    st.conf, st.L = conf, []
    if kind == "eof":
        cs = bytearray(a[3]) if g(desc, 2) else bytes(a[3])
        p = EofPdu(conf, cs, g(a[4], 0), A._fault(a[5]), A._enum(ConditionCode, g(a[4], 1)))
    elif kind == "ack":
        p = AckPdu(conf, A._enum(DirectiveType, g(a[3], 0)), A._enum(ConditionCode, g(a[3], 1)),
                   A._enum(TransactionStatus, g(a[3], 2)))
    elif kind == "prompt":
        p = PromptPdu(conf, A._enum(ResponseRequired, g(a[3], 0)))
    elif kind == "ka":
        p = KeepAlivePdu(conf, g(a[3], 0))
    elif kind == "fin":
        if path == 3:
            p = FinishedPdu.success_pdu(conf)
        elif path == 4:
            p = FinishedPdu(conf, FinishedParams.success_params())
        elif path == 5:
            p = FinishedPdu(conf, FinishedParams.empty())
        else:
            fl = B._fault(a[4])
            mode = g(a[5], 0)
            kw = dict(condition_code=B._enum(ConditionCode, g(a[3], 0)), delivery_code=B._enum(DeliveryCode, g(a[3], 1)),
                      file_status=B._enum(FileStatus, g(a[3], 2)), fault_location=fl)
            if mode == 1:
                st.L = [B._resp(x) for x in chunks(a[5][1:])]
                kw["file_store_responses"] = st.L
            elif mode == 0:
                kw["file_store_responses"] = None
            p = FinishedPdu(conf, FinishedParams(**kw))
    elif kind == "md":
        mode = g(a[6], 0)
        params = MetadataParams(bool(g(a[3], 0)), B._enum(ChecksumType, g(a[3], 1)), g(a[3], 2),
                                B._opt_name(a[4]), B._opt_name(a[5]))
        if mode == 1:
            st.L = [B._tlv(x) for x in chunks(a[6][1:])]
            p = MetadataPdu(conf, params, st.L)
        elif mode == 0:
            p = MetadataPdu(conf, params, None)
        else:
            p = MetadataPdu(conf, params)
    else:
        mode = g(a[4], 0)
        if mode == 1:
            st.L = C._segs(a[4][1:])
            p = NakPdu(conf, g(a[3], 0), g(a[3], 1), st.L)
        elif mode == 0:
            p = NakPdu(conf, g(a[3], 0), g(a[3], 1), None)
        else:
            p = NakPdu(conf, g(a[3], 0), g(a[3], 1))
    if path in (1, 2):
        raw = p.pack()
        if path == 1:
            p = CLS[kind].unpack(bytes(raw))
        else:
            # a receive buffer that is re-used: >= 512 octets, overwritten after the decode
            buf = bytearray(raw) + (bytearray() if kind == "nak" else bytearray(b"\x5a" * 600))
            p = CLS[kind].unpack(buf)
            for i in range(len(buf)):
                buf[i] ^= 0xA5
            del buf[len(buf) // 2:]
        st.L = []
    st.p = p
    return st


def _ubf(v, w):
    return UnsignedByteField(v, w)


def _do(kind, st, o):
    code, r = o[0], o[1:]
    p = st.p
    v = g(r, 0)
    if code >= 100:
        if code == 100:
            e = h5._e(D.CrcFlag, v); via = g(r, 1)
            if via == 0: p.crc_flag = e
            elif via == 1: p.pdu_header.crc_flag = e
            elif via == 2: p.pdu_file_directive.pdu_conf.crc_flag = e
            else: p.pdu_file_directive.crc_flag = e
        elif code == 101:
            e = h5._e(D.LargeFileFlag, v); via = g(r, 1)
            if via == 0: p.file_flag = e
            elif via == 1: p.pdu_header.file_flag = e
            elif via == 2: p.pdu_file_directive.pdu_conf.file_flag = e
            else: p.pdu_file_directive.file_flag = e
        elif code == 102:
            via = g(r, 1)
            if via == 0: p.pdu_data_field_len = v
            elif via == 1: p.pdu_header.pdu_data_field_len = v
            else: p.pdu_file_directive.directive_param_field_len = v - 1
        elif code == 103: p.pdu_header.transmission_mode = h5._e(D.TransmissionMode, v)
        elif code == 104: p.pdu_header.direction = h5._e(D.Direction, v)
        elif code == 105: p.pdu_header.seg_ctrl = h5._e(D.SegmentationControl, v)
        elif code == 106: p.pdu_header.transaction_seq_num = _ubf(v, g(r, 1))
        elif code == 107: p.pdu_header.set_entity_ids(_ubf(g(r, 0), g(r, 1)), _ubf(g(r, 2), g(r, 3)))
        elif code == 108: p.pdu_header.segment_metadata_flag = h5._e(D.SegmentMetadataFlag, v)
        elif code == 109: p.pdu_header.pdu_type = h5._e(D.PduType, v)
        elif code == 110:
            # the value of one byte-field object edited IN PLACE: the PDU is packed, then <field>.value = new value.  While
            # the field object is still the caller's (the constructor's copy of the PduConfig is shallow) the PDU first
            # gets an object of its own with the same value and width
            if v not in (0, 1, 2):
                raise RuntimeError("bad field")
            c = p.pdu_header.pdu_conf
            f = getattr(c, h5._FIELD_ATTR[v])
            if f is getattr(st.conf, h5._FIELD_ATTR[v]):
                f = UnsignedByteField(f.value, f.byte_len)
                setattr(c, h5._FIELD_ATTR[v], f)
            try:
                p.pack()
            except Exception:  # noqa  (whatever the current values pack to is observed by the operations 120)
                pass
            f.value = g(r, 1)
        elif code == 120: return _pack(p)
        elif code == 121: return [p.packet_len, p.pdu_data_field_len, p.header_len]
        elif code == 130:
            val = g(r, 1)
            if v == 0: st.conf.trans_mode = h5._e(D.TransmissionMode, val)
            elif v == 1: st.conf.file_flag = h5._e(D.LargeFileFlag, val)
            elif v == 2: st.conf.crc_flag = h5._e(D.CrcFlag, val)
            elif v == 3: st.conf.direction = h5._e(D.Direction, val)
            else: st.conf.seg_ctrl = h5._e(D.SegmentationControl, val)
        elif code == 131: st.conf.transaction_seq_num = _ubf(v, g(r, 1))
        else:
            return [1, 97]
        return None
    if kind == "eof":
        if code == 0: p.fault_location = None
        elif code == 1: p.fault_location = EntityIdTlv(bytes(r))
        elif code == 2: p.condition_code = A._enum(ConditionCode, v)
        elif code == 3: p.file_checksum = bytes(r)
        elif code == 4: p.file_size = v
        else: return [1, 97]
    elif kind == "ack":
        if code == 2: p.directive_code_of_acked_pdu = A._enum(DirectiveType, v)
        elif code == 3: p.directive_subtype_code = v
        elif code == 4: p.condition_code_of_acked_pdu = A._enum(ConditionCode, v)
        elif code == 5: p.transaction_status = A._enum(TransactionStatus, v)
        else: return [1, 97]
    elif kind == "prompt":
        if code == 2: p.response_required = A._enum(ResponseRequired, v)
        else: return [1, 97]
    elif kind == "ka":
        if code == 2: p.progress = v
        else: return [1, 97]
    elif kind == "nak":
        if code == 0: p.segment_requests = C._segs(r)
        elif code == 10: p.segment_requests = None
        elif code == 11: p.segment_requests = st.L
        elif code == 12: st.L.append((g(r, 0), g(r, 1)))
        elif code == 13:
            if st.L: st.L.pop()
        elif code == 14: st.L.clear()
        elif code == 16: st.L = p.segment_requests
        elif code == 2: p.start_of_scope = v
        elif code == 3: p.end_of_scope = v
        elif code == 20: return [0, p.get_max_seg_reqs_for_max_packet_size(v)]
        else: return [1, 97]
    elif kind == "md":
        q = p.params
        if code == 0: p.options = None
        elif code == 1: p.options = [B._tlv(x) for x in chunks(r)]
        elif code == 11: p.options = st.L
        elif code == 12: st.L.append(B._tlv(r))
        elif code == 13:
            if st.L: st.L.pop()
        elif code == 14: st.L.clear()
        elif code == 16:
            if p.options is not None: st.L = p.options
        elif code == 2: p.source_file_name = None
        elif code == 3: p.source_file_name = bytes(r).decode()
        elif code == 4: p.dest_file_name = None
        elif code == 5: p.dest_file_name = bytes(r).decode()
        elif code == 20: q.closure_requested = bool(v)
        elif code == 21: q.checksum_type = B._enum(ChecksumType, v)
        elif code == 22: q.file_size = v
        elif code == 23: q.source_file_name = B._opt_name(r)
        elif code == 24: q.dest_file_name = B._opt_name(r)
        else: return [1, 97]
    else:
        q = p.finished_params
        if code == 0: p.fault_location = None
        elif code == 1: p.fault_location = EntityIdTlv(bytes(r))
        elif code == 2: p.file_store_responses = None
        elif code == 3: p.file_store_responses = [B._resp(x) for x in chunks(r)]
        elif code == 4: p.condition_code = B._enum(ConditionCode, v)
        elif code == 11: p.file_store_responses = st.L
        elif code == 12: st.L.append(B._resp(r))
        elif code == 13:
            if st.L: st.L.pop()
        elif code == 14: st.L.clear()
        elif code == 16:
            if p.file_store_responses is not None: st.L = p.file_store_responses
        elif code == 17: q.file_store_responses = st.L
        elif code == 18: q.file_store_responses = None
        elif code == 20: q.condition_code = B._enum(ConditionCode, v)
        elif code == 21: q.delivery_code = B._enum(DeliveryCode, v)
        elif code == 22: q.file_status = B._enum(FileStatus, v)
        elif code == 23: q.fault_location = B._fault(r)
        else: return [1, 97]
    return None


def values(kind, st):
    f = fields(kind, st)
    return f[1:3] + f[5 if kind in ("fin", "md", "nak") else 4:]


def do_op(kind, st, o):
    if not o:
        return [1, 97]
    if o[0] == 122:
        return enchunk(values(kind, st))
    try:
        r = _do(kind, st, o)
        return [0] if r is None else r
    except Exception as e:  # a refused operation: recorded, the history goes on
        return [1, core.canon_code(core.classify_exception(e))]


def fin_fields_h(p):
    q = p.finished_params
    rs = q.file_store_responses
    return (h5._fields(p.pdu_header) + [[int(p.pdu_file_directive.directive_type), p.packet_len],
                                        [int(q.condition_code), int(q.delivery_code), int(q.file_status)],
                                        B._fault_enc(q.fault_location), [-1 if rs is None else len(rs)]]
            + [B._resp_enc(r) for r in (rs or [])])


def fields(kind, st):
    p = st.p
    if kind == "eof": return A._eof_fields(p)
    if kind == "ack": return A._ack_fields(p)
    if kind == "prompt": return A._prompt_fields(p)
    if kind == "ka": return A._ka_fields(p)
    if kind == "fin": return fin_fields_h(p)
    if kind == "md": return B._md_fields(p) + B._mp_fields(p.params)
    return C._fields(p)


def caller_list(kind, st):
    if kind == "fin": return enchunk([B._resp_enc(r) for r in st.L])
    if kind == "md": return enchunk([[int(t.tlv_type)] + list(t.value) for t in st.L])
    if kind == "nak": return C._flat(st.L)
    return []


def observe(kind, st):
    p = st.p
    return ([[-2]] + fields(kind, st) + [[p.packet_len, p.pdu_data_field_len, p.header_len], _pack(p), _pack(p)]
            + A._conf_lists(st.conf) + [caller_list(kind, st)])


def impl(op, a):
    kind = KIND[op]
    objs = []
    for part in split_parts(a):
        st = build(kind, part)
        log = [do_op(kind, st, o) for o in part[3 + NCTOR[kind]:]]
        objs.append((st, log))
    out = []
    for i, (st, log) in enumerate(objs):          # all observations after all histories
        if i:
            out.append([-3])
        out += log + observe(kind, st)
    return out


# ------------------------------------------------------------------ explorations outside the model (op 1399)
# The model's lists hold filestore responses (Finished), generic TLVs (Metadata options) and the fault location is an
# entity-ID TLV.  The library itself never looks at the class / TLV type of what it is handed (everything with
# packet_len and pack() is taken), so an application CAN assign a TLV of another class; the statement explored here is
# the part of C11 that does not depend on what the item is:
#   an assignment (or construction) that RAISES leaves every view of the PDU, the caller's list and the caller's items
#   as they were; one that is ACCEPTED leaves packet_len / data-field length = what pack() emits, pack() repeatable,
#   and the caller's items untouched; the same holds for the next (ordinary) assignment after it.
from spacepackets.cfdp.tlv import (CfdpTlv, FlowLabelTlv, MessageToUserTlv, FaultHandlerOverrideTlv, FileStoreRequestTlv,
                                   FileStoreResponseTlv, TlvType, FilestoreActionCode, FilestoreResponseStatusCode)
from spacepackets.cfdp.defs import FaultHandlerCode


class _MyEntityIdTlv(EntityIdTlv):
    pass


X_KINDS = ["fin", "eof", "md"]
X_ITEM_STYLES = 9


def _x_item(l):
    """a TLV object of one of the library's classes: [style, ...]"""
    style, r = l[0], list(l[1:])
    if style == 0: return EntityIdTlv(bytes(r))
    if style == 1: return CfdpTlv(B._enum(TlvType, g(r, 0)), bytes(r[1:]))
    if style == 2: return FlowLabelTlv(bytes(r))
    if style == 3: return MessageToUserTlv(bytes(r))
    if style == 4: return FaultHandlerOverrideTlv(B._enum(ConditionCode, g(r, 0) % 16 if g(r, 0) % 16 in CCS else 4), FaultHandlerCode(1 + g(r, 1) % 4))
    if style == 5: return FileStoreRequestTlv(FilestoreActionCode.CREATE_FILE_SNM, bytes(x % 26 + 0x61 for x in r).decode())
    if style == 6: return FileStoreResponseTlv(FilestoreActionCode.CREATE_FILE_SNM, FilestoreResponseStatusCode.CREATE_SUCCESS,
                                               bytes(x % 26 + 0x61 for x in r).decode())
    if style == 7: return _MyEntityIdTlv(bytes(r))
    return CfdpTlv(TlvType.FILESTORE_RESPONSE, bytes(r))        # a generic TLV that only carries the type code


def _x_item_view(t):
    if t is None:
        return None
    try:
        pk = bytes(t.pack())
    except Exception as e:  # noqa
        pk = type(e).__name__
    return (type(t).__name__, int(t.tlv_type), t.packet_len, pk, id(t))


def _x_list_view(l):
    return None if l is None else (id(l), [_x_item_view(t) for t in l])


def _x_view(kind, p):
    v = [h5._fields(p.pdu_header), p.packet_len, p.pdu_data_field_len, p.header_len, p.pdu_file_directive.directive_param_field_len,
         _pack(p)]
    if kind == "fin":
        q = p.finished_params
        v += [int(q.condition_code), int(q.delivery_code), int(q.file_status), _x_item_view(p.fault_location),
              _x_list_view(p.file_store_responses), _x_item_view(q.fault_location), _x_list_view(q.file_store_responses)]
    elif kind == "eof":
        v += [int(p.condition_code), bytes(p.file_checksum), p.file_size, _x_item_view(p.fault_location)]
    else:
        v += [B._mp_fields(p.params), _x_list_view(p.options), bytes(p._source_file_name_lv.value), bytes(p._dest_file_name_lv.value)]
    return v


def _x_consistent(p):
    """0 when the reported lengths are those of the packed octets and pack is repeatable, else a code"""
    p1, p2 = _pack(p), _pack(p)
    if p1 != p2:
        return 5
    if p1[0] == 0:
        n = len(p1) - 1
        if p.packet_len != n or p.pdu_header.packet_len != n or p.pdu_header.pdu_data_field_len != n - p.pdu_header.header_len:
            return 2
    return 0


def explore(a):
    sub = a[0][0] if a and a[0] else -1
    if sub != 0:
        raise RuntimeError("bad exploration")
    kind, target, nitems = X_KINDS[a[0][1]], a[0][2], a[0][3]
    nc = 3 + NCTOR[kind]
    part, item_ls, rest = a[1:1 + nc], a[1 + nc:1 + nc + nitems], a[1 + nc + nitems:]
    items = [_x_item(l) for l in item_ls]
    iv0 = [_x_item_view(t) for t in items]
    if target == 2:
        # construction with the items inside the caller's FinishedParams
        conf = _mkconf(part[0], part[1], 0)
        params = FinishedParams(condition_code=B._enum(ConditionCode, g(part[3], 0)), delivery_code=B._enum(DeliveryCode, g(part[3], 1)),
                                file_status=B._enum(FileStatus, g(part[3], 2)), fault_location=B._fault(part[4]),
                                file_store_responses=items)
        c0 = A._conf_lists(conf)
        try:
            p = FinishedPdu(conf, params)
        except (ValueError, TypeError):     # too long for the data field / a TLV of a class the list does not take
            p = None
        if [_x_item_view(t) for t in items] != iv0 or A._conf_lists(conf) != c0 or params.file_store_responses is not items:
            return [[0, 4]]
        if p is None:
            return [[1]]
        c = _x_consistent(p)
        return [[1]] if c == 0 else [[0, c]]
    st = build(kind, part)
    p = st.p
    for o in rest[:-1] if rest else []:           # a few ordinary operations first
        do_op(kind, st, o)
    s0 = _x_view(kind, p)
    c = _x_consistent(p)
    lst = items
    try:
        if target == 0:
            if kind == "fin": p.file_store_responses = lst
            else: p.options = lst
        else:
            p.fault_location = items[0] if items else None
        raised = False
    except (ValueError, TypeError):         # too long for the data field / a TLV of a class the attribute does not take
        raised = True
    s1 = _x_view(kind, p)
    if [_x_item_view(t) for t in items] != iv0 or len(lst) != len(iv0):
        return [[0, 4]]           # the caller's items / list were modified
    if raised:
        if s1 != s0:
            return [[0, 1]]       # refused, yet something changed
    elif c == 0 and _x_consistent(p) != 0:
        return [[0, _x_consistent(p)]]
    # the next ordinary operation (the last of `rest`), then the same questions once more
    if rest:
        s1 = _x_view(kind, p)
        c1 = _x_consistent(p)
        r = do_op(kind, st, rest[-1])
        if r and r[0] == 1 and rest[-1][0] not in (120, 121, 122) and _x_view(kind, p) != s1:
            return [[0, 6]]
        if c1 == 0 and rest[-1][0] in RECALC[kind] and (not r or r[0] == 0) and _x_consistent(p) != 0:
            return [[0, 7]]
    return [[1]]


X_WHAT = {1: "the assignment was refused, yet the PDU's views / lengths / packed octets changed",
          2: "after the accepted assignment packet_len / the data-field length are not those of the packed octets",
          4: "the caller's TLV objects (or its list / PduConfig) were modified", 5: "two packs in a row differ",
          6: "the following operation was refused, yet the PDU changed", 7: "after the following (accepted) assignment the reported "
          "lengths are not those of the packed octets"}


def explore_oracle(case, ires):
    op, a = case
    if ires == [[0], [1]]:
        return None
    kind, target = X_KINDS[a[0][1]], a[0][2]
    what = ["%s = [items]" % ("file_store_responses" if kind == "fin" else "options"), "fault_location = item",
            "FinishedPdu(conf, FinishedParams(file_store_responses=[items]))"][target]
    nc = 3 + NCTOR[kind]
    d = ires[1] if len(ires) > 1 else ires[0]
    return ("C11/%s.%s/foreign-tlv" % (NAME[kind], ["list-setter", "fault_location", "__init__"][target]),
            "%s with TLV objects %s (styles: 0 EntityIdTlv, 1/8 CfdpTlv, 2 FlowLabelTlv, 3 MessageToUserTlv, 4 FaultHandlerOverrideTlv, "
            "5 FileStoreRequestTlv, 6 FileStoreResponseTlv, 7 subclass of EntityIdTlv): %s" % (
                what, [x[:6] for x in a[1 + nc:1 + nc + a[0][3]]], X_WHAT.get(d[1] if len(d) > 1 else -1, "the adapter ended with %s" % (ires[:2],))))


def explore_cases(tier, rng):
    big = tier == "thorough"
    cases = []

    def item(style):
        if style == 1:
            return [1, rng.choice(h8.TLV_TYPES)] + h8.rbytes(rng, rng.choice([0, 1, 2, 8]))
        if style == 4:
            return [4, rng.randrange(16), rng.randrange(4)]
        return [style] + h8.rbytes(rng, rng.choice([1, 1, 2, 4, 8]))

    for kind_i, kind in enumerate(X_KINDS):
        targets = {"fin": (0, 1, 2), "eof": (1,), "md": (0,)}[kind]
        for target, style, rep in itertools.product(targets, range(X_ITEM_STYLES), range(6 if big else 2)):
            c = gen_ctor(kind, rng, path=rng.choice([0, 0, 1, 2] if target != 2 else [0]))
            if kind in ("fin", "eof") and rng.random() < 0.7:      # a condition code with which the fault location is transmitted
                (c[3] if kind == "fin" else c[4])[0 if kind == "fin" else 1] = rng.choice([4, 6, 8])
            if target == 1:
                items = [item(style)]
            else:
                n = rng.choice([1, 1, 2, 3])
                k = rng.randrange(n)
                items = [item(style) if i == k else item(rng.choice([6, 6, style]) if kind == "fin" else rng.choice([1, style])) for i in range(n)]
            pre = gen_ops(kind, rng, c[1][1], rng.randrange(0, 3))
            pre = [o for o in pre if o and o[0] not in (102,)]
            nxt = rng.choice([[120], gen_specific(kind, rng, c[1][1]), gen_specific(kind, rng, c[1][1]), [100, rng.randrange(2), rng.randrange(4)]])
            cases.append((1399, [[0, kind_i, target, len(items)]] + c + items + (pre + [nxt] if target != 2 else [])))
    return cases


# ------------------------------------------------------------------ value-level reading of a history (oracle side)
FORCED_DIR = {"eof": 0, "prompt": 0, "ka": 1, "fin": 1, "md": 0, "nak": 1}
RECALC = {"eof": {0, 1}, "ack": set(), "prompt": set(), "ka": set(), "nak": {0, 10, 11},
          "md": {0, 1, 11, 2, 3, 4, 5}, "fin": {0, 1, 2, 3, 4, 11}}
CCS = [c for c in B.CCS if c >= 0]


class V:
    """expected exposed values of one object; `L` is the caller's list object, which IS the PDU's list
    (same Python object here as well) while the PDU holds it"""

    def copy(self):
        # lists are copied one level deep (their items are never edited in place), the identity relation between
        # L and the PDU's list is kept
        w, memo = V(), {}
        for k, x in self.__dict__.items():
            if isinstance(x, list):
                if id(x) not in memo:
                    memo[id(x)] = list(x)
                x = memo[id(x)]
            w.__dict__[k] = x
        return w

    @property
    def alias(self):
        return self.lst() is not None and self.lst() is self.L

    def lst(self):
        return getattr(self, {"fin": "resps", "md": "opts", "nak": "segs"}.get(self.kind, "none"), None)

    def set_lst(self, l):
        if self.kind == "fin": self.resps = l
        elif self.kind == "md": self.opts = l
        else: self.segs = l


def _name_of(l):
    return list(l[1:]) if l and l[0] != 0 else None


def v_build(kind, a):
    """expected values right after construction; None when the constructor arguments are not a valid parameter set"""
    ids, flags, desc = a[0], a[1], a[2]
    path = g(desc, 0)
    if not (h5.valid_args(ids, flags, [0, 0, 0])):
        return None
    v = V()
    v.kind, v.ids, v.flags, v.ptype, v.meta = kind, list(ids), list(flags), 0, 0
    v.cids, v.cflags = list(ids), list(flags)
    v.L, v.synced = [], True
    large = flags[1]
    if kind == "eof":
        if not A.params_ok("eof", [ids, flags, a[3], a[4], a[5]]) or len(a[4]) < 2:
            return None
        v.checksum, v.size, v.cc, v.fault = list(a[3]), a[4][0], a[4][1], (list(a[5]) if a[5] and a[5][0] == 1 else [0])
    elif kind == "ack":
        if len(a[3]) < 3 or not A.params_ok("ack", [ids, flags, a[3]]):
            return None
        v.code, v.cc, v.st = a[3]
        v.sub = 1 if v.code == 5 else 0
    elif kind == "prompt":
        if not a[3] or a[3][0] not in (0, 1):
            return None
        v.rr = a[3][0]
    elif kind == "ka":
        if not a[3] or not 0 <= a[3][0] < 256 ** (8 if large else 4):
            return None
        v.progress = a[3][0]
    elif kind == "fin":
        if path == 3 or path == 4:
            v.cc, v.dc, v.fs, v.fault, v.resps = 0, 0, 2, [0], []
        elif path == 5:
            v.cc, v.dc, v.fs, v.fault, v.resps = 0, 0, 0, [0], []
        else:
            mode = g(a[5], 0)
            rs = chunks(a[5][1:]) if mode == 1 else []
            if len(a[3]) < 3 or not B.valid_fin([ids, flags, a[3], a[4], [len(rs)]] + rs):
                return None
            v.cc, v.dc, v.fs = a[3]
            v.fault = list(a[4]) if a[4] and a[4][0] == 1 else [0]
            v.resps = None if mode == 0 else rs
            if mode == 1:
                v.L = v.resps
    elif kind == "md":
        mode = g(a[6], 0)
        os_ = chunks(a[6][1:]) if mode == 1 else []
        if len(a[3]) < 3 or not B.valid_md([ids, flags, a[3], a[4], a[5], [1 if mode == 1 else 0, len(os_)]] + os_):
            return None
        v.cl, v.cs, v.fsize = a[3]
        v.psrc = [0] if _name_of(a[4]) is None else [1] + _name_of(a[4])
        v.pdst = [0] if _name_of(a[5]) is None else [1] + _name_of(a[5])
        v.src, v.dst = _name_of(a[4]) or [], _name_of(a[5]) or []
        v.opts = os_ if mode == 1 else None
        if mode == 1:
            v.L = v.opts
    else:
        mode = g(a[4], 0)
        flat = list(a[4][1:]) if mode == 1 else []
        if len(a[3]) < 2 or not C.valid_nak([ids, flags, a[3], flat]):
            return None
        v.start, v.end = a[3][0], a[3][1]
        v.segs = [[flat[i], flat[i + 1]] for i in range(0, len(flat) - 1, 2)]
        if mode == 1:
            v.L = v.segs
    v.flags[3] = (0 if v.code == 5 else 1) if kind == "ack" else FORCED_DIR[kind]
    if path in (1, 2):
        # what C06 says the decoded object exposes
        v.L = []
        if kind == "fin":
            if v.cc in (0, 11):
                v.fault = [0]
            v.resps = [B.norm_resp(r) for r in (v.resps or [])]
        if kind == "md":
            v.psrc, v.pdst = [1], [1]
            v.opts = list(v.opts) if v.opts else None
        if kind == "nak":
            v.segs = [list(s) for s in v.segs]
    return v


def body(v):
    """directive parameter octets of the current values per 727.0-B-5; None when they are not a valid parameter set"""
    k = v.kind
    large = v.flags[1]
    w = 8 if large else 4
    try:
        if k == "eof":
            if len(v.checksum) != 4 or not 0 <= v.cc <= 15 or not 0 <= v.size < 256 ** w or len(v.fault) - 1 > 255:
                return None
            return A.eof_params(v.flags, v.checksum, v.size, v.cc, v.fault)
        if k == "ack":
            if not (0 <= v.code <= 15 and 0 <= v.sub <= 15 and 0 <= v.cc <= 15 and 0 <= v.st <= 3):
                return None
            return [v.code * 16 + v.sub, v.cc * 16 + v.st]
        if k == "prompt":
            return [v.rr * 128] if v.rr in (0, 1) else None
        if k == "ka":
            return list(v.progress.to_bytes(w, "big")) if 0 <= v.progress < 256 ** w else None
        if k == "fin":
            if v.cc not in CCS or v.dc not in (0, 1) or v.fs not in (0, 1, 2, 3) or len(v.fault) - 1 > 255:
                return None
            rs = v.resps or []
            if not all(B.valid_resp(r) for r in rs):
                return None
            out = [v.cc * 16 + v.dc * 4 + v.fs]
            for r in rs:
                out += B.resp_bytes(r)
            if v.fault[0] == 1 and v.cc not in (0, 11):
                out += h8.tlv_bytes(6, v.fault[1:])
            return out
        if k == "md":
            if v.cl not in (0, 1) or v.cs not in B.CSTYPES or not 0 <= v.fsize < 256 ** w:
                return None
            if len(v.src) > 255 or len(v.dst) > 255:
                return None
            out = [v.cl * 64 + v.cs] + list(v.fsize.to_bytes(w, "big")) + h8.lv_bytes(v.src) + h8.lv_bytes(v.dst)
            for t in v.opts or []:
                if not t or t[0] not in h8.TLV_TYPES or len(t) - 1 > 255:
                    return None
                out += h8.tlv_bytes(t[0], t[1:])
            return out
        lim = 256 ** w
        vals = [v.start, v.end] + [x for s in v.segs for x in s]
        if not all(0 <= x < lim for x in vals):
            return None
        out = []
        for x in vals:
            out += list(x.to_bytes(w, "big"))
        return out
    except (OverflowError, ValueError, TypeError):
        return None


def hdr_ok(v):
    return h5.valid_args(v.ids, v.flags, [v.ptype, v.meta, 0])


def true_dlen(v):
    b = body(v)
    if b is None or v.flags[2] not in (0, 1):
        return None
    return 1 + len(b) + (2 if v.flags[2] == 1 else 0)


def plen(v):
    """packet length the standard prescribes for the current values (None: not a valid parameter set)"""
    t = true_dlen(v)
    if t is None or t > 65535 or not hdr_ok(v):
        return None
    return 4 + 2 * v.ids[1] + v.ids[5] + t


def octets(v):
    """the PDU the standard prescribes for the current values (data-field length = octets behind the header)"""
    b = body(v)
    if b is None or not hdr_ok(v):
        return None
    dlen = 1 + len(b) + (2 if v.flags[2] else 0)
    if dlen > 65535:
        return None
    pre = h5.layout(v.ids, v.flags, [v.ptype, v.meta, dlen]) + [CODE[v.kind]] + b
    if v.flags[2]:
        c = h5.crc16_bitwise(pre)
        pre = pre + [c >> 8, c & 0xFF]
    return pre


def exp_fields(v):
    """kind-specific part of the fields the object must expose (the lists after the four header lists)"""
    k = v.kind
    if k == "eof": return [[4, v.cc, v.size], list(v.checksum), list(v.fault)]
    if k == "ack": return [[6, v.code, v.sub, v.cc, v.st]]
    if k == "prompt": return [[9, v.rr]]
    if k == "ka": return [[12, v.progress]]
    if k == "fin":
        return [[v.cc, v.dc, v.fs], list(v.fault), [-1 if v.resps is None else len(v.resps)]] + [list(r) for r in (v.resps or [])]
    if k == "md":
        def get(val):
            return [0] if not val else ([1] + list(val) if h8.utf8_ok(val) else [2])
        o = [[0, 0]] if v.opts is None else [[1, len(v.opts)]] + [list(t) for t in v.opts]
        return [[v.cl, v.cs, v.fsize], list(v.src), list(v.dst), get(v.src), get(v.dst)] + o + [[v.cl, v.cs, v.fsize], list(v.psrc), list(v.pdst)]
    return [[v.start, v.end], [x for s in v.segs for x in s]]


def exp_caller_list(v):
    if v.kind in ("fin", "md"): return enchunk(v.L)
    if v.kind == "nak": return [x for s in v.L for x in s]
    return []


def _resp_ok(r):
    if len(r) < 4:
        return False
    return len(r[4 + max(r[2], 0) + max(r[3], 0):]) <= 255


def v_step(v, o):
    """-> (expected refusal: True / False / None = not predicted, new values if accepted)"""
    k, code, r = v.kind, o[0], o[1:]
    w = v.copy()
    x = g(r, 0)
    refuse = False
    inplace = False
    if code >= 100:
        if code == 100: w.flags[2] = x
        elif code == 101:
            if g(r, 1) == 0 and k == "nak" and x not in (0, 1): refuse = True
            w.flags[1] = x
        elif code == 102:
            refuse = x > 65535
        elif code == 103: w.flags[0] = x
        elif code == 104: w.flags[3] = x
        elif code == 105: w.flags[4] = x
        elif code == 106:
            refuse = not h5.ubf_ok(x, g(r, 1)); w.ids[4], w.ids[5] = x, g(r, 1)
        elif code == 107:
            refuse = not (h5.ubf_ok(g(r, 0), g(r, 1)) and h5.ubf_ok(g(r, 2), g(r, 3)) and g(r, 1) == g(r, 3))
            w.ids[0:4] = [g(r, 0), g(r, 1), g(r, 2), g(r, 3)]
        elif code == 108: w.meta = x
        elif code == 109: w.ptype = x
        elif code == 110:
            refuse = not (x in (0, 1, 2) and 0 <= g(r, 1) < 256 ** w.ids[2 * x + 1])
            if x in (0, 1, 2): w.ids[2 * x] = g(r, 1)
        elif code == 130: w.cflags[x if 0 <= x <= 3 else 4] = g(r, 1)
        elif code == 131:
            refuse = not h5.ubf_ok(x, g(r, 1)); w.cids[4], w.cids[5] = x, g(r, 1)
    elif k == "eof":
        if code == 0: w.fault = [0]
        elif code == 1: refuse = len(r) > 255; w.fault = [1] + list(r)
        elif code == 2: w.cc = x
        elif code == 3: w.checksum = list(r)
        elif code == 4: w.size = x
    elif k == "ack":
        if code == 2: w.code = x
        elif code == 3: w.sub = x
        elif code == 4: w.cc = x
        elif code == 5: w.st = x
    elif k == "prompt":
        if code == 2: w.rr = x
    elif k == "ka":
        if code == 2: w.progress = x
    elif k == "nak":
        if code == 0: w.segs = [[r[i], r[i + 1]] for i in range(0, len(r) - 1, 2)]
        elif code == 10: w.segs = []
        elif code == 11: w.segs = w.L
        elif code == 12: w.L.append([g(r, 0), g(r, 1)]); inplace = True
        elif code == 13:
            if w.L: w.L.pop()
            inplace = True
        elif code == 14: del w.L[:]; inplace = True
        elif code == 16: w.L = w.segs
        elif code == 2: w.start = x
        elif code == 3: w.end = x
    elif k == "md":
        if code == 0: w.opts = None
        elif code == 1:
            w.opts = chunks(r)
            refuse = any(len(t) - 1 > 255 or not t for t in w.opts)
        elif code == 11: w.opts = w.L
        elif code == 12: refuse = len(r) - 1 > 255 or not r; w.L.append(list(r)); inplace = True
        elif code == 13:
            if w.L: w.L.pop()
            inplace = True
        elif code == 14: del w.L[:]; inplace = True
        elif code == 16:
            if w.opts is not None: w.L = w.opts
        elif code == 2: w.src = []
        elif code == 3: refuse = len(r) > 255; w.src = list(r)
        elif code == 4: w.dst = []
        elif code == 5: refuse = len(r) > 255; w.dst = list(r)
        elif code == 20: w.cl = x
        elif code == 21: w.cs = x
        elif code == 22: w.fsize = x
        elif code == 23: w.psrc = [0] if _name_of(r) is None else [1] + _name_of(r)
        elif code == 24: w.pdst = [0] if _name_of(r) is None else [1] + _name_of(r)
    else:
        if code == 0: w.fault = [0]
        elif code == 1: refuse = len(r) > 255; w.fault = [1] + list(r)
        elif code == 2: w.resps = []
        elif code == 3:
            w.resps = chunks(r)
            refuse = not all(_resp_ok(t) for t in w.resps)
        elif code == 4: w.cc = x
        elif code == 11: w.resps = w.L
        elif code == 12: refuse = not _resp_ok(r); w.L.append(list(r)); inplace = True
        elif code == 13:
            if w.L: w.L.pop()
            inplace = True
        elif code == 14: del w.L[:]; inplace = True
        elif code == 16:
            if w.resps is not None: w.L = w.resps
        elif code == 17: w.resps = w.L
        elif code == 18: w.resps = None
        elif code == 20: w.cc = x
        elif code == 21: w.dc = x
        elif code == 22: w.fs = x
        elif code == 23:
            refuse = bool(r) and r[0] == 1 and len(r) - 1 > 255
            w.fault = list(r) if r and r[0] == 1 else [0]
    # the setters that recalculate refuse when the data field would exceed 65535 octets
    recalc = (code in RECALC[k]) or (code == 101 and g(r, 1) == 0 and k in ("ka", "nak"))
    if recalc and not refuse:
        t = true_dlen(w)
        if t is None:
            refuse = None
        elif t > 65535:
            refuse = True
    # reported length in step with the values?
    if refuse is False or refuse is None:
        if recalc:
            w.synced = True
        elif code == 102:
            w.synced = (true_dlen(v) is not None and x == true_dlen(v))
        elif code in (100, 101) or (inplace and v.alias) or (k == "fin" and code in (17, 18, 20, 23)):
            w.synced = v.synced and true_dlen(v) is not None and true_dlen(v) == true_dlen(w)
    if refuse is not True and not _in_domain(k, code, r, x, w):
        refuse = OPEN
    return refuse, w


OPEN = "open"       # v_step: the operation would leave the object (or the caller's configuration) with a value outside the
#                     property's domain -- a flag / code outside its enum, a size / offset / progress the selected width
#                     cannot hold, a checksum that is not 4 octets, a negative length, an ID of width 0, a list item no TLV
#                     of that kind can be.  The unchanged library stores such values and refuses (or has no defined output)
#                     at pack(); refusing the assignment itself with ValueError and staying as it was is as good.  Only when
#                     the values AFTER the operation are a valid parameter set does the operation have to be accepted.


def _in_domain(k, code, r, x, w):
    """w: the values after the (accepted) operation"""
    if code == 102:
        return x >= 0
    if code == 130:
        return g(r, 1) in (0, 1)
    if code == 131:
        return g(r, 1) in WIDTHS
    if code in (13, 14, 16) and k in ("fin", "md", "nak"):
        return True                          # the caller's own list operations: nothing the library could refuse
    if code == 12 and k in ("fin", "md", "nak"):
        # the caller builds one more item and appends it to its own list
        return k == "nak" or (B.valid_resp(list(r)) if k == "fin" else bool(r) and r[0] in h8.TLV_TYPES)
    if k == "ack" and (w.code not in (4, 5) or w.sub not in (0, 1)):
        return False                         # only EOF and Finished are acknowledged (the constructor says so already)
    return body(w) is not None and hdr_ok(w)


# ------------------------------------------------------------------ oracle
def _parse(ires, parts, kind):
    """-> list of (log entries, observation lists) per object, or None"""
    out, i = [], 1
    for n, part in enumerate(parts):
        nops = len(part) - 3 - NCTOR[kind]
        log = ires[i:i + nops]; i += nops
        if i >= len(ires) or ires[i] != [-2]:
            return None
        i += 1
        j = i
        while j < len(ires) and ires[j] != [-3]:
            j += 1
        out.append((log, ires[i:j]))
        i = j + 1
    return out


def oracle(case, ires, sres):
    op, a = case
    kind = KIND[op]
    name = NAME[kind]
    parts = split_parts(a)
    vs = [v_build(kind, p) for p in parts]
    if ires[0][0] == 1:
        if all(v is not None for v in vs) and all(g(p[2], 0) in (0, 3, 4, 5) for p in parts):
            return ("C06/%s.__init__/refuses-valid" % name, "valid constructor arguments %s refused: %s" % ([x[:12] for x in a[:8]], ires))
        if all(v is not None for v in vs):
            return ("C06/%s.unpack/roundtrip-refused" % name, "pack/unpack of valid parameters %s failed: %s" % ([x[:12] for x in a[:8]], ires))
        return None
    parsed = _parse(ires, parts, kind)
    if parsed is None:
        return ("oracle-crash", "cannot parse history result %s" % ires[:6])
    for n, (part, v, (log, obs)) in enumerate(zip(parts, vs, parsed)):
        who = "%s #%d" % (name, n + 1)
        ops = part[3 + NCTOR[kind]:]
        path = g(part[2], 0)
        if v is None:
            # invalid constructor arguments: only repeatability is required
            if len(obs) >= 5 and obs[-5] != obs[-4]:
                return ("C11/%s.pack/not-repeatable" % name, "%s: two packs differ" % who)
            continue
        for k, (o, e) in enumerate(zip(ops, log)):
            hist = [x[:8] for x in ops[:k + 1]]
            if not o:
                continue
            if o[0] == 120:
                exp = octets(v)
                if v.synced and exp is not None and e != [0] + exp:
                    return ("C11/%s.history/pack" % name, "%s after %s packs %s, the layout of its current values is %s"
                            % (who, hist, e[:60], exp[:60]))
                continue
            if o[0] == 122:
                if e != enchunk([v.ids, v.flags] + exp_fields(v)):
                    return ("C11/%s.history/values" % name, "%s (path %d) after %s exposes %s, the values assigned are %s"
                            % (who, path, hist, str(chunks(e))[:300], str([v.ids, v.flags] + exp_fields(v))[:300]))
                continue
            if kind == "nak" and o[0] == 20:
                # the PDU with n segment requests fits into the given size, the one with n + 1 does not
                if hdr_ok(v) and v.ptype == 0:
                    w2 = 16 if v.flags[1] else 8
                    base = 4 + 2 * v.ids[1] + v.ids[5] + 1 + (2 if v.flags[2] else 0) + w2
                    mx = g(o, 1)
                    if (mx < base) != (e[0] == 1) or (e[0] == 0 and not base + e[1] * w2 <= mx < base + (e[1] + 1) * w2):
                        return ("C06/NakPdu.get_max_seg_reqs/value", "%s after %s: get_max_seg_reqs_for_max_packet_size(%d) = %s "
                                "(base length %d, %d octets per request)" % (who, hist, mx, e, base, w2))
                continue
            if o[0] == 121:
                n = plen(v) if v.synced else None
                if n is not None:
                    hl = 4 + 2 * v.ids[1] + v.ids[5]
                    if e != [n, n - hl, hl + 1]:
                        return ("C11/%s.history/length" % name, "%s after %s reports packet_len, data field length, header_len %s; "
                                "its current values pack to %d octets (header %d)" % (who, hist, e, n, hl))
                continue
            refuse, w = v_step(v, o)
            refused = e[0] == 1
            if refuse is True and not refused:
                return ("C11/%s.history/invalid-accepted" % name, "%s: operation %s should have been refused (history %s)" % (who, o[:12], hist))
            if refuse is False and refused:
                return ("C11/%s.history/valid-refused" % name, "%s: operation %s was refused with %s (history %s)"
                        % (who, o[:12], core.ERR_NAMES.get(e[1], e[1]), hist))
            if refuse is OPEN and refused and len(e) > 1 and e[1] != core.E_VALUE:
                return ("C11/%s.history/out-of-domain-value-error-class" % name, "%s: operation %s (a value outside the domain) was refused "
                        "with %s, not with ValueError (history %s)" % (who, o[:12], core.ERR_NAMES.get(e[1], e[1]), hist))
            if not refused:
                v = w
        # ---- final observation
        hd, idsr, flagsr, lens = obs[0:4]
        got = obs[4:-6]
        lens3, p1, p2, cids, cflags, clist = obs[-6:]
        hist = [x[:8] for x in ops]
        dt = got[0] if kind in ("fin", "md", "nak") else None
        gotk = got[1:] if kind in ("fin", "md", "nak") else got
        if idsr != v.ids or flagsr != v.flags or hd[0] != v.ptype or hd[1] != v.meta:
            return ("C11/%s.history/header-values" % name, "%s after %s exposes header %s %s %s, assigned were %s %s type %d meta %d"
                    % (who, hist, hd, idsr, flagsr, v.ids, v.flags, v.ptype, v.meta))
        if kind == "fin" and v.resps is None and gotk[:2] == exp_fields(v)[:2] and gotk[2:] == [[0]]:
            return ("C11/FinishedPdu.__init__/caller-params-modified", "%s: the caller's FinishedParams had file_store_responses=None, "
                    "after %s it is [] (history %s)" % (who, "the constructor" if not ops else "construction and the history", hist))
        if gotk != exp_fields(v):
            return ("C11/%s.history/values" % name, "%s (path %d) after %s exposes %s, the values assigned are %s"
                    % (who, path, hist, str(gotk)[:300], str(exp_fields(v))[:300]))
        if [cids, cflags] != [v.cids, v.cflags]:
            return ("C11/%s.__init__/caller-conf-modified" % name, "%s: caller's PduConfig %s became %s (history %s)"
                    % (who, [v.cids, v.cflags], [cids, cflags], hist))
        if clist != exp_caller_list(v):
            return ("C11/%s.history/caller-list-modified" % name, "%s: the caller's list is %s, expected %s (history %s)"
                    % (who, clist[:40], exp_caller_list(v)[:40], hist))
        if p1 != p2:
            return ("C11/%s.pack/not-repeatable" % name, "%s: two packs differ after %s" % (who, hist))
        n = plen(v) if v.synced else None
        if n is not None:
            hl = 4 + 2 * v.ids[1] + v.ids[5]
            if lens3 != [n, n - hl, hl + 1] or hd[2] != n - hl or lens != [hl, n]:
                return ("C11/%s.history/length" % name, "%s (path %d) after %s reports packet_len, data field length, header_len %s; "
                        "its current values pack to %d octets (header %d)" % (who, path, hist, lens3, n, hl))
            exp = octets(v)
            if p1 != [0] + exp:
                return ("C11/%s.history/fresh" % name, "%s (path %d) after %s packs %s; a PDU with these values is %s"
                        % (who, path, hist, p1[:60], exp[:60]))
    return None


# ------------------------------------------------------------------ generators
def rconf(rng, **kw):
    return A._rand_conf(rng, **kw)


def rflag(rng):
    return rng.choice([0, 1, 0, 1, 0, 1, 0, 1, 2])


def gen_generic(rng, v_large=None):
    """one operation every directive PDU has"""
    r = rng.random()
    if r < 0.16: return [100, rng.choice([0, 1]), rng.randrange(4)]
    if r < 0.32: return [101, rng.choice([0, 1]), rng.randrange(4)]
    if r < 0.40: return [102, rng.choice([0, 1, 5, 9, 10, 13, 17, 255, 256, 65535, 65536, 70000]), rng.randrange(3)]
    if r < 0.46: return [103, rng.randrange(2)]
    if r < 0.52: return [104, rng.randrange(2)]
    if r < 0.57: return [105, rng.randrange(2)]
    if r < 0.64:
        w = rng.choice([1, 2, 4, 8, 1, 2, 4, 8, 0, 3])
        return [106, rng.choice([0, 1, 255, 256, 256 ** max(w, 1) - 1, 256 ** max(w, 1)]), w]
    if r < 0.71:
        w = rng.choice(WIDTHS); w2 = w if rng.random() < 0.8 else rng.choice(WIDTHS)
        return [107, rng.randrange(256 ** w), w, rng.randrange(256 ** w2), w2]
    if r < 0.715:
        which = rng.randrange(3)
        return [110, which, rng.choice([0, 1, 255, 256, 2 ** 16, 2 ** 32 - 1, 2 ** 32, 2 ** 61, 2 ** 64 - 1, 2 ** 64, -1, rng.randrange(2 ** 64)])]
    if r < 0.73: return [108, rng.randrange(2)]
    if r < 0.75: return [109, rng.randrange(2)]
    if r < 0.84: return [120]
    if r < 0.88: return [122]
    if r < 0.92: return [121]
    if r < 0.98: return [130, rng.randrange(5), rng.randrange(2)]
    w = rng.choice(WIDTHS)
    return [131, rng.randrange(256 ** w), w]


def rsize(rng, large):
    return A._rand_size(rng, large)


def name_end4(rng, n):
    """valid UTF-8 of exactly n octets (n >= 4) ending in a 4-octet sequence"""
    return B.rname(rng, n - 4) + rng.choice([c for c in h8.CH if len(c) == 4])


def rname(rng):
    n = rng.choice([0, 1, 2, 5, 12, 24, 63, 64, 127, 128, 254, 255, 256, 300])
    if n >= 4 and rng.random() < 0.4:
        return name_end4(rng, n)
    return B.rname(rng, n)


def gen_specific(kind, rng, large):
    """one operation of the kind's own alphabet"""
    if kind == "eof":
        k = rng.randrange(6)
        if k == 0: return [0]
        if k == 1: return [1] + h8.rbytes(rng, rng.choice([0, 1, 2, 3, 4, 8, 255, 256]))
        if k == 2: return [2, rng.choice(CCS + [15, 16])]
        if k == 3: return [3] + h8.rbytes(rng, 4)
        if k == 4: return [4, rsize(rng, rng.randrange(2))]
        return [1] + h8.rbytes(rng, rng.choice([1, 2, 4, 8]))
    if kind == "ack":
        k = rng.randrange(4)
        return [[2, rng.choice([4, 5, 4, 5, 7])], [3, rng.choice([0, 1, 15])], [4, rng.choice(CCS)], [5, rng.randrange(4)]][k]
    if kind == "prompt":
        return [2, rng.choice([0, 1, 0, 1, 2])]
    if kind == "ka":
        return [2, rsize(rng, rng.randrange(2))]
    if kind == "nak":
        k = rng.randrange(10)
        if k == 0: return [0] + C._rand_segs(rng, large)
        if k == 1: return [10]
        if k in (2, 3): return [11]
        if k in (4, 5): return [12, C._rand_off(rng, large), C._rand_off(rng, large)]
        if k == 6: return [rng.choice([13, 14])]
        if k == 7: return [16]
        if k == 8: return [20, rng.choice([0, 20, 21, 29, 30, 37, 45, 46, 61, 62, 100, 512, 4096, 65535, rng.randrange(0, 300)])]
        return [rng.choice([2, 3]), C._rand_off(rng, rng.randrange(2))]
    if kind == "md":
        k = rng.randrange(14)
        if k == 0: return [0]
        if k == 1: return [1] + enchunk([B._rand_tlv(rng, True) for _ in range(rng.randrange(0, 4))])
        if k in (2, 3): return [11]
        if k in (4, 5): return [12] + B._rand_tlv(rng, rng.random() < 0.8)
        if k == 6: return [rng.choice([13, 14])]
        if k == 7: return [16]
        if k == 8: return [rng.choice([2, 4])]
        if k in (9, 10): return [rng.choice([3, 5])] + rname(rng)
        if k == 11: return [rng.choice([20, 21]), rng.choice([0, 1])] if rng.random() < 0.5 else [21, rng.choice(B.CSTYPES)]
        if k == 12: return [22, B._rand_fsize(rng, rng.randrange(2))]
        return [rng.choice([23, 24])] + B._rand_name(rng)
    k = rng.randrange(16)
    if k == 0: return [0]
    if k == 1: return [1] + h8.rbytes(rng, rng.choice([1, 2, 4, 8, 3, 0]))
    if k == 2: return [2]
    if k == 3: return [3] + enchunk([B._rand_resp(rng, True) for _ in range(rng.randrange(0, 4))])
    if k == 4: return [4, rng.choice(CCS)]
    if k in (5, 6): return [11]
    if k in (7, 8): return [12] + B._rand_resp(rng, True)
    if k == 9: return [rng.choice([13, 14])]
    if k == 10: return [16]
    if k == 11: return [rng.choice([17, 18])]
    if k == 12: return [20, rng.choice(CCS)]
    if k == 13: return [rng.choice([21, 22]), rng.randrange(2)] if rng.random() < 0.5 else [22, rng.randrange(4)]
    if k == 14: return [23] + B._rand_fault(rng)
    return [4, rng.choice([0, 11, 4, 6])]


def collision_burst(rng):
    """one 8-octet ID / sequence-number object of the PDU edited in place along values CPython hashes alike (c05.colliding),
    the PDU packed after every step"""
    v = rng.choice(h5.COLL_SEEDS + [rng.randrange(h5.M61), rng.randrange(2 ** 64)])
    chain = [v] + rng.sample(h5.colliding(v), rng.randrange(1, 4))
    if rng.random() < 0.5:
        which = 2
        ops = [[106, rng.choice(h5.COLL_SEEDS), 8]]
    else:
        which = rng.randrange(2)
        ops = [[107, rng.choice(h5.COLL_SEEDS), 8, rng.choice(h5.COLL_SEEDS), 8]]
    ops.append([120])
    for x in chain:
        ops += [[110, which, x], [120]]
    return ops


def gen_ops(kind, rng, large, n=None):
    n = rng.randrange(0, 11) if n is None else n
    ops = []
    p_spec = {"eof": 0.55, "ack": 0.4, "prompt": 0.3, "ka": 0.35, "nak": 0.7, "md": 0.7, "fin": 0.7}[kind]
    for _ in range(n):
        if rng.random() < 0.04:
            ops += collision_burst(rng)
        elif ops and rng.random() < 0.08:
            ops.append(list(ops[-1]))                       # the same assignment twice
        elif ops and kind in ("eof", "fin") and ops[-1][0] == 1 and rng.random() < 0.5:
            # an entity ID that compares equal (EntityIdTlv.__eq__ is numerical) but has another length
            val = ops[-1][1:]
            ops.append([1] + ([0] * rng.choice([1, 3]) + val if rng.random() < 0.6 or not val or val[0] else val[1:]))
        elif rng.random() < p_spec:
            ops.append(gen_specific(kind, rng, large))
        else:
            ops.append(gen_generic(rng))
    if rng.random() < 0.3:
        ops.append([120])
    return ops


def gen_ctor(kind, rng, path=None, **kw):
    """ids, flags, descriptor and constructor lists"""
    ids, flags = rconf(rng, **kw)
    large = flags[1]
    if path is None:
        path = rng.choice([0, 0, 0, 1, 2] + ([3, 4, 5] if kind == "fin" else []))
    desc = [path, int(rng.random() < 0.2), int(rng.random() < 0.3)]
    if kind in ("eof", "ack", "prompt", "ka"):
        par = A._rand_params(kind, rng, flags)
        return [ids, flags, desc] + par
    mode = rng.choice([0, 1, 1, 1, 2])
    if kind == "fin":
        a = B._rand_fin(rng, small=True)
        n = a[4][0]
        return [ids, flags, desc, a[2], a[3], [mode] + (enchunk(a[5:5 + n]) if mode == 1 else [])]
    if kind == "md":
        a = B._rand_md(rng, small=True, nopt=rng.choice([0, 1, 2, 3]))
        a[2][2] = B._rand_fsize(rng, large)
        return [ids, flags, desc, a[2], a[3], a[4], [mode] + (enchunk(a[6:]) if mode == 1 else [])]
    se = [C._rand_off(rng, large), C._rand_off(rng, large)]
    return [ids, flags, desc, se, [mode] + (C._rand_segs(rng, large) if mode == 1 else [])]


def alias_ops(kind, rng, large):
    """the caller mutates the list object the PDU holds and hands it in again"""
    def item():
        if kind == "nak": return [12, C._rand_off(rng, large), C._rand_off(rng, large)]
        if kind == "md": return [12] + B._rand_tlv(rng, True)
        return [12] + B._rand_resp(rng, True)
    pat = rng.randrange(6)
    obs = lambda: rng.choice([[120], [121], [120]])
    if pat == 0: ops = [[16], item(), [11]]
    elif pat == 1: ops = [item(), [11], item(), obs(), [11]]
    elif pat == 2: ops = [[11], item(), item(), [11], [13], [11]]
    elif pat == 3: ops = [[11], [14], [11], item(), [11]]
    elif pat == 4: ops = [[16], item(), obs(), [11], obs(), item(), [100, 1, rng.randrange(4)], [11]]
    else: ops = [item(), item(), [11], [13], obs(), [11], [11]]
    if kind == "fin" and rng.random() < 0.4:
        ops.insert(rng.randrange(len(ops) + 1), rng.choice([[17], [18], [2], [4, rng.choice(CCS)]]))
    if rng.random() < 0.5:
        ops.insert(rng.randrange(len(ops) + 1), gen_generic(rng))
    return ops + [[120]]


def streams_for(kinds, tier, rng, tag):
    """history streams of the given kinds (names carry `histor` / `ctor` so that C11 collects them)"""
    big = tier == "thorough"
    # 1. every construction path x list mode x CRC x large: observation only, then one pack, one assignment of
    #    the same values
    cases = []
    for kind in kinds:
        paths = [0, 1, 2] + ([3, 4, 5] if kind == "fin" else [])
        for path, crc, large, rep in itertools.product(paths, (0, 1), (0, 1), range(4 if big else 2)):
            c = gen_ctor(kind, rng, path=path, crc=crc, large=large)
            if kind in ("fin", "md", "nak"):
                for mode in (0, 1, 2):
                    c2 = [list(x) for x in c]
                    lst_i = {"fin": 5, "md": 6, "nak": 4}[kind]
                    if mode != 1:
                        c2[lst_i] = [mode]
                    elif c2[lst_i][0] != 1:
                        c2[lst_i] = [1]
                    cases.append((OPS[kind], c2))
                    cases.append((OPS[kind], c2 + [[120], [121], [16], [11], [120]]))
            else:
                cases.append((OPS[kind], c))
                cases.append((OPS[kind], c + [[120], [121]]))
    yield "ctor_paths_" + tag, "exact", cases
    # 2. random histories of up to ten operations
    cases = []
    for kind in kinds:
        for _ in range(2500 if big else {"eof": 260, "ack": 120, "prompt": 100, "ka": 140, "fin": 420, "md": 420, "nak": 380}[kind]):
            c = gen_ctor(kind, rng)
            cases.append((OPS[kind], c + gen_ops(kind, rng, c[1][1])))
    yield "histories_" + tag, "exact", cases
    # 3. the caller's list mutated in place and assigned again (list-carrying kinds)
    cases = []
    for kind in kinds:
        if kind not in ("fin", "md", "nak"):
            continue
        for _ in range(1200 if big else 220):
            c = gen_ctor(kind, rng, path=rng.choice([0, 0, 1]))
            cases.append((OPS[kind], c + alias_ops(kind, rng, c[1][1])))
    if cases:
        yield "histories_caller_list_" + tag, "exact", cases
    # 4. two objects from the same construction path, both histories run before either is observed
    cases = []
    for kind in kinds:
        paths = [0, 1] + ([3, 4, 5, 3, 4, 5] if kind == "fin" else [])
        for _ in range(1000 if big else (260 if kind == "fin" else 90)):
            path = rng.choice(paths)
            c1 = gen_ctor(kind, rng, path=path)
            # every third pair: the very same arguments (identical packed octets on the decode paths)
            c2 = [list(x) for x in c1] if rng.random() < 0.33 else gen_ctor(kind, rng, path=path)
            cases.append((OPS[kind], c1 + gen_ops(kind, rng, c1[1][1], rng.randrange(0, 6)) + [SEP]
                          + c2 + gen_ops(kind, rng, c2[1][1], rng.randrange(1, 6))))
    yield "histories_two_objects_" + tag, "exact", cases


def limit_cases(kind, rng, big):
    """the caller's list grown in place to / just beyond the 65535-octet data-field limit and assigned again: the
    assignment beyond the limit is refused and nothing may have changed.  quick: lengths only, the list is emptied
    before the final pack (the model's pack is quadratic in the list length); thorough: packed at the limit."""
    cases = []
    shrink = [[14], [11], [121]]
    for crc, large in itertools.product((0, 1), (0, 1)):
        ids, flags = rconf(rng, crc=crc, large=large, sl=rng.choice(WIDTHS), ql=rng.choice(WIDTHS))
        desc = [0, 0, 0]
        if kind == "nak":
            w2 = 16 if large else 8
            lim = (65535 - 1 - (2 if crc else 0)) // w2 - 1
            base = C._rand_segs(rng, large, lim - 1)
            c = [ids, flags, desc, [1, 2], [1] + base]
            tail = [[120]] if (big and large == 1 and crc == 1) else shrink
            cases.append((OPS[kind], c + [[121], [12, 3, 4], [11], [121], [12, 5, 6], [11], [121], [13], [11], [121]] + tail))
            # file flag NORMAL -> LARGE doubles the requests: refused beyond half the limit, nothing changed
            c = [ids, [flags[0], 0, crc, flags[3], flags[4]], desc, [1, 2], [1] + C._rand_segs(rng, 0, (lim + 1) // 2 + large)]
            cases.append((OPS[kind], c + [[101, 1, 0], [121], [122], [11], [121], [13], [13], [11], [101, 1, 0], [121]] + shrink))
        elif kind == "md":
            big_tlv = [2] + [7] * 255
            n = 253          # 253 options: one more fits, two more do not
            c = [ids, flags, desc, [0, 0, 0], [1] + [0x61] * 100, [1] + [0x62] * 100, [1] + enchunk([big_tlv] * n)]
            cases.append((OPS[kind], c + [[121], [12] + big_tlv, [11], [121], [12] + big_tlv, [11], [121], [13], [11], [121],
                                          [5] + [0x63] * 255, [121], [3] + [0x64] * 255, [121], [122], [5] + [0x63] * 140, [121],
                                          [3] + [0x64] * 110, [121]] + ([[120]] if big else shrink)))
        else:
            big_resp = [0, 0, 240, 0] + [0x61] * 240 + [9] * 12
            n = 253          # 253 responses of 257 octets: one more fits, two more do not
            c = [ids, flags, desc, [4, 0, 1], [0], [1] + enchunk([big_resp] * n)]
            cases.append((OPS[kind], c + [[121], [12] + big_resp, [11], [121], [12] + big_resp, [11], [121], [13], [11], [121],
                                          [1] + [5] * 255, [121], [4, 0], [1] + [5] * 255, [4, 4], [121], [122], [0], [4, 4], [121]]
                          + ([[120]] if big else shrink)))
    return cases
