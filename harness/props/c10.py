"""C10 — decoding arbitrary or truncated input fails only in documented ways.
For every registered decoder: every truncation of valid units, single-octet substitutions in the
leading (header / length / type) octets, length-field rewrites, and garbage.  The model carries an
explicit EIndex / EStruct / EType / ... outcome at every indexing / unpacking / enum site, so the
correspondence compares the exception class on the targeted streams."""
from harness.props import xcut
from harness import core

ID = "C10"
ENUMS = xcut.enums()
ASSUMPTIONS = ["decoder inputs are bytes objects (every element 0..255), auxiliary arguments (timestamp length, "
               "managed parameters) are well-typed values of the documented kinds"]
TRUSTED = []
EXPLORED_ONLY = []
ORACLE_LIMIT = {"quick": 400000, "thorough": 4000000}
SUBST = [0, 1, 0x7F, 0x80, 0xFF]


def _name_of(op, extra):
    for d in xcut.all_decoders():
        if d["op"] == op and d["extra"] == extra:
            return d["name"]
    for d in xcut.all_decoders():
        if d["op"] == op:
            return d["name"]
    return "op%d" % op


def _unit(d, u):
    """the self-delimiting unit at the head of a registered valid input: its first N octets, N being
    the length the unit itself declares (a registry entry may carry more, e.g. a whole PDU for the
    file-directive base decoder, which only reads header + directive code)"""
    u = list(u)
    if d["declared_len"]:
        try:
            n = d["declared_len"](u)
        except Exception:
            n = None
        if n is not None and 0 < n < len(u):
            return u[:n]
    return u


def streams(tier, rng):
    big = tier == "thorough"
    fixed_by_family = {}
    for d in xcut.all_decoders():
        op, extra, name = d["op"], d["extra"], d["name"]
        units = [_unit(d, u) for u in d["valid"](rng)]
        if not big:
            units = units[:12]
        trunc, subst, garbage = [], [], []
        for u in units:
            u = list(u)
            for n in range(len(u)):
                trunc.append((op, [u[:n]] + extra + [[1, len(u) if d["declared_len"] else 0]]))
            lead = min(len(u), 16 if not big else 28)
            for i in range(lead):
                for w in SUBST + [(u[i] + 1) & 255, (u[i] - 1) & 255, u[i] ^ 0x10]:
                    if w != u[i]:
                        q = list(u); q[i] = w
                        subst.append((op, [q] + extra + [[2, 0]]))
                        if big:
                            subst.append((op, [q + [rng.randrange(256) for _ in range(5)]] + extra + [[2, 0]]))
        for _ in range(4000 if big else 500):
            n = rng.randrange(0, 48)
            g = [rng.randrange(256) for _ in range(n)]
            if units and n and rng.random() < 0.6:
                u = rng.choice(units)
                k = min(len(u), n, rng.randrange(1, 8))
                g[:k] = u[:k]
            garbage.append((op, [g] + extra + [[3, 0]]))
        tag = "%d_%s" % (op, name.replace(" ", "_")[:40])
        yield "trunc_" + tag, "exact", trunc
        yield "subst_" + tag, "exact", subst
        yield "garbage_" + tag, "verdict", garbage
        # CRC-repairing mutations: every unit that ends in a CRC-16 trailer (PUS TC / TM / reports, every CFDP PDU built
        # with the CRC flag) gets its length field rewritten / its data field shortened or extended / single octets
        # substituted, and THEN the trailer is recomputed, so the mutation reaches the code behind the checksum check
        fixed = fixed_by_family.setdefault(d["family"], [])
        variants = [extra] + [v for v in d.get("param_variants", []) if v != extra][:: (1 if big else 5)]
        crc_units = [u for u in units if xcut.crc_kind(d, u)]
        for u in (crc_units if big else crc_units[:3 if "+views" in name else 6]):
            kind = xcut.crc_kind(d, u)
            n0 = xcut.declared(d, u)
            for q in xcut.length_rewrites(d, u, kind, big):
                r = xcut.repair(d, q, rng.randrange(256), 70000 if big else 2048)
                if r is None:
                    continue
                p, n = r
                ex = rng.choice(variants)
                fixed.append((op, [p[:n]] + ex + [[4, 0]]))                 # data field cut / padded to the new length
                if len(p) > n or rng.random() < 0.3:
                    fixed.append((op, [p + [rng.randrange(256) for _ in range(rng.choice([0, 1, 2, 9]))]] + ex + [[4, 0]]))
            lim = n0 - 2 if n0 is not None and 2 <= n0 <= len(u) else len(u)
            for i in range(lim):
                for w in ([0, 0xFF, (u[i] + 1) & 255, u[i] ^ 0x10] if not big else SUBST + [(u[i] + 1) & 255, (u[i] - 1) & 255, u[i] ^ 0x10]):
                    if w != u[i]:
                        q = list(u); q[i] = w
                        r = xcut.repair(d, q, rng.randrange(256), 70000 if big else 2048)
                        if r is not None:
                            fixed.append((op, [r[0]] + rng.choice(variants) + [[4, 0]]))
    for fam in sorted(fixed_by_family):
        if fixed_by_family[fam]:
            yield "crcfix_family_%d_%s" % (fam, xcut.FAMILY_MODULE[fam]), "exact", fixed_by_family[fam]


import builtins as _bi


def _as_view(x=b""):
    return memoryview(_bi.bytes(x))


def _as_barray(x=b""):
    return bytearray(_bi.bytes(x))


def impl(op, a):
    """Every third case hands the decoder a bytearray instead of bytes: the adapters of all modules build their inputs with
    `bytes(...)`, which is shadowed in the adapter module's globals for the duration of the call."""
    kind = (len(a[0]) + op) % 15
    mod = xcut.module(op // 100)
    sub = None
    if hasattr(mod, "PARTS"):
        for p_ in mod.PARTS:
            if p_.OP_RANGE[0] <= op <= p_.OP_RANGE[1]:
                sub = p_
    targets = [m for m in (mod, sub) if m is not None]
    # memoryview inputs were tried too: the unchanged library itself is inconsistent on them (e.g.
    # MetadataPdu.unpack(memoryview) raises AttributeError on some malformed inputs); the decoders are
    # annotated `bytes`, so bytes-like objects other than bytes / bytearray are outside the claim.
    repl = _as_barray if kind % 3 == 0 else None
    if repl is None:
        return xcut.impl(op, a[:-1])
    saved = [(m, m.__dict__.get("bytes", None)) for m in targets]
    try:
        for m in targets:
            m.__dict__["bytes"] = repl
        return xcut.impl(op, a[:-1])
    finally:
        for m, old in saved:
            if old is None:
                m.__dict__.pop("bytes", None)
            else:
                m.__dict__["bytes"] = old


def oracle(case, ires, sres):
    op, a = case
    kind, full_len = a[-1]
    extra = a[1:-1]
    name = _name_of(op, extra)
    if ires[0][0] == 1:
        code = ires[0][1]
        if code in core.UNDOCUMENTED or code == 97:
            return ("C10/%s/undocumented-error" % name, "%s raised %s on %d octets %s" % (name, core.ERR_NAMES.get(code, code), len(a[0]), a[0][:24]))
        return None
    if kind == 1 and full_len and len(a[0]) < full_len:
        return ("C10/%s/prefix-accepted" % name, "strict prefix (%d of %d octets) of a valid unit accepted: %s" % (len(a[0]), full_len, a[0][:24]))
    return None
