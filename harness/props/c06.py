"""C06 — the seven file-directive PDUs.  Aggregates the three part modules c06a/c06b/c06c
(op ranges 1300-1339, 1340-1369, 1370-1399)."""
import importlib

ID = "C06"
PARTS = []
for _n in ("c06a", "c06b", "c06c"):
    try:
        PARTS.append(importlib.import_module("harness.props." + _n))
    except ModuleNotFoundError:
        pass


def _part(op):
    for p in PARTS:
        lo, hi = p.OP_RANGE
        if lo <= op <= hi:
            return p
    raise RuntimeError("no part for op %d" % op)


ENUMS = [e for p in PARTS for e in getattr(p, "ENUMS", [])]
ASSUMPTIONS = sorted({a for p in PARTS for a in getattr(p, "ASSUMPTIONS", [])})
TRUSTED = sorted({a for p in PARTS for a in getattr(p, "TRUSTED", [])})
EXPLORED_ONLY = [a for p in PARTS for a in getattr(p, "EXPLORED_ONLY", [])]
DECODERS = [d for p in PARTS for d in getattr(p, "DECODERS", [])]
ORACLE_LIMIT = {"quick": 6000, "thorough": 40000}


def streams(tier, rng):
    for p in PARTS:
        for name, mode, cases in p.streams(tier, rng):
            yield name, mode, cases


def impl(op, a):
    return _part(op).impl(op, a)


def oracle_spec(case, ires):
    p = _part(case[0])
    return p.oracle_spec(case, ires) if hasattr(p, "oracle_spec") else []


def oracle(case, ires, sres):
    p = _part(case[0])
    return p.oracle(case, ires, sres) if hasattr(p, "oracle") else None


def neighbours(case):
    p = _part(case[0])
    return p.neighbours(case) if hasattr(p, "neighbours") else []
