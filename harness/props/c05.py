"""C05 — CFDP fixed PDU header.  Streams, implementation adapter, oracle."""
import itertools
from harness import core
from spacepackets.cfdp.pdu.header import PduHeader, AbstractPduBase
from spacepackets.cfdp.conf import PduConfig
from spacepackets.cfdp import defs as D
from spacepackets.util import UnsignedByteField, ByteFieldGenerator

ID = "C05"
_M = "SP.Model.PduHeader."
ENUMS = [
    ("spacepackets.cfdp.defs:CFDP_VERSION_2", _M + "CFDP_VERSION_2"),
    ("spacepackets.cfdp.pdu.header:CFDP_VERSION_2", _M + "CFDP_VERSION_2"),
    ("spacepackets.cfdp.pdu.header:AbstractPduBase.FIXED_LENGTH", _M + "FIXED_LENGTH"),
    ("spacepackets.cfdp.pdu.header:PduHeader.FIXED_LENGTH", _M + "FIXED_LENGTH"),
    ("spacepackets.cfdp.pdu.header:AbstractPduBase.VERSION_BITS", _M + "VERSION_BITS"),
    ("spacepackets.cfdp.defs:PduType.FILE_DIRECTIVE", _M + "PDU_FILE_DIRECTIVE"),
    ("spacepackets.cfdp.defs:PduType.FILE_DATA", _M + "PDU_FILE_DATA"),
    ("spacepackets.cfdp.defs:Direction.TOWARDS_RECEIVER", _M + "DIR_TOWARDS_RECEIVER"),
    ("spacepackets.cfdp.defs:Direction.TOWARDS_SENDER", _M + "DIR_TOWARDS_SENDER"),
    ("spacepackets.cfdp.defs:TransmissionMode.ACKNOWLEDGED", _M + "TM_ACKNOWLEDGED"),
    ("spacepackets.cfdp.defs:TransmissionMode.UNACKNOWLEDGED", _M + "TM_UNACKNOWLEDGED"),
    ("spacepackets.cfdp.defs:CrcFlag.NO_CRC", _M + "CRC_NO_CRC"),
    ("spacepackets.cfdp.defs:CrcFlag.WITH_CRC", _M + "CRC_WITH_CRC"),
    ("spacepackets.cfdp.defs:LargeFileFlag.NORMAL", _M + "FILE_NORMAL"),
    ("spacepackets.cfdp.defs:LargeFileFlag.LARGE", _M + "FILE_LARGE"),
    ("spacepackets.cfdp.defs:SegmentMetadataFlag.NOT_PRESENT", _M + "SEGMETA_NOT_PRESENT"),
    ("spacepackets.cfdp.defs:SegmentMetadataFlag.PRESENT", _M + "SEGMETA_PRESENT"),
    ("spacepackets.cfdp.defs:SegmentationControl.NO_RECORD_BOUNDARIES_PRESERVATION", _M + "SEGCTRL_NO_BOUNDARIES"),
    ("spacepackets.cfdp.defs:SegmentationControl.RECORD_BOUNDARIES_PRESERVATION", _M + "SEGCTRL_BOUNDARIES"),
    ("spacepackets.cfdp.defs:LenInBytes.ZERO_OR_NONE", _M + "LEN_ZERO"),
    ("spacepackets.cfdp.defs:LenInBytes.ONE_BYTE", _M + "LEN_ONE"),
    ("spacepackets.cfdp.defs:LenInBytes.TWO_BYTES", _M + "LEN_TWO"),
    ("spacepackets.cfdp.defs:LenInBytes.FOUR_BYTES", _M + "LEN_FOUR"),
    ("spacepackets.cfdp.defs:LenInBytes.EIGHT_BYTES", _M + "LEN_EIGHT"),
]
ASSUMPTIONS = [
    "CPython int / bytes / bytearray.append / struct / IntEnum semantics as modelled in Base/Bytes.v",
    "the header object aliases the PduConfig it is given; the model keeps one PduConfig value inside the header "
    "record (no second observer of the caller's object is modelled here; C11 covers constructors that copy it)",
    "ID / sequence values of widths 4 and 8 cannot be enumerated: boundaries + random on the implementation, "
    "all values in the theorems (be_encode lemmas)",
]
TRUSTED = ["crcmod (only for op 1208, verify_length_and_checksum; tied bitwise in C04/family 17)"]
EXPLORED_ONLY = []

WIDTHS = (1, 2, 4, 8)


def _e(cls, v):
    return cls(v) if v in (0, 1) else v


def _conf(ids, flags):
    sv, sl, dv, dl, qv, ql = ids
    src = UnsignedByteField(sv, sl)
    dst = UnsignedByteField(dv, dl)
    seq = UnsignedByteField(qv, ql)
    mode, large, crc, direction, seg = flags
    return PduConfig(source_entity_id=src, dest_entity_id=dst, transaction_seq_num=seq,
                     trans_mode=_e(D.TransmissionMode, mode), file_flag=_e(D.LargeFileFlag, large),
                     crc_flag=_e(D.CrcFlag, crc), direction=_e(D.Direction, direction),
                     seg_ctrl=_e(D.SegmentationControl, seg))


def _hdr(ids, flags, hd):
    t, meta, dlen = hd
    conf = _conf(ids, flags)
    return PduHeader(pdu_type=_e(D.PduType, t), segment_metadata_flag=_e(D.SegmentMetadataFlag, meta),
                     pdu_data_field_len=dlen, pdu_conf=conf)


def _fields(h):
    c = h.pdu_conf
    return [[int(h.pdu_type), int(h.segment_metadata_flag), h.pdu_data_field_len],
            [c.source_entity_id.value, c.source_entity_id.byte_len, c.dest_entity_id.value, c.dest_entity_id.byte_len,
             c.transaction_seq_num.value, c.transaction_seq_num.byte_len],
            [int(c.trans_mode), int(c.file_flag), int(c.crc_flag), int(c.direction), int(c.seg_ctrl)],
            [h.header_len, h.packet_len]]


def _pack_res(h):
    try:
        return [0] + list(h.pack())
    except Exception as e:  # noqa
        return [1, core.canon_code(core.classify_exception(e))]


def impl(op, a):
    if op == 1200:
        return _fields(_hdr(a[0], a[1], a[2]))
    if op == 1201:
        return [list(_hdr(a[0], a[1], a[2]).pack())]
    if op == 1202:
        return _fields(PduHeader.unpack(bytes(a[0])))
    if op == 1203:
        return [list(PduHeader.unpack(bytes(a[0])).pack())]
    if op == 1204:
        return [[AbstractPduBase.header_len_from_raw(bytes(a[0]))]]
    if op == 1205:
        return [[_conf(a[0], a[1]).header_len()]]
    if op == 1206:
        h = _hdr(a[0], a[1], a[2])
        h.pdu_data_field_len = a[3][0]
        return _fields(h) + [_pack_res(h)]
    if op == 1207:
        h = _hdr(a[0], a[1], a[2])
        s = UnsignedByteField(a[3][0], a[3][1])
        d = UnsignedByteField(a[3][2], a[3][3])
        h.set_entity_ids(s, d)
        return _fields(h) + [_pack_res(h)]
    if op == 1208:
        data = bytes(a[0])
        return [[PduHeader.unpack(data).verify_length_and_checksum(data)]]
    if op == 1209:
        return [[int(PduHeader.check_len_in_bytes(a[0][0]))]]
    if op == 1210:
        u = ByteFieldGenerator.from_bytes(a[0][0], bytes(a[1]))
        return [[u.value, u.byte_len], list(u.as_bytes)]
    if op == 1211:
        return [[int(_hdr(a[0], a[1], a[2]) == _hdr(a[3], a[4], a[5]))]]
    raise RuntimeError("bad op")


# ------------------------------------------------------------------ independent transcription
def layout(ids, flags, hd):
    """CCSDS 727.0-B-5 table 5-1, arithmetic only (second transcription used by the oracle;
    the Coq Spec.hdr_layout is evaluated too via op 1250)."""
    sv, sl, dv, dl, qv, ql = ids
    mode, large, crc, direction, seg = flags
    t, meta, dlen = hd
    return ([32 + t * 16 + direction * 8 + mode * 4 + crc * 2 + large, dlen // 256, dlen % 256,
             seg * 128 + (sl - 1) * 16 + meta * 8 + (ql - 1)]
            + list(sv.to_bytes(sl, "big")) + list(qv.to_bytes(ql, "big")) + list(dv.to_bytes(dl, "big")))


def crc16_bitwise(data):
    s = 0xFFFF
    for b in data:
        s ^= b << 8
        for _ in range(8):
            s = ((s << 1) ^ 0x1021) & 0xFFFF if s & 0x8000 else (s << 1) & 0xFFFF
    return s


def valid_args(ids, flags, hd):
    sv, sl, dv, dl, qv, ql = ids
    return (sl in WIDTHS and dl == sl and ql in WIDTHS and 0 <= sv < 256 ** sl and 0 <= dv < 256 ** dl
            and 0 <= qv < 256 ** ql and all(f in (0, 1) for f in flags) and hd[0] in (0, 1) and hd[1] in (0, 1)
            and 0 <= hd[2] <= 65535)


def ubf_ok(v, l):
    return l in (0, 1, 2, 4, 8) and 0 <= v < 256 ** l


def bnd(w):
    return [0, 1, 2 ** (8 * w - 1), 256 ** w - 1, 256 ** w - 2, (0x0102030405060708 >> (8 * (8 - w)))]


LENS = [0, 1, 255, 256, 65535]


def _rand_valid(rng, sl=None, ql=None):
    sl = sl or rng.choice(WIDTHS)
    ql = ql or rng.choice(WIDTHS)
    ids = [rng.randrange(256 ** sl), sl, rng.randrange(256 ** sl), sl, rng.randrange(256 ** ql), ql]
    flags = [rng.randrange(2) for _ in range(5)]
    hd = [rng.randrange(2), rng.randrange(2), rng.choice(LENS + [rng.randrange(65536)])]
    return ids, flags, hd


def streams(tier, rng):
    big = tier == "thorough"
    # 1. exhaustive: 2^7 flag combinations x 16 width pairs x data-field lengths, boundary IDs
    cases = []
    for bits in range(128):
        t, direction, mode, crc, large, seg, meta = [(bits >> i) & 1 for i in range(7)]
        for sl, ql in itertools.product(WIDTHS, WIDTHS):
            for dlen in LENS:
                ids = [rng.choice(bnd(sl)), sl, rng.choice(bnd(sl)), sl, rng.choice(bnd(ql)), ql]
                a = [ids, [mode, large, crc, direction, seg], [t, meta, dlen]]
                cases.append((1201, a))
                if big or dlen in (0, 65535):
                    cases.append((1200, a))
    yield "exh_flags_widths_pack", "exact", cases
    # 2. all boundary ID / sequence-number triples per width pair (source != destination so a swap shows)
    cases = []
    for sl, ql in itertools.product(WIDTHS, WIDTHS):
        for sv, dv, qv in itertools.product(bnd(sl), bnd(sl), bnd(ql)):
            a = [[sv, sl, dv, sl, qv, ql], [rng.randrange(2) for _ in range(5)], [rng.randrange(2), rng.randrange(2), rng.randrange(65536)]]
            cases.append((1201, a))
            if big or rng.random() < 0.2:
                cases.append((1200, a))
    yield "boundary_ids_pack", "exact", cases
    # 3. exhaustive: all 2^16 (octet 0, octet 3) pairs through unpack, random remaining octets
    cases = []
    for o0 in range(256):
        for o3 in range(256):
            tail = [rng.randrange(256) for _ in range(24 + rng.randrange(3))]
            d = [o0, rng.randrange(256), rng.randrange(256), o3] + tail
            cases.append((1202, [d]))
            if o0 >> 5 == 1 and (big or o3 % 2 == 0):
                cases.append((1203, [d]))
                cases.append((1204, [d]))
    yield "exh_octet0_octet3_unpack", "exact", cases
    # 3b. all 2^16 data-field lengths through unpack
    cases = []
    base = [0x20 | rng.randrange(32), 0, 0, rng.choice([0x00, 0x11, 0x33, 0x77, 0x13, 0xB9])] + [rng.randrange(256) for _ in range(24)]
    for w in range(0, 65536, 1 if big else 5):
        d = list(base); d[1] = w >> 8; d[2] = w & 0xFF
        cases.append((1202, [d]))
    yield "exh_len_field_unpack" if big else "len_field_unpack", "exact", cases
    # 4. random valid headers: pack, unpack(pack ++ suffix), header_len_from_raw, PduConfig.header_len, eq
    cases = []
    for _ in range(20000 if big else 3000):
        ids, flags, hd = _rand_valid(rng)
        cases.append((1201, [ids, flags, hd]))
        p = layout(ids, flags, hd)
        sfx = [rng.randrange(256) for _ in range(rng.choice([0, 0, 1, 2, 7, 30]))]
        cases.append((1202, [p + sfx]))
        cases.append((1203, [p + sfx]))
        cases.append((1204, [p + sfx]))
        cases.append((1205, [ids, flags]))
    for _ in range(2000 if big else 400):
        ids, flags, hd = _rand_valid(rng)
        cases.append((1211, [ids, flags, hd, ids, flags, hd]))
        ids2, flags2, hd2 = list(ids), list(flags), list(hd)
        k = rng.randrange(7)
        if k == 0: ids2[0] = (ids2[0] + 1) % 256 ** ids2[1]
        elif k == 1: ids2[2] = (ids2[2] + 1) % 256 ** ids2[3]
        elif k == 2: ids2[4] = (ids2[4] + 1) % 256 ** ids2[5]
        elif k == 3: flags2[rng.randrange(5)] ^= 1
        elif k == 4: hd2[0] ^= 1
        elif k == 5: hd2[2] = (hd2[2] + 1) % 65536
        else: hd2[1] ^= 1
        cases.append((1211, [ids, flags, hd, ids2, flags2, hd2]))
    yield "random_valid_roundtrip", "exact", cases
    # 5. constructor / setter refusals
    cases = []
    allw = (0, 1, 2, 4, 8)
    for sl, dl, ql in itertools.product(allw, allw, allw):
        ids = [0 if sl == 0 else rng.randrange(256 ** sl), sl, 0 if dl == 0 else rng.randrange(256 ** dl), dl,
               0 if ql == 0 else rng.randrange(256 ** ql), ql]
        flags = [rng.randrange(2) for _ in range(5)]
        hd = [rng.randrange(2), rng.randrange(2), rng.choice(LENS)]
        cases.append((1200, [ids, flags, hd])); cases.append((1201, [ids, flags, hd])); cases.append((1205, [ids, flags]))
    for dlen in [65534, 65535, 65536, 65537, 2 ** 16 + 255, 2 ** 32, 2 ** 64, -1, -2, -256, -65536, -2 ** 63]:
        for _ in range(4):
            ids, flags, hd = _rand_valid(rng); hd[2] = dlen
            cases.append((1200, [ids, flags, hd])); cases.append((1201, [ids, flags, hd]))
            ids, flags, hd = _rand_valid(rng)
            cases.append((1206, [ids, flags, hd, [dlen]]))
    for _ in range(300):
        ids, flags, hd = _rand_valid(rng)
        cases.append((1206, [ids, flags, hd, [rng.choice(LENS + [rng.randrange(65536)])]]))
    for l1, l2 in itertools.product(allw, allw):
        for _ in range(3):
            ids, flags, hd = _rand_valid(rng)
            cases.append((1207, [ids, flags, hd, [0 if l1 == 0 else rng.randrange(256 ** l1), l1, 0 if l2 == 0 else rng.randrange(256 ** l2), l2]]))
    for w in (-1, 3, 5, 6, 7, 9, 16):       # unsupported widths: UnsignedByteField refuses
        for pos in (1, 3, 5):
            ids, flags, hd = _rand_valid(rng); ids[pos] = w; ids[pos - 1] = 0
            cases.append((1200, [ids, flags, hd])); cases.append((1205, [ids, flags]))
    for w in WIDTHS:                         # values outside the width
        for v in (256 ** w, 256 ** w + 1, -1, 2 ** 64, -2 ** 63):
            for pos in (0, 2, 4):
                ids, flags, hd = _rand_valid(rng, w, w); ids[pos] = v
                cases.append((1200, [ids, flags, hd])); cases.append((1201, [ids, flags, hd]))
    for f in range(5):                       # non-member flag values are not validated by the constructor
        for v in (2, 3, 4, 7, 8, 16, 255, -1):
            ids, flags, hd = _rand_valid(rng); flags[f] = v
            cases.append((1201, [ids, flags, hd]))
    for k in (0, 1):
        for v in (2, 3, 4, 7, 8, 16, 32, 255, -1):
            ids, flags, hd = _rand_valid(rng); hd[k] = v
            cases.append((1201, [ids, flags, hd]))
    for n in list(range(-2, 12)) + [16, 255]:
        cases.append((1209, [[n]]))
    yield "ctor_setter_refusals", "exact", cases
    # 6. targeted malformed: every truncation, per-octet substitutions in the four fixed octets
    cases = []
    for _ in range(400 if big else 80):
        ids, flags, hd = _rand_valid(rng)
        p = layout(ids, flags, hd)
        for n in range(len(p) + 1):
            for op in (1202, 1204, 1208):
                cases.append((op, [p[:n]]))
        for i in range(4):
            for v in {0, 1, 0x7F, 0x80, 0xFF, (p[i] + 1) % 256, (p[i] - 1) % 256, p[i] ^ 0x20, p[i] ^ 0x40, p[i] ^ 0x70, p[i] ^ 0x07}:
                q = list(p); q[i] = v
                for op in (1202, 1203, 1204):
                    cases.append((op, [q + [rng.randrange(256) for _ in range(rng.choice([0, 3, 20]))]]))
    yield "targeted_malformed", "exact", cases
    # 7. verify_length_and_checksum on header + data field (+ CRC), good / corrupted / short
    cases = []
    for _ in range(3000 if big else 500):
        ids, flags, hd = _rand_valid(rng)
        n = rng.choice([0, 1, 2, 3, 17, 40]) if flags[2] == 0 else rng.choice([2, 3, 4, 17, 40])
        hd[2] = n
        p = layout(ids, flags, hd)
        body = [rng.randrange(256) for _ in range(n)]
        if flags[2] == 1:
            c = crc16_bitwise(p + body[:-2]); body[-2:] = [c >> 8, c & 0xFF]
        pdu = p + body
        cases.append((1208, [pdu]))
        cases.append((1208, [pdu + [rng.randrange(256) for _ in range(rng.randrange(1, 5))]]))
        if len(pdu) > len(p):
            cases.append((1208, [pdu[:-1]]))
        q = list(pdu); i = rng.randrange(len(q)); q[i] ^= 1 << rng.randrange(8)
        cases.append((1208, [q]))
    yield "verify_length_checksum", "exact", cases
    # 8. ByteFieldGenerator.from_bytes as used by unpack
    cases = []
    for bl in (-1, 0, 1, 2, 3, 4, 5, 8, 9, 16):
        for n in range(0, 11):
            for _ in range(4):
                cases.append((1210, [[bl], [rng.choice([0, 1, 0x7F, 0x80, 0xFF, rng.randrange(256)]) for _ in range(n)]]))
    yield "bytefield_from_bytes", "exact", cases
    # 9. garbage
    cases = []
    for _ in range(30000 if big else 4000):
        n = rng.randrange(0, 40)
        d = [rng.randrange(256) for _ in range(n)]
        if d and rng.random() < 0.7:
            d[0] = 0x20 | (d[0] & 0x1F)
        if len(d) > 3 and rng.random() < 0.6:
            d[3] = (d[3] & 0x88) | rng.choice([0, 1, 3, 7]) << 4 | rng.choice([0, 1, 3, 7])
        for op in (1202, 1204, 1208):
            cases.append((op, [d]))
    yield "garbage", "verdict", cases


# ------------------------------------------------------------------ oracle
VALUE_CODES = (1, 2, 3)


def oracle_spec(case, ires):
    op, a = case
    if op == 1201 and valid_args(a[0], a[1], a[2]):
        return [(1250, [a[0], a[1], a[2]])]
    if op == 1202 and ires[0] == [0]:
        return [(1250, [ires[2], ires[3], ires[1]])]
    return []


def _decode_expect(b):
    """What the standard lets a decoder do with octets b: ('ok', header_len) or set of acceptable error codes."""
    reasons = set()
    if len(b) < 4:
        return None, {1, 2, 3}
    if b[0] >> 5 != 1:
        reasons.add(core.E_VERSION)
    idc, sqc = (b[3] >> 4) & 7, b[3] & 7
    if idc not in (0, 1, 3, 7) or sqc not in (0, 1, 3, 7):
        reasons.update(VALUE_CODES)
    else:
        hl = 4 + 2 * (idc + 1) + sqc + 1
        if len(b) < hl:
            reasons.update(VALUE_CODES)
        if not reasons:
            return hl, set()
    return None, reasons


def oracle(case, ires, sres):
    """The property itself, evaluated on the implementation's observable behaviour."""
    op, a = case
    err = ires[0][0] == 1
    code = ires[0][1] if err else None
    if op in (1200, 1201):
        ids, flags, hd = a
        sv, sl, dv, dl, qv, ql = ids
        if not (ubf_ok(sv, sl) and ubf_ok(dv, dl) and ubf_ok(qv, ql)):
            return None      # UnsignedByteField's own refusal: property C20
        if sl != dl:
            if not err or code not in VALUE_CODES:
                return ("C05/PduHeader.__init__/id-width-mismatch", "source/destination IDs of widths %d/%d not refused with ValueError: %s" % (sl, dl, ires))
            return None
        if hd[2] > 65535:
            if not err or code not in VALUE_CODES:
                return ("C05/PduHeader.__init__/length-range", "data-field length %d not refused with ValueError: %s" % (hd[2], ires))
            return None
        if not valid_args(ids, flags, hd):
            return None
        if err:
            return ("C05/PduHeader/refuses-valid", "valid header arguments refused: %s -> %s" % (a, ires))
        hl = 4 + 2 * sl + ql
        if op == 1200:
            if ires[1:] != [hd, ids, flags, [hl, hl + hd[2]]]:
                return ("C05/PduHeader/fields", "fields / header_len / packet_len wrong: %s -> %s" % (a, ires))
            return None
        exp = layout(ids, flags, hd)
        if ires[1] != exp or not sres or sres[0][1] != exp or len(exp) != hl:
            return ("C05/PduHeader.pack/layout", "pack%s = %s, standard says %s (Coq spec %s)" % (a, ires[1], exp, sres))
        return None
    if op in (1202, 1203):
        b = a[0]
        hl, reasons = _decode_expect(b)
        if hl is None:
            if not err or code not in reasons:
                return ("C05/PduHeader.unpack/refusal", "octets %s: expected refusal with one of %s, got %s" % (b[:8], sorted(reasons), ires))
            return None
        if err:
            return ("C05/PduHeader.unpack/refuses-valid", "well-formed header %s refused: %s" % (b[:hl], ires))
        if op == 1203:
            if ires[1] != b[:hl]:
                return ("C05/PduHeader.unpack-pack/roundtrip", "encode(decode(%s)) = %s" % (b[:hl], ires[1]))
            return None
        hd, ids, flags, lens = ires[1], ires[2], ires[3], ires[4]
        if not valid_args(ids, flags, hd) or layout(ids, flags, hd) != b[:hl] or sres[0][1] != b[:hl]:
            return ("C05/PduHeader.unpack/fields", "decoded fields %s do not encode to %s" % (ires[1:4], b[:hl]))
        if lens != [hl, hl + hd[2]]:
            return ("C05/PduHeader.header_len", "header_len/packet_len %s, expected %s" % (lens, [hl, hl + hd[2]]))
        return None
    if op == 1204:
        b = a[0]
        if len(b) < 4:
            if not err or code in core.UNDOCUMENTED:
                return ("C10/AbstractPduBase.header_len_from_raw/undocumented-error",
                        "header_len_from_raw(%s) -> %s (%s)" % (b, ires, core.ERR_NAMES.get(code)))
            return None
        exp = 4 + 2 * (((b[3] >> 4) & 7) + 1) + (b[3] & 7) + 1
        if err or ires[1] != [exp]:
            return ("C05/AbstractPduBase.header_len_from_raw/value", "header_len_from_raw(%s) = %s, expected %d" % (b[:4], ires, exp))
        return None
    if op == 1205:
        ids = a[0]
        if ubf_ok(ids[0], ids[1]) and ubf_ok(ids[2], ids[3]) and ubf_ok(ids[4], ids[5]):
            if err or ires[1] != [4 + ids[1] + ids[3] + ids[5]]:
                return ("C05/PduConfig.header_len", "%s -> %s" % (ids, ires))
        return None
    if op == 1206:
        ids, flags, hd, (n,) = a
        if not valid_args(ids, flags, hd):
            return None
        if n > 65535:
            if not err or code not in VALUE_CODES:
                return ("C05/PduHeader.pdu_data_field_len/range", "length %d not refused: %s" % (n, ires))
            return None
        if n < 0:
            return None
        hl = 4 + 2 * ids[1] + ids[5]
        exp = layout(ids, flags, [hd[0], hd[1], n])
        if err or ires[1] != [hd[0], hd[1], n] or ires[4] != [hl, hl + n] or ires[5] != [0] + exp:
            return ("C05/PduHeader.pdu_data_field_len/setter", "after setting length %d: %s, expected octets %s" % (n, ires, exp))
        return None
    if op == 1207:
        ids, flags, hd, (sv, sl, dv, dl) = a
        if not valid_args(ids, flags, hd) or not (ubf_ok(sv, sl) and ubf_ok(dv, dl)):
            return None
        if sl != dl:
            if not err or code not in VALUE_CODES:
                return ("C05/PduHeader.set_entity_ids/id-width-mismatch", "widths %d/%d not refused: %s" % (sl, dl, ires))
            return None
        if sl == 0:
            return None
        ids2 = [sv, sl, dv, dl, ids[4], ids[5]]
        exp = layout(ids2, flags, hd)
        hl = 4 + 2 * sl + ids[5]
        if err or ires[2] != ids2 or ires[4] != [hl, hl + hd[2]] or ires[5] != [0] + exp:
            return ("C05/PduHeader.set_entity_ids/setter", "after set_entity_ids%s: %s, expected octets %s" % ((sv, sl, dv, dl), ires, exp))
        return None
    if op == 1208:
        b = a[0]
        hl, reasons = _decode_expect(b)
        if hl is None:
            if not err or code not in reasons:
                return ("C05/PduHeader.unpack/refusal", "octets %s: expected refusal with one of %s, got %s" % (b[:8], sorted(reasons), ires))
            return None
        pl = hl + b[1] * 256 + b[2]
        if len(b) < pl:
            if not err or code not in VALUE_CODES:
                return ("C05/PduHeader.verify_length_and_checksum/short", "%d octets for packet length %d accepted: %s" % (len(b), pl, ires))
            return None
        if b[0] & 2 and crc16_bitwise(b[:pl]) != 0:
            if not err or code != core.E_CRC:
                return ("C05/PduHeader.verify_length_and_checksum/crc", "bad CRC not refused with InvalidCrc: %s" % (ires,))
            return None
        if err or ires[1] != [pl]:
            return ("C05/PduHeader.verify_length_and_checksum/value", "expected %d, got %s" % (pl, ires))
        return None
    if op == 1209:
        n = a[0][0]
        if n in WIDTHS:
            if err or ires[1] != [n]:
                return ("C05/PduHeader.check_len_in_bytes", "%d -> %s" % (n, ires))
        elif not err or code not in VALUE_CODES:
            return ("C05/PduHeader.check_len_in_bytes/refusal", "width %d not refused with ValueError: %s" % (n, ires))
        return None
    if op == 1211:
        same = a[:3] == a[3:]
        if not valid_args(*a[:3]) or not valid_args(*a[3:]):
            return None
        if same and (err or ires[1] != [1]):
            return ("C05/PduHeader.__eq__/reflexive", "identical headers unequal: %s" % (a[:3],))
        return None
    return None


def neighbours(case):
    op, a = case
    out = []
    if op in (1200, 1201):
        for k in range(3):
            for i in range(len(a[k])):
                for dlt in (-1, 1):
                    b = [list(x) for x in a]; b[k][i] += dlt; out.append((op, b))
    if op in (1202, 1203, 1204, 1208):
        for i in range(min(4, len(a[0]))):
            for bit in range(8):
                l = list(a[0]); l[i] ^= 1 << bit; out.append((op, [l]))
        for n in range(min(len(a[0]), 30)):
            out.append((op, [a[0][:n]]))
    return out


# ---- registry used by the cross-cutting checks C09 (no over-read) and C10 (total decoding).
def _valid_headers(rng):
    out = []
    for _ in range(40):
        ids, flags, hd = _rand_valid(rng)
        out.append(layout(ids, flags, hd))
    return out


def _declared(b):
    return 4 + 2 * (((b[3] >> 4) & 7) + 1) + (b[3] & 7) + 1


DECODERS = [
    {"op": 1202, "name": "PduHeader.unpack", "extra": [], "valid": _valid_headers, "declared_len": _declared},
    {"op": 1204, "name": "AbstractPduBase.header_len_from_raw", "extra": [], "valid": _valid_headers, "declared_len": None},
]
