"""C05 — CFDP fixed PDU header.  Streams, implementation adapter, oracle."""
import array, copy, gc, itertools
from harness import core
from spacepackets.cfdp.pdu.header import PduHeader, AbstractPduBase
from spacepackets.cfdp.conf import PduConfig
from spacepackets.cfdp import defs as D
from spacepackets.util import (UnsignedByteField, ByteFieldGenerator, ByteFieldU8, ByteFieldU16, ByteFieldU32,
                               ByteFieldU64)

ID = "C05"
_M = "SP.Model.PduHeader."
ENUMS = [
    ("spacepackets.cfdp.defs:CFDP_VERSION_2", _M + "CFDP_VERSION_2"),
    ("spacepackets.cfdp.pdu.header:CFDP_VERSION_2", _M + "CFDP_VERSION_2"),
    ("spacepackets.cfdp.pdu.header:AbstractPduBase.FIXED_LENGTH", _M + "FIXED_LENGTH"),
    ("spacepackets.cfdp.pdu.header:PduHeader.FIXED_LENGTH", _M + "FIXED_LENGTH"),
    ("spacepackets.cfdp.pdu.header:AbstractPduBase.VERSION_BITS", _M + "VERSION_BITS"),
    ("spacepackets.cfdp.defs:PduType.FILE_DIRECTIVE", _M + "PDU_FILE_DIRECTIVE"),
    ("spacepackets.cfdp.defs:PduType.FILE_DATA", _M + "PDU_FILE_DATA"),
    ("spacepackets.cfdp.defs:Direction.TOWARDS_RECEIVER", _M + "DIR_TOWARDS_RECEIVER"),
    ("spacepackets.cfdp.defs:Direction.TOWARDS_SENDER", _M + "DIR_TOWARDS_SENDER"),
    ("spacepackets.cfdp.defs:TransmissionMode.ACKNOWLEDGED", _M + "TM_ACKNOWLEDGED"),
    ("spacepackets.cfdp.defs:TransmissionMode.UNACKNOWLEDGED", _M + "TM_UNACKNOWLEDGED"),
    ("spacepackets.cfdp.defs:CrcFlag.NO_CRC", _M + "CRC_NO_CRC"),
    ("spacepackets.cfdp.defs:CrcFlag.WITH_CRC", _M + "CRC_WITH_CRC"),
    ("spacepackets.cfdp.defs:LargeFileFlag.NORMAL", _M + "FILE_NORMAL"),
    ("spacepackets.cfdp.defs:LargeFileFlag.LARGE", _M + "FILE_LARGE"),
    ("spacepackets.cfdp.defs:SegmentMetadataFlag.NOT_PRESENT", _M + "SEGMETA_NOT_PRESENT"),
    ("spacepackets.cfdp.defs:SegmentMetadataFlag.PRESENT", _M + "SEGMETA_PRESENT"),
    ("spacepackets.cfdp.defs:SegmentationControl.NO_RECORD_BOUNDARIES_PRESERVATION", _M + "SEGCTRL_NO_BOUNDARIES"),
    ("spacepackets.cfdp.defs:SegmentationControl.RECORD_BOUNDARIES_PRESERVATION", _M + "SEGCTRL_BOUNDARIES"),
    ("spacepackets.cfdp.defs:LenInBytes.ZERO_OR_NONE", _M + "LEN_ZERO"),
    ("spacepackets.cfdp.defs:LenInBytes.ONE_BYTE", _M + "LEN_ONE"),
    ("spacepackets.cfdp.defs:LenInBytes.TWO_BYTES", _M + "LEN_TWO"),
    ("spacepackets.cfdp.defs:LenInBytes.FOUR_BYTES", _M + "LEN_FOUR"),
    ("spacepackets.cfdp.defs:LenInBytes.EIGHT_BYTES", _M + "LEN_EIGHT"),
]
ASSUMPTIONS = [
    "CPython int / bytes / bytearray.append / struct / IntEnum semantics as modelled in Base/Bytes.v",
    "the header object aliases the PduConfig it is given (by design): the history model (Model/PduHeaderOps.v, hworld) "
    "keeps the caller's object as a second observer that follows every write until h.pdu_conf is replaced; the three "
    "UnsignedByteField objects are distinct objects in every generated history (one object used for two fields is not modelled)",
    "UnsignedByteField.byte_len assignment after construction is not part of the histories (util.py / C20)",
    "ID / sequence values of widths 4 and 8 cannot be enumerated: boundaries + random on the implementation, "
    "all values in the theorems (be_encode lemmas)",
]
TRUSTED = ["crcmod (only for op 1208, verify_length_and_checksum; tied bitwise in C04/family 17)"]
EXPLORED_ONLY = [
    "op 1299 / stream explore_bytes_like_and_identity (outside the model: argument TYPES and object identity): "
    "(a) assigning a bytes-like object that is neither bytes nor bytearray (memoryview of a writable buffer, a slice of "
    "one, array.array('B'), a view of one, subclasses of bytearray / bytes) to source_entity_id.value / "
    "dest_entity_id.value / transaction_seq_num.value of a header (reached through the header or through its PduConfig; "
    "header built by the constructor or decoded) is either refused / ignored -- every view and the packed octets stay "
    "what they were -- or has exactly the effect of assigning bytes(argument); and every view and the packed octets are "
    "the same before and after the caller overwrites / resizes its buffer.  (b) byte-field and PduConfig objects of a "
    "header replaced again and again by objects allocated right after the previous ones were released (CPython hands "
    "the same address out again): pack() is the layout of the values currently stored",
]

WIDTHS = (1, 2, 4, 8)
OP_RANGE = (1200, 1299)


def _e(cls, v):
    return core.enum_or_int(cls, v) if v in (0, 1) else v


def _conf(ids, flags):
    sv, sl, dv, dl, qv, ql = ids
    src = UnsignedByteField(sv, sl)
    dst = UnsignedByteField(dv, dl)
    seq = UnsignedByteField(qv, ql)
    mode, large, crc, direction, seg = flags
    return PduConfig(source_entity_id=src, dest_entity_id=dst, transaction_seq_num=seq,
                     trans_mode=_e(D.TransmissionMode, mode), file_flag=_e(D.LargeFileFlag, large),
                     crc_flag=_e(D.CrcFlag, crc), direction=_e(D.Direction, direction),
                     seg_ctrl=_e(D.SegmentationControl, seg))


def _hdr(ids, flags, hd):
    t, meta, dlen = hd
    conf = _conf(ids, flags)
    return PduHeader(pdu_type=_e(D.PduType, t), segment_metadata_flag=_e(D.SegmentMetadataFlag, meta),
                     pdu_data_field_len=dlen, pdu_conf=conf)


def _fields(h):
    c = h.pdu_conf
    return [[int(h.pdu_type), int(h.segment_metadata_flag), h.pdu_data_field_len],
            [c.source_entity_id.value, c.source_entity_id.byte_len, c.dest_entity_id.value, c.dest_entity_id.byte_len,
             c.transaction_seq_num.value, c.transaction_seq_num.byte_len],
            [int(c.trans_mode), int(c.file_flag), int(c.crc_flag), int(c.direction), int(c.seg_ctrl)],
            [h.header_len, h.packet_len]]


def _pack_res(h):
    try:
        return [0] + list(h.pack())
    except Exception as e:  # noqa
        return [1, core.canon_code(core.classify_exception(e))]


# ------------------------------------------------------------------ operation histories (ops 1212 / 1213)
_UCLS = {1: ByteFieldU8, 2: ByteFieldU16, 4: ByteFieldU32, 8: ByteFieldU64}
_FLAG_ATTR = {6: ("file_flag", "file_flag", D.LargeFileFlag), 7: ("crc_flag", "crc_flag", D.CrcFlag),
              8: ("transmission_mode", "trans_mode", D.TransmissionMode), 9: ("direction", "direction", D.Direction),
              10: ("seg_ctrl", "seg_ctrl", D.SegmentationControl)}
_FIELD_ATTR = ["source_entity_id", "dest_entity_id", "transaction_seq_num"]


def _mk_ubf(v, l, style=0):
    """UnsignedByteField(v, l) in one of its equivalent spellings"""
    if style == 1 and l in _UCLS:
        return ByteFieldGenerator.from_int(l, v)
    if style == 2 and ubf_ok(v, l):
        return UnsignedByteField.from_bytes(v.to_bytes(l, "big"))
    if style == 3 and l in _UCLS:
        return _UCLS[l](v)
    return UnsignedByteField(v, l)


def _conf_kind(kind, ids, flags):
    if kind == 1:
        return PduConfig.default()
    if kind == 2:
        return PduConfig.empty()
    return _conf(ids, flags)


def _hstate(h):
    f = _fields(h)
    c = h.pdu_conf
    return [f[0] + f[1] + f[2] + f[3],
            list(c.source_entity_id.as_bytes) + list(c.transaction_seq_num.as_bytes) + list(c.dest_entity_id.as_bytes)]


def _get(l, i, d=0):
    return l[i] if len(l) > i else d


def apply_hdr_op(h, l):
    """one operation of Model/PduHeaderOps.v (hdr_op) on the header object h; returns what the call returned"""
    k = l[0] if l else -1
    if k == 1 and len(l) >= 2:
        h.pdu_type = _e(D.PduType, l[1]); return []
    if k == 2 and len(l) >= 2:
        h.segment_metadata_flag = _e(D.SegmentMetadataFlag, l[1]); return []
    if k == 3 and len(l) >= 2:
        h.pdu_data_field_len = l[1]; return []
    if k == 4 and len(l) >= 5:
        st = _get(l, 5)
        s_ = _mk_ubf(l[1], l[2], st % 4); d_ = _mk_ubf(l[3], l[4], (st // 4) % 4)
        h.set_entity_ids(s_, d_) if st < 16 else h.set_entity_ids(source_entity_id=s_, dest_entity_id=d_); return []
    if k == 5 and len(l) >= 3:
        h.transaction_seq_num = _mk_ubf(l[1], l[2], _get(l, 3)); return []
    if k in _FLAG_ATTR and len(l) >= 2:
        prop, attr, cls = _FLAG_ATTR[k]
        if _get(l, 2) == 1:
            setattr(h.pdu_conf, attr, _e(cls, l[1]))
        else:
            setattr(h, prop, _e(cls, l[1]))
        return []
    if k == 11 and len(l) >= 3:
        if l[1] not in (0, 1, 2):
            raise RuntimeError("bad field")
        f = getattr(h if _get(l, 3) == 0 else h.pdu_conf, _FIELD_ATTR[l[1]])
        f.value = l[2]; return []
    if k == 12 and len(l) >= 3:
        if l[1] not in (0, 1, 2):
            raise RuntimeError("bad field")
        f = getattr(h if l[2] & 2 == 0 else h.pdu_conf, _FIELD_ATTR[l[1]])
        f.value = bytearray(l[3:]) if l[2] & 1 else bytes(l[3:]); return []
    if k == 13 and len(l) >= 4:
        u = _mk_ubf(l[2], l[3], _get(l, 4))
        if l[1] not in (0, 1, 2):
            raise RuntimeError("bad field")
        setattr(h.pdu_conf, _FIELD_ATTR[l[1]], u); return []
    if k == 14:
        # a second configuration object with the given values (a copy that is then filled in: the live-object probe
        # treats PduConfig objects constructed by an adapter as the caller's inputs of a constructor)
        ids, flags = (l[1:7] + [0] * 6)[:6], (l[7:12] + [0] * 5)[:5]
        src, dst, seq = _mk_ubf(ids[0], ids[1]), _mk_ubf(ids[2], ids[3]), _mk_ubf(ids[4], ids[5])
        c = copy.copy(h.pdu_conf)
        c.source_entity_id, c.dest_entity_id, c.transaction_seq_num = src, dst, seq
        c.trans_mode, c.file_flag, c.crc_flag = _e(D.TransmissionMode, flags[0]), _e(D.LargeFileFlag, flags[1]), _e(D.CrcFlag, flags[2])
        c.direction, c.seg_ctrl = _e(D.Direction, flags[3]), _e(D.SegmentationControl, flags[4])
        h.pdu_conf = c; return []
    if k == 15:
        return list(h.pack())
    if k == 16:
        return [h.pdu_conf.header_len()]
    raise RuntimeError("bad op")


def run_history(ops, apply, state):
    """apply every operation; after each: [0] | [1, class], every view of the object, what the call returned"""
    out = []
    for l in ops:
        try:
            r = apply(l); out.append([0])
        except Exception as e:  # noqa
            out.append([1, core.canon_code(core.classify_exception(e))]); r = []
        out += state()
        out.append(list(r))
    return out


def scramble(buf):
    """the caller re-uses its receive buffer: every octet changes"""
    for i in range(len(buf)):
        buf[i] ^= 0xFF


def _conf_view(c):
    return [[c.source_entity_id.value, c.source_entity_id.byte_len, c.dest_entity_id.value, c.dest_entity_id.byte_len,
             c.transaction_seq_num.value, c.transaction_seq_num.byte_len],
            [int(c.trans_mode), int(c.file_flag), int(c.crc_flag), int(c.direction), int(c.seg_ctrl)]]



# ------------------------------------------------------------------ values CPython hashes alike
M61 = 2 ** 61 - 1      # CPython hashes an int modulo this prime: v and v + k * M61 have the same hash, and so have
                       # tuples / frozen dataclasses built from them -- a dict / lru_cache keyed on a byte-field object
                       # whose value is changed IN PLACE between such values still finds the old entry


def colliding(v, w=8):
    """the other values of a w-octet field with hash(value) == hash(v)"""
    return [u for u in (v % M61 + k * M61 for k in range(9)) if 0 <= u < 256 ** w and u != v]


COLL_SEEDS = [0, 1, 2, 4, 5, 255, 2 ** 32, 2 ** 60, M61 - 1, 0x0102030405060708 % M61]


def collision_burst(rng, st, pack_op=(15,)):
    """operations: pack, then the value of ONE live 8-octet byte-field object is changed in place (int or octets variant of
    the value setter) along a chain of values with the same hash, with a pack after every change.  Fields that are
    narrower are first replaced by 8-octet ones."""
    ids = st["ids"]
    wide = [i for i in range(3) if ids[2 * i + 1] == 8]
    ops = []
    if wide and rng.random() < 0.8:
        which = rng.choice(wide)
    elif rng.random() < 0.5:
        ops.append([5, rng.choice(COLL_SEEDS), 8, rng.randrange(4)]); which = 2
    else:
        ops.append([4, rng.choice(COLL_SEEDS), 8, rng.choice(COLL_SEEDS), 8, rng.randrange(32)]); which = rng.randrange(2)
    via = rng.randrange(2)
    v = rng.choice(COLL_SEEDS + [rng.randrange(M61), rng.randrange(2 ** 64)])
    chain = [v] + rng.sample(colliding(v), rng.randrange(1, 4))
    if rng.random() < 0.3:
        chain.append(v)                  # ... and back
    ops.append(list(pack_op))
    for x in chain:
        if rng.random() < 0.25:
            ops.append([12, which, rng.randrange(2) + 2 * via] + list(x.to_bytes(8, "big")) + [0xFF] * rng.choice([0, 0, 3]))
        else:
            ops.append([11, which, x, via])
        ops.append(list(pack_op))
    return ops


# ------------------------------------------------------------------ explorations outside the model (op 1299)
class _MyBytearray(bytearray):
    pass


class _MyBytes(bytes):
    pass


def _bytes_like(style, octets):
    """-> (the caller's buffer object or None, the argument handed to the setter)"""
    if style == 0:
        buf = bytearray(octets); return buf, memoryview(buf)
    if style == 1:
        buf = bytearray([0x11, 0x22, 0x33] + list(octets) + [0x44]); return buf, memoryview(buf)[3:len(buf) - 1]
    if style == 2:
        buf = array.array("B", octets); return buf, buf
    if style == 3:
        buf = array.array("B", octets); return buf, memoryview(buf)
    if style == 4:
        buf = _MyBytearray(octets); return buf, buf
    if style == 5:
        return None, _MyBytes(octets)
    buf = bytearray(octets); return buf, memoryview(buf).toreadonly()


def _view_state(h):
    return _hstate(h) + [_pack_res(h)]


def _explore_hdr(ids, flags, hd, start):
    h = _hdr(ids, flags, hd)
    return PduHeader.unpack(bytes(h.pack())) if start == 1 else h


def _explore_assign(a):
    _, which, via, style, start = (list(a[0]) + [0] * 5)[:5]
    ids, flags, hd, octets = a[1], a[2], a[3], a[4]
    h, ref = _explore_hdr(ids, flags, hd, start), _explore_hdr(ids, flags, hd, start)
    f = getattr(h if via == 0 else h.pdu_conf, _FIELD_ATTR[which])
    fr = getattr(ref if via == 0 else ref.pdu_conf, _FIELD_ATTR[which])
    s0 = _view_state(h)
    try:
        fr.value = bytes(octets); ref_ok = True
    except Exception:  # noqa
        ref_ok = False
    sref = _view_state(ref)
    buf, arg = _bytes_like(style, octets)
    try:
        f.value = arg; raised = False
    except Exception:  # noqa
        raised = True
    if isinstance(arg, memoryview):
        try:
            arg.release()
        except BufferError:
            pass
    del arg
    s1 = _view_state(h)
    if raised and s1 != s0:
        return [[0, 1]]           # a refused assignment changed the header
    if not raised and s1 != s0 and not (ref_ok and s1 == sref):
        return [[0, 2]]           # accepted with an effect that is not the one of bytes(argument)
    if buf is not None:
        for i in range(len(buf)):
            buf[i] ^= 0xFF
        if _view_state(h) != s1:
            return [[0, 3]]       # the header follows the caller's buffer
        try:
            buf.extend(b"\x00" * 8) if isinstance(buf, bytearray) else buf.extend([0] * 8)
        except BufferError:
            return [[0, 4]]       # the header keeps a view of the caller's buffer (it can no longer be resized)
        if _view_state(h) != s1:
            return [[0, 3]]
    return [[1]]


def _explore_identity(a):
    """the byte-field objects / the PduConfig of one header replaced by objects created right after the old ones were
    released (same address again): pack() must be the layout of what is stored now"""
    rounds = a[0][1]
    ids, flags, hd = list(a[1]), list(a[2]), list(a[3])
    vals = a[4]
    h = _hdr(ids, flags, hd)
    if list(h.pack()) != layout(ids, flags, hd):
        return [[0, 10]]
    gc.collect()
    for r in range(rounds):
        x = vals[r % len(vals)]
        which = x % 4
        if which < 3:
            w = ids[2 * which + 1]
            nv = (x // 4) % 256 ** w
            if x & 64:
                nv = (ids[2 * which] + (x // 128) * M61) % 256 ** w   # same hash as the value stored before, where that exists
            setattr(h.pdu_conf, _FIELD_ATTR[which], None)    # the only reference to the old field object goes away ...
            gc.collect(0)
            setattr(h.pdu_conf, _FIELD_ATTR[which], UnsignedByteField(nv, w))    # ... and the next one is created
            ids[2 * which] = nv
        else:
            flags = [(x >> (2 + i)) & 1 for i in range(5)]
            seqv = (x // 4) % 256 ** ids[5]
            srcs = [h.pdu_conf.source_entity_id, h.pdu_conf.dest_entity_id]
            h.pdu_conf = None
            gc.collect(0)
            h.pdu_conf = PduConfig(source_entity_id=srcs[0], dest_entity_id=srcs[1],
                                   transaction_seq_num=UnsignedByteField(seqv, ids[5]),
                                   trans_mode=_e(D.TransmissionMode, flags[0]), file_flag=_e(D.LargeFileFlag, flags[1]),
                                   crc_flag=_e(D.CrcFlag, flags[2]), direction=_e(D.Direction, flags[3]),
                                   seg_ctrl=_e(D.SegmentationControl, flags[4]))
            del srcs
            ids[4] = seqv
        if list(h.pack()) != layout(ids, flags, hd):
            return [[0, 11, r]]
        if _fields(h)[1:3] != [ids, flags]:
            return [[0, 12, r]]
    return [[1]]


def explore(a):
    sub = a[0][0] if a and a[0] else -1
    if sub == 0:
        return _explore_assign(a)
    if sub == 1:
        # unobserved by the live-object probe's profiler, which would keep every released object alive
        import sys
        prof = sys.getprofile()
        sys.setprofile(None)
        try:
            return _explore_identity(a)
        finally:
            sys.setprofile(prof)
    raise RuntimeError("bad exploration")


def impl(op, a):
    if op == 1299:
        return explore(a)
    if op == 1212:
        conf = _conf_kind(a[3][0] if a[3] else 0, a[0], a[1])
        t, meta, dlen = a[2]
        h = PduHeader(pdu_type=_e(D.PduType, t), segment_metadata_flag=_e(D.SegmentMetadataFlag, meta),
                      pdu_data_field_len=dlen, pdu_conf=conf)
        return (_hstate(h) + _conf_view(conf) + run_history(a[4:], lambda l: apply_hdr_op(h, l), lambda: _hstate(h))
                + _conf_view(conf))
    if op == 1213:
        if a[1] and a[1][0]:
            buf = bytearray(a[0])
            h = PduHeader.unpack(buf)
            s0 = _hstate(h)
            scramble(buf)
            ok = int(_hstate(h) == s0)
        else:
            h = PduHeader.unpack(bytes(a[0])); ok = 1
        conf = h.pdu_conf
        out = [[ok]] + _hstate(h) + run_history(a[2:], lambda l: apply_hdr_op(h, l), lambda: _hstate(h)) + _conf_view(conf)
        return out + _hstate(PduHeader.unpack(bytes(a[0])))       # the same octets decoded once more
    if op == 1200:
        return _fields(_hdr(a[0], a[1], a[2]))
    if op == 1201:
        return [list(_hdr(a[0], a[1], a[2]).pack())]
    if op == 1202:
        return _fields(PduHeader.unpack(bytes(a[0])))
    if op == 1203:
        return [list(PduHeader.unpack(bytes(a[0])).pack())]
    if op == 1204:
        return [[AbstractPduBase.header_len_from_raw(bytes(a[0]))]]
    if op == 1205:
        return [[_conf(a[0], a[1]).header_len()]]
    if op == 1206:
        h = _hdr(a[0], a[1], a[2])
        h.pdu_data_field_len = a[3][0]
        return _fields(h) + [_pack_res(h)]
    if op == 1207:
        h = _hdr(a[0], a[1], a[2])
        s = UnsignedByteField(a[3][0], a[3][1])
        d = UnsignedByteField(a[3][2], a[3][3])
        h.set_entity_ids(s, d)
        return _fields(h) + [_pack_res(h)]
    if op == 1208:
        data = bytes(a[0])
        return [[PduHeader.unpack(data).verify_length_and_checksum(data)]]
    if op == 1209:
        return [[int(PduHeader.check_len_in_bytes(a[0][0]))]]
    if op == 1210:
        u = ByteFieldGenerator.from_bytes(a[0][0], bytes(a[1]))
        return [[u.value, u.byte_len], list(u.as_bytes)]
    if op == 1211:
        return [[int(_hdr(a[0], a[1], a[2]) == _hdr(a[3], a[4], a[5]))]]
    raise RuntimeError("bad op")


# ------------------------------------------------------------------ independent transcription
def layout(ids, flags, hd):
    """CCSDS 727.0-B-5 table 5-1, arithmetic only (second transcription used by the oracle;
    the Coq Spec.hdr_layout is evaluated too via op 1250)."""
    sv, sl, dv, dl, qv, ql = ids
    mode, large, crc, direction, seg = flags
    t, meta, dlen = hd
    return ([32 + t * 16 + direction * 8 + mode * 4 + crc * 2 + large, dlen // 256, dlen % 256,
             seg * 128 + (sl - 1) * 16 + meta * 8 + (ql - 1)]
            + list(sv.to_bytes(sl, "big")) + list(qv.to_bytes(ql, "big")) + list(dv.to_bytes(dl, "big")))


def crc16_bitwise(data):
    s = 0xFFFF
    for b in data:
        s ^= b << 8
        for _ in range(8):
            s = ((s << 1) ^ 0x1021) & 0xFFFF if s & 0x8000 else (s << 1) & 0xFFFF
    return s


_CRC_TAB = []
for _i in range(256):
    _s = _i << 8
    for _ in range(8):
        _s = ((_s << 1) ^ 0x1021) & 0xFFFF if _s & 0x8000 else (_s << 1) & 0xFFFF
    _CRC_TAB.append(_s)


def crc16_table(data, s=0xFFFF):
    """the same CRC-16 (polynomial 0x1021, no reflection, no final xor), one table look-up per octet; s = start value"""
    for b in data:
        s = ((s << 8) & 0xFFFF) ^ _CRC_TAB[(s >> 8) ^ b]
    return s


def steer_crc(pdu, target):
    """pdu: a whole packed PDU with the CRC flag set (header first, CRC-16 last).  Returns the PDU in which the 16 bits
    that end the transaction sequence number (for a 1-octet sequence number: the last octet of the source ID and the
    sequence number) are chosen such that the CRC-16 trailer is `target` -- every other octet is kept.  The CRC is
    linear over GF(2) and a 16-bit window maps one-to-one onto the 16-bit remainder, so there is exactly one choice; it
    is found by elimination on the images of the 16 window bits and CHECKED with the bitwise reference."""
    b = list(pdu)
    sl, ql = ((b[3] >> 4) & 7) + 1, (b[3] & 7) + 1
    hi = 4 + sl + ql
    lo = hi - 2
    msg = b[:-2]
    need = crc16_table(msg) ^ target
    piv = {}
    for i in range(16):
        d = [0] * (len(msg) - lo); d[i // 8] = 0x80 >> (i % 8)
        vec, combo = crc16_table(d, 0), 1 << i
        for bit in range(15, -1, -1):
            if not (vec >> bit) & 1:
                continue
            if bit in piv:
                vec ^= piv[bit][0]; combo ^= piv[bit][1]
            else:
                piv[bit] = (vec, combo); break
    sol = 0
    for bit in range(15, -1, -1):
        if (need >> bit) & 1:
            need ^= piv[bit][0]; sol ^= piv[bit][1]
    for i in range(16):
        if (sol >> i) & 1:
            b[lo + i // 8] ^= 0x80 >> (i % 8)
    b[-2:] = [target >> 8, target & 0xFF]
    if crc16_bitwise(b[:-2]) != target or crc16_bitwise(b) != 0:
        raise RuntimeError("steer_crc: no solution")
    return b


def ids_of(b):
    """the ID / sequence-number list of a packed header"""
    sl, ql = ((b[3] >> 4) & 7) + 1, (b[3] & 7) + 1
    f = lambda x: int.from_bytes(bytes(x), "big")
    return [f(b[4:4 + sl]), sl, f(b[4 + sl + ql:4 + 2 * sl + ql]), sl, f(b[4 + sl:4 + sl + ql]), ql]


def crc_targets(rng):
    """CRC trailers a shortcut would trip over: all zeros (`if not crc`), all ones, a zero octet on either side, single bits"""
    return [0x0000, 0xFFFF, rng.randrange(1, 256), rng.randrange(1, 256) << 8, rng.choice([0x0001, 0x8000, 0x0100, 0x0080, 0x00FF, 0xFF00])]


def valid_args(ids, flags, hd):
    sv, sl, dv, dl, qv, ql = ids
    return (sl in WIDTHS and dl == sl and ql in WIDTHS and 0 <= sv < 256 ** sl and 0 <= dv < 256 ** dl
            and 0 <= qv < 256 ** ql and all(f in (0, 1) for f in flags) and hd[0] in (0, 1) and hd[1] in (0, 1)
            and 0 <= hd[2] <= 65535)


def ubf_ok(v, l):
    return l in (0, 1, 2, 4, 8) and 0 <= v < 256 ** l


def bnd(w):
    return [0, 1, 2 ** (8 * w - 1), 256 ** w - 1, 256 ** w - 2, (0x0102030405060708 >> (8 * (8 - w)))]


LENS = [0, 1, 255, 256, 65535]


def _rand_valid(rng, sl=None, ql=None):
    sl = sl or rng.choice(WIDTHS)
    ql = ql or rng.choice(WIDTHS)
    ids = [rng.randrange(256 ** sl), sl, rng.randrange(256 ** sl), sl, rng.randrange(256 ** ql), ql]
    flags = [rng.randrange(2) for _ in range(5)]
    hd = [rng.randrange(2), rng.randrange(2), rng.choice(LENS + [rng.randrange(65536)])]
    return ids, flags, hd


# ---- what every operation is documented to do, on a plain dict (used by the generator to keep
#      histories meaningful and by the oracle to judge every step on the implementation's own answers)
def hdr_expect(st, l):
    """st = {"hd": [type, meta, dlen], "ids": [...6], "flags": [...5]} -> (state afterwards, verdict)
    verdict: "ok" (must succeed), "refuse" (must raise ValueError, nothing changes), "any": the property leaves it open.
    For pack that means no claim; for an ASSIGNMENT it means that the value lies outside the property's domain (a flag /
    PDU type outside its enum, a negative length, source and destination IDs left with different widths): the unchanged
    library stores it and pack() refuses or has no defined output; a library that refuses the assignment itself with
    ValueError and stays as it was (the caller of hdr_expect then keeps st) is as good."""
    n = {"hd": list(st["hd"]), "ids": list(st["ids"]), "flags": list(st["flags"])}
    k = l[0]
    if k == 1:
        n["hd"][0] = l[1]
        if l[1] not in (0, 1): return n, "any"
    elif k == 2:
        n["hd"][1] = l[1]
        if l[1] not in (0, 1): return n, "any"
    elif k == 3:
        if l[1] > 65535: return st, "refuse"
        n["hd"][2] = l[1]
        if l[1] < 0: return n, "any"
    elif k == 4:
        if not (ubf_ok(l[1], l[2]) and ubf_ok(l[3], l[4])) or l[2] != l[4]: return st, "refuse"
        n["ids"][0:4] = l[1:5]
        if l[2] == 0: return n, "any"            # no header has IDs of width 0
    elif k == 5:
        if not ubf_ok(l[1], l[2]): return st, "refuse"
        n["ids"][4:6] = l[1:3]
        if l[2] == 0: return n, "any"
    elif 6 <= k <= 10:
        n["flags"][{6: 1, 7: 2, 8: 0, 9: 3, 10: 4}[k]] = l[1]
        if l[1] not in (0, 1): return n, "any"
    elif k == 11:
        w = st["ids"][2 * l[1] + 1]
        if not 0 <= l[2] < 256 ** w: return st, "refuse"
        n["ids"][2 * l[1]] = l[2]
    elif k == 12:
        w = st["ids"][2 * l[1] + 1]
        b = l[3:]
        if len(b) < w: return st, "refuse"
        n["ids"][2 * l[1]] = int.from_bytes(bytes(b[:w]), "big")
    elif k == 13:
        if not ubf_ok(l[2], l[3]): return st, "refuse"
        n["ids"][2 * l[1]:2 * l[1] + 2] = l[2:4]
        if l[3] == 0 or n["ids"][1] != n["ids"][3]: return n, "any"    # a configuration no header can be packed from
    elif k == 14:
        ids, flags = l[1:7], l[7:12]
        if not (ubf_ok(ids[0], ids[1]) and ubf_ok(ids[2], ids[3]) and ubf_ok(ids[4], ids[5])): return st, "refuse"
        n["ids"], n["flags"] = list(ids), list(flags)
        if not (all(f in (0, 1) for f in flags) and ids[1] == ids[3] and ids[1] in WIDTHS and ids[5] in WIDTHS): return n, "any"
    elif k in (15, 16):
        return st, ("ok" if k == 16 or valid_args(st["ids"], st["flags"], st["hd"]) else "any")
    return n, "ok"


def patterns(w):
    """values of a w-octet field with special octet patterns"""
    return bnd(w) + [int.from_bytes(bytes(x), "big") for x in
                     ([0x80] * w, [0xFF] + [0] * (w - 1), [0] * (w - 1) + [0xFF], [0x7F] + [0xFF] * (w - 1), [0x80] + [0] * (w - 1),
                      [0] * (w - 1) + [0x80])]


def rand_hdr_op(rng, st):
    """one header operation that makes sense in state st (mostly acceptable, sometimes to be refused)"""
    ids = st["ids"]
    k = rng.choice([1, 2, 3, 3, 4, 4, 5, 6, 7, 8, 9, 10, 11, 11, 11, 12, 12, 12, 12, 13, 14, 15, 15, 16])
    if k in (1, 2):
        return [k, rng.choice([0, 1, 0, 1, 0, 1, 2, 3, -1])]
    if k == 3:
        return [3, rng.choice(LENS + [rng.randrange(65536), 65534, 65536, 2 ** 16 + 255, 2 ** 32, 511, 512, 1024])]
    if k == 4:
        sl = rng.choice(WIDTHS + (ids[1],) * 3 + (0,))
        dl = sl if rng.random() < 0.85 else rng.choice((0,) + WIDTHS)
        sv = rng.choice(patterns(sl) + [rng.randrange(256 ** sl)]) if sl else 0
        dv = rng.choice(patterns(dl) + [rng.randrange(256 ** dl)]) if dl else 0
        if rng.random() < 0.08: sv = 256 ** sl
        return [4, sv, sl, dv, dl, rng.randrange(32)]
    if k == 5:
        ql = rng.choice(WIDTHS + (0, 3))
        return [5, rng.choice(patterns(ql) + [256 ** ql]) if ql else 0, ql, rng.randrange(4)]
    if 6 <= k <= 10:
        return [k, rng.choice([0, 1, 0, 1, 0, 1, 2, 255, -1]), rng.randrange(2)]
    if k == 11:
        which = rng.randrange(3); w = ids[2 * which + 1]
        v = rng.choice(patterns(w) + [rng.randrange(256 ** w), 256 ** w, -1, ids[2 * which]]) if w in WIDTHS else rng.choice([0, 1])
        if w == 8 and rng.random() < 0.3 and colliding(ids[2 * which]):
            v = rng.choice(colliding(ids[2 * which]))          # same hash as the value the object holds now
        return [11, which, v, rng.randrange(2)]
    if k == 12:
        which = rng.randrange(3); w = ids[2 * which + 1] if ids[2 * which + 1] in (0,) + WIDTHS else 1
        n = rng.choice([w, w, w + 1, w + 2, w + 5, 2 * w, max(0, w - 1), 0, 16, 300, 512, 513])
        b = [rng.choice([0, 0x80, 0xFF, rng.randrange(256)]) for _ in range(n)]
        return [12, which, rng.randrange(4)] + b
    if k == 13:
        which = rng.randrange(3)
        w = ids[2 * which + 1] if rng.random() < 0.7 else rng.choice(WIDTHS)
        return [13, which, rng.choice(patterns(w)) if w in WIDTHS else 0, w, rng.randrange(4)]
    if k == 14:
        i2, f2, _ = _rand_valid(rng)
        if rng.random() < 0.1: i2[0] = 256 ** i2[1]
        return [14] + i2 + f2
    return [k]


def rand_hdr_history(rng, st, n):
    ops = []
    while len(ops) < n:
        if rng.random() < 0.05:
            burst = collision_burst(rng, st)                   # in-place edits along values with one hash, packs in between
        else:
            burst = [rand_hdr_op(rng, st)] * (2 if rng.random() < 0.15 else 1)      # the same assignment twice
        for l in burst:
            ops.append(l)
            st, _ = hdr_expect(st, l)
    return ops + [[15], [15]], st


def streams(tier, rng):
    big = tier == "thorough"
    # 1. exhaustive: 2^7 flag combinations x 16 width pairs x data-field lengths, boundary IDs
    cases = []
    for bits in range(128):
        t, direction, mode, crc, large, seg, meta = [(bits >> i) & 1 for i in range(7)]
        for sl, ql in itertools.product(WIDTHS, WIDTHS):
            for dlen in LENS:
                ids = [rng.choice(bnd(sl)), sl, rng.choice(bnd(sl)), sl, rng.choice(bnd(ql)), ql]
                a = [ids, [mode, large, crc, direction, seg], [t, meta, dlen]]
                cases.append((1201, a))
                if big or dlen in (0, 65535):
                    cases.append((1200, a))
    yield "exh_flags_widths_pack", "exact", cases
    # 2. all boundary ID / sequence-number triples per width pair (source != destination so a swap shows)
    cases = []
    for sl, ql in itertools.product(WIDTHS, WIDTHS):
        for sv, dv, qv in itertools.product(bnd(sl), bnd(sl), bnd(ql)):
            a = [[sv, sl, dv, sl, qv, ql], [rng.randrange(2) for _ in range(5)], [rng.randrange(2), rng.randrange(2), rng.randrange(65536)]]
            cases.append((1201, a))
            if big or rng.random() < 0.2:
                cases.append((1200, a))
    yield "boundary_ids_pack", "exact", cases
    # 3. exhaustive: all 2^16 (octet 0, octet 3) pairs through unpack, random remaining octets
    cases = []
    for o0 in range(256):
        for o3 in range(256):
            tail = [rng.randrange(256) for _ in range(24 + rng.randrange(3))]
            d = [o0, rng.randrange(256), rng.randrange(256), o3] + tail
            cases.append((1202, [d]))
            if o0 >> 5 == 1 and (big or o3 % 2 == 0):
                cases.append((1203, [d]))
                cases.append((1204, [d]))
    yield "exh_octet0_octet3_unpack", "exact", cases
    # 3b. all 2^16 data-field lengths through unpack
    cases = []
    base = [0x20 | rng.randrange(32), 0, 0, rng.choice([0x00, 0x11, 0x33, 0x77, 0x13, 0xB9])] + [rng.randrange(256) for _ in range(24)]
    for w in range(0, 65536, 1 if big else 5):
        d = list(base); d[1] = w >> 8; d[2] = w & 0xFF
        cases.append((1202, [d]))
    yield "exh_len_field_unpack" if big else "len_field_unpack", "exact", cases
    # 4. random valid headers: pack, unpack(pack ++ suffix), header_len_from_raw, PduConfig.header_len, eq
    cases = []
    for _ in range(20000 if big else 3000):
        ids, flags, hd = _rand_valid(rng)
        cases.append((1201, [ids, flags, hd]))
        p = layout(ids, flags, hd)
        sfx = [rng.randrange(256) for _ in range(rng.choice([0, 0, 1, 2, 7, 30]))]
        cases.append((1202, [p + sfx]))
        cases.append((1203, [p + sfx]))
        cases.append((1204, [p + sfx]))
        cases.append((1205, [ids, flags]))
    for _ in range(2000 if big else 400):
        ids, flags, hd = _rand_valid(rng)
        cases.append((1211, [ids, flags, hd, ids, flags, hd]))
        ids2, flags2, hd2 = list(ids), list(flags), list(hd)
        k = rng.randrange(7)
        if k == 0: ids2[0] = (ids2[0] + 1) % 256 ** ids2[1]
        elif k == 1: ids2[2] = (ids2[2] + 1) % 256 ** ids2[3]
        elif k == 2: ids2[4] = (ids2[4] + 1) % 256 ** ids2[5]
        elif k == 3: flags2[rng.randrange(5)] ^= 1
        elif k == 4: hd2[0] ^= 1
        elif k == 5: hd2[2] = (hd2[2] + 1) % 65536
        else: hd2[1] ^= 1
        cases.append((1211, [ids, flags, hd, ids2, flags2, hd2]))
    yield "random_valid_roundtrip", "exact", cases
    # 5. constructor / setter refusals
    cases = []
    allw = (0, 1, 2, 4, 8)
    for sl, dl, ql in itertools.product(allw, allw, allw):
        ids = [0 if sl == 0 else rng.randrange(256 ** sl), sl, 0 if dl == 0 else rng.randrange(256 ** dl), dl,
               0 if ql == 0 else rng.randrange(256 ** ql), ql]
        flags = [rng.randrange(2) for _ in range(5)]
        hd = [rng.randrange(2), rng.randrange(2), rng.choice(LENS)]
        cases.append((1200, [ids, flags, hd])); cases.append((1201, [ids, flags, hd])); cases.append((1205, [ids, flags]))
    for dlen in [65534, 65535, 65536, 65537, 2 ** 16 + 255, 2 ** 32, 2 ** 64, -1, -2, -256, -65536, -2 ** 63]:
        for _ in range(4):
            ids, flags, hd = _rand_valid(rng); hd[2] = dlen
            cases.append((1200, [ids, flags, hd])); cases.append((1201, [ids, flags, hd]))
            ids, flags, hd = _rand_valid(rng)
            cases.append((1206, [ids, flags, hd, [dlen]]))
    for _ in range(300):
        ids, flags, hd = _rand_valid(rng)
        cases.append((1206, [ids, flags, hd, [rng.choice(LENS + [rng.randrange(65536)])]]))
    for l1, l2 in itertools.product(allw, allw):
        for _ in range(3):
            ids, flags, hd = _rand_valid(rng)
            cases.append((1207, [ids, flags, hd, [0 if l1 == 0 else rng.randrange(256 ** l1), l1, 0 if l2 == 0 else rng.randrange(256 ** l2), l2]]))
    for w in (-1, 3, 5, 6, 7, 9, 16):       # unsupported widths: UnsignedByteField refuses
        for pos in (1, 3, 5):
            ids, flags, hd = _rand_valid(rng); ids[pos] = w; ids[pos - 1] = 0
            cases.append((1200, [ids, flags, hd])); cases.append((1205, [ids, flags]))
    for w in WIDTHS:                         # values outside the width
        for v in (256 ** w, 256 ** w + 1, -1, 2 ** 64, -2 ** 63):
            for pos in (0, 2, 4):
                ids, flags, hd = _rand_valid(rng, w, w); ids[pos] = v
                cases.append((1200, [ids, flags, hd])); cases.append((1201, [ids, flags, hd]))
    for f in range(5):                       # non-member flag values are not validated by the constructor
        for v in (2, 3, 4, 7, 8, 16, 255, -1):
            ids, flags, hd = _rand_valid(rng); flags[f] = v
            cases.append((1201, [ids, flags, hd]))
    for k in (0, 1):
        for v in (2, 3, 4, 7, 8, 16, 32, 255, -1):
            ids, flags, hd = _rand_valid(rng); hd[k] = v
            cases.append((1201, [ids, flags, hd]))
    for n in list(range(-2, 12)) + [16, 255]:
        cases.append((1209, [[n]]))
    yield "ctor_setter_refusals", "exact", cases
    # 6. targeted malformed: every truncation, per-octet substitutions in the four fixed octets
    cases = []
    for _ in range(400 if big else 80):
        ids, flags, hd = _rand_valid(rng)
        p = layout(ids, flags, hd)
        for n in range(len(p) + 1):
            for op in (1202, 1204, 1208):
                cases.append((op, [p[:n]]))
        for i in range(4):
            for v in {0, 1, 0x7F, 0x80, 0xFF, (p[i] + 1) % 256, (p[i] - 1) % 256, p[i] ^ 0x20, p[i] ^ 0x40, p[i] ^ 0x70, p[i] ^ 0x07}:
                q = list(p); q[i] = v
                for op in (1202, 1203, 1204):
                    cases.append((op, [q + [rng.randrange(256) for _ in range(rng.choice([0, 3, 20]))]]))
    yield "targeted_malformed", "exact", cases
    # 7. verify_length_and_checksum on header + data field (+ CRC), good / corrupted / short
    cases = []
    for _ in range(3000 if big else 500):
        ids, flags, hd = _rand_valid(rng)
        n = rng.choice([0, 1, 2, 3, 17, 40]) if flags[2] == 0 else rng.choice([2, 3, 4, 17, 40])
        hd[2] = n
        p = layout(ids, flags, hd)
        body = [rng.randrange(256) for _ in range(n)]
        if flags[2] == 1:
            c = crc16_bitwise(p + body[:-2]); body[-2:] = [c >> 8, c & 0xFF]
        pdu = p + body
        cases.append((1208, [pdu]))
        cases.append((1208, [pdu + [rng.randrange(256) for _ in range(rng.randrange(1, 5))]]))
        if len(pdu) > len(p):
            cases.append((1208, [pdu[:-1]]))
        q = list(pdu); i = rng.randrange(len(q)); q[i] ^= 1 << rng.randrange(8)
        cases.append((1208, [q]))
    # ... and PDUs whose (correct) CRC trailer is 0x0000 / 0xFFFF / has a zero octet / a single bit: found by steering the
    #     sequence number (steer_crc), every width pair
    for sl, ql in itertools.product(WIDTHS, WIDTHS):
        for target in crc_targets(rng) * (3 if big else 1):
            ids, flags, hd = _rand_valid(rng, sl, ql)
            flags[2] = 1
            hd[2] = rng.choice([2, 3, 4, 17, 40])
            pdu = steer_crc(layout(ids, flags, hd) + [rng.randrange(256) for _ in range(hd[2])], target)
            cases.append((1208, [pdu]))
            cases.append((1208, [pdu + [rng.randrange(256)]]))
            q = list(pdu); q[-1] ^= 1 << rng.randrange(8)
            cases.append((1208, [q]))
            q = list(pdu); q[-2:] = [(~target >> 8) & 0xFF, ~target & 0xFF]
            cases.append((1208, [q]))
    yield "verify_length_checksum", "exact", cases
    # 8. ByteFieldGenerator.from_bytes as used by unpack
    cases = []
    for bl in (-1, 0, 1, 2, 3, 4, 5, 8, 9, 16):
        for n in range(0, 11):
            for _ in range(4):
                cases.append((1210, [[bl], [rng.choice([0, 1, 0x7F, 0x80, 0xFF, rng.randrange(256)]) for _ in range(n)]]))
    yield "bytefield_from_bytes", "exact", cases
    # 10. operation histories on one header object (every setter, sub-object value setters by int and by
    #     octets of any length, plain attribute assignment, refused assignments, pack in between, pack twice):
    #     constructor start (explicit / default() / empty() configuration) and unpack start (bytes, or a
    #     bytearray that the caller overwrites afterwards)
    cases = []
    for _ in range(12000 if big else 1800):
        ids, flags, hd = _rand_valid(rng)
        kind = rng.choice([0, 0, 0, 0, 1, 2])
        st = {"hd": hd, "ids": ids, "flags": flags}
        if kind == 1: st = {"hd": hd, "ids": [0, 1, 0, 1, 0, 1], "flags": [0, 0, 0, 0, 0]}
        if kind == 2: st = {"hd": hd, "ids": [0, 0, 0, 0, 0, 0], "flags": [0, 0, 0, 0, 0]}
        ops, _ = rand_hdr_history(rng, st, rng.randrange(0, 11))
        cases.append((1212, [ids, flags, hd, [kind]] + ops))
    for _ in range(6000 if big else 900):
        ids, flags, hd = _rand_valid(rng)
        p = layout(ids, flags, hd)
        ops, _ = rand_hdr_history(rng, {"hd": hd, "ids": ids, "flags": flags}, rng.randrange(0, 9))
        sfx = [rng.randrange(256) for _ in range(rng.choice([0, 0, 3, 30, 600]))]
        cases.append((1213, [p + sfx, [rng.randrange(2)]] + ops))
    yield "histories_setters_subobjects", "exact", cases
    # 10b. values CPython hashes alike (ints modulo 2**61 - 1): 8-octet IDs / sequence numbers edited IN PLACE along such
    #      values with a pack after every step (a cache keyed on the mutable-but-hashable byte-field objects serves stale
    #      octets exactly there), every field, reached through the header or its PduConfig, constructor and unpack start;
    #      and DIFFERENT header objects with such values packed / decoded / compared one after the other (value-keyed caches)
    cases = []
    pairs = [(1, 2 ** 61), (2, 2 ** 62), (4, 2 ** 63), (0, M61), (5, 5 + M61), (M61 - 1, 8 * M61 - 1), (2 ** 61, 2 ** 62 + 1)]
    for rep in range(6 if big else 1):
        for which, via, start in itertools.product(range(3), range(2), range(2)):
            for v0, v1 in pairs + [(lambda r: (r, rng.choice(colliding(r))))(rng.randrange(2 ** 64)) for _ in range(2)]:
                ids, flags, hd = _rand_valid(rng, 8, 8)
                ids[2 * which] = v0
                chain = [v1, v0, rng.choice(colliding(v0))] if rng.random() < 0.5 else [v1]
                ops = [[15]]
                for x in chain:
                    ops += [[11, which, x, via] if rng.random() < 0.7 else [12, which, 2 * via + rng.randrange(2)] + list(x.to_bytes(8, "big")), [15]]
                    if rng.random() < 0.3:
                        ops.append([16])
                if start == 0:
                    cases.append((1212, [ids, flags, hd, [0]] + ops + [[15]]))
                else:
                    cases.append((1213, [layout(ids, flags, hd) + [rng.randrange(256) for _ in range(rng.choice([0, 5]))], [rng.randrange(2)]] + ops + [[15]]))
    for _ in range(40 if big else 8):
        ids, flags, hd = _rand_valid(rng, rng.choice([4, 8]), 8)
        st = {"hd": hd, "ids": ids, "flags": flags}
        ops = []
        for _ in range(rng.randrange(1, 4)):
            b = collision_burst(rng, st)
            for l in b:
                st, _ = hdr_expect(st, l)
            ops += b
        cases.append((1212, [ids, flags, hd, [0]] + ops))
    for v0, v1 in pairs + [(lambda r: (r, rng.choice(colliding(r))))(rng.randrange(2 ** 64)) for _ in range(6)]:
        for which in range(3):
            base = _rand_valid(rng, 8, 8)
            for v in (v0, v1, v0):
                ids, flags, hd = [list(x) for x in base]
                ids[2 * which] = v
                cases.append((1201, [ids, flags, hd])); cases.append((1200, [ids, flags, hd]))
                cases.append((1203, [layout(ids, flags, hd)])); cases.append((1202, [layout(ids, flags, hd)]))
            i2 = list(base[0]); i2[2 * which] = v0
            i3 = list(base[0]); i3[2 * which] = v1
            cases.append((1211, [i2, base[1], base[2], i3, base[1], base[2]]))
    yield "histories_hash_colliding_values", "exact", cases
    # 10c. outside the model (op 1299, see EXPLORED_ONLY): bytes-like arguments of other types assigned to the value of
    #      the byte fields of a header; field / configuration objects re-created at the address of released ones
    cases = []
    for which, via, style, start in itertools.product(range(3), range(2), range(7), range(2)):
        for rep in range(3 if big else 1):
            ids, flags, hd = _rand_valid(rng)
            w = ids[2 * which + 1]
            for n in (w, rng.choice([w + 1, w + 3, 2 * w, 16, 600]), rng.choice([0, w - 1])):
                octs = [rng.choice([0, 0x80, 0xFF, rng.randrange(256)]) for _ in range(n)]
                cases.append((1299, [[0, which, via, style, start], ids, flags, hd, octs]))
    for _ in range(30 if big else 6):
        ids, flags, hd = _rand_valid(rng)
        cases.append((1299, [[1, 400 if big else 150], ids, flags, hd, [rng.randrange(2 ** 40) for _ in range(64)]]))
    yield "explore_bytes_like_and_identity", "exact", cases
    # 11. sizes: every data-field length 0..1100 and +-8 around every multiple of 256 up to the limit through
    #     constructor + pack, the length setter and unpack; buffers of every size 0..1100 (+ 4 KiB, 64 KiB) through
    #     unpack / header_len_from_raw / verify_length_and_checksum (with and without CRC)
    cases = []
    dl_sweep = sorted(set(range(0, 1101)) | {m + d for m in range(256, 65537, 256) for d in range(-8, 9) if 0 <= m + d <= 65535 + 8})
    for n in dl_sweep:
        ids, flags, hd = _rand_valid(rng); hd[2] = n
        cases.append((1201, [ids, flags, hd]))
        if n <= 65535:
            cases.append((1202, [layout(ids, flags, hd)]))
        i2, f2, h2 = _rand_valid(rng)
        cases.append((1206, [i2, f2, h2, [n]]))
    for n in list(range(0, 1101)) + [4095, 4096, 4097, 65535, 65536]:
        ids, flags, hd = _rand_valid(rng)
        p = layout(ids, flags, hd)
        d = (p + [rng.randrange(256) for _ in range(n)])[:n]
        cases.append((1202, [d])); cases.append((1204, [d]))
        # a whole PDU of n octets behind the header: verify_length_and_checksum
        if n <= 1100 or rng.random() < 0.5:
            flags = list(flags)
            if n < 2: flags[2] = 0
            hd = [hd[0], hd[1], min(n, 65535)]
            p = layout(ids, flags, hd)
            body = [rng.randrange(256) for _ in range(hd[2])]
            if flags[2] == 1:
                c = crc16_bitwise(p + body[:-2]); body[-2:] = [c >> 8, c & 0xFF]
            cases.append((1208, [p + body]))
            if body:
                cases.append((1208, [p + body[:-1]]))
    yield "exh_sizes_sweep", "exact", cases
    # 12. several extremes at once: widest IDs and sequence number, all-ones / 0x80.. / 0xFF00.. values, every flag
    #     set or clear, data-field length 0 / 65535 -- all combinations
    cases = []
    for sl, ql in itertools.product(WIDTHS, WIDTHS):
        for sv, dv, qv in itertools.product(patterns(sl)[2:6], patterns(sl)[2:5], patterns(ql)[2:8]):
            for fl in (0, 1):
                for dlen in (0, 65535):
                    a = [[sv, sl, dv, sl, qv, ql], [fl] * 5, [fl, fl, dlen]]
                    cases.append((1201, a)); cases.append((1203, [layout(*a) + [0xFF] * 3]))
    yield "extremes_combined", "exact", cases
    # 9. garbage
    cases = []
    for _ in range(30000 if big else 4000):
        n = rng.randrange(0, 40)
        d = [rng.randrange(256) for _ in range(n)]
        if d and rng.random() < 0.7:
            d[0] = 0x20 | (d[0] & 0x1F)
        if len(d) > 3 and rng.random() < 0.6:
            d[3] = (d[3] & 0x88) | rng.choice([0, 1, 3, 7]) << 4 | rng.choice([0, 1, 3, 7])
        for op in (1202, 1204, 1208):
            cases.append((op, [d]))
    yield "garbage", "verdict", cases


# ------------------------------------------------------------------ oracle
VALUE_CODES = (1, 2, 3)


def oracle_spec(case, ires):
    op, a = case
    if op == 1201 and valid_args(a[0], a[1], a[2]):
        return [(1250, [a[0], a[1], a[2]])]
    if op == 1202 and ires[0] == [0]:
        return [(1250, [ires[2], ires[3], ires[1]])]
    return []


def _decode_expect(b):
    """What the standard lets a decoder do with octets b: ('ok', header_len) or set of acceptable error codes."""
    reasons = set()
    if len(b) < 4:
        return None, {1, 2, 3}
    if b[0] >> 5 != 1:
        reasons.add(core.E_VERSION)
    idc, sqc = (b[3] >> 4) & 7, b[3] & 7
    if idc not in (0, 1, 3, 7) or sqc not in (0, 1, 3, 7):
        reasons.update(VALUE_CODES)
    else:
        hl = 4 + 2 * (idc + 1) + sqc + 1
        if len(b) < hl:
            reasons.update(VALUE_CODES)
        if not reasons:
            return hl, set()
    return None, reasons


def be(v, w):
    return list(v.to_bytes(w, "big"))


def check_hdr_state(st, flat, idoct, what):
    """the views reported by the implementation (flat: 16 integers, idoct: octets of the three byte fields) against
    the state st the operations so far are documented to produce"""
    exp = st["hd"] + st["ids"] + st["flags"]
    if flat[:14] != exp:
        return ("C05/PduHeader.history/setter-effect", "%s: views %s, expected %s" % (what, flat[:14], exp))
    ids = st["ids"]
    if all(ubf_ok(ids[i], ids[i + 1]) for i in (0, 2, 4)):
        eo = be(ids[0], ids[1]) + be(ids[4], ids[5]) + be(ids[2], ids[3])
        if idoct != eo:
            return ("C05/UnsignedByteField.as_bytes/stale", "%s: the byte fields hold the octets %s, their values/widths %s encode to %s" % (what, idoct, ids, eo))
        if ids[1] == ids[3]:
            hl = 4 + 2 * ids[1] + ids[5]
            if flat[14:] != [hl, hl + st["hd"][2]]:
                return ("C05/PduHeader.header_len", "%s: header_len/packet_len %s, expected %s" % (what, flat[14:], [hl, hl + st["hd"][2]]))
    return None


def check_hdr_history(st, steps, ops, what="PduHeader"):
    """steps: per operation (status, flat state, id octets, returned) as reported by the implementation"""
    prev_pack = None
    for i, (l, (status, flat, idoct, out)) in enumerate(zip(ops, steps)):
        st2, verdict = hdr_expect(st, l)
        where = "%s operation %d %s" % (what, i, l[:8])
        if status[0] == 1:
            if status[1] in core.UNDOCUMENTED or status[1] == 99:
                return st, ("C05/PduHeader.history/undocumented-error", "%s raised %s" % (where, core.ERR_NAMES.get(status[1], status[1])))
            if verdict == "ok":
                return st, ("C05/PduHeader.history/refuses-valid", "%s was refused" % where)
            if verdict == "any" and l[0] not in (15, 16) and status[1] != core.E_VALUE:
                return st, ("C05/PduHeader.history/out-of-domain-value-error-class", "%s (a value outside the domain) was refused with %s, not with ValueError" % (
                    where, core.ERR_NAMES.get(status[1], status[1])))
            r = check_hdr_state(st, flat, idoct, where + " (refused)")
            if r:
                return st, ("C05/PduHeader.history/refused-op-changed-state", r[1])
            prev_pack = None
            continue
        if verdict == "refuse":
            return st, ("C05/PduHeader.history/not-refused", "%s was accepted" % where)
        st = st2
        r = check_hdr_state(st, flat, idoct, where)
        if r:
            return st, r
        if l[0] == 15:
            if valid_args(st["ids"], st["flags"], st["hd"]):
                exp = layout(st["ids"], st["flags"], st["hd"])
                if out != exp:
                    return st, ("C05/PduHeader.pack/layout", "%s: packed %s, the standard's layout of the current values is %s" % (where, out, exp))
            if prev_pack is not None and out != prev_pack:
                return st, ("C05/PduHeader.pack/not-repeatable", "%s: two packs in a row differ" % where)
            prev_pack = out
        else:
            prev_pack = None
        if l[0] == 16 and all(ubf_ok(st["ids"][i], st["ids"][i + 1]) for i in (0, 2, 4)):
            if out != [4 + st["ids"][1] + st["ids"][3] + st["ids"][5]]:
                return st, ("C05/PduConfig.header_len", "%s -> %s" % (where, out))
    return st, None


def alias_probe(unpack, view, octets, ref):
    """decoding from a bytearray the caller overwrites afterwards must give what decoding from bytes gave (ref), and it
    must stay that way"""
    buf = bytearray(octets)
    try:
        o = unpack(buf)
    except Exception:  # noqa
        return "the octets are accepted as bytes and refused as bytearray"
    v0 = view(o)
    scramble(buf)
    try:
        buf.extend(b"\x00" * 8)
    except BufferError:
        return "the decoded object keeps a view of the caller's bytearray (the caller can no longer resize its buffer)"
    v1 = view(o)
    if v0 != ref:
        return "decoded from a bytearray: %s, from bytes: %s" % (str(v0)[:160], str(ref)[:160])
    if v1 != v0:
        return "after the caller overwrote its buffer the decoded object changed from %s to %s" % (str(v0)[:160], str(v1)[:160])
    return None


def oracle(case, ires, sres):
    """The property itself, evaluated on the implementation's observable behaviour."""
    op, a = case
    err = ires[0][0] == 1
    code = ires[0][1] if err else None
    if op == 1299:
        if ires == [[0], [1]]:
            return None
        sub = a[0][0]
        d = ires[1] if len(ires) > 1 else ires[0]
        if sub == 0:
            what = {1: "refused, but the header changed", 2: "accepted with an effect other than that of bytes(argument)",
                    3: "the header changed when the caller overwrote its buffer afterwards",
                    4: "the header keeps a view of the caller's buffer (the caller can no longer resize it)"}.get(d[1] if len(d) > 1 else -1, str(ires))
            style = ["memoryview(bytearray)", "slice of a memoryview", "array.array('B')", "memoryview(array)", "bytearray subclass",
                     "bytes subclass", "read-only memoryview"][a[0][3]]
            return ("C05/UnsignedByteField.value/bytes-like-argument", "%s.value = %s of %s on a %s header (%s): %s" % (
                _FIELD_ATTR[a[0][1]], style, a[4][:12], "decoded" if a[0][4] else "constructed", "via pdu_conf" if a[0][2] else "via the header", what))
        return ("C05/PduHeader.pack/object-identity-reuse", "field / PduConfig objects replaced by ones allocated after the old ones were "
                "released: pack() or the views do not show the stored values (%s)" % (ires[:3],))
    if op in (1212, 1213):
        ops = a[4:] if op == 1212 else a[2:]
        if op == 1212:
            kind = a[3][0] if a[3] else 0
            ids, flags, hd = a[0], a[1], a[2]
            if kind == 1: ids, flags = [0, 1, 0, 1, 0, 1], [0, 0, 0, 0, 0]
            if kind == 2: ids, flags = [0, 0, 0, 0, 0, 0], [0, 0, 0, 0, 0]
            if err:
                # (IDs of width 0 -- PduConfig.empty() -- are not a header the property speaks about: a constructor may refuse them)
                if valid_args(ids, flags, hd) or (code not in VALUE_CODES and all(ubf_ok(ids[i], ids[i + 1]) for i in (0, 2, 4))
                                                  and ids[1] == ids[3] and hd[2] <= 65535):
                    return ("C05/PduHeader/refuses-valid", "constructor refused %s: %s" % (a[:4], ires))
                return None
            st = {"hd": list(hd), "ids": list(ids), "flags": list(flags)}
            r = check_hdr_state(st, ires[1], ires[2], "after construction")
            if r:
                return r
            if ires[3:5] != [list(ids), list(flags)]:
                return ("C11/PduHeader.__init__/caller-conf-modified", "caller's PduConfig %s after construction: %s" % ([ids, flags], ires[3:5]))
            body = ires[5:-2]
        else:
            b = a[0]
            hl, reasons = _decode_expect(b)
            if hl is None:
                if not err or code not in reasons:
                    return ("C05/PduHeader.unpack/refusal", "octets %s: expected refusal with one of %s, got %s" % (b[:8], sorted(reasons), ires))
                return None
            if err:
                return ("C05/PduHeader.unpack/refuses-valid", "well-formed header %s refused: %s" % (b[:hl], ires))
            if ires[1] != [1]:
                return ("C05/PduHeader.unpack/aliases-input-buffer", "the header decoded from a bytearray changed when the caller overwrote that buffer")
            flat = ires[2]
            st = {"hd": flat[0:3], "ids": flat[3:9], "flags": flat[9:14]}
            if not valid_args(st["ids"], st["flags"], st["hd"]) or layout(st["ids"], st["flags"], st["hd"]) != b[:hl]:
                return ("C05/PduHeader.unpack/fields", "decoded fields %s do not encode to %s" % (flat, b[:hl]))
            r = check_hdr_state(st, flat, ires[3], "after unpack")
            if r:
                return r
            if ires[-2:] != ires[2:4]:
                return ("C05/PduHeader.unpack/second-decode-differs", "the same octets decoded again after the first header was edited: %s, first time %s" % (ires[-2:], ires[2:4]))
            body = ires[4:-4]
        if len(body) != 4 * len(ops):
            return ("C05/PduHeader.history/shape", "result has %d lines for %d operations" % (len(body), len(ops)))
        steps = [tuple(body[4 * i:4 * i + 4]) for i in range(len(ops))]
        st, r = check_hdr_history(st, steps, ops)
        return r
    if op in (1200, 1201):
        ids, flags, hd = a
        sv, sl, dv, dl, qv, ql = ids
        if not (ubf_ok(sv, sl) and ubf_ok(dv, dl) and ubf_ok(qv, ql)):
            return None      # UnsignedByteField's own refusal: property C20
        if sl != dl:
            if not err or code not in VALUE_CODES:
                return ("C05/PduHeader.__init__/id-width-mismatch", "source/destination IDs of widths %d/%d not refused with ValueError: %s" % (sl, dl, ires))
            return None
        if hd[2] > 65535:
            if not err or code not in VALUE_CODES:
                return ("C05/PduHeader.__init__/length-range", "data-field length %d not refused with ValueError: %s" % (hd[2], ires))
            return None
        if not valid_args(ids, flags, hd):
            return None
        if err:
            return ("C05/PduHeader/refuses-valid", "valid header arguments refused: %s -> %s" % (a, ires))
        hl = 4 + 2 * sl + ql
        if op == 1200:
            if ires[1:] != [hd, ids, flags, [hl, hl + hd[2]]]:
                return ("C05/PduHeader/fields", "fields / header_len / packet_len wrong: %s -> %s" % (a, ires))
            return None
        exp = layout(ids, flags, hd)
        if ires[1] != exp or not sres or sres[0][1] != exp or len(exp) != hl:
            return ("C05/PduHeader.pack/layout", "pack%s = %s, standard says %s (Coq spec %s)" % (a, ires[1], exp, sres))
        return None
    if op in (1202, 1203):
        b = a[0]
        hl, reasons = _decode_expect(b)
        if hl is None:
            if not err or code not in reasons:
                return ("C05/PduHeader.unpack/refusal", "octets %s: expected refusal with one of %s, got %s" % (b[:8], sorted(reasons), ires))
            return None
        if err:
            return ("C05/PduHeader.unpack/refuses-valid", "well-formed header %s refused: %s" % (b[:hl], ires))
        if op == 1203:
            if ires[1] != b[:hl]:
                return ("C05/PduHeader.unpack-pack/roundtrip", "encode(decode(%s)) = %s" % (b[:hl], ires[1]))
            return None
        hd, ids, flags, lens = ires[1], ires[2], ires[3], ires[4]
        if not valid_args(ids, flags, hd) or layout(ids, flags, hd) != b[:hl] or sres[0][1] != b[:hl]:
            return ("C05/PduHeader.unpack/fields", "decoded fields %s do not encode to %s" % (ires[1:4], b[:hl]))
        if lens != [hl, hl + hd[2]]:
            return ("C05/PduHeader.header_len", "header_len/packet_len %s, expected %s" % (lens, [hl, hl + hd[2]]))
        r = alias_probe(PduHeader.unpack, lambda h: _fields(h) + [_hstate(h)[1]], b, ires[1:] + [be(ids[0], ids[1]) + be(ids[4], ids[5]) + be(ids[2], ids[3])])
        if r:
            return ("C05/PduHeader.unpack/aliases-input-buffer", r)
        return None
    if op == 1204:
        b = a[0]
        if len(b) < 4:
            if not err or code in core.UNDOCUMENTED:
                return ("C10/AbstractPduBase.header_len_from_raw/undocumented-error",
                        "header_len_from_raw(%s) -> %s (%s)" % (b, ires, core.ERR_NAMES.get(code)))
            return None
        exp = 4 + 2 * (((b[3] >> 4) & 7) + 1) + (b[3] & 7) + 1
        if err or ires[1] != [exp]:
            return ("C05/AbstractPduBase.header_len_from_raw/value", "header_len_from_raw(%s) = %s, expected %d" % (b[:4], ires, exp))
        return None
    if op == 1205:
        ids = a[0]
        if ubf_ok(ids[0], ids[1]) and ubf_ok(ids[2], ids[3]) and ubf_ok(ids[4], ids[5]):
            if err and code in VALUE_CODES and not valid_args(ids, a[1], [0, 0, 0]):
                return None     # IDs of different widths / of width 0 / a flag outside its enum: no header has such a
                #                 configuration; PduConfig may refuse to be built (the unchanged one is a plain record)
            if err or ires[1] != [4 + ids[1] + ids[3] + ids[5]]:
                return ("C05/PduConfig.header_len", "%s -> %s" % (ids, ires))
        return None
    if op == 1206:
        ids, flags, hd, (n,) = a
        if not valid_args(ids, flags, hd):
            return None
        if n > 65535:
            if not err or code not in VALUE_CODES:
                return ("C05/PduHeader.pdu_data_field_len/range", "length %d not refused: %s" % (n, ires))
            return None
        if n < 0:
            return None
        hl = 4 + 2 * ids[1] + ids[5]
        exp = layout(ids, flags, [hd[0], hd[1], n])
        if err or ires[1] != [hd[0], hd[1], n] or ires[4] != [hl, hl + n] or ires[5] != [0] + exp:
            return ("C05/PduHeader.pdu_data_field_len/setter", "after setting length %d: %s, expected octets %s" % (n, ires, exp))
        return None
    if op == 1207:
        ids, flags, hd, (sv, sl, dv, dl) = a
        if not valid_args(ids, flags, hd) or not (ubf_ok(sv, sl) and ubf_ok(dv, dl)):
            return None
        if sl != dl:
            if not err or code not in VALUE_CODES:
                return ("C05/PduHeader.set_entity_ids/id-width-mismatch", "widths %d/%d not refused: %s" % (sl, dl, ires))
            return None
        if sl == 0:
            return None
        ids2 = [sv, sl, dv, dl, ids[4], ids[5]]
        exp = layout(ids2, flags, hd)
        hl = 4 + 2 * sl + ids[5]
        if err or ires[2] != ids2 or ires[4] != [hl, hl + hd[2]] or ires[5] != [0] + exp:
            return ("C05/PduHeader.set_entity_ids/setter", "after set_entity_ids%s: %s, expected octets %s" % ((sv, sl, dv, dl), ires, exp))
        return None
    if op == 1208:
        b = a[0]
        hl, reasons = _decode_expect(b)
        if hl is None:
            if not err or code not in reasons:
                return ("C05/PduHeader.unpack/refusal", "octets %s: expected refusal with one of %s, got %s" % (b[:8], sorted(reasons), ires))
            return None
        pl = hl + b[1] * 256 + b[2]
        if len(b) < pl:
            if not err or code not in VALUE_CODES:
                return ("C05/PduHeader.verify_length_and_checksum/short", "%d octets for packet length %d accepted: %s" % (len(b), pl, ires))
            return None
        if b[0] & 2 and crc16_bitwise(b[:pl]) != 0:
            if not err or code != core.E_CRC:
                return ("C05/PduHeader.verify_length_and_checksum/crc", "bad CRC not refused with InvalidCrc: %s" % (ires,))
            return None
        if err or ires[1] != [pl]:
            return ("C05/PduHeader.verify_length_and_checksum/value", "expected %d, got %s" % (pl, ires))
        return None
    if op == 1209:
        n = a[0][0]
        if n in WIDTHS:
            if err or ires[1] != [n]:
                return ("C05/PduHeader.check_len_in_bytes", "%d -> %s" % (n, ires))
        elif not err or code not in VALUE_CODES:
            return ("C05/PduHeader.check_len_in_bytes/refusal", "width %d not refused with ValueError: %s" % (n, ires))
        return None
    if op == 1211:
        same = a[:3] == a[3:]
        if not valid_args(*a[:3]) or not valid_args(*a[3:]):
            return None
        if same and (err or ires[1] != [1]):
            return ("C05/PduHeader.__eq__/reflexive", "identical headers unequal: %s" % (a[:3],))
        return None
    return None


def neighbours(case):
    op, a = case
    out = []
    if op in (1200, 1201):
        for k in range(3):
            for i in range(len(a[k])):
                for dlt in (-1, 1):
                    b = [list(x) for x in a]; b[k][i] += dlt; out.append((op, b))
    if op in (1202, 1203, 1204, 1208):
        for i in range(min(4, len(a[0]))):
            for bit in range(8):
                l = list(a[0]); l[i] ^= 1 << bit; out.append((op, [l]))
        for n in range(min(len(a[0]), 30)):
            out.append((op, [a[0][:n]]))
    return out


# ---- registry used by the cross-cutting checks C09 (no over-read) and C10 (total decoding).
def _valid_headers(rng):
    out = []
    for _ in range(40):
        ids, flags, hd = _rand_valid(rng)
        out.append(layout(ids, flags, hd))
    return out


def _declared(b):
    return 4 + 2 * (((b[3] >> 4) & 7) + 1) + (b[3] & 7) + 1


DECODERS = [
    {"op": 1202, "name": "PduHeader.unpack", "extra": [], "valid": _valid_headers, "declared_len": _declared},
    {"op": 1204, "name": "AbstractPduBase.header_len_from_raw", "extra": [], "valid": _valid_headers, "declared_len": None},
]
