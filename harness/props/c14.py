"""C14 — CDS short timestamps.  Streams, implementation adapter, oracle.

Floats are never compared as floats: a double is marshalled as (mantissa, exponent) with
2^52 <= |mantissa| < 2^53 (0.0 -> (0, 0)); datetimes as integer microseconds since
1970-01-01T00:00:00Z computed with timedelta's integer attributes."""
import datetime as D
import itertools
import math
import warnings
from fractions import Fraction

warnings.filterwarnings("ignore", category=DeprecationWarning)
from spacepackets.ccsds.time import cds as cdsmod  # noqa: E402
from spacepackets.ccsds.time import common  # noqa: E402

C = cdsmod.CdsShortTimestamp
UTC = D.timezone.utc
EPOCH = D.datetime(1970, 1, 1, tzinfo=UTC)

ID = "C14"
ENUMS = [
    ("spacepackets.ccsds.time.common:DAYS_CCSDS_TO_UNIX", "SP.Model.Cds.DAYS_CCSDS_TO_UNIX"),
    ("spacepackets.ccsds.time.common:SECONDS_PER_DAY", "SP.Model.Cds.SECONDS_PER_DAY"),
    ("spacepackets.ccsds.time.common:MS_PER_DAY", "SP.Model.Cds.MS_PER_DAY"),
    ("spacepackets.ccsds.time.common:CcsdsTimeCodeId.CDS", "SP.Model.Cds.TIME_CODE_CDS"),
    ("spacepackets.ccsds.time.cds:SECONDS_PER_DAY", "SP.Model.Cds.SECONDS_PER_DAY"),
    ("spacepackets.ccsds.time.cds:MS_PER_DAY", "SP.Model.Cds.MS_PER_DAY"),
    ("spacepackets.ccsds.time.cds:CdsShortTimestamp.CDS_SHORT_ID", "SP.Model.Cds.CDS_SHORT_ID"),
    ("spacepackets.ccsds.time.cds:CdsShortTimestamp.TIMESTAMP_SIZE", "SP.Model.Cds.TIMESTAMP_SIZE"),
    ("spacepackets.ccsds.time.cds:LenOfDaysSegment.DAYS_16_BITS", "SP.Model.Cds.DAYS_16_BITS"),
    ("spacepackets.ccsds.time.cds:LenOfDaysSegment.DAYS_24_BITS", "SP.Model.Cds.DAYS_24_BITS"),
]
ASSUMPTIONS = [
    "CPython int / bytes / struct / IntEnum semantics as modelled in Base/Bytes.v",
    "an aware UTC datetime is abstracted to (days since 1970-01-01, second of day, microsecond) = the integer "
    "attributes of (dt - epoch); the adapter builds datetimes with tzinfo=datetime.timezone.utc; naive datetimes and "
    "the local-time database are outside the model",
    "a datetime.timedelta is abstracted to its normalised attributes (days, seconds, microseconds)",
    "IEEE-754 binary64 round-to-nearest-even for + - * / and int/int true division (Model/CdsSoftFloat.v, normal "
    "range only), CPython's datetime.fromtimestamp / timedelta(seconds=float) rounding as transcribed from "
    "_datetimemodule.c / pytime.c of CPython 3.12: modelled and compared bit for bit on every run, not verified",
    "the constructor's cached datetime raises OverflowError/ValueError for |days| beyond the datetime range "
    "(years 1..9999); generators stay within it",
]
TRUSTED = [
    "Model/CdsSoftFloat.v as the definition of IEEE-754 binary64 round-to-nearest-even arithmetic (normal range) and "
    "Model/CdsFloat.v as the transcription of CPython 3.12's fromtimestamp / timedelta(seconds=float) rounding: tied to "
    "the running interpreter by bit-exact correspondence only",
]
ORACLE_LIMIT = {"quick": 100000, "thorough": 1000000}
EXPLORED_ONLY = [
    "live-object states the property text does not speak about, modelled faithfully (Model/CdsObj.v) and compared, not "
    "judged by the oracle: the placeholder views (Unix seconds 0, no datetime) of an object made with "
    "init_dt_unix_stamp=False before its first read_from_raw / addition; the fields an in-place __add__ has already "
    "updated when it raises OverflowError (e.g. day 65536, which pack() then refuses with struct.error) with the views "
    "left stale; negative timedeltas",
    "CPython's datetime.fromtimestamp / timedelta(seconds=float) / float division themselves: transcribed into "
    "Model/CdsFloat.v and Model/CdsSoftFloat.v and validated by bit-exact correspondence on every run; the theorems "
    "C14_unix_seconds_close / C14_datetime_exact are about that transcription",
    "the datetime object cached by from_datetime (as_datetime() returns the object passed in): correspondence + "
    "oracle only",
    "naive datetimes passed to from_datetime: not generated (they depend on the local time zone database); aware "
    "datetimes in fixed-offset zones other than UTC are generated (op 416) and behave as the same instant in UTC",
]


# ---------------------------------------------------------------- marshalling
def fl(x):
    if x == 0:
        return [0, 0]
    m, e = math.frexp(x)
    return [int(m * (1 << 53)), e - 53]


def unfl(l):
    m, e = l
    return math.ldexp(m, e)


def frac_of(l):
    m, e = l
    return Fraction(m) * (Fraction(2) ** e)


def dt_us(dt):
    td = dt - EPOCH
    return (td.days * 86400 + td.seconds) * 10 ** 6 + td.microseconds


def views(t):
    return [[t.ccsds_days, t.ms_of_day], fl(t.as_unix_seconds()), [dt_us(t.as_datetime())]]


def impl(op, a):
    if op == 400:
        t = C(a[0][0], a[0][1])
        return [[t.ccsds_days, t.ms_of_day], [t.len_packed], list(t.pfield), [t.ccsds_time_code()]]
    if op == 401:
        return [list(C(a[0][0], a[0][1]).pack())]
    if op == 402:
        return views(C.unpack(bytes(a[0])))
    if op == 403:
        d, ms = C.unpack_from_raw(bytes(a[0]))
        return [[d, ms]]
    if op == 404:
        t = C.empty()
        t.read_from_raw(bytes(a[0]))
        return views(t)
    if op == 405:
        t = C(a[0][0], a[0][1])
        r = t + D.timedelta(days=a[1][0], seconds=a[1][1], microseconds=a[1][2])
        return views(r)
    if op == 406:
        dt = EPOCH + D.timedelta(days=a[0][0], seconds=a[0][1], microseconds=a[0][2])
        assert dt.tzinfo is UTC
        return views(C.from_datetime(dt))
    if op == 416:
        dt = EPOCH + D.timedelta(days=a[0][0], seconds=a[0][1], microseconds=a[0][2])
        dt = dt.astimezone(D.timezone(D.timedelta(minutes=a[1][0])))
        return views(C.from_datetime(dt))
    if op == 417:
        t = C(a[0][0], a[0][1])
        tds = a[1]
        for k in range(0, len(tds) - 2, 3):
            t += D.timedelta(days=tds[k], seconds=tds[k + 1], microseconds=tds[k + 2])
        return views(t) + [[t.len_packed]]
    if op == 407:
        return views(C(a[0][0], a[0][1]))
    if op == 409:
        return [[C.ms_of_today(unfl(a[0]))]]
    if op == 410:
        t = C.from_unix_days(a[0][0], a[0][1])
        return [[t.ccsds_days, t.ms_of_day],
                [common.convert_unix_days_to_ccsds_days(a[0][0]), common.convert_ccsds_days_to_unix_days(a[0][0])]]
    if op == 411:
        return [[int(C(a[0][0], a[0][1]) == C(a[1][0], a[1][1]))]]
    if op == 412:
        return [list(C.unpack(bytes(a[0])).pack())]
    if op == 413:
        t = C.unpack(bytes(C(a[0][0], a[0][1]).pack()))
        return [[t.ccsds_days, t.ms_of_day]]
    if op == 419:
        before = D.datetime.now(tz=UTC)
        t = [C.now, C.from_now, C.from_current_time][a[0][0] % 3]()
        after = D.datetime.now(tz=UTC)
        ms_total = lambda dt: (dt - D.datetime(1958, 1, 1, tzinfo=UTC)) // D.timedelta(milliseconds=1)   # noqa: E731
        stamp = t.ccsds_days * MSPD + t.ms_of_day
        in_window = ms_total(before) <= stamp <= ms_total(after)
        normal = 0 <= t.ms_of_day < MSPD and 0 <= t.ccsds_days <= 65535 and list(t.pack()) == layout(t.ccsds_days, t.ms_of_day)
        dtv = t.as_datetime()
        views_ok = before <= dtv <= after and abs(t.as_unix_seconds() - dtv.timestamp()) < 1e-6 and (dt_us(dtv) // 1000 - (-4383) * MSPD) == stamp
        return [[int(in_window), int(normal), int(views_ok)]]
    if op == 418:
        t = _make(a[0])
        out = views_any(t)
        kept = bytearray()            # the caller's receive buffer, re-used (edited in place) across reads
        for o in a[1:]:
            k = o[0]
            r = [0]
            try:
                if k == 1:
                    t.read_from_raw(bytes(o[1:]))
                elif k in (2, 6):
                    if k == 2:
                        kept = bytearray(o[1:])
                    elif list(kept) != o[1:]:
                        raise RuntimeError("history op 6 does not carry the buffer's present content")
                    try:
                        t.read_from_raw(kept)
                    finally:      # the caller re-uses its receive buffer: the stamp must not follow
                        for i in range(len(kept)):
                            kept[i] ^= 0xFF
                        kept.extend(b"\x5a")
                elif k == 3:
                    t = t + D.timedelta(days=o[1], seconds=o[2], microseconds=o[3])
                elif k == 4:
                    t.read_from_raw(bytes(t.pack()))
                elif k == 5:
                    r = [0] + list(t.pack())
                else:
                    raise RuntimeError("bad history op")
            except RuntimeError:
                raise
            except Exception as e:
                from harness import core
                r = [1, core.canon_code(core.classify_exception(e))]
            out += [r] + views_any(t)
        return out
    raise RuntimeError("bad op")


def views_any(t):
    """views of a live object; the datetime line is empty when the object has no _datetime yet"""
    try:
        dt = [dt_us(t.as_date_time() if t.ccsds_days % 2 else t.as_datetime())]    # as_date_time: deprecated alias
    except AttributeError:
        dt = []
    return [[t.ccsds_days, t.ms_of_day], fl(t.as_unix_seconds()), dt]


def _make(l):
    """every way to obtain a CdsShortTimestamp object"""
    k = l[0]
    if k == 0:
        return C(l[1], l[2])
    if k == 1:
        return C(l[1], l[2], init_dt_unix_stamp=False) if l[1] % 2 else C(l[1], l[2], False)
    if k == 2:
        return C.empty()
    if k == 3:
        return C.empty(False) if len(l) % 2 else C.empty(init_dt_unix_stamp=False)
    if k == 4:
        return C.unpack(bytes(l[1:]))
    if k == 5:
        return C.from_unix_days(l[1], l[2])
    if k == 6:
        return C.from_datetime(EPOCH + D.timedelta(days=l[1], seconds=l[2], microseconds=l[3]))
    if k == 7:
        return C.from_date_time(EPOCH + D.timedelta(days=l[1], seconds=l[2], microseconds=l[3]))
    raise RuntimeError("bad constructor kind")


# ---------------------------------------------------------------- generators
MSPD = 86400000
DAYS = [0, 1, 2, 4382, 4383, 4384, 32767, 32768, 65534, 65535] + [1 << i for i in range(16)]
MSS = [0, 1, 999, 1000, 1001, 43200000, 86399000, 86399998, 86399999] + [1 << i for i in range(27)]
MS_BEYOND = [86400000, 86400001, 2 ** 32 - 1]
BAD_D = [-1, 65536, 65537, -4383, 2 ** 20]
BAD_MS = [-1, 2 ** 32, 2 ** 32 + 1, -86400000]
UD_MIN, UD_MAX = -4383, 61152     # 1958-01-01 .. 2137-06-06
UDS = [-4383, -4382, -4000, -366, -365, -2, -1, 0, 1, 2, 365, 10957, 20000, 61151, 61152]
SODS = [0, 1, 59, 60, 3599, 3600, 43199, 43200, 80000, 86398, 86399]
USS = [0, 1, 2, 499, 500, 501, 999, 1000, 1001, 1499, 1500, 1999, 2000, 2001, 4999, 5000, 7000, 9000, 100000,
       123456, 500000, 500001, 999000, 999001, 999499, 999500, 999998, 999999]


def layout(d, ms):
    return [0x40, d // 256, d % 256, ms // 16777216, ms // 65536 % 256, ms // 256 % 256, ms % 256]


def rand_ts(rng):
    return [rng.choice(DAYS) if rng.random() < 0.3 else rng.randrange(65536),
            rng.choice(MSS[:9]) if rng.random() < 0.3 else rng.randrange(MSPD)]


def _receivers(rng):
    """one object per construction path (incl. the rarely used flag / empty(False)) at boundary and random fields"""
    d, ms = rand_ts(rng)
    ud, sod, us = rng.randrange(UD_MIN, UD_MAX + 1), rng.randrange(86400), rng.choice(USS + [rng.randrange(10 ** 6)])
    return [[0, d, ms], [1, d, ms], [0, 0, 0], [1, 0, 0], [1, 65535, MSPD - 1], [2], [3], [3, 0], [4] + layout(d, ms),
            [4] + layout(0, 0) + [1, 2], [4] + layout(65535, 2 ** 32 - 1), [5, d - 4383, ms], [5, -4383, 0], [6, ud, sod, us],
            [6, -4383, 0, 0], [1, rng.choice(DAYS), rng.choice(MSS)], [0, rng.choice(DAYS), rng.choice(MSS)],
            [7, ud, sod, us], [7, rng.choice(UDS), rng.choice(SODS), rng.choice(USS)]]


def _made_fields(make):
    k = make[0]
    if k in (0, 1):
        return make[1], make[2]
    if k in (2, 3):
        return 0, 0
    if k == 4:
        b = make[1:]
        return b[1] * 256 + b[2], ((b[3] * 256 + b[4]) * 256 + b[5]) * 256 + b[6]
    if k == 5:
        return make[1] + 4383, make[2]
    return make[1] + 4383, make[2] * 1000 + make[3] // 1000


def streams(tier, rng):
    big = tier == "thorough"
    # 1. every P-field octet (finite leaf domain) through the three decode entry points
    cases = []
    for p in range(256):
        body = [rng.randrange(256) for _ in range(6)]
        for op in (402, 403, 404, 412):
            cases.append((op, [[p] + body]))
        cases.append((403, [[p] + body + [rng.randrange(256)]]))
        cases.append((403, [[p] + body[:5]]))
    yield "exh_pfield_unpack", "exact", cases
    # 2. every 16-bit day count: pack, round trip, float / datetime views
    cases = []
    for d in range(65536):
        ms = MSS[d % 9] if d % 2 else rng.randrange(MSPD)
        cases.append((407, [[d, ms]]))
        if big or d % 4 == 0 or d < 64 or d > 65472:
            cases.append((401, [[d, ms]]))
        if big or d % 16 == 0:
            b = layout(d, rng.randrange(2 ** 32))
            cases.append((402, [b]))
    yield "exh_days", "exact", cases
    # 3. boundary products: constructor, pack (also refusals), round trips, views
    cases = []
    for d, ms in itertools.product(DAYS, MSS + MS_BEYOND):
        cases.append((401, [[d, ms]]))
        cases.append((413, [[d, ms]]))
        cases.append((407, [[d, ms]]))
    for d, ms in itertools.product(DAYS[:10] + BAD_D, MSS[:9] + MS_BEYOND + BAD_MS):
        cases.append((400, [[d, ms]]))
        cases.append((401, [[d, ms]]))
        cases.append((413, [[d, ms]]))
    for d in DAYS + BAD_D + UDS:
        cases.append((410, [[d, rng.choice(MSS)]]))
    for _ in range(300):
        x, y = rand_ts(rng), rand_ts(rng)
        cases.append((411, [x, y]))
        cases.append((411, [x, list(x)]))
        cases.append((411, [x, [x[0], y[1]]]))
        cases.append((411, [x, [y[0], x[1]]]))
    yield "pack_boundaries", "exact", cases
    # 4. malformed / truncated / garbage decode input
    cases = []
    for _ in range(60):
        d, ms = rand_ts(rng)
        b = layout(d, ms)
        for n in range(0, 8):
            for op in (402, 403, 404):
                cases.append((op, [b[:n]]))
        cases.append((402, [b + [rng.randrange(256) for _ in range(rng.randrange(1, 9))]]))
        for v in (0, 1, 0x7F, 0x80, 0xFF, 0x41, 0x3F, 0x44, 0xC0, 0x50, 0x48, 0x4C, 0x24):
            cases.append((402, [[v] + b[1:]]))
            cases.append((412, [[v] + b[1:]]))
    yield "unpack_malformed", "exact", cases
    cases = []
    for _ in range(20000 if big else 3000):
        n = rng.randrange(0, 12)
        b = [rng.randrange(256) for _ in range(n)]
        if b and rng.random() < 0.6:
            b[0] = rng.choice([0x40, 0x40, 0x41, 0x44, 0xC0, 0x48])
        cases.append((rng.choice([402, 403, 404, 412]), [b]))
    yield "unpack_garbage", "verdict", cases
    # 5. additions: landing exactly on / one ms before / one ms after midnight, and on the day limit
    cases = []
    for d in [0, 1, 4382, 4383, 65533, 65534, 65535]:
        for ms in MSS[:9]:
            for target in (MSPD - 1, MSPD, MSPD + 1, 2 * MSPD - 1 - ms + ms, MSPD + 999):
                delta = target - ms
                if delta < 0:
                    continue
                for extra_days in (0, 1, 65535 - d - 1, 65535 - d, 65535 - d + 1):
                    if extra_days < 0:
                        continue
                    tot = delta + extra_days * MSPD
                    for sub in (0, 1, 999):
                        cases.append((405, [[d, ms], [tot // MSPD, tot % MSPD // 1000, tot % 1000 * 1000 + sub]]))
    for d, ms in itertools.product([0, 4383, 65535], MSS[:9]):
        for td in [(0, 0, 0), (0, 0, 1), (0, 0, 999), (0, 0, 1000), (0, 1, 0), (0, 86399, 999999), (1, 0, 0),
                   (65535, 0, 0), (65536, 0, 0), (-1, 0, 0), (-1, 86399, 999000), (-4383, 0, 0), (-2, 43200, 5000)]:
            cases.append((405, [[d, ms], list(td)]))
    yield "add_boundaries", "exact", cases
    cases = []
    for _ in range(100000 if big else 5000):
        t = rand_ts(rng)
        r = rng.random()
        if r < 0.5:
            td = [rng.randrange(0, 3), rng.randrange(86400), rng.randrange(10 ** 6)]
        elif r < 0.8:
            td = [rng.randrange(0, 65537 - t[0] + 1), rng.randrange(86400), rng.randrange(10 ** 6)]
        elif r < 0.9:
            td = [-rng.randrange(1, 5000), rng.randrange(86400), rng.randrange(10 ** 6)]
        else:   # timestamps whose ms is beyond a day (decoded from raw octets)
            t[1] = rng.choice(MS_BEYOND + [rng.randrange(MSPD, 2 ** 32)])
            td = [rng.randrange(0, 3), rng.randrange(86400), rng.randrange(10 ** 6)]
        cases.append((405, [t, td]))
    yield "add_random", "exact", cases
    # histories: the same object incremented several times
    cases = []
    for _ in range(10000 if big else 1500):
        t = rand_ts(rng)
        tds = []
        for _ in range(rng.randrange(0, 6)):
            r = rng.random()
            if r < 0.3:     # land exactly on midnight
                tds += [0, 0, 0] if not tds else [0, 86399, 999000 + rng.randrange(2) * 1000 - 1000 * rng.randrange(2)]
            else:
                tds += [rng.randrange(0, 3) if r < 0.9 else rng.randrange(0, 70000), rng.randrange(86400), rng.randrange(10 ** 6)]
        cases.append((417, [t, tds]))
    yield "add_histories", "exact", cases
    # 5b. triple coincidences: day sum just below / at / above the 16-bit limit  x  time-of-day sum just below / at
    #     / above midnight (carry or not)  x  days part of the timedelta 0, 1, >= 2 -- all combinations
    cases = []
    for dsum in (65533, 65534, 65535, 65536, 65537):
        for tdd in (0, 1, 2, 3, 255, 256, 4383, 32768, 65534, 65535, 65536):
            d = dsum - tdd
            if not 0 <= d <= 65535:
                continue
            for ms in (0, 1, 999, 1000, 43200000, 86399000, 86399998, 86399999, rng.randrange(MSPD)):
                for msum in (MSPD - 2, MSPD - 1, MSPD, MSPD + 1, MSPD + 1000, 2 * MSPD - 2 - (MSPD - 1 - ms) if ms else MSPD - 1):
                    delta = msum - ms
                    if not 0 <= delta < MSPD:
                        continue
                    for sub in (0, 999):
                        td = [tdd, delta // 1000, delta % 1000 * 1000 + sub]
                        cases.append((405, [[d, ms], td]))
                        if sub == 0:
                            cases.append((418, [[rng.choice([0, 1]), d, ms], [3] + td, [5], [4]]))
    yield "add_triple_boundaries", "exact", cases
    # 5c. ONE live object through every way to make it and every way to change it (read_from_raw with content
    #     equal to / different from what it holds, from bytes and from a re-used bytearray; += timedelta; re-reading
    #     its own pack()), views after every step
    cases = []
    for make in _receivers(rng):
        d0, ms0 = _made_fields(make)
        same = layout(d0, ms0) if (0 <= d0 <= 65535 and 0 <= ms0 < 2 ** 32) else layout(0, 0)
        other = layout(*rand_ts(rng))
        same_day = same[:3] + other[3:]          # same day, another time of day
        same_ms = other[:3] + same[3:]           # another day, same time of day
        for first in ([1] + same, [2] + same, [1] + other, [2] + other + [rng.randrange(256)] * rng.choice([0, 1, 600]), [4],
                      [1] + same_day, [2] + same_ms, [1] + same[:6], [1, 0x50] + same[1:], [1, 0x44] + same[1:],
                      [3, 0, 0, 0], [3, 0, 0, 999], [3, 0, 1, 0], [3, 1, 0, 0], [5]):
            cases.append((418, [make, first, [5], [4], [1] + other, [1] + other, [3, 0, 0, 999], [4]]))
    for i in range(30):          # now() and its two deprecated aliases: invariants against the clock reading
        cases.append((419, [[i]]))
    yield "exh_receivers_x_content", "exact", cases
    cases = []
    for _ in range(10000 if big else 1500):
        make = rng.choice(_receivers(rng))
        cur = list(_made_fields(make))
        ops = []
        for _ in range(rng.randrange(1, 11)):
            k = rng.random()
            packable = 0 <= cur[0] <= 65535 and 0 <= cur[1] < 2 ** 32
            if k < 0.16 and packable:           # exactly the content it holds
                ops.append([rng.choice([1, 2])] + layout(*cur))
            elif k < 0.36:
                t = rand_ts(rng) if rng.random() < 0.85 else [rng.randrange(65536), rng.randrange(2 ** 32)]
                ops.append([rng.choice([1, 2])] + layout(*t) + [rng.randrange(256)] * rng.choice([0, 0, 2, 700]))
                cur = t
            elif k < 0.44:                      # refused input
                b = layout(*rand_ts(rng))
                ops.append([rng.choice([1, 2])] + rng.choice([b[:rng.randrange(7)], [rng.choice([0, 0x41 ^ 1, 0x44, 0xC4, 0x50, 0x30])] + b[1:]]))
            elif k < 0.58:
                ops.append([4])
            elif k < 0.68:
                ops.append([5])
            else:
                r = rng.random()
                if r < 0.35 and 0 <= cur[1] < MSPD:      # land exactly on / next to midnight
                    rest = MSPD - cur[1] + rng.choice([-1, 0, 0, 1])
                    rest = min(max(rest, 0), MSPD - 1)
                    td = [rng.choice([0, 0, 1, max(65535 - cur[0] - 1, 0), max(65535 - cur[0], 0)]), rest // 1000, rest % 1000 * 1000 + rng.choice([0, 999])]
                elif r < 0.85:
                    td = [rng.randrange(0, 3), rng.randrange(86400), rng.randrange(10 ** 6)]
                elif r < 0.93:
                    td = [rng.randrange(0, 70000), rng.randrange(86400), rng.randrange(10 ** 6)]
                else:
                    td = [-rng.randrange(1, 3000), rng.randrange(86400), rng.randrange(10 ** 6)]
                ops.append([3] + td)
                ms = cur[1] + td[1] * 1000 + td[2] // 1000
                dd = cur[0]
                if ms >= MSPD:
                    ms -= MSPD; dd += 1
                cur = [dd + td[0], ms]
        cases.append((418, [make] + ops))
    for _ in range(2000 if big else 300):     # the caller's bytearray handed over, edited in place, handed over again
        make = rng.choice(_receivers(rng))
        t1, t2 = rand_ts(rng), rand_ts(rng)
        b1 = layout(*t1) + [rng.randrange(256)] * rng.choice([0, 3, 600])
        inv = [x ^ 0xFF for x in layout(*t2)] + [rng.randrange(256)] * rng.choice([0, 3, 600])   # becomes t2 once edited
        for b in (b1, inv):
            nb = [x ^ 0xFF for x in b] + [0x5A]
            nnb = [x ^ 0xFF for x in nb] + [0x5A]
            cases.append((418, [make, [2] + b, [6] + nb, [5], [6] + nnb, [4]]))
    yield "live_object_histories", "exact", cases
    # 5d. buffer sizes: every input length 0..1100 (thorough 0..4200) through the decode entry points
    cases = []
    for n in list(range(0, 4201 if big else 1101)) + [65535, 65536]:
        b = (layout(*rand_ts(rng)) + [rng.choice([0, 0x40, 0x80, 0xFF, rng.randrange(256)])] * max(n - 7, 0))[:n]
        cases += [((402, 403, 404, 412)[n % 4], [b]), (418, [[[0, 7, 7], [1, 7, 7], [2], [3]][n % 4], [1 + n % 2] + b, [4]])]
    yield "exh_buffer_sizes", "exact", cases
    # 6. from_datetime
    cases = []
    for ud, sod, us in itertools.product(UDS, SODS, USS):
        cases.append((406, [[ud, sod, us]]))
    for ud in [-4384, -5000, -719162, 61153, 100000]:      # outside the representable range: no check in the code
        cases.append((406, [[ud, rng.choice(SODS), rng.choice(USS)]]))
    yield "from_datetime_boundaries", "exact", cases
    cases = []
    for _ in range(200000 if big else 8000):
        ud = rng.randrange(UD_MIN, UD_MAX + 1) if rng.random() < 0.8 else rng.randrange(UD_MIN, 1)
        sod = rng.randrange(86400)
        r = rng.random()
        us = rng.randrange(10 ** 6) if r < 0.5 else rng.randrange(1000) * 1000 if r < 0.9 else rng.choice(USS)
        cases.append((406, [[ud, sod, us]]))
    for _ in range(2000 if big else 400):     # the same instants seen from other fixed-offset zones
        ud, sod, us = rng.randrange(UD_MIN, UD_MAX + 1), rng.randrange(86400), rng.choice(USS + [rng.randrange(10 ** 6)])
        cases.append((416, [[ud, sod, us], [rng.choice([0, 60, -60, 330, -480, 765, -720, 840, 1, -1439, 1439])]]))
    yield "from_datetime_random", "exact", cases
    # 7. views on random pairs (incl. ms beyond a day as decoded from raw octets)
    cases = []
    for _ in range(400000 if big else 8000):
        t = rand_ts(rng)
        if rng.random() < 0.05:
            t[1] = rng.randrange(2 ** 32)
        cases.append((407, [t]))
    for d in [-1, -2, -4383, -10000, 65536, 70000]:
        cases.append((407, [[d, rng.randrange(MSPD)]]))
    yield "views_random", "exact", cases
    # 8. ms_of_today with an explicit float
    cases = []
    for _ in range(20000 if big else 3000):
        r = rng.random()
        if r < 0.4:
            x = rng.uniform(0, 2 ** 31)
        elif r < 0.6:
            x = rng.randrange(0, 2 ** 31) + rng.randrange(2000) / 2000.0
        elif r < 0.8:
            x = rng.randrange(0, 20000) * 86400 + rng.choice([0, 1, 86399]) + rng.choice([0.0, 0.5, 0.9995, 0.001, 0.99951171875])
        else:
            x = -rng.uniform(0, 2 ** 28)
        cases.append((409, [fl(x)]))
    yield "ms_of_today", "exact", cases


# ---------------------------------------------------------------- oracle
def ts_valid(t):
    return 0 <= t[0] <= 65535 and 0 <= t[1] < MSPD


def check_views(sigbase, t, ires, k=1):
    """views at ires[k], ires[k+1], ires[k+2] must be those of the pair t (days, ms):
    Unix seconds within 2^-21 s of the exact instant, datetime equal at microsecond resolution."""
    d, ms = t
    if ires[k] != [d, ms]:
        return (sigbase + "/fields", "fields %s, expected %s" % (ires[k], [d, ms]))
    exact_ms = (d - 4383) * MSPD + ms
    u = frac_of(ires[k + 1])
    if abs(u - Fraction(exact_ms, 1000)) > Fraction(1, 2 ** 21):
        return ("C14/as_unix_seconds/instant", "(%d, %d): unix seconds %s, exact %s" % (d, ms, float(u), exact_ms / 1000))
    if ires[k + 2] != [exact_ms * 1000]:
        return ("C14/as_datetime/instant", "(%d, %d): datetime us %s, exact %d" % (d, ms, ires[k + 2], exact_ms * 1000))
    return None


def oracle_spec(case, ires):
    op, a = case
    if op == 401 and ts_valid(a[0]):
        return [(450, [a[0]])]
    return []


def oracle(case, ires, sres):
    op, a = case
    err = ires[0][0] == 1
    code = ires[0][1] if err else None
    if op == 400:
        if not err and (ires[1] != a[0] or ires[2] != [7] or ires[3] != [0x40] or ires[4] != [4]):
            return ("C14/CdsShortTimestamp.__init__/fields", "%s -> %s" % (a[0], ires))
        return None
    if op == 401:
        if ts_valid(a[0]):
            exp = layout(*a[0])
            if err or ires[1] != exp or (sres and sres[0][1] != exp):
                return ("C14/CdsShortTimestamp.pack/layout", "pack%s = %s, expected %s" % (tuple(a[0]), ires, exp))
        elif not (0 <= a[0][0] <= 65535 and 0 <= a[0][1] < 2 ** 32) and not err:
            return ("C14/CdsShortTimestamp.pack/range", "out-of-range %s packed to %s" % (a[0], ires))
        return None
    if op in (402, 403, 404, 412):
        b = a[0]
        bad = len(b) < 7 or (b[0] // 16) % 8 != 4 or (b[0] // 4) % 2 != 0
        if bad:
            if not err or code not in (1, 2, 3):
                return ("C14/CdsShortTimestamp.unpack/refusal", "short input or wrong P-field not refused with ValueError: %s -> %s" % (b[:8], ires))
            return None
        d, ms = b[1] * 256 + b[2], ((b[3] * 256 + b[4]) * 256 + b[5]) * 256 + b[6]
        if err:
            if ms >= MSPD and code in (1, 2, 3):
                return None     # a millisecond field no day has (the unchanged decoder hands it on): may be refused
            return ("C14/CdsShortTimestamp.unpack/refuses-valid", "%s -> %s" % (b[:7], ires))
        if op == 412:
            if ires[1] != [0x40] + b[1:7]:
                return ("C14/CdsShortTimestamp.unpack-pack/roundtrip", "%s -> %s" % (b[:7], ires))
            return None
        if ires[1] != [d, ms]:
            return ("C14/CdsShortTimestamp.unpack/fields", "%s -> %s expected %s" % (b[:7], ires, [d, ms]))
        if op != 403 and ms < MSPD:
            return check_views("C14/CdsShortTimestamp.unpack", [d, ms], ires)
        return None
    if op == 413:
        if ts_valid(a[0]) and (err or ires[1] != a[0]):
            return ("C14/CdsShortTimestamp.pack-unpack/roundtrip", "%s -> %s" % (a[0], ires))
        return None
    if op == 407:
        if ts_valid(a[0]):
            if err:
                return ("C14/CdsShortTimestamp.__init__/refuses-valid", "%s -> %s" % (a[0], ires))
            return check_views("C14/CdsShortTimestamp.__init__", a[0], ires)
        return None
    if op == 405:
        t, td = a
        if not ts_valid(t) or td[0] < 0:
            return None
        total = t[0] * MSPD + t[1] + td[0] * MSPD + td[1] * 1000 + td[2] // 1000
        ed, ems = total // MSPD, total % MSPD
        if ed > 65535:
            if not err or code != 8:
                return ("C14/CdsShortTimestamp.__add__/overflow", "%s + %s: day count %d not refused with OverflowError: %s" % (t, td, ed, ires))
            return None
        if err:
            return ("C14/CdsShortTimestamp.__add__/refuses-valid", "%s + %s -> %s" % (t, td, ires))
        if ires[1] != [ed, ems]:
            return ("C14/CdsShortTimestamp.__add__/normalised-sum", "%s + %s = %s, integer arithmetic gives %s" % (t, td, ires[1], [ed, ems]))
        return check_views("C14/CdsShortTimestamp.__add__", [ed, ems], ires)
    if op == 417:
        t, tds = a
        if not ts_valid(t):
            return None
        total = t[0] * MSPD + t[1]
        for k in range(0, len(tds) - 2, 3):
            total += tds[k] * MSPD + tds[k + 1] * 1000 + tds[k + 2] // 1000
            if total // MSPD > 65535:
                if not err or code != 8:
                    return ("C14/CdsShortTimestamp.__add__/overflow", "%s += %s: not refused with OverflowError: %s" % (t, tds, ires))
                return None
        if err:
            return ("C14/CdsShortTimestamp.__add__/refuses-valid", "%s += %s -> %s" % (t, tds, ires))
        if ires[4] != [7]:
            return ("C14/CdsShortTimestamp.len_packed", "%s" % (ires,))
        return check_views("C14/CdsShortTimestamp.__add__", [total // MSPD, total % MSPD], ires)
    if op == 419:
        if err or ires[1] != [1, 1, 1]:
            return ("C14/CdsShortTimestamp.now/clock-reading", "now()/from_now()/from_current_time(): (stamp within the clock window, "
                    "normalised and packable, views are the reading) = %s" % (ires,))
        return None
    if op == 418:
        return _oracle_live(a, ires)
    if op in (406, 416):
        ud, sod, us = a[0]
        if not (UD_MIN <= ud <= UD_MAX):
            return None
        if err:
            return ("C14/CdsShortTimestamp.from_datetime/refuses-valid", "%s -> %s" % (a[0], ires))
        d, ms = ires[1]
        if d != ud + 4383:
            return ("C14/CdsShortTimestamp.from_datetime/day", "datetime %s: day %d, expected %d (ms %d)" % (a[0], d, ud + 4383, ms))
        exact = Fraction(sod * 1000000 + us, 1000)
        if (us % 1000 == 0 and ms != exact) or abs(ms - exact) >= 1:
            return ("C14/CdsShortTimestamp.from_datetime/millisecond", "datetime %s: ms %d, exact %s" % (a[0], ms, float(exact)))
        # the views of an instance made by from_datetime are those of the datetime itself
        tot_us = (ud * 86400 + sod) * 10 ** 6 + us
        if ires[3] != [tot_us] or abs(frac_of(ires[2]) - Fraction(tot_us, 10 ** 6)) > Fraction(1, 2 ** 20):
            return ("C14/CdsShortTimestamp.from_datetime/views", "datetime %s: views %s" % (a[0], ires[2:]))
        return None
    if op == 409:
        x = frac_of(a[0])
        if err:
            return ("C14/ms_of_today/raises", "%s -> %s" % (float(x), ires))
        r = ires[1][0]
        if not 0 <= r < MSPD:
            return ("C14/ms_of_today/range", "ms_of_today(%r) = %d is not a millisecond of a day" % (float(x), r))
        exact = x * 1000                      # exact rational milliseconds since the epoch
        fl_ = exact.numerator // exact.denominator
        ok = {fl_ % MSPD}
        # the product s * 1000 is rounded to a double (|s| < 2^31: half an ulp is at most 2^-12 ms):
        # next to a millisecond boundary the neighbouring millisecond is as good
        if exact - fl_ > 1 - Fraction(1, 2 ** 11):
            ok.add((fl_ + 1) % MSPD)
        if exact - fl_ < Fraction(1, 2 ** 11):
            ok.add((fl_ - 1) % MSPD)
        if r not in ok:
            return ("C14/ms_of_today/millisecond", "ms_of_today(%r) = %d, the millisecond of the day is %d" % (float(x), r, fl_ % MSPD))
        return None
    if op == 410:
        ud, ms = a[0]
        if err and code in (1, 2, 3) and not ts_valid([ud + 4383, ms]):
            return None         # a day count outside 0..65535: the unchanged constructor stores it and pack() fails; may be refused
        if err or ires[1] != [ud + 4383, ms] or ires[2] != [ud + 4383, ud - 4383]:
            return ("C14/convert_days", "%s -> %s" % (a[0], ires))
        return None
    if op == 411:
        if err or ires[1] != [int(a[0] == a[1])]:
            return ("C14/CdsShortTimestamp.__eq__", "%s -> %s" % (a, ires))
        return None
    return None


def _raw_bad(b):
    return len(b) < 7 or (b[0] // 16) % 8 != 4 or (b[0] // 4) % 2 != 0


def _oracle_live(a, ires):
    """History on one live object.  After every accepted read_from_raw the fields are the decoded pair and BOTH
    cached views are those of that pair -- whatever the receiver was (made with init_dt_unix_stamp=False, by
    from_datetime, already holding exactly that content, ...); a refused read changes nothing; an accepted addition
    gives the integer-arithmetic sum with views to match; pack() is the layout and changes nothing.  Not judged
    (outside the property text, see report): the views of an object made with the flag False before its first
    read / addition, the state an addition leaves behind when it is refused with OverflowError, negative
    timedeltas."""
    make = a[0]
    err = ires[0][0] == 1
    if make[0] == 4 and _raw_bad(make[1:]):
        if not err or ires[0][1] not in (1, 2, 3):
            return ("C14/CdsShortTimestamp.unpack/refusal", "short input or wrong P-field not refused with ValueError: %s -> %s" % (make[1:9], ires))
        return None
    if err:
        if ires[0][1] in (1, 2, 3) and make[0] in (0, 1, 4, 5) and not ts_valid(list(_made_fields(make))):
            return None         # fields outside day 0..65535 / millisecond 0..86399999: stored by the unchanged constructor, may be refused
        return ("C14/CdsShortTimestamp.__init__/refuses-valid", "construction %s raised %s" % (make, ires))
    ops = a[1:]
    if len(ires) != 1 + 3 + 4 * len(ops):
        return ("C14/adapter/history-shape", "%d lines for %d ops" % (len(ires), len(ops)))
    cur = list(_made_fields(make))
    prev = ires[1:4]
    if make[0] in (6, 7):
        if UD_MIN <= make[1] <= UD_MAX:
            tot_us = (make[1] * 86400 + make[2]) * 10 ** 6 + make[3]
            if prev[0] != cur or prev[2] != [tot_us]:
                return ("C14/CdsShortTimestamp.from_datetime/views", "datetime %s: %s" % (make[1:], prev))
    elif prev[0] != cur:
        return ("C14/CdsShortTimestamp.__init__/fields", "%s -> %s" % (make, prev[0]))
    elif make[0] in (0, 2, 4, 5) and ts_valid(cur):
        m = check_views("C14/CdsShortTimestamp.__init__", cur, [None] + prev)
        if m:
            return m
    for i, o in enumerate(ops):
        r, obs = ires[4 + 4 * i], ires[5 + 4 * i:8 + 4 * i]
        k = o[0]
        rerr = r[0] == 1
        if k in (1, 2, 4, 6):
            packable = 0 <= cur[0] <= 65535 and 0 <= cur[1] < 2 ** 32
            b = o[1:] if k != 4 else (layout(*cur) if packable else None)
            name = "read_from_raw" if k != 4 else "read_from_raw(self.pack())"
            if b is None or _raw_bad(b):
                if b is not None and (not rerr or r[1] not in (1, 2, 3)):
                    return ("C14/CdsShortTimestamp.read_from_raw/refusal", "step %d: short input or wrong P-field not refused with ValueError: %s -> %s" % (i, b[:8], r))
                if b is None and not rerr:
                    return ("C14/CdsShortTimestamp.pack/range", "step %d: out-of-range fields %s packed" % (i, cur))
                if obs != prev:
                    return ("C14/CdsShortTimestamp.read_from_raw/refused-but-changed", "step %d: the refused %s changed the object from %s to %s" % (i, name, prev, obs))
            else:
                if rerr and r[1] in (1, 2, 3) and ((b[3] * 256 + b[4]) * 256 + b[5]) * 256 + b[6] >= MSPD:
                    # a millisecond field no day has: the unchanged decoder stores it; refused instead, the object is as it was
                    if obs != prev:
                        return ("C14/CdsShortTimestamp.read_from_raw/refused-but-changed", "step %d: the refused %s changed the object from %s to %s" % (i, name, prev, obs))
                    prev = obs
                    continue
                if rerr:
                    return ("C14/CdsShortTimestamp.read_from_raw/refuses-valid", "step %d: %s of %s -> %s" % (i, name, b[:7], r))
                cur = [b[1] * 256 + b[2], ((b[3] * 256 + b[4]) * 256 + b[5]) * 256 + b[6]]
                if obs[0] != cur:
                    return ("C14/CdsShortTimestamp.read_from_raw/fields", "step %d: %s of %s left fields %s" % (i, name, b[:7], obs[0]))
                if cur[1] < MSPD:
                    m = check_views("C14/CdsShortTimestamp.read_from_raw", cur, [None] + obs)
                    if m:
                        return (m[0].replace("C14/as_", "C14/CdsShortTimestamp.read_from_raw/as_"),
                                "step %d: after %s of %s into the object %s made by %s: %s" % (i, name, b[:7], prev, make[:4], m[1]))
        elif k == 5:
            if 0 <= cur[0] <= 65535 and 0 <= cur[1] < 2 ** 32:
                if r != [0] + layout(*cur):
                    return ("C14/CdsShortTimestamp.pack/layout", "step %d: pack of %s = %s" % (i, cur, r))
            elif not rerr:
                return ("C14/CdsShortTimestamp.pack/range", "step %d: out-of-range fields %s packed to %s" % (i, cur, r))
            if obs != prev:
                return ("C14/CdsShortTimestamp.pack/changes-object", "step %d: pack() changed the object from %s to %s" % (i, prev, obs))
        elif k == 3:
            td = o[1:4]
            if ts_valid(cur) and td[0] >= 0:
                total = cur[0] * MSPD + cur[1] + td[0] * MSPD + td[1] * 1000 + td[2] // 1000
                ed, ems = total // MSPD, total % MSPD
                if ed > 65535:
                    if not rerr or r[1] != 8:
                        return ("C14/CdsShortTimestamp.__add__/overflow", "step %d: %s + %s: day count %d not refused with OverflowError: %s %s" % (i, cur, td, ed, r, obs[0]))
                    cur = list(obs[0])       # what a refused addition leaves behind is not judged
                    prev = obs
                    continue
                if rerr:
                    return ("C14/CdsShortTimestamp.__add__/refuses-valid", "step %d: %s + %s -> %s" % (i, cur, td, r))
                if obs[0] != [ed, ems]:
                    return ("C14/CdsShortTimestamp.__add__/normalised-sum", "step %d: %s + %s = %s, integer arithmetic gives %s" % (i, cur, td, obs[0], [ed, ems]))
                cur = [ed, ems]
                m = check_views("C14/CdsShortTimestamp.__add__", cur, [None] + obs)
                if m:
                    return m
            else:
                cur = list(obs[0])
                if not rerr and ts_valid(cur):
                    m = check_views("C14/CdsShortTimestamp.__add__", cur, [None] + obs)
                    if m:
                        return m
        prev = obs
    return None


def neighbours(case):
    op, a = case
    out = []
    if op in (400, 401, 405, 406, 407, 413):
        for k in range(len(a)):
            for i in range(len(a[k])):
                for dlt in (-1, 1, 1000, -1000):
                    l = [list(x) for x in a]
                    l[k][i] += dlt
                    if op == 406 and not (0 <= l[0][1] < 86400 and 0 <= l[0][2] < 10 ** 6):
                        continue
                    if op == 405 and not (0 <= l[1][1] < 86400 and 0 <= l[1][2] < 10 ** 6):
                        continue
                    out.append((op, l))
    if op in (402, 403, 404, 412):
        for i in range(min(7, len(a[0]))):
            for bit in range(8):
                l = list(a[0]); l[i] ^= 1 << bit; out.append((op, [l]))
    return out


def search_cases(broken, rng):
    """Inputs on which the pre-audited fault classes show (sign before 1970, carry at midnight,
    binary fractions, day rounding before 1970)."""
    out = [(407, [[4382, 1000]]), (405, [[0, 86399000], [0, 1, 0]]), (406, [[20000, 80000, 1000]]),
           (406, [[-1, 43200, 0]])]
    for _ in range(300):
        out.append((407, [[rng.randrange(0, 4383), rng.randrange(1, MSPD)]]))
        ms = rng.randrange(MSPD)
        rest = MSPD - ms
        out.append((405, [[rng.randrange(65535), ms], [0, rest // 1000, rest % 1000 * 1000]]))
        out.append((406, [[rng.randrange(UD_MIN, UD_MAX), rng.randrange(86400), rng.randrange(1000) * 1000]]))
        out.append((406, [[rng.randrange(UD_MIN, 0), rng.randrange(1, 86400), 0]]))
    return out


def _valid_stamps(rng):
    return [layout(rng.randrange(65536), rng.randrange(MSPD)) for _ in range(40)]


DECODERS = [
    {"op": 402, "name": "CdsShortTimestamp.unpack", "extra": [], "valid": _valid_stamps, "declared_len": lambda b: 7},
    {"op": 403, "name": "CdsShortTimestamp.unpack_from_raw", "extra": [], "valid": _valid_stamps, "declared_len": lambda b: 7},
    {"op": 404, "name": "CdsShortTimestamp.read_from_raw", "extra": [], "valid": _valid_stamps, "declared_len": lambda b: 7},
]
