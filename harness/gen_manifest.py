"""Writes MANIFEST.json from the table below (kept in one place so it stays valid)."""
import json, os
V = os.path.dirname(os.path.dirname(os.path.abspath(__file__)))
BASELINE = "cd /repo && /venv/bin/python -m pytest -ra -q -p no:cacheprovider --timeout=900 --continue-on-collection-errors"
CLAIMED = {
 "C01": ("5/C01", "All 2^48 headers and every out-of-range integer: Coq theorems (pack = independent layout, decode/encode mutually inverse, range refusal, id/psc words) over the model; model tied to /repo by exhaustive per-16-bit-word correspondence and regenerated constants.",
         "three 65,536-case kernel sweeps lifted to forall + lia; correspondence check (extracted model vs implementation)"),
}
NOT_YET = {}
TB = "Coq 8.16.1 kernel incl. vm_compute; hand-written Gallina model tied to /repo by the correspondence check (differential, exhaustive on finite leaf domains) and regenerated constants; extraction via ExtrOcamlBasic; OCaml driver; Python adapters; CPython/struct semantics as modelled in Base/Bytes.v. See DESIGN.md section 8."
def main():
    props = [json.loads(l) for l in open(os.path.join(V, "properties.jsonl"))]
    checks, na = [], []
    for p in props:
        i = p["id"]
        if i in CLAIMED:
            ref, text, tech = CLAIMED[i]
            checks.append({"property_id": i, "quick_cmd": "./check %s --tier quick" % i,
                           "thorough_cmd": "./check %s --tier thorough" % i,
                           "evidence_file": "/verif/evidence/%s.json" % i,
                           "replay_cmd_template": "./check %s --replay {path}" % i,
                           "engine": "coq-model+correspondence",
                           "level_claimed": {"category": "proof", "text": text, "design_ref": ref},
                           "level_note": TB, "technique": "machine-checked proof in Coq 8.16.1: " + tech})
        else:
            na.append({"property_id": i, "reason": NOT_YET.get(i, "model and theorems not built yet in this development (planned, see DESIGN.md section 10); no claim is made until a check exists")})
    m = {"version": 1, "setup_cmd": "./setup.sh",
         "hooks": {"guard": "SPACEPACKETS_VERIF", "enable": "none needed: every anchor is directly callable; no hook commits exist",
                   "baseline_off_cmd": BASELINE, "source_commits": [], "add_only": True},
         "engines": [{"name": "coq-model+correspondence", "path": "/verif/check", "serves_properties": sorted(CLAIMED),
                      "kind_free_text": "Coq 8.16.1 theorems about a hand-written Gallina model; extracted OCaml model run against /repo's working tree on every run"}],
         "checks": checks, "not_applicable": na,
         "notes": "Every check: build gate (full make, hygiene grep, Props/<ID>.v recompiled with Print Assumptions parsed), regenerated constants with reflexivity agreement lemmas, correspondence model vs implementation, property oracle on the implementation. See DESIGN.md."}
    json.dump(m, open(os.path.join(V, "MANIFEST.json"), "w"), indent=1)
if __name__ == "__main__":
    main()
