"""Writes MANIFEST.json from the table below (kept in one place so it stays valid)."""
import json, os
V = os.path.dirname(os.path.dirname(os.path.abspath(__file__)))
BASELINE = "cd /repo && /venv/bin/python -m pytest -ra -q -p no:cacheprovider --timeout=900 --continue-on-collection-errors"
CLAIMED = {
 "C01": ("5/C01", "All 2^48 headers and every out-of-range integer: Coq theorems (pack = independent layout, decode/encode mutually inverse, range refusal, id/psc words) over the model; model tied to /repo by exhaustive per-16-bit-word correspondence and regenerated constants.",
         "three 65,536-case kernel sweeps lifted to forall + lia; correspondence check (extracted model vs implementation)"),
 "C02": ("5/C02", "For all field tuples and application data of any length: pack = PUS-C TC layout with bitwise CRC-16, construct->pack->unpack (any suffix) returns an equal TC with identical fields that re-packs identically, space-packet view identical, decoder proved equal to the standard's field table on EVERY octet string, too-small declared length rejected. Model tied to /repo by structured/malformed/garbage correspondence streams.",
         "decoder-equals-spec theorem on explicit cells, CRC residue theorem (65,536-state sweep), slice lemmas; correspondence check"),
 "C03": ("5/C03", "As C02 for telemetry with timestamps of ANY length (decoder configuration = timestamp length) and the service-17 wrapper; declared length too small for header+timestamp+CRC rejected (two defects found and repaired).",
         "decoder-equals-spec theorem, CRC residue, slice lemmas; correspondence check"),
 "C04": ("5/C04", "For messages of any length: CRC residue, linearity and detection of every error pattern confined to 16 consecutive bit positions (all single-bit flips and bursts <= 16 bits) are theorems about the bitwise CRC; hence every such corruption of a packed PUS TC/TM (any timestamp length) or CRC-flagged File Data PDU outside the length-determining fields is rejected with a documented error and check_pus_crc agrees; pack output always passes. The CRC-flag-bit flip is proved to be accepted (protocol-inherent) and recorded as a known finding. Directive PDUs: via the generic CFDP lemma as their decoders are added.",
         "linearity of the register update by a 65,536-case basis sweep, residue sweep, complete sweeps of 1/2/3-octet error windows (8 x 65,535), lifted by induction over message length; crcmod tied exhaustively on the linear basis; fault enumeration on the implementation"),
 "C05": ("5/C05", "For every flag combination, width pair in {1,2,4,8}^2, ID/sequence value and data-field length PduHeader.pack is proved equal to the 727.0-B-5 layout (length 4+2*idw+seqw) and PduHeader.unpack equal, on every octet string, to the standard's decoder with the documented refusals; constructor and setters accept exactly the documented ranges. Tied by exhaustive correspondence over 2^7 x 16 configurations and all 2^16 (octet0, octet3) pairs.",
         "sweeps of octets 0 and 3 + be_encode lemmas for all widths; correspondence check"),
 "C06": ("5/C06", "For each of the seven directive kinds (EOF, Finished, ACK, Metadata, NAK, Prompt, Keep Alive), every valid parameter set and every header configuration (CRC on/off, 32/64-bit sizes, all ID widths, both modes): pack = 727.0-B-5 layout with CRC trailer iff flagged, data-field length and packet_len = packed length, unpack(pack ++ suffix) returns an equal PDU with identical parameters that re-packs identically (TLV / option / segment-request lists of ANY length by induction), oversize values make packing fail rather than truncate. 27 defects in these seven files were demonstrated and repaired.",
         "generic decoder-prelude lemma layer over the proved header codec, list inductions with generalised decode-the-rest lemmas and fuel-adequacy lemmas, CRC residue; correspondence exhaustive over 2^5 flags x 16 width pairs x kinds and all enum members"),
 "C07": ("5/C07", "FileDataPdu.pack proved equal to header ++ optional metadata ++ offset ++ data ++ CRC with the data-field length covering all of it; construct->pack->unpack (any suffix) returns exactly the same offset, metadata and file data in an equal PDU that re-packs identically; every accepted octet string re-encodes to its own octets; metadata > 63 refused; max-segment formula exact (four defects repaired).",
         "slice/append lemmas over the proved header codec, CRC residue theorem; correspondence check"),
 "C08": ("5/C08", "For every TLV type and value, every parameter tuple of the six concrete TLVs and every (class, foreign type) pair: pack = 727.0-B-5 layout, decode(pack ++ suffix) returns the parameters, consumed/reported lengths len+2 / len+1, > 255 octets refused, foreign types refused with TlvTypeMissmatch (eight defects repaired).",
         "slice and list lemmas, 256-case sweeps for nibble fields, finite enum case analysis; correspondence check exhaustive on two-octet TLVs and 1-2 octet UTF-8"),
 "C09": ("5/C09", "Per self-delimiting unit (space packet header, PUS TC/TM, byte fields, CFDP header, LV/TLV and concrete TLVs, reserved messages, USLP headers/frames, File Data PDU, ...): theorems that decoding depends only on the declared octets (no_overread), that any suffix is irrelevant, and that back-to-back units split by the reported lengths; for PDUs nothing beyond the declared length is folded in. The harness appends look-alike continuations (second unit, TLV-/segment-request-shaped octets) to valid units of every registered decoder. Entry points without a theorem yet are explored only (listed in the evidence).",
         "decoder-equals-spec and slice/firstn lemmas per unit, collected from Proofs/*.v (Props/C09.v generated and re-checked); suffix correspondence + oracle on the implementation"),
 "C10": ("5/C10", "Per decoder entry point: totality over EVERY octet string (result is a value or a documented error class; the model carries explicit IndexError/struct.error/TypeError/... outcomes at every indexing, unpacking and enum site, so this is a real obligation) and rejection of every strict prefix of a packed unit; loops under fuel with fuel-sufficiency lemmas. The harness drives every truncation, leading-octet substitution and garbage through every registered decoder with the exception class compared. Entry points without a theorem yet are explored only.",
         "case analysis of decoder guards on explicit cells (decoder = spec theorems), collected from Proofs/*.v (Props/C10.v generated and re-checked); targeted-malformed and garbage correspondence"),
 "C11": ("5/C11", "Per mutable class: after ANY sequence of documented setter calls the object equals a freshly constructed one with the final values (up to the cached CRC), hence reported length = packed length = length field, pack is idempotent, constructors return the caller's configuration unchanged (modelled as an explicit caller-config-after component). Aliasing beyond that explicit component is exercised by the adapters, not proved.",
         "invariant 'cached length = computed length' preserved by every setter, induction over operation lists; setter-history correspondence with the caller's objects compared before/after"),
 "C12": ("5/C12", "For every packed PDU of the eight kinds in every header configuration from_raw returns that kind, equal to the original and re-packing identically; the inspectors report the packed type bit and directive code; for every buffer the factory accepts the holder's typed accessors succeed for the returned class and raise TypeError for the other seven (8x8 table).",
         "composition of the C05/C06/C07 theorems through a head-of-layout lemma per kind, 8x8 case table; correspondence with exhaustive accessor table and directive-octet sweeps"),
 "C13": ("5/C13", "For every octet stream, every set of cut positions and every interleaving of append/parse calls the (repaired) parser returns what one parse over the whole stream returns; registered packets come back complete, once, in order with the queue holding exactly the unconsumed remainder; junk is skipped. Model proved equal to an independent suffix-walk spec.",
         "refinement to spec_stream, strong induction on the suffix, induction over operation histories; correspondence on all 2^(n-1) fragmentations of streams <= 16 octets"),
 "C14": ("5/C14", "For all 65,536 x 86,400,000 (day, ms) pairs pack = 0x40 ++ be16 day ++ be32 ms and unpack inverts it, refusals characterised for every octet string; from_datetime yields the day and floor-millisecond of the instant for every datetime; __add__ equals integer arithmetic on total milliseconds, normalised, OverflowError iff day > 65535, also over histories; as_unix_seconds within 2^-21 s of the exact instant and as_datetime exact at microsecond resolution, also before 1970 (five defects repaired).",
         "lia / Euclidean-division proofs over an integer model, 256-case P-field sweep, integer model of binary64 round-to-nearest-even and of CPython's float-to-microsecond rounding with a half-ulp bound (no real-number axioms); bit-exact correspondence"),
 "C15": ("5/C15", "A request ID's packed, 32-bit and decoded forms are exactly the first four header octets for all 2^32 values, equal/hash-equal iff the 32 bits agree; for every subservice 1..8, step/code width in {1,2,4,8}, value, failure data and timestamp length a service-1 report's source data is request ID ++ step ID ++ failure code ++ failure data and decoding with matching widths returns the same parameters, re-packs identically and compares equal; mismatching parameter sets raise InvalidVerifParams; only 8/16/32/64-bit enumerations exist (two defects repaired).",
         "shift/mask-to-arithmetic lemmas + lia on top of the C01 word sweeps, 8-way subservice case split; correspondence exhaustive on both request-ID words"),
 "C16": ("5/C16", "For every history of add_tc/add_tm/remove_entry/remove_completed_entries the tracker model refines the documented state machine (total map request-id -> status + transition table) with unique keys; unknown id, duplicates, isolation, failed-step stickiness, completed flag, all-received condition and monotonicity, step list, removals.",
         "case analysis per subservice, association-list invariants, induction over operation lists; correspondence on the complete 162x11 transition table"),
 "C17": ("5/C17", "USLP primary (7+n octets, n=0..7) and truncated headers pack to exactly the 732.1-B-2 layout and round-trip for all field tuples, out-of-range IDs refused; transfer frame = header ++ insert zone ++ TFDF header ++ data zone ++ OCF ++ FECF, len and updated frame-length field = packed size, unpack under matching managed parameters returns the frame for every option combination and suffix, mismatching parameters / strict prefixes raise the USLP errors (four defects repaired, one recorded).",
         "kernel sweeps of header octet groups, be_encode induction for the variable-width count, one generic frame-body lemma; correspondence check"),
 "C18": ("5/C18", "For each of the nine reserved message kinds and all parameters the message packs to 'cfdp' ++ type ++ fields, and unpack -> is_reserved -> to_reserved -> get_* returns the parameters and classification; is_reserved answers True/False for any content; parsers raise only documented errors (four defects repaired).",
         "slice/list lemmas, finite enum case analysis; correspondence check"),
 "C19": ("5/C19", "Both providers return i mod 2^w on the i-th call for every width and call count; the file provider refines the abstract counter under every history with a new instance at any inter-call point, leaves a valid count after every call, accepts exactly numerals in range (ValueError otherwise), FileNotFoundError on a missing file. Non-ASCII file content explored only; a crash inside one write is not expressible.",
         "file as explicit ASCII content state, stdlib decimal round-trip lemmas, induction over operation lists; correspondence against real temporary files"),
 "C20": ("5/C20", "For every integer value and width UnsignedByteField, the sized decoders, ByteFieldGenerator and the conversion helpers accept exactly widths {0,1,2,4,8} and 0 <= v < 256^w (ValueError otherwise), produce the big-endian encoding with coherent views, round-trip through octets, and keep this under any assignment sequence.",
         "generic be_encode/be_decode lemmas (no sweeps: full 32/64-bit ranges); correspondence exhaustive on widths 0-2"),
}
import os as _os
CLAIMED = {k: v for k, v in CLAIMED.items() if _os.path.exists(_os.path.join(V, "harness", "props", k.lower() + ".py")) and _os.path.exists(_os.path.join(V, "coq", "theories", "Props", k + ".v"))}
NOT_YET = {}
TB = "Coq 8.16.1 kernel incl. vm_compute; hand-written Gallina model tied to /repo by the correspondence check (differential, exhaustive on finite leaf domains) and regenerated constants; extraction via ExtrOcamlBasic; OCaml driver; Python adapters; CPython/struct semantics as modelled in Base/Bytes.v. See DESIGN.md section 8."
def main():
    props = [json.loads(l) for l in open(os.path.join(V, "properties.jsonl"))]
    checks, na = [], []
    for p in props:
        i = p["id"]
        if i in CLAIMED:
            ref, text, tech = CLAIMED[i]
            checks.append({"property_id": i, "quick_cmd": "./check %s --tier quick" % i,
                           "thorough_cmd": "./check %s --tier thorough" % i,
                           "evidence_file": "/verif/evidence/%s.json" % i,
                           "replay_cmd_template": "./check %s --replay {path}" % i,
                           "engine": "coq-model+correspondence",
                           "level_claimed": {"category": "proof", "text": text, "design_ref": ref},
                           "level_note": TB, "technique": "machine-checked proof in Coq 8.16.1: " + tech})
        else:
            na.append({"property_id": i, "reason": NOT_YET.get(i, "model and theorems not built yet in this development (planned, see DESIGN.md section 10); no claim is made until a check exists")})
    m = {"version": 1, "setup_cmd": "./setup.sh",
         "hooks": {"guard": "SPACEPACKETS_VERIF", "enable": "none needed: every anchor is directly callable; no hook commits exist",
                   "baseline_off_cmd": BASELINE, "source_commits": [], "add_only": True},
         "engines": [{"name": "coq-model+correspondence", "path": "/verif/check", "serves_properties": sorted(CLAIMED),
                      "kind_free_text": "Coq 8.16.1 theorems about a hand-written Gallina model; extracted OCaml model run against /repo's working tree on every run"}],
         "checks": checks, "not_applicable": na,
         "notes": "Every check: build gate (full make, hygiene grep, Props/<ID>.v recompiled with Print Assumptions parsed), regenerated constants with reflexivity agreement lemmas, correspondence model vs implementation, property oracle on the implementation. See DESIGN.md."}
    json.dump(m, open(os.path.join(V, "MANIFEST.json"), "w"), indent=1)
if __name__ == "__main__":
    main()
