"""Core of the check: build gate, regenerated enum tie, correspondence between the
extracted Coq model and the implementation in /repo's working tree, property oracle,
verdict protocol, evidence.  See DESIGN.md section 3."""
import hashlib, json, os, random, re, shutil, subprocess, sys, time, traceback, importlib, fcntl
from concurrent.futures import ThreadPoolExecutor

VERIF = os.path.dirname(os.path.dirname(os.path.abspath(__file__)))
COQ = os.path.join(VERIF, "coq")
BUILD = os.path.join(VERIF, "build")
DRIVER = os.path.join(BUILD, "driver")
REPO = os.environ.get("VERIF_REPO", "/repo")
EVID = os.environ.get("VERIF_EVIDENCE_DIR", os.path.join(VERIF, "evidence"))

# when set, the adapters pass plain ints where the library's signatures name an IntEnum (a caller
# reading flags from a configuration file does exactly that; comparing members by identity breaks it)
PLAIN_INTS = False


def enum_or_int(cls, v):
    """the library's own enum member where one exists (what a caller would usually pass) -- or, for every
    fifth case of a stream, the equal plain int -- else the bare int"""
    try:
        m = cls(v)
    except ValueError:
        return v
    return int(v) if PLAIN_INTS else m


POSITIONAL = False
_PARAM_ORDER = None


def build(fn, **kw):
    """Call a constructor / class method of the library.  Usually by keyword; for every seventh case of a stream the
    leading arguments are passed POSITIONALLY in the documented order - the order recorded from the unchanged tree in
    harness/param_order.json (tools/gen_param_order.py), never the live signature."""
    global _PARAM_ORDER
    if not POSITIONAL:
        return fn(**kw)
    if _PARAM_ORDER is None:
        try:
            _PARAM_ORDER = json.load(open(os.path.join(os.path.dirname(__file__), "param_order.json")))
        except Exception:
            _PARAM_ORDER = {}
    owner = getattr(fn, "__self__", None)
    key = fn.__name__ if isinstance(fn, type) else ("%s.%s" % (owner.__name__, fn.__name__) if isinstance(owner, type) else None)
    order = _PARAM_ORDER.get(key)
    if not order:
        return fn(**kw)
    kw = dict(kw)
    args = []
    for n in order:
        if n not in kw:
            break
        args.append(kw.pop(n))
    return fn(*args, **kw)


# ---------------------------------------------------------------- exceptions
E_VALUE, E_TOOSHORT, E_UNICODE, E_CRC, E_VERSION, E_TLV, E_VERIFPARAMS, E_OVERFLOW, E_FNF = 1, 2, 3, 4, 5, 6, 7, 8, 9
E_TYPE, E_INDEX, E_STRUCT, E_ATTR, E_KEY, E_ASSERT, E_FUEL, E_OTHER = 20, 21, 22, 23, 24, 25, 98, 99
UNDOCUMENTED = {E_TYPE, E_INDEX, E_STRUCT, E_ATTR, E_KEY, E_ASSERT, E_FUEL, E_OTHER}
ERR_NAMES = {1: "ValueError", 2: "TooShort(ValueError)", 3: "UnicodeDecodeError(ValueError)", 4: "CRC error",
             5: "UnsupportedCfdpVersion", 6: "TlvTypeMissmatch", 7: "InvalidVerifParams", 8: "OverflowError",
             9: "FileNotFoundError", 20: "TypeError", 21: "IndexError", 22: "struct.error", 23: "AttributeError",
             24: "KeyError", 25: "AssertionError", 97: "bad-op", 98: "FUEL", 99: "other"}


def classify_exception(e):
    import struct
    name = type(e).__name__
    mro = [c.__name__ for c in type(e).__mro__]
    if name in ("InvalidTcCrc16", "InvalidTmCrc16", "InvalidCrc"):
        return E_CRC
    if name == "UnsupportedCfdpVersion":
        return E_VERSION
    if name == "TlvTypeMissmatch":
        return E_TLV
    if name == "InvalidVerifParams":
        return E_VERIFPARAMS
    if name.startswith("Uslp"):
        order = ["UslpInvalidRawPacketOrFrameLen", "UslpInvalidFrameHeader", "UslpTruncatedFrameNotAllowed",
                 "UslpInvalidConstructionRules", "UslpFhpVhopFieldMissing", "UslpVersionMissmatch",
                 "UslpTypeMissmatch", "UslpChecksumError"]
        return 100 + (order.index(name) if name in order else 50)
    if isinstance(e, struct.error):
        return E_STRUCT
    if "BytesTooShortError" in mro or "TmSrcDataTooShortError" in mro:
        return E_TOOSHORT
    if isinstance(e, UnicodeDecodeError):
        return E_UNICODE
    if isinstance(e, ValueError):
        return E_VALUE
    if isinstance(e, OverflowError):
        return E_OVERFLOW
    if isinstance(e, FileNotFoundError):
        return E_FNF
    if isinstance(e, TypeError):
        return E_TYPE
    if isinstance(e, IndexError):
        return E_INDEX
    if isinstance(e, AttributeError):
        return E_ATTR
    if isinstance(e, KeyError):
        return E_KEY
    if isinstance(e, AssertionError):
        return E_ASSERT
    return E_OTHER


def canon_code(c):
    """TooShort / Unicode are refinements of ValueError: compared as VALUE."""
    return E_VALUE if c in (E_TOOSHORT, E_UNICODE) else c


def is_err(res):
    return len(res) >= 1 and len(res[0]) >= 1 and res[0][0] == 1


def err_code(res):
    return res[0][1] if is_err(res) else None


def canon_result(res):
    if is_err(res):
        return [[1, canon_code(res[0][1])]]
    return res


def verdict3(res):
    if not is_err(res):
        return "ok"
    return "undoc:%d" % res[0][1] if res[0][1] in UNDOCUMENTED or res[0][1] == 97 else "doc"


_MV_OPS = None


def mv_ops():
    global _MV_OPS
    if _MV_OPS is None:
        try:
            _MV_OPS = json.load(open(os.path.join(os.path.dirname(__file__), "mv_ops.json")))
        except Exception:
            _MV_OPS = {}
    return _MV_OPS


NO_LIVE_PROBE_OPS = set()  # ops whose cases run for seconds / create 10^4 objects: the profiler-based probes skip them
NO_THREAD_OPS = set()     # ops whose ADAPTER is not thread-safe (warnings.catch_warnings edits process-wide filters)


def run_impl(fn, op, args):
    """Run an implementation adapter, marshal exceptions."""
    try:
        r = fn(op, args)
        return [[0]] + [list(map(int, x)) for x in r]
    except BaseException as e:  # noqa
        if isinstance(e, (KeyboardInterrupt, SystemExit, MemoryError)):
            raise
        return [[1, classify_exception(e)]]


# ---------------------------------------------------------------- model driver
def fmt_int(v):
    v = int(v)
    return format(v, "x") if v >= 0 else "-" + format(-v, "x")


def fmt_case(op, args):
    return fmt_int(op) + "|" + ";".join(",".join(fmt_int(v) for v in l) for l in args)


def parse_result(line):
    line = line.rstrip("\n")
    if line == "":
        return [[]]
    return [[int(t, 16) for t in l.split(",")] if l != "" else [] for l in line.split(";")]


def run_model(cases, jobs=1):
    """cases: list of (op, args).  Returns list of results (list of int lists)."""
    if not cases:
        return []
    size = sum(sum(len(l) for l in a) for _, a in cases)
    jobs = max(1, min(jobs, max((len(cases) + 1999) // 2000, size // 200000), len(cases)))
    chunks = [cases[i::jobs] for i in range(jobs)]

    def work(chunk):
        inp = "\n".join(fmt_case(op, a) for op, a in chunk) + "\n"
        p = subprocess.run([DRIVER], input=inp.encode(), stdout=subprocess.PIPE, stderr=subprocess.PIPE)
        if p.returncode != 0:
            raise RuntimeError("model driver failed: " + p.stderr.decode()[:500])
        out = p.stdout.decode().split("\n")
        if out and out[-1] == "":
            out.pop()
        if len(out) != len(chunk):
            raise RuntimeError("model driver returned %d lines for %d cases" % (len(out), len(chunk)))
        return [parse_result(l) for l in out]

    with ThreadPoolExecutor(max_workers=jobs) as ex:
        parts = list(ex.map(work, chunks))
    res = [None] * len(cases)
    for j, part in enumerate(parts):
        res[j::jobs] = part
    return res


# ---------------------------------------------------------------- build gate
FORBIDDEN = re.compile(r"\b(Admitted|admit|Axiom|Axioms|Parameter|Parameters|Conjecture|Hypothesis|Hypotheses|Variable|Variables)\b|Unset\s+Guard|bypass_check|Admit\s+Obligations|type-in-type|impredicative-set|Unset\s+Positivity|Unset\s+Universe")


def strip_comments(s):
    out, depth, i = [], 0, 0
    while i < len(s):
        if s.startswith("(*", i):
            depth += 1; i += 2
        elif s.startswith("*)", i) and depth:
            depth -= 1; i += 2
        else:
            if depth == 0:
                out.append(s[i])
            i += 1
    return "".join(out)


def hygiene():
    """No Axiom/Parameter/Admitted/... anywhere in the development.  Variable / Hypothesis /
    Context are allowed only inside a Section (where they are discharged at End)."""
    bad = []
    for root, _, files in os.walk(os.path.join(COQ, "theories")):
        for f in files:
            if f.endswith(".v"):
                src = strip_comments(open(os.path.join(root, f)).read())
                sections = set(re.findall(r"\bSection\s+([A-Za-z0-9_']+)\s*\.", src))
                for m in FORBIDDEN.finditer(src):
                    w = m.group(0)
                    if w in ("Variable", "Variables", "Hypothesis", "Hypotheses"):
                        before = src[:m.start()]
                        opened = len(re.findall(r"\bSection\s+[A-Za-z0-9_']+\s*\.", before))
                        closed = sum(1 for n in re.findall(r"\bEnd\s+([A-Za-z0-9_']+)\s*\.", before) if n in sections)
                        if opened > closed:
                            continue
                    bad.append("%s: %s" % (os.path.join(root, f), w))
    return bad


def ensure_build(log):
    os.makedirs(BUILD, exist_ok=True)
    t = time.time()
    p = subprocess.run([os.path.join(VERIF, "setup.sh")], stdout=subprocess.PIPE, stderr=subprocess.STDOUT)
    log("build gate: setup.sh rc=%d (%.1fs)" % (p.returncode, time.time() - t))
    return p.returncode == 0, p.stdout.decode()[-3000:]


def coqc(scratch, vfile, extra_q=()):
    cmd = ["timeout", "600", "coqc", "-Q", os.path.join(COQ, "theories"), "SP"]
    for d, n in extra_q:
        cmd += ["-Q", d, n]
    cmd += ["-w", "-notation-overridden,-deprecated-hint-without-locality,-deprecated-syntactic-definition",
            "-o", os.path.join(scratch, os.path.basename(vfile) + "o"), vfile]
    p = subprocess.run(cmd, stdout=subprocess.PIPE, stderr=subprocess.STDOUT, cwd=scratch)
    return p.returncode, p.stdout.decode()


ALLOWED_AXIOMS = {
    # standard-library axioms that may appear (named in DESIGN.md section 8)
    "ClassicalDedekindReals.sig_forall_dec", "ClassicalDedekindReals.sig_not_dec",
    "FunctionalExtensionality.functional_extensionality_dep", "functional_extensionality_dep",
    "Classical_Prop.classic", "classic",
}


def _vo_stamp():
    """newest modification time of any compiled file of the development"""
    m = 0.0
    for root, _, files in os.walk(os.path.join(COQ, "theories")):
        for f in files:
            if f.endswith(".vo"):
                m = max(m, os.path.getmtime(os.path.join(root, f)))
    return m


def cached_props_compile(scratch, vfile):
    """coqc of a Props file with its Print Assumptions output.  The output is cached under
    build/props keyed by the file's content hash and is reused only while no .vo of the development
    is newer than the cache entry (any rebuild of a dependency invalidates it)."""
    cdir = os.path.join(BUILD, "props")
    os.makedirs(cdir, exist_ok=True)
    key = hashlib.sha1(open(vfile, "rb").read()).hexdigest()[:16]
    cf = os.path.join(cdir, os.path.basename(vfile) + "." + key + ".out")
    if os.path.exists(cf) and os.path.getmtime(cf) >= _vo_stamp():
        return 0, open(cf).read()
    rc, out = coqc(scratch, vfile)
    if rc == 0:
        for f in os.listdir(cdir):
            if f.startswith(os.path.basename(vfile) + "."):
                os.remove(os.path.join(cdir, f))
        open(cf, "w").write(out)
    return rc, out


def check_props_file(pid, scratch):
    """Re-compile Props/<ID>.v (and Props/<ID>_*.v) against the compiled development, parse
    Print Assumptions."""
    import glob
    pdir = os.path.join(COQ, "theories", "Props")
    files = [os.path.join(pdir, pid + ".v")] + sorted(glob.glob(os.path.join(pdir, pid + "_*.v")))
    res = {"file": files, "theorems": [], "rc": 0, "closed": 0, "axioms": [], "problems": [], "n_print": 0}
    for vfile in files:
        if not os.path.exists(vfile):
            res["problems"].append("%s missing" % vfile); continue
        src = strip_comments(open(vfile).read())
        names = re.findall(r"\b(?:Theorem|Lemma|Corollary)\s+([A-Za-z0-9_']+)", src)
        n_print = len(re.findall(r"Print\s+Assumptions", src))
        rc, out = cached_props_compile(scratch, vfile)
        res["theorems"] += names
        res["n_print"] += n_print
        if rc != 0:
            res["rc"] = rc
            res["problems"].append("%s does not compile: %s" % (os.path.basename(vfile), out[-1500:]))
            continue
        res["closed"] += len(re.findall(r"Closed under the global context", out))
        axioms = set(res["axioms"])
        for m in re.finditer(r"^([A-Za-z0-9_.']+)\s*:", out, re.M):
            axioms.add(m.group(1))
        axioms.discard("Axioms")
        res["axioms"] = sorted(axioms)
        if n_print < len(names):
            res["problems"].append("a theorem of %s lacks Print Assumptions" % os.path.basename(vfile))
    bad = [a for a in res["axioms"] if a not in ALLOWED_AXIOMS and not a.startswith(("PrimFloat.", "Uint63.", "PrimInt63.", "FloatOps", "FloatAxioms", "Float"))]
    if bad:
        res["problems"].append("unexpected assumptions: %s" % bad)
    return res


# ---------------------------------------------------------------- regenerated tie
def resolve(expr):
    mod, _, attr = expr.partition(":")
    m = importlib.import_module(mod)
    v = m
    for part in attr.split("."):
        v = getattr(v, part)
    return int(v)


def enums_tie(pid, enums, scratch):
    """enums: list of (python 'module:attr', coq model qualified name).  Regenerates
    Gen/Enums.v from the live package and compiles the agreement lemmas."""
    if not enums:
        return {"n": 0, "problems": []}
    gen = os.path.join(scratch, "gen")
    os.makedirs(gen, exist_ok=True)
    lines = ["From Coq Require Import ZArith.", "Open Scope Z_scope."]
    agree = ["From Coq Require Import ZArith.", "From Gen Require Import Enums.", "Open Scope Z_scope."]
    mods = sorted({c.rsplit(".", 1)[0] for _, c in enums})
    for m in mods:
        agree.append("Require %s." % m)
    problems = []
    for i, (py, cq) in enumerate(enums):
        try:
            v = resolve(py)
        except Exception as e:  # constant vanished
            problems.append({"lemma": "agree_%d" % i, "python": py, "coq": cq, "error": repr(e)})
            continue
        lines.append("Definition g%d : Z := (%d)%%Z. (* %s *)" % (i, v, py))
        agree.append("Lemma agree_%d : g%d = %s. Proof. reflexivity. Qed." % (i, i, cq))
    open(os.path.join(gen, "Enums.v"), "w").write("\n".join(lines) + "\n")
    rc, out = coqc(gen, os.path.join(gen, "Enums.v"), [(gen, "Gen")])
    if rc != 0:
        problems.append({"lemma": "Enums.v", "error": out[-500:]})
        return {"n": len(enums), "problems": problems}
    # compile agreement lemmas one file; on failure find which
    open(os.path.join(gen, "Agree.v"), "w").write("\n".join(agree) + "\n")
    rc, out = coqc(gen, os.path.join(gen, "Agree.v"), [(gen, "Gen")])
    if rc != 0:
        # locate failing lemmas individually
        for i, (py, cq) in enumerate(enums):
            one = agree[:3 + len(mods)] + ["Lemma agree_%d : g%d = %s. Proof. reflexivity. Qed." % (i, i, cq)]
            open(os.path.join(gen, "One.v"), "w").write("\n".join(one) + "\n")
            rc1, out1 = coqc(gen, os.path.join(gen, "One.v"), [(gen, "Gen")])
            if rc1 != 0:
                try:
                    v = resolve(py)
                except Exception:
                    v = None
                problems.append({"lemma": "agree_%s" % cq, "python": py, "coq": cq, "live_value": v})
    return {"n": len(enums), "problems": problems}


# ---------------------------------------------------------------- findings
def load_known():
    out = {"findings": [], "fixed": []}
    paths = [os.path.join(VERIF, "known_findings.json")]
    d = os.path.join(VERIF, "known_findings.d")
    if os.path.isdir(d):
        paths += sorted(os.path.join(d, f) for f in os.listdir(d) if f.endswith(".json"))
    for p in paths:
        if os.path.exists(p):
            j = json.load(open(p))
            out["findings"] += j.get("findings", [])
            out["fixed"] += j.get("fixed", [])
    return out


# ---------------------------------------------------------------- main check
class Check:
    def __init__(self, prop, tier, seed):
        self.prop = prop
        self.pid = prop.ID
        self.tier = tier
        self.seed = seed
        self.t0 = time.time()
        self.lines = []
        self.scratch = os.path.join(BUILD, "run-%d" % os.getpid())
        self.jobs = 16 if tier == "thorough" else 8
        self.probe_b = {}
        self.thread_cases = {}

    def log(self, s):
        self.lines.append(s)
        print("[%s] %s" % (self.pid, s), flush=True)

    def write_replay(self, payload):
        d = os.path.join(EVID, "replay")
        os.makedirs(d, exist_ok=True)
        h = hashlib.sha1(json.dumps(payload, sort_keys=True, default=str).encode()).hexdigest()[:12]
        p = os.path.join(d, "%s-%s.json" % (self.pid, h))
        json.dump(payload, open(p, "w"), indent=1, default=str)
        return p

    def run(self):
        prop, pid = self.prop, self.pid
        rng = random.Random(self.seed)
        if os.path.exists(self.scratch):
            shutil.rmtree(self.scratch)
        os.makedirs(self.scratch)
        violations = []      # (signature, message, replay payload, found_input: bool)
        broken = []          # proof obligations / correspondence that no longer check
        cov = {"streams": {}, "err_histogram": {}, "samples": [], "exhaustive_streams": []}
        try:
            ok, out = ensure_build(self.log)
            bad = hygiene()
            if bad:
                broken.append({"kind": "hygiene", "detail": bad[:10]})
            if not ok:
                broken.append({"kind": "build", "detail": out[-1500:]})
                props = {"theorems": [], "closed": 0, "axioms": [], "problems": ["build failed"], "n_print": 0}
            else:
                props = check_props_file(pid, self.scratch)
                for pr in props["problems"]:
                    broken.append({"kind": "theorem", "detail": pr})
            self.log("theorems: %d stated, %d closed under the global context, axioms=%s" %
                     (len(props["theorems"]), props["closed"], props["axioms"]))
            tie = enums_tie(pid, getattr(prop, "ENUMS", []), self.scratch) if ok else {"n": 0, "problems": []}
            for pr in tie["problems"]:
                broken.append({"kind": "agreement", "detail": pr})
            self.log("regenerated constants: %d agreement lemmas, %d broken" % (tie["n"], len(tie["problems"])))

            # ---- correspondence + oracle
            n_eval = 0
            distinct = set()
            n_oracle = 0
            mismatches = []
            oracle_fail = []
            if ok:
                for sname, mode, cases in prop.streams(self.tier, rng):
                    cases = list(cases)
                    t = time.time()
                    mres = run_model(cases, self.jobs)
                    ires = []
                    for k_, (op, a) in enumerate(cases):
                        globals()["PLAIN_INTS"] = (k_ % 5 == 4)
                        globals()["POSITIONAL"] = (k_ % 7 == 6)
                        ires.append(run_impl(prop.impl, op, a))
                    globals()["PLAIN_INTS"] = False
                    globals()["POSITIONAL"] = False
                    nm = 0
                    for c, m, i in zip(cases, mres, ires):
                        n_eval += 1
                        key = (c[0], tuple(tuple(x) for x in c[1]))
                        if not (is_err(i) and err_code(i) == E_TOOSHORT):
                            distinct.add(hash(key))
                        k = "ok" if not is_err(i) else ERR_NAMES.get(err_code(i), str(err_code(i)))
                        cov["err_histogram"][k] = cov["err_histogram"].get(k, 0) + 1
                        if mode == "exact":
                            same = canon_result(m) == canon_result(i)
                        else:
                            same = verdict3(m) == verdict3(i) and (is_err(m) or canon_result(m) == canon_result(i))
                        if not same:
                            nm += 1
                            if len(mismatches) < 200:
                                mismatches.append((sname, c, m, i))
                    # oracle on this stream (all cases if cheap, else sample)
                    ocases = list(zip(cases, ires))
                    lim = getattr(prop, "ORACLE_LIMIT", {}).get(self.tier, 20000)
                    if len(ocases) > lim:
                        ocases = rng.sample(ocases, lim)
                    fails = self.run_oracle(ocases)
                    n_oracle += len(ocases)
                    oracle_fail.extend((sname,) + f for f in fails)
                    # live-object probe (shared state across objects, aliased caller configuration)
                    n_probe = 0
                    if cases and not getattr(prop, "NO_LIVE_PROBE", False):
                        from harness import liveprobe
                        k = min(len(cases), getattr(prop, "LIVE_PROBE", {}).get(self.tier, 60 if self.tier == "quick" else 400))
                        pool_ = [c_ for c_ in cases if c_[0] not in NO_LIVE_PROBE_OPS] or cases[:0]
                        sample = rng.sample(pool_, min(k, len(pool_)))
                        for a_case in sample:
                            b_case = a_case if rng.random() < 0.25 else rng.choice(pool_)   # also the SAME call again (value-keyed caches)
                            r = liveprobe.probe_pair(prop.impl, a_case, b_case)
                            n_probe += 1
                            if r is not None:
                                sig = "%s/live-object/%s" % (pid, r[0])
                                fails.append((sig, r[1] + " [then op %d args %s]" % (b_case[0], str([list(x)[:12] for x in b_case[1]])[:200]),
                                              a_case, ires[cases.index(a_case)]))
                                oracle_fail.append((sname, sig, fails[-1][1], a_case, fails[-1][3]))
                                self.probe_b[sig] = b_case
                                break
                    # concurrent callers: the same calls made by several threads at once
                    n_thr = 0
                    if cases and not fails and not getattr(prop, "NO_LIVE_PROBE", False):
                        from harness import liveprobe
                        pool = [c for c in cases if c[0] not in NO_THREAD_OPS and c[0] not in NO_LIVE_PROBE_OPS]
                        tsample = rng.sample(pool, min(len(pool), 12))
                        if len(tsample) >= 2:
                            n_thr = len(tsample)
                            r = liveprobe.thread_probe(prop.impl, run_impl, canon_result, tsample,
                                                       0.25 if self.tier == "quick" else 1.5)
                            if r is not None:
                                sig = "%s/live-object/%s" % (pid, r[0])
                                fails.append((sig, r[1], r[2], run_impl(prop.impl, r[2][0], r[2][1])))
                                oracle_fail.append((sname, sig, r[1], r[2], fails[-1][3]))
                                self.thread_cases[sig] = tsample
                    # zero-copy callers: memoryview arguments on the ops where the unchanged library treats them like bytes
                    n_view = 0
                    if cases and not fails and not getattr(prop, "NO_LIVE_PROBE", False):
                        from harness import liveprobe
                        okops = set(mv_ops().get(pid, []))
                        pool = [c for c in cases if c[0] in okops]
                        for c_ in rng.sample(pool, min(len(pool), 60 if self.tier == "quick" else 400)):
                            n_view += 1
                            r = liveprobe.view_probe(prop.impl, run_impl, canon_result, c_)
                            if r is not None:
                                sig = "%s/live-object/%s" % (pid, r[0])
                                fails.append((sig, r[1], c_, run_impl(prop.impl, c_[0], c_[1])))
                                oracle_fail.append((sname, sig, r[1], c_, fails[-1][3]))
                                break
                    cov["streams"][sname] = {"cases": len(cases), "mode": mode, "mismatches": nm, "live_probe_pairs": n_probe,
                                             "thread_probe_cases": n_thr, "memoryview_probe_cases": n_view,
                                             "oracle_checked": len(ocases), "oracle_failures": len(fails),
                                             "wall_s": round(time.time() - t, 2)}
                    if getattr(cases, "exhaustive", False) or sname.startswith("exh"):
                        cov["exhaustive_streams"].append(sname)
                    if cases:
                        for c in (cases[0], cases[len(cases) // 2]):
                            if len(cov["samples"]) < 12:
                                cov["samples"].append({"stream": sname, "op": c[0], "args": [list(x)[:24] for x in c[1]]})
                    self.log("stream %-28s %7d cases, %d mismatches, %d oracle failures (%.1fs)" %
                             (sname, len(cases), nm, len(fails), time.time() - t))
            # ---- verdict
            known = load_known()
            known_sigs = {f["signature"]: f for f in known.get("findings", []) if f.get("property") == pid}
            seen_known = set()
            for (sname, sig, msg, c, ires) in oracle_fail:
                if sig in known_sigs:
                    seen_known.add(sig)
                    continue
                violations.append((sig, msg, {"property": pid, "kind": "property-fails-on-implementation",
                                              "stream": sname, "signature": sig, "message": msg,
                                              "op": c[0], "args": [list(x) for x in c[1]],
                                              "impl_result": ires, "seed": self.seed,
                                              **({"then_op": self.probe_b[sig][0], "then_args": [list(x) for x in self.probe_b[sig][1]]}
                                                 if sig in self.probe_b else {}),
                                              **({"thread_cases": [[c_[0], [list(x) for x in c_[1]]] for c_ in self.thread_cases[sig]]}
                                                 if sig in self.thread_cases else {})}, True))
            if mismatches:
                broken.append({"kind": "correspondence", "detail": "%d disagreeing cases, first: stream=%s op=%d args=%s model=%s impl=%s" % (
                    len(mismatches), mismatches[0][0], mismatches[0][1][0], [list(x)[:16] for x in mismatches[0][1][1]],
                    mismatches[0][2][:4], mismatches[0][3][:4])})
            if broken and not violations:
                # search: oracle on the disagreeing cases and their neighbourhood
                cand = [(c, i) for (_, c, m, i) in mismatches]
                neigh = []
                if hasattr(prop, "neighbours"):
                    for (_, c, m, i) in mismatches[:50]:
                        for c2 in prop.neighbours(c):
                            neigh.append((c2, run_impl(prop.impl, c2[0], c2[1])))
                if hasattr(prop, "search_cases"):
                    for c2 in prop.search_cases(broken, rng):
                        neigh.append((c2, run_impl(prop.impl, c2[0], c2[1])))
                fails = self.run_oracle(cand + neigh)
                for (sig, msg, c, ires) in fails:
                    if sig in known_sigs:
                        seen_known.add(sig); continue
                    violations.append((sig, msg, {"property": pid, "kind": "property-fails-on-implementation",
                                                  "found_by": "search after broken obligation/correspondence",
                                                  "broken": broken, "signature": sig, "message": msg,
                                                  "op": c[0], "args": [list(x) for x in c[1]],
                                                  "impl_result": ires, "seed": self.seed}, True))
                if not violations:
                    violations.append(("unproved", "obligation or correspondence no longer checks",
                                       {"property": pid, "kind": "no-failing-input-found", "broken": broken,
                                        "disagreeing_cases": [{"stream": s, "op": c[0], "args": [list(x) for x in c[1]],
                                                               "model": m, "impl": i} for (s, c, m, i) in mismatches[:20]],
                                        "seed": self.seed}, False))
            for sig in sorted(seen_known):
                print("KNOWN-FINDING: property=%s %s" % (pid, known_sigs[sig].get("what", sig)), flush=True)
            # dedupe violations by signature, smallest witness first
            violations.sort(key=lambda v: len(json.dumps(v[2].get("args", []))))
            out_v, seen = [], set()
            for v in violations:
                if v[0] in seen:
                    continue
                seen.add(v[0]); out_v.append(v)
            for sig, msg, payload, found in out_v[:10]:
                path = self.write_replay(payload)
                print("VIOLATION property=%s replay=%s%s" % (pid, path, "" if found else " no-failing-input-found"), flush=True)
                self.log("  -> %s: %s" % (sig, msg))
            # ---- evidence
            n_thm = len(props["theorems"])
            obligations = n_thm + tie["n"]
            discharged = min(props["closed"] + (len([a for a in props["axioms"]]) and 0), n_thm) + (tie["n"] - len(tie["problems"]))
            if props.get("problems"):
                discharged = min(discharged, obligations - 1)
            ev = {
                "property_id": pid, "tier": self.tier, "seed": self.seed, "level": "proof",
                "coverage": {
                    "obligations": obligations, "discharged": discharged,
                    "checker_cmd": "coqc -Q coq/theories SP coq/theories/Props/%s.v (after full make of the development); Print Assumptions parsed" % pid,
                    "trusted_base": getattr(prop, "TRUSTED", []) + [
                        "Coq 8.16.1 kernel incl. vm_compute", "extraction (ExtrOcamlBasic only) + OCaml driver",
                        "Python harness adapters; CPython 3.12 as execution substrate of the implementation"],
                    "theorems": props["theorems"], "axioms_reported": props["axioms"],
                    "partial_or_refuted": [n for n in props["theorems"] if n.endswith("_partial") or n.endswith("_refuted")],
                    "explored_only": getattr(prop, "EXPLORED_ONLY", []),
                    "evaluations": n_eval, "distinct_nontrivial": len(distinct),
                    "rule": "correspondence cases (operation, arguments) generated per stream from one PRNG; distinct = distinct case lines whose implementation result is not the trivial too-short error",
                    "samples": cov["samples"], "streams": cov["streams"], "err_histogram": cov["err_histogram"],
                    "exhaustive_streams": cov["exhaustive_streams"], "oracle_checked": n_oracle,
                    "agreement_lemmas": tie["n"], "broken": broken,
                    "api_coverage_of_probe_sample": self.api_cov(),
                    "known_findings_seen": sorted(seen_known),
                },
                "assumptions": getattr(prop, "ASSUMPTIONS", []),
                "wall_s": round(time.time() - self.t0, 2),
                "violations": len(out_v),
            }
            os.makedirs(EVID, exist_ok=True)
            json.dump(ev, open(os.path.join(EVID, pid + ".json"), "w"), indent=1)
            self.log("done in %.1fs: %d evaluations, %d violations" % (time.time() - self.t0, n_eval, len(out_v)))
            return 1 if out_v else 0
        finally:
            shutil.rmtree(self.scratch, ignore_errors=True)

    def api_cov(self):
        """which public methods / property setters of the anchored classes the profiled sample of this
        run entered (a lower bound: only the live-probe sample runs under the profiler)"""
        try:
            from harness import liveprobe
            files = []
            for l in open(os.path.join(VERIF, "properties.jsonl")):
                pr = json.loads(l)
                if pr["id"] == self.pid:
                    files = pr["anchors"]["files"]
            return liveprobe.api_coverage(files)
        except Exception as e:  # informational only
            return {"error": repr(e)}

    def run_oracle(self, pairs):
        """pairs: list of (case, impl_result).  Returns list of (sig, msg, case, impl_result)."""
        prop = self.prop
        if not hasattr(prop, "oracle"):
            return []
        spec_cases, index = [], []
        for k, (c, ires) in enumerate(pairs):
            sc = prop.oracle_spec(c, ires) if hasattr(prop, "oracle_spec") else []
            index.append((len(spec_cases), len(sc)))
            spec_cases.extend(sc)
        sres = run_model(spec_cases, self.jobs) if spec_cases else []
        fails = []
        for (c, ires), (s, n) in zip(pairs, index):
            try:
                r = prop.oracle(c, ires, sres[s:s + n])
            except Exception as e:  # an oracle crash is a harness bug: surface it loudly
                r = ("oracle-crash", "oracle raised %r\n%s" % (e, traceback.format_exc()[-800:]))
            if r is not None:
                fails.append((r[0], r[1], c, ires))
        return fails


def replay(prop, path):
    payload = json.load(open(path))
    if payload.get("kind") == "no-failing-input-found":
        print(json.dumps(payload, indent=1)[:4000])
        return 1
    c = (payload["op"], [list(x) for x in payload["args"]])
    if payload.get("signature", "").endswith(("/memoryview-input-differs", "/input-buffer-aliased")):
        from harness import liveprobe
        r = liveprobe.view_probe(prop.impl, run_impl, canon_result, c)
        print("replay memoryview argument: op=%d -> %s" % (c[0], r))
        if r is not None:
            print("VIOLATION property=%s replay=%s" % (prop.ID, path))
            return 1
        return 0
    if "thread_cases" in payload:
        from harness import liveprobe
        tc = [(o, [list(x) for x in a]) for o, a in payload["thread_cases"]]
        r = liveprobe.thread_probe(prop.impl, run_impl, canon_result, tc, 10.0)
        print("replay concurrent callers: %d calls x 4 threads for up to 10 s -> %s" % (len(tc), r and r[:2]))
        if r is not None:
            print("VIOLATION property=%s replay=%s" % (prop.ID, path))
            return 1
        return 0
    if "/live-object/" in payload.get("signature", "") and "then_op" in payload:
        from harness import liveprobe
        r = liveprobe.probe_pair(prop.impl, c, (payload["then_op"], [list(x) for x in payload["then_args"]]))
        print("replay live-object probe: op=%d then op=%d -> %s" % (c[0], payload["then_op"], r))
        if r is not None:
            print("VIOLATION property=%s replay=%s" % (prop.ID, path))
            return 1
        return 0
    # the run passes plain ints for enums in every 5th case and positional arguments in every 7th: replay the
    # case under each calling style until one fails
    chk = Check(prop, "quick", payload.get("seed", 0))
    fails, ires = [], None
    for plain, positional in ((False, False), (True, False), (False, True), (True, True)):
        globals()["PLAIN_INTS"], globals()["POSITIONAL"] = plain, positional
        try:
            ires = run_impl(prop.impl, c[0], c[1])
        finally:
            globals()["PLAIN_INTS"], globals()["POSITIONAL"] = False, False
        fails = chk.run_oracle([(c, ires)])
        if fails:
            print("replay calling style: plain ints for enums=%s, positional arguments=%s" % (plain, positional))
            break
    print("replay op=%d args=%s -> impl=%s" % (c[0], c[1], ires))
    for f in fails:
        print("VIOLATION property=%s replay=%s" % (prop.ID, path))
        print("  ", f[0], f[1])
    return 1 if fails else 0
