import argparse, importlib, os, sys
from harness import core


def main():
    # run the library with its debug logging branches active (records are discarded)
    import logging
    logging.getLogger().addHandler(logging.NullHandler())
    logging.getLogger().setLevel(logging.DEBUG)
    try:
        from spacepackets.log import get_lib_logger
        get_lib_logger().setLevel(logging.DEBUG)
    except Exception:
        pass
    # ambient interpreter / library state an application may legitimately have set; nothing the properties
    # quantify over depends on it: the library-wide CFDP entity-ID registry (spacepackets.cfdp.conf) is filled,
    # the decimal context of the main thread is the 9-digit BasicContext with its traps
    try:
        from spacepackets.cfdp.conf import set_entity_ids
        set_entity_ids(b"\x00\x2a", b"\x00\x2b")
    except Exception:
        pass
    import decimal
    decimal.setcontext(decimal.BasicContext)
    ap = argparse.ArgumentParser()
    ap.add_argument("id")
    ap.add_argument("--tier", default=os.environ.get("VERIF_TIER", "quick"), choices=["quick", "thorough"])
    ap.add_argument("--replay")
    a = ap.parse_args()
    seed = int(os.environ.get("VERIF_SEED", "0") or 0)
    prop = importlib.import_module("harness.props." + a.id.lower())
    if a.replay:
        sys.exit(core.replay(prop, a.replay))
    sys.exit(core.Check(prop, a.tier, seed).run())


if __name__ == "__main__":
    main()
