"""Live-object probe: detects state shared between objects the library hands out, and objects
that keep a reference to the caller's PduConfig.

Every per-case comparison of the correspondence check looks at a result right after the call that
produced it, so a decoder that hands out one shared (memoised) object, or a PDU that aliases the
caller's configuration, is invisible to it.  The probe runs an adapter case A under a profiler that
records every spacepackets object created or returned during the call, takes a deep snapshot of
their state, then (1) runs an unrelated case B and (2) perturbs the PduConfig objects the adapter
itself had constructed for A (the caller's inputs), and checks after each step that the state of
A's objects is unchanged.  No method of A's objects is called in between, so lazy caches cannot
change legitimately."""
import collections, enum, sys, time

_PRIM = (int, float, str, bytes, bool, type(None))

# code objects of library functions entered while the probe's profiler was active (API coverage report)
CALLED_CODES = set()


def snap(o, depth=0, seen=None):
    if seen is None:
        seen = set()
    if isinstance(o, enum.Enum):
        return ("enum", type(o).__name__, o.value)
    if isinstance(o, _PRIM):
        return o
    if isinstance(o, (bytearray, memoryview)):
        return ("bytes", bytes(o))
    if id(o) in seen:
        return ("cycle",)
    if depth > 7:
        return ("deep",)
    seen = seen | {id(o)}
    if isinstance(o, (list, tuple, collections.deque)):
        return [snap(x, depth + 1, seen) for x in o]
    if isinstance(o, dict):
        return sorted(((repr(k), snap(v, depth + 1, seen)) for k, v in o.items()), key=lambda kv: kv[0])
    d = getattr(o, "__dict__", None)
    if d is None:
        return ("obj", type(o).__name__, repr(o)[:80])
    return (type(o).__name__, [(k, snap(v, depth + 1, seen)) for k, v in sorted(d.items()) if not callable(v)])


# building blocks that take the caller's PduConfig by reference BY DESIGN (the concrete PDU classes
# copy the configuration before they hand it to these)
SHARES_CONF_BY_DESIGN = {"PduHeader", "FileDirectivePduBase", "AbstractPduBase"}


class Recorder:
    def __init__(self):
        self.objs = {}      # id -> object (kept alive)
        self.root = {}      # id -> class name of the outermost constructor the adapter itself called
        self.inputs = {}    # id -> object constructed directly by the adapter
        self.stack = []     # adapter-level constructor calls in progress: (frame id, class name)
        self.buffers = {}   # id -> bytearray returned by a library call made directly by the adapter
        self.buffer_src = {}
        self.handed = {}    # id -> object handed to the adapter (returned by / constructed through a direct call)

    def _rec(self, o, direct):
        if o is None or isinstance(o, (enum.Enum, type)) or isinstance(o, _PRIM):
            return
        if not type(o).__module__.startswith("spacepackets"):
            return
        if id(o) not in self.objs:
            self.objs[id(o)] = o
            self.root[id(o)] = self.stack[0][1] if self.stack else None
        if direct:
            self.inputs[id(o)] = o
            self.handed[id(o)] = o

    def __call__(self, frame, event, arg):
        if event not in ("call", "return"):
            return
        mod = frame.f_globals.get("__name__", "")
        if not mod.startswith("spacepackets"):
            return
        back = frame.f_back
        from_adapter = back is not None and back.f_globals.get("__name__", "").startswith("harness.")
        is_init = frame.f_code.co_name == "__init__"
        if event == "call":
            CALLED_CODES.add(frame.f_code)
            if is_init and from_adapter:
                self.stack.append((id(frame), type(frame.f_locals.get("self")).__name__))
            return
        if is_init:
            self._rec(frame.f_locals.get("self"), from_adapter)
            if self.stack and self.stack[-1][0] == id(frame):
                self.stack.pop()
        else:
            self._rec(arg, False)
            if from_adapter and arg is not None and id(arg) in self.objs:
                self.handed[id(arg)] = arg
            # only pack() results: property getters (value, tm_data, ...) hand out internal state by design
            if from_adapter and isinstance(arg, bytearray) and frame.f_code.co_name == "pack":
                self.buffers[id(arg)] = arg
                self.buffer_src[id(arg)] = "%s.%s" % (type(frame.f_locals.get("self")).__name__ if "self" in frame.f_locals else mod, frame.f_code.co_name)


def run_recorded(fn, op, args):
    rec = Recorder()
    sys.setprofile(rec)
    try:
        try:
            fn(op, args)
        except BaseException as e:  # noqa
            if isinstance(e, (KeyboardInterrupt, SystemExit, MemoryError)):
                raise
    finally:
        sys.setprofile(None)
    return rec


def _perturb_conf(c):
    """change every enum-valued / integer attribute of a PduConfig to another value"""
    changed = False
    for k, v in list(vars(c).items()):
        if isinstance(v, enum.Enum):
            members = list(type(v))
            nv = members[(members.index(v) + 1) % len(members)]
            if nv != v:
                try:
                    setattr(c, k, nv); changed = True
                except Exception:
                    pass
    return changed


# classes whose reported length must equal the number of octets pack() yields (C11 / C06 / C07 / C08)
LEN_ATTR = {n: "packet_len" for n in (
    "PusTc", "PusTm", "FileDataPdu", "EofPdu", "FinishedPdu", "AckPdu", "MetadataPdu", "NakPdu", "PromptPdu",
    "KeepAlivePdu", "CfdpTlv", "CfdpLv", "EntityIdTlv", "FlowLabelTlv", "FaultHandlerOverrideTlv",
    "FileStoreRequestTlv", "FileStoreResponseTlv", "MessageToUserTlv")}


def generic_invariants(objs, op):
    """the one statement that holds for EVERY live object of these classes whatever (valid or invalid)
    sequence of calls and arguments produced it: packing twice without changes yields identical octets.
    (Reported length = packed length and decode(pack) re-packing to itself were tried here too and
    REMOVED: objects built from out-of-domain arguments or decoded from malformed-but-accepted input
    legitimately violate them; the per-module oracles check those clauses on valid parameter sets.)"""
    for o in objs:
        name = type(o).__name__
        if name not in LEN_ATTR:
            continue
        try:
            p1 = bytes(o.pack())
        except Exception:
            continue        # an object that cannot be packed (out-of-range fields) says nothing here
        try:
            p2 = bytes(o.pack())
        except Exception as e:
            return ("pack-not-repeatable", "%s (op %d): second pack() raised %r after the first succeeded" % (name, op, e))
        if p1 != p2:
            return ("pack-not-repeatable", "%s (op %d): two consecutive pack() calls differ: %s / %s" % (name, op, p1.hex()[:60], p2.hex()[:60]))
        # a deep copy is an equal, independent object: it packs to the same octets
        try:
            import copy
            d = copy.deepcopy(o)
            p3 = bytes(d.pack())
        except Exception:
            continue
        if p3 != p1:
            return ("deepcopy-differs", "%s (op %d): copy.deepcopy(obj).pack() = %s but obj.pack() = %s" % (name, op, p3.hex()[:60], p1.hex()[:60]))
    return None


def probe_pair(fn, case_a, case_b):
    """returns None or (kind, message)"""
    rec = run_recorded(fn, case_a[0], case_a[1])
    if not rec.objs:
        return None
    before = {i: snap(o) for i, o in rec.objs.items()}
    # 1. an unrelated call must not change them
    try:
        fn(case_b[0], case_b[1])
    except BaseException as e:  # noqa
        if isinstance(e, (KeyboardInterrupt, SystemExit, MemoryError)):
            raise
    for i, o in rec.objs.items():
        if snap(o) != before[i]:
            return ("shared-state", "the state of a %s handed out by op %d changed when an unrelated call (op %d) was made; "
                    "objects share state (before %s, after %s)" % (type(o).__name__, case_a[0], case_b[0],
                                                                   str(before[i])[:160], str(snap(o))[:160]))
    # 1b. a caller that edits a buffer the library returned (pack() result, ...) must not thereby edit
    #     the object it came from: pack() results are fresh octets, not the object's cache
    if rec.buffers:
        before_b = {i: snap(o) for i, o in rec.objs.items()}
        for bid, b in rec.buffers.items():
            b.extend(b"\xa5\x5a\xa5")
            if len(b) > 3:
                b[0] ^= 0xFF
            for i, o in rec.objs.items():
                if snap(o) != before_b[i]:
                    return ("returned-buffer-aliased", "editing the bytearray returned by %s (op %d) changed the state of a %s: "
                            "the returned octets alias internal state" % (rec.buffer_src.get(bid), case_a[0], type(o).__name__))
    # 1c. generic invariants of every live object (done last among the read-only steps: pack() may
    #     fill caches, so the snapshots are refreshed afterwards)
    r = generic_invariants(list(rec.handed.values()), case_a[0])
    if r is not None:
        return r
    before = {i: snap(o) for i, o in rec.objs.items()}
    # 2. perturbing the caller's PduConfig must not change anything else
    for i, c in rec.inputs.items():
        if type(c).__name__ != "PduConfig":
            continue
        if not _perturb_conf(c):
            continue
        for j, o in rec.objs.items():
            if (j in rec.inputs and type(o).__name__ == "PduConfig") or rec.root.get(j) in SHARES_CONF_BY_DESIGN:
                continue   # PduHeader(conf) / FileDirectivePduBase(conf) built by the caller share it by design
            if snap(o) != before[j]:
                return ("caller-config-aliased", "a %s built by op %d keeps a reference to the caller's PduConfig: changing the "
                        "caller's object afterwards changed it" % (type(o).__name__, case_a[0]))
    return None


def api_coverage(files):
    """public API of the classes defined in the anchored source files vs what the profiled sample of
    this run entered: {class: {"never_entered": [...]}} (property setters are listed as name=)"""
    import importlib, inspect
    out = {}
    for f in files:
        if not f.endswith(".py"):
            continue
        modname = f[:-3].replace("/", ".")
        if modname.endswith(".__init__"):
            modname = modname[:-9]
        try:
            mod = importlib.import_module(modname)
        except Exception:
            continue
        for cname, cls in inspect.getmembers(mod, inspect.isclass):
            if cls.__module__ != mod.__name__:
                continue
            missing, total = [], 0
            for attr, v in vars(cls).items():
                if attr.startswith("_") and attr not in ("__init__", "__eq__", "__hash__"):
                    continue
                if attr in ("__repr__", "__str__"):
                    continue
                codes = []
                if isinstance(v, property):
                    if v.fget is not None:
                        codes.append((attr, v.fget))
                    if v.fset is not None:
                        codes.append((attr + "=", v.fset))
                elif isinstance(v, (classmethod, staticmethod)):
                    codes.append((attr, v.__func__))
                elif inspect.isfunction(v):
                    codes.append((attr, v))
                for label, fn in codes:
                    fn = inspect.unwrap(fn)
                    code = getattr(fn, "__code__", None)
                    if code is None:
                        continue
                    total += 1
                    if code not in CALLED_CODES:
                        missing.append(label)
            if total:
                out[cname] = {"public_callables": total, "never_entered_in_probe_sample": sorted(missing)}
    return out


# ------------------------------------------------------------------ concurrent callers
def thread_probe(fn, run_impl, canon, cases, budget_s, n_threads=4):
    """The library's entry points keep no state between calls, so calls made by several threads at once
    (a commanding thread and a telemetry thread, say) on their own objects yield what the same calls
    yield one after the other.  `cases` are run sequentially first (twice: a case whose sequential
    result is not stable is dropped), then by n_threads threads at once with a tiny switch interval.
    Returns None or (kind, message, case)."""
    import threading
    base = []
    for c in cases:
        r1, r2 = canon(run_impl(fn, c[0], c[1])), canon(run_impl(fn, c[0], c[1]))
        if r1 == r2:
            base.append((c, r1))
    if len(base) < 2:
        return None
    bad = []
    deadline = time.time() + budget_s
    def worker(t):
        n = len(base)
        j = t * (n // n_threads + 1)
        while not bad and time.time() < deadline:
            c, want = base[j % n]
            j += 1
            got = canon(run_impl(fn, c[0], c[1]))
            if got != want:
                bad.append((c, want, got))
                return
    old = sys.getswitchinterval()
    sys.setswitchinterval(1e-6)
    try:
        ths = [threading.Thread(target=worker, args=(t,)) for t in range(n_threads)]
        for th in ths:
            th.start()
        for th in ths:
            th.join()
    finally:
        sys.setswitchinterval(old)
    if not bad:
        return None
    c, want, got = bad[0]
    # still stable when run alone?  (otherwise the case is not deterministic and says nothing)
    if canon(run_impl(fn, c[0], c[1])) != want or canon(run_impl(fn, c[0], c[1])) != want:
        # a call that went wrong under threads and STAYS wrong afterwards: process-wide state was corrupted
        return ("thread-interference", "op %d yields %s when run alone before, but %s after %d threads ran the library "
                "concurrently (process-wide state left behind)" % (c[0], str(want)[:120], str(got)[:120], n_threads), c)
    return ("thread-interference", "op %d yields %s when run alone but %s while %d threads run other calls of the library "
            "at the same time: calls share mutable state" % (c[0], str(want)[:160], str(got)[:160], n_threads), c)


# ------------------------------------------------------------------ zero-copy callers (memoryview input)
import builtins as _bi


def adapter_modules(op):
    from harness.props import xcut
    mod = xcut.module(op // 100)
    out = [mod]
    for p_ in getattr(mod, "PARTS", []):
        if p_.OP_RANGE[0] <= op <= p_.OP_RANGE[1]:
            out.append(p_)
    return [m for m in out if m is not None]


class _Views:
    """stands in for the name `bytes` in the adapter modules: every octet string the adapter builds becomes a
    memoryview of its own writable bytearray (the recv_into() idiom)"""
    def __init__(self):
        self.backing = []

    def __call__(self, x=b""):
        b = bytearray(_bi.bytes(x))
        self.backing.append(b)
        return memoryview(b)

    def __enter__(self):
        return self

    def install(self, mods):
        self.saved = [(m, m.__dict__.get("bytes")) for m in mods]
        for m in mods:
            m.__dict__["bytes"] = self

    def uninstall(self):
        for m, old in self.saved:
            if old is None:
                m.__dict__.pop("bytes", None)
            else:
                m.__dict__["bytes"] = old


def view_probe(fn, run_impl, canon, case):
    """For calls of the ops listed in harness/mv_ops.json (the ops on which the UNCHANGED library gives the same
    answer for memoryview and bytes arguments on every sampled case, measured by tools/gen_mv_ops.py):
    a call that succeeds on bytes and ALSO succeeds on a memoryview of the same octets returns the same answer
    (an exception on the memoryview is a refusal of the argument type and is not judged), and the objects it
    handed out do not change when the caller overwrites its buffer afterwards.  Returns None or (kind, msg)."""
    op, a = case
    r_b = run_impl(fn, op, a)
    if r_b[0][0] != 0:
        return None
    v = _Views()
    v.install(adapter_modules(op))
    holder = {}
    def call(o_, a_):
        holder["r"] = fn(o_, a_)
        return holder["r"]
    try:
        rec = run_recorded(call, op, a)
    finally:
        v.uninstall()
    if "r" not in holder:
        return None
    try:
        r_v = [[0]] + [list(map(int, x)) for x in holder["r"]]
    except Exception:
        return None
    if canon(r_v) != canon(r_b):
        return ("memoryview-input-differs", "op %d succeeds on a memoryview of the same octets but answers %s instead of %s"
                % (op, str(r_v)[:160], str(r_b)[:160]))
    before = {i: snap(o) for i, o in rec.objs.items()}
    for b in v.backing:
        for i in range(len(b)):
            b[i] ^= 0xFF
    for i, o in rec.objs.items():
        try:
            now = snap(o)
        except Exception:
            continue
        if now != before[i]:
            return ("input-buffer-aliased", "a %s handed out by op %d changed when the caller overwrote the buffer it had passed in "
                    "(as a memoryview): the object keeps a view of the caller's buffer" % (type(o).__name__, op))
    return None
