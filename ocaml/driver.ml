(* Generic driver: reads "op|l;l;..." lines (each l = comma-separated signed hex
   integers, possibly empty), prints the result lists in the same syntax.
   It only converts text <-> the extracted inductive Z. *)
open Model

let rec pos_of_bits (s : string) (i : int) (acc : positive) : positive =
  (* s.[i..] are hex digits to append to acc *)
  if i >= String.length s then acc else
  let d = int_of_string ("0x" ^ String.make 1 s.[i]) in
  let step a b = if b = 1 then XI a else XO a in
  let acc = step acc ((d lsr 3) land 1) in
  let acc = step acc ((d lsr 2) land 1) in
  let acc = step acc ((d lsr 1) land 1) in
  let acc = step acc (d land 1) in
  pos_of_bits s (i + 1) acc

(* leading digit handled separately so that acc starts at the top set bit *)
let pos_of_hex (s : string) : positive option =
  let n = String.length s in
  let i = ref 0 in
  while !i < n && s.[!i] = '0' do incr i done;
  if !i >= n then None else begin
    let d = int_of_string ("0x" ^ String.make 1 s.[!i]) in
    let bits = [ (d lsr 3) land 1; (d lsr 2) land 1; (d lsr 1) land 1; d land 1 ] in
    let rec start = function
      | [] -> assert false
      | 0 :: r -> start r
      | _ :: r -> List.fold_left (fun a b -> if b = 1 then XI a else XO a) XH r in
    Some (pos_of_bits s (!i + 1) (start bits))
  end

let z_of_string (s : string) : z =
  let s = String.trim s in
  if s = "" then Z0 else
  if s.[0] = '-' then
    (match pos_of_hex (String.sub s 1 (String.length s - 1)) with None -> Z0 | Some p -> Zneg p)
  else (match pos_of_hex s with None -> Z0 | Some p -> Zpos p)

let hex_of_pos (p : positive) : string =
  (* collect bits LSB first *)
  let rec bits p acc = match p with
    | XH -> 1 :: acc
    | XO q -> bits q (0 :: acc)   (* acc is MSB-first list being built from LSB: prepend *)
    | XI q -> bits q (1 :: acc) in
  (* bits returns MSB first?  p = XO q means lsb 0, rest q.  We prepend lsb first, then
     higher bits get prepended later -> final list is MSB first. *)
  let l = bits p [] in
  let n = List.length l in
  let pad = (4 - n mod 4) mod 4 in
  let l = List.init pad (fun _ -> 0) @ l in
  let b = Buffer.create 16 in
  let rec go = function
    | a :: b' :: c :: d :: r ->
      Buffer.add_string b (Printf.sprintf "%x" (a*8 + b'*4 + c*2 + d)); go r
    | _ -> () in
  go l; Buffer.contents b

let string_of_z = function
  | Z0 -> "0"
  | Zpos p -> hex_of_pos p
  | Zneg p -> "-" ^ hex_of_pos p

let parse_list (s : string) : z list =
  if String.trim s = "" then [] else List.map z_of_string (String.split_on_char ',' s)

let () =
  try
    while true do
      let line = input_line stdin in
      match String.index_opt line '|' with
      | None -> print_string "?\n"
      | Some i ->
        let op = z_of_string (String.sub line 0 i) in
        let rest = String.sub line (i + 1) (String.length line - i - 1) in
        let args = List.map parse_list (String.split_on_char ';' rest) in
        let res = run_case op args in
        print_string (String.concat ";" (List.map (fun l -> String.concat "," (List.map string_of_z l)) res));
        print_char '\n'
    done
  with End_of_file -> ()
