(* NOT in the build.  The models of eof.py / ack.py / prompt.py / keep_alive.py as the code was BEFORE the
   repairs (commit 8705ed3 of this branch, tied to the implementation then: 53,974 cases, 0 disagreements),
   and the witnesses that refute the C06 / C09 / C10 / C11 statements on them.  Compile from coq/ with
     coqc -Q theories SP ../evidence/C06a-refuted-before-fix.v
   after the development is built. *)
From Coq Require Import ZArith List Bool.
From SP Require Import Base.Result Base.Bytes Base.Crc16 Model.PduHeader Model.FileDirective Model.Lv Model.Tlv.
Import ListNotations.
Open Scope Z_scope.

Module OldEof.


(* the object: the FileDirectivePduBase it owns (which owns the copied PduConfig), the
   condition code, the 4-octet checksum, the file size and the optional fault location
   (an EntityIdTlv, represented by the CfdpTlv it wraps) *)
Record EofPdu := { eof_fd : fdir; eof_cc : Z; eof_checksum : bytes; eof_size : Z;
                   eof_fault : option tlv }.

Definition eof_with_fd (p : EofPdu) (f : fdir) : EofPdu :=
  {| eof_fd := f; eof_cc := eof_cc p; eof_checksum := eof_checksum p; eof_size := eof_size p;
     eof_fault := eof_fault p |}.
Definition eof_with_fault (p : EofPdu) (t : option tlv) : EofPdu :=
  {| eof_fd := eof_fd p; eof_cc := eof_cc p; eof_checksum := eof_checksum p; eof_size := eof_size p;
     eof_fault := t |}.

(* _calculate_directive_param_field_len *)
Definition eof_calc_len (p : EofPdu) : res EofPdu :=
  let l := 9 in
  let l := if hdr_large_file (fd_hdr (eof_fd p)) then 13 else l in
  let l := match eof_fault p with Some t => l + tlv_packet_len t | None => l end in
  let l := if cf_crc (h_conf (fd_hdr (eof_fd p))) =? CRC_WITH_CRC then l + 2 else l in
  do f <- fdir_set_param_len (eof_fd p) l;
  Ok (eof_with_fd p f).

(* EofPdu.__init__(pdu_conf, file_checksum, file_size, fault_location, condition_code):
   returns the PDU and the caller's PduConfig afterwards (the constructor works on
   copy.copy(pdu_conf)) *)
Definition eof_new (conf : PduConfig) (checksum : bytes) (size : Z) (fault : option tlv) (cc : Z)
  : res (EofPdu * PduConfig) :=
  if negb (len checksum =? 4) then Err EValue else
  let conf' := conf_set_dir conf DIR_TOWARDS_RECEIVER in
  do f <- fdir_new conf' DT_EOF 0;
  do p <- eof_calc_len {| eof_fd := f; eof_cc := cc; eof_checksum := checksum; eof_size := size;
                          eof_fault := fault |};
  Ok (p, conf).

(* fault_location setter *)
Definition eof_set_fault (p : EofPdu) (t : option tlv) : res EofPdu :=
  eof_calc_len (eof_with_fault p t).

Definition eof_packet_len (p : EofPdu) : Z := fdir_packet_len (eof_fd p).

(* EofPdu.pack *)
Definition eof_pack (p : EofPdu) : res bytes :=
  do b <- fdir_pack (eof_fd p);
  do b <- ba_append b (Z.shiftl (eof_cc p) 4);
  let b := b ++ eof_checksum p in
  do s <- (if hdr_large_file (fd_hdr (eof_fd p)) then struct_pack 8 (eof_size p)
           else struct_pack 4 (eof_size p));
  let b := b ++ s in
  do b <- match eof_fault p with
          | Some t => do tb <- tlv_pack t; Ok (b ++ tb)
          | None => Ok b
          end;
  if cf_crc (h_conf (fd_hdr (eof_fd p))) =? CRC_WITH_CRC then
    do c <- struct_pack 2 (crc16 b); Ok (b ++ c)
  else Ok b.

(* EofPdu.__empty() *)
Definition eof_empty : res EofPdu :=
  do r <- eof_new conf_empty [0; 0; 0; 0] 0 None 0; Ok (fst r).

(* EofPdu.unpack *)
Definition eof_unpack (data : bytes) : res EofPdu :=
  do p <- eof_empty;
  do f <- fdir_unpack data;
  let p := eof_with_fd p f in
  do _ <- hdr_verify_length_and_checksum (fd_hdr f) data;
  let expected_min_len := fdir_header_len f + 9 in
  if expected_min_len >? len data then Err ETooShort else
  let current_idx := fdir_header_len f in
  do b <- py_get data current_idx;
  let cc := Z.land b 240 in
  let current_idx := current_idx + 1 in
  let checksum := slice data current_idx (current_idx + 4) in
  let current_idx := current_idx + 4 in
  do r <- fdir_parse_fss f data current_idx;
  let '(current_idx, size) := r in
  let p := {| eof_fd := eof_fd p; eof_cc := cc; eof_checksum := checksum; eof_size := size;
              eof_fault := eof_fault p |} in
  if len data >? current_idx then
    do t <- entity_unpack (slice_from data current_idx);
    eof_set_fault p (Some t)
  else Ok p.

(* EofPdu.__eq__: `and` chain, the fault locations are compared last with
   EntityIdTlv.__eq__ (numerical value of the ID; ValueError for a value that is not 0, 1, 2,
   4 or 8 octets long) *)
Definition eof_eqb (a b : EofPdu) : res bool :=
  if fdir_eqb (eof_fd a) (eof_fd b) && (eof_cc a =? eof_cc b) &&
     bytes_eqb (eof_checksum a) (eof_checksum b) && (eof_size a =? eof_size b)
  then match eof_fault a, eof_fault b with
       | None, None => Ok true
       | Some x, Some y => entity_eqb x y
       | _, _ => Ok false
       end
  else Ok false.

End OldEof.

Module OldAck.


Definition TS_UNDEFINED : Z := 0.
Definition TS_ACTIVE : Z := 1.
Definition TS_TERMINATED : Z := 2.
Definition TS_UNRECOGNIZED : Z := 3.

Record AckPdu := { ack_fd : fdir; ack_code : Z; ack_subtype : Z; ack_cc : Z; ack_status : Z }.

(* _calculate_directive_field_len *)
Definition ack_calc_len (p : AckPdu) : res AckPdu :=
  let l := 2 in
  let l := if cf_crc (h_conf (fd_hdr (ack_fd p))) =? CRC_WITH_CRC then l + 2 else l in
  do f <- fdir_set_param_len (ack_fd p) l;
  Ok {| ack_fd := f; ack_code := ack_code p; ack_subtype := ack_subtype p; ack_cc := ack_cc p;
        ack_status := ack_status p |}.

(* AckPdu.__init__(pdu_conf, directive_code_of_acked_pdu, condition_code_of_acked_pdu,
   transaction_status): the PDU and the caller's PduConfig afterwards *)
Definition ack_new (conf : PduConfig) (code cc status : Z) : res (AckPdu * PduConfig) :=
  if negb ((code =? DT_FINISHED) || (code =? DT_EOF)) then Err EValue else
  let '(conf', subtype) :=
    if code =? DT_FINISHED then (conf_set_dir conf DIR_TOWARDS_RECEIVER, 1)
    else (conf_set_dir conf DIR_TOWARDS_SENDER, 0) in
  do f <- fdir_new conf' DT_ACK 2;
  do p <- ack_calc_len {| ack_fd := f; ack_code := code; ack_subtype := subtype; ack_cc := cc;
                          ack_status := status |};
  Ok (p, conf).

Definition ack_packet_len (p : AckPdu) : Z := fdir_packet_len (ack_fd p).

(* AckPdu.pack *)
Definition ack_pack (p : AckPdu) : res bytes :=
  do b <- fdir_pack (ack_fd p);
  do b <- ba_append b (Z.lor (Z.shiftl (ack_code p) 4) (ack_subtype p));
  do b <- ba_append b (Z.lor (Z.shiftl (ack_cc p) 4) (ack_status p));
  if cf_crc (h_conf (fd_hdr (ack_fd p))) =? CRC_WITH_CRC then
    do c <- struct_pack 2 (crc16 b); Ok (b ++ c)
  else Ok b.

(* AckPdu.__empty() *)
Definition ack_empty : res AckPdu :=
  do r <- ack_new conf_empty DT_FINISHED 0 TS_UNDEFINED; Ok (fst r).

(* AckPdu.unpack *)
Definition ack_unpack (data : bytes) : res AckPdu :=
  do p <- ack_empty;
  do f <- fdir_unpack data;
  do _ <- hdr_verify_length_and_checksum (fd_hdr f) data;
  let current_idx := fdir_header_len f in
  do b0 <- py_get data current_idx;
  let code := Z.shiftr (Z.land b0 240) 4 in
  let subtype := Z.land b0 15 in
  let current_idx := current_idx + 1 in
  do b1 <- py_get data current_idx;
  let cc := Z.shiftr (Z.land b1 240) 4 in
  let status := Z.land b1 3 in
  Ok {| ack_fd := f; ack_code := code; ack_subtype := subtype; ack_cc := cc; ack_status := status |}.

Definition ack_eqb (a b : AckPdu) : bool :=
  fdir_eqb (ack_fd a) (ack_fd b) && (ack_code a =? ack_code b) && (ack_subtype a =? ack_subtype b) &&
  (ack_cc a =? ack_cc b) && (ack_status a =? ack_status b).

End OldAck.

Module OldPrompt.


Definition RR_NAK : Z := 0.
Definition RR_KEEP_ALIVE : Z := 1.
(* ResponseRequired(x) *)
Definition response_required_of (x : Z) : res Z :=
  if (x =? RR_NAK) || (x =? RR_KEEP_ALIVE) then Ok x else Err EValue.

Record PromptPdu := { pr_fd : fdir; pr_rr : Z }.

(* PromptPdu.__init__(pdu_conf, response_required) *)
Definition prompt_new (conf : PduConfig) (rr : Z) : res (PromptPdu * PduConfig) :=
  let conf' := conf_set_dir conf DIR_TOWARDS_RECEIVER in
  do f <- fdir_new conf' DT_PROMPT 1;
  do f <- (if cf_crc conf' =? CRC_WITH_CRC then fdir_set_param_len f 3 else Ok f);
  Ok ({| pr_fd := f; pr_rr := rr |}, conf).

Definition prompt_packet_len (p : PromptPdu) : Z := fdir_packet_len (pr_fd p).

(* PromptPdu.pack *)
Definition prompt_pack (p : PromptPdu) : res bytes :=
  do b <- fdir_pack (pr_fd p);
  do b <- ba_append b (Z.shiftl (pr_rr p) 7);
  if cf_crc (h_conf (fd_hdr (pr_fd p))) =? CRC_WITH_CRC then
    do c <- struct_pack 2 (crc16 b); Ok (b ++ c)
  else Ok b.

(* PromptPdu.__empty() *)
Definition prompt_empty : res PromptPdu :=
  do r <- prompt_new conf_empty RR_NAK; Ok (fst r).

(* PromptPdu.unpack *)
Definition prompt_unpack (data : bytes) : res PromptPdu :=
  do p <- prompt_empty;
  do f <- fdir_unpack data;
  do _ <- hdr_verify_length_and_checksum (fd_hdr f) data;
  let current_idx := fdir_header_len f in
  if current_idx >=? len data then Err ETooShort else
  do b <- py_get data current_idx;
  do rr <- response_required_of (Z.shiftr (Z.land b 128) 7);
  Ok {| pr_fd := f; pr_rr := rr |}.

Definition prompt_eqb (a b : PromptPdu) : bool :=
  fdir_eqb (pr_fd a) (pr_fd b) && (pr_rr a =? pr_rr b).

End OldPrompt.

Module OldKeepAlive.


Record KeepAlivePdu := { ka_fd : fdir; ka_progress : Z }.

(* KeepAlivePdu.__init__(pdu_conf, progress) *)
Definition ka_new (conf : PduConfig) (progress : Z) : res (KeepAlivePdu * PduConfig) :=
  let l := 4 in
  let l := if cf_large conf =? FILE_LARGE then 8 else l in
  let l := if cf_crc conf =? CRC_WITH_CRC then l + 2 else l in
  let conf' := conf_set_dir conf DIR_TOWARDS_SENDER in
  do f <- fdir_new conf' DT_KEEP_ALIVE l;
  Ok ({| ka_fd := f; ka_progress := progress |}, conf).

(* file_flag setter: header.file_flag = f (the copied PduConfig), then the parameter length *)
Definition ka_set_file_flag (p : KeepAlivePdu) (flag : Z) : res KeepAlivePdu :=
  let l := 4 in
  let l := if flag =? FILE_LARGE then 8 else l in
  let f := ka_fd p in
  let f := {| fd_hdr := hdr_with_conf (fd_hdr f) (conf_set_large (h_conf (fd_hdr f)) flag);
              fd_type := fd_type f |} in
  do f <- fdir_set_param_len f l;
  Ok {| ka_fd := f; ka_progress := ka_progress p |}.

Definition ka_packet_len (p : KeepAlivePdu) : Z := fdir_packet_len (ka_fd p).

(* struct.pack("I", v) / struct.pack("Q", v): native byte order of the host (little-endian
   on the platform the check runs on), struct.error out of range *)
Definition struct_pack_native (n : nat) (v : Z) : res bytes :=
  if (0 <=? v) && (v <? 256 ^ Z.of_nat n) then Ok (le_encode n v) else Err EStruct.

(* KeepAlivePdu.pack *)
Definition ka_pack (p : KeepAlivePdu) : res bytes :=
  do b <- fdir_pack (ka_fd p);
  do s <- (if negb (hdr_large_file (fd_hdr (ka_fd p))) then
             if ka_progress p >? 2 ^ 32 - 1 then Err EValue
             else struct_pack_native 4 (ka_progress p)
           else struct_pack_native 8 (ka_progress p));
  let b := b ++ s in
  if cf_crc (h_conf (fd_hdr (ka_fd p))) =? CRC_WITH_CRC then
    do c <- struct_pack 2 (crc16 b); Ok (b ++ c)
  else Ok b.

(* KeepAlivePdu.__empty() *)
Definition ka_empty : res KeepAlivePdu :=
  do r <- ka_new conf_empty 0; Ok (fst r).

(* KeepAlivePdu.unpack *)
Definition ka_unpack (data : bytes) : res KeepAlivePdu :=
  do p <- ka_empty;
  do f <- fdir_unpack data;
  do _ <- hdr_verify_length_and_checksum (fd_hdr f) data;
  let current_idx := fdir_header_len f in
  let n := if negb (hdr_large_file (fd_hdr f)) then 4 else 8 in
  if len data - current_idx <? n then Err EValue else
  do v <- struct_unpack (Z.to_nat n) (slice data current_idx (current_idx + n));
  Ok {| ka_fd := f; ka_progress := v |}.

Definition ka_eqb (a b : KeepAlivePdu) : bool :=
  fdir_eqb (ka_fd a) (ka_fd b) && (ka_progress a =? ka_progress b).

End OldKeepAlive.


Definition conf1 (crc large : Z) : PduConfig :=
  {| cf_src := {| ubf_val := 0; ubf_len := 1 |}; cf_dst := {| ubf_val := 0; ubf_len := 1 |};
     cf_seq := {| ubf_val := 0; ubf_len := 1 |};
     cf_mode := 0; cf_large := large; cf_crc := crc; cf_dir := 0; cf_segctrl := 0 |}.

(* D-C06-1: condition code 6 comes back as 96 *)
Example eof_condition_code_refuted :
  (do r <- OldEof.eof_new (conf1 0 0) [0;0;0;0] 0 None 6; do b <- OldEof.eof_pack (fst r);
   do p' <- OldEof.eof_unpack b; Ok (OldEof.eof_cc p')) = Ok 96.
Proof. vm_compute. reflexivity. Qed.

(* D-C06-2: with the CRC flag the decoder refuses the constructor's own output *)
Example eof_crc_roundtrip_refuted :
  (do r <- OldEof.eof_new (conf1 1 0) [0;0;0;0] 0 None 0; do b <- OldEof.eof_pack (fst r);
   do p' <- OldEof.eof_unpack b; Ok (OldEof.eof_cc p')) = Err EValue.
Proof. vm_compute. reflexivity. Qed.

(* C09: three trailing octets are folded in as fault location *)
Example eof_suffix_refuted :
  (do r <- OldEof.eof_new (conf1 0 0) [0;0;0;0] 0 None 0; do b <- OldEof.eof_pack (fst r);
   do p' <- OldEof.eof_unpack (b ++ [6; 1; 9]); Ok (OldEof.eof_fault p'))
  = Ok (Some {| tlv_type := 6; tlv_value := [9] |}).
Proof. vm_compute. reflexivity. Qed.

(* C10: AckPdu.unpack escapes with IndexError on a data field of one octet *)
Example ack_total_refuted : OldAck.ack_unpack [37; 0; 1; 0; 121; 60; 214; 6] = Err EIndex.
Proof. vm_compute. reflexivity. Qed.

(* C09: PromptPdu.unpack reads the parameter behind the declared PDU (7 octets) *)
Example prompt_fold_in_refuted :
  (do p <- OldPrompt.prompt_unpack [36; 0; 0; 0; 109; 174; 1; 9; 128]; Ok (OldPrompt.pr_rr p)) = Ok 1 /\
  (do p <- OldPrompt.prompt_unpack [36; 0; 0; 0; 109; 174; 1]; Ok (OldPrompt.pr_rr p)) = Err ETooShort.
Proof. vm_compute. split; reflexivity. Qed.

(* D-C06-6: progress 1 is packed least significant octet first and decoded as 16777216 *)
Example ka_endianness_refuted :
  (do r <- OldKeepAlive.ka_new (conf1 0 0) 1; OldKeepAlive.ka_pack (fst r)) = Ok [40; 0; 5; 0; 0; 0; 0; 12; 1; 0; 0; 0] /\
  (do p <- OldKeepAlive.ka_unpack [40; 0; 5; 0; 0; 0; 0; 12; 0; 0; 0; 1];
   do b <- OldKeepAlive.ka_pack p; Ok (OldKeepAlive.ka_progress p, b))
  = Ok (1, [40; 0; 5; 0; 0; 0; 0; 12; 1; 0; 0; 0]).
Proof. vm_compute. split; reflexivity. Qed.

(* D-C11-2: after the file_flag setter the reported length misses the CRC's two octets *)
Example ka_setter_length_refuted :
  (do r <- OldKeepAlive.ka_new (conf1 1 0) 1; do p2 <- OldKeepAlive.ka_set_file_flag (fst r) 0;
   do b <- OldKeepAlive.ka_pack p2; Ok (OldKeepAlive.ka_packet_len p2, len b)) = Ok (12, 14).
Proof. vm_compute. reflexivity. Qed.
