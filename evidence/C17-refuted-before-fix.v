From Coq Require Import ZArith List Bool.
From SP Require Import Base.Result Base.Bytes Model.UslpHeader Model.UslpFrame Spec.UslpSpec.
Import ListNotations.
Open Scope Z_scope.
(* D-C17-1 *)
Lemma ids_refused_refuted : exists b, ~ ids_in_range b /\ thdr_pack b = Ok [207; 255; 240; 1].
Proof. exists {| scid := -1; src_dest := 0; vcid := 0; map_id := 0 |}. split; [unfold ids_in_range; cbn; intros [[H _] _]; apply H; reflexivity|reflexivity]. Qed.
(* C10: TFDF 1 octet with FHP rule *)
Lemma tfdf_unpack_total_refuted : tfdf_unpack [0] false 1 (Some FtFixed) = Err EIndex.
Proof. reflexivity. Qed.
(* pointer read beyond the data field *)
Lemma tfdf_unpack_overread_refuted : exists t, tfdf_unpack [0; 10; 40; 236] false 2 (Some FtFixed) = Ok t /\ fhp t = Some 2600.
Proof. eexists; split; reflexivity. Qed.
Definition vp := {| p_fixed := false; p_len := 7; iz_present := false; iz_size := 0; fecf_present := true; fecf_size := 2 |}.
Definition fp := {| p_fixed := true; p_len := 9; iz_present := false; iz_size := 0; fecf_present := false; fecf_size := 0 |}.
Lemma frame_unpack_attr_refuted : frame_unpack [192;0;16;35;224;97;98;99;100] FtVariable fp = Err EAttribute.
Proof. reflexivity. Qed.
Lemma frame_prefix_accepted_refuted : exists f, frame_unpack [192; 0; 23; 1; 128] FtVariable vp = Ok f /\ fecf f = Some [].
Proof. eexists; split; reflexivity. Qed.
