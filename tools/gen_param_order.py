#!/usr/bin/env python3
"""Snapshot (from the UNCHANGED tree) of the positional parameter order of the public constructors and
class methods the adapters call: harness/param_order.json.  `core.build` uses the snapshot - never the live
signature - to call with positional arguments, the way a caller written against the documented order does."""
import sys, os, json, inspect, importlib
sys.path.insert(0, os.environ.get('VERIF_REPO', '/repo'))
MODS = ["spacepackets.ccsds.spacepacket", "spacepackets.ecss.tc", "spacepackets.ecss.tm", "spacepackets.ecss.req_id",
        "spacepackets.ecss.fields", "spacepackets.ecss.pus_1_verification", "spacepackets.ecss.pus_verificator",
        "spacepackets.ecss.pus_17_test",
        "spacepackets.ccsds.time.cds", "spacepackets.util", "spacepackets.seqcount",
        "spacepackets.cfdp.conf", "spacepackets.cfdp.lv", "spacepackets.cfdp.tlv.tlv", "spacepackets.cfdp.tlv.msg_to_user",
        "spacepackets.cfdp.pdu.header", "spacepackets.cfdp.pdu.file_directive", "spacepackets.cfdp.pdu.file_data",
        "spacepackets.cfdp.pdu.eof", "spacepackets.cfdp.pdu.ack", "spacepackets.cfdp.pdu.finished",
        "spacepackets.cfdp.pdu.metadata", "spacepackets.cfdp.pdu.nak", "spacepackets.cfdp.pdu.prompt",
        "spacepackets.cfdp.pdu.keep_alive", "spacepackets.cfdp.pdu.helper",
        "spacepackets.uslp.header", "spacepackets.uslp.frame"]
out = {}
for mn in MODS:
    m = importlib.import_module(mn)
    for cname, cls in inspect.getmembers(m, inspect.isclass):
        if cls.__module__ != mn:
            continue
        for attr in ["__init__"] + [a for a, v in vars(cls).items() if isinstance(v, (classmethod, staticmethod))]:
            try:
                fn = getattr(cls, attr)
                sig = inspect.signature(fn)
            except (TypeError, ValueError):
                continue
            names = []
            for p in sig.parameters.values():
                if p.name in ("self", "cls"):
                    continue
                if p.kind in (p.POSITIONAL_ONLY, p.POSITIONAL_OR_KEYWORD):
                    names.append(p.name)
                else:
                    break
            key = "%s.%s" % (cname, attr) if attr != "__init__" else cname
            out[key] = names
json.dump(out, open("/verif/harness/param_order.json", "w"), indent=0, sort_keys=True)
print(len(out), "callables")
