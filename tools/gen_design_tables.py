#!/usr/bin/env python3
"""Rewrites the generated tables of DESIGN.md section 11 (between the BEGIN/END GENERATED markers)
from known_findings*.json, seeded/*/meta.json and evidence/*.json."""
import glob, json, os, re
V = os.path.dirname(os.path.dirname(os.path.abspath(__file__)))

def fixes():
    rows = []
    for p in [os.path.join(V, "known_findings.json")] + sorted(glob.glob(os.path.join(V, "known_findings.d", "*.json"))):
        d = json.load(open(p))
        for f in d.get("fixed", []):
            m = re.match(r"fixed:\s*property=(\S+)\s+(\S+)\s+(.*)", f, re.S)
            if m:
                rows.append((m.group(1), m.group(2), " ".join(m.group(3).split())[:260]))
    rows.sort()
    out = ["| property | `/repo` commit | what failed (witness) |", "|---|---|---|"]
    out += ["| %s | `%s` | %s |" % (a, b, c.replace("|", "/")) for a, b, c in rows]
    return "\n".join(out) + "\n\n%d repaired defects.\n" % len(rows)

def findings():
    rows = []
    for p in [os.path.join(V, "known_findings.json")] + sorted(glob.glob(os.path.join(V, "known_findings.d", "*.json"))):
        for f in json.load(open(p)).get("findings", []):
            rows.append("| %s | `%s` | %s |" % (f["property"], f["signature"], " ".join(f["what"].split())[:300].replace("|", "/")))
    return "\n".join(["| property | signature | what fails |", "|---|---|---|"] + rows) + "\n"

def seeded():
    rows = []
    for d in sorted(glob.glob(os.path.join(V, "seeded", "*", "meta.json"))):
        m = json.load(open(d)); name = os.path.basename(os.path.dirname(d))
        v = m["verification"]
        det = [k for k, c in v["checks"].items() if c["rc"] != 0 and c["violations"]]
        sig = []
        for k, c in v["checks"].items():
            for s in c["signatures"][:1]:
                sig.append(s.split("-> ")[1].split(":")[0] if "-> " in s else s)
        rows.append("| %s | %s | %s | %s | `%s` |" % (name, " ".join(m.get("summary", "").split())[:150].replace("|", "/"),
                                                     " ".join(m.get("needs_to_manifest", "").split())[:110].replace("|", "/"),
                                                     ", ".join(det), "; ".join(dict.fromkeys(sig))[:80]))
    return "\n".join(["| seed | change | needs, to manifest | caught by | first signature |", "|---|---|---|---|---|"] + rows) + "\n\n%d seeded changes.\n" % len(rows)

def evidence():
    rows = []
    for p in sorted(glob.glob(os.path.join(V, "evidence", "C??.json"))):
        e = json.load(open(p)); c = e["coverage"]
        rows.append("| %s | %d / %d | %d | %d | %d | %s | %.0f s |" % (
            e["property_id"], c["discharged"], c["obligations"], c.get("agreement_lemmas", 0), c["evaluations"],
            len(c.get("exhaustive_streams", [])), ", ".join(c.get("partial_or_refuted", [])) or "-", e["wall_s"]))
    return "\n".join(["| id | obligations discharged | of which agreement lemmas | correspondence cases (quick) | exhaustive streams | `_partial` / `_refuted` | quick wall |", "|---|---|---|---|---|---|---|"] + rows) + "\n"

def main():
    p = os.path.join(V, "DESIGN.md")
    s = open(p).read()
    for name, fn in (("fixes", fixes), ("findings", findings), ("seeded", seeded), ("evidence", evidence)):
        a, b = "<!-- BEGIN GENERATED: %s -->" % name, "<!-- END GENERATED: %s -->" % name
        if a in s and b in s:
            i, j = s.index(a) + len(a), s.index(b)
            s = s[:i] + "\n" + fn() + s[j:]
    open(p, "w").write(s)

if __name__ == "__main__":
    main()
