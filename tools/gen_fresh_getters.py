#!/usr/bin/env python3
"""Buffers handed out by getters (round 4, seeded change C08-s2).

Some getters of the CFDP TLV / LV / reserved-message classes hand out an INTERNAL buffer by design (CfdpLv.value, CfdpTlv.value,
EntityIdTlv.value, MessageToUserTlv.value, ...), others hand out a FRESH one (FileStoreRequestTlv.value, every pack(),
the LVs of decoded parameters, ...).  Only for the fresh ones may a check demand "editing the returned bytearray changes nothing".
This script MEASURES the split on the UNCHANGED tree (never run it against a patched library): for every class x
construction path x getter it runs the twin histories of harness/props/c08.py / c18.py (op 1099/1, 1199/1) -- the same
generators the checks use -- and records in which named observations (pack(), value, packet_len, parameters, parsers, ...) the
twin whose returned buffer was edited differs from the untouched one.

A (class, getter) pair is `fresh` when the getter applied to some sampled object and editing what it returned changed neither
pack(), nor packet_len, nor value in ANY sampled history; the checks then demand exactly the observations listed under `stable`.
Output: harness/props/fresh_getters.json.      usage: tools/gen_fresh_getters.py [samples per (kind, path, getter), default 60]"""
import json, os, random, sys
V = os.path.dirname(os.path.dirname(os.path.abspath(__file__)))
REPO = os.environ.get("VERIF_REPO", "/repo")
sys.path[:0] = [REPO, V]
from harness.props import c08, c18   # noqa: E402

MUST = ("pack()", "packet_len", "value")


def measure(mod, reps, seeds):
    acc = {}
    for seed in seeds:
        rng = random.Random(seed)
        for op, a in mod.fresh_cases(rng, reps, every_getter=True):
            cls, getter, edited, differ, applied, names = mod._x_fresh(a)
            e = acc.setdefault(cls, {}).setdefault(getter, {"histories": 0, "applied": 0, "bytearray_edited": 0, "changed": {}, "names": []})
            e["histories"] += 1; e["applied"] += int(applied); e["bytearray_edited"] += int(edited)
            for n in names:
                if n not in e["names"]:
                    e["names"].append(n)
            for d in differ:
                e["changed"][d] = e["changed"].get(d, 0) + 1
    out = {}
    for cls in sorted(acc):
        for getter, e in acc[cls].items():
            if not e["applied"]:
                continue            # the getter does not exist on this class / never applied
            names = e.pop("names")
            e["stable"] = [n for n in names if n not in e["changed"]]
            e["fresh"] = all(m in e["stable"] or m not in names for m in MUST)
            e["hands_out"] = ("a fresh buffer" if e["fresh"] else "internal state (by design)") if e["bytearray_edited"] else \
                "an immutable object on the unchanged tree (the demand is vacuous there)"
            out.setdefault(cls, {})[getter] = e
    return out


def main():
    reps = int(sys.argv[1]) if len(sys.argv) > 1 else 60
    import subprocess
    head = subprocess.run(["git", "-C", REPO, "rev-parse", "--short", "HEAD"], stdout=subprocess.PIPE).stdout.decode().strip()
    dirty = subprocess.run(["git", "-C", REPO, "status", "--porcelain", "--untracked-files=no"], stdout=subprocess.PIPE).stdout.decode().strip()
    if dirty:
        sys.exit("refusing to measure: %s has local changes" % REPO)
    res = {"_measured": {"repo_head": head, "samples_per_kind_path_getter": reps, "seeds": [0, 1, 2],
                         "rule": "fresh = editing the returned bytearray changed neither pack(), packet_len nor value in any sampled twin history"},
           "C08": measure(c08, reps, [0, 1, 2]), "C18": measure(c18, reps, [0, 1, 2])}
    p = os.path.join(V, "harness", "props", "fresh_getters.json")
    json.dump(res, open(p, "w"), indent=1, sort_keys=True)
    for pid in ("C08", "C18"):
        for cls, gs in res[pid].items():
            for g, e in gs.items():
                print("%s %-28s %-58s %-9s edited %5d/%5d  changed: %s" % (pid, cls, g, "FRESH" if e["fresh"] else "aliased", e["bytearray_edited"], e["histories"], sorted(e["changed"])))


if __name__ == "__main__":
    main()
