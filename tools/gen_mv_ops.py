#!/usr/bin/env python3
"""Measure, on the tree under /repo (run it on the UNCHANGED tree only), for which adapter ops the library answers
memoryview arguments exactly like bytes arguments and keeps no view of the caller's buffer; writes
harness/mv_ops.json.  The checks run liveprobe.view_probe only on the ops listed there.  An op is listed only when
NO sampled case of ANY property's streams (quick and thorough tier, up to 2000 cases per stream) shows a difference."""
import sys, os, random, importlib, collections, json, multiprocessing
sys.path.insert(0, '/verif'); sys.path.insert(0, os.environ.get('VERIF_REPO', '/repo'))


def measure(job):
    pid, tier = job
    from harness import core, liveprobe
    prop = importlib.import_module('harness.props.' + pid.lower())
    rng = random.Random(7 if tier == 'quick' else 11)
    stat = collections.defaultdict(lambda: [0, 0])
    for sname, mode, cases in prop.streams(tier, rng):
        cases = list(cases)
        for c in rng.sample(cases, min(len(cases), 2000)):
            r = liveprobe.view_probe(prop.impl, core.run_impl, core.canon_result, c)
            st = stat[c[0]]
            st[0] += 1
            if r is not None:
                st[1] += 1
    return pid, tier, dict(stat)


if __name__ == "__main__":
    jobs = [("C%02d" % n, t) for t in ("thorough", "quick") for n in range(1, 21)]
    with multiprocessing.Pool(16) as pool:
        res = pool.map(measure, jobs, chunksize=1)
    bad, seen, count = set(), collections.defaultdict(set), collections.Counter()
    for pid, tier, stat in res:
        for op, (n, d) in stat.items():
            count[op] += n
            seen[pid].add(op)
            if d:
                bad.add(op)
    out = {pid: sorted(op for op in ops if op not in bad and count[op] >= 50) for pid, ops in sorted(seen.items())}
    out["_measured"] = {"cases_per_op": {str(k): v for k, v in sorted(count.items())}, "ops_with_a_difference": sorted(bad)}
    json.dump(out, open('/verif/harness/mv_ops.json', 'w'), indent=0, sort_keys=True)
    print("listed ops:", sorted({o for k, v in out.items() if k != "_measured" for o in v}))
    print("excluded:", sorted(bad))
