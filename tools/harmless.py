#!/usr/bin/env python3
"""Runs the checks against a PROPERTY-PRESERVING change (a refactoring a maintainer might make) without touching /repo:
  tools/harmless.py <src_dir with patch.diff, meta.json> <name> <check id> [<check id> ...]
1. fresh scratch worktree of /repo HEAD under /tmp/harmchk/<name>, patch must apply, the suite must pass;
2. ./check <id> (quick) with VERIF_REPO pointing at the patched worktree, evidence redirected;
3. prints {"alarms": {...}}: every check that exits non-zero, with its VIOLATION lines and signatures.  A concrete
   signature on a harmless change is a false alarm of the machinery; a `no-failing-input-found` violation means the
   change broke a proof obligation / the correspondence while the property still holds (allowed, but noted);
4. stores the change under /verif/harmless/<name>/ with the result; worktree removed."""
import json, os, shutil, subprocess, sys
V = os.path.dirname(os.path.dirname(os.path.abspath(__file__)))

def sh(cmd):
    return subprocess.run(cmd, shell=True, stdout=subprocess.PIPE, stderr=subprocess.STDOUT)

def main():
    src, name = sys.argv[1:3]
    checks = sys.argv[3:]
    wt = "/tmp/harmchk/%s" % name
    sh("git -C /repo worktree remove --force %s; rm -rf %s" % (wt, wt))
    os.makedirs("/tmp/harmchk", exist_ok=True)
    r = sh("git -C /repo worktree add -q --detach %s HEAD" % wt)
    assert r.returncode == 0, r.stdout
    res = {"repo_head": sh("git -C /repo rev-parse --short HEAD").stdout.decode().strip(), "checks": {}, "alarms": {}}
    try:
        r = sh("git -C %s apply %s" % (wt, os.path.abspath(os.path.join(src, "patch.diff"))))
        res["patch_applies"] = r.returncode == 0
        if r.returncode == 0:
            t = sh("cd %s && PYTHONPATH=%s /venv/bin/python -m pytest -q -p no:cacheprovider --timeout=900 2>&1 | tail -2" % (wt, wt))
            res["suite_with_change"] = t.stdout.decode().strip().splitlines()[-1] if t.stdout else ""
            for cid in checks:
                ev = "/tmp/harmchk/evidence-%s-%s" % (name, cid)
                c = sh("cd %s && VERIF_REPO=%s VERIF_EVIDENCE_DIR=%s ./check %s --tier quick" % (V, wt, ev, cid))
                out = c.stdout.decode()
                vio = [l for l in out.splitlines() if l.startswith("VIOLATION")]
                sig = [l.strip()[:400] for l in out.splitlines() if "  -> " in l]
                res["checks"][cid] = c.returncode
                if c.returncode != 0 or vio:
                    res["alarms"][cid] = {"rc": c.returncode, "violations": vio[:5], "signatures": sig[:6],
                                          "tail": out[-600:] if not sig else ""}
                shutil.rmtree(ev, ignore_errors=True)
        else:
            res["apply_error"] = r.stdout.decode()[-400:]
    finally:
        sh("git -C /repo worktree remove --force %s; rm -rf %s" % (wt, wt))
    dst = os.path.join(V, "harmless", name)
    os.makedirs(dst, exist_ok=True)
    for f in ("patch.diff", "meta.json"):
        if os.path.exists(os.path.join(src, f)) and os.path.abspath(os.path.join(src, f)) != os.path.abspath(os.path.join(dst, f)):
            shutil.copy(os.path.join(src, f), dst)
    json.dump(res, open(os.path.join(dst, "result.json"), "w"), indent=1)
    print(json.dumps(res, indent=1))

if __name__ == "__main__":
    main()
