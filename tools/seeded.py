#!/usr/bin/env python3
"""Confirms a seeded change and runs the checks against it without touching /repo:
  tools/seeded.py <src_dir with patch.diff, demo.py, meta.json> <property id> <name> [extra check ids...]
1. fresh scratch worktree of /repo HEAD under /tmp/seedchk, patch must apply;
2. existing suite passes with the patch; demo fails with it and passes without it;
3. ./check <id> (quick) with VERIF_REPO pointing at the patched worktree, evidence redirected;
4. result copied to /verif/seeded/<name>/ (patch.diff, demo.py, meta.json incl. what was run);
5. worktree removed."""
import json, os, shutil, subprocess, sys, time
V = os.path.dirname(os.path.dirname(os.path.abspath(__file__)))

def sh(cmd, **kw):
    return subprocess.run(cmd, shell=True, stdout=subprocess.PIPE, stderr=subprocess.STDOUT, **kw)

def main():
    src, pid, name = sys.argv[1:4]
    extra = sys.argv[4:]
    wt = "/tmp/seedchk/%s" % name
    sh("git -C /repo worktree remove --force %s; rm -rf %s" % (wt, wt))
    os.makedirs("/tmp/seedchk", exist_ok=True)
    r = sh("git -C /repo worktree add -q --detach %s HEAD" % wt)
    assert r.returncode == 0, r.stdout
    meta = json.load(open(os.path.join(src, "meta.json")))
    res = {"property": pid, "repo_head": sh("git -C /repo rev-parse --short HEAD").stdout.decode().strip()}
    try:
        demo = os.path.join(src, "demo.py")
        env = "PYTHONPATH=%s PYTHONDONTWRITEBYTECODE=1" % wt
        r0 = sh("%s /venv/bin/python %s" % (env, demo))
        res["demo_without_change_rc"] = r0.returncode
        r = sh("git -C %s apply %s" % (wt, os.path.abspath(os.path.join(src, "patch.diff"))))
        res["patch_applies"] = r.returncode == 0
        if r.returncode != 0:
            res["apply_error"] = r.stdout.decode()[-500:]
        else:
            t = sh("cd %s && PYTHONPATH=%s /venv/bin/python -m pytest -q -p no:cacheprovider --timeout=900 2>&1 | tail -2" % (wt, wt))
            res["suite_with_change"] = t.stdout.decode().strip().splitlines()[-1] if t.stdout else ""
            r1 = sh("%s /venv/bin/python %s" % (env, demo))
            res["demo_with_change_rc"] = r1.returncode
            res["demo_with_change_tail"] = r1.stdout.decode()[-300:]
            res["checks"] = {}
            for cid in [pid] + extra:
                ev = "/tmp/seedchk/evidence-%s" % name
                c = sh("cd %s && VERIF_REPO=%s VERIF_EVIDENCE_DIR=%s ./check %s --tier quick" % (V, wt, ev, cid))
                out = c.stdout.decode()
                vio = [l for l in out.splitlines() if l.startswith("VIOLATION")]
                sig = [l for l in out.splitlines() if "  -> " in l]
                res["checks"][cid] = {"rc": c.returncode, "violations": vio[:5], "signatures": sig[:5]}
                shutil.rmtree(ev, ignore_errors=True)
    finally:
        sh("git -C /repo worktree remove --force %s; rm -rf %s" % (wt, wt))
    confirmed = res.get("patch_applies") and res.get("demo_without_change_rc") == 0 and res.get("demo_with_change_rc", 0) != 0 and "passed" in res.get("suite_with_change", "") and "failed" not in res.get("suite_with_change", "")
    res["confirmed"] = bool(confirmed)
    res["detected"] = any(v["rc"] != 0 and v["violations"] for v in res.get("checks", {}).values())
    if confirmed:
        dst = os.path.join(V, "seeded", name)
        os.makedirs(dst, exist_ok=True)
        for f in ("patch.diff", "demo.py"):
            if os.path.abspath(os.path.join(src, f)) != os.path.abspath(os.path.join(dst, f)):
                shutil.copy(os.path.join(src, f), dst)
        meta.update({"breaks_property": pid, "verification": res,
                     "what_was_run": "tools/seeded.py: scratch worktree of /repo HEAD, git apply, full pytest suite, demo with/without the change, ./check %s with VERIF_REPO=<patched worktree>" % " ".join([pid] + extra)})
        json.dump(meta, open(os.path.join(dst, "meta.json"), "w"), indent=1)
    print(json.dumps(res, indent=1))

if __name__ == "__main__":
    main()
