(* family 13, part A: stub, to be filled *)
From Coq Require Import ZArith List Bool.
From SP Require Import Base.Result Base.Bytes Run.Marshal.
Import ListNotations.
Open Scope Z_scope.

Definition run_pdu_a (op : Z) (a : args) : args := [[1; 97]].
