(* family 13, part A (ops 1300-1339): EOF, ACK, Prompt, Keep Alive PDUs and the
   FileDirectivePduBase they are built on. *)
From Coq Require Import ZArith List Bool.
From SP Require Import Base.Result Base.Bytes Run.Marshal Model.PduHeader Run.DispHdr
  Model.FileDirective Model.Lv Model.Tlv Model.Eof Model.Ack Model.Prompt Model.KeepAlive
  Spec.PduHeaderSpec Spec.PduASpec.
Import ListNotations.
Open Scope Z_scope.

Definition pack_res_a (r : res bytes) : list Z :=
  match r with Ok b => 0 :: b | Err e => [1; err_code e] end.

(* ---------------- EOF ----------------
   case line: ids, flags (as for family 12), checksum octets, [file_size; condition_code],
   fault location ([0] = None, 1 :: entity id octets = EntityIdTlv(octets)) *)
Definition fault_of_args (l : list Z) : res (option tlv) :=
  match l with
  | 1 :: v => do t <- entity_new v; Ok (Some t)
  | _ => Ok None
  end.
Definition fault_enc (o : option tlv) : list Z :=
  match o with None => [0] | Some t => 1 :: tlv_value t end.

Definition eof_of_args (a : args) : res (EofPdu * PduConfig) :=
  do c <- conf_of_args (lst 0 a) (lst 1 a);
  do fl <- fault_of_args (lst 4 a);
  eof_new c (lst 2 a) (int 3 0 a) fl (int 3 1 a).

Definition fdir_fields (f : fdir) : args := hdr_fields (fd_hdr f).

Definition eof_fields (p : EofPdu) : args :=
  fdir_fields (eof_fd p) ++
  [[fd_type (eof_fd p); eof_cc p; eof_size p]; eof_checksum p; fault_enc (eof_fault p)].

(* history of fault_location setter calls: each argument list is [0] (None) or 1 :: octets *)
Fixpoint eof_apply (p : EofPdu) (ops : list (list Z)) : res EofPdu :=
  match ops with
  | [] => Ok p
  | o :: r => do fl <- fault_of_args o; do p' <- eof_set_fault p fl; eof_apply p' r
  end.

Definition eof_params_of_args (a : args) : EofParams :=
  {| ep_cc := int 3 1 a; ep_checksum := lst 2 a; ep_size := int 3 0 a;
     ep_fault := match lst 4 a with 1 :: v => Some v | _ => None end |}.

(* ---------------- ACK: ids, flags, [acked directive code; condition code; transaction status] *)
Definition ack_of_args (a : args) : res (AckPdu * PduConfig) :=
  do c <- conf_of_args (lst 0 a) (lst 1 a);
  ack_new c (int 2 0 a) (int 2 1 a) (int 2 2 a).
Definition ack_fields (p : AckPdu) : args :=
  fdir_fields (ack_fd p) ++ [[fd_type (ack_fd p); ack_code p; ack_subtype p; ack_cc p; ack_status p]].

(* ---------------- Prompt: ids, flags, [response_required] *)
Definition prompt_of_args (a : args) : res (PromptPdu * PduConfig) :=
  do c <- conf_of_args (lst 0 a) (lst 1 a);
  prompt_new c (int 2 0 a).
Definition prompt_fields (p : PromptPdu) : args :=
  fdir_fields (pr_fd p) ++ [[fd_type (pr_fd p); pr_rr p]].

(* ---------------- Keep Alive: ids, flags, [progress] *)
Definition ka_of_args (a : args) : res (KeepAlivePdu * PduConfig) :=
  do c <- conf_of_args (lst 0 a) (lst 1 a);
  ka_new c (int 2 0 a).
Definition ka_fields (p : KeepAlivePdu) : args :=
  fdir_fields (ka_fd p) ++ [[fd_type (ka_fd p); ka_progress p]].
(* history of file_flag setter calls: each argument list is [flag] *)
Fixpoint ka_apply (p : KeepAlivePdu) (ops : list (list Z)) : res KeepAlivePdu :=
  match ops with
  | [] => Ok p
  | o :: r => do p' <- ka_set_file_flag p (nth 0 o 0); ka_apply p' r
  end.

Definition conf_after (c : PduConfig) : args := [conf_ids c; conf_flags c].

Definition run_pdu_a (op : Z) (a : args) : args :=
  match op with
  (* EofPdu(conf, checksum, size, fault, cc): fields, then the caller's PduConfig afterwards *)
  | 1300 => ret (fun r => eof_fields (fst r) ++ conf_after (snd r)) (eof_of_args a)
  | 1301 => ret (fun b => [b]) (do r <- eof_of_args a; eof_pack (fst r))
  | 1302 => ret eof_fields (eof_unpack (lst 0 a))
  | 1303 => ret (fun b => [b]) (do p <- eof_unpack (lst 0 a); eof_pack p)
  (* p = EofPdu(...); p2 = unpack(p.pack() ++ suffix): [p2 == p], fields of p2, p2.pack() *)
  | 1304 => ret (fun r => r)
              (do r <- eof_of_args a;
               do b <- eof_pack (fst r);
               do p2 <- eof_unpack (b ++ lst 5 a);
               (* [1] / [0], or [2; class] when __eq__ itself raises *)
               let e := match eof_eqb p2 (fst r) with Ok e => [b2z e] | Err x => [2; err_code x] end in
               Ok (e :: eof_fields p2 ++ [pack_res_a (eof_pack p2)]))
  (* constructor, then a history of fault_location setter calls: fields, packet_len, pack twice *)
  | 1305 => ret (fun p => eof_fields p ++ [[eof_packet_len p]; pack_res_a (eof_pack p); pack_res_a (eof_pack p)])
              (do r <- eof_of_args a; eof_apply (fst r) (skipn 5 a))
  (* AckPdu *)
  | 1310 => ret (fun r => ack_fields (fst r) ++ conf_after (snd r)) (ack_of_args a)
  | 1311 => ret (fun b => [b]) (do r <- ack_of_args a; ack_pack (fst r))
  | 1312 => ret ack_fields (ack_unpack (lst 0 a))
  | 1313 => ret (fun b => [b]) (do p <- ack_unpack (lst 0 a); ack_pack p)
  | 1314 => ret (fun r => r)
              (do r <- ack_of_args a;
               do b <- ack_pack (fst r);
               do p2 <- ack_unpack (b ++ lst 3 a);
               Ok ([b2z (ack_eqb p2 (fst r))] :: ack_fields p2 ++ [pack_res_a (ack_pack p2)]))
  (* PromptPdu *)
  | 1315 => ret (fun r => prompt_fields (fst r) ++ conf_after (snd r)) (prompt_of_args a)
  | 1316 => ret (fun b => [b]) (do r <- prompt_of_args a; prompt_pack (fst r))
  | 1317 => ret prompt_fields (prompt_unpack (lst 0 a))
  | 1318 => ret (fun b => [b]) (do p <- prompt_unpack (lst 0 a); prompt_pack p)
  | 1319 => ret (fun r => r)
              (do r <- prompt_of_args a;
               do b <- prompt_pack (fst r);
               do p2 <- prompt_unpack (b ++ lst 3 a);
               Ok ([b2z (prompt_eqb p2 (fst r))] :: prompt_fields p2 ++ [pack_res_a (prompt_pack p2)]))
  (* KeepAlivePdu *)
  | 1320 => ret (fun r => ka_fields (fst r) ++ conf_after (snd r)) (ka_of_args a)
  | 1321 => ret (fun b => [b]) (do r <- ka_of_args a; ka_pack (fst r))
  | 1322 => ret ka_fields (ka_unpack (lst 0 a))
  | 1323 => ret (fun b => [b]) (do p <- ka_unpack (lst 0 a); ka_pack p)
  | 1324 => ret (fun r => r)
              (do r <- ka_of_args a;
               do b <- ka_pack (fst r);
               do p2 <- ka_unpack (b ++ lst 3 a);
               Ok ([b2z (ka_eqb p2 (fst r))] :: ka_fields p2 ++ [pack_res_a (ka_pack p2)]))
  (* constructor, then a history of file_flag setter calls: fields, packet_len, pack twice *)
  | 1325 => ret (fun p => ka_fields p ++ [[ka_packet_len p]; pack_res_a (ka_pack p); pack_res_a (ka_pack p)])
              (do r <- ka_of_args a; ka_apply (fst r) (skipn 3 a))
  (* FileDirectivePduBase.unpack(data): header fields, directive code, header_len *)
  | 1326 => ret (fun f => fdir_fields f ++ [[fd_type f; fdir_header_len f; fdir_param_len f]]) (fdir_unpack (lst 0 a))
  (* FileDirectivePduBase(conf, code, param_len).pack() *)
  | 1327 => ret (fun b => [b])
              (do c <- conf_of_args (lst 0 a) (lst 1 a);
               do f <- fdir_new c (int 2 0 a) (int 2 1 a); fdir_pack f)
  (* FileDirectivePduBase(conf, 10, 0)._verify_file_len(file_size) *)
  | 1328 => ret (fun _ => [])
              (do c <- conf_of_args (lst 0 a) (lst 1 a);
               do f <- fdir_new c DT_NONE 0; fdir_verify_file_len f (int 2 0 a))
  (* FileDirectivePduBase(conf, 10, 0).parse_fss_field(raw, idx) *)
  | 1329 => ret (fun r => [[fst r; snd r]])
              (do c <- conf_of_args (lst 0 a) (lst 1 a);
               do f <- fdir_new c DT_NONE 0; fdir_parse_fss f (lst 2 a) (int 3 0 a))
  (* C04: K.unpack(octets xor error pattern) *)
  | 1334 => ret eof_fields (eof_unpack (xor_bytes (lst 0 a) (lst 1 a)))
  | 1335 => ret ack_fields (ack_unpack (xor_bytes (lst 0 a) (lst 1 a)))
  | 1336 => ret prompt_fields (prompt_unpack (xor_bytes (lst 0 a) (lst 1 a)))
  | 1337 => ret ka_fields (ka_unpack (xor_bytes (lst 0 a) (lst 1 a)))
  (* Spec side (independent oracle): the layouts of (conf fields, parameters) *)
  | 1330 => [[0]; eof_layout (hdr_conf_raw (lst 0 a) (lst 1 a)) (eof_params_of_args a)]
  | 1331 => [[0]; ack_layout (hdr_conf_raw (lst 0 a) (lst 1 a))
                    {| ap_code := int 2 0 a; ap_cc := int 2 1 a; ap_status := int 2 2 a |}]
  | 1332 => [[0]; prompt_layout (hdr_conf_raw (lst 0 a) (lst 1 a)) (int 2 0 a)]
  | 1333 => [[0]; ka_layout (hdr_conf_raw (lst 0 a) (lst 1 a)) (int 2 0 a)]
  | _ => [[1; 97]]
  end.
