(* run_case : one dispatcher from operation number + marshalled arguments to a
   marshalled result.  Extracted to OCaml; the driver only converts text. *)
From Coq Require Import ZArith List Bool.
From SP Require Import Base.Result Base.Bytes Run.Marshal.
From SP Require Import Run.DispSph.
Import ListNotations.
Open Scope Z_scope.

Definition run_case (op : Z) (a : args) : args :=
  let fam := op / 100 in
  if fam =? 1 then run_sph op a
  else [[1; 97]].
