(* run_case : one dispatcher from operation number + marshalled arguments to a
   marshalled result.  Extracted to OCaml; the driver only converts text.
   Family = op / 100. *)
From Coq Require Import ZArith List Bool.
From SP Require Import Base.Result Base.Bytes Run.Marshal.
From SP Require Import Run.DispSph Run.DispUbf Run.DispSeq Run.DispCds Run.DispTc Run.DispTm Run.DispSrv1 Run.DispVerif Run.DispParser Run.DispTlv Run.DispMsg Run.DispHdr Run.DispPdu Run.DispFileData Run.DispFactory Run.DispUslp Run.DispCrc Run.DispCross.
Import ListNotations.
Open Scope Z_scope.

(* Ops x99 of every family are explorations OUTSIDE the model (argument types, file-system objects, ...):
   the adapter itself evaluates a statement about the implementation and answers [1] when it holds; the
   model's side is this constant.  Such streams are labelled `explored only` in the evidence. *)
Definition run_case (op : Z) (a : args) : args :=
  if op mod 100 =? 99 then [[0]; [1]] else
  match op / 100 with
  | 1 => run_sph op a
  | 2 => run_ubf op a
  | 3 => run_seq op a
  | 4 => run_cds op a
  | 5 => run_tc op a
  | 6 => run_tm op a
  | 7 => run_srv1 op a
  | 8 => run_verif op a
  | 9 => run_parser op a
  | 10 => run_tlv op a
  | 11 => run_msg op a
  | 12 => run_hdr op a
  | 13 => run_pdu op a
  | 14 => run_filedata op a
  | 15 => run_factory op a
  | 16 => run_uslp op a
  | 17 => run_crc op a
  | 18 => run_cross op a
  | _ => [[1; 97]]
  end.
