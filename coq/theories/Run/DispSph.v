From Coq Require Import ZArith List Bool.
From SP Require Import Base.Result Base.Bytes Run.Marshal Model.SpacePacket Spec.SpacePacketSpec.
Import ListNotations.
Open Scope Z_scope.

Definition sph_fields (h : sph) : list Z :=
  [ver h; ptype h; shf h; apid h; sflags h; scount h; dlen h].
(* argument order of the case line: [ptype; apid; scount; dlen; shf; sflags; ver] *)
Definition sph_of_args (l : list Z) : res sph :=
  sph_new (nth 0 l 0) (nth 1 l 0) (nth 2 l 0) (nth 3 l 0) (nth 4 l 0) (nth 5 l 0) (nth 6 l 0).
Definition sph_raw_of_fields (l : list Z) : sph :=
  {| ver := nth 0 l 0; ptype := nth 1 l 0; shf := nth 2 l 0; apid := nth 3 l 0;
     sflags := nth 4 l 0; scount := nth 5 l 0; dlen := nth 6 l 0 |}.

Definition run_sph (op : Z) (a : args) : args :=
  match op with
  | 100 => ret (fun h => [sph_fields h; [sph_packet_len h]]) (sph_of_args (lst 0 a))
  | 101 => ret (fun b => [b]) (do h <- sph_of_args (lst 0 a); sph_pack h)
  | 102 => ret (fun h => [sph_fields h; [sph_packet_len h]]) (sph_unpack (lst 0 a))
  | 103 => ret (fun p => [[pid_raw p]]) (pid_new (int 0 0 a) (int 0 1 a) (int 0 2 a))
  | 104 => ret (fun p => [[pid_ptype p; pid_shf p; pid_apid p]]) (pid_from_raw (int 0 0 a))
  | 105 => ret (fun p => [[psc_raw p]]) (psc_new (int 0 0 a) (int 0 1 a))
  | 106 => ret (fun p => [[psc_flags p; psc_count p]]) (psc_from_raw (int 0 0 a))
  | 107 => let '(b1, b2) := get_space_packet_id_bytes (int 0 0 a) (int 0 1 a) (int 0 2 a) (int 0 3 a)
           in [[0]; [b1; b2]]
  | 108 => ret (fun r => [[r]]) (get_sp_packet_id_raw (int 0 0 a) (int 0 1 a) (int 0 2 a))
  | 109 => ret (fun r => [[r]]) (get_sp_psc_raw (int 0 0 a) (int 0 1 a))
  | 110 => ret (fun r => [[r]]) (get_apid_from_raw_space_packet (lst 0 a))
  | 111 => [[0]; [get_total_space_packet_len_from_len_field (int 0 0 a)]]
  | 112 => ret (fun b => [b])
             (do h <- sph_of_args (lst 0 a);
              space_packet_pack h (opt_bytes (lst 1 a)) (opt_bytes (lst 2 a)))
  | 113 => ret (fun b => [b]) (do h <- sph_unpack (lst 0 a); sph_pack h)
  (* Spec side (independent oracle): the layout of a field tuple *)
  | 150 => [[0]; sph_layout (sph_raw_of_fields (lst 0 a))]
  | _ => [[1; 97]]
  end.
