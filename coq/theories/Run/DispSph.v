From Coq Require Import ZArith List Bool.
From SP Require Import Base.Result Base.Bytes Run.Marshal Model.SpacePacket Spec.SpacePacketSpec.
Import ListNotations.
Open Scope Z_scope.

Definition sph_fields (h : sph) : list Z :=
  [ver h; ptype h; shf h; apid h; sflags h; scount h; dlen h].
(* argument order of the case line: [ptype; apid; scount; dlen; shf; sflags; ver] *)
Definition sph_of_args (l : list Z) : res sph :=
  sph_new (nth 0 l 0) (nth 1 l 0) (nth 2 l 0) (nth 3 l 0) (nth 4 l 0) (nth 5 l 0) (nth 6 l 0).
Definition sph_raw_of_fields (l : list Z) : sph :=
  {| ver := nth 0 l 0; ptype := nth 1 l 0; shf := nth 2 l 0; apid := nth 3 l 0;
     sflags := nth 4 l 0; scount := nth 5 l 0; dlen := nth 6 l 0 |}.


(* ---- histories (ops 120-124) ---- *)
Definition res_list_b (r : res bytes) : list Z :=
  match r with Ok b => 0 :: b | Err e => [1; err_code e] end.
Definition res_list_eq (r : res (bool * bool)) : list Z :=
  match r with Ok (e1, e2) => [0; b2z e1; b2z e2; b2z e1; b2z e2] | Err e => [1; err_code e] end.

(* one operation of a header history: [k; v]; 6, 7, 11, 12, 13 are the same assignments made
   through the public packet_id / packet_seq_control sub-objects *)
Definition sph_op_of (l : list Z) : sph_op :=
  match l with
  | 0 :: v :: _ => SoApid v | 1 :: v :: _ => SoCount v | 2 :: v :: _ => SoFlags v
  | 3 :: v :: _ => SoPtype v | 4 :: v :: _ => SoShf v | 5 :: v :: _ => SoDlen v
  | 6 :: v :: _ => SoApid v | 7 :: v :: _ => SoCount v
  | 8 :: _ => SoPack | 10 :: _ => SoEqFresh
  | 11 :: v :: _ => SoPtype v | 12 :: v :: _ => SoShf v | 13 :: v :: _ => SoFlags v
  | _ => SoObserve
  end.
Definition sph_view (h : sph) : list Z :=
  sph_fields h ++ [sph_packet_len h; pid_raw (sph_pid h); psc_raw (sph_psc h); CCSDS_HEADER_LEN].
Definition sph_row (h : sph) (o : sph_op) : list Z :=
  match o with
  | SoPack => res_list_b (sph_pack h)
  | SoEqFresh => res_list_eq (sph_eq_fresh h)
  | _ => sph_view h
  end.
Fixpoint run_sph_history (h : sph) (ops : args) : args :=
  match ops with
  | [] => []
  | o :: r => let h' := sph_apply h (sph_op_of o) in sph_row h' (sph_op_of o) :: run_sph_history h' r
  end.
(* construction path: 0 constructor, 1 from_composite_fields, 2 unpack(bytearray(pack()) ++ suffix) *)
Definition sph_build (kind : Z) (l : list Z) : res sph :=
  if kind =? 1 then
    sph_from_composite (nth 0 l 0) (nth 1 l 0) (nth 2 l 0) (nth 3 l 0) (nth 4 l 0) (nth 5 l 0) (nth 6 l 0)
  else if kind =? 2 then
    do h <- sph_of_args l; do b <- sph_pack h; sph_unpack (b ++ [165; 90])
  else sph_of_args l.
(* the caller's PacketId / PacketSeqCtrl handed to from_composite_fields, after the history *)
Definition caller_row (l : list Z) : list Z := [nth 0 l 0; nth 4 l 0; nth 1 l 0; nth 5 l 0; nth 2 l 0].

(* SpacePacket histories: [20 + k; v] = header operation k; [30; has; octets] sec_header := ;
   [31; has; octets] user_data := ; [32] pack; [33] eq with a fresh packet; else observe *)
Definition spkt_op_of (l : list Z) : spkt_op :=
  match l with
  | 30 :: r => SpSetSec (opt_bytes r)
  | 31 :: r => SpSetUd (opt_bytes r)
  | 32 :: _ => SpPack
  | 33 :: _ => SpEqFresh
  | k :: r => if (20 <=? k) && (k <? 30) then SpHdr (sph_op_of (k - 20 :: r)) else SpObserve
  | [] => SpObserve
  end.
Definition spkt_row (p : spkt) (o : spkt_op) : list Z :=
  match o with
  | SpPack => res_list_b (spkt_pack p)
  | SpEqFresh => res_list_eq (spkt_eq_fresh p)
  | _ => [apid (sp_h p); scount (sp_h p); shf (sp_h p); dlen (sp_h p)]
  end.
Fixpoint run_spkt_history (p : spkt) (ops : args) : args :=
  match ops with
  | [] => []
  | o :: r => let p' := spkt_apply p (spkt_op_of o) in spkt_row p' (spkt_op_of o) :: run_spkt_history p' r
  end.

Definition run_sph (op : Z) (a : args) : args :=
  match op with
  | 100 => ret (fun h => [sph_fields h; [sph_packet_len h]]) (sph_of_args (lst 0 a))
  | 101 => ret (fun b => [b]) (do h <- sph_of_args (lst 0 a); sph_pack h)
  | 102 => ret (fun h => [sph_fields h; [sph_packet_len h]]) (sph_unpack (lst 0 a))
  | 103 => ret (fun p => [[pid_raw p]]) (pid_new (int 0 0 a) (int 0 1 a) (int 0 2 a))
  | 104 => ret (fun p => [[pid_ptype p; pid_shf p; pid_apid p]]) (pid_from_raw (int 0 0 a))
  | 105 => ret (fun p => [[psc_raw p]]) (psc_new (int 0 0 a) (int 0 1 a))
  | 106 => ret (fun p => [[psc_flags p; psc_count p]]) (psc_from_raw (int 0 0 a))
  | 107 => let '(b1, b2) := get_space_packet_id_bytes (int 0 0 a) (int 0 1 a) (int 0 2 a) (int 0 3 a)
           in [[0]; [b1; b2]]
  | 108 => ret (fun r => [[r]]) (get_sp_packet_id_raw (int 0 0 a) (int 0 1 a) (int 0 2 a))
  | 109 => ret (fun r => [[r]]) (get_sp_psc_raw (int 0 0 a) (int 0 1 a))
  | 110 => ret (fun r => [[r]]) (get_apid_from_raw_space_packet (lst 0 a))
  | 111 => [[0]; [get_total_space_packet_len_from_len_field (int 0 0 a)]]
  | 112 => ret (fun b => [b])
             (do h <- sph_of_args (lst 0 a);
              space_packet_pack h (opt_bytes (lst 1 a)) (opt_bytes (lst 2 a)))
  | 113 => ret (fun b => [b]) (do h <- sph_unpack (lst 0 a); sph_pack h)
  (* SpacePacket.pack twice (parts given as bytes or bytearray: same octets) *)
  | 114 => ret (fun b => [b; b; [1]])
             (do h <- sph_of_args (lst 0 a);
              space_packet_pack h (opt_bytes (lst 1 a)) (opt_bytes (lst 2 a)))
  (* header history: a0 = constructor arguments, a1 = [construction path], a2.. = operations *)
  | 120 => ret (fun h => run_sph_history h (skipn 2 a) ++ [caller_row (lst 0 a)])
             (sph_build (int 1 0 a) (lst 0 a))
  (* unpack from a (long) bytearray that is overwritten afterwards, observed twice *)
  | 121 => ret (fun h => [sph_view h; res_list_b (sph_pack h); sph_view h])
             (sph_unpack (lst 0 a))
  (* two headers decoded in a row, both re-inspected afterwards *)
  | 122 => ret (fun r => [sph_view (fst r); sph_view (snd r); sph_view (fst r);
                          res_list_eq (do e <- sph_eq_res (fst r) (snd r);
                                       do e' <- sph_eq_res (snd r) (fst r); Ok (e, e'))])
             (do x <- sph_unpack (lst 0 a); do y <- sph_unpack (lst 1 a); Ok (x, y))
  (* SpacePacket history: a0 = header, a1 = sec, a2 = user data, a3 = flags (adapter only), a4.. = ops *)
  | 123 => ret (fun h => run_spkt_history {| sp_h := h; sp_sec := opt_bytes (lst 1 a);
                                             sp_ud := opt_bytes (lst 2 a) |} (skipn 4 a) ++ [[1]])
             (sph_of_args (lst 0 a))
  (* PacketId / PacketSeqCtrl objects: a0 = [kind; ...]; attribute assignments then raw() and == *)
  | 124 => ret (fun r => [[pid_raw (fst r); b2z (pid_raw (fst r) =? pid_raw (snd r));
                           b2z (pid_raw (snd r) =? pid_raw (fst r)); 0]])
             (do p <- (if int 0 0 a =? 1 then pid_from_raw (int 0 1 a)
                       else if int 0 0 a =? 2 then pid_new PT_TM 0 0
                       else pid_new (int 0 1 a) (int 0 2 a) (int 0 3 a));
              let p' := {| pid_ptype := if int 1 0 a =? 0 then pid_ptype p else int 1 1 a;
                           pid_shf := if int 1 2 a =? 0 then pid_shf p else int 1 3 a;
                           pid_apid := if int 1 4 a =? 0 then pid_apid p else int 1 5 a |} in
              do q <- pid_new (int 2 0 a) (int 2 1 a) (int 2 2 a);
              Ok (p', q))
  | 125 => ret (fun r => [[psc_raw (fst r); b2z (psc_raw (fst r) =? psc_raw (snd r));
                           b2z (psc_raw (snd r) =? psc_raw (fst r)); 0]])
             (do p <- (if int 0 0 a =? 1 then psc_from_raw (int 0 1 a)
                       else if int 0 0 a =? 2 then psc_new SF_CONT 0
                       else psc_new (int 0 1 a) (int 0 2 a));
              let p' := {| psc_flags := if int 1 0 a =? 0 then psc_flags p else int 1 1 a;
                           psc_count := if int 1 2 a =? 0 then psc_count p else int 1 3 a |} in
              do q <- psc_new (int 2 0 a) (int 2 1 a);
              Ok (p', q))
  (* Spec side (independent oracle): the layout of a field tuple *)
  | 150 => [[0]; sph_layout (sph_raw_of_fields (lst 0 a))]
  | _ => [[1; 97]]
  end.
