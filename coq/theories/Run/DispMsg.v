(* family 11: reserved CFDP messages (MessageToUserTlv.is_reserved/to_reserved, ReservedCfdpMessage) *)
From Coq Require Import ZArith List Bool.
From SP Require Import Base.Result Base.Bytes Run.Marshal Run.DispTlv Model.Lv Model.Tlv Model.TlvHist Model.MsgToUser
  Model.MsgHist Spec.TlvSpec Spec.MsgSpec.
Import ListNotations.
Open Scope Z_scope.

Definition msg_view (r : tlv) : args :=
  [rb (tlv_pack r); tlv_value r; [tlv_packet_len r]; [tlv_type r]].

Definition ubf_l (u : ubf) : list Z := [fst u; snd u].

(* MessageToUserTlv.unpack(data).to_reserved_msg_tlv(), then a parser:
   [[0]] not reserved, [[1]] parser answered None, [2]::fields otherwise *)
Definition pipeline {A} (data : bytes) (g : tlv -> res (option A)) (f : A -> args) : args :=
  ret (fun x => x)
    (do t <- msg_unpack data;
     do o <- to_reserved_msg_tlv t;
     match o with
     | None => Ok [[0]]
     | Some r => do x <- g r; Ok (match x with None => [[1]] | Some y => [2] :: f y end)
     end).

Definition opt_z (o : option Z) : Z := match o with Some x => x | None => -1 end.

(* the nine builders on marshalled arguments (argument conventions of ops 1100..1108) *)
Definition build_msg (k : Z) (a : args) : res tlv :=
  if k =? 0 then
    do id <- ubf_new (int 0 0 a) (int 0 1 a);
    do s <- lv_new (lst 1 a); do d <- lv_new (lst 2 a);
    proxy_put_request id s d
  else if k =? 1 then proxy_cancel_request
  else if k =? 2 then proxy_closure_request (int 0 0 a)
  else if k =? 3 then proxy_transmission_mode (int 0 0 a)
  else if k =? 4 then
    do s <- ubf_new (int 0 0 a) (int 0 1 a); do q <- ubf_new (int 0 2 a) (int 0 3 a);
    originating_transaction_id s q
  else if k =? 5 then do p <- lv_new (lst 0 a); do n <- lv_new (lst 1 a); directory_listing_request p n
  else if k =? 6 then
    do p <- lv_new (lst 1 a); do n <- lv_new (lst 2 a); directory_listing_response (int 0 0 a) p n
  else if k =? 7 then directory_listing_parameters (int 0 0 a) (int 0 1 a)
  else if k =? 8 then proxy_put_response (int 0 0 a) (int 0 1 a) (int 0 2 a)
  else Err EOther.

(* ---- live-object histories (Model/MsgHist.v) ----
   args: [kind; flavour]; three argument lists (conventions of the builder / constructor); then one list per
   operation.  kind 0..8 the builders, 9 ReservedCfdpMessage(type, value), 10 MessageToUserTlv(value),
   11 MessageToUserTlv.unpack(data), 12 MessageToUserTlv.from_tlv(CfdpTlv(type, value)),
   13 MessageToUserTlv.unpack(data).to_reserved_msg_tlv() *)
Definition mnew (kind : Z) (a : args) : res mobj :=
  if kind <=? 8 then do t <- build_msg kind a; Ok {| mo_reserved := true; mo_tlv := t |}
  else if kind =? 9 then do t <- reserved_new (int 0 0 a) (lst 1 a); Ok {| mo_reserved := true; mo_tlv := t |}
  else if kind =? 10 then do t <- msg_new (lst 0 a); Ok {| mo_reserved := false; mo_tlv := t |}
  else if kind =? 11 then do t <- msg_unpack (lst 0 a); Ok {| mo_reserved := false; mo_tlv := t |}
  else if kind =? 12 then
    do g <- tlv_new (int 0 0 a) (lst 1 a); do t <- msg_from_tlv g; Ok {| mo_reserved := false; mo_tlv := t |}
  else if kind =? 13 then
    do o <- decode_reserved (lst 0 a);
    match o with Some t => Ok {| mo_reserved := true; mo_tlv := t |} | None => Err EOther end
  else Err EOther.

Definition mop_of (l : list Z) : mop :=
  match l with
  | 0 :: _ => MPack
  | 1 :: _ => MClassify
  | 2 :: k :: _ => MParser k
  | 3 :: _ => MToGeneric
  | 4 :: _ => MIsReserved
  | 5 :: _ => MToReserved
  | 6 :: ty :: v => MSetTlv ty v
  | 7 :: x :: _ => MSubType x
  | 8 :: x :: _ => MSetType x
  | 9 :: v => MSetValue v
  | 10 :: x :: _ => MSetPacketLen x
  | _ => MBad
  end.

Definition rl (r : res (list Z)) : list Z :=
  match r with Ok b => 0 :: b | Err e => [1; err_canon e] end.

Definition run_msg_history (a : args) : args :=
  ret (fun o => mview o ++ flat_map (fun rv => rl (fst rv) :: snd rv) (mrun o (map mop_of (skipn 4 a))))
      (mnew (int 0 0 a) (skipn 1 a)).

(* two messages decoded one after the other; the first one's parameters are looked at again afterwards (the
   parameter objects handed out first, and a second call of the parser on the first message) *)
Definition decode_get (data : bytes) (k : Z) : res (list Z) :=
  do o <- decode_reserved data;
  match o with None => Ok [0] | Some r => parser_out k r end.

Definition run_two_decodes (a : args) : args :=
  ret (fun x => x)
    (do x <- decode_get (lst 0 a) (int 2 0 a);
     do y <- decode_get (lst 1 a) (int 2 1 a);
     Ok [x; y; x; x]).

Definition run_msg (op : Z) (a : args) : args :=
  match op with
  | 1160 => run_msg_history a
  | 1161 => run_two_decodes a
  | 1100 => ret msg_view
              (do id <- ubf_new (int 0 0 a) (int 0 1 a);
               do s <- lv_new (lst 1 a); do d <- lv_new (lst 2 a);
               proxy_put_request id s d)
  | 1101 => ret msg_view proxy_cancel_request
  | 1102 => ret msg_view (proxy_closure_request (int 0 0 a))
  | 1103 => ret msg_view (proxy_transmission_mode (int 0 0 a))
  | 1104 => ret msg_view
              (do s <- ubf_new (int 0 0 a) (int 0 1 a); do q <- ubf_new (int 0 2 a) (int 0 3 a);
               originating_transaction_id s q)
  | 1105 => ret msg_view
              (do p <- lv_new (lst 0 a); do n <- lv_new (lst 1 a); directory_listing_request p n)
  | 1106 => ret msg_view
              (do p <- lv_new (lst 1 a); do n <- lv_new (lst 2 a);
               directory_listing_response (int 0 0 a) p n)
  | 1107 => ret msg_view (directory_listing_parameters (int 0 0 a) (int 0 1 a))
  | 1108 => ret msg_view (proxy_put_response (int 0 0 a) (int 0 1 a) (int 0 2 a))
  | 1109 => ret msg_view (reserved_new (int 0 0 a) (lst 1 a))
  | 1110 => ret (fun b => [[b2z b]]) (do t <- msg_new (lst 0 a); is_reserved_cfdp_message t)
  | 1111 => ret (fun x => x)
              (do t <- msg_unpack (lst 0 a);
               do o <- to_reserved_msg_tlv t;
               match o with
               | None => Ok [[0]]
               | Some r =>
                 do mt <- get_reserved_cfdp_message_type r;
                 do p <- is_cfdp_proxy_operation r; do d <- is_directory_operation r;
                 do g <- is_originating_transaction_id r;
                 do pt <- get_cfdp_proxy_message_type r; do dt <- get_directory_operation_type r;
                 do gen <- to_generic_msg_to_user_tlv r;
                 Ok ([[1]; [mt]; [b2z p; b2z d; b2z g]; [opt_z pt]; [opt_z dt]; tlv_value r;
                      rb (tlv_pack gen)])
               end)
  | 1112 => pipeline (lst 0 a) get_originating_transaction_id
              (fun x => [ubf_l (fst x) ++ ubf_l (snd x)])
  | 1113 => pipeline (lst 0 a) get_proxy_put_request_params
              (fun x => [ubf_l (fst (fst x)); snd (fst x); snd x])
  | 1114 => pipeline (lst 0 a) get_proxy_put_response_params
              (fun x => [[fst (fst x); snd (fst x); snd x]])
  | 1115 => pipeline (lst 0 a) get_proxy_closure_requested (fun x => [[x]])
  | 1116 => pipeline (lst 0 a) get_proxy_transmission_mode (fun x => [[x]])
  | 1117 => pipeline (lst 0 a) get_dir_listing_request_params (fun x => [fst x; snd x])
  | 1118 => pipeline (lst 0 a) get_dir_listing_response_params
              (fun x => [[fst (fst x)]; snd (fst x); snd x])
  | 1119 => pipeline (lst 0 a) get_dir_listing_options (fun x => [[fst x; snd x]])
  (* Spec side: the standard's layout of each message kind *)
  | 1150 => [[0]; reserved_layout MT_PROXY_PUT_REQUEST
                    (put_request_fields (Z.to_nat (int 0 1 a)) (int 0 0 a) (lst 1 a) (lst 2 a))]
  | 1151 => [[0]; reserved_layout MT_PROXY_PUT_CANCEL []]
  | 1152 => [[0]; reserved_layout MT_PROXY_CLOSURE_REQUEST (closure_fields (int 0 0 a))]
  | 1153 => [[0]; reserved_layout MT_PROXY_TRANSMISSION_MODE (transmission_mode_fields (int 0 0 a))]
  | 1154 => [[0]; reserved_layout MT_ORIGINATING_TRANSACTION_ID
                    (originating_id_fields (Z.to_nat (int 0 1 a)) (int 0 0 a)
                                           (Z.to_nat (int 0 3 a)) (int 0 2 a))]
  | 1155 => [[0]; reserved_layout MT_DIRECTORY_LISTING_REQUEST (dir_request_fields (lst 0 a) (lst 1 a))]
  | 1156 => [[0]; reserved_layout MT_DIRECTORY_LISTING_RESPONSE
                    (dir_response_fields (int 0 0 a) (lst 1 a) (lst 2 a))]
  | 1157 => [[0]; reserved_layout MT_CUSTOM_LISTING_PARAMETERS (dir_options_fields (int 0 0 a) (int 0 1 a))]
  | 1158 => [[0]; reserved_layout MT_PROXY_PUT_RESPONSE
                    (put_response_fields (int 0 0 a) (int 0 1 a) (int 0 2 a))]
  | _ => [[1; 97]]
  end.
