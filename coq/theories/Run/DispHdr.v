(* family 12: CFDP fixed PDU header (PduHeader, PduConfig, header_len_from_raw). *)
From Coq Require Import ZArith List Bool.
From SP Require Import Base.Result Base.Bytes Run.Marshal Model.PduHeader Model.PduHeaderOps Spec.PduHeaderSpec.
Import ListNotations.
Open Scope Z_scope.

(* case-line encoding of a PduConfig: [src_val; src_len; dst_val; dst_len; seq_val; seq_len]
   and [mode; large; crc; dir; segctrl]; the three byte fields are built with
   UnsignedByteField(val, len) in this order. *)
Definition conf_of_args (ids flags : list Z) : res PduConfig :=
  do src <- ubf_new (nth 0 ids 0) (nth 1 ids 0);
  do dst <- ubf_new (nth 2 ids 0) (nth 3 ids 0);
  do seq <- ubf_new (nth 4 ids 0) (nth 5 ids 0);
  Ok {| cf_src := src; cf_dst := dst; cf_seq := seq;
        cf_mode := nth 0 flags 0; cf_large := nth 1 flags 0; cf_crc := nth 2 flags 0;
        cf_dir := nth 3 flags 0; cf_segctrl := nth 4 flags 0 |}.

Definition conf_ids (c : PduConfig) : list Z :=
  [ubf_val (cf_src c); ubf_len (cf_src c); ubf_val (cf_dst c); ubf_len (cf_dst c);
   ubf_val (cf_seq c); ubf_len (cf_seq c)].
Definition conf_flags (c : PduConfig) : list Z :=
  [cf_mode c; cf_large c; cf_crc c; cf_dir c; cf_segctrl c].

(* [ptype; meta; dlen] *)
Definition hdr_of_args (ids flags hd : list Z) : res PduHeader :=
  do c <- conf_of_args ids flags;
  hdr_new (nth 0 hd 0) (nth 1 hd 0) (nth 2 hd 0) c.

Definition hdr_fields (h : PduHeader) : args :=
  [[h_type h; h_meta h; h_dlen h]; conf_ids (h_conf h); conf_flags (h_conf h);
   [hdr_header_len h; hdr_packet_len h]].

(* a header record straight from field lists, no constructor checks (Spec side) *)
Definition hdr_raw_of_fields (ids flags hd : list Z) : PduHeader :=
  {| h_type := nth 0 hd 0; h_meta := nth 1 hd 0; h_dlen := nth 2 hd 0;
     h_conf := {| cf_src := {| ubf_val := nth 0 ids 0; ubf_len := nth 1 ids 0 |};
                  cf_dst := {| ubf_val := nth 2 ids 0; ubf_len := nth 3 ids 0 |};
                  cf_seq := {| ubf_val := nth 4 ids 0; ubf_len := nth 5 ids 0 |};
                  cf_mode := nth 0 flags 0; cf_large := nth 1 flags 0; cf_crc := nth 2 flags 0;
                  cf_dir := nth 3 flags 0; cf_segctrl := nth 4 flags 0 |} |}.

Definition hdr_conf_raw (ids flags : list Z) : PduConfig := h_conf (hdr_raw_of_fields ids flags []).

(* ---- operation histories (ops 1212 / 1213) ----
   an operation on a case line: code :: arguments (extra trailing integers choose among
   equivalent Python spellings in the adapter and are ignored here) *)
Definition hdr_op_of (l : list Z) : res hdr_op :=
  match l with
  | 1 :: v :: _ => Ok (HSetType v)
  | 2 :: v :: _ => Ok (HSetMeta v)
  | 3 :: v :: _ => Ok (HSetDlen v)
  | 4 :: sv :: sl :: dv :: dl :: _ => Ok (HSetIds sv sl dv dl)
  | 5 :: v :: w :: _ => Ok (HSetSeq v w)
  | 6 :: v :: _ => Ok (HSetLarge v)
  | 7 :: v :: _ => Ok (HSetCrc v)
  | 8 :: v :: _ => Ok (HSetMode v)
  | 9 :: v :: _ => Ok (HSetDir v)
  | 10 :: v :: _ => Ok (HSetSegctrl v)
  | 11 :: w :: v :: _ => Ok (HFieldInt w v)
  | 12 :: w :: _ :: b => Ok (HFieldBytes w b)
  | 13 :: w :: v :: l' :: _ => Ok (HConfField w v l')
  | 14 :: r => do c <- conf_of_args (firstn 6 r) (firstn 5 (skipn 6 r)); Ok (HReplaceConf c)
  | 15 :: _ => Ok HPack
  | 16 :: _ => Ok HConfLen
  | _ => Err EOther
  end.

(* the class of a raised exception as the harness compares it inside a result line *)
Definition canon_err (e : err) : Z := if is_value_error e then 1 else err_code e.

(* every view of a header on one line: type, metadata flag, data-field length, the three byte
   fields (value, width), the five flags, header_len, packet_len *)
Definition hdr_state (h : PduHeader) : list Z :=
  [h_type h; h_meta h; h_dlen h] ++ conf_ids (h_conf h) ++ conf_flags (h_conf h) ++
  [hdr_header_len h; hdr_packet_len h].

(* after every operation: [0] or [1; class], all views, the byte fields' octets, what the call
   returned; at the end the caller's PduConfig object *)
Fixpoint hw_run (w : hworld) (ops : list (list Z)) : args :=
  match ops with
  | [] => [conf_ids (hw_caller_view w); conf_flags (hw_caller_view w)]
  | l :: r =>
      match (do o <- hdr_op_of l; hw_step w o) with
      | Ok (w', out) => [0] :: hdr_state (hw_hdr w') :: hdr_id_octets (hw_hdr w') :: out :: hw_run w' r
      | Err e => [1; canon_err e] :: hdr_state (hw_hdr w) :: hdr_id_octets (hw_hdr w) :: [] :: hw_run w r
      end
  end.

(* the PduConfig a history starts from: [0] the explicit one of the case line,
   [1] PduConfig.default(), [2] PduConfig.empty() *)
Definition conf_of_kind (k : Z) (ids flags : list Z) : res PduConfig :=
  if k =? 1 then Ok conf_default else if k =? 2 then Ok conf_empty else conf_of_args ids flags.

Definition run_hdr (op : Z) (a : args) : args :=
  match op with
  (* PduHeader(...) : fields, header_len, packet_len *)
  | 1200 => ret hdr_fields (hdr_of_args (lst 0 a) (lst 1 a) (lst 2 a))
  (* PduHeader(...).pack() *)
  | 1201 => ret (fun b => [b]) (do h <- hdr_of_args (lst 0 a) (lst 1 a) (lst 2 a); hdr_pack h)
  (* PduHeader.unpack(data) *)
  | 1202 => ret hdr_fields (hdr_unpack (lst 0 a))
  (* PduHeader.unpack(data).pack() *)
  | 1203 => ret (fun b => [b]) (do h <- hdr_unpack (lst 0 a); hdr_pack h)
  (* AbstractPduBase.header_len_from_raw(data) *)
  | 1204 => ret (fun r => [[r]]) (header_len_from_raw (lst 0 a))
  (* PduConfig(...).header_len() *)
  | 1205 => ret (fun c => [[conf_header_len c]]) (conf_of_args (lst 0 a) (lst 1 a))
  (* header, then pdu_data_field_len = n : fields, then pack *)
  | 1206 => ret (fun h => hdr_fields h ++ [match hdr_pack h with Ok b => 0 :: b | Err e => [1; err_code e] end])
              (do h <- hdr_of_args (lst 0 a) (lst 1 a) (lst 2 a); hdr_set_dlen h (int 3 0 a))
  (* header, then set_entity_ids(UnsignedByteField(v1,l1), UnsignedByteField(v2,l2)) : fields, pack *)
  | 1207 => ret (fun h => hdr_fields h ++ [match hdr_pack h with Ok b => 0 :: b | Err e => [1; err_code e] end])
              (do h <- hdr_of_args (lst 0 a) (lst 1 a) (lst 2 a);
               do s <- ubf_new (int 3 0 a) (int 3 1 a);
               do d <- ubf_new (int 3 2 a) (int 3 3 a);
               hdr_set_entity_ids h s d)
  (* PduHeader.unpack(data).verify_length_and_checksum(data) *)
  | 1208 => ret (fun r => [[r]])
              (do h <- hdr_unpack (lst 0 a); hdr_verify_length_and_checksum h (lst 0 a))
  (* PduHeader.check_len_in_bytes(n) *)
  | 1209 => ret (fun r => [[r]]) (check_len_in_bytes (int 0 0 a))
  (* ByteFieldGenerator.from_bytes(byte_len, stream) *)
  | 1210 => ret (fun u => [[ubf_val u; ubf_len u]; ubf_as_bytes u]) (bfg_from_bytes (int 0 0 a) (lst 1 a))
  (* two headers: __eq__ *)
  | 1211 => ret (fun r => [[r]])
              (do h1 <- hdr_of_args (lst 0 a) (lst 1 a) (lst 2 a);
               do h2 <- hdr_of_args (lst 3 a) (lst 4 a) (lst 5 a);
               Ok (b2z (hdr_eqb h1 h2)))
  (* c = PduConfig(...) | default() | empty(); h = PduHeader(type, meta, dlen, c); the views of h
     and of the caller's c right after construction; then a history of operations *)
  | 1212 => match (do c <- conf_of_kind (int 3 0 a) (lst 0 a) (lst 1 a);
                   do h <- hdr_new (int 2 0 a) (int 2 1 a) (int 2 2 a) c; Ok (c, h)) with
            | Ok (c, h) => [0] :: hdr_state h :: hdr_id_octets h :: conf_ids (h_conf h) :: conf_flags (h_conf h)
                           :: hw_run (hw_of_hdr h) (skipn 4 a)
            | Err e => ret_err e
            end
  (* h = PduHeader.unpack(data) (data given as bytes, or as a bytearray that is overwritten
     afterwards: [1] = the header did not change); then a history of operations *)
  | 1213 => match hdr_unpack (lst 0 a) with
            | Ok h => [0] :: [1] :: hdr_state h :: hdr_id_octets h :: hw_run (hw_of_hdr h) (skipn 2 a)
                      ++ [hdr_state h; hdr_id_octets h]        (* the same octets decoded once more at the end *)
            | Err e => ret_err e
            end
  (* Spec side (independent oracle): the layout of a field tuple *)
  | 1250 => [[0]; hdr_layout (hdr_raw_of_fields (lst 0 a) (lst 1 a) (lst 2 a))]
  | _ => [[1; 97]]
  end.
