(* family 12: CFDP fixed PDU header (PduHeader, PduConfig, header_len_from_raw). *)
From Coq Require Import ZArith List Bool.
From SP Require Import Base.Result Base.Bytes Run.Marshal Model.PduHeader Spec.PduHeaderSpec.
Import ListNotations.
Open Scope Z_scope.

(* case-line encoding of a PduConfig: [src_val; src_len; dst_val; dst_len; seq_val; seq_len]
   and [mode; large; crc; dir; segctrl]; the three byte fields are built with
   UnsignedByteField(val, len) in this order. *)
Definition conf_of_args (ids flags : list Z) : res PduConfig :=
  do src <- ubf_new (nth 0 ids 0) (nth 1 ids 0);
  do dst <- ubf_new (nth 2 ids 0) (nth 3 ids 0);
  do seq <- ubf_new (nth 4 ids 0) (nth 5 ids 0);
  Ok {| cf_src := src; cf_dst := dst; cf_seq := seq;
        cf_mode := nth 0 flags 0; cf_large := nth 1 flags 0; cf_crc := nth 2 flags 0;
        cf_dir := nth 3 flags 0; cf_segctrl := nth 4 flags 0 |}.

Definition conf_ids (c : PduConfig) : list Z :=
  [ubf_val (cf_src c); ubf_len (cf_src c); ubf_val (cf_dst c); ubf_len (cf_dst c);
   ubf_val (cf_seq c); ubf_len (cf_seq c)].
Definition conf_flags (c : PduConfig) : list Z :=
  [cf_mode c; cf_large c; cf_crc c; cf_dir c; cf_segctrl c].

(* [ptype; meta; dlen] *)
Definition hdr_of_args (ids flags hd : list Z) : res PduHeader :=
  do c <- conf_of_args ids flags;
  hdr_new (nth 0 hd 0) (nth 1 hd 0) (nth 2 hd 0) c.

Definition hdr_fields (h : PduHeader) : args :=
  [[h_type h; h_meta h; h_dlen h]; conf_ids (h_conf h); conf_flags (h_conf h);
   [hdr_header_len h; hdr_packet_len h]].

(* a header record straight from field lists, no constructor checks (Spec side) *)
Definition hdr_raw_of_fields (ids flags hd : list Z) : PduHeader :=
  {| h_type := nth 0 hd 0; h_meta := nth 1 hd 0; h_dlen := nth 2 hd 0;
     h_conf := {| cf_src := {| ubf_val := nth 0 ids 0; ubf_len := nth 1 ids 0 |};
                  cf_dst := {| ubf_val := nth 2 ids 0; ubf_len := nth 3 ids 0 |};
                  cf_seq := {| ubf_val := nth 4 ids 0; ubf_len := nth 5 ids 0 |};
                  cf_mode := nth 0 flags 0; cf_large := nth 1 flags 0; cf_crc := nth 2 flags 0;
                  cf_dir := nth 3 flags 0; cf_segctrl := nth 4 flags 0 |} |}.

Definition hdr_conf_raw (ids flags : list Z) : PduConfig := h_conf (hdr_raw_of_fields ids flags []).

Definition run_hdr (op : Z) (a : args) : args :=
  match op with
  (* PduHeader(...) : fields, header_len, packet_len *)
  | 1200 => ret hdr_fields (hdr_of_args (lst 0 a) (lst 1 a) (lst 2 a))
  (* PduHeader(...).pack() *)
  | 1201 => ret (fun b => [b]) (do h <- hdr_of_args (lst 0 a) (lst 1 a) (lst 2 a); hdr_pack h)
  (* PduHeader.unpack(data) *)
  | 1202 => ret hdr_fields (hdr_unpack (lst 0 a))
  (* PduHeader.unpack(data).pack() *)
  | 1203 => ret (fun b => [b]) (do h <- hdr_unpack (lst 0 a); hdr_pack h)
  (* AbstractPduBase.header_len_from_raw(data) *)
  | 1204 => ret (fun r => [[r]]) (header_len_from_raw (lst 0 a))
  (* PduConfig(...).header_len() *)
  | 1205 => ret (fun c => [[conf_header_len c]]) (conf_of_args (lst 0 a) (lst 1 a))
  (* header, then pdu_data_field_len = n : fields, then pack *)
  | 1206 => ret (fun h => hdr_fields h ++ [match hdr_pack h with Ok b => 0 :: b | Err e => [1; err_code e] end])
              (do h <- hdr_of_args (lst 0 a) (lst 1 a) (lst 2 a); hdr_set_dlen h (int 3 0 a))
  (* header, then set_entity_ids(UnsignedByteField(v1,l1), UnsignedByteField(v2,l2)) : fields, pack *)
  | 1207 => ret (fun h => hdr_fields h ++ [match hdr_pack h with Ok b => 0 :: b | Err e => [1; err_code e] end])
              (do h <- hdr_of_args (lst 0 a) (lst 1 a) (lst 2 a);
               do s <- ubf_new (int 3 0 a) (int 3 1 a);
               do d <- ubf_new (int 3 2 a) (int 3 3 a);
               hdr_set_entity_ids h s d)
  (* PduHeader.unpack(data).verify_length_and_checksum(data) *)
  | 1208 => ret (fun r => [[r]])
              (do h <- hdr_unpack (lst 0 a); hdr_verify_length_and_checksum h (lst 0 a))
  (* PduHeader.check_len_in_bytes(n) *)
  | 1209 => ret (fun r => [[r]]) (check_len_in_bytes (int 0 0 a))
  (* ByteFieldGenerator.from_bytes(byte_len, stream) *)
  | 1210 => ret (fun u => [[ubf_val u; ubf_len u]; ubf_as_bytes u]) (bfg_from_bytes (int 0 0 a) (lst 1 a))
  (* two headers: __eq__ *)
  | 1211 => ret (fun r => [[r]])
              (do h1 <- hdr_of_args (lst 0 a) (lst 1 a) (lst 2 a);
               do h2 <- hdr_of_args (lst 3 a) (lst 4 a) (lst 5 a);
               Ok (b2z (hdr_eqb h1 h2)))
  (* Spec side (independent oracle): the layout of a field tuple *)
  | 1250 => [[0]; hdr_layout (hdr_raw_of_fields (lst 0 a) (lst 1 a) (lst 2 a))]
  | _ => [[1; 97]]
  end.
