(* Marshalling between the textual case format of the correspondence check and
   model values.  A case is an operation number and a list of integer lists; a
   result is a list of integer lists: [0]::fields for a returned value,
   [[1; class]] for a raised exception. *)
From Coq Require Import ZArith List Bool.
From SP Require Import Base.Result Base.Bytes.
Import ListNotations.
Open Scope Z_scope.

Definition args := list (list Z).
Definition lst (n : nat) (a : args) : list Z := nth n a [].
Definition int (n i : nat) (a : args) : Z := nth i (lst n a) 0.

Definition ret_err (e : err) : args := [[1; err_code e]].
Definition ret {A} (f : A -> args) (r : res A) : args :=
  match r with Ok a => [0] :: f a | Err e => ret_err e end.
Definition b2z (b : bool) : Z := if b then 1 else 0.
Definition opt_bytes (l : list Z) : option bytes :=
  match l with [] => None | 0 :: _ => None | _ :: r => Some r end.
Definition of_opt_bytes (o : option bytes) : list Z :=
  match o with None => [0] | Some b => 1 :: b end.
