(* family 4: CDS short timestamps (C14) *)
From Coq Require Import ZArith List Bool.
From SP Require Import Base.Result Base.Bytes Run.Marshal Model.Cds Model.CdsSoftFloat Model.CdsFloat Spec.CdsSpec.
Import ListNotations.
Open Scope Z_scope.

Definition cds_of (l : list Z) : cds := cds_new (nth 0 l 0) (nth 1 l 0).
Definition cds_fields (t : cds) : list Z := [cdays t; cms t].
Definition fl_fields (x : fl) : list Z := [fm x; fe x].
Definition fl_of (l : list Z) : fl := rne2 (nth 0 l 0) (nth 1 l 0).
Definition cds_views (t : cds) : args :=
  [cds_fields t; fl_fields (cds_unix_seconds t); [cds_datetime_us t]].

Fixpoint triples (l : list Z) : list (Z * Z * Z) :=
  match l with
  | d :: s :: u :: r => (d, s, u) :: triples r
  | _ => []
  end.

Definition run_cds (op : Z) (a : args) : args :=
  match op with
  | 400 => let t := cds_of (lst 0 a) in
           ret (fun c => [cds_fields t; [cds_len_packed t]; cds_pfield; [c]]) (cds_time_code t)
  | 401 => ret (fun b => [b]) (cds_pack (cds_of (lst 0 a)))
  | 402 => ret cds_views (cds_unpack (lst 0 a))
  | 403 => ret (fun p => [[fst p; snd p]]) (cds_unpack_from_raw (lst 0 a))
  | 404 => ret cds_views (cds_unpack (lst 0 a))          (* empty().read_from_raw(data) *)
  | 405 => ret cds_views (cds_add (cds_of (lst 0 a)) (int 1 0 a) (int 1 1 a) (int 1 2 a))
  | 406 => let t := cds_from_datetime (int 0 0 a) (int 0 1 a) (int 0 2 a) in
           [[0]; cds_fields t; fl_fields (dt_timestamp (int 0 0 a) (int 0 1 a) (int 0 2 a));
            [dt_instant_us (int 0 0 a) (int 0 1 a) (int 0 2 a)]]
  (* from_datetime on the same instant expressed in another fixed-offset time zone (lst 1 = offset
     in minutes): the model does not depend on it *)
  | 416 => let t := cds_from_datetime (int 0 0 a) (int 0 1 a) (int 0 2 a) in
           [[0]; cds_fields t; fl_fields (dt_timestamp (int 0 0 a) (int 0 1 a) (int 0 2 a));
            [dt_instant_us (int 0 0 a) (int 0 1 a) (int 0 2 a)]]
  | 417 => ret (fun t => cds_views t ++ [[cds_len_packed t]])
             (cds_add_all (cds_of (lst 0 a)) (triples (lst 1 a)))
  | 407 => [0] :: cds_views (cds_of (lst 0 a))
  | 409 => [[0]; [cds_ms_of_today (fl_of (lst 0 a))]]
  | 410 => [[0]; cds_fields (cds_from_unix_days (int 0 0 a) (int 0 1 a));
            [convert_unix_days_to_ccsds_days (int 0 0 a); convert_ccsds_days_to_unix_days (int 0 0 a)]]
  | 411 => [[0]; [b2z (cds_eqb (cds_of (lst 0 a)) (cds_of (lst 1 a)))]]
  | 412 => ret (fun b => [b]) (do t <- cds_unpack (lst 0 a); cds_pack t)
  | 413 => ret (fun t => [cds_fields t]) (do b <- cds_pack (cds_of (lst 0 a)); cds_unpack b)
  (* Spec side *)
  | 450 => [[0]; cds_layout (cds_of (lst 0 a))]
  | 451 => [[0]; [cds_instant_ms (cds_of (lst 0 a))]]
  | 452 => [[0]; cds_fields (cds_of_instant_ms (int 0 0 a))]
  | _ => [[1; 97]]
  end.
