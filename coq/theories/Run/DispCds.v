(* family 4: CDS short timestamps (C14) *)
From Coq Require Import ZArith List Bool.
From SP Require Import Base.Result Base.Bytes Run.Marshal Model.Cds Model.CdsSoftFloat Model.CdsFloat Model.CdsObj Spec.CdsSpec.
Import ListNotations.
Open Scope Z_scope.

Definition cds_of (l : list Z) : cds := cds_new (nth 0 l 0) (nth 1 l 0).
Definition cds_fields (t : cds) : list Z := [cdays t; cms t].
Definition fl_fields (x : fl) : list Z := [fm x; fe x].
Definition fl_of (l : list Z) : fl := rne2 (nth 0 l 0) (nth 1 l 0).
Definition cds_views (t : cds) : args :=
  [cds_fields t; fl_fields (cds_unix_seconds t); [cds_datetime_us t]].

Fixpoint triples (l : list Z) : list (Z * Z * Z) :=
  match l with
  | d :: s :: u :: r => (d, s, u) :: triples r
  | _ => []
  end.

(* ---- histories on one live object (op 418) ----
   first line = how the object is made:
     [0; d; ms] C(d, ms) | [1; d; ms] C(d, ms, init_dt_unix_stamp=False) | [2] empty() |
     [3] empty(False) | 4 :: octets unpack(octets) | [5; unix_days; ms] from_unix_days |
     [6; ud; sod; us] from_datetime | [7; ud; sod; us] from_date_time (deprecated alias)
   ops: 1 :: octets read_from_raw(bytes) | 2 :: octets read_from_raw(bytearray), the caller's
     buffer overwritten afterwards | [3; d; s; us] += timedelta | [4] read_from_raw(self.pack())
     | [5] pack() | 6 :: octets read_from_raw(the SAME bytearray object handed over before, edited in
     place by the caller since; octets = its present content)
   after the construction and after EVERY op: result line, fields, Unix seconds, datetime
   (empty line = no _datetime attribute) *)
(* inside a history the exception class is reported as the harness compares it: the ValueError
   refinements (too short, unicode) as ValueError *)
Definition canon_code (c : Z) : Z := if (c =? 2) || (c =? 3) then 1 else c.
Definition cobj_views (o : cobj) : args :=
  [[o_days o; o_ms o]; fl_fields (o_unix o); match o_dt o with Some u => [u] | None => [] end].
Definition cobj_make (l : list Z) : res cobj :=
  match l with
  | 0 :: d :: ms :: _ => Ok (cobj_new d ms true)
  | 1 :: d :: ms :: _ => Ok (cobj_new d ms false)
  | 2 :: _ => Ok (cobj_empty true)
  | 3 :: _ => Ok (cobj_empty false)
  | 4 :: b => cobj_unpack b
  | 5 :: ud :: ms :: _ => Ok (cobj_from_unix_days ud ms)
  | 6 :: ud :: sod :: us :: _ => Ok (cobj_from_datetime ud sod us)
  | 7 :: ud :: sod :: us :: _ => Ok (cobj_from_datetime ud sod us)   (* deprecated alias from_date_time *)
  | _ => Err EOther
  end.
Definition cobj_op_of (l : list Z) : option cobj_op :=
  match l with
  | 1 :: b => Some (ORead b)
  | 2 :: b => Some (ORead b)
  | 3 :: d :: s :: u :: _ => Some (OAdd d s u)
  | 4 :: _ => Some OReadOwn
  | 5 :: _ => Some OPack
  | 6 :: b => Some (ORead b)
  | _ => None
  end.
Fixpoint cobj_history (o : cobj) (ops : list (list Z)) : args :=
  match ops with
  | [] => []
  | l :: rest =>
      match cobj_op_of l with
      | None => [[1; 97]]
      | Some op =>
          let '(r, o') := cobj_step o op in
          (match r with Ok b => 0 :: b | Err e => [1; canon_code (err_code e)] end) :: cobj_views o' ++ cobj_history o' rest
      end
  end.

Definition run_cds (op : Z) (a : args) : args :=
  match op with
  | 400 => let t := cds_of (lst 0 a) in
           ret (fun c => [cds_fields t; [cds_len_packed t]; cds_pfield; [c]]) (cds_time_code t)
  | 401 => ret (fun b => [b]) (cds_pack (cds_of (lst 0 a)))
  | 402 => ret cds_views (cds_unpack (lst 0 a))
  | 403 => ret (fun p => [[fst p; snd p]]) (cds_unpack_from_raw (lst 0 a))
  | 404 => ret cds_views (cds_unpack (lst 0 a))          (* empty().read_from_raw(data) *)
  | 405 => ret cds_views (cds_add (cds_of (lst 0 a)) (int 1 0 a) (int 1 1 a) (int 1 2 a))
  | 406 => let t := cds_from_datetime (int 0 0 a) (int 0 1 a) (int 0 2 a) in
           [[0]; cds_fields t; fl_fields (dt_timestamp (int 0 0 a) (int 0 1 a) (int 0 2 a));
            [dt_instant_us (int 0 0 a) (int 0 1 a) (int 0 2 a)]]
  (* from_datetime on the same instant expressed in another fixed-offset time zone (lst 1 = offset
     in minutes): the model does not depend on it *)
  | 416 => let t := cds_from_datetime (int 0 0 a) (int 0 1 a) (int 0 2 a) in
           [[0]; cds_fields t; fl_fields (dt_timestamp (int 0 0 a) (int 0 1 a) (int 0 2 a));
            [dt_instant_us (int 0 0 a) (int 0 1 a) (int 0 2 a)]]
  | 417 => ret (fun t => cds_views t ++ [[cds_len_packed t]])
             (cds_add_all (cds_of (lst 0 a)) (triples (lst 1 a)))
  | 407 => [0] :: cds_views (cds_of (lst 0 a))
  | 409 => [[0]; [cds_ms_of_today (fl_of (lst 0 a))]]
  | 410 => [[0]; cds_fields (cds_from_unix_days (int 0 0 a) (int 0 1 a));
            [convert_unix_days_to_ccsds_days (int 0 0 a); convert_ccsds_days_to_unix_days (int 0 0 a)]]
  | 411 => [[0]; [b2z (cds_eqb (cds_of (lst 0 a)) (cds_of (lst 1 a)))]]
  | 412 => ret (fun b => [b]) (do t <- cds_unpack (lst 0 a); cds_pack t)
  | 413 => ret (fun t => [cds_fields t]) (do b <- cds_pack (cds_of (lst 0 a)); cds_unpack b)
  | 418 => match cobj_make (lst 0 a) with
           | Ok o => ([0] :: cobj_views o) ++ cobj_history o (tl a)
           | Err e => ret_err e
           end
  (* now() / from_now() / from_current_time(): clock dependent; the adapter evaluates the
     invariants (day and millisecond are those of the clock reading, views are the reading) *)
  | 419 => [[0]; [1; 1; 1]]
  (* Spec side *)
  | 450 => [[0]; cds_layout (cds_of (lst 0 a))]
  | 451 => [[0]; [cds_instant_ms (cds_of (lst 0 a))]]
  | 452 => [[0]; cds_fields (cds_of_instant_ms (int 0 0 a))]
  | _ => [[1; 97]]
  end.
