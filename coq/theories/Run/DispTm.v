(* family 6: PUS telemetry and the service-17 wrapper *)
From Coq Require Import ZArith List Bool.
From SP Require Import Base.Result Base.Bytes Base.Crc16 Run.Marshal Run.DispSph Model.SpacePacket Model.PusTc Model.PusTm Model.PusTcHist Model.PusTmHist Spec.PusSpec.
Import ListNotations.
Open Scope Z_scope.

Definition tmsec_fields (s : tmsec) : list Z :=
  [tms_version s; tms_ref s; tms_service s; tms_subservice s; tms_msgcnt s; tms_dest s].
Definition tm_fields (t : tm) : args :=
  [ sph_fields (tm_sph t); tmsec_fields (tm_sec t); tms_stamp (tm_sec t);
    tm_src t; of_opt_bytes (tm_crc t); [tm_packet_len t] ].

(* args: [service; subservice; apid; seq; msgcnt; ref; dest; version] [timestamp] [source] *)
Definition tm_of_args (a : args) : res tm :=
  tm_new (int 0 0 a) (int 0 1 a) (lst 1 a) (lst 2 a) (int 0 2 a) (int 0 3 a) (int 0 4 a)
         (int 0 5 a) (int 0 6 a) (int 0 7 a).
(* args: [apid; subservice; ssc; version; ref; dest] [timestamp] [source] *)
Definition s17_of_args (a : args) : res tm :=
  srv17_new (int 0 0 a) (int 0 1 a) (lst 1 a) (int 0 2 a) (lst 2 a) (int 0 3 a) (int 0 4 a) (int 0 5 a).

Definition tm_op_of (l : list Z) : tm_op :=
  match l with
  | 0 :: _ => TmPack
  | 2 :: _ => TmCalcCrc
  | 3 :: d => TmSetData d
  | 5 :: v :: _ => TmSetApid v
  | 7 :: v :: _ => TmSetSeqFlags v
  | _ => TmPack
  end.

(* ---- extended histories (op 620) ---- *)
Definition tmx_op_of (l : list Z) : tmx_op :=
  match l with
  | 0 :: _ => YPack
  | 1 :: _ => YPackNoRecalc
  | 2 :: _ => YCalcCrc
  | 3 :: d => YSetData d
  | 5 :: v :: _ => YSetHdr 3 v
  | 7 :: _ => YView
  | 8 :: _ => YInspect
  | 9 :: d => YSetData d
  | 10 :: d => YExtendData d
  | 11 :: v :: _ => YSetHdr 4 v
  | 22 :: d => YSetStamp d
  | 23 :: l => YNewHdr l
  | 24 :: s :: ss :: mc :: de :: rf :: d => YNewSec [s; ss; mc; de; rf] d
  | 25 :: _ => YEq
  | 26 :: _ => YRoundtrip
  | 27 :: _ => YSwitch
  | 30 :: f :: v :: _ => YSetHdr f v
  | 31 :: f :: v :: _ => YSetSec f v
  | _ => YInspect
  end.

Definition tm_inspect (t : tm) : args :=
  tm_fields t ++
  [[tms_service (tm_sec t); tms_subservice (tm_sec t); apid (tm_sph t); scount (tm_sph t);
    ver (tm_sph t); pid_raw (sph_pid (tm_sph t)); psc_raw (sph_psc (tm_sph t));
    ptype (tm_sph t); shf (tm_sph t); sflags (tm_sph t)];
   tms_stamp (tm_sec t); tm_src t].

Definition tmx_obs (r : res tmx_out) : args :=
  match r with
  | Err e => [[1; canon_code e]]
  | Ok PNone => [[0]]
  | Ok (PBytes b) => [[0]; b]
  | Ok (PState t) => [0] :: tm_inspect t
  | Ok (PEq x y) => [[0]; [b2z x; b2z y]]
  | Ok (PRound e u) => [0] :: [b2z e] :: tm_fields u
  end.

Definition tmx_closing : list tmx_op := [YInspect; YView; YInspect; YPack; YInspect].

Definition run_tm (op : Z) (a : args) : args :=
  match op with
  | 600 => ret tm_fields (tm_of_args a)
  | 601 => ret (fun r => [fst r; [tm_packet_len (snd r)]]) (do t <- tm_of_args a; tm_pack t)
  | 602 => ret tm_fields (tm_unpack (lst 0 a) (int 1 0 a))
  | 603 => ret (fun r => [fst r]) (do t <- tm_unpack (lst 0 a) (int 1 0 a); tm_pack t)
  | 604 => ret (fun b => [b]) (do t <- tm_of_args a; tm_to_space_packet_pack t)
  | 605 => ret (fun r => [[b2z (fst r)]] ++ tm_fields (snd r))
             (do t <- tm_of_args a; do p <- tm_pack t;
              do u <- tm_unpack (fst p) (len (lst 1 a));
              Ok (tm_eqb u t && tm_eqb t u, u))
  | 607 => ret (fun r => [fst r; [tm_packet_len (snd r)]])
             (do t <- tm_of_args a; tm_pack (tm_set_tm_data t (lst 3 a)))
  | 608 => ret (fun s => [tmsec_fields s; tms_stamp s]) (tmsec_unpack (lst 0 a) (int 1 0 a))
  | 609 => ret (fun r => [[r]]) (tm_service_from_bytes (lst 0 a))
  | 610 => ret (fun r => [fst r; [tm_packet_len (snd r)]]) (do t <- s17_of_args a; srv17_pack t)
  | 611 => ret tm_fields (srv17_unpack (lst 0 a) (int 1 0 a))
  | 612 => ret (fun r => r)
             (do t <- tm_of_args a;
              do u <- tm_run t (map tm_op_of (skipn 3 a));
              do sp <- tm_to_space_packet_pack u;
              do p <- tm_pack u;
              Ok [sp; fst p; [tm_packet_len u]])
  (* decode (613: PusTm.unpack, 614: Service17Tm.unpack) from a buffer that may continue behind the packet, then every
     observable of the decoded object: fields incl. crc16 and packet_len, pack(recalc_crc=False), pack(), == with the
     telemetry decoded from exactly the packet's own octets (both directions), the fields again *)
  | 613 | 614 => ret (fun x => x)
             (do u <- tm_unpack (lst 0 a) (int 1 0 a);
              do p1 <- tm_pack_norecalc u;
              do p2 <- tm_pack (snd p1);
              do w <- tm_unpack (slice_to (lst 0 a) (tm_packet_len u)) (int 1 0 a);
              Ok (tm_fields u ++ [fst p1; fst p2; [b2z (tm_eqb u w); b2z (tm_eqb w u)]] ++ tm_fields (snd p2)))
  | 620 => ret (fun r => r)
             (do t <- tmx_make (lst 0 a) (lst 1 a) (lst 2 a);
              let '(_, outs) := tmx_run t t (map tmx_op_of (skipn 3 a) ++ tmx_closing) in
              Ok (flat_map tmx_obs outs ++ [[0; 0]]))
  | 650 => [[0]; tm_layout (int 0 0 a) (int 0 1 a) (int 0 2 a) (int 0 3 a) (int 0 4 a)
                           (int 0 5 a) (int 0 6 a) (int 0 7 a) (lst 1 a) (lst 2 a)]
  | _ => [[1; 97]]
  end.
