From Coq Require Import ZArith List.
From Coq Require Extraction.
From Coq Require Import ExtrOcamlBasic.
From SP Require Import Run.Dispatch.
Extraction "model.ml" run_case.
