(* family 16: USLP headers and transfer frames (C17) *)
From Coq Require Import ZArith List Bool.
From SP Require Import Base.Result Base.Bytes Run.Marshal Model.UslpHeader Model.UslpFrame Spec.UslpSpec.
Import ListNotations.
Open Scope Z_scope.

Definition z2b (z : Z) : bool := negb (z =? 0).
Definition opt_z (has v : Z) : option Z := if z2b has then Some v else None.
Definition of_opt_z (o : option Z) : list Z := match o with Some v => [1; v] | None => [0; 0] end.
Definition ft_opt (z : Z) : option ftype :=
  if z =? 0 then Some FtFixed else if z =? 1 then Some FtVariable else None.
Definition ft_of (z : Z) : ftype := if z =? 0 then FtFixed else FtVariable.

(* [scid; src_dest; vcid; map_id] *)
Definition base_of (l : list Z) : hbase :=
  {| scid := nth 0 l 0; src_dest := nth 1 l 0; vcid := nth 2 l 0; map_id := nth 3 l 0 |}.
Definition base_fields (b : hbase) : list Z := [scid b; src_dest b; vcid b; map_id b].
(* [scid; src_dest; vcid; map_id; frame_len; bypass; prot; ocf; vcf_len; has_count; count] *)
Definition phdr_of (l : list Z) : phdr :=
  {| pbase := base_of l; frame_len := nth 4 l 0; bypass := nth 5 l 0; prot := nth 6 l 0;
     ocf_flag := nth 7 l 0; vcf_len := nth 8 l 0; vcf_count := opt_z (nth 9 l 0) (nth 10 l 0) |}.
Definition phdr_fields (h : phdr) : list Z :=
  base_fields (pbase h) ++ [frame_len h; bypass h; prot h; ocf_flag h; vcf_len h] ++ of_opt_z (vcf_count h).
(* kind :: fields ; kind 0 = truncated, 1 = primary *)
Definition fhdr_of (l : list Z) : fhdr :=
  match l with
  | 0 :: r => HTrunc (base_of r)
  | _ :: r => HPrim (phdr_of r)
  | [] => HTrunc (base_of [])
  end.
Definition fhdr_fields (h : fhdr) : list Z :=
  match h with HTrunc b => 0 :: base_fields b | HPrim p => 1 :: phdr_fields p end.

(* a1 = [rules; ident; has_fhp; fhp], a2 = tfdz *)
Definition tfdf_of (s : list Z) (d : bytes) : res tfdf :=
  tfdf_new (nth 0 s 0) (nth 1 s 0) d (opt_z (nth 2 s 0) (nth 3 s 0)).
Definition tfdf_fields (t : tfdf) : list Z := [rules t; ident t] ++ of_opt_z (fhp t) ++ [tsize t].

(* a[k..k+5] = header, tfdf scalars, tfdz, insert zone, OCF, FECF *)
Definition frame_of (a : args) : res frame :=
  do t <- tfdf_of (lst 1 a) (lst 2 a);
  Ok {| hdr := fhdr_of (lst 0 a); ftfdf := t; izone := opt_bytes (lst 3 a);
        ocf := opt_bytes (lst 4 a); fecf := opt_bytes (lst 5 a) |}.
Definition frame_fields (f : frame) : args :=
  [fhdr_fields (hdr f); tfdf_fields (ftfdf f); tfdz (ftfdf f); of_opt_bytes (izone f);
   of_opt_bytes (ocf f); of_opt_bytes (fecf f); [frame_len_of f]].

(* [ft; is_fixed; len; has_iz; has_fecf; iz_some; iz_len; fecf_some; fecf_len] *)
Definition props_of (l : list Z) : res fprops :=
  props_new (z2b (nth 1 l 0)) (nth 2 l 0) (z2b (nth 3 l 0)) (z2b (nth 4 l 0))
            (opt_z (nth 5 l 0) (nth 6 l 0)) (opt_z (nth 7 l 0) (nth 8 l 0)).

Definition res_list (r : res bytes) : list Z :=
  match r with Ok b => 0 :: b | Err e => [1; err_code e] end.

Definition op_of (l : list Z) : fop :=
  match l with
  | 0 :: d => OpSetTfdz d
  | 1 :: _ => OpSetFrameLen
  | 2 :: _ => OpPack
  | _ => OpLen
  end.
Definition hdr_frame_len (f : frame) : Z :=
  match hdr f with HPrim p => frame_len p | HTrunc _ => -1 end.
Fixpoint run_history (f : frame) (tr : bool) (ft : option ftype) (ops : args) : args :=
  match ops with
  | [] => []
  | o :: r =>
      let f' := frame_apply f (op_of o) in
      (match op_of o with
       | OpPack => res_list (frame_pack f' tr ft)
       | _ => [frame_len_of f'; hdr_frame_len f'; tfdf_len (ftfdf f')]
       end) :: run_history f' tr ft r
  end.


(* ---- wider histories (op 1633): see Model/UslpFrame.v fop2 ---- *)
Definition op2_of (l : list Z) : fop2 :=
  match l with
  | 0 :: d => O2Base (OpSetTfdz d)
  | 1 :: _ => O2Base OpSetFrameLen
  | 2 :: _ => O2Base OpPack
  | 3 :: _ => O2Base OpLen
  | 4 :: r => O2SetIz (opt_bytes r)
  | 5 :: r => O2SetOcf (opt_bytes r)
  | 6 :: r => O2SetFecf (opt_bytes r)
  | 7 :: k :: v :: _ => O2Hdr k v
  | 8 :: has :: v :: _ => O2VcfCount (opt_z has v)
  | 9 :: has :: v :: _ => O2SetFhp (opt_z has v)
  | 10 :: r :: _ => O2SetRules r
  | 11 :: i :: _ => O2SetIdent i
  | 12 :: r :: i :: has :: p :: d => O2NewTfdf r i d (opt_z has p)
  | 13 :: _ => O2Redecode
  | 14 :: _ => O2Roundtrip
  | 16 :: d => O2Base (OpSetTfdz d)   (* a bytearray assigned, extended in place, assigned again *)
  | 17 :: d => O2Base (OpSetTfdz d)   (* the same value assigned twice *)
  | _ => O2Base OpLen
  end.
Definition frame_view (f : frame) : list Z :=
  0 :: [frame_len_of f; hdr_frame_len f; tfdf_len (ftfdf f)] ++ fhdr_fields (hdr f) ++ tfdf_fields (ftfdf f).
Fixpoint run_history2 (f : frame) (tr : bool) (ft : option ftype) (ops : args) : args :=
  match ops with
  | [] => []
  | o :: r =>
      match frame_apply2 f tr ft (op2_of o) with
      | Err e => [1; err_code e] :: run_history2 f tr ft r
      | Ok f' =>
          (match op2_of o with
           | O2Base OpPack => [res_list (frame_pack f' tr ft)]
           | O2Roundtrip => match frame_roundtrip f' tr ft with
                            | Ok g => [0] :: frame_fields g
                            | Err e => [[1; err_code e]]
                            end
           | _ => [frame_view f']
           end) ++ run_history2 f' tr ft r
      end
  end.

(* header objects on their own (op 1631) *)
Definition hop_of (l : list Z) : hop :=
  match l with
  | 0 :: k :: v :: _ => HSet k v
  | 1 :: has :: v :: _ => HCount (opt_z has v)
  | 2 :: _ => HPack
  | 3 :: _ => HLen
  | _ => HObserve
  end.
Fixpoint run_hdr_history (h : fhdr) (ops : args) : args :=
  match ops with
  | [] => []
  | o :: r =>
      let h' := hdr_apply h (hop_of o) in
      (match hop_of o with
       | HPack => res_list (hdr_pack h')
       | HLen => [0; hdr_len h']
       | _ => 0 :: fhdr_fields h'
       end) :: run_hdr_history h' r
  end.

Definition run_uslp (op : Z) (a : args) : args :=
  match op with
  | 1600 => ret (fun b => [b]) (phdr_pack (phdr_of (lst 0 a)))
  | 1601 => ret (fun h => [phdr_fields h; [phdr_len h]]) (phdr_unpack (lst 0 a) (int 1 0 a))
  | 1602 => ret (fun b => [b]) (thdr_pack (base_of (lst 0 a)))
  | 1603 => ret (fun b => [base_fields b; [thdr_len b]]) (thdr_unpack (lst 0 a) (int 1 0 a))
  | 1604 => ret (fun t => [[t]]) (determine_header_type (lst 0 a))
  | 1605 => ret (fun b => [b]) (do h <- phdr_unpack (lst 0 a) USLP_VERSION_NUMBER; phdr_pack h)
  | 1606 => [[0]; [phdr_len (phdr_of (lst 0 a))]]
  | 1607 => ret (fun b => [b]) (do h <- thdr_unpack (lst 0 a) USLP_VERSION_NUMBER; thdr_pack h)
  | 1610 => ret (fun t => [tfdf_fields t]) (tfdf_of (lst 0 a) (lst 1 a))
  | 1611 => ret (fun b => [b])
              (do t <- tfdf_of (lst 0 a) (lst 1 a);
               tfdf_pack t (z2b (int 2 0 a)) (ft_opt (int 2 1 a)))
  | 1612 => ret (fun t => [tfdf_fields t; tfdz t])
              (tfdf_unpack (lst 0 a) (z2b (int 1 0 a)) (int 1 1 a) (ft_opt (int 1 2 a)))
  | 1613 => [[0]; [b2z (should_have_fhp (int 0 0 a) (z2b (int 0 1 a)) (ft_opt (int 0 2 a)));
                   b2z (verify_frame_type (int 0 0 a) FtFixed);
                   b2z (verify_frame_type (int 0 0 a) FtVariable)]]
  | 1620 => ret (fun f => [[frame_len_of f]]) (frame_of a)
  | 1621 => ret (fun x => [fst x; [snd x]])
              (do f <- frame_of a;
               do b <- frame_pack f (z2b (int 6 0 a)) (ft_opt (int 6 1 a));
               Ok (b, frame_len_of f))
  | 1622 => ret (fun f => [fhdr_fields (hdr f); [frame_len_of f]])
              (do f <- frame_of a; Ok (set_frame_len_in_header f))
  | 1623 => ret (fun x => [fst x; fhdr_fields (hdr (snd x)); [frame_len_of (snd x)]])
              (do f <- frame_of a;
               let f' := set_frame_len_in_header f in
               do b <- frame_pack f' (z2b (int 6 0 a)) (ft_opt (int 6 1 a));
               Ok (b, f'))
  | 1625 => ret frame_fields
              (do p <- props_of (lst 1 a); frame_unpack (lst 0 a) (ft_of (int 1 0 a)) p)
  | 1626 => ret (fun p => [[b2z (p_fixed p); p_len p; b2z (iz_present p); iz_size p;
                            b2z (fecf_present p); fecf_size p]]) (props_of (lst 0 a))
  | 1630 => ret (fun f => run_history f (z2b (int 6 0 a)) (ft_opt (int 6 1 a)) (skipn 7 a))
              (frame_of a)
  (* decode from a bytearray that is overwritten afterwards (adapter); same decoder *)
  | 1627 => ret frame_fields
              (do p <- props_of (lst 1 a); frame_unpack (lst 0 a) (ft_of (int 1 0 a)) p)
  (* two frames decoded in a row, both inspected afterwards *)
  | 1628 => ret (fun r => frame_fields (fst r) ++ frame_fields (snd r))
              (do p <- props_of (lst 1 a); do x <- frame_unpack (lst 0 a) (ft_of (int 1 0 a)) p;
               do q <- props_of (lst 3 a); do y <- frame_unpack (lst 2 a) (ft_of (int 3 0 a)) q;
               Ok (x, y))
  | 1631 => [0] :: run_hdr_history (fhdr_of (lst 0 a)) (skipn 1 a)
  | 1633 => ret (fun f => run_history2 f (z2b (int 6 0 a)) (ft_opt (int 6 1 a)) (skipn 7 a))
              (frame_of a)
  (* Spec side (independent oracle) *)
  | 1650 => [[0]; phdr_layout (phdr_of (lst 0 a))]
  | 1651 => [[0]; thdr_layout (base_of (lst 0 a))]
  | 1652 => ret (fun f => [frame_layout (hdr_layout (hdr f)) f;
                           [b2z (spec_has_pointer (rules (ftfdf f)) (z2b (int 6 0 a)))]])
              (frame_of a)
  | _ => [[1; 97]]
  end.
