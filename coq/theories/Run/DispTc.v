(* family 5: PUS telecommands *)
From Coq Require Import ZArith List Bool.
From SP Require Import Base.Result Base.Bytes Base.Crc16 Run.Marshal Run.DispSph Model.SpacePacket Model.PusTc Model.PusTcHist Spec.PusSpec.
Import ListNotations.
Open Scope Z_scope.

Definition tc_fields (t : tc) : args :=
  [ sph_fields (tc_sph t);
    [tcs_service (tc_sec t); tcs_subservice (tc_sec t); tcs_source_id (tc_sec t); tcs_ack (tc_sec t)];
    tc_app t; of_opt_bytes (tc_crc t); [tc_packet_len t] ].

(* args: [service; subservice; apid; seq; source_id; ack] [app_data] *)
Definition tc_of_args (a : args) : res tc :=
  tc_new (int 0 0 a) (int 0 1 a) (int 0 2 a) (lst 1 a) (int 0 3 a) (int 0 4 a) (int 0 5 a).

(* one operation per argument list: [kind; value] or [3; app data...] *)
Definition tc_op_of (l : list Z) : tc_op :=
  match l with
  | 0 :: _ => TcPack
  | 1 :: _ => TcPackNoRecalc
  | 2 :: _ => TcCalcCrc
  | 3 :: d => TcSetApp d
  | 4 :: v :: _ => TcSetSeq v
  | 5 :: v :: _ => TcSetApid v
  | 6 :: v :: _ => TcSetSource v
  | _ => TcPack
  end.

(* ---- extended histories (op 520) ---- *)
Definition tcx_op_of (l : list Z) : tcx_op :=
  match l with
  | 0 :: _ => XPack
  | 1 :: _ => XPackNoRecalc
  | 2 :: _ => XCalcCrc
  | 3 :: d => XSetApp d
  | 4 :: v :: _ => XSetHdr 5 v
  | 5 :: v :: _ => XSetHdr 3 v
  | 6 :: v :: _ => XSetSec 2 v
  | 7 :: _ => XView
  | 8 :: _ => XInspect
  | 9 :: d => XSetApp d
  | 10 :: d => XExtendApp d
  | 23 :: l => XNewHdr l
  | 24 :: l => XNewSec l
  | 25 :: _ => XEq
  | 26 :: _ => XRoundtrip
  | 27 :: _ => XSwitch
  | 30 :: f :: v :: _ => XSetHdr f v
  | 31 :: f :: v :: _ => XSetSec f v
  | _ => XInspect
  end.

(* everything a caller can read from the object: the fields, and the PusTc-level getters *)
Definition tc_inspect (t : tc) : args :=
  tc_fields t ++
  [[tcs_service (tc_sec t); tcs_subservice (tc_sec t); tcs_source_id (tc_sec t);
    apid (tc_sph t); scount (tc_sph t); ver (tc_sph t);
    pid_raw (sph_pid (tc_sph t)); psc_raw (sph_psc (tc_sph t));
    ptype (tc_sph t); shf (tc_sph t); sflags (tc_sph t)]].

Definition tcx_obs (r : res tcx_out) : args :=
  match r with
  | Err e => [[1; canon_code e]]
  | Ok ONone => [[0]]
  | Ok (OBytes b) => [[0]; b]
  | Ok (OState t) => [0] :: tc_inspect t
  | Ok (OEq x y) => [[0]; [b2z x; b2z y]]
  | Ok (ORound e u) => [0] :: [b2z e] :: tc_fields u
  end.

Definition tcx_closing : list tcx_op := [XInspect; XView; XInspect; XPack; XInspect].

Definition run_tc (op : Z) (a : args) : args :=
  match op with
  | 500 => ret tc_fields (tc_of_args a)
  | 501 => ret (fun r => [fst r; [tc_packet_len (snd r)]]) (do t <- tc_of_args a; tc_pack t)
  | 502 => ret tc_fields (tc_unpack (lst 0 a))
  | 503 => ret (fun r => [fst r]) (do t <- tc_unpack (lst 0 a); tc_pack t)
  | 504 => ret (fun b => [b]) (do t <- tc_of_args a; tc_to_space_packet_pack t)
  (* new -> pack -> unpack -> equality with the original, fields of the decoded one *)
  | 505 => ret (fun r => [[b2z (fst r)]] ++ tc_fields (snd r))
             (do t <- tc_of_args a; do p <- tc_pack t; do u <- tc_unpack (fst p);
              Ok (tc_eqb u t && tc_eqb t u, u))
  | 506 => [[0]; [b2z (check_pus_crc (lst 0 a))]]
  (* setter history: new, then app_data := lst 2, then pack; reports packet_len and octets *)
  | 507 => ret (fun r => [fst r; [tc_packet_len (snd r)]])
             (do t <- tc_of_args a; tc_pack (tc_set_app_data t (lst 2 a)))
  | 508 => ret (fun s => [[tcs_service s; tcs_subservice s; tcs_source_id s; tcs_ack s]])
             (tcsec_unpack (lst 0 a))
  (* pack twice: second call with recalc_crc=False *)
  | 509 => ret (fun r => [fst r])
             (do t <- tc_of_args a; do p <- tc_pack t; tc_pack_norecalc (snd p))
  (* history: new, then the operations in lists 2.., then observe space-packet view, pack, length *)
  | 510 => ret (fun r => r)
             (do t <- tc_of_args a;
              do u <- tc_run t (map tc_op_of (skipn 2 a));
              do sp <- tc_to_space_packet_pack u;
              do p <- tc_pack u;
              Ok [sp; fst p; [tc_packet_len u]])
  (* decode from a buffer that may continue behind the packet, then every observable of the decoded object:
     fields incl. crc16 and packet_len, pack(recalc_crc=False), pack(), == with the telecommand decoded from exactly
     the packet's own octets (both directions), the fields again *)
  | 513 => ret (fun x => x)
             (do u <- tc_unpack (lst 0 a);
              do p1 <- tc_pack_norecalc u;
              do p2 <- tc_pack (snd p1);
              do w <- tc_unpack (slice_to (lst 0 a) (tc_packet_len u));
              Ok (tc_fields u ++ [fst p1; fst p2; [b2z (tc_eqb u w); b2z (tc_eqb w u)]] ++ tc_fields (snd p2)))
  (* extended history: construction path + parameters in list 0, data in list 1, operations in
     lists 2..; every operation leaves its observation; closing sequence of views and packs; the
     last list: number of caller-owned buffers the library changed, number of octet strings the library
     had handed out earlier (pack results, views) that changed afterwards (0, 0 in the model) *)
  | 520 => ret (fun r => r)
             (do t <- tcx_make (lst 0 a) (lst 1 a);
              (* the untouched twin the adapter builds from the same arguments has the same value *)
              let '(_, outs) := tcx_run t t (map tcx_op_of (skipn 2 a) ++ tcx_closing) in
              Ok (flat_map tcx_obs outs ++ [[0; 0]]))
  (* Spec *)
  | 550 => [[0]; tc_layout (int 0 0 a) (int 0 1 a) (int 0 2 a) (int 0 3 a) (int 0 4 a) (int 0 5 a) (lst 1 a)]
  | _ => [[1; 97]]
  end.
