(* family 5: PUS telecommands *)
From Coq Require Import ZArith List Bool.
From SP Require Import Base.Result Base.Bytes Base.Crc16 Run.Marshal Run.DispSph Model.SpacePacket Model.PusTc Spec.PusSpec.
Import ListNotations.
Open Scope Z_scope.

Definition tc_fields (t : tc) : args :=
  [ sph_fields (tc_sph t);
    [tcs_service (tc_sec t); tcs_subservice (tc_sec t); tcs_source_id (tc_sec t); tcs_ack (tc_sec t)];
    tc_app t; of_opt_bytes (tc_crc t); [tc_packet_len t] ].

(* args: [service; subservice; apid; seq; source_id; ack] [app_data] *)
Definition tc_of_args (a : args) : res tc :=
  tc_new (int 0 0 a) (int 0 1 a) (int 0 2 a) (lst 1 a) (int 0 3 a) (int 0 4 a) (int 0 5 a).

(* one operation per argument list: [kind; value] or [3; app data...] *)
Definition tc_op_of (l : list Z) : tc_op :=
  match l with
  | 0 :: _ => TcPack
  | 1 :: _ => TcPackNoRecalc
  | 2 :: _ => TcCalcCrc
  | 3 :: d => TcSetApp d
  | 4 :: v :: _ => TcSetSeq v
  | 5 :: v :: _ => TcSetApid v
  | 6 :: v :: _ => TcSetSource v
  | _ => TcPack
  end.

Definition run_tc (op : Z) (a : args) : args :=
  match op with
  | 500 => ret tc_fields (tc_of_args a)
  | 501 => ret (fun r => [fst r; [tc_packet_len (snd r)]]) (do t <- tc_of_args a; tc_pack t)
  | 502 => ret tc_fields (tc_unpack (lst 0 a))
  | 503 => ret (fun r => [fst r]) (do t <- tc_unpack (lst 0 a); tc_pack t)
  | 504 => ret (fun b => [b]) (do t <- tc_of_args a; tc_to_space_packet_pack t)
  (* new -> pack -> unpack -> equality with the original, fields of the decoded one *)
  | 505 => ret (fun r => [[b2z (fst r)]] ++ tc_fields (snd r))
             (do t <- tc_of_args a; do p <- tc_pack t; do u <- tc_unpack (fst p);
              Ok (tc_eqb u t && tc_eqb t u, u))
  | 506 => [[0]; [b2z (check_pus_crc (lst 0 a))]]
  (* setter history: new, then app_data := lst 2, then pack; reports packet_len and octets *)
  | 507 => ret (fun r => [fst r; [tc_packet_len (snd r)]])
             (do t <- tc_of_args a; tc_pack (tc_set_app_data t (lst 2 a)))
  | 508 => ret (fun s => [[tcs_service s; tcs_subservice s; tcs_source_id s; tcs_ack s]])
             (tcsec_unpack (lst 0 a))
  (* pack twice: second call with recalc_crc=False *)
  | 509 => ret (fun r => [fst r])
             (do t <- tc_of_args a; do p <- tc_pack t; tc_pack_norecalc (snd p))
  (* history: new, then the operations in lists 2.., then observe space-packet view, pack, length *)
  | 510 => ret (fun r => r)
             (do t <- tc_of_args a;
              do u <- tc_run t (map tc_op_of (skipn 2 a));
              do sp <- tc_to_space_packet_pack u;
              do p <- tc_pack u;
              Ok [sp; fst p; [tc_packet_len u]])
  (* Spec *)
  | 550 => [[0]; tc_layout (int 0 0 a) (int 0 1 a) (int 0 2 a) (int 0 3 a) (int 0 4 a) (int 0 5 a) (lst 1 a)]
  | _ => [[1; 97]]
  end.
