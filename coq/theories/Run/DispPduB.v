(* family 13, part B (ops 1340-1369): Finished PDU and Metadata PDU. *)
From Coq Require Import ZArith List Bool.
From SP Require Import Base.Result Base.Bytes Run.Marshal Model.PduHeader Run.DispHdr
  Model.FileDirective Model.Lv Model.Tlv Model.Finished Model.Metadata
  Spec.PduHeaderSpec Spec.PduBSpec.
Import ListNotations.
Open Scope Z_scope.

Definition pack_res (r : res bytes) : list Z :=
  match r with Ok b => 0 :: b | Err e => [1; err_code e] end.

(* ---- case-line encodings ----
   a filestore response: action :: status :: len(first) :: len(second) :: first ++ second ++ msg
   (built with FileStoreResponseTlv(action, status, first, second, CfdpLv(msg)));
   an optional octet string: [0] = None, 1 :: octets = Some;
   a CfdpTlv: type :: value *)
Definition resp_of_list (l : list Z) : res fsresp :=
  match l with
  | a :: st :: l1 :: l2 :: r =>
      let first := firstn (Z.to_nat l1) r in
      let second := firstn (Z.to_nat l2) (skipn (Z.to_nat l1) r) in
      let m := skipn (Z.to_nat l1 + Z.to_nat l2) r in
      do msg <- lv_new m;
      Ok {| fp_action := a; fp_status := st; fp_first := first; fp_second := second; fp_msg := msg |}
  | _ => Err EOther
  end.
Fixpoint resps_of_lists (l : list (list Z)) : res (list fsresp) :=
  match l with
  | [] => Ok []
  | x :: r => do a <- resp_of_list x; do b <- resps_of_lists r; Ok (a :: b)
  end.
Definition resp_enc (r : fsresp) : list Z :=
  fp_action r :: fp_status r :: len (fp_first r) :: len (fp_second r)
  :: fp_first r ++ fp_second r ++ fp_msg r.

(* EntityIdTlv(value) *)
Definition fault_of_list (l : list Z) : res (option tlv) :=
  match l with
  | 1 :: v => do t <- entity_new v; Ok (Some t)
  | _ => Ok None
  end.
Definition fault_enc (o : option tlv) : list Z :=
  match o with None => [0] | Some t => 1 :: tlv_value t end.

Definition tlv_of_list (l : list Z) : res tlv :=
  match l with ty :: v => tlv_new ty v | [] => Err EOther end.
Fixpoint tlvs_of_lists (l : list (list Z)) : res (list tlv) :=
  match l with
  | [] => Ok []
  | x :: r => do a <- tlv_of_list x; do b <- tlvs_of_lists r; Ok (a :: b)
  end.
Definition tlv_enc (t : tlv) : list Z := tlv_type t :: tlv_value t.

(* ---- Finished: ids, flags, [cc; dc; fs], fault, [n], n responses, then op-specific lists ---- *)
Definition fin_params_of_args (a : args) : res FinParams :=
  do fl <- fault_of_list (lst 3 a);
  do rs <- resps_of_lists (firstn (Z.to_nat (int 4 0 a)) (skipn 5 a));
  Ok {| fn_cc := int 2 0 a; fn_dc := int 2 1 a; fn_fs := int 2 2 a; fn_resps := rs; fn_fault := fl |}.
Definition fin_extra (a : args) : args := skipn (5 + Z.to_nat (int 4 0 a)) a.

Definition fin_of_args (a : args) : res (FinishedPdu * PduConfig * FinParams) :=
  do c <- conf_of_args (lst 0 a) (lst 1 a);
  do q <- fin_params_of_args a;
  fin_new c q.

Definition fn_fields (q : FinParams) : args :=
  [[fn_cc q; fn_dc q; fn_fs q]; fault_enc (fn_fault q); [Z.of_nat (length (fn_resps q))]]
  ++ map resp_enc (fn_resps q).

Definition fin_fields (p : FinishedPdu) : args :=
  hdr_fields (fd_hdr (fin_fdir p)) ++ [[fd_type (fin_fdir p); fin_packet_len p]] ++ fn_fields (fin_params p).

(* history of setter calls, one list each:
   [0] fault_location = None | 1 :: value  fault_location = EntityIdTlv(value)
   [2] file_store_responses = None | 3 :: k  file_store_responses = the next k lists
   4 :: cc  condition_code = cc *)
Fixpoint fin_apply (fuel : nat) (p : FinishedPdu) (ops : list (list Z)) : res FinishedPdu :=
  match fuel with
  | O => Ok p
  | S fuel' =>
    match ops with
    | [] => Ok p
    | (0 :: _) :: r => do p' <- fin_set_fault p None; fin_apply fuel' p' r
    | (1 :: v) :: r => do t <- entity_new v; do p' <- fin_set_fault p (Some t); fin_apply fuel' p' r
    | (2 :: _) :: r => do p' <- fin_set_resps p None; fin_apply fuel' p' r
    | (3 :: k :: _) :: r =>
        do rs <- resps_of_lists (firstn (Z.to_nat k) r);
        do p' <- fin_set_resps p (Some rs); fin_apply fuel' p' (skipn (Z.to_nat k) r)
    | (4 :: cc :: _) :: r => do p' <- fin_set_cc p cc; fin_apply fuel' p' r
    | _ :: r => fin_apply fuel' p r
    end
  end.

(* ---- Metadata: ids, flags, [closure; checksum type; file size], source name, dest name,
   [has_options; n], n options, then op-specific lists ---- *)
Definition md_params_of_args (a : args) : MdParams :=
  {| mp_closure := int 2 0 a; mp_cstype := int 2 1 a; mp_fsize := int 2 2 a;
     mp_src := opt_bytes (lst 3 a); mp_dst := opt_bytes (lst 4 a) |}.
Definition md_options_of_args (a : args) : res (option (list tlv)) :=
  if int 5 0 a =? 0 then Ok None else
  do l <- tlvs_of_lists (firstn (Z.to_nat (int 5 1 a)) (skipn 6 a)); Ok (Some l).
Definition md_extra (a : args) : args := skipn (6 + Z.to_nat (int 5 1 a)) a.

Definition md_of_args (a : args) : res (MetadataPdu * PduConfig * MdParams) :=
  do c <- conf_of_args (lst 0 a) (lst 1 a);
  do o <- md_options_of_args a;
  md_new c (md_params_of_args a) o.

Definition opts_enc (o : option (list tlv)) : args :=
  match o with
  | None => [[0; 0]]
  | Some l => [1; Z.of_nat (length l)] :: map tlv_enc l
  end.
(* result of a name getter: [0] None, 1 :: octets, [2] UnicodeDecodeError *)
Definition name_get_enc (v : lv) : list Z :=
  match md_name_get v with
  | Ok None => [0]
  | Ok (Some s) => 1 :: s
  | Err _ => [2]
  end.
Definition mp_fields (q : MdParams) : args :=
  [[mp_closure q; mp_cstype q; mp_fsize q]; of_opt_bytes (mp_src q); of_opt_bytes (mp_dst q)].
Definition md_fields (p : MetadataPdu) : args :=
  hdr_fields (fd_hdr (md_fdir p)) ++
  [[fd_type (md_fdir p); md_packet_len p];
   [mp_closure (md_params p); mp_cstype (md_params p); mp_fsize (md_params p)];
   md_src_lv p; md_dst_lv p; name_get_enc (md_src_lv p); name_get_enc (md_dst_lv p)]
  ++ opts_enc (md_options p).

(* setter history: [0] options = None | 1 :: k options = next k lists
   [2] source_file_name = None | 3 :: octets source_file_name = str
   [4] dest_file_name = None | 5 :: octets dest_file_name = str *)
Fixpoint md_apply (fuel : nat) (p : MetadataPdu) (ops : list (list Z)) : res MetadataPdu :=
  match fuel with
  | O => Ok p
  | S fuel' =>
    match ops with
    | [] => Ok p
    | (0 :: _) :: r => do p' <- md_set_options p None; md_apply fuel' p' r
    | (1 :: k :: _) :: r =>
        do l <- tlvs_of_lists (firstn (Z.to_nat k) r);
        do p' <- md_set_options p (Some l); md_apply fuel' p' (skipn (Z.to_nat k) r)
    | (2 :: _) :: r => do p' <- md_set_src p None; md_apply fuel' p' r
    | (3 :: n) :: r => do p' <- md_set_src p (Some n); md_apply fuel' p' r
    | (4 :: _) :: r => do p' <- md_set_dst p None; md_apply fuel' p' r
    | (5 :: n) :: r => do p' <- md_set_dst p (Some n); md_apply fuel' p' r
    | _ :: r => md_apply fuel' p r
    end
  end.

Definition eq_res (r : res bool) : list Z :=
  match r with Ok b => [0; b2z b] | Err e => [1; err_code e] end.

Definition run_pdu_b (op : Z) (a : args) : args :=
  match op with
  (* FinishedPdu(conf, params): fields, then the caller's PduConfig and FinishedParams afterwards *)
  | 1340 => ret (fun r => let '(p, c, q) := r in
                          fin_fields p ++ [conf_ids c; conf_flags c] ++ fn_fields q)
                (fin_of_args a)
  (* .pack() *)
  | 1341 => ret (fun b => [b]) (do r <- fin_of_args a; fin_pack (fst (fst r)))
  (* FinishedPdu.unpack(data) *)
  | 1342 => ret fin_fields (fin_unpack (lst 0 a))
  (* FinishedPdu.unpack(data).pack() *)
  | 1343 => ret (fun b => [b]) (do p <- fin_unpack (lst 0 a); fin_pack p)
  (* p = FinishedPdu(...); p2 = unpack(p.pack() ++ suffix): [p2 == p], p2.pack(), fields of p2 *)
  | 1344 => ret (fun r => r)
              (do r <- fin_of_args a;
               let p := fst (fst r) in
               do b <- fin_pack p;
               do p2 <- fin_unpack (b ++ nth 0 (fin_extra a) []);
               Ok (eq_res (fin_eq p2 p) :: pack_res (fin_pack p2) :: fin_fields p2))
  (* constructor, then a history of setter calls: packet_len, pack, pack again, fields *)
  | 1345 => ret (fun p => [fin_packet_len p] :: pack_res (fin_pack p) :: pack_res (fin_pack p) :: fin_fields p)
              (do r <- fin_of_args a; fin_apply (length a) (fst (fst r)) (fin_extra a))
  (* MetadataPdu(conf, params, options) *)
  | 1350 => ret (fun r => let '(p, c, q) := r in
                          md_fields p ++ [conf_ids c; conf_flags c] ++ mp_fields q)
                (md_of_args a)
  | 1351 => ret (fun b => [b]) (do r <- md_of_args a; md_pack (fst (fst r)))
  | 1352 => ret md_fields (md_unpack (lst 0 a))
  | 1353 => ret (fun b => [b]) (do p <- md_unpack (lst 0 a); md_pack p)
  | 1354 => ret (fun r => r)
              (do r <- md_of_args a;
               let p := fst (fst r) in
               do b <- md_pack p;
               do p2 <- md_unpack (b ++ nth 0 (md_extra a) []);
               Ok ([b2z (md_eqb p2 p)] :: pack_res (md_pack p2) :: md_fields p2))
  | 1355 => ret (fun p => [md_packet_len p] :: pack_res (md_pack p) :: pack_res (md_pack p) :: md_fields p)
              (do r <- md_of_args a; md_apply (length a) (fst (fst r)) (md_extra a))
  (* Spec side (independent oracle): the layouts of (conf fields, params) *)
  | 1360 => match fin_params_of_args a with
            | Ok q => [[0]; fin_layout (hdr_conf_raw (lst 0 a) (lst 1 a)) q]
            | Err e => ret_err e
            end
  | 1361 => match md_options_of_args a with
            | Ok o => [[0]; md_layout (hdr_conf_raw (lst 0 a) (lst 1 a)) (md_params_of_args a) o]
            | Err e => ret_err e
            end
  | _ => [[1; 97]]
  end.
