(* family 8: PUS verification tracker (C16).
   A request id is six integers [ver; ptype; shf; apid; seq_flags; seq_count].
   A status is [recvd; accepted; started; step; completed; step_list...].
   800  history: every argument is one step; a trailing integer selects the construction path of
        the object on the implementation side (PusTc(...), from_sp_header, from_composite_fields,
        unpack, ...; RequestId(...), unpack, from_pus_tc, ...) and is ignored here: the model works on
        the header fields
          [0; id6; path]                          add_tc (telecommand with that header)
          [1; id6; sub; has_step; step; path]     add_tm (service-1 report)
          [2; id6; path]                          remove_entry
          [3]                                     remove_completed_entries
          [4; id6; what; value]                   the caller edits (setters) the telecommand object it
                                                  registered with that header: not a tracker call
        result: per step  the return value  [0; bool] | [1] (None) | [2; completed; status] | [3; error]
                followed by [n] and the n dictionary entries [key; status] in dictionary order;
                then [m] and, for each of the m results add_tm handed out, as it reads at the END of
                the history: [completed; still the dictionary's status object (0/1); status];
                then [0]: the number of (step, earlier result) pairs at which the completed flag or
                the identity of the status object of an earlier result had changed (results are
                fresh objects: never).
   801  one transition on a one-entry dictionary: a0 = status, a1 = [sub; has_step; step]
   802  the steps of 800 on one tracker, for histories of tens of thousands of steps: result = the return
        value of every step, then [n] and the n dictionary entries as they are at the END of the history
   850  Spec: table on (a0 = status, a1 = [sub; step]):  [1] (ValueError) | [0; completed; status]
   851  Spec: history on keys: a0 = keys to report; a1.. = [0; key] | [1; key; sub; step] | [2; key] | [3];
        result: per call the return value as in 800 followed by, for every key of a0,
        [key; 0] or [key; 1; status]. *)
From Coq Require Import ZArith List Bool.
From SP Require Import Base.Result Base.Bytes Run.Marshal Model.SpacePacket Model.Verificator Spec.VerificatorSpec.
Import ListNotations.
Open Scope Z_scope.

Definition reqid_of (l : list Z) : reqid :=
  {| r_ver := nth 0 l 0;
     r_pid := {| pid_ptype := nth 1 l 0; pid_shf := nth 2 l 0; pid_apid := nth 3 l 0 |};
     r_psc := {| psc_flags := nth 4 l 0; psc_count := nth 5 l 0 |} |}.
Definition sph_of_id (l : list Z) : sph :=
  {| ver := nth 0 l 0; ptype := nth 1 l 0; shf := nth 2 l 0; apid := nth 3 l 0;
     sflags := nth 4 l 0; scount := nth 5 l 0; dlen := 0 |}.

Definition status_fields (s : vstatus) : list Z :=
  [recvd s; acc s; sta s; step s; comp s] ++ steps s.
Definition status_of (l : list Z) : vstatus :=
  {| recvd := nth 0 l 0; acc := nth 1 l 0; sta := nth 2 l 0; step := nth 3 l 0;
     comp := nth 4 l 0; steps := skipn 5 l |}.

Definition vop_of (l : list Z) : vop :=
  match l with
  | 0 :: id => AddTc (sph_of_id id)
  | 1 :: r => AddTm {| rep_id := reqid_of (firstn 6 r); rep_sub := nth 6 r 0;
                       rep_step := if nth 7 r 0 =? 0 then None else Some (nth 8 r 0) |}
  | 2 :: id => RemoveEntry (reqid_of id)
  | _ => RemoveCompleted
  end.

Definition hop_of (l : list Z) : hop :=
  match l with
  | 4 :: _ => HCallerEdit
  | _ => HOp (vop_of l)
  end.

Definition kept_fields (r : kept) : list Z :=
  b2z (k_completed r) :: b2z (k_live r) :: status_fields (k_status r).

Definition vout_fields (o : vout) : list Z :=
  match o with
  | OBool b => [0; b2z b]
  | ONone => [1]
  | OResult s c => 2 :: b2z c :: status_fields s
  | ORaise e => [3; err_code e]
  end.

Definition obs_v (x : vout * vdict) : args :=
  vout_fields (fst x) :: [Z.of_nat (length (snd x))] :: map (fun e => fst e :: status_fields (snd e)) (snd x).

(* ---- spec side ---- *)
Definition sf_code (x : sf) : Z := match x with U => -1 | F => 0 | S => 1 end.
Definition sf_of (z : Z) : sf := if z =? -1 then U else if z =? 0 then F else S.
Definition sstatus_fields (t : sstatus) : list Z :=
  [b2z (s_recvd t); sf_code (s_acc t); sf_code (s_sta t); sf_code (s_step t); sf_code (s_comp t)] ++ s_steps t.
Definition sstatus_of (l : list Z) : sstatus :=
  {| s_recvd := negb (nth 0 l 0 =? 0); s_acc := sf_of (nth 1 l 0); s_sta := sf_of (nth 2 l 0);
     s_step := sf_of (nth 3 l 0); s_comp := sf_of (nth 4 l 0); s_steps := skipn 5 l |}.

Definition sop_of (l : list Z) : sop :=
  match l with
  | 0 :: k :: _ => SAddTc k
  | 1 :: k :: sub :: st :: _ => SAddTm k sub st
  | 2 :: k :: _ => SRemoveEntry k
  | _ => SRemoveCompleted
  end.

Definition sout_fields (o : sout) : list Z :=
  match o with
  | SBool b => [0; b2z b]
  | SNone => [1]
  | SResult t c => 2 :: b2z c :: sstatus_fields t
  | SValueError => [3; 1]
  end.

Fixpoint srun (keys : list Z) (m : tracker) (ops : list sop) : args :=
  match ops with
  | [] => []
  | o :: r =>
    let '(m', x) := spec_step m o in
    sout_fields x ::
    map (fun k => match m' k with None => [k; 0] | Some t => k :: 1 :: sstatus_fields t end) keys
    ++ srun keys m' r
  end.

(* 802: return values only (accumulated in reverse, one pass), the dictionary at the end *)
Fixpoint hrets (d : vdict) (ops : list hop) (acc : args) : args * vdict :=
  match ops with
  | [] => (rev_append acc [], d)
  | o :: r => let '(d', x) := hstep d o in hrets d' r (vout_fields x :: acc)
  end.

Definition run_verif (op : Z) (a : args) : args :=
  match op with
  | 800 =>
    let '(obs, _, kf) := hrun [] [] (map hop_of a) in
    [0] :: flat_map obs_v obs ++ [Z.of_nat (length kf)] :: map kept_fields kf ++ [[0]]
  | 801 =>
    let id := [0; 1; 1; 5; 3; 7] in
    let d := [(reqid_as_u32 (reqid_of id), status_of (lst 0 a))] in
    let r := {| rep_id := reqid_of id; rep_sub := int 1 0 a;
                rep_step := if int 1 1 a =? 0 then None else Some (int 1 2 a) |} in
    let '(d', x) := vstep d (AddTm r) in [0] :: obs_v (x, d')
  | 802 =>
    let '(rets, d) := hrets [] (map hop_of a) [] in
    [0] :: rets ++ [Z.of_nat (length d)] :: map (fun e => fst e :: status_fields (snd e)) d
  | 850 =>
    match table (int 1 0 a) (int 1 1 a) (sstatus_of (lst 0 a)) with
    | None => [[0]; [1]]
    | Some (t, c) => [[0]; 0 :: b2z c :: sstatus_fields t]
    end
  | 851 => [0] :: srun (lst 0 a) t_empty (map sop_of (tl a))
  | _ => [[1; 97]]
  end.
