(* family 13, part C (ops 1370-1399): the NAK PDU. *)
From Coq Require Import ZArith List Bool.
From SP Require Import Base.Result Base.Bytes Run.Marshal Model.PduHeader Run.DispHdr
  Model.FileDirective Model.Nak Spec.PduHeaderSpec Spec.PduCSpec.
Import ListNotations.
Open Scope Z_scope.

(* segment requests on a case line: [s0; e0; s1; e1; ...] *)
Fixpoint segs_of_flat (l : list Z) : list (Z * Z) :=
  match l with
  | s :: e :: r => (s, e) :: segs_of_flat r
  | _ => []
  end.
Fixpoint flat_of_segs (l : list (Z * Z)) : list Z :=
  match l with [] => [] | (s, e) :: r => s :: e :: flat_of_segs r end.

(* a NAK PDU on a case line: ids, flags (as for family 12), [start; end], flat segment requests *)
Definition nak_of_args (a : args) : res (NakPdu * PduConfig) :=
  do c <- conf_of_args (lst 0 a) (lst 1 a);
  nak_new c (int 2 0 a) (int 2 1 a) (segs_of_flat (lst 3 a)).

Definition nak_fields (p : NakPdu) : args :=
  hdr_fields (nk_hdr p) ++
  [[fd_type (nk_fd p); fdir_header_len (nk_fd p); nak_packet_len p];
   [nk_start p; nk_end p]; flat_of_segs (nk_segs p)].

Definition pack_res (r : res bytes) : list Z :=
  match r with Ok b => 0 :: b | Err e => [1; err_code e] end.

(* history of setter calls: each remaining argument list is
   0 :: flat segment requests (segment_requests setter) | [1; v] (file_flag setter) |
   [2; v] (start_of_scope) | [3; v] (end_of_scope) *)
Fixpoint nak_apply (p : NakPdu) (ops : list (list Z)) : res NakPdu :=
  match ops with
  | [] => Ok p
  | (0 :: l) :: r => do p' <- nak_set_segs p (segs_of_flat l); nak_apply p' r
  | (1 :: v :: _) :: r => do p' <- nak_set_file_flag p v; nak_apply p' r
  | (2 :: v :: _) :: r => nak_apply (nak_set_start p v) r
  | (3 :: v :: _) :: r => nak_apply (nak_set_end p v) r
  | _ :: r => nak_apply p r
  end.

Definition params_of_args (a : args) : NakParams :=
  {| np_start := int 2 0 a; np_end := int 2 1 a; np_segs := segs_of_flat (lst 3 a) |}.

Definition run_pdu_c (op : Z) (a : args) : args :=
  match op with
  (* NakPdu(conf, start, end, segs): fields, then the caller's PduConfig afterwards *)
  | 1370 => ret (fun r => nak_fields (fst r) ++ [conf_ids (snd r); conf_flags (snd r)]) (nak_of_args a)
  (* .pack() *)
  | 1371 => ret (fun b => [b]) (do r <- nak_of_args a; nak_pack (fst r))
  (* NakPdu.unpack(data) *)
  | 1372 => ret nak_fields (nak_unpack (lst 0 a))
  (* NakPdu.unpack(data).pack() *)
  | 1373 => ret (fun b => [b]) (do p <- nak_unpack (lst 0 a); nak_pack p)
  (* p = NakPdu(...); p2 = unpack(p.pack() ++ suffix): [p2 == p], fields of p2, p2.pack() *)
  | 1374 => ret (fun r => r)
              (do r <- nak_of_args a;
               do b <- nak_pack (fst r);
               do p2 <- nak_unpack (b ++ lst 4 a);
               Ok ([b2z (nak_eqb p2 (fst r))] :: nak_fields p2 ++ [pack_res (nak_pack p2)]))
  (* get_max_seg_reqs_for_max_packet_size_and_pdu_cfg(max_packet_size, conf) *)
  | 1375 => ret (fun r => [[r]])
              (do c <- conf_of_args (lst 0 a) (lst 1 a); nak_max_seg_reqs (int 2 0 a) c)
  (* constructor, then a history of setter calls: fields, pack, pack again, the caller's PduConfig *)
  | 1376 => ret (fun r => r)
              (do c <- conf_of_args (lst 0 a) (lst 1 a);
               do r <- nak_new c (int 2 0 a) (int 2 1 a) (segs_of_flat (lst 3 a));
               do p <- nak_apply (fst r) (skipn 4 a);
               let cc := nak_caller_conf_after c p in
               Ok (nak_fields p ++ [pack_res (nak_pack p); pack_res (nak_pack p); conf_ids cc; conf_flags cc]))
  (* two PDUs: __eq__ *)
  | 1377 => ret (fun r => [[r]])
              (do r1 <- nak_of_args a;
               do r2 <- nak_of_args (skipn 4 a);
               Ok (b2z (nak_eqb (fst r1) (fst r2))))
  (* NakPdu(...).get_max_seg_reqs_for_max_packet_size(n) *)
  | 1378 => ret (fun r => [[r]])
              (do r <- nak_of_args a; nak_max_seg_reqs (int 4 0 a) (nk_conf (fst r)))
  (* NakPdu.unpack(data xor error pattern)  (C04: corrupted CRC-flagged PDUs) *)
  | 1379 => ret nak_fields (nak_unpack (xor_bytes (lst 0 a) (lst 1 a)))
  (* Spec side (independent oracle): layout of (conf fields, params) *)
  | 1390 => [[0]; nak_layout (hdr_conf_raw (lst 0 a) (lst 1 a)) (params_of_args a)]
  | _ => [[1; 97]]
  end.
