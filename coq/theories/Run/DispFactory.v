(* family 15: PDU factory and holder (spacepackets/cfdp/pdu/helper.py). *)
From Coq Require Import ZArith List Bool.
From SP Require Import Base.Result Base.Bytes Run.Marshal Model.PduHeader Model.FileDirective Model.Factory Model.FactoryOps.
From SP Require Run.DispHdr Run.DispFileData Run.DispPduA Run.DispPduB Run.DispPduC.
Import ListNotations.
Open Scope Z_scope.

(* a generic PDU on a result line: [class index] then the fields of that class as the class's
   own family marshals them *)
Definition pdu_fields (p : pdu) : args :=
  [pdu_kind p] ::
  match p with
  | PFileData q => DispFileData.fd_fields q
  | PEof q => DispPduA.eof_fields q
  | PFinished q => DispPduB.fin_fields q
  | PAck q => DispPduA.ack_fields q
  | PMetadata q => DispPduB.md_fields q
  | PNak q => DispPduC.nak_fields q
  | PPrompt q => DispPduA.prompt_fields q
  | PKeepAlive q => DispPduA.ka_fields q
  end.

Definition opt_pdu_fields (o : option pdu) : args :=
  match o with None => [[-1]] | Some p => pdu_fields p end.

Definition opt_z (o : option Z) : list Z := match o with None => [0] | Some t => [1; t] end.

Definition res_bytes (r : res bytes) : list Z :=
  match r with Ok b => 0 :: b | Err e => [1; err_code e] end.
Definition res_bool (r : res bool) : list Z :=
  match r with Ok b => [0; b2z b] | Err e => [1; err_code e] end.

(* the constructor of class k applied to a case line in the format of that class's family *)
Definition pdu_of_args (k : Z) (a : args) : res pdu :=
  if k =? 0 then do r <- DispFileData.fd_of_args a; Ok (PFileData (fst r))
  else if k =? 1 then do r <- DispPduA.eof_of_args a; Ok (PEof (fst r))
  else if k =? 2 then do r <- DispPduB.fin_of_args a; Ok (PFinished (fst (fst r)))
  else if k =? 3 then do r <- DispPduA.ack_of_args a; Ok (PAck (fst r))
  else if k =? 4 then do r <- DispPduB.md_of_args a; Ok (PMetadata (fst (fst r)))
  else if k =? 5 then do r <- DispPduC.nak_of_args a; Ok (PNak (fst r))
  else if k =? 6 then do r <- DispPduA.prompt_of_args a; Ok (PPrompt (fst r))
  else if k =? 7 then do r <- DispPduA.ka_of_args a; Ok (PKeepAlive (fst r))
  else Err EOther.

Definition holder_inspect (h : holder) : res args :=
  do t <- holder_pdu_type h;
  do b <- holder_is_file_directive h;
  do d <- holder_pdu_directive_type h;
  Ok [[t]; [b2z b]; opt_z d].

(* ---- operation histories on one holder (op 1521) ---- *)
Definition holder_op_of (l : list Z) : res holder_op :=
  match l with
  | 1 :: _ :: d => Ok (KSet d)
  | 2 :: _ => Ok KSetNone
  | 3 :: _ => Ok KInspect
  | 4 :: _ => Ok KPacketLen
  | 5 :: _ => Ok KPack
  | 6 :: k :: _ => Ok (KTo k)
  | 7 :: _ :: d => Ok (KFileDataSet d)
  | _ => Err EOther
  end.

(* what a holder holds: [number of lines] then those lines ([-1] for an empty holder) *)
Definition holder_state (h : holder) : args :=
  let f := opt_pdu_fields h in [Z.of_nat (length f)] :: f.

Fixpoint holder_run (h : holder) (ops : list (list Z)) : args :=
  match ops with
  | [] => []
  | l :: r =>
      match holder_op_of l with
      | Err e => [1; DispHdr.canon_err e] :: holder_state h ++ [] :: holder_run h r
      | Ok o =>
          let '(h', out) := holder_step h o in
          match out with
          | Ok v => [0] :: holder_state h' ++ v :: holder_run h' r
          | Err e => [1; DispHdr.canon_err e] :: holder_state h' ++ [] :: holder_run h' r
          end
      end
  end.

Definition run_factory (op : Z) (a : args) : args :=
  match op with
  (* PduFactory.from_raw(data) *)
  | 1500 => ret opt_pdu_fields (fac_from_raw (lst 0 a))
  (* PduFactory.pdu_type(data) *)
  | 1501 => ret (fun t => [[t]]) (fac_pdu_type (lst 0 a))
  (* PduFactory.is_file_directive(data) *)
  | 1502 => ret (fun b => [[b2z b]]) (fac_is_file_directive (lst 0 a))
  (* PduFactory.pdu_directive_type(data) *)
  | 1503 => ret (fun o => [opt_z o]) (fac_pdu_directive_type (lst 0 a))
  (* PduFactory.from_raw_to_holder(data).to_<class k>_pdu() *)
  | 1504 => ret pdu_fields (do h <- fac_from_raw_to_holder (lst 0 a); holder_to (int 1 0 a) h)
  (* holder = from_raw_to_holder(data): pack(), packet_len *)
  | 1505 => ret (fun h => [res_bytes (holder_pack h); [holder_packet_len h]]) (fac_from_raw_to_holder (lst 0 a))
  (* holder = from_raw_to_holder(data): pdu_type, is_file_directive, pdu_directive_type *)
  | 1506 => ret (fun r => r) (do h <- fac_from_raw_to_holder (lst 0 a); holder_inspect h)
  (* PduHolder(<class j>.unpack(data)).to_<class k>_pdu() *)
  | 1507 => ret pdu_fields (do p <- unpack_as (int 1 0 a) (lst 0 a); holder_to (int 2 0 a) (Some p))
  (* PduHolder(<class j>.unpack(data)): pdu_type, is_file_directive, pdu_directive_type, packet_len *)
  | 1508 => ret (fun r => r) (do p <- unpack_as (int 1 0 a) (lst 0 a);
                              do r <- holder_inspect (Some p); Ok (r ++ [[holder_packet_len (Some p)]]))
  (* PduHolder(None): to_<class k>_pdu() *)
  | 1509 => ret pdu_fields (holder_to (int 0 0 a) None)
  (* p1 = from_raw(data1); p2 = from_raw(data2) (two buffers, or one receive buffer used twice):
     p1 as it is after the second call, p2, both re-packed *)
  | 1520 => ret (fun r => r)
              (do o1 <- fac_from_raw (lst 0 a);
               do o2 <- fac_from_raw (lst 1 a);
               Ok (holder_state o1 ++ holder_state o2 ++ [res_bytes (holder_pack o1); res_bytes (holder_pack o2)]))
  (* h = PduHolder(None); a history of operations on h *)
  | 1521 => [0] :: holder_run None a
  | _ =>
    (* 1510 + k: p = <class k>(args); b = p.pack(); p2 = PduFactory.from_raw(b):
       class index of p2, p2 == p, p2.pack(), b *)
    if (1510 <=? op) && (op <=? 1517) then
      ret (fun r => r)
        (do p <- pdu_of_args (op - 1510) a;
         do b <- pdu_pack p;
         do o <- fac_from_raw b;
         match o with
         | None => Ok [[-1]]
         | Some p2 => Ok [[pdu_kind p2]; res_bool (pdu_eqb p2 p); res_bytes (pdu_pack p2); b]
         end)
    else [[1; 97]]
  end.
