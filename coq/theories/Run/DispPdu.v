(* family 13: the seven file-directive PDUs, split in three parts by op range:
   1300-1339 EOF/ACK/Prompt/KeepAlive, 1340-1369 Finished/Metadata, 1370-1399 NAK;
   the operation histories of all seven kinds (1306-1309, 1346, 1356, 1380) are in Run/DirHist.v *)
From Coq Require Import ZArith List Bool.
From SP Require Import Base.Result Base.Bytes Run.Marshal Run.DispPduA Run.DispPduB Run.DispPduC Run.DirHist.
Import ListNotations.
Open Scope Z_scope.

Definition run_pdu (op : Z) (a : args) : args :=
  if is_hist_op op then run_hist op a
  else if op <? 1340 then run_pdu_a op a
  else if op <? 1370 then run_pdu_b op a
  else run_pdu_c op a.
