(* family 17: the CRC itself (tie of the bitwise Coq definition to crcmod) *)
From Coq Require Import ZArith List Bool.
From SP Require Import Base.Result Base.Bytes Base.Crc16 Run.Marshal.
Import ListNotations.
Open Scope Z_scope.

Definition run_crc (op : Z) (a : args) : args :=
  match op with
  | 1700 => [[0]; [crc16 (lst 0 a)]]
  | 1701 => [[0]; [crc_upd (int 0 0 a) (int 0 1 a)]]
  | 1702 => [[0]; [crc_from (int 0 0 a) (lst 1 a)]]
  | _ => [[1; 97]]
  end.
