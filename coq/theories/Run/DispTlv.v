(* family 10: CfdpLv, CfdpTlv, the six concrete TLV classes, TlvHolder, status helpers *)
From Coq Require Import ZArith List Bool.
From SP Require Import Base.Result Base.Bytes Base.Utf8 Run.Marshal Model.Lv Model.Tlv Model.TlvHist Spec.TlvSpec.
Import ListNotations.
Open Scope Z_scope.

(* exception class as compared by the harness (TooShort / Unicode are ValueErrors) *)
Definition err_canon (e : err) : Z :=
  match e with ETooShort | EUnicode => 1 | _ => err_code e end.
(* an embedded result: 0::octets or [1; class] *)
Definition rb (r : res bytes) : list Z :=
  match r with Ok b => 0 :: b | Err e => [1; err_canon e] end.

Definition tlv_view (t : tlv) : args :=
  [[tlv_type t]; tlv_value t; [tlv_packet_len t]; rb (tlv_pack t)].
(* wrapper object (entity / flow / msg): class constant, wrapped TLV *)
Definition wrap_view (cls : Z) (t : tlv) : args := [cls] :: tlv_view t.
Definition fault_view (f : fault_tlv) : args :=
  [fh_cc f; fh_hc f] :: wrap_view TLV_FAULT_HANDLER (fh_tlv f).
Definition fsreq_view (r : fsreq) : args :=
  [[fq_action r]; fq_first r; fq_second r; [fsreq_packet_len r]; rb (fsreq_pack r);
   rb (fsreq_value r)].
Definition fsresp_view (r : fsresp) : args :=
  [[fp_action r; fp_status r]; fp_first r; fp_second r; fp_msg r; [fsresp_packet_len r];
   rb (fsresp_pack r); rb (fsresp_value r)].

Definition any_view (h : any_tlv) : args :=
  match h with
  | HNone => [[0]]
  | HGeneric t => [1] :: tlv_view t
  | HFsReq r => [2] :: fsreq_view r
  | HFsResp r => [3] :: fsresp_view r
  | HMsg t => [4] :: wrap_view TLV_MESSAGE_TO_USER t
  | HFault f => [5] :: fault_view f
  | HFlow t => [6] :: wrap_view TLV_FLOW_LABEL t
  | HEntity t => [7] :: wrap_view TLV_ENTITY_ID t
  end.

(* holder content from [[mode]; [type]; value]: 0 None, 1 generic CfdpTlv, 2 the concrete
   class of that type built with from_tlv *)
Definition holder_of_args (a : args) : res any_tlv :=
  let mode := int 0 0 a in
  if mode =? 0 then Ok HNone else
  do t <- tlv_new (int 1 0 a) (lst 2 a);
  if mode =? 1 then Ok (HGeneric t) else
  let ty := tlv_type t in
  if ty =? TLV_FILESTORE_REQUEST then do r <- fsreq_from_tlv t; Ok (HFsReq r)
  else if ty =? TLV_FILESTORE_RESPONSE then do r <- fsresp_from_tlv t; Ok (HFsResp r)
  else if ty =? TLV_MESSAGE_TO_USER then do r <- msg_from_tlv t; Ok (HMsg r)
  else if ty =? TLV_FAULT_HANDLER then do r <- fault_from_tlv t; Ok (HFault r)
  else if ty =? TLV_FLOW_LABEL then do r <- flow_from_tlv t; Ok (HFlow r)
  else if ty =? TLV_ENTITY_ID then do r <- entity_from_tlv t; Ok (HEntity r)
  else Err EOther.

Definition fsreq_of_args (a : args) : fsreq :=
  {| fq_action := int 0 0 a; fq_first := lst 1 a; fq_second := lst 2 a |}.
Definition fsresp_of_args (a : args) : res fsresp :=
  do m <- lv_new (lst 3 a);
  Ok {| fp_action := int 0 0 a; fp_status := int 0 1 a; fp_first := lst 1 a;
        fp_second := lst 2 a; fp_msg := m |}.

(* ---- live-object histories (Model/TlvHist.v) ----
   args: [kind; path]; a1 (integers); a2; a3; a4 (octet strings); then one list per operation: code :: payload *)
Definition hop_of (l : list Z) : hop :=
  match l with
  | 0 :: _ => PPack
  | 1 :: _ => PValue
  | 2 :: _ => PGenerate
  | 3 :: v => PSetValue v
  | 4 :: n :: r => PSetValueInplace (firstn (Z.to_nat n) r) (skipn (Z.to_nat n) r)
  | 5 :: x :: _ => PSetType x
  | 6 :: x :: _ => PSetPacketLen x
  | 7 :: ty :: v => PSetTlv ty v
  | 8 :: _ => PSetTlvNone
  | 9 :: x :: _ => PSubType x
  | 10 :: x :: _ => PSetCc x
  | 11 :: x :: _ => PSetHc x
  | 12 :: x :: _ => PSetAction x
  | 13 :: x :: _ => PSetStatus x
  | 14 :: v => PSetFirst v
  | 15 :: v => PSetSecond v
  | 16 :: v => PSetMsg v
  | 17 :: v => PSubMsgValue v
  | _ => PBad
  end.

Definition run_history (a : args) : args :=
  ret (fun o => hview o ++
                flat_map (fun rv => rb (fst rv) :: snd rv) (hrun o (map hop_of (skipn 5 a))))
      (hnew (int 0 0 a) (int 0 1 a) (lst 1 a) (lst 2 a) (lst 3 a) (lst 4 a)).

Definition run_tlv (op : Z) (a : args) : args :=
  match op with
  | 1060 => run_history a
  (* LV *)
  | 1000 => ret (fun v => [lv_pack v; [lv_packet_len v]; v]) (lv_new (lst 0 a))
  | 1001 => ret (fun v => [v; [lv_packet_len v]; lv_pack v]) (lv_unpack (lst 0 a))
  | 1002 => ret (fun b => [[b2z b]])
              (do x <- lv_new (lst 0 a); do y <- lv_new (lst 1 a); Ok (lv_eqb x y))
  | 1007 => ret (fun v => [lv_pack v; [lv_packet_len v]; v]) (lv_from_str (lst 0 a))
  (* generic TLV *)
  | 1003 => ret tlv_view (tlv_new (int 0 0 a) (lst 1 a))
  | 1004 => ret tlv_view (tlv_unpack (lst 0 a))
  | 1005 => ret (fun b => [[b2z b]])
              (do x <- tlv_new (int 0 0 a) (lst 1 a); do y <- tlv_new (int 2 0 a) (lst 3 a);
               Ok (tlv_eqb x y))
  | 1006 => ret (fun _ => [[0]])
              (do x <- tlv_new (int 0 0 a) (lst 1 a); check_type (tlv_type x) (int 2 0 a))
  (* entity id *)
  | 1010 => ret (wrap_view TLV_ENTITY_ID) (entity_new (lst 0 a))
  | 1011 => ret (wrap_view TLV_ENTITY_ID) (entity_unpack (lst 0 a))
  | 1012 => ret (wrap_view TLV_ENTITY_ID)
              (do t <- tlv_new (int 0 0 a) (lst 1 a); entity_from_tlv t)
  | 1013 => ret (fun b => [[b2z b]])
              (do x <- entity_new (lst 0 a); do y <- entity_new (lst 1 a); entity_eqb x y)
  (* flow label *)
  | 1014 => ret (wrap_view TLV_FLOW_LABEL) (flow_new (lst 0 a))
  | 1015 => ret (wrap_view TLV_FLOW_LABEL) (flow_unpack (lst 0 a))
  | 1016 => ret (wrap_view TLV_FLOW_LABEL)
              (do t <- tlv_new (int 0 0 a) (lst 1 a); flow_from_tlv t)
  (* fault handler override *)
  | 1017 => ret fault_view (fault_new (int 0 0 a) (int 0 1 a))
  | 1018 => ret fault_view (fault_unpack (lst 0 a))
  | 1019 => ret fault_view (do t <- tlv_new (int 0 0 a) (lst 1 a); fault_from_tlv t)
  (* message to user *)
  | 1020 => ret (wrap_view TLV_MESSAGE_TO_USER) (msg_new (lst 0 a))
  | 1021 => ret (wrap_view TLV_MESSAGE_TO_USER) (msg_unpack (lst 0 a))
  | 1022 => ret (wrap_view TLV_MESSAGE_TO_USER)
              (do t <- tlv_new (int 0 0 a) (lst 1 a); msg_from_tlv t)
  (* filestore request *)
  | 1023 => [0] :: fsreq_view (fsreq_of_args a)
  | 1024 => ret fsreq_view (fsreq_unpack (lst 0 a))
  | 1025 => ret fsreq_view (do t <- tlv_new (int 0 0 a) (lst 1 a); fsreq_from_tlv t)
  (* filestore response *)
  | 1026 => ret fsresp_view (fsresp_of_args a)
  | 1027 => ret fsresp_view (fsresp_unpack (lst 0 a))
  | 1028 => ret fsresp_view (do t <- tlv_new (int 0 0 a) (lst 1 a); fsresp_from_tlv t)
  (* holder *)
  | 1030 => ret any_view (do h <- holder_of_args a; holder_to_fs_request h)
  | 1031 => ret any_view (do h <- holder_of_args a; holder_to_fs_response h)
  | 1032 => ret any_view (do h <- holder_of_args a; holder_to_msg_to_user h)
  | 1033 => ret any_view (do h <- holder_of_args a; holder_to_fault_handler_override h)
  | 1034 => ret any_view (do h <- holder_of_args a; holder_to_flow_label h)
  | 1035 => ret any_view (do h <- holder_of_args a; holder_to_entity_id h)
  (* status helpers *)
  | 1040 => [[0]; [map_enum_status_code_to_int (int 0 0 a)]]
  | 1041 => ret (fun p => [[fst p; snd p]]) (map_enum_status_code_to_action_status_code (int 0 0 a))
  | 1042 => [[0]; [map_int_status_code_to_enum (int 0 0 a) (int 0 1 a)]]
  (* bytes.decode() *)
  | 1043 => [[0]; [b2z (utf8_valid (lst 0 a))];
             [if utf8_valid (lst 0 a) then utf8_chars (lst 0 a) else 0]]
  (* Spec side *)
  | 1050 => [[0]; lv_layout (lst 0 a)]
  | 1051 => [[0]; tlv_layout (int 0 0 a) (lst 1 a)]
  | 1052 => [[0]; fault_layout (int 0 0 a) (int 0 1 a)]
  | 1053 => [[0]; fsreq_layout (int 0 0 a) (lst 1 a) (lst 2 a)]
  | 1054 => [[0]; fsresp_layout (int 0 0 a) (int 0 1 a) (lst 1 a) (lst 2 a) (lst 3 a)]
  | _ => [[1; 97]]
  end.
