(* family 14: CFDP File Data PDU. *)
From Coq Require Import ZArith List Bool.
From SP Require Import Base.Result Base.Bytes Run.Marshal Model.PduHeader Model.PduHeaderOps Run.DispHdr
  Model.FileData Model.FileDataOps Spec.PduHeaderSpec Spec.FileDataSpec.
Import ListNotations.
Open Scope Z_scope.

(* segment metadata on a case line: [0] = None, 1 :: state :: metadata octets = Some *)
Definition meta_of_args (l : list Z) : option SegMeta :=
  match l with
  | 1 :: st :: md => Some {| sm_state := st; sm_data := md |}
  | _ => None
  end.
Definition meta_enc (m : option SegMeta) : list Z :=
  match m with None => [0] | Some s => 1 :: sm_state s :: sm_data s end.

(* a PDU on a case line: ids, flags (as for family 12), [offset], file data, metadata *)
Definition params_of_args (off data meta : list Z) : FdParams :=
  {| fp_data := data; fp_offset := nth 0 off 0; fp_meta := meta_of_args meta |}.

Definition fd_of_args (a : args) : res (FileDataPdu * PduConfig) :=
  do c <- conf_of_args (lst 0 a) (lst 1 a);
  fd_new c (params_of_args (lst 2 a) (lst 3 a) (lst 4 a)).

Definition fd_fields (p : FileDataPdu) : args :=
  hdr_fields (fd_hdr p) ++
  [[fp_offset (fd_params p)]; fp_data (fd_params p); meta_enc (fp_meta (fd_params p))].

Definition pack_res (r : res bytes) : list Z :=
  match r with Ok b => 0 :: b | Err e => [1; err_code e] end.

(* history of setter calls: each remaining argument list is
   0 :: data (file_data setter) | [1] (segment_metadata = None) | 2 :: state :: metadata *)
Fixpoint fd_apply (p : FileDataPdu) (ops : list (list Z)) : res FileDataPdu :=
  match ops with
  | [] => Ok p
  | (0 :: d) :: r => do p' <- fd_set_data p d; fd_apply p' r
  | (1 :: _) :: r => do p' <- fd_set_meta p None; fd_apply p' r
  | (2 :: st :: md) :: r => do p' <- fd_set_meta p (Some {| sm_state := st; sm_data := md |}); fd_apply p' r
  | _ :: r => fd_apply p r
  end.

(* ---- operation histories (ops 1407 / 1408): codes 1..16 are the header operations of family 12
   applied to p.pdu_header, 20.. the PDU's own ---- *)
Definition fd_hop_of (l : list Z) : res fd_hop :=
  match l with
  | 20 :: _ :: d => Ok (FSetData d)
  | 21 :: _ => Ok (FSetMeta None)
  | 22 :: st :: md => Ok (FSetMeta (Some {| sm_state := st; sm_data := md |}))
  | 23 :: x => Ok (FExtendAssign x)
  | 24 :: _ => Ok FReassignData
  | 25 :: _ => Ok FReassignMeta
  | 26 :: md => Ok (FMetaDataInplace md)
  | 27 :: st :: _ => Ok (FMetaStateInplace st)
  | 28 :: v :: _ => Ok (FParamsOffset v)
  | 29 :: d => Ok (FParamsData d)
  | 30 :: _ => Ok FPack
  | 31 :: n :: _ => Ok (FMaxSeg n)
  | _ => do o <- hdr_op_of l; Ok (FHdr o)
  end.

(* every view of a PDU: the header's (as family 12), offset, file data, segment metadata *)
Definition fd_state (p : FileDataPdu) : args :=
  [hdr_state (fd_hdr p); hdr_id_octets (fd_hdr p); [fp_offset (fd_params p)]; fp_data (fd_params p);
   meta_enc (fp_meta (fd_params p))].

Definition params_view (q : FdParams) : args := [[fp_offset q]; fp_data q; meta_enc (fp_meta q)].

(* after every operation: [0] or [1; class], all views, what the call returned; at the end the
   parameter object (the caller's, which the PDU aliases) *)
Fixpoint fd_run (w : fworld) (ops : list (list Z)) : args :=
  match ops with
  | [] => params_view (fd_params (fw_pdu w)) ++ [conf_ids (fw_caller w); conf_flags (fw_caller w)]
  | l :: r =>
      match fd_hop_of l with
      | Err e => [1; canon_err e] :: fd_state (fw_pdu w) ++ [] :: fd_run w r
      | Ok o =>
          let '(w', out) := fw_step w o in
          match out with
          | Ok v => [0] :: fd_state (fw_pdu w') ++ v :: fd_run w' r
          | Err e => [1; canon_err e] :: fd_state (fw_pdu w') ++ [] :: fd_run w' r
          end
      end
  end.

Definition run_filedata (op : Z) (a : args) : args :=
  match op with
  (* FileDataPdu(conf, params): fields, then the caller's PduConfig afterwards *)
  | 1400 => ret (fun r => fd_fields (fst r) ++ [conf_ids (snd r); conf_flags (snd r)]) (fd_of_args a)
  (* .pack() *)
  | 1401 => ret (fun b => [b]) (do r <- fd_of_args a; fd_pack (fst r))
  (* FileDataPdu.unpack(data) *)
  | 1402 => ret fd_fields (fd_unpack (lst 0 a))
  (* FileDataPdu.unpack(data).pack() *)
  | 1403 => ret (fun b => [b]) (do p <- fd_unpack (lst 0 a); fd_pack p)
  (* p = FileDataPdu(...); p2 = unpack(p.pack() ++ suffix): [p2 == p], fields of p2, p2.pack() *)
  | 1404 => ret (fun r => r)
              (do r <- fd_of_args a;
               do b <- fd_pack (fst r);
               do p2 <- fd_unpack (b ++ lst 5 a);
               Ok ([b2z (fd_eqb p2 (fst r))] :: fd_fields p2 ++ [pack_res (fd_pack p2)]))
  (* get_max_file_seg_len_for_max_packet_len_and_pdu_cfg(conf, max_packet_len, metadata) *)
  | 1405 => ret (fun r => [[r]])
              (do c <- conf_of_args (lst 0 a) (lst 1 a);
               get_max_file_seg_len c (int 2 0 a) (meta_of_args (lst 3 a)))
  (* constructor, then a history of setter calls: fields, packet_len, pack, pack again *)
  | 1406 => ret (fun p => fd_fields p ++ [[fd_packet_len p]; pack_res (fd_pack p); pack_res (fd_pack p)])
              (do r <- fd_of_args a; fd_apply (fst r) (skipn 5 a))
  (* p = FileDataPdu(conf, params): views of p, the caller's PduConfig after construction; a
     history of operations; the caller's PduConfig and parameter object at the end *)
  | 1407 => match (do c <- conf_of_kind (int 5 0 a) (lst 0 a) (lst 1 a);
                   do r <- fd_new c (params_of_args (lst 2 a) (lst 3 a) (lst 4 a)); Ok r) with
            | Ok (p, c) => [0] :: fd_state p ++ [conf_ids c; conf_flags c] ++ fd_run (fw_init p c) (skipn 6 a)
            | Err e => ret_err e
            end
  (* p = FileDataPdu.unpack(data) (bytes, or a bytearray that is overwritten afterwards: [1] =
     nothing of p changed); a history of operations *)
  | 1408 => match fd_unpack (lst 0 a) with
            | Ok p => [0] :: [1] :: fd_state p ++ fd_run (fw_init p (h_conf (fd_hdr p))) (skipn 2 a)
                      ++ fd_state p                            (* the same octets decoded once more at the end *)
            | Err e => ret_err e
            end
  (* Spec side (independent oracle): layout of (conf fields, params) *)
  | 1450 => [[0]; fd_layout (hdr_conf_raw (lst 0 a) (lst 1 a)) (params_of_args (lst 2 a) (lst 3 a) (lst 4 a))]
  | _ => [[1; 97]]
  end.
