(* family 3: sequence counters (spacepackets/seqcount.py), property C19 *)
From Coq Require Import ZArith List Bool.
From SP Require Import Base.Result Base.Bytes Run.Marshal Model.SeqCount Spec.SeqCountSpec.
Import ListNotations.
Open Scope Z_scope.

Definition file_of (l : list Z) : file := opt_bytes l.
Definition of_file (f : file) : list Z := of_opt_bytes f.

Definition out_res (r : res Z) : list Z :=
  match r with Ok v => [0; v] | Err e => [1; err_code e] end.

(* k times next() (restart = true: a new provider object before every call); the values
   returned, cut at the first exception *)
Fixpoint rep_next (restart : bool) (w : Z) (fs : file) (k : nat) (acc : list Z) : list Z * file :=
  match k with
  | O => (0 :: rev acc, fs)
  | S k' =>
      let fs0 := if restart then snd (file_step w fs FRestart) else fs in
      match file_step w fs0 FNext with
      | (Some (Ok v), fs1) => rep_next restart w fs1 k' (v :: acc)
      | (Some (Err e), fs1) => (1 :: err_code e :: rev acc, fs1)
      | (None, fs1) => ([1; 97], fs1)
      end
  end.

(* one history op -> (output line, file afterwards).
   [0] new provider object, [1] next(), [2] current(), [3] file deleted from outside,
   4 :: codes  file overwritten from outside, [5; k] k x next(), [6; k] k x (new object; next()) *)
Definition seq_op (w : Z) (fs : file) (o : list Z) : list Z * file :=
  match o with
  | 0 :: _ => ([0], snd (file_step w fs FRestart))
  | 1 :: _ => match file_step w fs FNext with
              | (Some r, fs') => (out_res r, fs') | (None, fs') => ([1; 97], fs') end
  | 2 :: _ => match file_step w fs FCurrent with
              | (Some r, fs') => (out_res r, fs') | (None, fs') => ([1; 97], fs') end
  | 3 :: _ => ([0], None)
  | 4 :: c => ([0], Some c)
  | 5 :: k :: _ => rep_next false w fs (Z.to_nat k) []
  | 6 :: k :: _ => rep_next true w fs (Z.to_nat k) []
  | _ => ([1; 97], fs)
  end.

Fixpoint seq_history (w : Z) (fs : file) (ops : list (list Z)) : args :=
  match ops with
  | [] => []
  | o :: rest => let '(out, fs') := seq_op w fs o in out :: of_file fs' :: seq_history w fs' rest
  end.

Fixpoint spec_seq (w start : Z) (n : nat) (i : Z) : list Z :=
  match n with O => [] | S k => spec_counter w (start + i) :: spec_seq w start k (i + 1) end.

Definition run_seq (op : Z) (a : args) : args :=
  match op with
  (* SeqCountProvider(w): n calls from a fresh object *)
  | 300 => [[0]; mem_run (int 0 0 a) (Z.to_nat (int 0 1 a)) mem_init]
  (* FileSeqCountProvider(w, file): [[w]; file; op; op; ...]; the history starts with the
     creation of a provider object *)
  | 301 => let w := int 0 0 a in
           let fs0 := file_new (file_of (lst 1 a)) in
           [0] :: of_file fs0 :: seq_history w fs0 (tl (tl a))
  (* exploration-only stream (non-ASCII content, outside the model's alphabet): constant *)
  | 302 => [[0]; [1]]
  (* Spec side: the n values a counter of width w returns starting at call number `start` *)
  | 350 => [[0]; spec_seq (int 0 0 a) (int 0 1 a) (Z.to_nat (int 0 2 a)) 0]
  | _ => [[1; 97]]
  end.
