(* family 3: sequence counters (spacepackets/seqcount.py), property C19 *)
From Coq Require Import ZArith List Bool.
From SP Require Import Base.Result Base.Bytes Run.Marshal Model.SeqCount Spec.SeqCountSpec.
Import ListNotations.
Open Scope Z_scope.

Definition file_of (l : list Z) : file := opt_bytes l.
Definition of_file (f : file) : list Z := of_opt_bytes f.

Definition out_res (r : res Z) : list Z :=
  match r with Ok v => [0; v] | Err e => [1; err_code e] end.

(* k times next() (restart = true: a new provider object before every call); the values
   returned, cut at the first exception *)
Fixpoint rep_next (restart : bool) (w : Z) (fs : file) (k : nat) (acc : list Z) : list Z * file :=
  match k with
  | O => (0 :: rev acc, fs)
  | S k' =>
      let fs0 := if restart then snd (file_step w fs FRestart) else fs in
      match file_step w fs0 FNext with
      | (Some (Ok v), fs1) => rep_next restart w fs1 k' (v :: acc)
      | (Some (Err e), fs1) => (1 :: err_code e :: rev acc, fs1)
      | (None, fs1) => ([1; 97], fs1)
      end
  end.

(* one history op -> (output line, file afterwards).
   [0] new provider object, [1] next(), [2] current(), [3] file deleted from outside,
   4 :: codes  file overwritten from outside, [5; k] k x next(), [6; k] k x (new object; next()) *)
Definition seq_op (w : Z) (fs : file) (o : list Z) : list Z * file :=
  match o with
  | 0 :: _ => ([0], snd (file_step w fs FRestart))
  | 1 :: _ => match file_step w fs FNext with
              | (Some r, fs') => (out_res r, fs') | (None, fs') => ([1; 97], fs') end
  | 2 :: _ => match file_step w fs FCurrent with
              | (Some r, fs') => (out_res r, fs') | (None, fs') => ([1; 97], fs') end
  | 3 :: _ => ([0], None)
  | 4 :: c => ([0], Some c)
  | 5 :: k :: _ => rep_next false w fs (Z.to_nat k) []
  | 6 :: k :: _ => rep_next true w fs (Z.to_nat k) []
  | _ => ([1; 97], fs)
  end.

Fixpoint seq_history (w : Z) (fs : file) (ops : list (list Z)) : args :=
  match ops with
  | [] => []
  | o :: rest => let '(out, fs') := seq_op w fs o in out :: of_file fs' :: seq_history w fs' rest
  end.

Fixpoint spec_seq (w start : Z) (n : nat) (i : Z) : list Z :=
  match n with O => [] | S k => spec_counter w (start + i) :: spec_seq w start k (i + 1) end.

(* ---- live objects with their public setters (ops 303 / 304) ---- *)

(* in-memory provider.  [1] next() | [5; k] k x next() | [7; w] max_bit_width = w |
   [10; c] count = c.  After every op: result line, then [count; max_bit_width]. *)
Fixpoint mem_rep (p : memprov) (k : nat) (acc : list Z) : list Z * memprov :=
  match k with
  | O => (0 :: rev acc, p)
  | S k' => match memprov_step p MNext with
            | (Some v, p') => mem_rep p' k' (v :: acc)
            | (None, p') => ([1; 97], p')
            end
  end.
Definition mem_hop (p : memprov) (o : list Z) : list Z * memprov :=
  match o with
  | 1 :: _ => match memprov_step p MNext with (Some v, p') => ([0; v], p') | (None, p') => ([1; 97], p') end
  | 5 :: k :: _ => mem_rep p (Z.to_nat k) []
  | 7 :: w :: _ => ([0], snd (memprov_step p (MSetWidth w)))
  | 10 :: c :: _ => ([0], snd (memprov_step p (MSetCount c)))
  | _ => ([1; 97], p)
  end.
Fixpoint mem_history (p : memprov) (ops : list (list Z)) : args :=
  match ops with
  | [] => []
  | o :: rest => let '(out, p') := mem_hop p o in
                 out :: [m_count p'; m_width p'] :: mem_history p' rest
  end.

(* file providers.  [0; w] new main object of width w | [1] next() | [2] current() | [3] current
   file deleted | 4 :: codes current file overwritten | [5; k] k x next() | [6; k] k x (new object
   of the current width; next()) | [7; w] max_bit_width = w | [8] file_name = other path |
   [9] create_new() | [12] next() on the second provider | 13 :: codes check_count(line).
   After every op: result line, file A, file B, [max_bit_width; on_b]. *)
Fixpoint world_rep (restart : bool) (s : world) (k : nat) (acc : list Z) : list Z * world :=
  match k with
  | O => (0 :: rev acc, s)
  | S k' =>
      let s0 := if restart then snd (world_step s (WNew (w_width s))) else s in
      match world_step s0 WNext with
      | (Some (Ok v), s1) => world_rep restart s1 k' (v :: acc)
      | (Some (Err e), s1) => (1 :: err_code e :: rev acc, s1)
      | (None, s1) => ([1; 97], s1)
      end
  end.
Definition world_res (x : option (res Z) * world) : list Z * world :=
  match x with (Some r, s) => (out_res r, s) | (None, s) => ([0], s) end.
Definition world_hop (s : world) (o : list Z) : list Z * world :=
  match o with
  | 0 :: w :: _ => world_res (world_step s (WNew w))
  | 1 :: _ => world_res (world_step s WNext)
  | 2 :: _ => world_res (world_step s WCurrent)
  | 3 :: _ => world_res (world_step s WDelete)
  | 4 :: c => world_res (world_step s (WOverwrite c))
  | 5 :: k :: _ => world_rep false s (Z.to_nat k) []
  | 6 :: k :: _ => world_rep true s (Z.to_nat k) []
  | 7 :: w :: _ => world_res (world_step s (WSetWidth w))
  | 8 :: _ => world_res (world_step s WSwitch)
  | 9 :: _ => world_res (world_step s WCreateNew)
  | 12 :: _ => world_res (world_step s WNext2)
  | 13 :: line => (out_res (check_count (w_width s) line), s)
  | _ => ([1; 97], s)
  end.
Definition world_obs (s : world) : args :=
  [of_file (w_a s); of_file (w_b s); [w_width s; b2z (w_on_b s)]].
Fixpoint world_history (s : world) (ops : list (list Z)) : args :=
  match ops with
  | [] => []
  | o :: rest => let '(out, s') := world_hop s o in out :: world_obs s' ++ world_history s' rest
  end.

Definition run_seq (op : Z) (a : args) : args :=
  match op with
  (* SeqCountProvider(w): n calls from a fresh object *)
  | 300 => [[0]; mem_run (int 0 0 a) (Z.to_nat (int 0 1 a)) mem_init]
  (* FileSeqCountProvider(w, file): [[w]; file; op; op; ...]; the history starts with the
     creation of a provider object *)
  | 301 => let w := int 0 0 a in
           let fs0 := file_new (file_of (lst 1 a)) in
           [0] :: of_file fs0 :: seq_history w fs0 (tl (tl a))
  (* exploration-only stream (non-ASCII content, outside the model's alphabet): constant *)
  | 302 => [[0]; [1]]
  (* live in-memory provider with its public attribute / setter: [[w]; op; op; ...] *)
  | 303 => let p := memprov_new (int 0 0 a) in
           [0] :: [m_count p; m_width p] :: mem_history p (tl a)
  (* live file providers: [[w; pus; w2]; file A; file B; op; ...]; the main provider is created
     on A, the second one (width w2) on B *)
  | 304 => let s := {| w_width := int 0 0 a; w_on_b := false;
                       w_a := file_new (file_of (lst 1 a)); w_b := file_new (file_of (lst 2 a));
                       w_width2 := int 0 2 a |} in
           [0] :: world_obs s ++ world_history s (tl (tl (tl a)))
  (* Spec side: the n values a counter of width w returns starting at call number `start` *)
  | 350 => [[0]; spec_seq (int 0 0 a) (int 0 1 a) (Z.to_nat (int 0 2 a)) 0]
  | _ => [[1; 97]]
  end.
