(* family 7: request ID, PacketFieldEnum, FailureNotice, VerificationParams, Service1Tm *)
From Coq Require Import ZArith List Bool.
From SP Require Import Base.Result Base.Bytes Run.Marshal Run.DispSph Run.DispTc Run.DispTm
  Model.SpacePacket Model.PusTc Model.PusTm Model.PusTmHist Model.ReqId Model.Fields Model.Srv1
  Spec.SpacePacketSpec Spec.Srv1Spec.
Import ListNotations.
Open Scope Z_scope.

(* request ID on a case line: [ver; ptype; shf; apid; flags; count]; the adapter builds
   PacketId, then PacketSeqCtrl, then RequestId *)
Definition reqid_of_args (l : list Z) : res reqid :=
  do p <- pid_new (nth 1 l 0) (nth 2 l 0) (nth 3 l 0);
  do s <- psc_new (nth 4 l 0) (nth 5 l 0);
  Ok {| rq_pid := p; rq_psc := s; rq_ver := nth 0 l 0 |}.
Definition reqid_fields (r : reqid) : list Z :=
  [rq_ver r; pid_ptype (rq_pid r); pid_shf (rq_pid r); pid_apid (rq_pid r);
   psc_flags (rq_psc r); psc_count (rq_psc r)].
Definition sph_of_reqid_fields (l : list Z) : sph :=
  {| ver := nth 0 l 0; ptype := nth 1 l 0; shf := nth 2 l 0; apid := nth 3 l 0;
     sflags := nth 4 l 0; scount := nth 5 l 0; dlen := 0 |}.

(* optional PacketFieldEnum: [0] or [1; pfc; val] *)
Definition opt_pfe_of (l : list Z) : res (option pfe) :=
  match l with
  | 1 :: pfc :: val :: _ => do f <- pfe_new pfc val; Ok (Some f)
  | _ => Ok None
  end.
Definition of_opt_pfe (o : option pfe) : list Z :=
  match o with None => [0] | Some f => [1; pfe_pfc f; pfe_val f] end.
Definition opt_fn_of (code data : list Z) : res (option fnotice) :=
  do c <- opt_pfe_of code;
  Ok (match c with None => None | Some c => Some {| fn_code := c; fn_data := data |} end).

(* [reqid] [step] [fn code] [fn data] starting at argument position i *)
Definition vp_of_args (i : nat) (a : args) : res vparams :=
  do r <- reqid_of_args (lst i a);
  do s <- opt_pfe_of (lst (i + 1) a);
  do f <- opt_fn_of (lst (i + 2) a) (lst (i + 3) a);
  Ok {| vp_req := r; vp_step := s; vp_fn := f |}.

Definition vp_fields (v : vparams) : args :=
  [ reqid_fields (vp_req v); of_opt_pfe (vp_step v);
    of_opt_pfe (match vp_fn v with None => None | Some f => Some (fn_code f) end);
    of_opt_bytes (match vp_fn v with None => None | Some f => Some (fn_data f) end) ].
Definition srv1_fields (s : srv1) : args := tm_fields (s1_tm s) ++ vp_fields (s1_vp s).

(* a0 = [apid; subservice; seq; version; ref; dest; has_vp], a1 = timestamp, a2.. = vp *)
Definition srv1_of_args (a : args) : res srv1 :=
  do vp <- (if int 0 6 a =? 0 then Ok None else do v <- vp_of_args 2 a; Ok (Some v));
  srv1_new (int 0 0 a) (int 0 1 a) (lst 1 a) vp (int 0 2 a) (int 0 3 a) (int 0 4 a) (int 0 5 a).

Definition params_of (l : list Z) : unpack_params :=
  {| up_ts_len := nth 0 l 0; up_step := nth 1 l 0; up_err := nth 2 l 0 |}.

Definition opt_pair (l : list Z) : option (Z * Z) :=
  match l with 1 :: w :: v :: _ => Some (w, v) | _ => None end.
Definition opt_fail (l d : list Z) : option (Z * Z * bytes) :=
  match l with 1 :: w :: c :: _ => Some (w, c, d) | _ => None end.


(* ================= histories and re-inspection (ops 718, 760-766) ================= *)
(* inside rows the error class is written the way the harness compares classes: the too-short and
   Unicode refinements of ValueError as ValueError *)
Definition canon_err (e : err) : Z :=
  let c := err_code e in if (c =? 2) || (c =? 3) then 1 else c.
Definition err_row (e : err) : list Z := [1; canon_err e].
Definition res_row (r : res bytes) : list Z :=
  match r with Ok b => 0 :: b | Err e => err_row e end.

(* --- RequestId --- *)
Definition rq_op_of (l : list Z) : rq_op :=
  match l with
  | 0 :: v :: _ => RqVer v | 1 :: v :: _ => RqPtype v | 2 :: v :: _ => RqShf v
  | 3 :: v :: _ => RqApid v | 4 :: v :: _ => RqFlags v | 5 :: v :: _ => RqCount v
  | 6 :: _ => RqPack | 8 :: _ => RqEqFresh
  | _ => RqObserve
  end.
Definition rq_row (r : reqid) (o : rq_op) : list Z :=
  match o with
  | RqPack => res_row (reqid_pack r)
  | RqEqFresh => match reqid_eq_fresh r with
                 | Ok (e1, e2, e3, e4) => [0; b2z e1; b2z e2; b2z e3; b2z e4]
                 | Err e => err_row e
                 end
  | _ => 0 :: reqid_fields r ++ [reqid_as_u32 r; reqid_hash r]
  end.
Fixpoint run_rq_history (r : reqid) (ops : args) : args :=
  match ops with
  | [] => []
  | o :: t => let r' := reqid_apply r (rq_op_of o) in rq_row r' (rq_op_of o) :: run_rq_history r' t
  end.
(* construction path: 0 constructor, 1 unpack(pack() + one octet), 2 from_sp_header, 3 empty() *)
Definition rq_build (kind : Z) (l : list Z) : res reqid :=
  if kind =? 1 then do r <- reqid_of_args l; do b <- reqid_pack r; reqid_unpack (b ++ [165])
  else if kind =? 2 then
    do h <- sph_new (nth 1 l 0) (nth 3 l 0) (nth 5 l 0) 0 (nth 2 l 0) (nth 4 l 0) (nth 0 l 0);
    Ok (reqid_from_sph h)
  else if kind =? 3 then Ok reqid_empty
  else reqid_of_args l.

(* --- PacketFieldEnum: [kind; pfc; val]; kind 0 PacketFieldEnum, 1 PacketFieldU8/U16/U32,
   2 with_byte_size(pfc // 8), 3 unpack(pack() + one octet) --- *)
Definition pfe_build (l : list Z) : res pfe :=
  let kind := nth 0 l 0 in let pfc := nth 1 l 0 in let val := nth 2 l 0 in
  if kind =? 2 then pfe_with_byte_size (pfc / 8) val
  else if kind =? 3 then do f <- pfe_new pfc val; do b <- pfe_pack f; pfe_unpack (b ++ [7]) pfc
  else pfe_new pfc val.
Definition pfe_op_of (l : list Z) : pfe_op :=
  match l with
  | 0 :: v :: _ => PfVal v | 1 :: v :: _ => PfPfc v
  | 2 :: _ => PfPack | 3 :: _ => PfLen | 5 :: _ => PfEqFresh
  | _ => PfObserve
  end.
Definition pfe_row (f : pfe) (o : pfe_op) : list Z :=
  match o with
  | PfPack => res_row (pfe_pack f)
  | PfLen => match pfe_len f with Ok n => [0; n] | Err e => err_row e end
  | PfEqFresh => match pfe_eq_fresh f with
                 | Ok (e1, e2) => [0; b2z e1; b2z e2]
                 | Err e => err_row e
                 end
  | _ => [0; pfe_pfc f; pfe_val f]
  end.
Fixpoint run_pfe_history (f : pfe) (ops : args) : args :=
  match ops with
  | [] => []
  | o :: t => let f' := pfe_apply f (pfe_op_of o) in pfe_row f' (pfe_op_of o) :: run_pfe_history f' t
  end.

(* --- VerificationParams --- *)
Definition vp_op_of (l : list Z) : res vp_op :=
  match l with
  | 0 :: r => do q <- reqid_of_args r; Ok (VpSetReq q)
  | 1 :: r => do s <- opt_pfe_of r; Ok (VpSetStep s)
  | 2 :: has :: pfc :: val :: d => do f <- opt_fn_of [has; pfc; val] d; Ok (VpSetFn f)
  | 3 :: v :: _ => Ok (VpStepVal v)
  | 4 :: d => Ok (VpFnData d)
  | 5 :: v :: _ => Ok (VpFnCodeVal v)
  | 6 :: _ => Ok VpPack
  | 7 :: _ => Ok VpLen
  | 8 :: k :: _ => Ok (VpVerify k)
  | _ => Ok VpObserve
  end.
Definition vp_rows (v : vparams) (o : vp_op) : args :=
  match o with
  | VpPack => [res_row (vp_pack v)]
  | VpLen => [match vp_len v with Ok n => [0; n] | Err e => err_row e end]
  | VpVerify k => [match vp_verify v k with Ok _ => [0] | Err e => err_row e end]
  | _ => vp_fields v
  end.
Fixpoint run_vp_history (v : vparams) (ops : args) : args :=
  match ops with
  | [] => []
  | o :: t =>
      match (do op <- vp_op_of o; do v' <- vp_apply v op; Ok (v', op)) with
      | Err e => err_row e :: run_vp_history v t
      | Ok (v', op) => vp_rows v' op ++ run_vp_history v' t
      end
  end.

(* --- Service1Tm --- *)
Definition s1_op_of (l : list Z) : res s1_op :=
  match l with
  | 0 :: _ => Ok S1Pack
  | 2 :: _ => Ok S1ErrorCode
  | 3 :: r => do q <- reqid_of_args r; Ok (S1SetReq q)
  | 4 :: v :: _ => Ok (S1SetSeqCount v)
  | 5 :: v :: _ => Ok (S1SetApid v)
  | 6 :: ws :: we :: _ => Ok (S1Redecode ws we)
  | 7 :: ws :: we :: _ => Ok (S1Roundtrip ws we)
  | _ => Ok S1Observe
  end.
Definition s1_params (s : srv1) (ws we : Z) : unpack_params :=
  {| up_ts_len := len (tms_stamp (tm_sec (s1_tm s))); up_step := ws; up_err := we |}.
Fixpoint run_s1_history (s : srv1) (ops : args) : args :=
  match ops with
  | [] => []
  | o :: t =>
      match s1_op_of o with
      | Err e => err_row e :: run_s1_history s t
      | Ok S1Pack =>
          match srv1_pack s with
          | Err e => err_row e :: run_s1_history s t
          | Ok (raw, s') => (0 :: raw) :: run_s1_history s' t
          end
      | Ok S1ErrorCode =>
          (match srv1_error_code s with Ok c => 0 :: of_opt_pfe c | Err e => err_row e end)
          :: run_s1_history s t
      | Ok (S1Redecode ws we) =>
          match srv1_pack s with
          | Err e => err_row e :: run_s1_history s t
          | Ok (raw, s') =>
              match srv1_unpack (raw ++ [165; 90]) (s1_params s ws we) with
              | Err e => err_row e :: run_s1_history s' t
              | Ok u => ([0] :: srv1_fields u) ++ run_s1_history u t
              end
          end
      | Ok (S1Roundtrip ws we) =>
          match srv1_pack s with
          | Err e => err_row e :: run_s1_history s t
          | Ok (raw, s') =>
              match (do u <- srv1_unpack (raw ++ [165; 90]) (s1_params s ws we);
                     do e1 <- srv1_eq u s'; do e2 <- srv1_eq s' u; Ok (u, (e1, e2))) with
              | Err e => err_row e :: run_s1_history s' t
              | Ok (u, (e1, e2)) => ([0; b2z e1; b2z e2] :: srv1_fields u) ++ run_s1_history s' t
              end
          end
      | Ok op =>
          match srv1_apply s op with
          | Err e => err_row e :: run_s1_history s t
          | Ok s' => ([0] :: srv1_fields s') ++ run_s1_history s' t
          end
      end
  end.
(* construction path a6 = [kind; ws; we]: 0 constructor (also used for the create_*_tm helpers,
   which are defined as that constructor call: kind 3), 1 Service1Tm.unpack(pack()), 2 from_tm(PusTm.unpack(pack())) *)
Definition s1_build (a : args) : res srv1 :=
  do s <- srv1_of_args a;
  if (int 6 0 a =? 0) || (int 6 0 a =? 3) then Ok s else
  do p <- srv1_pack s;
  srv1_unpack (fst p) {| up_ts_len := len (lst 1 a); up_step := int 6 1 a; up_err := int 6 2 a |}.

(* the common "pack, decode with matching widths, compare both ways, re-pack" observation *)
Definition s1_roundtrip (s : srv1) (tl ws we : Z) : res args :=
  do p <- srv1_pack s;
  do u <- srv1_unpack (fst p) {| up_ts_len := tl; up_step := ws; up_err := we |};
  do e1 <- srv1_eq u (snd p); do e2 <- srv1_eq (snd p) u;
  do q <- srv1_pack u;
  Ok ([[b2z (e1 && e2)]; fst q] ++ srv1_fields u).

Definition run_srv1 (op : Z) (a : args) : args :=
  match op with
  (* ---- RequestId ---- *)
  | 700 => ret (fun b => [b]) (do r <- reqid_of_args (lst 0 a); reqid_pack r)
  | 701 => ret (fun r => [[reqid_as_u32 r; reqid_hash r]]) (reqid_of_args (lst 0 a))
  | 702 => ret (fun r => [reqid_fields r]) (reqid_unpack (lst 0 a))
  | 703 => ret (fun r => [fst r; [snd r]])
             (do r <- reqid_unpack (lst 0 a); do b <- reqid_pack r; Ok (b, reqid_as_u32 r))
  | 704 => ret (fun r => [reqid_fields (fst r); fst (snd r); [snd (snd r)]])
             (do h <- sph_of_args (lst 0 a);
              let r := reqid_from_sph h in
              do b <- reqid_pack r; Ok (r, (b, reqid_as_u32 r)))
  | 705 => ret (fun r => [[b2z (fst r); b2z (snd r)]])
             (do x <- reqid_of_args (lst 0 a); do y <- reqid_of_args (lst 1 a);
              Ok (reqid_eqb x y, reqid_hash x =? reqid_hash y))
  | 706 => ret (fun r => [reqid_fields (fst r); snd r])
             (do t <- tc_of_args a;
              let r := reqid_from_sph (tc_sph t) in
              do b <- reqid_pack r; Ok (r, b))
  (* ---- PacketFieldEnum ---- *)
  | 710 => ret (fun r => [[pfe_pfc (fst r); pfe_val (fst r); snd r]])
             (do f <- pfe_new (int 0 0 a) (int 0 1 a); do n <- pfe_len f; Ok (f, n))
  | 711 => ret (fun b => [b]) (do f <- pfe_new (int 0 0 a) (int 0 1 a); pfe_pack f)
  | 712 => ret (fun f => [[pfe_pfc f; pfe_val f]]) (pfe_unpack (lst 0 a) (int 1 0 a))
  | 713 => ret (fun n => [[n]]) (check_pfc (int 0 0 a))
  | 714 => ret (fun r => [fst r; [snd r]])
             (do f <- pfe_with_byte_size (int 0 0 a) (int 0 1 a);
              do b <- pfe_pack f; do n <- pfe_len f; Ok (b, n))
  | 715 => ret (fun b => [[b2z b]])
             (do x <- pfe_new (int 0 0 a) (int 0 1 a); do y <- pfe_new (int 0 2 a) (int 0 3 a);
              Ok (pfe_eqb x y))
  | 716 => ret (fun b => [b]) (do f <- pfe_unpack (lst 0 a) (int 1 0 a); pfe_pack f)
  (* PacketFieldU8 / U16 / U32 (val): a0 = [1|2|4; val] *)
  | 717 => ret (fun r => [fst r; [snd r]])
             (do f <- pfe_new (int 0 0 a * 8) (int 0 1 a);
              do b <- pfe_pack f; do n <- pfe_len f; Ok (b, n))
  (* ---- FailureNotice ---- *)
  | 720 => ret (fun r => [fst r; [snd r]])
             (do c <- pfe_new (int 0 0 a) (int 0 1 a);
              let f := {| fn_code := c; fn_data := lst 1 a |} in
              do b <- fn_pack f; do n <- fn_len f; Ok (b, n))
  | 721 => ret (fun f => [[pfe_pfc (fn_code f); pfe_val (fn_code f)]; fn_data f])
             (fn_unpack (lst 0 a) (int 1 0 a)
                        (if int 2 0 a =? 0 then None else Some (int 2 1 a)))
  (* pack -> unpack(width = a2, data length = rest) -> equality with the original (both ways) *)
  | 722 => ret (fun r => [[b2z (fst r)]; [pfe_pfc (fn_code (snd r)); pfe_val (fn_code (snd r))]; fn_data (snd r)])
             (do c <- pfe_new (int 0 0 a) (int 0 1 a);
              let f := {| fn_code := c; fn_data := lst 1 a |} in
              do b <- fn_pack f;
              do g <- fn_unpack b (int 2 0 a) None;
              Ok (fn_eqb g f && fn_eqb f g, g))
  (* ---- VerificationParams ---- *)
  | 730 => ret (fun _ => [[0]]) (do v <- vp_of_args 0 a; vp_verify v (int 4 0 a))
  | 731 => ret (fun r => [fst r; [snd r]])
             (do v <- vp_of_args 0 a; do b <- vp_pack v; do n <- vp_len v; Ok (b, n))
  (* == of two VerificationParams objects: a0..a3 and a4..a7 *)
  | 732 => ret (fun b => [[b2z b]]) (do x <- vp_of_args 0 a; do y <- vp_of_args 4 a; vp_eq x y)
  (* ---- Service1Tm ---- *)
  | 740 => ret srv1_fields (srv1_of_args a)
  | 741 => ret (fun r => [fst r; [tm_packet_len (s1_tm (snd r))]] ++ vp_fields (s1_vp (snd r)))
             (do s <- srv1_of_args a; srv1_pack s)
  | 742 => ret (fun r => [[b2z (fst (fst r))]; snd (fst r)] ++ srv1_fields (snd r))
             (do s <- srv1_of_args a; do p <- srv1_pack s;
              do u <- srv1_unpack (fst p) {| up_ts_len := len (lst 1 a); up_step := int 6 0 a; up_err := int 6 1 a |};
              do e1 <- srv1_eq u (snd p); do e2 <- srv1_eq (snd p) u;
              do q <- srv1_pack u;
              Ok ((e1 && e2, fst q), u))
  | 743 => ret srv1_fields (srv1_unpack (lst 0 a) (params_of (lst 1 a)))
  | 744 => ret srv1_fields (do t <- tm_of_args a; srv1_from_tm t (params_of (0 :: lst 3 a)))
  (* create_*_tm: a0 = [k; apid], a1 = tc header args, a2 = tc app data, a3 = timestamp,
     a4 = step, a5 = fn code, a6 = fn data *)
  | 745 => ret (fun r => [fst r] ++ vp_fields (s1_vp (snd r)))
             (do t <- tc_of_args [lst 1 a; lst 2 a];
              do st <- opt_pfe_of (lst 4 a);
              do f <- opt_fn_of (lst 5 a) (lst 6 a);
              do s <- srv1_create (int 0 0 a) (int 0 1 a) (tc_sph t) st f (lst 3 a);
              srv1_pack s)
  | 746 => ret (fun r => [fst r])
             (do u <- srv1_unpack (lst 0 a) (params_of (lst 1 a)); srv1_pack u)
  | 747 => ret (fun o => [of_opt_pfe o]) (do s <- srv1_of_args a; srv1_error_code s)
  | 748 => ret (fun o => [of_opt_pfe o])
             (do u <- srv1_unpack (lst 0 a) (params_of (lst 1 a)); srv1_error_code u)
  (* == of two independently built reports: a0..a5 and a6..a11 *)
  | 749 => ret (fun b => [[b2z b]])
             (do x <- srv1_of_args a; do y <- srv1_of_args (skipn 6 a); srv1_eq x y)
  (* == between fields built in different ways, both directions *)
  | 718 => ret (fun r => [[b2z (pfe_eqb (fst r) (snd r)); b2z (pfe_eqb (snd r) (fst r))]])
             (do x <- pfe_build (lst 0 a); do y <- pfe_build (lst 1 a); Ok (x, y))
  | 760 => ret (fun r => run_rq_history r (skipn 2 a)) (rq_build (int 1 0 a) (lst 0 a))
  | 761 => ret (fun f => run_pfe_history f (skipn 1 a)) (pfe_build (lst 0 a))
  | 762 => ret (fun v => run_vp_history v (skipn 4 a) ++ [[1]]) (vp_of_args 0 a)
  | 763 => ret (fun s => run_s1_history s (skipn 7 a) ++ [[1]]) (s1_build a)
  (* two reports decoded in a row (a0, a1 and a2, a3), both inspected afterwards *)
  | 764 => ret (fun x => x)
             (do u <- srv1_unpack (lst 0 a) (params_of (lst 1 a));
              let tail :=
                match (do w <- srv1_unpack (lst 2 a) (params_of (lst 3 a));
                       do e1 <- srv1_eq u w; do e2 <- srv1_eq w u; Ok (w, (e1, e2))) with
                | Ok (w, (e1, e2)) => ([0; b2z e1; b2z e2] :: srv1_fields w)
                | Err e => [err_row e]
                end in
              Ok (srv1_fields u ++ [match srv1_error_code u with Ok c => 0 :: of_opt_pfe c | Err e => err_row e end]
                  ++ tail ++ [[1]]))
  (* 742 with bytearray arguments that are overwritten after the calls; last row: caller's objects unchanged *)
  | 765 => ret (fun x => x ++ [[1]])
             (do s <- srv1_of_args a; s1_roundtrip s (len (lst 1 a)) (int 6 0 a) (int 6 1 a))
  (* create_*_tm helper, then the same observation; a7 = [ws; we] *)
  | 766 => ret (fun x => x ++ [[1]])
             (do t <- tc_of_args [lst 1 a; lst 2 a];
              do st <- opt_pfe_of (lst 4 a);
              do f <- opt_fn_of (lst 5 a) (lst 6 a);
              do s <- srv1_create (int 0 0 a) (int 0 1 a) (tc_sph t) st f (lst 3 a);
              s1_roundtrip s (len (lst 3 a)) (int 7 0 a) (int 7 1 a))
  (* Service1Tm.unpack from a buffer that may continue behind the packet, then every observable: fields incl. crc16,
     pus_tm.pack(recalc_crc=False), pack(), == with the report decoded from exactly the packet's octets, fields again *)
  | 767 => ret (fun x => x)
             (let cfg := params_of (lst 1 a) in
              do s <- srv1_unpack (lst 0 a) cfg;
              do p1 <- tm_pack_norecalc (s1_tm s);
              do p2 <- srv1_pack (srv1_with_tm s (snd p1));
              do w <- srv1_unpack (slice_to (lst 0 a) (tm_packet_len (s1_tm s))) cfg;
              do e1 <- srv1_eq s w; do e2 <- srv1_eq w s;
              Ok (srv1_fields s ++ [fst p1; fst p2; [b2z e1; b2z e2]] ++ srv1_fields (snd p2)))
  (* ---- Spec side (independent oracle) ---- *)
  | 750 => let h := sph_of_reqid_fields (lst 0 a) in [[0]; reqid_layout h; [reqid_u32 h]]
  | 751 => [[0]; srv1_src_layout (sph_of_reqid_fields (lst 0 a)) (opt_pair (lst 1 a))
                                  (opt_fail (lst 2 a) (lst 3 a))]
  | 752 => [[0]; srv1_layout (int 0 0 a) (int 0 1 a) (int 0 2 a) (int 0 3 a) (int 0 4 a) (int 0 5 a)
                             (lst 1 a) (sph_of_reqid_fields (lst 2 a)) (opt_pair (lst 3 a))
                             (opt_fail (lst 4 a) (lst 5 a))]
  | 753 => [[0]; reqid_layout (reqid_fields_of_u32 (int 0 0 a)); [reqid_u32 (reqid_fields_of_u32 (int 0 0 a))]]
  | _ => [[1; 97]]
  end.
