(* family 2: unsigned byte fields (spacepackets/util.py), property C20 *)
From Coq Require Import ZArith List Bool.
From SP Require Import Base.Result Base.Bytes Run.Marshal Model.Util Model.UtilHist Spec.UtilSpec.
Import ListNotations.
Open Scope Z_scope.

Definition of_opt_list (o : option (list Z)) : list Z :=
  match o with None => [0] | Some l => 1 :: l end.

(* everything observable of a field: value, byte_len, int(), len() / as_bytes / hex digits *)
Definition ubf_obs (f : ubf) : args :=
  [[ubf_val f; ubf_len f; ubf_int f; ubf_pylen f]; ubf_as_bytes f; of_opt_list (ubf_hex_str f)].

Definition ubf_of (l : list Z) : res ubf := ubf_new (nth 0 l 0) (nth 1 l 0).

(* setter history: each op is [0; int] (value = int) or 1 :: octets (value = bytes);
   a refused assignment leaves the object unchanged; output after every op *)
Definition ubf_op_of (o : list Z) : option ubf_op :=
  match o with
  | 0 :: v :: _ => Some (SetInt v)
  | 1 :: b => Some (SetBytes b)
  | _ => None
  end.
Fixpoint ubf_history (f : ubf) (ops : list (list Z)) : args :=
  match ops with
  | [] => []
  | o :: rest =>
      match ubf_op_of o with
      | None => [[1; 97]]
      | Some op =>
          match ubf_step f op with
          | Ok f' => ([0] :: ubf_obs f') ++ ubf_history (ubf_apply f op) rest
          | Err e => [1; err_code e] :: ubf_history (ubf_apply f op) rest
          end
      end
  end.

(* extended history on one live object (every public setter, same-value re-assignment):
   [0; v] value = v | 1 :: octets value = bytes | 2 :: octets value = bytearray (the caller
   overwrites its buffer afterwards) | [3; w] byte_len = w | [4] value = value |
   [5] value = as_bytes | 6 :: octets value = the SAME bytearray object the caller assigned
   before and has edited in place since (octets = its present content).  After EVERY op, accepted or refused: status line, the three view
   lines of the object as it is now, and the line of equality / hash / rebuild verdicts the
   adapter evaluates on the live object (all 1 in the model: they hold by definition of
   ubf_eq / ubf_hash_key). *)
Definition ubf_obs_any (f : ubf) : args :=
  [[ubf_val f; ubf_len f; ubf_int f; ubf_pylen f]; ubf_as_bytes f; of_opt_list (ubf_hex_str_any f); [1; 1; 1; 1]].
Definition ubf_hop_of (o : list Z) : option ubf_hop :=
  match o with
  | 0 :: v :: _ => Some (HSetInt v)
  | 1 :: b => Some (HSetBytes b)
  | 2 :: b => Some (HSetBytes b)
  | 3 :: w :: _ => Some (HSetLen w)
  | 4 :: _ => Some HSameInt
  | 5 :: _ => Some HSameBytes
  | 6 :: b => Some (HSetBytes b)
  | _ => None
  end.
Fixpoint ubf_history_any (f : ubf) (ops : list (list Z)) : args :=
  match ops with
  | [] => []
  | o :: rest =>
      match ubf_hop_of o with
      | None => [[1; 97]]
      | Some op =>
          let f' := ubf_happly f op in
          (match ubf_hstep f op with Ok _ => [0] | Err e => [1; err_code e] end)
            :: ubf_obs_any f' ++ ubf_history_any f' rest
      end
  end.

Definition run_ubf (op : Z) (a : args) : args :=
  match op with
  | 200 => ret ubf_obs (ubf_of (lst 0 a))
  | 201 => ret ubf_obs (do f <- ubf_of (lst 0 a); ubf_set_int f (int 1 0 a))
  | 202 => ret ubf_obs (do f <- ubf_of (lst 0 a); ubf_set_bytes f (lst 1 a))
  | 203 => ret ubf_obs (ubf_from_bytes (lst 0 a))
  | 204 => ret ubf_obs (gen_from_int (int 0 0 a) (int 0 1 a))
  | 205 => ret ubf_obs (gen_from_bytes (int 0 0 a) (lst 1 a))
  | 206 => ret ubf_obs (u8_from_bytes (lst 0 a))
  | 207 => ret ubf_obs (u16_from_bytes (lst 0 a))
  | 208 => ret ubf_obs (u32_from_bytes (lst 0 a))
  | 209 => ret ubf_obs (u64_from_bytes (lst 0 a))
  (* f == g, and "hash(f), hash(g) are hash((value, byte_len))": the model's hash key is
     that pair by definition, so the second component is 1 *)
  | 210 => ret (fun b => [[b2z b; 1]])
             (do f <- ubf_of (lst 0 a); do g <- ubf_of (lst 1 a); Ok (ubf_eq f g))
  | 211 => ret (fun b => [[b2z b]]) (do f <- ubf_of (lst 0 a); Ok (ubf_eq_bytes f (lst 1 a)))
  | 212 => ret (fun b => [b]) (to_unsigned (int 0 0 a) (int 0 1 a))
  | 213 => ret (fun b => [b]) (to_signed (int 0 0 a) (int 0 1 a))
  | 214 => ret ubf_obs (empty_new (int 0 0 a))
  | 215 => match ubf_of (lst 0 a) with
           | Ok f => ([0] :: ubf_obs f) ++ ubf_history f (tl a)
           | Err e => ret_err e
           end
  | 217 => match ubf_of (lst 0 a) with
           | Ok f => ([0] :: ubf_obs_any f) ++ ubf_history_any f (tl a)
           | Err e => ret_err e
           end
  (* from_bytes(f.as_bytes) == f for a constructed field *)
  | 216 => ret (fun b => [[b2z b]])
             (do f <- ubf_of (lst 0 a); do g <- ubf_from_bytes (ubf_as_bytes f); Ok (ubf_eq g f))
  (* Spec side *)
  | 250 => [[0]; ubf_layout (int 0 0 a) (int 0 1 a)]
  | 251 => [[0]; hex_of_bytes (lst 0 a)]
  | 252 => [[0]; twos_complement (Z.to_nat (int 0 0 a)) (int 0 1 a)]
  | _ => [[1; 97]]
  end.
