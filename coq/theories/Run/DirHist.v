(* family 13: operation histories of the seven file-directive PDUs (ops 1306-1309 EOF / ACK /
   Prompt / Keep Alive, 1346 Finished, 1356 Metadata, 1380 NAK), routed by Run/DispPdu.v.

   One case = one or two objects.  An object is built on one of several construction paths
   (constructor, decode of its own packed form, alternate constructors), then driven through a
   list of operations: every documented setter, the header accessors all directive PDUs inherit
   (crc_flag, file_flag, pdu_data_field_len, and the setters of the header object reachable
   through pdu_header), plain assignments to the public attributes, operations of the CALLER on the
   objects it handed in (its PduConfig, its FinishedParams / MetadataParams, its option /
   response / segment-request list mutated in place and assigned again), and observations
   (pack, lengths, all exposed values) in between.  Every operation yields one log entry:
   [0] accepted, [1; class] refused, or the observed value.  A refused operation leaves the state
   unchanged: the setters validate before they assign or (the recalculating setters of
   FinishedPdu, MetadataPdu and NakPdu, since the repairs a59b63b / 910380a / 6222224 in /repo)
   restore the previous value when the length calculation refuses the new one.  The final
   observation: all fields, the lengths, pack twice, the caller's PduConfig, the caller's list.

   Reference semantics are modelled where the code has them: the PDU stores the caller's list
   object, so an in-place mutation of that list is visible to pack() at once while the cached
   data-field length is only recalculated by the next setter call (`hs_alias`); FinishedPdu /
   MetadataPdu store the caller's parameter object, so plain assignments to it act on the PDU.

   case line:  ids, flags, [path; ...], kind-specific constructor lists, operations ...,
               optionally [-1] and a second object in the same format. *)
From Coq Require Import ZArith List Bool.
From SP Require Import Base.Result Base.Bytes Run.Marshal Model.PduHeader Model.PduHeaderOps Run.DispHdr
  Model.FileDirective Model.Lv Model.Tlv Model.Eof Model.Ack Model.Prompt Model.KeepAlive
  Model.Finished Model.Metadata Model.Nak.
From SP Require Run.DispPduA Run.DispPduB Run.DispPduC.
Import ListNotations.
Open Scope Z_scope.

(* ---------- marshalling helpers ---------- *)
(* embedded error classes are canonical (TooShort / Unicode are ValueError refinements) *)
Definition canon_code (e : err) : Z :=
  match e with ETooShort | EUnicode => 1 | _ => err_code e end.
Definition pack_entry (r : res bytes) : list Z :=
  match r with Ok b => 0 :: b | Err e => [1; canon_code e] end.

(* a list of items in ONE integer list: each item is  n :: (its n integers) *)
Fixpoint unchunk (fuel : nat) (l : list Z) : list (list Z) :=
  match fuel with
  | O => []
  | S k => match l with
           | [] => []
           | n :: r => firstn (Z.to_nat n) r :: unchunk k (skipn (Z.to_nat n) r)
           end
  end.
Definition chunks (l : list Z) : list (list Z) := unchunk (length l) l.
Definition enchunk (items : list (list Z)) : list Z := flat_map (fun i => len i :: i) items.

Definition fault_opt (l : list Z) : res (option tlv) := DispPduB.fault_of_list l.

(* ---------- the object ---------- *)
Inductive kpdu :=
| KEof (p : EofPdu) | KAck (p : AckPdu) | KPrompt (p : PromptPdu) | KKa (p : KeepAlivePdu)
| KFin (p : FinishedPdu) | KMd (p : MetadataPdu) | KNak (p : NakPdu).

Definition k_fd (k : kpdu) : fdir :=
  match k with
  | KEof p => eof_fd p | KAck p => ack_fd p | KPrompt p => pr_fd p | KKa p => ka_fd p
  | KFin p => fin_fdir p | KMd p => md_fdir p | KNak p => nk_fd p
  end.
Definition k_with_fd (k : kpdu) (f : fdir) : kpdu :=
  match k with
  | KEof p => KEof (eof_with_fd p f)
  | KAck p => KAck {| ack_fd := f; ack_code := ack_code p; ack_subtype := ack_subtype p;
                      ack_cc := ack_cc p; ack_status := ack_status p |}
  | KPrompt p => KPrompt {| pr_fd := f; pr_rr := pr_rr p |}
  | KKa p => KKa {| ka_fd := f; ka_progress := ka_progress p |}
  | KFin p => KFin {| fin_fdir := f; fin_params := fin_params p |}
  | KMd p => KMd (md_with_fdir p f)
  | KNak p => KNak (nak_with_fd p f)
  end.
Definition k_pack (k : kpdu) : res bytes :=
  match k with
  | KEof p => eof_pack p | KAck p => ack_pack p | KPrompt p => prompt_pack p | KKa p => ka_pack p
  | KFin p => fin_pack p | KMd p => md_pack p | KNak p => nak_pack p
  end.
Definition k_unpack (kind : Z) (b : bytes) : res kpdu :=
  if kind =? 0 then do p <- eof_unpack b; Ok (KEof p)
  else if kind =? 1 then do p <- ack_unpack b; Ok (KAck p)
  else if kind =? 2 then do p <- prompt_unpack b; Ok (KPrompt p)
  else if kind =? 3 then do p <- ka_unpack b; Ok (KKa p)
  else if kind =? 4 then do p <- fin_unpack b; Ok (KFin p)
  else if kind =? 5 then do p <- md_unpack b; Ok (KMd p)
  else do p <- nak_unpack b; Ok (KNak p).

(* the state of one history: the object, the caller's PduConfig object, the caller's list
   object (segment requests / options / responses), whether the PDU currently stores that very
   list object, and (Finished) whether the file_store_responses attribute is None *)
Record hst := { hs_p : kpdu; hs_cc : PduConfig;
                hs_segs : list (Z * Z); hs_tlvs : list tlv; hs_resps : list fsresp;
                hs_alias : bool; hs_rnone : bool }.
Definition st_p (s : hst) (k : kpdu) : hst :=
  {| hs_p := k; hs_cc := hs_cc s; hs_segs := hs_segs s; hs_tlvs := hs_tlvs s; hs_resps := hs_resps s;
     hs_alias := hs_alias s; hs_rnone := hs_rnone s |}.
Definition st_cc (s : hst) (c : PduConfig) : hst :=
  {| hs_p := hs_p s; hs_cc := c; hs_segs := hs_segs s; hs_tlvs := hs_tlvs s; hs_resps := hs_resps s;
     hs_alias := hs_alias s; hs_rnone := hs_rnone s |}.
Definition st_alias (s : hst) (b : bool) : hst :=
  {| hs_p := hs_p s; hs_cc := hs_cc s; hs_segs := hs_segs s; hs_tlvs := hs_tlvs s; hs_resps := hs_resps s;
     hs_alias := b; hs_rnone := hs_rnone s |}.
Definition st_rnone (s : hst) (b : bool) : hst :=
  {| hs_p := hs_p s; hs_cc := hs_cc s; hs_segs := hs_segs s; hs_tlvs := hs_tlvs s; hs_resps := hs_resps s;
     hs_alias := hs_alias s; hs_rnone := b |}.
Definition st_segs (s : hst) (l : list (Z * Z)) : hst :=
  {| hs_p := hs_p s; hs_cc := hs_cc s; hs_segs := l; hs_tlvs := hs_tlvs s; hs_resps := hs_resps s;
     hs_alias := hs_alias s; hs_rnone := hs_rnone s |}.
Definition st_tlvs (s : hst) (l : list tlv) : hst :=
  {| hs_p := hs_p s; hs_cc := hs_cc s; hs_segs := hs_segs s; hs_tlvs := l; hs_resps := hs_resps s;
     hs_alias := hs_alias s; hs_rnone := hs_rnone s |}.
Definition st_resps (s : hst) (l : list fsresp) : hst :=
  {| hs_p := hs_p s; hs_cc := hs_cc s; hs_segs := hs_segs s; hs_tlvs := hs_tlvs s; hs_resps := l;
     hs_alias := hs_alias s; hs_rnone := hs_rnone s |}.

(* result of a mutating operation: accepted -> new state, refused -> the state as it was *)
Definition upd (s : hst) (r : res hst) : hst * list Z :=
  match r with Ok s' => (s', [0]) | Err e => (s, [1; canon_code e]) end.
Definition acc (s : hst) : hst * list Z := (s, [0]).

(* ---------- operations every directive PDU has (codes >= 100) ---------- *)
Definition conf_set_flag (c : PduConfig) (idx v : Z) : PduConfig :=
  if idx =? 0 then conf_set_mode c v
  else if idx =? 1 then conf_set_large c v
  else if idx =? 2 then conf_set_crc c v
  else if idx =? 3 then conf_set_dir c v
  else conf_set_segctrl c v.

Definition gen_step (s : hst) (code : Z) (r : list Z) : hst * list Z :=
  let k := hs_p s in
  let f := k_fd k in
  let v := nth 0 r 0 in
  let setf := fun f' => st_p s (k_with_fd k f') in
  (* 100: crc_flag = v  (pdu.crc_flag / pdu.pdu_header.crc_flag / the PDU's own PduConfig) *)
  if code =? 100 then acc (setf (fdir_set_crc_flag f v))
  (* 101: file_flag = v; pdu.file_flag is overridden by KeepAlivePdu and NakPdu (recalculates),
     the paths through the header / the PduConfig are the generic ones *)
  else if code =? 101 then
    if nth 1 r 0 =? 0 then
      match k with
      | KKa p => upd s (do p' <- ka_set_file_flag p v; Ok (st_p s (KKa p')))
      | KNak p => upd s (do p' <- nak_set_file_flag p v; Ok (st_p s (KNak p')))
      | _ => acc (setf (fdir_set_file_flag f v))
      end
    else acc (setf (fdir_set_file_flag f v))
  (* 102: pdu_data_field_len = v  (also directive_param_field_len = v - 1) *)
  else if code =? 102 then upd s (do f' <- fdir_set_dlen f v; Ok (setf f'))
  else if code =? 103 then acc (setf (fdir_set_mode f v))
  else if code =? 104 then acc (setf (fdir_set_dir f v))
  else if code =? 105 then acc (setf (fdir_set_segctrl f v))
  (* 106: pdu_header.transaction_seq_num = UnsignedByteField(v, w) *)
  else if code =? 106 then upd s (do u <- ubf_new v (nth 1 r 0); Ok (setf (fdir_set_seq f u)))
  (* 107: pdu_header.set_entity_ids(UnsignedByteField(sv, sw), UnsignedByteField(dv, dw)) *)
  else if code =? 107 then
    upd s (do a <- ubf_new (nth 0 r 0) (nth 1 r 0);
           do b <- ubf_new (nth 2 r 0) (nth 3 r 0);
           do f' <- fdir_set_entity_ids f a b; Ok (setf f'))
  else if code =? 108 then acc (setf (fdir_set_meta f v))
  else if code =? 109 then acc (setf (fdir_set_type f v))
  (* 110: <byte field>.value = w IN PLACE on the PDU's own configuration (field v: 0 source, 1 destination,
     2 sequence number).  While that object is still the caller's (the constructor's copy of the PduConfig is
     shallow) the adapter first gives the PDU an object of its own with the same value and width, and it packs
     once before the assignment; neither changes a value, so the operation is the int branch of the value
     setter (util.py) on that field *)
  else if code =? 110 then
    upd s (do u <- PduHeaderOps.conf_get_field (fdir_conf f) v;
           do u' <- PduHeaderOps.ubf_set_int u (nth 1 r 0);
           do c' <- PduHeaderOps.conf_set_field (fdir_conf f) v u';
           Ok (setf (fdir_with_conf f c')))
  (* 120: pack() observed; 121: packet_len, pdu_data_field_len, header_len observed *)
  else if code =? 120 then (s, pack_entry (k_pack k))
  else if code =? 121 then (s, [fdir_packet_len f; h_dlen (fd_hdr f); fdir_header_len f])
  (* 130 / 131: the caller changes its own PduConfig object (the PDU holds a copy) *)
  else if code =? 130 then acc (st_cc s (conf_set_flag (hs_cc s) v (nth 1 r 0)))
  else if code =? 131 then upd s (do u <- ubf_new v (nth 1 r 0); Ok (st_cc s (conf_set_seq (hs_cc s) u)))
  else (s, [1; 97]).

(* ---------- kind-specific operations (codes < 100) ---------- *)
Definition eof_step (s : hst) (p : EofPdu) (code : Z) (r : list Z) : hst * list Z :=
  let setp := fun p' => st_p s (KEof p') in
  if code =? 0 then upd s (do p' <- eof_set_fault p None; Ok (setp p'))
  else if code =? 1 then upd s (do t <- entity_new r; do p' <- eof_set_fault p (Some t); Ok (setp p'))
  (* plain attributes condition_code, file_checksum, file_size *)
  else if code =? 2 then
    acc (setp {| eof_fd := eof_fd p; eof_cc := nth 0 r 0; eof_checksum := eof_checksum p;
                 eof_size := eof_size p; eof_fault := eof_fault p |})
  else if code =? 3 then
    acc (setp {| eof_fd := eof_fd p; eof_cc := eof_cc p; eof_checksum := r;
                 eof_size := eof_size p; eof_fault := eof_fault p |})
  else if code =? 4 then
    acc (setp {| eof_fd := eof_fd p; eof_cc := eof_cc p; eof_checksum := eof_checksum p;
                 eof_size := nth 0 r 0; eof_fault := eof_fault p |})
  else (s, [1; 97]).

Definition ack_step (s : hst) (p : AckPdu) (code : Z) (r : list Z) : hst * list Z :=
  let v := nth 0 r 0 in
  let mk := fun c st cc ts =>
    acc (st_p s (KAck {| ack_fd := ack_fd p; ack_code := c; ack_subtype := st; ack_cc := cc; ack_status := ts |})) in
  if code =? 2 then mk v (ack_subtype p) (ack_cc p) (ack_status p)
  else if code =? 3 then mk (ack_code p) v (ack_cc p) (ack_status p)
  else if code =? 4 then mk (ack_code p) (ack_subtype p) v (ack_status p)
  else if code =? 5 then mk (ack_code p) (ack_subtype p) (ack_cc p) v
  else (s, [1; 97]).

Definition prompt_step (s : hst) (p : PromptPdu) (code : Z) (r : list Z) : hst * list Z :=
  if code =? 2 then acc (st_p s (KPrompt {| pr_fd := pr_fd p; pr_rr := nth 0 r 0 |}))
  else (s, [1; 97]).

Definition ka_step (s : hst) (p : KeepAlivePdu) (code : Z) (r : list Z) : hst * list Z :=
  if code =? 2 then acc (st_p s (KKa {| ka_fd := ka_fd p; ka_progress := nth 0 r 0 |}))
  else (s, [1; 97]).

(* the PDU's view after an in-place mutation of the caller's list: changed only when the PDU
   stores that very list; no length is recalculated *)
Definition nak_step (s : hst) (p : NakPdu) (code : Z) (r : list Z) : hst * list Z :=
  let inplace := fun l =>
    let s1 := st_segs s l in
    acc (if hs_alias s then st_p s1 (KNak (nak_with_segs p l)) else s1) in
  if code =? 0 then
    upd s (do p' <- nak_set_segs p (DispPduC.segs_of_flat r); Ok (st_alias (st_p s (KNak p')) false))
  else if code =? 10 then
    upd s (do p' <- nak_set_segs p []; Ok (st_alias (st_p s (KNak p')) false))
  else if code =? 11 then
    upd s (do p' <- nak_set_segs p (hs_segs s); Ok (st_alias (st_p s (KNak p')) true))
  else if code =? 12 then inplace (hs_segs s ++ [(nth 0 r 0, nth 1 r 0)])
  else if code =? 13 then inplace (removelast (hs_segs s))
  else if code =? 14 then inplace []
  else if code =? 16 then acc (st_alias (st_segs s (nk_segs p)) true)
  else if code =? 2 then acc (st_p s (KNak (nak_set_start p (nth 0 r 0))))
  else if code =? 3 then acc (st_p s (KNak (nak_set_end p (nth 0 r 0))))
  (* 20: get_max_seg_reqs_for_max_packet_size(n) observed (reads the PDU's current configuration) *)
  else if code =? 20 then
    (s, match nak_max_seg_reqs (nth 0 r 0) (nk_conf p) with
        | Ok v => [0; v] | Err e => [1; canon_code e] end)
  else (s, [1; 97]).

Definition md_with_options (p : MetadataPdu) (o : option (list tlv)) : MetadataPdu :=
  {| md_fdir := md_fdir p; md_params := md_params p; md_src_lv := md_src_lv p; md_dst_lv := md_dst_lv p;
     md_options := o |}.
Definition md_with_params (p : MetadataPdu) (q : MdParams) : MetadataPdu :=
  {| md_fdir := md_fdir p; md_params := q; md_src_lv := md_src_lv p; md_dst_lv := md_dst_lv p;
     md_options := md_options p |}.

Definition md_step (s : hst) (p : MetadataPdu) (code : Z) (r : list Z) : hst * list Z :=
  let setp := fun p' => st_p s (KMd p') in
  let q := md_params p in
  let inplace := fun l =>
    let s1 := st_tlvs s l in
    if hs_alias s then st_p s1 (KMd (md_with_options p (Some l))) else s1 in
  if code =? 0 then upd s (do p' <- md_set_options p None; Ok (st_alias (setp p') false))
  else if code =? 1 then
    upd s (do l <- DispPduB.tlvs_of_lists (chunks r);
           do p' <- md_set_options p (Some l); Ok (st_alias (setp p') false))
  else if code =? 11 then
    upd s (do p' <- md_set_options p (Some (hs_tlvs s)); Ok (st_alias (setp p') true))
  else if code =? 12 then upd s (do t <- DispPduB.tlv_of_list r; Ok (inplace (hs_tlvs s ++ [t])))
  else if code =? 13 then acc (inplace (removelast (hs_tlvs s)))
  else if code =? 14 then acc (inplace [])
  else if code =? 16 then
    match md_options p with
    | Some l => acc (st_alias (st_tlvs s l) true)
    | None => acc s
    end
  else if code =? 2 then upd s (do p' <- md_set_src p None; Ok (setp p'))
  else if code =? 3 then upd s (do p' <- md_set_src p (Some r); Ok (setp p'))
  else if code =? 4 then upd s (do p' <- md_set_dst p None; Ok (setp p'))
  else if code =? 5 then upd s (do p' <- md_set_dst p (Some r); Ok (setp p'))
  (* plain assignments to the (caller's) MetadataParams object the PDU stores *)
  else if code =? 20 then
    acc (setp (md_with_params p {| mp_closure := nth 0 r 0; mp_cstype := mp_cstype q; mp_fsize := mp_fsize q;
                                   mp_src := mp_src q; mp_dst := mp_dst q |}))
  else if code =? 21 then
    acc (setp (md_with_params p {| mp_closure := mp_closure q; mp_cstype := nth 0 r 0; mp_fsize := mp_fsize q;
                                   mp_src := mp_src q; mp_dst := mp_dst q |}))
  else if code =? 22 then
    acc (setp (md_with_params p {| mp_closure := mp_closure q; mp_cstype := mp_cstype q; mp_fsize := nth 0 r 0;
                                   mp_src := mp_src q; mp_dst := mp_dst q |}))
  else if code =? 23 then
    acc (setp (md_with_params p {| mp_closure := mp_closure q; mp_cstype := mp_cstype q; mp_fsize := mp_fsize q;
                                   mp_src := opt_bytes r; mp_dst := mp_dst q |}))
  else if code =? 24 then
    acc (setp (md_with_params p {| mp_closure := mp_closure q; mp_cstype := mp_cstype q; mp_fsize := mp_fsize q;
                                   mp_src := mp_src q; mp_dst := opt_bytes r |}))
  else (s, [1; 97]).

Definition fin_with_params (p : FinishedPdu) (q : FinParams) : FinishedPdu :=
  {| fin_fdir := fin_fdir p; fin_params := q |}.

Definition fin_step (s : hst) (p : FinishedPdu) (code : Z) (r : list Z) : hst * list Z :=
  let setp := fun p' => st_p s (KFin p') in
  let q := fin_params p in
  let inplace := fun l =>
    let s1 := st_resps s l in
    if hs_alias s then st_p s1 (KFin (fin_with_params p (fn_with_resps q l))) else s1 in
  if code =? 0 then upd s (do p' <- fin_set_fault p None; Ok (setp p'))
  else if code =? 1 then upd s (do t <- entity_new r; do p' <- fin_set_fault p (Some t); Ok (setp p'))
  else if code =? 2 then
    upd s (do p' <- fin_set_resps p None; Ok (st_rnone (st_alias (setp p') false) false))
  else if code =? 3 then
    upd s (do l <- DispPduB.resps_of_lists (chunks r);
           do p' <- fin_set_resps p (Some l); Ok (st_rnone (st_alias (setp p') false) false))
  else if code =? 4 then upd s (do p' <- fin_set_cc p (nth 0 r 0); Ok (setp p'))
  else if code =? 11 then
    upd s (do p' <- fin_set_resps p (Some (hs_resps s)); Ok (st_rnone (st_alias (setp p') true) false))
  else if code =? 12 then upd s (do x <- DispPduB.resp_of_list r; Ok (inplace (hs_resps s ++ [x])))
  else if code =? 13 then acc (inplace (removelast (hs_resps s)))
  else if code =? 14 then acc (inplace [])
  else if code =? 16 then
    if hs_rnone s then acc s else acc (st_alias (st_resps s (fn_resps q)) true)
  (* plain assignments to the (caller's) FinishedParams object the PDU stores: nothing is
     recalculated *)
  else if code =? 17 then
    acc (st_rnone (st_alias (setp (fin_with_params p (fn_with_resps q (hs_resps s)))) true) false)
  else if code =? 18 then
    acc (st_rnone (st_alias (setp (fin_with_params p (fn_with_resps q []))) false) true)
  else if code =? 20 then
    acc (setp (fin_with_params p {| fn_cc := nth 0 r 0; fn_dc := fn_dc q; fn_fs := fn_fs q;
                                    fn_resps := fn_resps q; fn_fault := fn_fault q |}))
  else if code =? 21 then
    acc (setp (fin_with_params p {| fn_cc := fn_cc q; fn_dc := nth 0 r 0; fn_fs := fn_fs q;
                                    fn_resps := fn_resps q; fn_fault := fn_fault q |}))
  else if code =? 22 then
    acc (setp (fin_with_params p {| fn_cc := fn_cc q; fn_dc := fn_dc q; fn_fs := nth 0 r 0;
                                    fn_resps := fn_resps q; fn_fault := fn_fault q |}))
  else if code =? 23 then
    upd s (do o <- fault_opt r; Ok (setp (fin_with_params p (fn_with_fault q o))))
  else (s, [1; 97]).

(* ---------- construction paths ---------- *)
Definition mk_st (k : kpdu) (c : PduConfig) : hst :=
  {| hs_p := k; hs_cc := c; hs_segs := []; hs_tlvs := []; hs_resps := []; hs_alias := false;
     hs_rnone := false |}.

(* number of constructor lists behind ids, flags, descriptor *)
Definition nctor (kind : Z) : nat :=
  if kind =? 0 then 3%nat else if kind =? 4 then 3%nat else if kind =? 5 then 4%nat
  else if kind =? 6 then 2%nat else 1%nat.

(* path 0: the constructor; 1, 2: K.unpack(K(...).pack()) from bytes / from a bytearray;
   Finished 3: FinishedPdu.success_pdu(conf), 4: FinishedPdu(conf, FinishedParams.success_params()),
   5: FinishedPdu(conf, FinishedParams.empty()).  List modes: 0 = None passed, 1 = the caller's
   list passed, 2 = argument omitted. *)
Definition build (kind : Z) (a : args) : res hst :=
  do c <- conf_of_args (lst 0 a) (lst 1 a);
  let path := int 2 0 a in
  do s0 <-
    (if kind =? 0 then
       do fl <- fault_opt (lst 5 a);
       do r <- eof_new c (lst 3 a) (int 4 0 a) fl (int 4 1 a); Ok (mk_st (KEof (fst r)) c)
     else if kind =? 1 then
       do r <- ack_new c (int 3 0 a) (int 3 1 a) (int 3 2 a); Ok (mk_st (KAck (fst r)) c)
     else if kind =? 2 then
       do r <- prompt_new c (int 3 0 a); Ok (mk_st (KPrompt (fst r)) c)
     else if kind =? 3 then
       do r <- ka_new c (int 3 0 a); Ok (mk_st (KKa (fst r)) c)
     else if kind =? 4 then
       if path =? 3 then do r <- fin_success_pdu c; Ok (mk_st (KFin (fst (fst r))) c)
       else if path =? 4 then do r <- fin_new c fn_success; Ok (mk_st (KFin (fst (fst r))) c)
       else if path =? 5 then do r <- fin_new c fn_empty; Ok (mk_st (KFin (fst (fst r))) c)
       else
         do fl <- fault_opt (lst 4 a);
         let mode := int 5 0 a in
         do rs <- (if mode =? 1 then DispPduB.resps_of_lists (chunks (tl (lst 5 a))) else Ok []);
         let q := {| fn_cc := int 3 0 a; fn_dc := int 3 1 a; fn_fs := int 3 2 a; fn_resps := rs;
                     fn_fault := fl |} in
         if mode =? 0 then
           do r <- fin_new_none c q; Ok (st_rnone (mk_st (KFin (fst (fst r))) c) true)
         else
           do r <- fin_new c q;
           let s := mk_st (KFin (fst (fst r))) c in
           Ok (if mode =? 1 then st_alias (st_resps s rs) true else s)
     else if kind =? 5 then
       let mode := int 6 0 a in
       do o <- (if mode =? 1 then do l <- DispPduB.tlvs_of_lists (chunks (tl (lst 6 a))); Ok (Some l)
                else Ok None);
       let q := {| mp_closure := int 3 0 a; mp_cstype := int 3 1 a; mp_fsize := int 3 2 a;
                   mp_src := opt_bytes (lst 4 a); mp_dst := opt_bytes (lst 5 a) |} in
       do r <- md_new c q o;
       let s := mk_st (KMd (fst (fst r))) c in
       Ok (match o with Some l => st_alias (st_tlvs s l) true | None => s end)
     else
       let mode := int 4 0 a in
       let segs := if mode =? 1 then DispPduC.segs_of_flat (tl (lst 4 a)) else [] in
       do r <- nak_new c (int 3 0 a) (int 3 1 a) segs;
       let s := mk_st (KNak (fst r)) c in
       Ok (if mode =? 1 then st_alias (st_segs s segs) true else s));
  if (path =? 1) || (path =? 2) then
    (* the decoded object owns everything it holds; the caller starts with an empty list *)
    do b <- k_pack (hs_p s0);
    do k <- k_unpack kind b;
    Ok (mk_st k c)
  else Ok s0.

(* ---------- observation ---------- *)
Definition fin_fields_h (p : FinishedPdu) (rnone : bool) : args :=
  let q := fin_params p in
  hdr_fields (fd_hdr (fin_fdir p)) ++
  [[fd_type (fin_fdir p); fin_packet_len p]; [fn_cc q; fn_dc q; fn_fs q]; DispPduB.fault_enc (fn_fault q);
   [if rnone then -1 else Z.of_nat (length (fn_resps q))]] ++ map DispPduB.resp_enc (fn_resps q).

Definition md_fields_h (p : MetadataPdu) : args :=
  DispPduB.md_fields p ++ DispPduB.mp_fields (md_params p).

Definition k_fields (s : hst) : args :=
  match hs_p s with
  | KEof p => DispPduA.eof_fields p
  | KAck p => DispPduA.ack_fields p
  | KPrompt p => DispPduA.prompt_fields p
  | KKa p => DispPduA.ka_fields p
  | KFin p => fin_fields_h p (hs_rnone s)
  | KMd p => md_fields_h p
  | KNak p => DispPduC.nak_fields p
  end.

(* the values the object exposes: entity IDs / sequence number, flags, and the kind's own values *)
Definition k_values (s : hst) : args :=
  let c := fdir_conf (k_fd (hs_p s)) in
  [conf_ids c; conf_flags c] ++
  match hs_p s with
  | KFin _ | KMd _ | KNak _ => skipn 5 (k_fields s)
  | _ => skipn 4 (k_fields s)
  end.

Definition step (s : hst) (o : list Z) : hst * list Z :=
  match o with
  | [] => (s, [1; 97])
  | code :: r =>
    (* 122: all exposed values observed *)
    if code =? 122 then (s, enchunk (k_values s))
    else if code >=? 100 then gen_step s code r
    else match hs_p s with
         | KEof p => eof_step s p code r
         | KAck p => ack_step s p code r
         | KPrompt p => prompt_step s p code r
         | KKa p => ka_step s p code r
         | KFin p => fin_step s p code r
         | KMd p => md_step s p code r
         | KNak p => nak_step s p code r
         end
  end.

Fixpoint run_ops (s : hst) (ops : list (list Z)) : hst * args :=
  match ops with
  | [] => (s, [])
  | o :: r => let '(s1, e) := step s o in
              let '(s2, l) := run_ops s1 r in (s2, e :: l)
  end.

Definition caller_list (s : hst) : list Z :=
  match hs_p s with
  | KFin _ => enchunk (map DispPduB.resp_enc (hs_resps s))
  | KMd _ => enchunk (map DispPduB.tlv_enc (hs_tlvs s))
  | KNak _ => DispPduC.flat_of_segs (hs_segs s)
  | _ => []
  end.

Definition observe (s : hst) : args :=
  let k := hs_p s in
  let f := k_fd k in
  [[-2]] ++ k_fields s ++
  [[fdir_packet_len f; h_dlen (fd_hdr f); fdir_header_len f];
   pack_entry (k_pack k); pack_entry (k_pack k);
   conf_ids (hs_cc s); conf_flags (hs_cc s); caller_list s].

(* ---------- one case ---------- *)
Definition is_sep (o : list Z) : bool := match o with x :: _ => x =? -1 | [] => false end.
Fixpoint split_sep (a : args) : args * args :=
  match a with
  | [] => ([], [])
  | o :: r => if is_sep o then ([], r) else let '(x, y) := split_sep r in (o :: x, y)
  end.

Definition run_one (kind : Z) (a : args) : res args :=
  do s0 <- build kind a;
  let '(s, log) := run_ops s0 (skipn (3 + nctor kind) a) in
  Ok (log ++ observe s).

Definition kind_of_op (op : Z) : Z :=
  if op =? 1306 then 0 else if op =? 1307 then 1 else if op =? 1308 then 2 else if op =? 1309 then 3
  else if op =? 1346 then 4 else if op =? 1356 then 5 else 6.

Definition is_hist_op (op : Z) : bool :=
  (op =? 1306) || (op =? 1307) || (op =? 1308) || (op =? 1309) || (op =? 1346) || (op =? 1356) || (op =? 1380).

Definition run_hist (op : Z) (a : args) : args :=
  let kind := kind_of_op op in
  let '(a1, a2) := split_sep a in
  match a2 with
  | [] => ret (fun r => r) (run_one kind a1)
  | _ => ret (fun r => r)
           (do r1 <- run_one kind a1; do r2 <- run_one kind a2; Ok (r1 ++ [[-3]] ++ r2))
  end.
