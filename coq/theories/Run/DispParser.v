(* family 9: space-packet stream parser (C13).
   900  history:  a0 = default packet ids as flat (ptype, shf, apid) triples;
                  a1 = ground truth for the oracle (ignored here);
                  a2.. = operations: [0; chunk...] append(bytearray(chunk)) on the right,
                                     [3; chunk...] append(bytes(chunk)) on the right (same model operation),
                                     [1]           parse(default ids),
                                     [2; triples]  parse(those ids).
        result: for every operation [n_packets; n_queue] followed by the
                returned packets and the queue entries after the call; then one line [0]:
                the number of calls after which overwriting the caller's own chunk objects or
                the packets already handed out changed the queue or an earlier result (the
                model's values are values: never).
   902  the same history through the linear-time formulation Model/ParserFast.v (proved equal:
        Proofs/ParserFast.run_ops_fast_eq); only the parse operations are observed (large
        backlogs: the queue is not echoed after every append); then the line [0] as for 900.
   901  one call of parse_space_packets on a given queue: a0 = ids, a1.. = queue entries
        ([0; octets...] each); result as for one operation.
   950  Spec: spec_stream on (a0 = raw 13-bit ids, a1 = buffer): [packets..., remainder] *)
From Coq Require Import ZArith List Bool.
From SP Require Import Base.Result Base.Bytes Run.Marshal Model.SpacePacket Model.Parser Model.ParserFast Spec.ParserSpec.
Import ListNotations.
Open Scope Z_scope.

Fixpoint pids_of (l : list Z) : res (list pid) :=
  match l with
  | t :: s :: a :: r => do p <- pid_new t s a; do ps <- pids_of r; Ok (p :: ps)
  | _ => Ok []
  end.

Definition pop_of (dflt : list pid) (l : list Z) : res pop :=
  match l with
  | 0 :: c => Ok (Append c)
  | 3 :: c => Ok (Append c)
  | 2 :: tr => do ids <- pids_of tr; Ok (Parse ids)
  | _ => Ok (Parse dflt)
  end.

Fixpoint pops_of (dflt : list pid) (a : args) : res (list pop) :=
  match a with
  | [] => Ok []
  | l :: r => do o <- pop_of dflt l; do os <- pops_of dflt r; Ok (o :: os)
  end.

Definition obs1 (o : list bytes * queue) : args :=
  [Z.of_nat (length (fst o)); Z.of_nat (length (snd o))] :: fst o ++ snd o.

Definition is_append (l : list Z) : bool :=
  match l with 0 :: _ => true | 3 :: _ => true | _ => false end.

(* the observations of the parse operations only *)
Fixpoint parse_obs (a : args) (l : list (list bytes * queue)) : list (list bytes * queue) :=
  match a, l with
  | o :: a', x :: l' => if is_append o then parse_obs a' l' else x :: parse_obs a' l'
  | _, _ => []
  end.

Definition run_parser (op : Z) (a : args) : args :=
  match op with
  | 900 => ret (fun l => flat_map obs1 l ++ [[0]])
             (do dflt <- pids_of (lst 0 a);
              do ops <- pops_of dflt (tl (tl a));
              run_ops [] ops)
  | 902 => ret (fun l => flat_map obs1 (parse_obs (tl (tl a)) l) ++ [[0]])
             (do dflt <- pids_of (lst 0 a);
              do ops <- pops_of dflt (tl (tl a));
              run_ops_fast [] ops)
  | 901 => ret obs1
             (do ids <- pids_of (lst 0 a);
              parse_space_packets (map (fun l => tl l) (tl a)) ids)
  | 950 => let '(p, r) := spec_stream (lst 0 a) (lst 1 a) in [0] :: [Z.of_nat (length p)] :: p ++ [r]
  | _ => [[1; 97]]
  end.
