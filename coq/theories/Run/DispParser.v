(* family 9: space-packet stream parser (C13).
   900  history:  a0 = default packet ids as flat (ptype, shf, apid) triples;
                  a1 = ground truth for the oracle (ignored here);
                  a2.. = operations: [0; chunk...] append(chunk) on the right,
                                     [1]           parse(default ids),
                                     [2; triples]  parse(those ids).
        result: for every operation [n_packets; n_queue] followed by the
                returned packets and the queue entries after the call.
   901  one call of parse_space_packets on a given queue: a0 = ids, a1.. = queue entries
        ([0; octets...] each); result as for one operation.
   950  Spec: spec_stream on (a0 = raw 13-bit ids, a1 = buffer): [packets..., remainder] *)
From Coq Require Import ZArith List Bool.
From SP Require Import Base.Result Base.Bytes Run.Marshal Model.SpacePacket Model.Parser Spec.ParserSpec.
Import ListNotations.
Open Scope Z_scope.

Fixpoint pids_of (l : list Z) : res (list pid) :=
  match l with
  | t :: s :: a :: r => do p <- pid_new t s a; do ps <- pids_of r; Ok (p :: ps)
  | _ => Ok []
  end.

Definition pop_of (dflt : list pid) (l : list Z) : res pop :=
  match l with
  | 0 :: c => Ok (Append c)
  | 2 :: tr => do ids <- pids_of tr; Ok (Parse ids)
  | _ => Ok (Parse dflt)
  end.

Fixpoint pops_of (dflt : list pid) (a : args) : res (list pop) :=
  match a with
  | [] => Ok []
  | l :: r => do o <- pop_of dflt l; do os <- pops_of dflt r; Ok (o :: os)
  end.

Definition obs1 (o : list bytes * queue) : args :=
  [Z.of_nat (length (fst o)); Z.of_nat (length (snd o))] :: fst o ++ snd o.

Definition run_parser (op : Z) (a : args) : args :=
  match op with
  | 900 => ret (fun l => flat_map obs1 l)
             (do dflt <- pids_of (lst 0 a);
              do ops <- pops_of dflt (tl (tl a));
              run_ops [] ops)
  | 901 => ret obs1
             (do ids <- pids_of (lst 0 a);
              parse_space_packets (map (fun l => tl l) (tl a)) ids)
  | 950 => let '(p, r) := spec_stream (lst 0 a) (lst 1 a) in [0] :: [Z.of_nat (length p)] :: p ++ [r]
  | _ => [[1; 97]]
  end.
