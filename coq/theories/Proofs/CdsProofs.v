From Coq Require Import ZArith List Bool Lia ZifyBool.
From SP Require Import Base.Result Base.Bytes Base.BytesFacts Model.Cds Model.CdsSoftFloat Model.CdsFloat Spec.CdsSpec.
Import ListNotations.
Open Scope Z_scope.
Ltac Zify.zify_post_hook ::= Z.to_euclidean_division_equations.
Ltac list_eq := repeat (apply f_equal2; [lia|]); try reflexivity.

(* ============ witnesses of the four pre-audited defects on the faithful model ============ *)

(* D-C14-1: the time of day is subtracted for days before 1970 *)
Lemma cds_datetime_instant_refuted :
  exists t, cds_valid t /\ cds_datetime_us t <> cds_instant_ms t * 1000 /\
            cds_datetime_us t = -86401000000 /\ cds_instant_ms t * 1000 = -86399000000.
Proof. exists {| cdays := 4382; cms := 1000 |}. vm_compute. repeat split; congruence. Qed.

(* D-C14-2: 23:59:59 + 1 s is not normalised *)
Lemma cds_add_normalised_refuted :
  exists t r, cds_valid t /\ cds_add t 0 1 0 = Ok r /\ cms r = 86400000.
Proof. exists {| cdays := 0; cms := 86399000 |}. eexists. vm_compute. repeat split; congruence. Qed.

(* D-C14-3: a whole-millisecond datetime loses a millisecond (binary fraction truncated) *)
Lemma cds_from_datetime_ms_refuted :
  exists ud sod us, dt_valid ud sod us /\ us mod 1000 = 0 /\
    cms (cds_from_datetime ud sod us) <> sod * 1000 + us / 1000.
Proof. exists 20000, 80000, 1000. vm_compute. repeat split; congruence. Qed.

(* D-C14-4: 1969-12-31T12:00 is put on day 4383 (1970-01-01) *)
Lemma cds_from_datetime_day_refuted :
  exists ud sod us, dt_valid ud sod us /\ cdays (cds_from_datetime ud sod us) <> ud + 4383.
Proof. exists (-1), 43200, 0. vm_compute. repeat split; congruence. Qed.
