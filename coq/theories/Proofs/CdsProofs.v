(* Proofs for the integer core of CDS short timestamps (C14) and the cross-cutting
   decoder lemmas (C09 / C10 / C11) of CdsShortTimestamp. *)
From Coq Require Import ZArith List Bool Lia ZifyBool.
From SP Require Import Base.Result Base.Bytes Base.BytesFacts Model.Cds Spec.CdsSpec.
Import ListNotations.
Open Scope Z_scope.
Ltac Zify.zify_post_hook ::= Z.to_euclidean_division_equations.
Ltac list_eq := repeat (apply f_equal2; [lia|]); try reflexivity.

(* ================= P-field octet: finite sweep ================= *)

Definition chk_pfield (p : Z) : bool :=
  (Z.land (Z.shiftr p 4) 7 =? (p / 16) mod 8) &&
  (Z.land (Z.shiftr p 2) 1 =? (p / 4) mod 2).
Lemma pfield_sweep : forallb chk_pfield (zrange 0 256) = true.
Proof. vm_compute. reflexivity. Qed.
Lemma pfield_bits p : 0 <= p < 256 ->
  Z.land (Z.shiftr p 4) 7 = (p / 16) mod 8 /\ Z.land (Z.shiftr p 2) 1 = (p / 4) mod 2.
Proof.
  intros H. assert (C : chk_pfield p = true).
  { apply (sweep _ 0 256); [lia|exact pfield_sweep|lia]. }
  unfold chk_pfield in C. lia.
Qed.

Lemma cds_pfield_is_64 : cds_pfield = [64].
Proof. reflexivity. Qed.

(* ================= pack ================= *)

Definition cds_packable (t : cds) : Prop := 0 <= cdays t <= 65535 /\ 0 <= cms t < 4294967296.

Lemma cds_valid_packable t : cds_valid t -> cds_packable t.
Proof. unfold cds_valid, cds_packable. lia. Qed.

Lemma cds_pack_layout_packable t : cds_packable t -> cds_pack t = Ok (cds_layout t).
Proof.
  intros [Hd Hm]. unfold cds_pack, cds_layout.
  rewrite struct_pack_ok by (change (256 ^ Z.of_nat 2) with 65536; lia).
  cbn [bind]. rewrite struct_pack_ok by (change (256 ^ Z.of_nat 4) with 4294967296; lia).
  reflexivity.
Qed.

Lemma cds_pack_layout t : cds_valid t -> cds_pack t = Ok (cds_layout t).
Proof. intros H. apply cds_pack_layout_packable, cds_valid_packable, H. Qed.

Lemma cds_pack_refuses t : ~ cds_packable t -> cds_pack t = Err EStruct.
Proof.
  intros H. unfold cds_pack.
  destruct (Z_le_dec 0 (cdays t)) as [a|a]; [destruct (Z_le_dec (cdays t) 65535) as [b|b]|].
  - rewrite struct_pack_ok by (change (256 ^ Z.of_nat 2) with 65536; lia). cbn [bind].
    rewrite struct_pack_err; [reflexivity|].
    change (256 ^ Z.of_nat 4) with 4294967296. unfold cds_packable in H. lia.
  - rewrite struct_pack_err; [reflexivity|]. change (256 ^ Z.of_nat 2) with 65536. lia.
  - rewrite struct_pack_err; [reflexivity|]. change (256 ^ Z.of_nat 2) with 65536. lia.
Qed.

(* the seven octets written out with division and remainder only *)
Lemma cds_layout_octets t :
  cds_layout t =
  [64; (cdays t / 256) mod 256; cdays t mod 256;
   (cms t / 16777216) mod 256; (cms t / 65536) mod 256; (cms t / 256) mod 256; cms t mod 256].
Proof.
  unfold cds_layout. cbn [be_encode app Nat.pred Z.of_nat].
  change (256 ^ Z.of_nat 3) with 16777216. change (256 ^ Z.of_nat 2) with 65536.
  change (256 ^ Z.of_nat 1) with 256. change (256 ^ Z.of_nat 0) with 1.
  rewrite !Z.div_1_r. reflexivity.
Qed.

Lemma cds_layout_length t : length (cds_layout t) = 7%nat.
Proof. unfold cds_layout. rewrite !app_length, !be_encode_length. reflexivity. Qed.

Lemma cds_layout_wf t : wf_bytes (cds_layout t).
Proof.
  unfold cds_layout. apply wf_bytes_app. split; [repeat constructor; lia|].
  apply wf_bytes_app. split; apply be_encode_wf.
Qed.

Lemma cds_len_tracks t b : cds_pack t = Ok b -> len b = cds_len_packed t.
Proof.
  intros H. destruct (Z_le_dec 0 (cdays t)); [destruct (Z_le_dec (cdays t) 65535);
    [destruct (Z_le_dec 0 (cms t)); [destruct (Z_lt_dec (cms t) 4294967296)|]|]|].
  1: { rewrite cds_pack_layout_packable in H by (unfold cds_packable; lia).
       injection H as <-. unfold len. rewrite cds_layout_length. reflexivity. }
  all: rewrite cds_pack_refuses in H by (unfold cds_packable; lia); discriminate.
Qed.

(* ================= unpack ================= *)

(* complete description of unpack_from_raw on any octet string *)
Lemma cds_unpack_from_raw_spec b : wf_bytes b ->
  cds_unpack_from_raw b =
  if (length b <? 7)%nat then Err ETooShort
  else if negb ((nth 0 b 0 / 16) mod 8 =? 4) then Err EValue
  else if negb ((nth 0 b 0 / 4) mod 2 =? 0) then Err EValue
  else Ok (be_decode (slice b 1 3), be_decode (slice b 3 7)).
Proof.
  intros W. unfold cds_unpack_from_raw, TIMESTAMP_SIZE, len.
  destruct (length b <? 7)%nat eqn:L.
  - destruct (Z.of_nat (length b) <? 7) eqn:L'; [reflexivity|lia].
  - destruct (Z.of_nat (length b) <? 7) eqn:L'; [lia|].
    destruct b as [|p r]; [cbn in L; discriminate|].
    rewrite py_get_cons_0. cbn [bind nth].
    assert (Hp : 0 <= p < 256) by (inversion W; assumption).
    destruct (pfield_bits p Hp) as [E1 E2]. rewrite E1. unfold TIME_CODE_CDS.
    destruct (negb ((p / 16) mod 8 =? 4)); [reflexivity|].
    unfold len_of_day_seg_from_pfield. rewrite E2. unfold DAYS_16_BITS, DAYS_24_BITS.
    assert (Hb : (p / 4) mod 2 = 0 \/ (p / 4) mod 2 = 1) by lia.
    destruct Hb as [-> | ->]; cbn [Z.eqb orb negb bind]; [|reflexivity].
    assert (Hl : (7 <= length (p :: r))%nat) by lia.
    rewrite !struct_unpack_ok; [reflexivity| |].
    + rewrite slice_length; unfold len; lia.
    + rewrite slice_length; unfold len; lia.
Qed.

Lemma cds_unpack_short b : (length b < 7)%nat -> cds_unpack_from_raw b = Err ETooShort.
Proof.
  intros H. unfold cds_unpack_from_raw, TIMESTAMP_SIZE, len.
  destruct (Z.of_nat (length b) <? 7) eqn:L; [reflexivity|lia].
Qed.

Lemma cds_unpack_wrong_time_code b : wf_bytes b -> (7 <= length b)%nat ->
  (nth 0 b 0 / 16) mod 8 <> 4 -> cds_unpack_from_raw b = Err EValue.
Proof.
  intros W L H. rewrite cds_unpack_from_raw_spec by assumption.
  destruct (length b <? 7)%nat eqn:E; [lia|].
  destruct ((nth 0 b 0 / 16) mod 8 =? 4) eqn:E2; [lia|reflexivity].
Qed.

Lemma cds_unpack_24bit_days b : wf_bytes b -> (7 <= length b)%nat ->
  (nth 0 b 0 / 4) mod 2 <> 0 -> cds_unpack_from_raw b = Err EValue.
Proof.
  intros W L H. rewrite cds_unpack_from_raw_spec by assumption.
  destruct (length b <? 7)%nat eqn:E; [lia|].
  destruct (negb ((nth 0 b 0 / 16) mod 8 =? 4)); [reflexivity|].
  destruct ((nth 0 b 0 / 4) mod 2 =? 0) eqn:E2; [lia|reflexivity].
Qed.

Lemma cds_unpack_of_raw b : cds_unpack b =
  match cds_unpack_from_raw b with Ok (d, ms) => Ok (cds_new d ms) | Err e => Err e end.
Proof. unfold cds_unpack. destruct (cds_unpack_from_raw b) as [[d ms]|e]; reflexivity. Qed.

Lemma slice_layout_days t rest : slice (cds_layout t ++ rest) 1 3 = be_encode 2 (cdays t).
Proof.
  unfold cds_layout. rewrite <- !app_assoc.
  apply (slice_mid [64] (be_encode 2 (cdays t)) (be_encode 4 (cms t) ++ rest)).
  - reflexivity.
  - unfold len. rewrite be_encode_length. reflexivity.
Qed.
Lemma slice_layout_ms t rest : slice (cds_layout t ++ rest) 3 7 = be_encode 4 (cms t).
Proof.
  unfold cds_layout. rewrite <- !app_assoc.
  change ([64] ++ be_encode 2 (cdays t) ++ be_encode 4 (cms t) ++ rest)
    with (([64] ++ be_encode 2 (cdays t)) ++ be_encode 4 (cms t) ++ rest).
  apply slice_mid.
  - unfold len. rewrite app_length, be_encode_length. reflexivity.
  - unfold len. rewrite app_length, !be_encode_length. reflexivity.
Qed.

Lemma cds_unpack_from_raw_layout t rest : cds_packable t ->
  cds_unpack_from_raw (cds_layout t ++ rest) = Ok (cdays t, cms t).
Proof.
  intros [Hd Hm]. unfold cds_unpack_from_raw, TIMESTAMP_SIZE.
  rewrite len_app. unfold len at 1. rewrite cds_layout_length.
  pose proof (len_nonneg rest).
  destruct (Z.of_nat 7 + len rest <? 7) eqn:L; [lia|].
  assert (G : py_get (cds_layout t ++ rest) 0 = Ok 64) by reflexivity.
  rewrite G. cbn [bind]. change (negb (Z.land (Z.shiftr 64 4) 7 =? TIME_CODE_CDS)) with false.
  cbv iota. change (len_of_day_seg_from_pfield 64) with (@Ok Z 0). cbn [bind].
  change (negb (0 =? DAYS_16_BITS)) with false. cbv iota.
  rewrite slice_layout_days, slice_layout_ms.
  rewrite struct_unpack_encode by (change (256 ^ Z.of_nat 2) with 65536; lia). cbn [bind].
  rewrite struct_unpack_encode by (change (256 ^ Z.of_nat 4) with 4294967296; lia).
  reflexivity.
Qed.

Lemma cds_unpack_pack_packable t rest : cds_packable t ->
  cds_unpack (cds_layout t ++ rest) = Ok t.
Proof.
  intros H. unfold cds_unpack. rewrite cds_unpack_from_raw_layout by assumption.
  cbn [bind]. destruct t; reflexivity.
Qed.

Lemma cds_unpack_pack t rest : cds_valid t -> cds_unpack (cds_layout t ++ rest) = Ok t.
Proof. intros H. apply cds_unpack_pack_packable, cds_valid_packable, H. Qed.

Lemma slice_split_7 (b : bytes) : (7 <= length b)%nat ->
  firstn 7 b = [nth 0 b 0] ++ slice b 1 3 ++ slice b 3 7.
Proof.
  intros H. do 7 (destruct b as [|? b]; [cbn in H; lia|]). reflexivity.
Qed.

(* any accepted octet string decodes to the pair its octets 1..6 encode, and that pair
   packs to 0x40 followed by those six octets *)
Lemma cds_pack_unpack b : wf_bytes b -> (7 <= length b)%nat ->
  (nth 0 b 0 / 16) mod 8 = 4 -> (nth 0 b 0 / 4) mod 2 = 0 ->
  exists t, cds_unpack b = Ok t /\ cds_packable t /\
            cds_pack t = Ok (64 :: slice b 1 7) /\ cds_layout t = 64 :: slice b 1 7.
Proof.
  intros W L H1 H2.
  exists (cds_new (be_decode (slice b 1 3)) (be_decode (slice b 3 7))).
  assert (W1 : wf_bytes (slice b 1 3)) by (apply wf_bytes_slice; assumption).
  assert (W2 : wf_bytes (slice b 3 7)) by (apply wf_bytes_slice; assumption).
  assert (L1 : length (slice b 1 3) = 2%nat) by (rewrite slice_length; unfold len; lia).
  assert (L2 : length (slice b 3 7) = 4%nat) by (rewrite slice_length; unfold len; lia).
  pose proof (be_decode_range _ W1) as R1. pose proof (be_decode_range _ W2) as R2.
  rewrite L1 in R1. rewrite L2 in R2.
  change (256 ^ Z.of_nat 2) with 65536 in R1. change (256 ^ Z.of_nat 4) with 4294967296 in R2.
  assert (P : cds_packable (cds_new (be_decode (slice b 1 3)) (be_decode (slice b 3 7)))).
  { unfold cds_packable, cds_new; cbn [cdays cms]. lia. }
  assert (LY : cds_layout (cds_new (be_decode (slice b 1 3)) (be_decode (slice b 3 7))) = 64 :: slice b 1 7).
  { unfold cds_layout, cds_new; cbn [cdays cms].
    rewrite <- L1 at 1. rewrite be_encode_decode by assumption.
    rewrite <- L2 at 1. rewrite be_encode_decode by assumption.
    do 7 (destruct b as [|? b]; [cbn in L; lia|]). reflexivity. }
  split; [|split; [exact P|split; [|exact LY]]].
  - rewrite cds_unpack_of_raw, cds_unpack_from_raw_spec by assumption.
    destruct (length b <? 7)%nat eqn:E; [lia|].
    rewrite H1, H2. reflexivity.
  - rewrite cds_pack_layout_packable by exact P. rewrite LY. reflexivity.
Qed.

(* ================= cross-cutting: totality, prefixes, no over-read ================= *)

Lemma cds_unpack_from_raw_total b : wf_bytes b -> ok_or_documented (cds_unpack_from_raw b).
Proof.
  intros W. rewrite cds_unpack_from_raw_spec by assumption.
  destruct (length b <? 7)%nat; [reflexivity|].
  destruct (negb _); [reflexivity|]. destruct (negb _); reflexivity.
Qed.

Lemma cds_total b : wf_bytes b -> ok_or_documented (cds_unpack b).
Proof.
  intros W. rewrite cds_unpack_of_raw. pose proof (cds_unpack_from_raw_total b W) as H.
  destruct (cds_unpack_from_raw b) as [[d ms]|e]; [exact I|exact H].
Qed.

Lemma cds_prefix_rejected t n : (n < 7)%nat ->
  cds_unpack (firstn n (cds_layout t)) = Err ETooShort /\ documented ETooShort = true.
Proof.
  intros H. split; [|reflexivity]. rewrite cds_unpack_of_raw, cds_unpack_short; [reflexivity|].
  rewrite firstn_length. lia.
Qed.

Lemma cds_unpack_from_raw_firstn b : (7 <= length b)%nat ->
  cds_unpack_from_raw (firstn 7 b) = cds_unpack_from_raw b.
Proof.
  intros L. do 7 (destruct b as [|? b]; [cbn in L; lia|]).
  unfold cds_unpack_from_raw, TIMESTAMP_SIZE, len.
  cbn [firstn length]. 
  destruct (Z.of_nat (S (S (S (S (S (S (S (length b)))))))) <? 7) eqn:E; [lia|].
  reflexivity.
Qed.

(* C09: the decoder looks at the first seven octets only *)
Lemma cds_no_overread b x : cds_unpack b = Ok x -> cds_unpack (firstn 7 b) = Ok x.
Proof.
  intros H. destruct (le_lt_dec 7 (length b)) as [L|L].
  - rewrite cds_unpack_of_raw, cds_unpack_from_raw_firstn by assumption.
    rewrite <- cds_unpack_of_raw. exact H.
  - rewrite cds_unpack_of_raw, cds_unpack_short in H by assumption. discriminate.
Qed.

Lemma cds_suffix_irrelevant t s : cds_packable t ->
  cds_unpack (cds_layout t ++ s) = cds_unpack (cds_layout t).
Proof.
  intros H. rewrite cds_unpack_pack_packable by assumption.
  rewrite <- (app_nil_r (cds_layout t)) at 1.
  rewrite cds_unpack_pack_packable by assumption. reflexivity.
Qed.

(* ================= instants ================= *)

Lemma cds_instant_roundtrip t : 0 <= cms t < 86400000 ->
  cds_of_instant_ms (cds_instant_ms t) = t.
Proof.
  intros H. unfold cds_of_instant_ms, cds_instant_ms. destruct t as [d m]; cbn [cdays cms] in *.
  f_equal; lia.
Qed.

Lemma cds_of_instant_valid i : - 4383 * 86400000 <= i < (65536 - 4383) * 86400000 ->
  cds_valid (cds_of_instant_ms i) /\ cds_instant_ms (cds_of_instant_ms i) = i.
Proof. intros H. unfold cds_valid, cds_of_instant_ms, cds_instant_ms; cbn [cdays cms]. lia. Qed.

(* later timestamps (lexicographic on (days, ms)) are later instants, and conversely *)
Definition cds_lt (a b : cds) : Prop := cdays a < cdays b \/ (cdays a = cdays b /\ cms a < cms b).

Lemma cds_monotone a b : 0 <= cms a < 86400000 -> 0 <= cms b < 86400000 ->
  (cds_lt a b <-> cds_instant_ms a < cds_instant_ms b).
Proof. unfold cds_lt, cds_instant_ms. lia. Qed.

Lemma cds_instant_inj a b : 0 <= cms a < 86400000 -> 0 <= cms b < 86400000 ->
  cds_instant_ms a = cds_instant_ms b -> a = b.
Proof.
  intros Ha Hb E. rewrite <- (cds_instant_roundtrip a Ha), <- (cds_instant_roundtrip b Hb), E.
  reflexivity.
Qed.

Lemma cds_convert_days d :
  convert_unix_days_to_ccsds_days d = d + 4383 /\ convert_ccsds_days_to_unix_days d = d - 4383 /\
  convert_ccsds_days_to_unix_days (convert_unix_days_to_ccsds_days d) = d /\
  convert_unix_days_to_ccsds_days (convert_ccsds_days_to_unix_days d) = d.
Proof. unfold convert_unix_days_to_ccsds_days, convert_ccsds_days_to_unix_days, DAYS_CCSDS_TO_UNIX. lia. Qed.

Lemma cds_from_unix_days_spec ud ms : cds_from_unix_days ud ms = {| cdays := ud + 4383; cms := ms |}.
Proof. unfold cds_from_unix_days, cds_new, convert_unix_days_to_ccsds_days, DAYS_CCSDS_TO_UNIX. f_equal; lia. Qed.

(* ================= from_datetime ================= *)

Lemma cds_from_datetime_exact ud sod us : dt_valid ud sod us ->
  let t := cds_from_datetime ud sod us in
  cdays t = ud + 4383 /\ cms t = sod * 1000 + us / 1000 /\ 0 <= cms t < 86400000 /\
  cds_instant_ms t = dt_instant_us ud sod us / 1000 /\
  t = cds_of_instant_ms (dt_instant_us ud sod us / 1000) /\
  (us mod 1000 = 0 -> cds_instant_ms t * 1000 = dt_instant_us ud sod us) /\
  (- 4383 <= ud <= 61152 -> cds_valid t).
Proof.
  intros [Hs Hu]. unfold cds_from_datetime, convert_unix_days_to_ccsds_days, DAYS_CCSDS_TO_UNIX,
    cds_instant_ms, cds_of_instant_ms, dt_instant_us, cds_valid. cbn [cdays cms].
  repeat split; try lia.
  f_equal; lia.
Qed.

(* ================= __add__ ================= *)

Definition td_valid (td_days td_seconds td_microseconds : Z) : Prop :=
  0 <= td_seconds < 86400 /\ 0 <= td_microseconds < 1000000.
Definition td_ms (td_days td_seconds td_microseconds : Z) : Z :=
  td_days * 86400000 + td_seconds * 1000 + td_microseconds / 1000.

Lemma cds_add_correct t dd ds du :
  0 <= cdays t <= 65535 -> 0 <= cms t < 86400000 -> td_valid dd ds du -> 0 <= dd ->
  let total := cdays t * 86400000 + cms t + td_ms dd ds du in
  (total / 86400000 <= 65535 ->
     cds_add t dd ds du = Ok {| cdays := total / 86400000; cms := total mod 86400000 |}) /\
  (65535 < total / 86400000 -> cds_add t dd ds du = Err EOverflow).
Proof.
  intros Hd Hm [Hs Hu] Hdd. unfold cds_add, td_ms, MS_PER_DAY.
  change (2 ^ 16 - 1) with 65535. cbv zeta.
  destruct (cms t + (du / 1000 + ds * 1000) >=? 86400000) eqn:C.
  - destruct (cdays t + 1 >? 65535) eqn:O1; cbn [bind].
    + split; intros H; [lia|reflexivity].
    + destruct (cdays t + 1 + dd >? 65535) eqn:O2.
      * split; intros H; [lia|reflexivity].
      * split; intros H; [|lia]. f_equal. f_equal; lia.
  - cbn [bind]. destruct (cdays t + dd >? 65535) eqn:O2.
    + split; intros H; [lia|reflexivity].
    + split; intros H; [|lia]. f_equal. f_equal; lia.
Qed.

(* the result is a valid timestamp whose instant is the old instant plus the timedelta's
   whole milliseconds *)
Lemma cds_add_instant t dd ds du r :
  cds_valid t -> td_valid dd ds du -> 0 <= dd -> cds_add t dd ds du = Ok r ->
  cds_valid r /\ cds_instant_ms r = cds_instant_ms t + td_ms dd ds du.
Proof.
  intros [Hd Hm] Htd Hdd E.
  destruct (cds_add_correct t dd ds du Hd ltac:(lia) Htd Hdd) as [A B].
  destruct (Z_le_dec ((cdays t * 86400000 + cms t + td_ms dd ds du) / 86400000) 65535) as [L|L].
  - rewrite (A L) in E. injection E as <-.
    unfold cds_valid, cds_instant_ms; cbn [cdays cms]. destruct Htd as [Hs Hu].
    unfold td_ms in *. lia.
  - rewrite B in E by lia. discriminate.
Qed.

Lemma cds_add_overflow_iff t dd ds du :
  cds_valid t -> td_valid dd ds du -> 0 <= dd ->
  (cds_add t dd ds du = Err EOverflow <->
   65535 < (cdays t * 86400000 + cms t + td_ms dd ds du) / 86400000).
Proof.
  intros [Hd Hm] Htd Hdd.
  destruct (cds_add_correct t dd ds du Hd ltac:(lia) Htd Hdd) as [A B].
  split.
  - intros E. destruct (Z_le_dec ((cdays t * 86400000 + cms t + td_ms dd ds du) / 86400000) 65535) as [L|L]; [|lia].
    rewrite (A L) in E. discriminate.
  - exact B.
Qed.

Lemma cds_eqb_eq a b : cds_eqb a b = true <-> a = b.
Proof.
  unfold cds_eqb. destruct a as [d1 m1], b as [d2 m2]; cbn [cdays cms]. split.
  - intros H. f_equal; lia.
  - intros E. injection E as -> ->. lia.
Qed.

(* C11: after any history of additions the reported length is the length of what pack writes,
   and pack is a function of the state (repeatable) *)
Lemma cds_len_after_history t tds r b :
  cds_add_all t tds = Ok r -> cds_pack r = Ok b ->
  len b = cds_len_packed r /\ cds_pack r = Ok b /\ len b = 7.
Proof.
  intros _ H. split; [exact (cds_len_tracks r b H)|]. split; [exact H|].
  rewrite (cds_len_tracks r b H). reflexivity.
Qed.

(* a history of non-negative additions keeps the stamp valid and adds up the milliseconds *)
Lemma cds_add_all_instant tds : forall t r,
  cds_valid t -> Forall (fun x => let '(d, s, u) := x in td_valid d s u /\ 0 <= d) tds ->
  cds_add_all t tds = Ok r ->
  cds_valid r /\
  cds_instant_ms r = cds_instant_ms t + fold_right (fun x acc => let '(d, s, u) := x in td_ms d s u + acc) 0 tds.
Proof.
  induction tds as [|[[d s] u] tds IH]; intros t r V F E.
  - cbn in E. injection E as <-. cbn. split; [exact V|lia].
  - cbn [cds_add_all] in E. inversion F as [|x l Hx F']; subst. cbv beta iota in Hx. destruct Hx as [Htd Hd].
    destruct (cds_add t d s u) as [t'|e] eqn:A; cbn [bind] in E; [|discriminate].
    destruct (cds_add_instant t d s u t' V Htd Hd A) as [V' I'].
    destruct (IH t' r V' F' E) as [Vr Ir]. split; [exact Vr|].
    cbn [fold_right]. lia.
Qed.

(* non-vacuity *)
Lemma cds_valid_example : cds_valid {| cdays := 65535; cms := 86399999 |}.
Proof. unfold cds_valid; cbn. lia. Qed.
Lemma cds_add_example :
  cds_add {| cdays := 65534; cms := 86399000 |} 0 1 0 = Ok {| cdays := 65535; cms := 0 |} /\
  cds_add {| cdays := 65535; cms := 86399000 |} 0 1 0 = Err EOverflow.
Proof. split; reflexivity. Qed.
