(* C10: strict-prefix rejection for the decoders that had no such theorem yet: the PUS TC / TM
   secondary headers, the sized field decoders u8/u16/u32/u64, and the USLP transfer frame data
   field (where the claim holds for cuts inside the TFDF header only: the TFDF is not
   self-delimiting, its length is an argument of the decoder). *)
From Coq Require Import ZArith List Bool Lia ZifyBool.
From SP Require Import Base.Result Base.Bytes Base.BytesFacts Model.SpacePacket Model.PusTc Model.PusTm
  Proofs.PusTcProofs Proofs.PusTmProofs Model.Util Spec.UtilSpec Proofs.UtilProofs
  Model.UslpHeader Model.UslpFrame Spec.UslpSpec Proofs.UslpProofs Proofs.UslpFrameProofs.
Import ListNotations.
Open Scope Z_scope.
Ltac Zify.zify_post_hook ::= Z.to_euclidean_division_equations.

(* ---------- PUS TC secondary header (5 octets) ---------- *)
Theorem tcsec_prefix_rejected s n : (n < length (tcsec_layout s))%nat ->
  tcsec_unpack (firstn n (tcsec_layout s)) = Err ETooShort.
Proof.
  intros H. apply tcsec_unpack_short. rewrite firstn_length. unfold tcsec_layout in *. cbn [length] in *. lia.
Qed.
(* any octet string shorter than the header, prefix of a packed header or not *)
Theorem tcsec_short_rejected d : (length d < 5)%nat -> tcsec_unpack d = Err ETooShort.
Proof. exact (tcsec_unpack_short d). Qed.

(* ---------- PUS TM secondary header (7 octets + timestamp) ---------- *)
Theorem tmsec_prefix_rejected s n : tmsec_valid s -> (n < length (tmsec_layout s))%nat ->
  tmsec_unpack (firstn n (tmsec_layout s)) (len (tms_stamp s)) = Err ETooShort.
Proof.
  intros (H0 & H1 & H2 & H3 & H4 & H5 & W) L.
  destruct (Nat.lt_ge_cases n 7) as [S|G].
  - apply tmsec_unpack_short. rewrite firstn_length. lia.
  - unfold tmsec_layout in *. rewrite app_length in L. cbn [length] in L.
    replace n with (7 + (n - 7))%nat by lia.
    change (firstn (7 + (n - 7)) ([32 + tms_ref s; tms_service s; tms_subservice s; tms_msgcnt s / 256;
              tms_msgcnt s mod 256; tms_dest s / 256; tms_dest s mod 256] ++ tms_stamp s))
      with ((32 + tms_ref s) :: tms_service s :: tms_subservice s :: tms_msgcnt s / 256 ::
              tms_msgcnt s mod 256 :: tms_dest s / 256 :: tms_dest s mod 256 :: firstn (n - 7) (tms_stamp s)).
    rewrite tmsec_unpack_cells by (repeat constructor; lia).
    replace ((32 + tms_ref s) / 16) with 2 by lia. cbn [Z.eqb Pos.eqb negb].
    assert (len (firstn (n - 7) (tms_stamp s)) < len (tms_stamp s)).
    { unfold len. rewrite firstn_length. lia. }
    destruct (_ >? _) eqn:E; [reflexivity|lia].
Qed.
Example tmsec_valid_example :
  tmsec_valid {| tms_version := 2; tms_ref := 3; tms_service := 17; tms_subservice := 2;
                 tms_msgcnt := 258; tms_dest := 5; tms_stamp := [1; 2; 3] |}.
Proof. unfold tmsec_valid. cbn. repeat split; try lia. repeat constructor; lia. Qed.

(* ---------- u8 / u16 / u32 / u64 ---------- *)
Lemma sized_short (d : bytes) (k : Z) : len d < k -> (len d <? k) = true.
Proof. intros. lia. Qed.
Theorem u8_short_rejected d : len d < 1 -> Util.u8_from_bytes d = Err EValue.
Proof. intros H. unfold Util.u8_from_bytes. rewrite (sized_short d 1 H). reflexivity. Qed.
Theorem u16_short_rejected d : len d < 2 -> u16_from_bytes d = Err EValue.
Proof. intros H. unfold u16_from_bytes. rewrite (sized_short d 2 H). reflexivity. Qed.
Theorem u32_short_rejected d : len d < 4 -> u32_from_bytes d = Err EValue.
Proof. intros H. unfold u32_from_bytes. rewrite (sized_short d 4 H). reflexivity. Qed.
Theorem u64_short_rejected d : len d < 8 -> u64_from_bytes d = Err EValue.
Proof. intros H. unfold u64_from_bytes. rewrite (sized_short d 8 H). reflexivity. Qed.

Lemma len_firstn_layout w v n : 0 <= w -> (n < length (ubf_layout w v))%nat -> len (firstn n (ubf_layout w v)) < w.
Proof. intros Hw H. unfold len, ubf_layout in *. rewrite firstn_length. rewrite be_encode_length in *. lia. Qed.
Theorem u8_prefix_rejected v n : (n < length (ubf_layout 1 v))%nat ->
  Util.u8_from_bytes (firstn n (ubf_layout 1 v)) = Err EValue.
Proof. intros H. apply u8_short_rejected, len_firstn_layout; [lia|exact H]. Qed.
Theorem u16_prefix_rejected v n : (n < length (ubf_layout 2 v))%nat ->
  u16_from_bytes (firstn n (ubf_layout 2 v)) = Err EValue.
Proof. intros H. apply u16_short_rejected, len_firstn_layout; [lia|exact H]. Qed.
Theorem u32_prefix_rejected v n : (n < length (ubf_layout 4 v))%nat ->
  u32_from_bytes (firstn n (ubf_layout 4 v)) = Err EValue.
Proof. intros H. apply u32_short_rejected, len_firstn_layout; [lia|exact H]. Qed.
Theorem u64_prefix_rejected v n : (n < length (ubf_layout 8 v))%nat ->
  u64_from_bytes (firstn n (ubf_layout 8 v)) = Err EValue.
Proof. intros H. apply u64_short_rejected, len_firstn_layout; [lia|exact H]. Qed.

(* ---------- USLP transfer frame data field ---------- *)
(* cut inside the TFDF header (1 octet, or 3 with the pointer): refused *)
Theorem tfdf_header_prefix_rejected r i fh dz tr n e :
  0 <= r <= 7 -> 0 <= i <= 31 -> fhp_valid fh -> is_some fh = spec_has_pointer r tr ->
  (n < Z.to_nat (tfdf_header_len fh))%nat ->
  tfdf_unpack (firstn n (tfdf_layout r i fh dz)) tr e (Some (ftype_of_rule r)) = Err EInvalidLen.
Proof.
  intros Hr Hi Hf Hp Hn. unfold tfdf_layout.
  destruct n as [|n].
  { cbn [firstn]. unfold tfdf_unpack. reflexivity. }
  destruct fh as [v|]; cbn [tfdf_header_len] in Hn; [|lia].
  cbn [app firstn]. unfold tfdf_unpack.
  set (tl := firstn n (be_encode 2 v ++ dz)).
  assert (Lt : len tl <= 1).
  { unfold tl, len. rewrite firstn_length. lia. }
  pose proof (len_nonneg tl) as Lt0.
  destruct (len _ <? 1) eqn:L1; [rewrite len_cons in L1; lia|].
  rewrite py_get_cons_0. cbn [bind].
  destruct (byte_facts (r * 32 + i) ltac:(lia)) as (_ & _ & _ & _ & B4 & _ & _ & _ & _ & _ & B10).
  rewrite B4. replace ((r * 32 + i) / 32) with r by lia.
  destruct (should_have_unpack r tr Hr) as (S & V). rewrite V, S, <- Hp. cbn [negb is_some].
  destruct (_ || _) eqn:G; [reflexivity|]. rewrite len_cons in G. lia.
Qed.

(* The proposed statement "every strict prefix of a packed TFDF is refused" is FALSE: the TFDF is
   not self-delimiting (its length is the decoder's argument `exact_len`, taken from the frame), so
   a TFDF cut behind its header decodes to a TFDF with a shorter data zone (Python slices clamp).
   Witness: rule 3 (variable, no pointer), protocol id 0, zone 01 02, cut to 2 octets. *)
Theorem tfdf_prefix_refuted : exists r i fh dz tr n,
  0 <= r <= 7 /\ 0 <= i <= 31 /\ fhp_valid fh /\ is_some fh = spec_has_pointer r tr /\
  (n < length (tfdf_layout r i fh dz))%nat /\
  tfdf_unpack (firstn n (tfdf_layout r i fh dz)) tr (len (tfdf_layout r i fh dz)) (Some (ftype_of_rule r)) =
  Ok {| rules := r; ident := i; fhp := fh; tfdz := firstn (n - 1) dz; tsize := 2 |}.
Proof.
  exists 3, 0, None, [1; 2], false, 2%nat.
  split; [lia|]. split; [lia|]. split; [exact I|]. split; [reflexivity|]. split; [cbn; lia|].
  vm_compute. reflexivity.
Qed.
