(* C11 (gap 1, File Data): the caller's PduConfig over whole histories of the File Data machine
   (Model/FileDataOps.v : fworld).  The constructor works on a SHALLOW copy, so the three byte-field
   objects stay shared with the caller's configuration until re-bound; only operations on the
   header object (FHdr) can reach them. *)
From Coq Require Import ZArith List Bool Lia.
From SP Require Import Base.Result Base.Bytes Model.PduHeader Model.PduHeaderOps Model.FileData
  Model.FileDataOps Proofs.PduHeaderProofs.
Import ListNotations.
Open Scope Z_scope.

Definition fd_hdr_op (o : fd_hop) : bool := match o with FHdr _ => true | _ => false end.

(* while a byte-field object is shared, both configurations show the same value *)
Definition fw_coherent (w : fworld) : Prop :=
  let c := h_conf (fd_hdr (fw_pdu w)) in
  (fw_sh_src w = true -> cf_src (fw_caller w) = cf_src c) /\
  (fw_sh_dst w = true -> cf_dst (fw_caller w) = cf_dst c) /\
  (fw_sh_seq w = true -> cf_seq (fw_caller w) = cf_seq c).

Lemma fd_calc_len_conf p p' : fd_calc_len p = Ok p' -> h_conf (fd_hdr p') = h_conf (fd_hdr p).
Proof.
  unfold fd_calc_len. cbv zeta. rewrite hdr_set_dlen_spec.
  destruct (_ <=? 65535); cbn [bind]; [|discriminate]. intros H. injection H as <-. reflexivity.
Qed.

Lemma fd_step_conf p o : fd_hdr_op o = false -> h_conf (fd_hdr (fst (fd_step p o))) = h_conf (fd_hdr p).
Proof.
  destruct o; cbn [fd_hdr_op]; try discriminate; intros _; cbn [fd_step];
    unfold fd_set_data_st, fd_set_meta_st, fd_try, fd_set_data, fd_set_meta; cbv zeta.
  all: try (match goal with |- context [match ?r with Ok _ => _ | Err _ => _ end] => destruct r eqn:E end;
            cbn [fst]; [apply fd_calc_len_conf in E; exact E|reflexivity]).
  all: try (destruct (fp_meta (fd_params p)); reflexivity).
  all: reflexivity.
Qed.

Lemma conf_eta_src c : conf_set_src c (cf_src c) = c. Proof. destruct c; reflexivity. Qed.
Lemma conf_eta_dst c : conf_set_dst c (cf_dst c) = c. Proof. destruct c; reflexivity. Qed.
Lemma conf_eta_seq c : conf_set_seq c (cf_seq c) = c. Proof. destruct c; reflexivity. Qed.

Theorem fw_step_caller_conf w o : fw_coherent w -> fd_hdr_op o = false ->
  fw_caller (fst (fw_step w o)) = fw_caller w /\ fw_coherent (fst (fw_step w o)).
Proof.
  intros (C0 & C1 & C2) H. pose proof (fd_step_conf (fw_pdu w) o H) as K.
  unfold fw_step. destruct (fd_step (fw_pdu w) o) as [p' out] eqn:S. cbn [fst] in K.
  assert (D : forall k, (match o with FHdr ho => (match out with Ok _ => true | Err _ => false end) && hdr_op_detaches ho k | _ => false end) = false)
    by (intros k; destruct o; try reflexivity; discriminate H).
  cbv zeta. cbn [fst fw_caller]. rewrite !D. cbn [negb]. rewrite !andb_true_r. rewrite K.
  assert (E : (if fw_sh_seq w
               then conf_set_seq (if fw_sh_dst w
                                  then conf_set_dst (if fw_sh_src w then conf_set_src (fw_caller w) (cf_src (h_conf (fd_hdr (fw_pdu w)))) else fw_caller w)
                                         (cf_dst (h_conf (fd_hdr (fw_pdu w))))
                                  else if fw_sh_src w then conf_set_src (fw_caller w) (cf_src (h_conf (fd_hdr (fw_pdu w)))) else fw_caller w)
                      (cf_seq (h_conf (fd_hdr (fw_pdu w))))
               else if fw_sh_dst w
                    then conf_set_dst (if fw_sh_src w then conf_set_src (fw_caller w) (cf_src (h_conf (fd_hdr (fw_pdu w)))) else fw_caller w)
                           (cf_dst (h_conf (fd_hdr (fw_pdu w))))
                    else if fw_sh_src w then conf_set_src (fw_caller w) (cf_src (h_conf (fd_hdr (fw_pdu w)))) else fw_caller w)
              = fw_caller w).
  { destruct (fw_sh_src w); [rewrite <- C0, conf_eta_src by reflexivity|];
    (destruct (fw_sh_dst w); [rewrite <- C1, conf_eta_dst by reflexivity|]);
    (destruct (fw_sh_seq w); [rewrite <- C2, conf_eta_seq by reflexivity|]); reflexivity. }
  split; [exact E|].
  unfold fw_coherent. cbn [fw_pdu fw_caller fw_sh_src fw_sh_dst fw_sh_seq]. rewrite E, K.
  repeat split; assumption.
Qed.

Fixpoint fw_run (w : fworld) (ops : list fd_hop) : fworld :=
  match ops with [] => w | o :: r => fw_run (fst (fw_step w o)) r end.

(* C11: after ANY history of operations that do not go through the header object - the two
   setters (accepted or refused), re-assignments, in-place edits of the metadata and of the
   parameter object, pack, the segment-length helper - the caller's PduConfig is what it was *)
Theorem fw_history_caller_conf ops : forall w, fw_coherent w ->
  forallb (fun o => negb (fd_hdr_op o)) ops = true ->
  fw_caller (fw_run w ops) = fw_caller w /\ fw_coherent (fw_run w ops).
Proof.
  induction ops as [|o r IH]; intros w C F; cbn [fw_run forallb] in *; [split; [reflexivity|exact C]|].
  apply andb_prop in F. destruct F as [F1 F2]. apply negb_true_iff in F1.
  destruct (fw_step_caller_conf w o C F1) as [E C'].
  destruct (IH _ C' F2) as [E2 C2]. split; [congruence|exact C2].
Qed.

(* the constructor establishes the premise, whenever it returns *)
Theorem fd_new_coherent c q p c' : fd_new c q = Ok (p, c') ->
  c' = c /\ fd_params p = q /\ fw_coherent (fw_init p c').
Proof.
  unfold fd_new. cbv zeta. intros H. apply bind_ok in H. destruct H as (h & Hn & H).
  apply bind_ok in H. destruct H as (p1 & Hc & H). injection H as <- <-.
  pose proof (fd_calc_len_conf _ _ Hc) as K. cbn [fd_hdr] in K.
  assert (P : fd_params p1 = q).
  { unfold fd_calc_len in Hc. cbv zeta in Hc. apply bind_ok in Hc. destruct Hc as (h1 & _ & Hc).
    injection Hc as <-. reflexivity. }
  split; [reflexivity|]. split; [exact P|].
  match type of Hn with hdr_new ?t ?m ?n ?cc = _ => destruct (hdr_new_spec t m n cc) as [A B] end.
  assert (Hc2 : 0 <= 65535 /\ ubf_len (cf_src (conf_set_dir c DIR_TOWARDS_RECEIVER)) = ubf_len (cf_dst (conf_set_dir c DIR_TOWARDS_RECEIVER))).
  { split; [lia|]. destruct (Z.eq_dec (ubf_len (cf_src (conf_set_dir c DIR_TOWARDS_RECEIVER))) (ubf_len (cf_dst (conf_set_dir c DIR_TOWARDS_RECEIVER)))) as [e|ne]; [exact e|].
    rewrite B in Hn by (intros [_ X]; contradiction). discriminate. }
  rewrite A in Hn by exact Hc2. injection Hn as <-. cbn [h_conf] in K.
  unfold fw_coherent, fw_init. cbn [fw_pdu fw_caller fw_sh_src fw_sh_dst fw_sh_seq]. rewrite K.
  repeat split; reflexivity.
Qed.
