(* Lemmas about Model/MsgToUser.v: reserved-message test, value layout of the nine message
   kinds, round trip through MessageToUserTlv.unpack -> to_reserved_msg_tlv -> get_*,
   classification, totality of the parsers (C10). *)
From Coq Require Import ZArith List Bool Lia ZifyBool.
From SP Require Import Base.Result Base.Bytes Base.BytesFacts Base.Utf8 Model.Lv Model.Tlv
  Model.MsgToUser Spec.TlvSpec Spec.MsgSpec Proofs.LvProofs Proofs.TlvProofs.
Import ListNotations.
Open Scope Z_scope.
Ltac Zify.zify_post_hook ::= Z.to_euclidean_division_equations.

(* the value of a reserved message with explicit leading cells *)
Definition rv (mt : Z) (f : bytes) : bytes := 99 :: 102 :: 100 :: 112 :: mt :: f.
Definition rmsg (mt : Z) (f : bytes) : tlv := {| tlv_type := TLV_MESSAGE_TO_USER; tlv_value := rv mt f |}.

Lemma reserved_value_rv mt f : reserved_value mt f = rv mt f.
Proof. reflexivity. Qed.

Lemma rv_len mt f : len (rv mt f) = 5 + len f.
Proof. unfold rv. rewrite !len_cons. lia. Qed.

Lemma rv_app mt p q : rv mt (p ++ q) = rv mt p ++ q.
Proof. reflexivity. Qed.

Lemma slice_from_rv mt p q n : n = 5 + len p -> slice_from (rv mt (p ++ q)) n = q.
Proof. intros ->. rewrite rv_app. apply slice_from_app. symmetry. apply rv_len. Qed.

Lemma slice_from_rv5 mt f : slice_from (rv mt f) 5 = f.
Proof. reflexivity. Qed.
Lemma slice_from_rv6 mt b f : slice_from (rv mt (b :: f)) 6 = f.
Proof. reflexivity. Qed.
Lemma py_get_rv4 mt f : py_get (rv mt f) 4 = Ok mt.
Proof. reflexivity. Qed.
Lemma py_get_rv5 mt b f : py_get (rv mt (b :: f)) 5 = Ok b.
Proof. reflexivity. Qed.

(* ================= the reserved-message test ================= *)

Lemma is_reserved_rv ty mt f :
  is_reserved_cfdp_message {| tlv_type := ty; tlv_value := rv mt f |} = Ok true.
Proof.
  unfold is_reserved_cfdp_message. cbn [tlv_value]. rewrite rv_len. pose proof (len_nonneg f).
  destruct (5 + len f >=? 5) eqn:E; [reflexivity|lia].
Qed.

(* never raises; True exactly for "cfdp" + at least one more octet *)
Lemma is_reserved_total t :
  (is_reserved_cfdp_message t = Ok true \/ is_reserved_cfdp_message t = Ok false) /\
  (is_reserved_cfdp_message t = Ok true <->
   5 <= len (tlv_value t) /\ firstn 4 (tlv_value t) = cfdp_marker).
Proof.
  unfold is_reserved_cfdp_message.
  destruct (len (tlv_value t) >=? 5) eqn:E.
  - assert (S : slice (tlv_value t) 0 4 = firstn 4 (tlv_value t)) by reflexivity. rewrite S.
    destruct (bytes_eqb (firstn 4 (tlv_value t)) CFDP_MARKER) eqn:B.
    + split; [left; reflexivity|]. apply bytes_eqb_eq in B. split; [intros _; split; [lia|exact B]|reflexivity].
    + split; [right; reflexivity|]. split; [discriminate|]. intros [_ H].
      change cfdp_marker with CFDP_MARKER in H. apply bytes_eqb_eq in H. congruence.
  - split; [right; reflexivity|]. split; [discriminate|]. intros [H _]. lia.
Qed.

Lemma is_reserved_shape t :
  is_reserved_cfdp_message t = Ok true -> exists mt f, tlv_value t = rv mt f.
Proof.
  intros H. apply (proj2 (is_reserved_total t)) in H. destruct H as [L F].
  destruct (tlv_value t) as [|a [|b [|c [|d [|mt f]]]]]; try (cbn in L; lia).
  cbn in F. inversion F; subst. exists mt, f. reflexivity.
Qed.

Lemma is_reserved_bool t : exists b, is_reserved_cfdp_message t = Ok b.
Proof. destruct (proj1 (is_reserved_total t)) as [H|H]; rewrite H; eauto. Qed.

(* ================= ReservedCfdpMessage construction / recognition ================= *)

Lemma reserved_new_ok mt f :
  0 <= mt <= 255 -> len f <= 250 -> reserved_new mt f = Ok (rmsg mt f).
Proof.
  intros Hm Hl. unfold reserved_new. destruct (mt <=? 255) eqn:E; [|lia]. cbn [negb].
  rewrite ba_append_ok by lia. cbn [bind].
  change ((CFDP_MARKER ++ [mt]) ++ f) with (rv mt f).
  apply tlv_new_ok. rewrite rv_len. lia.
Qed.

Lemma reserved_new_too_long mt f :
  0 <= mt <= 255 -> 250 < len f -> reserved_new mt f = Err EValue.
Proof.
  intros Hm Hl. unfold reserved_new. destruct (mt <=? 255) eqn:E; [|lia]. cbn [negb].
  rewrite ba_append_ok by lia. cbn [bind].
  change ((CFDP_MARKER ++ [mt]) ++ f) with (rv mt f).
  apply tlv_new_too_long. rewrite rv_len. lia.
Qed.

Lemma rmsg_pack mt f :
  0 <= mt <= 255 -> len f <= 250 ->
  tlv_pack (rmsg mt f) = Ok (reserved_layout mt f) /\
  tlv_packet_len (rmsg mt f) = len (reserved_layout mt f).
Proof.
  intros Hm Hl. unfold rmsg, reserved_layout, msg_layout, T_MESSAGE_TO_USER, TLV_MESSAGE_TO_USER.
  change (reserved_value mt f) with (rv mt f). rewrite tlv_pack_ok; [|lia|rewrite rv_len; lia].
  rewrite tlv_layout_len. split; reflexivity.
Qed.

Lemma to_reserved_rv ty mt f :
  0 <= mt <= 255 -> len f <= 250 ->
  to_reserved_msg_tlv {| tlv_type := ty; tlv_value := rv mt f |} = Ok (Some (rmsg mt f)).
Proof.
  intros Hm Hl. unfold to_reserved_msg_tlv. rewrite is_reserved_rv. cbn [bind negb tlv_value].
  rewrite py_get_rv4. cbn [bind]. rewrite slice_from_rv5, reserved_new_ok by assumption. reflexivity.
Qed.

Lemma to_reserved_not t :
  is_reserved_cfdp_message t = Ok false -> to_reserved_msg_tlv t = Ok None.
Proof. intros H. unfold to_reserved_msg_tlv. rewrite H. reflexivity. Qed.

(* decoding a packed reserved message, whatever follows it *)
Lemma decode_reserved_layout mt f rest :
  0 <= mt <= 255 -> len f <= 250 ->
  decode_reserved (reserved_layout mt f ++ rest) = Ok (Some (rmsg mt f)).
Proof.
  intros Hm Hl. unfold decode_reserved, reserved_layout, msg_layout, msg_unpack.
  change (reserved_value mt f) with (rv mt f).
  rewrite wrap_unpack_roundtrip; [|reflexivity|rewrite rv_len; lia].
  cbn [bind]. apply to_reserved_rv; assumption.
Qed.

(* any other message-to-user content is classified as not reserved, without raising *)
Lemma decode_not_reserved v rest :
  len v <= 255 -> ~ (5 <= len v /\ firstn 4 v = cfdp_marker) ->
  decode_reserved (msg_layout v ++ rest) = Ok None.
Proof.
  intros Hl Hn. unfold decode_reserved, msg_layout, msg_unpack.
  rewrite wrap_unpack_roundtrip; [|reflexivity|assumption]. cbn [bind].
  apply to_reserved_not.
  destruct (is_reserved_total {| tlv_type := T_MESSAGE_TO_USER; tlv_value := v |}) as [[H|H] I];
    [|exact H]. apply I in H. cbn [tlv_value] in H. contradiction.
Qed.

(* C10: the whole decode path raises only documented errors (the assert is unreachable) *)
Lemma decode_reserved_total d : wf_bytes d -> ok_or_documented (decode_reserved d).
Proof.
  intros Hwf. unfold decode_reserved, msg_unpack.
  destruct (wrap_unpack TLV_MESSAGE_TO_USER d) as [t|e] eqn:U; cbn [bind].
  - destruct (wrap_unpack_type _ _ _ U) as [_ TU].
    destruct (tlv_unpack_inv d t Hwf TU) as (rest & Ed & _ & Hl).
    assert (Wv : wf_bytes (tlv_value t)).
    { rewrite Ed in Hwf. apply wf_bytes_app in Hwf. destruct Hwf as [Hwf _].
      unfold tlv_layout in Hwf. apply wf_bytes_cons in Hwf. destruct Hwf as [_ Hwf].
      apply wf_bytes_cons in Hwf. apply Hwf. }
    unfold to_reserved_msg_tlv. destruct (is_reserved_bool t) as [b Hb]. rewrite Hb. cbn [bind].
    destruct b; cbn [negb]; [|exact I].
    destruct (is_reserved_shape t Hb) as (mt & f & Ev). rewrite Ev in *.
    rewrite py_get_rv4. cbn [bind]. rewrite slice_from_rv5.
    unfold rv in Wv. do 4 (apply wf_bytes_cons in Wv; destruct Wv as [_ Wv]).
    apply wf_bytes_cons in Wv. destruct Wv as [Hm _]. rewrite rv_len in Hl.
    rewrite reserved_new_ok by lia. exact I.
  - destruct (wrap_unpack_err _ _ _ U) as [-> | [-> | ->]]; reflexivity.
Qed.

(* ================= classification ================= *)

Lemma rmsg_type mt f : get_reserved_cfdp_message_type (rmsg mt f) = Ok mt.
Proof. reflexivity. Qed.

Lemma rmsg_classification mt f :
  is_cfdp_proxy_operation (rmsg mt f) = Ok (memz mt proxy_types) /\
  is_directory_operation (rmsg mt f) = Ok (memz mt dir_types) /\
  is_originating_transaction_id (rmsg mt f) = Ok (mt =? 10) /\
  get_cfdp_proxy_message_type (rmsg mt f) = Ok (if memz mt proxy_types then Some mt else None) /\
  get_directory_operation_type (rmsg mt f) = Ok (if memz mt dir_types then Some mt else None).
Proof.
  repeat split; try reflexivity.
  - unfold get_cfdp_proxy_message_type, is_cfdp_proxy_operation. rewrite rmsg_type. cbn [bind].
    destruct (memz mt proxy_types); reflexivity.
  - unfold get_directory_operation_type, is_directory_operation. rewrite rmsg_type. cbn [bind].
    destruct (memz mt dir_types); reflexivity.
Qed.

Lemma not_proxy_kind_rmsg mt f kind :
  memz kind proxy_types = true -> not_proxy_kind (rmsg mt f) kind = Ok (negb (mt =? kind)).
Proof.
  intros Hk. unfold not_proxy_kind.
  destruct (rmsg_classification mt f) as (A & _ & _ & B & _). rewrite A, B. cbn [bind].
  destruct (memz mt proxy_types) eqn:M; cbn [negb]; [reflexivity|].
  destruct (mt =? kind) eqn:E; [|reflexivity]. apply Z.eqb_eq in E. congruence.
Qed.

Lemma not_dir_kind_rmsg mt f kind :
  memz kind dir_types = true -> not_dir_kind (rmsg mt f) kind = Ok (negb (mt =? kind)).
Proof.
  intros Hk. unfold not_dir_kind.
  destruct (rmsg_classification mt f) as (_ & A & _ & _ & B). rewrite A, B. cbn [bind].
  destruct (memz mt dir_types) eqn:M; cbn [negb]; [reflexivity|].
  destruct (mt =? kind) eqn:E; [|reflexivity]. apply Z.eqb_eq in E. congruence.
Qed.

(* a parser applied to a message of another kind answers None *)
Lemma other_kind_none mt f :
  (mt <> 10 -> get_originating_transaction_id (rmsg mt f) = Ok None) /\
  (mt <> PM_PUT_REQUEST -> get_proxy_put_request_params (rmsg mt f) = Ok None) /\
  (mt <> PM_PUT_RESPONSE -> get_proxy_put_response_params (rmsg mt f) = Ok None) /\
  (mt <> PM_CLOSURE_REQUEST -> get_proxy_closure_requested (rmsg mt f) = Ok None) /\
  (mt <> PM_TRANSMISSION_MODE -> get_proxy_transmission_mode (rmsg mt f) = Ok None) /\
  (mt <> DM_LISTING_REQUEST -> get_dir_listing_request_params (rmsg mt f) = Ok None) /\
  (mt <> DM_LISTING_RESPONSE -> get_dir_listing_response_params (rmsg mt f) = Ok None) /\
  (mt <> DM_CUSTOM_LISTING_PARAMETERS -> get_dir_listing_options (rmsg mt f) = Ok None).
Proof.
  repeat split; intros H.
  - unfold get_originating_transaction_id, is_originating_transaction_id. rewrite rmsg_type. cbn [bind].
    unfold ORIGINATING_TRANSACTION_ID_MSG_TYPE_ID. destruct (mt =? 10) eqn:E; [lia|reflexivity].
  - unfold get_proxy_put_request_params. rewrite not_proxy_kind_rmsg by reflexivity. cbn [bind].
    destruct (mt =? PM_PUT_REQUEST) eqn:E; [lia|reflexivity].
  - unfold get_proxy_put_response_params. rewrite not_proxy_kind_rmsg by reflexivity. cbn [bind].
    destruct (mt =? PM_PUT_RESPONSE) eqn:E; [lia|reflexivity].
  - unfold get_proxy_closure_requested. rewrite not_proxy_kind_rmsg by reflexivity. cbn [bind].
    destruct (mt =? PM_CLOSURE_REQUEST) eqn:E; [lia|reflexivity].
  - unfold get_proxy_transmission_mode. rewrite not_proxy_kind_rmsg by reflexivity. cbn [bind].
    destruct (mt =? PM_TRANSMISSION_MODE) eqn:E; [lia|reflexivity].
  - unfold get_dir_listing_request_params. rewrite not_dir_kind_rmsg by reflexivity. cbn [bind].
    destruct (mt =? DM_LISTING_REQUEST) eqn:E; [lia|reflexivity].
  - unfold get_dir_listing_response_params. rewrite not_dir_kind_rmsg by reflexivity. cbn [bind].
    destruct (mt =? DM_LISTING_RESPONSE) eqn:E; [lia|reflexivity].
  - unfold get_dir_listing_options. rewrite not_dir_kind_rmsg by reflexivity. cbn [bind].
    destruct (mt =? DM_CUSTOM_LISTING_PARAMETERS) eqn:E; [lia|reflexivity].
Qed.

(* ================= the one-octet messages ================= *)

Ltac split_in :=
  repeat match goal with
         | H : In _ (_ :: _) |- _ => destruct H as [<- | H]
         | H : In _ [] |- _ => destruct H
         end.

Lemma cancel_msg : proxy_cancel_request = Ok (rmsg MT_PROXY_PUT_CANCEL []).
Proof. reflexivity. Qed.

Lemma closure_msg b : In b [0; 1] ->
  proxy_closure_request b = Ok (rmsg MT_PROXY_CLOSURE_REQUEST (closure_fields b)) /\
  get_proxy_closure_requested (rmsg MT_PROXY_CLOSURE_REQUEST (closure_fields b)) = Ok (Some b).
Proof. intros H. split_in; split; reflexivity. Qed.

Lemma transmission_mode_msg m : In m [0; 1] ->
  proxy_transmission_mode m = Ok (rmsg MT_PROXY_TRANSMISSION_MODE (transmission_mode_fields m)) /\
  get_proxy_transmission_mode (rmsg MT_PROXY_TRANSMISSION_MODE (transmission_mode_fields m)) = Ok (Some m).
Proof. intros H. split_in; split; reflexivity. Qed.

Lemma dir_options_msg r a : In r [0; 1] -> In a [0; 1] ->
  directory_listing_parameters r a = Ok (rmsg MT_CUSTOM_LISTING_PARAMETERS (dir_options_fields r a)) /\
  get_dir_listing_options (rmsg MT_CUSTOM_LISTING_PARAMETERS (dir_options_fields r a)) = Ok (Some (r, a)).
Proof. intros H1 H2. split_in; split; reflexivity. Qed.

(* all 13 condition codes x 2 delivery codes x 4 file statuses *)
Definition put_response_ccs : list Z := [0; 1; 2; 3; 4; 5; 6; 7; 8; 10; 11; 14; 15].
Lemma put_response_msg cc dc fs : In cc put_response_ccs -> In dc [0; 1] -> In fs [0; 1; 2; 3] ->
  proxy_put_response cc dc fs = Ok (rmsg MT_PROXY_PUT_RESPONSE (put_response_fields cc dc fs)) /\
  get_proxy_put_response_params (rmsg MT_PROXY_PUT_RESPONSE (put_response_fields cc dc fs))
    = Ok (Some (cc, dc, fs)).
Proof. unfold put_response_ccs. intros H1 H2 H3. split_in; split; reflexivity. Qed.

(* ================= unsigned byte fields inside messages ================= *)

Definition width_ok (w : Z) : Prop := w = 1 \/ w = 2 \/ w = 4 \/ w = 8.

Lemma ubf_bytes_len v w : 0 <= w -> len (ubf_as_bytes (v, w)) = w.
Proof. intros H. unfold ubf_as_bytes, len. cbn [fst snd]. rewrite be_encode_length. lia. Qed.

Lemma ubf_new_ok v w : width_ok w -> 0 <= v < 256 ^ w -> ubf_new v w = Ok (v, w).
Proof.
  intros Hw Hv. unfold ubf_new.
  assert (ubf_valid_len w = true) as -> by (unfold ubf_valid_len, width_ok in *; lia). cbn [negb].
  destruct ((v >? 256 ^ w - 1) || (v <? 0)) eqn:E; [lia|reflexivity].
Qed.

Lemma ubf_from_as_bytes v w :
  width_ok w -> 0 <= v < 256 ^ w -> ubf_from_bytes (ubf_as_bytes (v, w)) = Ok (v, w).
Proof.
  intros Hw Hv. assert (0 <= w) by (unfold width_ok in Hw; lia).
  unfold ubf_from_bytes. rewrite ubf_bytes_len by assumption.
  assert (ubf_valid_len w = true) as -> by (unfold ubf_valid_len, width_ok in *; lia). cbn [negb].
  unfold ubf_as_bytes. cbn [fst snd]. rewrite be_decode_encode; [reflexivity|].
  rewrite Z2Nat.id by assumption. assumption.
Qed.

(* ================= proxy put request ================= *)

Lemma put_request_get I S D v w :
  ubf_from_bytes I = Ok (v, w) -> len I <= 255 -> len S <= 255 -> len D <= 255 ->
  get_proxy_put_request_params (rmsg PM_PUT_REQUEST (lv_pack I ++ lv_pack S ++ lv_pack D))
  = Ok (Some ((v, w), S, D)).
Proof.
  intros HI LI LS LD. unfold get_proxy_put_request_params.
  rewrite not_proxy_kind_rmsg by reflexivity. cbn [bind]. rewrite Z.eqb_refl. cbn [negb].
  unfold rmsg. cbn [tlv_value]. rewrite slice_from_rv5.
  rewrite lv_unpack_pack_app by assumption. cbn [bind].
  rewrite rv_len, !len_app, !lv_pack_len. unfold lv_packet_len.
  pose proof (len_nonneg I). pose proof (len_nonneg S). pose proof (len_nonneg D).
  destruct (5 + (len I + 1) >=? 5 + (len I + 1 + (len S + 1 + (len D + 1)))) eqn:E1; [lia|].
  rewrite slice_from_rv by (rewrite lv_pack_len; reflexivity).
  rewrite lv_unpack_pack_app by assumption. cbn [bind].
  destruct (5 + (len I + 1) + (len S + 1) >=? 5 + (len I + 1 + (len S + 1 + (len D + 1)))) eqn:E2; [lia|].
  rewrite app_assoc. rewrite slice_from_rv by (rewrite len_app, !lv_pack_len; unfold lv_packet_len; lia).
  rewrite lv_unpack_pack by assumption. cbn [bind]. rewrite HI. reflexivity.
Qed.

Lemma put_request_fields_len w v S D :
  len (put_request_fields w v S D) = 3 + Z.of_nat w + len S + len D.
Proof.
  unfold put_request_fields. rewrite !len_app, !lv_layout_len. unfold len at 1.
  rewrite be_encode_length. lia.
Qed.

Lemma put_request_msg v w S D :
  width_ok w -> 0 <= v < 256 ^ w -> len S <= 255 -> len D <= 255 ->
  len (put_request_fields (Z.to_nat w) v S D) <= 250 ->
  let f := put_request_fields (Z.to_nat w) v S D in
  proxy_put_request (v, w) S D = Ok (rmsg MT_PROXY_PUT_REQUEST f) /\
  get_proxy_put_request_params (rmsg MT_PROXY_PUT_REQUEST f) = Ok (Some ((v, w), S, D)).
Proof.
  intros Hw Hv LS LD LF f. assert (W0 : 0 <= w <= 8) by (unfold width_ok in Hw; lia).
  assert (LI : len (ubf_as_bytes (v, w)) <= 255) by (rewrite ubf_bytes_len; lia).
  assert (Ef : f = lv_pack (ubf_as_bytes (v, w)) ++ lv_pack S ++ lv_pack D).
  { unfold f, put_request_fields. rewrite !lv_pack_layout. reflexivity. }
  split.
  - unfold proxy_put_request. rewrite lv_new_ok by assumption. cbn [bind].
    rewrite <- Ef. apply reserved_new_ok; [cbv; split; discriminate|exact LF].
  - rewrite Ef. apply put_request_get; try assumption. apply ubf_from_as_bytes; assumption.
Qed.

(* ================= directory listing request / response ================= *)

Lemma dir_request_msg P N :
  len P <= 255 -> len N <= 255 -> len (dir_request_fields P N) <= 250 ->
  directory_listing_request P N = Ok (rmsg MT_DIRECTORY_LISTING_REQUEST (dir_request_fields P N)) /\
  get_dir_listing_request_params (rmsg MT_DIRECTORY_LISTING_REQUEST (dir_request_fields P N))
    = Ok (Some (P, N)).
Proof.
  intros LP LN LF. unfold dir_request_fields in *. rewrite <- !lv_pack_layout in *. split.
  - unfold directory_listing_request. apply reserved_new_ok; [cbv; split; discriminate|exact LF].
  - unfold get_dir_listing_request_params. rewrite not_dir_kind_rmsg by reflexivity. cbn [bind].
    change (MT_DIRECTORY_LISTING_REQUEST =? DM_LISTING_REQUEST) with true. cbn [negb].
    unfold rmsg. cbn [tlv_value]. rewrite slice_from_rv5.
    rewrite lv_unpack_pack_app by assumption. cbn [bind].
    rewrite slice_from_rv by (rewrite lv_pack_len; reflexivity).
    rewrite lv_unpack_pack by assumption. reflexivity.
Qed.

Lemma dir_response_msg s P N :
  In s [0; 1] -> len P <= 255 -> len N <= 255 -> len (dir_response_fields s P N) <= 250 ->
  directory_listing_response s P N
    = Ok (rmsg MT_DIRECTORY_LISTING_RESPONSE (dir_response_fields s P N)) /\
  get_dir_listing_response_params (rmsg MT_DIRECTORY_LISTING_RESPONSE (dir_response_fields s P N))
    = Ok (Some (s, P, N)).
Proof.
  intros Hs LP LN LF. unfold dir_response_fields in *. rewrite <- !lv_pack_layout in *.
  pose proof (len_nonneg P). pose proof (len_nonneg N).
  assert (S1 : one_byte (Z.shiftl s 7) = Ok [s * 128]) by (split_in; reflexivity).
  assert (S2 : Z.land (Z.shiftr (s * 128) 7) 1 = s) by (split_in; reflexivity).
  split.
  - unfold directory_listing_response. rewrite S1. cbn [bind].
    apply reserved_new_ok; [cbv; split; discriminate|exact LF].
  - unfold get_dir_listing_response_params. rewrite not_dir_kind_rmsg by reflexivity. cbn [bind].
    change (MT_DIRECTORY_LISTING_RESPONSE =? DM_LISTING_RESPONSE) with true. cbn [negb].
    unfold rmsg. cbn [tlv_value app]. rewrite rv_len, len_cons.
    pose proof (len_nonneg (lv_pack P ++ lv_pack N)).
    destruct (5 + (1 + len (lv_pack P ++ lv_pack N)) <? 6) eqn:E; [lia|].
    rewrite py_get_rv5. cbn [bind]. rewrite S2. rewrite slice_from_rv6.
    rewrite lv_unpack_pack_app by assumption. cbn [bind].
    change (rv MT_DIRECTORY_LISTING_RESPONSE (s * 128 :: lv_pack P ++ lv_pack N))
      with (rv MT_DIRECTORY_LISTING_RESPONSE ((s * 128 :: lv_pack P) ++ lv_pack N)).
    rewrite slice_from_rv by (rewrite len_cons, lv_pack_len; lia).
    rewrite lv_unpack_pack by assumption. reflexivity.
Qed.

(* ================= originating transaction ID ================= *)

Lemma width_nibbles sw qw : width_ok sw -> width_ok qw ->
  let b := (sw - 1) * 16 + (qw - 1) in
  one_byte (Z.lor (Z.shiftl (sw - 1) 4) (qw - 1)) = Ok [b] /\
  Z.land (Z.shiftr b 4) 7 + 1 = sw /\ Z.land b 7 + 1 = qw.
Proof.
  unfold width_ok. intros [-> | [-> | [-> | ->]]] [-> | [-> | [-> | ->]]]; repeat split; reflexivity.
Qed.

Lemma originating_get b S Q s q :
  Z.land (Z.shiftr b 4) 7 + 1 = len S -> Z.land b 7 + 1 = len Q ->
  ubf_from_bytes S = Ok s -> ubf_from_bytes Q = Ok q ->
  get_originating_transaction_id (rmsg 10 (b :: S ++ Q)) = Ok (Some (s, q)).
Proof.
  intros HS HQ US UQ. unfold get_originating_transaction_id.
  unfold is_originating_transaction_id. rewrite rmsg_type. cbn [bind].
  change (10 =? ORIGINATING_TRANSACTION_ID_MSG_TYPE_ID) with true. cbn [negb].
  unfold rmsg. cbn [tlv_value]. rewrite rv_len, len_cons, len_app.
  pose proof (len_nonneg S). pose proof (len_nonneg Q).
  destruct (5 + (1 + (len S + len Q)) <? 6) eqn:E1; [lia|].
  rewrite py_get_rv5. cbn [bind]. rewrite HS, HQ.
  destruct (5 + (1 + (len S + len Q)) <? 6 + len S + len Q) eqn:E2; [lia|].
  change (rv 10 (b :: S ++ Q)) with (rv 10 [b] ++ S ++ Q).
  rewrite (slice_mid (rv 10 [b]) S Q) by (rewrite ?rv_len; cbn; lia). rewrite US. cbn [bind].
  replace (rv 10 [b] ++ S ++ Q) with ((rv 10 [b] ++ S) ++ Q ++ []) by (rewrite app_nil_r, app_assoc; reflexivity).
  rewrite (slice_mid (rv 10 [b] ++ S) Q []) by (rewrite len_app, rv_len; cbn; lia).
  rewrite UQ. reflexivity.
Qed.

Lemma originating_msg sv sw qv qw :
  width_ok sw -> width_ok qw -> 0 <= sv < 256 ^ sw -> 0 <= qv < 256 ^ qw ->
  let f := originating_id_fields (Z.to_nat sw) sv (Z.to_nat qw) qv in
  originating_transaction_id (sv, sw) (qv, qw) = Ok (rmsg MT_ORIGINATING_TRANSACTION_ID f) /\
  get_originating_transaction_id (rmsg MT_ORIGINATING_TRANSACTION_ID f)
    = Ok (Some ((sv, sw), (qv, qw))).
Proof.
  intros Hs Hq Hsv Hqv f.
  assert (S0 : 0 <= sw <= 8) by (unfold width_ok in Hs; lia).
  assert (Q0 : 0 <= qw <= 8) by (unfold width_ok in Hq; lia).
  destruct (width_nibbles sw qw Hs Hq) as (B1 & B2 & B3).
  assert (Ef : f = ((sw - 1) * 16 + (qw - 1)) :: ubf_as_bytes (sv, sw) ++ ubf_as_bytes (qv, qw)).
  { unfold f, originating_id_fields, ubf_as_bytes. cbn [fst snd app]. rewrite !Z2Nat.id by lia. reflexivity. }
  split.
  - unfold originating_transaction_id. cbn [fst snd].
    assert (((sw =? 1) || (sw =? 2) || (sw =? 4) || (sw =? 8)) = true) as -> by (unfold width_ok in Hs; lia).
    assert (((qw =? 1) || (qw =? 2) || (qw =? 4) || (qw =? 8)) = true) as -> by (unfold width_ok in Hq; lia).
    cbn [negb orb]. rewrite B1. cbn [bind app]. rewrite <- Ef.
    apply reserved_new_ok; [cbv; split; discriminate|].
    rewrite Ef, len_cons, len_app, !ubf_bytes_len by lia. lia.
  - rewrite Ef. apply originating_get.
    + rewrite ubf_bytes_len by lia. exact B2.
    + rewrite ubf_bytes_len by lia. exact B3.
    + apply ubf_from_as_bytes; assumption.
    + apply ubf_from_as_bytes; assumption.
Qed.

(* ================= C10: the parsers raise only documented errors ================= *)

Lemma ubf_from_bytes_total raw : ok_or_documented (ubf_from_bytes raw).
Proof. unfold ubf_from_bytes. destruct (negb _); [reflexivity|exact I]. Qed.

Lemma py_get5_guarded mt f A (k : Z -> res A) :
  (forall b, ok_or_documented (k b)) ->
  ok_or_documented (if len (rv mt f) <? 6 then Err EValue else do v5 <- py_get (rv mt f) 5; k v5).
Proof.
  intros H. destruct (len (rv mt f) <? 6) eqn:E; [reflexivity|].
  destruct f as [|b f']; [rewrite rv_len in E; cbn in E; discriminate|].
  rewrite py_get_rv5. cbn [bind]. apply H.
Qed.

Lemma not_kind_cases mt f kind :
  (exists b, not_proxy_kind (rmsg mt f) kind = Ok b) /\ (exists b, not_dir_kind (rmsg mt f) kind = Ok b).
Proof.
  destruct (rmsg_classification mt f) as (A & B & _ & C & D).
  unfold not_proxy_kind, not_dir_kind. rewrite A, B, C, D. cbn [bind]. split.
  - destruct (memz mt proxy_types); cbn [negb]; eauto.
  - destruct (memz mt dir_types); cbn [negb]; eauto.
Qed.

Lemma parsers_total mt f :
  ok_or_documented (get_originating_transaction_id (rmsg mt f)) /\
  ok_or_documented (get_proxy_put_request_params (rmsg mt f)) /\
  ok_or_documented (get_proxy_put_response_params (rmsg mt f)) /\
  ok_or_documented (get_proxy_closure_requested (rmsg mt f)) /\
  ok_or_documented (get_proxy_transmission_mode (rmsg mt f)) /\
  ok_or_documented (get_dir_listing_request_params (rmsg mt f)) /\
  ok_or_documented (get_dir_listing_response_params (rmsg mt f)) /\
  ok_or_documented (get_dir_listing_options (rmsg mt f)).
Proof.
  repeat split.
  - unfold get_originating_transaction_id, is_originating_transaction_id. rewrite rmsg_type. cbn [bind].
    destruct (negb _); [exact I|]. unfold rmsg. cbn [tlv_value]. apply py_get5_guarded. intros b. cbv zeta.
    destruct (_ <? _); [reflexivity|].
    apply bind_documented; [apply ubf_from_bytes_total|]. intros s _.
    apply bind_documented; [apply ubf_from_bytes_total|]. intros q _. exact I.
  - unfold get_proxy_put_request_params.
    destruct (proj1 (not_kind_cases mt f PM_PUT_REQUEST)) as [b ->]. cbn [bind].
    destruct b; [exact I|]. cbv zeta.
    apply bind_documented; [apply lv_unpack_total|]. intros l1 _.
    destruct (_ >=? _); [exact I|].
    apply bind_documented; [apply lv_unpack_total|]. intros l2 _.
    destruct (_ >=? _); [exact I|].
    apply bind_documented; [apply lv_unpack_total|]. intros l3 _.
    apply bind_documented; [apply ubf_from_bytes_total|]. intros i _. exact I.
  - unfold get_proxy_put_response_params.
    destruct (proj1 (not_kind_cases mt f PM_PUT_RESPONSE)) as [b ->]. cbn [bind].
    destruct b; [exact I|]. cbv zeta. unfold rmsg. cbn [tlv_value]. apply py_get5_guarded. intros v5.
    unfold condition_code_of_int. destruct (memz _ condition_codes); cbn [bind]; [|reflexivity].
    unfold enum_upto. destruct (_ && _); cbn [bind]; [|reflexivity].
    destruct (_ && _); cbn [bind]; [exact I|reflexivity].
  - unfold get_proxy_closure_requested.
    destruct (proj1 (not_kind_cases mt f PM_CLOSURE_REQUEST)) as [b ->]. cbn [bind].
    destruct b; [exact I|]. unfold rmsg. cbn [tlv_value]. apply py_get5_guarded. intros v5. exact I.
  - unfold get_proxy_transmission_mode.
    destruct (proj1 (not_kind_cases mt f PM_TRANSMISSION_MODE)) as [b ->]. cbn [bind].
    destruct b; [exact I|]. unfold rmsg. cbn [tlv_value]. apply py_get5_guarded. intros v5.
    unfold enum_upto. destruct (_ && _); cbn [bind]; [exact I|reflexivity].
  - unfold get_dir_listing_request_params.
    destruct (proj2 (not_kind_cases mt f DM_LISTING_REQUEST)) as [b ->]. cbn [bind].
    destruct b; [exact I|]. cbv zeta.
    apply bind_documented; [apply lv_unpack_total|]. intros l1 _.
    apply bind_documented; [apply lv_unpack_total|]. intros l2 _. exact I.
  - unfold get_dir_listing_response_params.
    destruct (proj2 (not_kind_cases mt f DM_LISTING_RESPONSE)) as [b ->]. cbn [bind].
    destruct b; [exact I|]. cbv zeta. unfold rmsg. cbn [tlv_value]. apply py_get5_guarded. intros v5.
    apply bind_documented; [apply lv_unpack_total|]. intros l1 _.
    apply bind_documented; [apply lv_unpack_total|]. intros l2 _. exact I.
  - unfold get_dir_listing_options.
    destruct (proj2 (not_kind_cases mt f DM_CUSTOM_LISTING_PARAMETERS)) as [b ->]. cbn [bind].
    destruct b; [exact I|]. cbv zeta. unfold rmsg. cbn [tlv_value]. apply py_get5_guarded. intros v5. exact I.
Qed.

(* every reserved message obtained by decoding is an rmsg *)
Lemma decode_reserved_shape d r :
  decode_reserved d = Ok (Some r) -> exists mt f, r = rmsg mt f.
Proof.
  unfold decode_reserved. destruct (msg_unpack d) as [t|]; cbn [bind]; [|discriminate].
  unfold to_reserved_msg_tlv. destruct (is_reserved_bool t) as [b Hb]. rewrite Hb. cbn [bind].
  destruct b; cbn [negb]; [|discriminate].
  destruct (is_reserved_shape t Hb) as (mt & f & Ev). rewrite Ev.
  rewrite py_get_rv4. cbn [bind]. rewrite slice_from_rv5.
  unfold reserved_new. destruct (negb _); [discriminate|].
  unfold ba_append. destruct (is_byte mt); cbn [bind]; [|discriminate].
  change ((CFDP_MARKER ++ [mt]) ++ f) with (rv mt f).
  unfold tlv_new. destruct (_ >? 255); cbn [bind]; [discriminate|].
  intros H; inversion H. exists mt, f. reflexivity.
Qed.

(* ================= statements collected for Props/C18.v ================= *)

Definition classified (r : tlv) (mt : Z) (proxy dir orig : bool) : Prop :=
  get_reserved_cfdp_message_type r = Ok mt /\
  is_cfdp_proxy_operation r = Ok proxy /\ is_directory_operation r = Ok dir /\
  is_originating_transaction_id r = Ok orig /\
  get_cfdp_proxy_message_type r = Ok (if proxy then Some mt else None) /\
  get_directory_operation_type r = Ok (if dir then Some mt else None).

Lemma rmsg_classified mt f :
  classified (rmsg mt f) mt (memz mt proxy_types) (memz mt dir_types) (mt =? 10).
Proof.
  destruct (rmsg_classification mt f) as (A & B & C & D & E).
  unfold classified. rewrite A, B, C, D, E, rmsg_type. repeat split; reflexivity.
Qed.

(* pack = standard layout; decode (pack ++ anything) recognises the message again *)
Definition wire_ok (r : tlv) (mt : Z) (f : bytes) : Prop :=
  tlv_pack r = Ok (reserved_layout mt f) /\
  tlv_packet_len r = len (reserved_layout mt f) /\
  tlv_value r = reserved_value mt f /\
  forall rest, decode_reserved (reserved_layout mt f ++ rest) = Ok (Some r).

Lemma rmsg_wire_ok mt f : 0 <= mt <= 255 -> len f <= 250 -> wire_ok (rmsg mt f) mt f.
Proof.
  intros Hm Hl. destruct (rmsg_pack mt f Hm Hl) as [P L].
  unfold wire_ok. repeat split; try assumption. intros rest. apply decode_reserved_layout; assumption.
Qed.

Lemma C18_put_request_l v w S D :
  width_ok w -> 0 <= v < 256 ^ w -> len S <= 255 -> len D <= 255 ->
  len (put_request_fields (Z.to_nat w) v S D) <= 250 ->
  let f := put_request_fields (Z.to_nat w) v S D in
  exists r, proxy_put_request (v, w) S D = Ok r /\ wire_ok r MT_PROXY_PUT_REQUEST f /\
            get_proxy_put_request_params r = Ok (Some ((v, w), S, D)) /\
            classified r MT_PROXY_PUT_REQUEST true false false.
Proof.
  intros Hw Hv LS LD LF f. destruct (put_request_msg v w S D Hw Hv LS LD LF) as [B G].
  exists (rmsg MT_PROXY_PUT_REQUEST f). split; [exact B|]. split; [apply rmsg_wire_ok; [cbv; split; discriminate|exact LF]|].
  split; [exact G|]. apply (rmsg_classified MT_PROXY_PUT_REQUEST f).
Qed.

Lemma C18_cancel_l :
  exists r, proxy_cancel_request = Ok r /\ wire_ok r MT_PROXY_PUT_CANCEL [] /\
            classified r MT_PROXY_PUT_CANCEL true false false.
Proof.
  exists (rmsg MT_PROXY_PUT_CANCEL []). split; [reflexivity|].
  split; [apply rmsg_wire_ok; [cbv; split; discriminate|cbn; lia]|apply (rmsg_classified MT_PROXY_PUT_CANCEL [])].
Qed.

Lemma C18_closure_l b : In b [0; 1] ->
  exists r, proxy_closure_request b = Ok r /\ wire_ok r MT_PROXY_CLOSURE_REQUEST (closure_fields b) /\
            get_proxy_closure_requested r = Ok (Some b) /\
            classified r MT_PROXY_CLOSURE_REQUEST true false false.
Proof.
  intros H. destruct (closure_msg b H) as [B G]. eexists. split; [exact B|].
  split; [apply rmsg_wire_ok; [cbv; split; discriminate|cbn; lia]|].
  split; [exact G|apply (rmsg_classified MT_PROXY_CLOSURE_REQUEST)].
Qed.

Lemma C18_transmission_mode_l m : In m [0; 1] ->
  exists r, proxy_transmission_mode m = Ok r /\
            wire_ok r MT_PROXY_TRANSMISSION_MODE (transmission_mode_fields m) /\
            get_proxy_transmission_mode r = Ok (Some m) /\
            classified r MT_PROXY_TRANSMISSION_MODE true false false.
Proof.
  intros H. destruct (transmission_mode_msg m H) as [B G]. eexists. split; [exact B|].
  split; [apply rmsg_wire_ok; [cbv; split; discriminate|cbn; lia]|].
  split; [exact G|apply (rmsg_classified MT_PROXY_TRANSMISSION_MODE)].
Qed.

Lemma C18_put_response_l cc dc fs : In cc put_response_ccs -> In dc [0; 1] -> In fs [0; 1; 2; 3] ->
  exists r, proxy_put_response cc dc fs = Ok r /\
            wire_ok r MT_PROXY_PUT_RESPONSE (put_response_fields cc dc fs) /\
            get_proxy_put_response_params r = Ok (Some (cc, dc, fs)) /\
            classified r MT_PROXY_PUT_RESPONSE true false false.
Proof.
  intros H1 H2 H3. destruct (put_response_msg cc dc fs H1 H2 H3) as [B G]. eexists. split; [exact B|].
  split; [apply rmsg_wire_ok; [cbv; split; discriminate|cbn; lia]|].
  split; [exact G|apply (rmsg_classified MT_PROXY_PUT_RESPONSE)].
Qed.

Lemma C18_originating_l sv sw qv qw :
  width_ok sw -> width_ok qw -> 0 <= sv < 256 ^ sw -> 0 <= qv < 256 ^ qw ->
  let f := originating_id_fields (Z.to_nat sw) sv (Z.to_nat qw) qv in
  exists r, originating_transaction_id (sv, sw) (qv, qw) = Ok r /\
            wire_ok r MT_ORIGINATING_TRANSACTION_ID f /\
            get_originating_transaction_id r = Ok (Some ((sv, sw), (qv, qw))) /\
            classified r MT_ORIGINATING_TRANSACTION_ID false false true.
Proof.
  intros Hs Hq Hsv Hqv f. destruct (originating_msg sv sw qv qw Hs Hq Hsv Hqv) as [B G].
  exists (rmsg MT_ORIGINATING_TRANSACTION_ID f). split; [exact B|].
  split; [apply rmsg_wire_ok; [cbv; split; discriminate|]|].
  - unfold f, originating_id_fields. cbn [app]. rewrite len_cons, len_app. unfold len.
    rewrite !be_encode_length. unfold width_ok in *. lia.
  - split; [exact G|apply (rmsg_classified MT_ORIGINATING_TRANSACTION_ID)].
Qed.

Lemma C18_dir_request_l P N :
  len P <= 255 -> len N <= 255 -> len (dir_request_fields P N) <= 250 ->
  exists r, directory_listing_request P N = Ok r /\
            wire_ok r MT_DIRECTORY_LISTING_REQUEST (dir_request_fields P N) /\
            get_dir_listing_request_params r = Ok (Some (P, N)) /\
            classified r MT_DIRECTORY_LISTING_REQUEST false true false.
Proof.
  intros LP LN LF. destruct (dir_request_msg P N LP LN LF) as [B G]. eexists. split; [exact B|].
  split; [apply rmsg_wire_ok; [cbv; split; discriminate|exact LF]|].
  split; [exact G|apply (rmsg_classified MT_DIRECTORY_LISTING_REQUEST)].
Qed.

Lemma C18_dir_response_l s P N :
  In s [0; 1] -> len P <= 255 -> len N <= 255 -> len (dir_response_fields s P N) <= 250 ->
  exists r, directory_listing_response s P N = Ok r /\
            wire_ok r MT_DIRECTORY_LISTING_RESPONSE (dir_response_fields s P N) /\
            get_dir_listing_response_params r = Ok (Some (s, P, N)) /\
            classified r MT_DIRECTORY_LISTING_RESPONSE false true false.
Proof.
  intros Hs LP LN LF. destruct (dir_response_msg s P N Hs LP LN LF) as [B G]. eexists. split; [exact B|].
  split; [apply rmsg_wire_ok; [cbv; split; discriminate|exact LF]|].
  split; [exact G|apply (rmsg_classified MT_DIRECTORY_LISTING_RESPONSE)].
Qed.

Lemma C18_dir_options_l rc al : In rc [0; 1] -> In al [0; 1] ->
  exists r, directory_listing_parameters rc al = Ok r /\
            wire_ok r MT_CUSTOM_LISTING_PARAMETERS (dir_options_fields rc al) /\
            get_dir_listing_options r = Ok (Some (rc, al)) /\
            classified r MT_CUSTOM_LISTING_PARAMETERS false true false.
Proof.
  intros H1 H2. destruct (dir_options_msg rc al H1 H2) as [B G]. eexists. split; [exact B|].
  split; [apply rmsg_wire_ok; [cbv; split; discriminate|cbn; lia]|].
  split; [exact G|apply (rmsg_classified MT_CUSTOM_LISTING_PARAMETERS)].
Qed.

(* too long for a TLV: refused with ValueError *)
Lemma reserved_too_long mt f : 0 <= mt <= 255 -> 250 < len f -> reserved_new mt f = Err EValue.
Proof. exact (reserved_new_too_long mt f). Qed.

(* after decoding, every parser is total (documented errors only) and a parser of another
   kind answers None *)
Lemma decoded_parsers_total d r :
  decode_reserved d = Ok (Some r) ->
  ok_or_documented (get_originating_transaction_id r) /\
  ok_or_documented (get_proxy_put_request_params r) /\
  ok_or_documented (get_proxy_put_response_params r) /\
  ok_or_documented (get_proxy_closure_requested r) /\
  ok_or_documented (get_proxy_transmission_mode r) /\
  ok_or_documented (get_dir_listing_request_params r) /\
  ok_or_documented (get_dir_listing_response_params r) /\
  ok_or_documented (get_dir_listing_options r).
Proof. intros H. destruct (decode_reserved_shape d r H) as (mt & f & ->). apply parsers_total. Qed.

Lemma any_message_wire mt f : 0 <= mt <= 255 -> len f <= 250 ->
  reserved_new mt f = Ok (rmsg mt f) /\ wire_ok (rmsg mt f) mt f.
Proof. intros Hm Hl. exact (conj (reserved_new_ok mt f Hm Hl) (rmsg_wire_ok mt f Hm Hl)). Qed.

(* C09: what follows the message-to-user TLV does not matter *)
Lemma decode_reserved_suffix mt f s :
  0 <= mt <= 255 -> len f <= 250 ->
  decode_reserved (reserved_layout mt f ++ s) = decode_reserved (reserved_layout mt f).
Proof.
  intros Hm Hl. rewrite decode_reserved_layout by assumption.
  rewrite <- (app_nil_r (reserved_layout mt f)). rewrite decode_reserved_layout by assumption. reflexivity.
Qed.

(* C10: every strict prefix of a packed reserved message is refused with a documented error *)
Lemma decode_reserved_prefix_rejected mt f n :
  len f <= 250 -> (n < length (reserved_layout mt f))%nat ->
  exists e, decode_reserved (firstn n (reserved_layout mt f)) = Err e /\ documented e = true.
Proof.
  intros Hl Hn. unfold reserved_layout, msg_layout in *.
  destruct (wrap_prefix_rejected T_MESSAGE_TO_USER (reserved_value mt f) n) as (e & He & Hd);
    [change (reserved_value mt f) with (rv mt f); rewrite rv_len; lia | assumption |].
  exists e. unfold decode_reserved, msg_unpack. change TLV_MESSAGE_TO_USER with T_MESSAGE_TO_USER.
  rewrite He. split; [reflexivity|assumption].
Qed.
