(* C11, hardening round: invariants of the operations added to the directive-PDU histories
   (Run/DirHist.v): the header accessors every directive PDU inherits, plain attribute
   assignments, refused assignments and the recalculating setters applied to an object in ANY
   state (arbitrary flags, arbitrary stale data-field length).

   - frame lemmas: the inherited crc_flag / file_flag / mode / direction / seg_ctrl accessors
     never touch the cached data-field length (they are header accessors, by design);
   - resync lemmas: whatever was done to the object before, every documented setter that is
     accepted leaves the cached data-field length equal to the function of the object's CURRENT
     flags and values that the format prescribes; a refusal is a ValueError;
   - interpreter lemmas: a refused operation leaves the whole state unchanged; while the PDU
     holds the caller's list object both views agree (NAK segment requests). *)
From Coq Require Import ZArith List Bool Lia.
From SP Require Import Base.Result Base.Bytes Model.PduHeader Model.FileDirective Model.Lv Model.Tlv
  Model.Eof Model.KeepAlive Model.Finished Model.Metadata Model.Nak Run.Marshal Run.DirHist.
Import ListNotations.
Open Scope Z_scope.

(* ================= frame: header accessors ================= *)
Lemma fdir_set_crc_flag_frame f v :
  h_dlen (fd_hdr (fdir_set_crc_flag f v)) = h_dlen (fd_hdr f) /\
  fdir_header_len (fdir_set_crc_flag f v) = fdir_header_len f /\
  fdir_packet_len (fdir_set_crc_flag f v) = fdir_packet_len f /\
  cf_crc (fdir_conf (fdir_set_crc_flag f v)) = v /\
  cf_large (fdir_conf (fdir_set_crc_flag f v)) = cf_large (fdir_conf f).
Proof. repeat split. Qed.

Lemma fdir_set_file_flag_frame f v :
  h_dlen (fd_hdr (fdir_set_file_flag f v)) = h_dlen (fd_hdr f) /\
  fdir_header_len (fdir_set_file_flag f v) = fdir_header_len f /\
  fdir_packet_len (fdir_set_file_flag f v) = fdir_packet_len f /\
  cf_large (fdir_conf (fdir_set_file_flag f v)) = v /\
  cf_crc (fdir_conf (fdir_set_file_flag f v)) = cf_crc (fdir_conf f).
Proof. repeat split. Qed.

Lemma fdir_set_mode_dir_segctrl_frame f v :
  fdir_packet_len (fdir_set_mode f v) = fdir_packet_len f /\
  fdir_packet_len (fdir_set_dir f v) = fdir_packet_len f /\
  fdir_packet_len (fdir_set_segctrl f v) = fdir_packet_len f /\
  fdir_packet_len (fdir_set_meta f v) = fdir_packet_len f /\
  fdir_packet_len (fdir_set_type f v) = fdir_packet_len f.
Proof. repeat split. Qed.

(* pdu_data_field_len setter: accepted up to 65535, refused (ValueError, nothing assigned) above *)
Lemma fdir_set_dlen_spec f v :
  fdir_set_dlen f v =
  if v <=? 65535 then Ok (fdir_with_hdr f {| h_type := h_type (fd_hdr f); h_meta := h_meta (fd_hdr f);
                                            h_dlen := v; h_conf := h_conf (fd_hdr f) |})
  else Err EValue.
Proof.
  unfold fdir_set_dlen, hdr_set_dlen. change (2 ^ 16 - 1) with 65535.
  destruct (v >? 65535) eqn:G, (v <=? 65535) eqn:L; try reflexivity; lia.
Qed.

(* ================= resync: EOF ================= *)
Definition eof_dlen_of (p : EofPdu) : Z :=
  let c := h_conf (fd_hdr (eof_fd p)) in
  1 + (if cf_large c =? 1 then 13 else 9)
    + (match eof_fault p with Some t => tlv_packet_len t | None => 0 end)
    + (if cf_crc c =? 1 then 2 else 0).

Lemma set_param_len_ok f n f' : fdir_set_param_len f n = Ok f' ->
  h_dlen (fd_hdr f') = n + 1 /\ h_conf (fd_hdr f') = h_conf (fd_hdr f) /\ n + 1 <= 65535 /\
  fd_type f' = fd_type f.
Proof.
  unfold fdir_set_param_len, hdr_set_dlen. change (2 ^ 16 - 1) with 65535.
  destruct (n + 1 >? 65535) eqn:G; cbn [bind]; [discriminate|].
  intros H. injection H as <-. cbn. repeat split; lia.
Qed.

Lemma set_param_len_err f n e : fdir_set_param_len f n = Err e -> e = EValue /\ 65535 < n + 1.
Proof.
  unfold fdir_set_param_len, hdr_set_dlen. change (2 ^ 16 - 1) with 65535.
  destruct (n + 1 >? 65535) eqn:G; cbn [bind]; [|discriminate].
  intros H. injection H as <-. split; [reflexivity|lia].
Qed.

Theorem eof_set_fault_resync p o p' : eof_set_fault p o = Ok p' ->
  h_dlen (fd_hdr (eof_fd p')) = eof_dlen_of p' /\ eof_fault p' = o /\
  h_conf (fd_hdr (eof_fd p')) = h_conf (fd_hdr (eof_fd p)) /\
  eof_cc p' = eof_cc p /\ eof_checksum p' = eof_checksum p /\ eof_size p' = eof_size p.
Proof.
  unfold eof_set_fault, eof_calc_len, hdr_large_file, FILE_LARGE, CRC_WITH_CRC. cbv zeta.
  cbn [eof_with_fault eof_fd eof_fault].
  match goal with |- (do f <- fdir_set_param_len ?f0 ?n; _) = _ -> _ =>
    destruct (fdir_set_param_len f0 n) as [f|e] eqn:S end; cbn [bind]; [|discriminate].
  intros H. injection H as <-. destruct (set_param_len_ok _ _ _ S) as (D & C & _ & _).
  unfold eof_dlen_of. cbn [eof_with_fd eof_with_fault eof_fd eof_fault eof_cc eof_checksum eof_size]. rewrite D, C.
  repeat split.
  destruct (cf_large (h_conf (fd_hdr (eof_fd p))) =? 1), o,
    (cf_crc (h_conf (fd_hdr (eof_fd p))) =? 1); lia.
Qed.

(* ================= resync: Keep Alive ================= *)
Theorem ka_set_file_flag_resync p fl p' : ka_set_file_flag p fl = Ok p' ->
  cf_large (h_conf (fd_hdr (ka_fd p'))) = fl /\
  h_dlen (fd_hdr (ka_fd p')) =
    1 + (if fl =? 1 then 8 else 4) + (if cf_crc (h_conf (fd_hdr (ka_fd p))) =? 1 then 2 else 0) /\
  cf_crc (h_conf (fd_hdr (ka_fd p'))) = cf_crc (h_conf (fd_hdr (ka_fd p))) /\
  ka_progress p' = ka_progress p.
Proof.
  unfold ka_set_file_flag, FILE_LARGE, CRC_WITH_CRC. cbv zeta.
  match goal with |- (do f <- fdir_set_param_len ?f0 ?n; _) = _ -> _ =>
    destruct (fdir_set_param_len f0 n) as [f|e] eqn:S end; cbn [bind]; [|discriminate].
  intros H. injection H as <-. destruct (set_param_len_ok _ _ _ S) as (D & C & _ & _).
  cbn [ka_fd ka_progress]. rewrite D, C. cbn.
  repeat split.
  destruct (fl =? 1), (cf_crc (h_conf (fd_hdr (ka_fd p))) =? 1); lia.
Qed.

(* ================= resync: NAK ================= *)
Definition nak_dlen_of (p : NakPdu) : Z :=
  let c := nk_conf p in
  1 + (if cf_large c =? 1 then 16 + nseg p * 16 else 8 + nseg p * 8) + (if cf_crc c =? 1 then 2 else 0).

Lemma nak_calc_len_resync p p' : nak_calc_len p = Ok p' ->
  h_dlen (nk_hdr p') = nak_dlen_of p' /\ nk_segs p' = nk_segs p /\ nk_conf p' = nk_conf p /\
  nk_start p' = nk_start p /\ nk_end p' = nk_end p /\
  (cf_large (nk_conf p) = 0 \/ cf_large (nk_conf p) = 1).
Proof.
  unfold nak_calc_len, FILE_NORMAL, FILE_LARGE, CRC_WITH_CRC. cbv zeta.
  destruct (cf_large (nk_conf p) =? 0) eqn:L0; [|destruct (cf_large (nk_conf p) =? 1) eqn:L1];
    cbn [bind]; try discriminate.
  all: match goal with |- (do f <- fdir_set_param_len ?f0 ?n; _) = _ -> _ =>
         destruct (fdir_set_param_len f0 n) as [f|e] eqn:S end; cbn [bind]; [|discriminate].
  all: intros H; injection H as <-; destruct (set_param_len_ok _ _ _ S) as (D & C & _ & _).
  all: unfold nak_dlen_of, nk_conf, nk_hdr, nseg in *; cbn [nak_with_fd nk_fd nk_segs nk_start nk_end].
  all: rewrite D, C.
  - assert (E : cf_large (h_conf (fd_hdr (nk_fd p))) = 0) by lia. rewrite E. cbn [Z.eqb].
    repeat split; try (left; reflexivity).
    destruct (cf_crc (h_conf (fd_hdr (nk_fd p))) =? 1); lia.
  - assert (E : cf_large (h_conf (fd_hdr (nk_fd p))) = 1) by lia. rewrite E. cbn [Z.eqb Pos.eqb].
    repeat split; try (right; reflexivity).
    destruct (cf_crc (h_conf (fd_hdr (nk_fd p))) =? 1); lia.
Qed.

Theorem nak_set_segs_resync p l p' : nak_set_segs p l = Ok p' ->
  h_dlen (nk_hdr p') = nak_dlen_of p' /\ nk_segs p' = l /\ nk_conf p' = nk_conf p.
Proof.
  unfold nak_set_segs. intros H. destruct (nak_calc_len_resync _ _ H) as (D & S & C & _).
  repeat split; [exact D|exact S|exact C].
Qed.

Theorem nak_set_file_flag_resync p v p' : nak_set_file_flag p v = Ok p' ->
  h_dlen (nk_hdr p') = nak_dlen_of p' /\ nk_segs p' = nk_segs p /\ cf_large (nk_conf p') = v /\
  (v = 0 \/ v = 1).
Proof.
  unfold nak_set_file_flag. intros H. destruct (nak_calc_len_resync _ _ H) as (D & S & C & _ & _ & F).
  repeat split; [exact D|exact S|rewrite C; reflexivity|exact F].
Qed.

(* a refused NAK setter call is a ValueError (too many requests for the 16-bit length field, or a
   file flag that is not a member) *)
Theorem nak_calc_len_refusal p e : nak_calc_len p = Err e -> e = EValue.
Proof.
  unfold nak_calc_len, FILE_NORMAL, FILE_LARGE. cbv zeta.
  destruct (cf_large (nk_conf p) =? 0); [|destruct (cf_large (nk_conf p) =? 1)]; cbn [bind].
  3: intros H; injection H as <-; reflexivity.
  all: match goal with |- (do f <- fdir_set_param_len ?f0 ?n; _) = _ -> _ =>
         destruct (fdir_set_param_len f0 n) as [f|e0] eqn:S end; cbn [bind]; [discriminate|].
  all: intros H; injection H as <-; apply (set_param_len_err _ _ _ S).
Qed.

(* ================= resync: Metadata ================= *)
Definition md_dlen_of (p : MetadataPdu) : Z :=
  let c := h_conf (fd_hdr (md_fdir p)) in
  1 + 5 + lv_packet_len (md_src_lv p) + lv_packet_len (md_dst_lv p)
    + (if cf_large c =? 1 then 4 else 0)
    + (match md_options p with Some l => opts_len l | None => 0 end)
    + (if cf_crc c =? 1 then 2 else 0).

Lemma md_calc_len_resync p p' : md_calc_len p = Ok p' ->
  h_dlen (fd_hdr (md_fdir p')) = md_dlen_of p' /\ md_options p' = md_options p /\
  md_src_lv p' = md_src_lv p /\ md_dst_lv p' = md_dst_lv p /\ md_params p' = md_params p /\
  h_conf (fd_hdr (md_fdir p')) = h_conf (fd_hdr (md_fdir p)).
Proof.
  unfold md_calc_len, hdr_large_file, FILE_LARGE, CRC_WITH_CRC. cbv zeta.
  match goal with |- (do f <- fdir_set_param_len ?f0 ?n; _) = _ -> _ =>
    destruct (fdir_set_param_len f0 n) as [f|e] eqn:S end; cbn [bind]; [|discriminate].
  intros H. injection H as <-. destruct (set_param_len_ok _ _ _ S) as (D & C & _ & _).
  unfold md_dlen_of. cbn [md_with_fdir md_fdir md_options md_src_lv md_dst_lv md_params]. rewrite D, C.
  repeat split.
  destruct (cf_large (h_conf (fd_hdr (md_fdir p))) =? 1), (md_options p),
    (cf_crc (h_conf (fd_hdr (md_fdir p))) =? 1); lia.
Qed.

Theorem md_set_options_resync p o p' : md_set_options p o = Ok p' ->
  h_dlen (fd_hdr (md_fdir p')) = md_dlen_of p' /\ md_options p' = o.
Proof.
  unfold md_set_options. intros H. destruct (md_calc_len_resync _ _ H) as (D & O & _). split; [exact D|exact O].
Qed.

Theorem md_set_names_resync p o p' : md_set_src p o = Ok p' \/ md_set_dst p o = Ok p' ->
  h_dlen (fd_hdr (md_fdir p')) = md_dlen_of p' /\ md_options p' = md_options p.
Proof.
  unfold md_set_src, md_set_dst. intros [H | H].
  all: destruct (name_lv o) as [s|e]; cbn [bind] in H; [|discriminate H].
  all: destruct (md_calc_len_resync _ _ H) as (D & O & _); split; [exact D|exact O].
Qed.

(* ================= resync: Finished ================= *)
Definition fin_dlen_of (p : FinishedPdu) : Z :=
  let q := fin_params p in
  1 + 1 + (if cf_crc (h_conf (fd_hdr (fin_fdir p))) =? 1 then 2 else 0)
    + (match fn_fault q with
       | Some t => if fin_might_have_fault q then tlv_packet_len t else 0
       | None => 0 end)
    + resps_len (fn_resps q).

Lemma fin_calc_len_resync p p' : fin_calc_len p = Ok p' ->
  h_dlen (fd_hdr (fin_fdir p')) = fin_dlen_of p' /\ fin_params p' = fin_params p /\
  h_conf (fd_hdr (fin_fdir p')) = h_conf (fd_hdr (fin_fdir p)).
Proof.
  unfold fin_calc_len, fin_fault_len, CRC_WITH_CRC. cbv zeta.
  match goal with |- (do f <- fdir_set_param_len ?f0 ?n; _) = _ -> _ =>
    destruct (fdir_set_param_len f0 n) as [f|e] eqn:S end; cbn [bind]; [|discriminate].
  intros H. injection H as <-. destruct (set_param_len_ok _ _ _ S) as (D & C & _ & _).
  unfold fin_dlen_of. cbn [fin_fdir fin_params]. rewrite D, C.
  repeat split.
  destruct (fn_fault (fin_params p)), (fin_might_have_fault (fin_params p)),
    (cf_crc (h_conf (fd_hdr (fin_fdir p))) =? 1); cbn [orb negb]; lia.
Qed.

Theorem fin_setters_resync p p' :
  (exists o, fin_set_fault p o = Ok p') \/ (exists o, fin_set_resps p o = Ok p') \/
  (exists cc, fin_set_cc p cc = Ok p') ->
  h_dlen (fd_hdr (fin_fdir p')) = fin_dlen_of p'.
Proof.
  unfold fin_set_fault, fin_set_resps, fin_set_cc.
  intros [(o & H) | [(o & H) | (cc & H)]]; apply (fin_calc_len_resync _ _ H).
Qed.

(* the constructor for a parameter object whose file_store_responses is None (repaired
   FinishedPdu.__init__): the length is calculated, whatever the fault location *)
Theorem fin_new_none_len c q p c' q' : fin_new_none c q = Ok (p, c', q') ->
  h_dlen (fd_hdr (fin_fdir p)) = fin_dlen_of p /\ c' = c.
Proof.
  unfold fin_new_none. destruct (fdir_new _ _ _) as [f|e]; cbn [bind]; [|discriminate].
  match goal with |- (do _ <- ?x; _) = _ -> _ => destruct x as [px|e] end; cbn [bind]; [|discriminate].
  destruct (fin_calc_len px) as [p1|e] eqn:E; cbn [bind]; [|discriminate].
  intros H. inversion H; subst. split; [apply (fin_calc_len_resync _ _ E)|reflexivity].
Qed.

(* ================= the history interpreter ================= *)
(* a refused operation leaves the whole state (object, caller's configuration, caller's list,
   aliasing) unchanged *)
Lemma upd_refused s r s' l : upd s r = (s', 1 :: l) -> s' = s.
Proof. destruct r as [x|e]; cbn [upd]; intros H; injection H; [discriminate|intros _ <-; reflexivity]. Qed.

(* observations do not change the state *)
Lemma gen_step_observe s r : fst (gen_step s 120 r) = s /\ fst (gen_step s 121 r) = s.
Proof. split; reflexivity. Qed.

(* the caller changing its own PduConfig never changes the object (the PDU holds a copy) *)
Lemma gen_step_caller_conf s r : hs_p (fst (gen_step s 130 r)) = hs_p s.
Proof. reflexivity. Qed.

(* NAK: while the PDU holds the caller's list object, both views are the same list *)
Definition nak_alias_inv (s : hst) : Prop :=
  match hs_p s with
  | KNak p => hs_alias s = true -> nk_segs p = hs_segs s
  | _ => True
  end.

Lemma nak_set_segs_segs p l p' : nak_set_segs p l = Ok p' -> nk_segs p' = l.
Proof. intros H. apply (nak_set_segs_resync _ _ _ H). Qed.

Theorem nak_step_alias_inv s p code r :
  hs_p s = KNak p -> nak_alias_inv s -> nak_alias_inv (fst (nak_step s p code r)).
Proof.
  intros HP I. unfold nak_alias_inv in I. rewrite HP in I.
  assert (KEEP : nak_alias_inv s) by (unfold nak_alias_inv; rewrite HP; exact I).
  assert (SET : forall l b, (b = true -> l = hs_segs s) ->
            nak_alias_inv (fst (upd s (do p' <- nak_set_segs p l; Ok (st_alias (st_p s (KNak p')) b))))).
  { intros l b Hb. destruct (nak_set_segs p l) as [p'|e] eqn:E; cbn [bind upd fst]; [|exact KEEP].
    unfold nak_alias_inv. cbn [hs_p hs_alias hs_segs st_p st_alias].
    intros B. rewrite (nak_set_segs_segs _ _ _ E). apply Hb. exact B. }
  assert (INPLACE : forall l,
            nak_alias_inv (fst (acc (if hs_alias s then st_p (st_segs s l) (KNak (nak_with_segs p l))
                                     else st_segs s l)))).
  { intros l. unfold acc. cbn [fst]. destruct (hs_alias s) eqn:A; unfold nak_alias_inv;
      cbn [hs_p hs_alias hs_segs st_p st_segs nak_with_segs nk_segs].
    - intros _. reflexivity.
    - rewrite HP, A. intros B. discriminate B. }
  unfold nak_step.
  repeat match goal with |- context [if ?c =? ?k then _ else _] => destruct (c =? k) end.
  - apply SET. intros B. discriminate B.
  - apply SET. intros B. discriminate B.
  - apply SET. intros _. reflexivity.
  - apply INPLACE.
  - apply INPLACE.
  - apply INPLACE.
  - unfold acc. cbn [fst]. unfold nak_alias_inv. cbn [hs_p hs_alias hs_segs st_alias st_segs].
    rewrite HP. intros _. reflexivity.
  - unfold acc. cbn [fst]. unfold nak_alias_inv. cbn [hs_p hs_alias hs_segs st_p nak_set_start nk_segs]. exact I.
  - unfold acc. cbn [fst]. unfold nak_alias_inv. cbn [hs_p hs_alias hs_segs st_p nak_set_end nk_segs]. exact I.
  - cbn [fst]. exact KEEP.
  - cbn [fst]. exact KEEP.
Qed.

(* the operations every directive PDU has never touch the segment requests *)
Lemma gen_step_alias_inv s p code r :
  hs_p s = KNak p -> nak_alias_inv s -> nak_alias_inv (fst (gen_step s code r)).
Proof.
  intros HP I. unfold nak_alias_inv in I. rewrite HP in I.
  assert (KEEP : nak_alias_inv s) by (unfold nak_alias_inv; rewrite HP; exact I).
  assert (FD : forall f', nak_alias_inv (st_p s (k_with_fd (KNak p) f'))).
  { intros f'. unfold nak_alias_inv. cbn [hs_p hs_alias hs_segs st_p k_with_fd nak_with_fd nk_segs]. exact I. }
  assert (CC : forall c, nak_alias_inv (st_cc s c)).
  { intros c. unfold nak_alias_inv. cbn [hs_p hs_alias hs_segs st_cc]. rewrite HP. exact I. }
  unfold gen_step. rewrite HP. cbv zeta.
  repeat match goal with |- context [if ?c =? ?k then _ else _] => destruct (c =? k) end.
  all: unfold acc; cbn [fst]; try apply FD; try apply CC; try exact KEEP.
  all: match goal with |- nak_alias_inv (fst (upd _ ?x)) => destruct x as [s'|e] eqn:E end;
       cbn [upd fst]; [|exact KEEP].
  all: repeat (apply bind_ok in E; destruct E as (? & ? & E)).
  all: injection E as <-; try apply FD; try apply CC.
  (* NakPdu.file_flag setter *)
  unfold nak_alias_inv. cbn [hs_p hs_alias hs_segs st_p].
  match goal with H : nak_set_file_flag p _ = Ok _ |- _ =>
    destruct (nak_set_file_flag_resync _ _ _ H) as (_ & S & _) end.
  rewrite S. exact I.
Qed.

(* every operation, and hence every history, keeps the two views of an aliased list equal *)
Theorem nak_history_alias_inv ops : forall s p,
  hs_p s = KNak p -> nak_alias_inv s ->
  nak_alias_inv (fst (run_ops s ops)) /\ exists p', hs_p (fst (run_ops s ops)) = KNak p'.
Proof.
  assert (KIND : forall s p o, hs_p s = KNak p -> exists p', hs_p (fst (step s o)) = KNak p').
  { intros s p o HP. unfold step. destruct o as [|code r]; [exists p; exact HP|].
    destruct (code =? 122); [exists p; exact HP|].
    destruct (code >=? 100).
    - unfold gen_step. rewrite HP. cbv zeta.
      repeat match goal with |- context [if ?c =? ?k then _ else _] => destruct (c =? k) end.
      all: unfold acc; cbn [fst hs_p st_p st_cc k_with_fd]; try (eexists; reflexivity); try (exists p; exact HP).
      all: match goal with |- exists _, hs_p (fst (upd _ ?x)) = _ => destruct x as [s'|e] eqn:E end;
           cbn [upd fst]; [|exists p; exact HP].
      all: repeat (apply bind_ok in E; destruct E as (? & ? & E)).
      all: injection E as <-; cbn [hs_p st_p st_cc k_with_fd]; try (eexists; reflexivity); exists p; exact HP.
    - rewrite HP. unfold nak_step.
      repeat match goal with |- context [if ?c =? ?k then _ else _] => destruct (c =? k) end.
      all: unfold acc; cbn [fst hs_p st_p st_alias st_segs]; try (eexists; reflexivity); try (exists p; exact HP).
      all: try (match goal with |- exists _, hs_p (fst (upd _ ?x)) = _ => destruct x as [s'|e] eqn:E end;
                cbn [upd fst]; [|exists p; exact HP];
                repeat (apply bind_ok in E; destruct E as (? & ? & E));
                injection E as <-; cbn [hs_p st_p st_alias]; eexists; reflexivity).
      all: destruct (hs_alias s); cbn [hs_p st_p st_segs]; try (eexists; reflexivity); exists p; exact HP. }
  induction ops as [|o rest IH]; intros s p HP I; cbn [run_ops].
  - cbn [fst]. split; [exact I|exists p; exact HP].
  - destruct (step s o) as [s1 e] eqn:S1.
    destruct (run_ops s1 rest) as [s2 l] eqn:S2. cbn [fst].
    assert (I1 : nak_alias_inv s1 /\ exists p1, hs_p s1 = KNak p1).
    { replace s1 with (fst (step s o)) by (rewrite S1; reflexivity). split.
      - unfold step. destruct o as [|code r]; [exact I|].
        destruct (code =? 122); [exact I|].
        destruct (code >=? 100); [apply (gen_step_alias_inv s p); assumption|].
        rewrite HP. apply nak_step_alias_inv; assumption.
      - apply (KIND s p o HP). }
    destruct I1 as (I1 & p1 & HP1).
    specialize (IH s1 p1 HP1 I1). rewrite S2 in IH. exact IH.
Qed.
