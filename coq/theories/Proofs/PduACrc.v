(* C04 for EOF / ACK / Prompt / Keep Alive: corollaries of Proofs/DirectiveCrc.v. *)
From Coq Require Import ZArith List Bool Lia.
From SP Require Import Base.Result Base.Bytes Base.Crc16 Base.Crc16Burst Model.PduHeader Spec.PduHeaderSpec
  Model.FileDirective Spec.PduASpec Proofs.DirectiveProofs Proofs.DirectiveCrc
  Model.Eof Model.Ack Model.Prompt Model.KeepAlive
  Proofs.EofProofs Proofs.AckProofs Proofs.PromptProofs Proofs.KeepAliveProofs.
Import ListNotations.
Open Scope Z_scope.

Theorem eof_corrupt_rejected c q e : eof_wf c q -> cf_crc c = 1 ->
  burst16 e -> length e = length (eof_layout c q) -> length_fields_untouched e ->
  exists x, eof_unpack (xor_bytes (eof_layout c q) e) = Err x /\ documented x = true.
Proof.
  intros V C B L U. rewrite eof_unpack_eq.
  apply with_prelude_corrupt_rejected; try assumption; [apply eof_ok; exact V|apply eof_body_total].
Qed.

Theorem ack_corrupt_rejected c q e : ack_valid c q -> cf_crc c = 1 ->
  burst16 e -> length e = length (ack_layout c q) -> length_fields_untouched e ->
  exists x, ack_unpack (xor_bytes (ack_layout c q) e) = Err x /\ documented x = true.
Proof.
  intros V C B L U. rewrite ack_unpack_eq.
  apply with_prelude_corrupt_rejected; try assumption; [apply ack_ok; exact V|apply ack_body_total].
Qed.

Theorem prompt_corrupt_rejected c rr e : prompt_valid c rr -> cf_crc c = 1 ->
  burst16 e -> length e = length (prompt_layout c rr) -> length_fields_untouched e ->
  exists x, prompt_unpack (xor_bytes (prompt_layout c rr) e) = Err x /\ documented x = true.
Proof.
  intros V C B L U. rewrite prompt_unpack_eq.
  apply with_prelude_corrupt_rejected; try assumption; [apply prompt_ok; exact V|apply prompt_body_total].
Qed.

Theorem ka_corrupt_rejected c v e : conf_valid c -> cf_crc c = 1 ->
  burst16 e -> length e = length (ka_layout c v) -> length_fields_untouched e ->
  exists x, ka_unpack (xor_bytes (ka_layout c v) e) = Err x /\ documented x = true.
Proof.
  intros V C B L U. rewrite ka_unpack_eq.
  apply with_prelude_corrupt_rejected; try assumption; [apply ka_ok; exact V|apply ka_body_total].
Qed.

(* non-vacuity: a single flipped bit in the directive code octet of the Prompt example *)
Example prompt_corrupt_example :
  let e := repeat 0 9 ++ [2 ^ 3] ++ repeat 0 3 in
  burst16 e /\ length e = length (prompt_layout prompt_example_conf 1) /\ length_fields_untouched e /\
  prompt_unpack (xor_bytes (prompt_layout prompt_example_conf 1) e) = Err ECrc.
Proof.
  cbv zeta. split; [apply single_bit_burst; lia|]. split; [reflexivity|]. split.
  - exists 0, (repeat 0 5 ++ [2 ^ 3] ++ repeat 0 3). split; reflexivity.
  - vm_compute. reflexivity.
Qed.

(* ================= C11: constructing a PDU never modifies the caller's PduConfig =================
   (all four constructors work on copy.copy(pdu_conf); the model returns the caller's object as
   second component) -- for EVERY argument tuple the constructor accepts, valid or not *)
Ltac step_bind := match goal with |- bind ?x _ = _ -> _ => destruct x; cbn [bind]; [|discriminate] end.

Theorem eof_new_conf c cs sz fl cc p c' : eof_new c cs sz fl cc = Ok (p, c') -> c' = c.
Proof.
  unfold eof_new. destruct (negb (len cs =? 4)); [discriminate|]. do 2 step_bind.
  intros H. injection H as _ <-. reflexivity.
Qed.
Theorem ack_new_conf c code cc st p c' : ack_new c code cc st = Ok (p, c') -> c' = c.
Proof.
  unfold ack_new. destruct (negb ((code =? DT_FINISHED) || (code =? DT_EOF))); [discriminate|].
  destruct (code =? DT_FINISHED); do 2 step_bind; intros H; injection H as _ <-; reflexivity.
Qed.
Theorem prompt_new_conf c rr p c' : prompt_new c rr = Ok (p, c') -> c' = c.
Proof.
  unfold prompt_new. do 2 step_bind. intros H. injection H as _ <-. reflexivity.
Qed.
Theorem ka_new_conf c v p c' : ka_new c v = Ok (p, c') -> c' = c.
Proof.
  unfold ka_new. cbv zeta. step_bind. intros H. injection H as _ <-. reflexivity.
Qed.
