(* Prompt PDU (Model/Prompt.v) against Spec/PduASpec.v. *)
From Coq Require Import ZArith List Bool Lia ZifyBool.
From SP Require Import Base.Result Base.Bytes Base.BytesFacts Base.Crc16 Base.Crc16Facts
  Model.PduHeader Spec.PduHeaderSpec Proofs.PduHeaderProofs Model.FileDirective
  Proofs.FileDirectiveProofs Spec.PduASpec Proofs.DirectiveProofs Model.Prompt.
Import ListNotations.
Open Scope Z_scope.
Ltac Zify.zify_post_hook ::= Z.to_euclidean_division_equations.

(* the object the constructor builds *)
Definition prompt_pdu_of (c : PduConfig) (rr : Z) : PromptPdu :=
  {| pr_fd := directive_fdir c 0 9 (prompt_params_layout rr); pr_rr := rr |}.

Lemma prompt_ok c rr : prompt_valid c rr -> directive_ok c 0 9 (prompt_params_layout rr).
Proof.
  intros (C & R). unfold directive_ok, prompt_params_layout. split; [exact C|]. split; [left; reflexivity|].
  split; [lia|]. split.
  - constructor; [lia|constructor].
  - change (len [rr * 128]) with 1. destruct (crc_octets_cases c (conf_crc_flag c C)) as [[_ E] | [_ E]]; lia.
Qed.

Theorem prompt_new_ok c rr : prompt_valid c rr -> prompt_new c rr = Ok (prompt_pdu_of c rr, c).
Proof.
  intros V. pose proof V as (C & R). unfold prompt_new, DIR_TOWARDS_RECEIVER, DT_PROMPT, CRC_WITH_CRC.
  rewrite fdir_new_ok; [|lia|cbn [conf_set_dir cf_src cf_dst]; apply conf_widths_eq; exact C].
  cbn [bind conf_set_dir cf_crc]. unfold prompt_pdu_of, directive_fdir, prompt_params_layout.
  change (len [rr * 128]) with 1.
  destruct (crc_octets_cases c (conf_crc_flag c C)) as [[E0 E1] | [E0 E1]]; rewrite E0, E1; cbn [Z.eqb Pos.eqb].
  - reflexivity.
  - rewrite fdir_set_param_len_of by lia. reflexivity.
Qed.

Theorem prompt_pack_layout c rr : prompt_valid c rr ->
  prompt_pack (prompt_pdu_of c rr) = Ok (prompt_layout c rr).
Proof.
  intros V. pose proof (prompt_ok c rr V) as O. pose proof V as (C & R).
  unfold prompt_pack, prompt_pdu_of. cbn [pr_fd pr_rr].
  rewrite fdir_pack_layout by (apply directive_fdir_valid; exact O). cbn [bind].
  rewrite shiftl_mul by lia. change (2 ^ 7) with 128.
  rewrite ba_append_ok by lia. cbn [bind].
  change [rr * 128] with (prompt_params_layout rr). rewrite <- directive_pre_eq.
  exact (pack_trailer c 0 9 (prompt_params_layout rr) O).
Qed.

(* data-field length = octets after the header; packet_len = number of packed octets *)
Theorem prompt_data_field_len c rr : prompt_valid c rr ->
  let p := prompt_pdu_of c rr in
  h_dlen (fd_hdr (pr_fd p)) = len (prompt_layout c rr) - hdr_header_len (fd_hdr (pr_fd p)) /\
  prompt_packet_len p = len (prompt_layout c rr) /\
  h_dlen (fd_hdr (pr_fd p)) = 2 + crc_octets c.
Proof.
  intros V. cbv zeta. destruct (directive_layout_len c 0 9 _ (prompt_ok c rr V)) as (L1 & _ & L3).
  unfold prompt_layout, prompt_packet_len, fdir_packet_len, prompt_pdu_of. cbn [pr_fd].
  split; [exact L3|]. split; [symmetry; exact L1|].
  unfold directive_fdir, fdir_of, prompt_params_layout. cbn [fd_hdr h_dlen]. change (len [rr * 128]) with 1. lia.
Qed.

(* ================= decoder ================= *)

Definition prompt_body (f : fdir) (data : bytes) : res PromptPdu :=
  let current_idx := fdir_header_len f in
  if current_idx >=? len data then Err ETooShort else
  do b <- py_get data current_idx;
  do rr <- response_required_of (Z.shiftr (Z.land b 128) 7);
  Ok {| pr_fd := f; pr_rr := rr |}.

Lemma prompt_unpack_eq d : prompt_unpack d = with_prelude prompt_body d.
Proof. reflexivity. Qed.

Lemma prompt_body_layout f rr : fdir_valid f -> (rr = 0 \/ rr = 1) ->
  prompt_body f (fdir_layout f ++ prompt_params_layout rr) = Ok {| pr_fd := f; pr_rr := rr |}.
Proof.
  intros FV R. unfold prompt_body, prompt_params_layout. rewrite len_app, fdir_layout_len by exact FV.
  change (len [rr * 128]) with 1.
  destruct (fdir_header_len f >=? fdir_header_len f + 1) eqn:E; [lia|].
  rewrite get_first_param by exact FV. cbn [bind].
  destruct R as [-> | ->]; reflexivity.
Qed.

(* decode (encode ++ anything) *)
Theorem prompt_unpack_pack c rr rest : prompt_valid c rr -> wf_bytes rest ->
  prompt_unpack (prompt_layout c rr ++ rest) = Ok (prompt_pdu_of c rr).
Proof.
  intros V W. pose proof (prompt_ok c rr V) as O. rewrite prompt_unpack_eq. unfold prompt_layout.
  rewrite with_prelude_layout by assumption.
  apply prompt_body_layout; [apply directive_fdir_valid; exact O|apply V].
Qed.

Lemma prompt_body_total f data : fdir_valid f -> wf_bytes data -> ok_or_documented (prompt_body f data).
Proof.
  intros FV W. unfold prompt_body. pose proof (fdir_header_len_range f FV) as R.
  destruct (fdir_header_len f >=? len data) eqn:E; [reflexivity|].
  destruct (py_get_in_range data (fdir_header_len f) ltac:(lia)) as (b & G & _). rewrite G. cbn [bind].
  unfold response_required_of. destruct (_ || _); reflexivity.
Qed.

Lemma prompt_body_needs f data x : prompt_body f data = Ok x -> fdir_header_len f <= len data.
Proof. unfold prompt_body. destruct (fdir_header_len f >=? len data) eqn:E; [discriminate|lia]. Qed.

(* C10 *)
Theorem prompt_unpack_total d : wf_bytes d -> ok_or_documented (prompt_unpack d).
Proof. intros W. rewrite prompt_unpack_eq. apply with_prelude_total; [exact W|apply prompt_body_total]. Qed.

Theorem prompt_prefix_rejected c rr n : prompt_valid c rr -> (n < length (prompt_layout c rr))%nat ->
  exists e, prompt_unpack (firstn n (prompt_layout c rr)) = Err e /\ documented e = true.
Proof.
  intros V L. rewrite prompt_unpack_eq. apply with_prelude_prefix_rejected; [apply prompt_ok; exact V|exact L].
Qed.

(* C09 *)
Theorem prompt_suffix c rr s : prompt_valid c rr -> wf_bytes s ->
  prompt_unpack (prompt_layout c rr ++ s) = prompt_unpack (prompt_layout c rr).
Proof. intros V W. rewrite !prompt_unpack_eq. apply with_prelude_suffix; [apply prompt_ok; exact V|exact W]. Qed.

Theorem prompt_no_fold_in d p h : wf_bytes d -> prompt_unpack d = Ok p -> hdr_unpack d = Ok h ->
  prompt_unpack (firstn (Z.to_nat (hdr_packet_len h)) d) = Ok p.
Proof.
  intros W U Uh. rewrite prompt_unpack_eq in *.
  apply (with_prelude_no_fold_in prompt_body d p W U); [|exact Uh].
  intros f data. apply prompt_body_needs.
Qed.

(* C04 *)
Theorem prompt_accept_needs_crc0 d p h : wf_bytes d -> prompt_unpack d = Ok p -> hdr_unpack d = Ok h ->
  cf_crc (h_conf h) = 1 ->
  hdr_packet_len h <= len d /\ crc16 (firstn (Z.to_nat (hdr_packet_len h)) d) = 0.
Proof. intros W U. rewrite prompt_unpack_eq in U. apply (with_prelude_accept_needs_crc0 prompt_body d p h W U). Qed.

(* a response_required value other than 0 / 1 cannot be packed *)
Theorem prompt_bad_rr_fails c rr : conf_valid c -> ~ (rr = 0 \/ rr = 1) ->
  exists p, prompt_new c rr = Ok (p, c) /\ prompt_pack p = Err EValue.
Proof.
  intros C R. unfold prompt_new, DIR_TOWARDS_RECEIVER, DT_PROMPT, CRC_WITH_CRC.
  rewrite fdir_new_ok; [|lia|cbn [conf_set_dir cf_src cf_dst]; apply conf_widths_eq; exact C].
  cbn [bind conf_set_dir cf_crc].
  assert (P : forall n, 0 <= n + 1 <= 65535 ->
            prompt_pack {| pr_fd := fdir_of (conf_set_dir c 0) 9 n; pr_rr := rr |} = Err EValue).
  { intros n N. unfold prompt_pack. cbn [pr_fd pr_rr].
    rewrite fdir_pack_layout by (apply fdir_of_valid; [apply conf_set_dir_valid; [exact C|left; reflexivity]|lia|lia]).
    cbn [bind]. rewrite shiftl_mul by lia. change (2 ^ 7) with 128.
    unfold ba_append, is_byte. destruct ((0 <=? rr * 128) && (rr * 128 <? 256)) eqn:E; [lia|reflexivity]. }
  destruct (cf_crc c =? 1).
  - rewrite fdir_set_param_len_of by lia. cbn [bind]. eexists. split; [reflexivity|]. apply P. lia.
  - cbn [bind]. eexists. split; [reflexivity|]. apply P. lia.
Qed.

(* the whole property as one chain *)
Theorem prompt_roundtrip c rr rest : prompt_valid c rr -> wf_bytes rest ->
  exists p b p',
    prompt_new c rr = Ok (p, c) /\ prompt_pack p = Ok b /\ b = prompt_layout c rr /\
    prompt_unpack (b ++ rest) = Ok p' /\ pr_rr p' = rr /\ p' = p /\
    prompt_eqb p' p = true /\ prompt_pack p' = Ok b /\ prompt_packet_len p' = len b.
Proof.
  intros V W. exists (prompt_pdu_of c rr), (prompt_layout c rr), (prompt_pdu_of c rr).
  split; [apply prompt_new_ok; exact V|]. split; [apply prompt_pack_layout; exact V|]. split; [reflexivity|].
  split; [apply prompt_unpack_pack; assumption|]. split; [reflexivity|]. split; [reflexivity|].
  split; [|split; [apply prompt_pack_layout; exact V|apply (prompt_data_field_len c rr V)]].
  unfold prompt_eqb. rewrite fdir_eqb_refl, Z.eqb_refl. reflexivity.
Qed.

(* non-vacuity *)
Definition prompt_example_conf : PduConfig :=
  {| cf_src := {| ubf_val := 258; ubf_len := 2 |}; cf_dst := {| ubf_val := 772; ubf_len := 2 |};
     cf_seq := {| ubf_val := 5; ubf_len := 1 |};
     cf_mode := 1; cf_large := 0; cf_crc := 1; cf_dir := 1; cf_segctrl := 0 |}.
Example prompt_valid_example : prompt_valid prompt_example_conf 1.
Proof.
  unfold prompt_valid, conf_valid, ubf_valid, width_ok, flag, prompt_example_conf.
  cbn [cf_src cf_dst cf_seq cf_mode cf_large cf_crc cf_dir cf_segctrl ubf_val ubf_len].
  change (256 ^ 2) with 65536. change (256 ^ 1) with 256. lia.
Qed.
Example prompt_layout_example :
  prompt_layout prompt_example_conf 1 = [38; 0; 4; 16; 1; 2; 5; 3; 4; 9; 128; 82; 160].
Proof. vm_compute. reflexivity. Qed.
