(* Lemmas about Model/Metadata.v against Spec/PduBSpec.v: layout, lengths, round trip for
   option lists of any length (induction with a generalised "decode the rest" lemma),
   re-pack, equality, refusals. *)
From Coq Require Import ZArith List Bool Lia ZifyBool.
From SP Require Import Base.Result Base.Bytes Base.BytesFacts Base.Utf8 Base.Crc16 Base.Crc16Facts
  Model.PduHeader Spec.PduHeaderSpec Proofs.PduHeaderProofs
  Model.FileDirective Proofs.FileDirectiveProofs
  Model.Lv Model.Tlv Spec.TlvSpec Proofs.LvProofs Proofs.TlvProofs
  Model.Finished Model.Metadata Spec.PduBSpec Proofs.FinishedProofs.
Import ListNotations.
Open Scope Z_scope.
Ltac Zify.zify_post_hook ::= Z.to_euclidean_division_equations.

(* ================= the first parameter octet ================= *)

Lemma mdoct_of cl cs : flag cl -> cstype_valid cs ->
  let b := cl * 64 + cs in
  0 <= b < 256 /\ Z.lor (Z.shiftl cl 6) cs = b /\
  (if Z.land b 64 =? 0 then 0 else 1) = cl /\ Z.land b 15 = cs.
Proof.
  intros [-> | ->] [-> | [-> | [-> | [-> | ->]]]]; cbv zeta; repeat split; try reflexivity; lia.
Qed.

Lemma cstype_member cs : cstype_valid cs -> checksum_type_of_int cs = Ok cs.
Proof. intros [-> | [-> | [-> | [-> | ->]]]]; reflexivity. Qed.

(* ================= options: element-wise facts ================= *)

Lemma opt_layout_len t : len (opt_layout t) = tlv_packet_len t.
Proof. unfold opt_layout. rewrite tlv_layout_len. reflexivity. Qed.

Lemma opts_len_cat l : opts_len l = len (cat opt_layout l).
Proof.
  induction l as [|t l IH]; cbn [opts_len cat]; [reflexivity|].
  rewrite len_app, opt_layout_len, IH. reflexivity.
Qed.

Lemma opt_valid_pack t : opt_valid t -> tlv_pack t = Ok (opt_layout t).
Proof.
  intros (Ty & L & _). rewrite <- (tlv_eta t) at 1. apply tlv_pack_ok; [apply is_tlv_type_byte; exact Ty|exact L].
Qed.

Lemma opt_valid_unpack t rest : opt_valid t -> tlv_unpack (opt_layout t ++ rest) = Ok t.
Proof.
  intros (Ty & L & _). unfold opt_layout. rewrite tlv_unpack_layout_app by assumption. rewrite tlv_eta. reflexivity.
Qed.

Lemma opt_layout_wf t : opt_valid t -> wf_bytes (opt_layout t).
Proof.
  intros (Ty & L & W). pose proof (is_tlv_type_byte _ Ty). pose proof (len_nonneg (tlv_value t)).
  unfold opt_layout, tlv_layout. constructor; [lia|]. constructor; [lia|exact W].
Qed.

Lemma opts_pack_cat l acc : Forall opt_valid l -> opts_pack l acc = Ok (acc ++ cat opt_layout l).
Proof.
  intros F. revert acc. induction F as [|t l Ht _ IH]; intros acc; cbn [opts_pack cat].
  - rewrite app_nil_r. reflexivity.
  - rewrite opt_valid_pack by assumption. cbn [bind]. rewrite IH, app_assoc. reflexivity.
Qed.

Lemma cat_opt_wf l : Forall opt_valid l -> wf_bytes (cat opt_layout l).
Proof. intros F. apply cat_wf. eapply Forall_impl; [|exact F]. apply opt_layout_wf. Qed.

Lemma opt_layout_pos t : (2 <= length (opt_layout t))%nat.
Proof. unfold opt_layout, tlv_layout. cbn [length]. lia. Qed.

(* ================= lengths ================= *)

Lemma lv_layout_wf v : wf_bytes v -> len v <= 255 -> wf_bytes (lv_layout v).
Proof. intros W L. pose proof (len_nonneg v). unfold lv_layout. constructor; [lia|exact W]. Qed.

Lemma md_dlen_eq c q o :
  md_dlen c q o = 1 + (1 + Z.of_nat (fss_width c) + (1 + len (name_octets (mp_src q)))
                       + (1 + len (name_octets (mp_dst q))) + opts_len (opts_of o)) + crc_octets c.
Proof.
  unfold md_dlen, md_body. rewrite !len_app, len_be_encode, !lv_layout_len, <- opts_len_cat.
  change (len [_]) with 1. lia.
Qed.

Lemma md_dlen_nonneg c q o : 8 <= md_dlen c q o.
Proof.
  rewrite md_dlen_eq, opts_len_cat.
  pose proof (len_nonneg (cat opt_layout (opts_of o))). pose proof (len_nonneg (name_octets (mp_src q))).
  pose proof (len_nonneg (name_octets (mp_dst q))).
  unfold crc_octets, fss_width. destruct (cf_crc c =? 1); destruct (cf_large c =? 1); lia.
Qed.

(* the object the constructor builds *)
Definition md_pdu_of (c : PduConfig) (q : MdParams) (o : option (list tlv)) : MetadataPdu :=
  {| md_fdir := fdir_of (conf_set_dir c 0) DT_METADATA (md_dlen c q o - 1);
     md_params := q; md_src_lv := name_octets (mp_src q); md_dst_lv := name_octets (mp_dst q);
     md_options := o |}.

Lemma md_fdir_valid c q o : md_valid c q o ->
  fdir_valid (fdir_of (conf_set_dir c 0) DT_METADATA (md_dlen c q o - 1)).
Proof.
  intros (C & _ & _ & _ & _ & _ & _ & D). pose proof (md_dlen_nonneg c q o).
  apply fdir_of_valid; [apply conf_set_dir_valid; [exact C|left; reflexivity]|unfold DT_METADATA; lia|lia].
Qed.

(* _calculate_directive_field_len: a function of the two LVs and the options *)
Lemma md_calc_len_spec c n q s d o : flag (cf_crc c) -> flag (cf_large c) ->
  md_calc_len {| md_fdir := fdir_of (conf_set_dir c 0) DT_METADATA n; md_params := q;
                 md_src_lv := s; md_dst_lv := d; md_options := o |} =
  let dl := 1 + (1 + Z.of_nat (fss_width c) + (1 + len s) + (1 + len d) + opts_len (opts_of o)) + crc_octets c in
  if dl <=? 65535
  then Ok {| md_fdir := fdir_of (conf_set_dir c 0) DT_METADATA (dl - 1); md_params := q;
             md_src_lv := s; md_dst_lv := d; md_options := o |}
  else Err EValue.
Proof.
  intros Fc Fl. unfold md_calc_len. cbn [md_fdir md_src_lv md_dst_lv md_options md_params].
  unfold hdr_large_file. cbn [fdir_of fd_hdr h_conf conf_set_dir cf_crc cf_large].
  change ({| fd_hdr := {| h_type := 0; h_meta := 0; h_dlen := n + 1;
                          h_conf := {| cf_src := cf_src c; cf_dst := cf_dst c; cf_seq := cf_seq c;
                                       cf_mode := cf_mode c; cf_large := cf_large c; cf_crc := cf_crc c;
                                       cf_dir := 0; cf_segctrl := cf_segctrl c |} |};
             fd_type := DT_METADATA |}) with (fdir_of (conf_set_dir c 0) DT_METADATA n).
  rewrite fdir_set_param_len_spec. cbn [fdir_of fd_hdr fd_type h_type h_meta h_conf].
  cbv zeta. unfold lv_packet_len, md_with_fdir. cbn [md_fdir md_src_lv md_dst_lv md_options md_params].
  set (dl := 1 + (1 + Z.of_nat (fss_width c) + (1 + len s) + (1 + len d) + opts_len (opts_of o)) + crc_octets c).
  assert (X : (if cf_crc c =? CRC_WITH_CRC
               then match o with
                    | Some l => (if cf_large c =? FILE_LARGE then 5 + (len s + 1) + (len d + 1) + 4 else 5 + (len s + 1) + (len d + 1)) + opts_len l
                    | None => if cf_large c =? FILE_LARGE then 5 + (len s + 1) + (len d + 1) + 4 else 5 + (len s + 1) + (len d + 1)
                    end + 2
               else match o with
                    | Some l => (if cf_large c =? FILE_LARGE then 5 + (len s + 1) + (len d + 1) + 4 else 5 + (len s + 1) + (len d + 1)) + opts_len l
                    | None => if cf_large c =? FILE_LARGE then 5 + (len s + 1) + (len d + 1) + 4 else 5 + (len s + 1) + (len d + 1)
                    end) + 1 = dl).
  { unfold dl, crc_octets, fss_width, CRC_WITH_CRC, FILE_LARGE, opts_of.
    destruct (cf_crc c =? 1); destruct (cf_large c =? 1); destruct o; cbn [opts_len]; lia. }
  rewrite X. destruct (dl <=? 65535); [|reflexivity]. cbn [bind]. unfold fdir_of. do 5 f_equal. lia.
Qed.

Lemma name_lv_ok o : name_valid o -> name_lv o = Ok (name_octets o).
Proof. intros (L & _). destruct o; cbn [name_lv name_octets] in *; apply lv_new_ok; exact L. Qed.

Theorem md_new_ok c q o : md_valid c q o -> md_new c q o = Ok (md_pdu_of c q o, c, q).
Proof.
  intros V. pose proof V as (C & Vcl & Vcs & Vf & Vs & Vd & Vo & D).
  assert (Fc : flag (cf_crc c)) by apply C. assert (Fl : flag (cf_large c)) by apply C.
  unfold md_new. rewrite !name_lv_ok by assumption. cbn [bind].
  rewrite fdir_new_ok; [|lia|unfold conf_set_dir; cbn [cf_src cf_dst]; apply C]. cbn [bind].
  unfold DIR_TOWARDS_RECEIVER. rewrite md_calc_len_spec by assumption. cbv zeta.
  rewrite <- md_dlen_eq. destruct (md_dlen c q o <=? 65535) eqn:E; [reflexivity|lia].
Qed.

Lemma md_pre_eq c q o :
  hdr_layout (md_header c q o) ++ [D_METADATA] ++ md_body c q o =
  fdir_layout (fdir_of (conf_set_dir c 0) DT_METADATA (md_dlen c q o - 1)) ++ md_body c q o.
Proof.
  unfold fdir_layout, fdir_of, md_header. cbn [fd_hdr fd_type].
  replace (md_dlen c q o - 1 + 1) with (md_dlen c q o) by lia. rewrite <- app_assoc. reflexivity.
Qed.

Lemma md_body_wf c q o : md_valid c q o -> wf_bytes (md_body c q o).
Proof.
  intros (C & Vcl & Vcs & Vf & (Ls & Ws) & (Ld & Wd) & Vo & D).
  destruct (mdoct_of _ _ Vcl Vcs) as (R & _).
  unfold md_body. rewrite !wf_bytes_app. split; [constructor; [exact R|constructor]|].
  split; [apply be_encode_wf|]. split; [apply lv_layout_wf; assumption|].
  split; [apply lv_layout_wf; assumption|]. apply cat_opt_wf. exact Vo.
Qed.

Lemma md_pre_wf c q o : md_valid c q o ->
  wf_bytes (hdr_layout (md_header c q o) ++ [D_METADATA] ++ md_body c q o).
Proof.
  intros V. rewrite md_pre_eq. apply wf_bytes_app. split; [apply fdir_layout_wf, md_fdir_valid; exact V|].
  apply md_body_wf. exact V.
Qed.

Lemma md_layout_len c q o : md_valid c q o ->
  len (md_layout c q o) = hdr_header_len (md_header c q o) + md_dlen c q o.
Proof.
  intros V. pose proof (md_fdir_valid c q o V) as FV. pose proof (md_dlen_nonneg c q o).
  unfold md_layout. rewrite with_crc_len, md_pre_eq, len_app, (fdir_layout_len _ FV).
  unfold fdir_header_len, fdir_of, hdr_header_len, md_header, md_dlen. cbn [fd_hdr h_conf]. lia.
Qed.

(* K_data_field_len / K_packet_len *)
Theorem md_data_field_len c q o : md_valid c q o ->
  let p := md_pdu_of c q o in
  md_packet_len p = len (md_layout c q o) /\
  h_dlen (fd_hdr (md_fdir p)) = len (md_layout c q o) - hdr_header_len (fd_hdr (md_fdir p)) /\
  h_dlen (fd_hdr (md_fdir p)) = 1 + len (md_body c q o) + crc_octets c.
Proof.
  intros V. cbv zeta. rewrite (md_layout_len c q o V).
  unfold md_packet_len, fdir_packet_len, hdr_packet_len, md_pdu_of, fdir_of, hdr_header_len, md_header.
  cbn [md_fdir fd_hdr h_dlen h_conf]. unfold md_dlen. repeat split; lia.
Qed.

(* ================= pack ================= *)

Theorem md_pack_layout c q o : md_valid c q o -> md_pack (md_pdu_of c q o) = Ok (md_layout c q o).
Proof.
  intros V. pose proof V as (C & Vcl & Vcs & Vf & Vs & Vd & Vo & D).
  assert (Fl : flag (cf_large c)) by apply C.
  pose proof (md_fdir_valid c q o V) as FV. pose proof (md_pre_wf c q o V) as Wpre.
  unfold md_pack, md_pdu_of. cbn [md_fdir md_params md_src_lv md_dst_lv md_options].
  rewrite fdir_verify_file_len_spec by (cbn [fdir_of fd_hdr h_conf conf_set_dir cf_large]; exact Fl).
  unfold hdr_large_file, FILE_LARGE. cbn [fdir_of fd_hdr h_conf conf_set_dir cf_large cf_crc].
  assert (FS : (if cf_large c =? 1 then mp_fsize q >? 2 ^ 64 - 1 else mp_fsize q >? 2 ^ 32 - 1) = false).
  { unfold fss_width in Vf. destruct (cf_large c =? 1); cbn in Vf; lia. }
  rewrite FS. cbn [bind].
  change ({| fd_hdr := {| h_type := 0; h_meta := 0; h_dlen := md_dlen c q o - 1 + 1;
                          h_conf := {| cf_src := cf_src c; cf_dst := cf_dst c; cf_seq := cf_seq c;
                                       cf_mode := cf_mode c; cf_large := cf_large c; cf_crc := cf_crc c;
                                       cf_dir := 0; cf_segctrl := cf_segctrl c |} |};
             fd_type := DT_METADATA |}) with (fdir_of (conf_set_dir c 0) DT_METADATA (md_dlen c q o - 1)).
  rewrite fdir_pack_layout by exact FV. cbn [bind].
  destruct (mdoct_of _ _ Vcl Vcs) as (R & P & _). rewrite P, ba_append_ok by exact R. cbn [bind].
  assert (SP : (if cf_large c =? 1 then struct_pack 8 (mp_fsize q) else struct_pack 4 (mp_fsize q))
               = Ok (be_encode (fss_width c) (mp_fsize q))).
  { unfold fss_width in *. destruct (cf_large c =? 1); apply struct_pack_ok; exact Vf. }
  rewrite SP. cbn [bind]. rewrite !lv_pack_layout.
  assert (OP : match o with
               | Some l => opts_pack l ((((fdir_layout (fdir_of (conf_set_dir c 0) DT_METADATA (md_dlen c q o - 1)) ++
                                           [mp_closure q * 64 + mp_cstype q]) ++ be_encode (fss_width c) (mp_fsize q)) ++
                                         lv_layout (name_octets (mp_src q))) ++ lv_layout (name_octets (mp_dst q)))
               | None => Ok ((((fdir_layout (fdir_of (conf_set_dir c 0) DT_METADATA (md_dlen c q o - 1)) ++
                                [mp_closure q * 64 + mp_cstype q]) ++ be_encode (fss_width c) (mp_fsize q)) ++
                              lv_layout (name_octets (mp_src q))) ++ lv_layout (name_octets (mp_dst q)))
               end = Ok (hdr_layout (md_header c q o) ++ [D_METADATA] ++ md_body c q o)).
  { rewrite md_pre_eq. unfold md_body. destruct o as [l|]; cbn [opts_of cat].
    - rewrite opts_pack_cat by exact Vo. rewrite <- !app_assoc. reflexivity.
    - rewrite app_nil_r, <- !app_assoc. reflexivity. }
  rewrite OP. cbn [bind].
  unfold md_layout, with_crc, CRC_WITH_CRC. destruct (cf_crc c =? 1); [|reflexivity].
  rewrite struct_pack_crc by exact Wpre. reflexivity.
Qed.

(* ================= unpack: the option loop ================= *)

(* generalised "decode the rest": started behind any prefix, with any accumulator, the loop
   decodes the remaining options in order and stops exactly at the end *)
Lemma md_opt_loop_spec ts : forall fuel pre acc raw,
  Forall opt_valid ts -> ts <> [] -> (length ts <= fuel)%nat ->
  raw = pre ++ cat opt_layout ts ->
  md_opt_loop fuel raw (len pre) acc = Ok (acc ++ ts).
Proof.
  induction ts as [|t ts IH]; intros fuel pre acc raw F Hne Hf ->; [congruence|].
  inversion F as [|? ? Ht Fts]; subst.
  destruct fuel as [|fuel]; [cbn in Hf; lia|]. cbn [md_opt_loop cat].
  rewrite slice_from_at by reflexivity. rewrite opt_valid_unpack by exact Ht. cbn [bind].
  rewrite <- opt_layout_len, !len_app.
  pose proof (len_nonneg (cat opt_layout ts)) as N.
  destruct (len pre + len (opt_layout t) >? len pre + (len (opt_layout t) + len (cat opt_layout ts))) eqn:G; [lia|].
  destruct ts as [|t2 ts].
  - cbn [cat]. rewrite len_nil. destruct (_ =? _) eqn:G2; [reflexivity|lia].
  - destruct (_ =? _) eqn:G2.
    { cbn [cat] in G2. rewrite len_app in G2. pose proof (opt_layout_pos t2). unfold len in G2. lia. }
    replace (len pre + len (opt_layout t)) with (len (pre ++ opt_layout t)) by (rewrite len_app; reflexivity).
    rewrite (IH fuel (pre ++ opt_layout t) (acc ++ [t])).
    + rewrite <- app_assoc. reflexivity.
    + exact Fts.
    + discriminate.
    + cbn [length] in *. lia.
    + rewrite <- app_assoc. reflexivity.
Qed.

Lemma md_empty_ok : exists e0, md_empty = Ok e0 /\ md_options e0 = None.
Proof. eexists. split; [vm_compute; reflexivity|reflexivity]. Qed.

(* what the decoder returns: the parameter object carries the three decoded values (its name
   fields stay empty strings, the names live in the two LVs); no options -> None *)
Definition mp_decoded (q : MdParams) : MdParams :=
  {| mp_closure := mp_closure q; mp_cstype := mp_cstype q; mp_fsize := mp_fsize q;
     mp_src := Some []; mp_dst := Some [] |}.
Definition opts_decoded (o : option (list tlv)) : option (list tlv) :=
  match opts_of o with [] => None | l => Some l end.
Definition md_decoded (c : PduConfig) (q : MdParams) (o : option (list tlv)) : MetadataPdu :=
  {| md_fdir := fdir_of (conf_set_dir c 0) DT_METADATA (md_dlen c q o - 1);
     md_params := mp_decoded q; md_src_lv := name_octets (mp_src q); md_dst_lv := name_octets (mp_dst q);
     md_options := opts_decoded o |}.

Lemma slice_to_at (A B : bytes) n : n = len A -> slice_to (A ++ B) n = A.
Proof. intros ->. unfold slice_to, len. rewrite Nat2Z.id. apply firstn_app_exact. reflexivity. Qed.

(* K_unpack_pack, for option lists of any length *)
Theorem md_unpack_pack c q o rest : md_valid c q o -> wf_bytes rest ->
  md_unpack (md_layout c q o ++ rest) = Ok (md_decoded c q o).
Proof.
  intros V Wr. pose proof V as (C & Vcl & Vcs & Vf & Vs & Vd & Vo & D).
  assert (Fc : flag (cf_crc c)) by apply C. assert (Fl : flag (cf_large c)) by apply C.
  pose proof (md_fdir_valid c q o V) as FV. pose proof (md_pre_wf c q o V) as Wpre.
  pose proof (md_dlen_nonneg c q o) as Dn.
  set (f := fdir_of (conf_set_dir c 0) DT_METADATA (md_dlen c q o - 1)) in *.
  set (b0 := mp_closure q * 64 + mp_cstype q).
  set (FSS := be_encode (fss_width c) (mp_fsize q)).
  set (S := name_octets (mp_src q)). set (Dd := name_octets (mp_dst q)).
  set (O := cat opt_layout (opts_of o)).
  assert (PRE : hdr_layout (md_header c q o) ++ [D_METADATA] ++ md_body c q o
                = fdir_layout f ++ [b0] ++ FSS ++ lv_layout S ++ lv_layout Dd ++ O).
  { rewrite md_pre_eq. reflexivity. }
  set (pre := hdr_layout (md_header c q o) ++ [D_METADATA] ++ md_body c q o) in *.
  assert (HL : len (fdir_layout f) = fdir_header_len f) by (apply fdir_layout_len; exact FV).
  assert (LF : len FSS = Z.of_nat (fss_width c)) by apply len_be_encode.
  assert (PL : hdr_packet_len (fd_hdr f) = len pre + crc_octets c).
  { rewrite PRE, !len_app, HL, LF, !lv_layout_len. unfold hdr_packet_len, f, fdir_of, fdir_header_len. cbn [fd_hdr h_dlen].
    rewrite md_dlen_eq, opts_len_cat. fold S Dd O. change (len [b0]) with 1. lia. }
  pose proof (len_nonneg S) as LS. pose proof (len_nonneg Dd) as LDd. pose proof (len_nonneg O) as LO.
  pose proof (len_nonneg rest) as Lr.
  unfold md_unpack. destruct md_empty_ok as (e0 & -> & Oe0). cbn [bind].
  unfold md_layout. fold pre.
  assert (DATA : with_crc c pre ++ rest =
                 fdir_layout f ++ b0 :: FSS ++ lv_layout S ++ lv_layout Dd ++ O ++ crc_tail c pre ++ rest).
  { rewrite with_crc_split, PRE, <- !app_assoc. reflexivity. }
  assert (U : fdir_unpack (with_crc c pre ++ rest) = Ok f).
  { rewrite DATA. apply fdir_unpack_layout; [exact FV|].
    clear - Wpre Wr PRE. rewrite PRE in Wpre. rewrite !wf_bytes_app in Wpre.
    destruct Wpre as (_ & W0 & W1 & W2 & W3 & W4).
    change (b0 :: FSS ++ lv_layout S ++ lv_layout Dd ++ O ++ crc_tail c pre ++ rest)
      with ([b0] ++ FSS ++ lv_layout S ++ lv_layout Dd ++ O ++ crc_tail c pre ++ rest).
    rewrite !wf_bytes_app. repeat split; try assumption. apply crc_tail_wf. }
  rewrite U. cbn [bind]. unfold md_with_fdir. cbn [md_fdir md_params md_src_lv md_dst_lv md_options].
  rewrite verify_with_crc; [|exact Wpre|exact Fc|reflexivity|destruct (hdr_valid_packet_len _ (proj1 FV)); lia|exact PL].
  cbn [bind]. unfold md_packet_len, fdir_packet_len. cbn [md_fdir].
  change (cf_crc (h_conf (fd_hdr f))) with (cf_crc c). change (cf_large (h_conf (fd_hdr f))) with (cf_large c).
  assert (EP : (if cf_crc c =? CRC_WITH_CRC then hdr_packet_len (fd_hdr f) - 2 else hdr_packet_len (fd_hdr f)) = len pre).
  { rewrite PL. unfold crc_octets, CRC_WITH_CRC. destruct (cf_crc c =? 1); lia. }
  rewrite EP.
  assert (LP : len pre = fdir_header_len f + 1 + Z.of_nat (fss_width c) + (1 + len S) + (1 + len Dd) + len O).
  { rewrite PRE, !len_app, HL, LF, !lv_layout_len. change (len [b0]) with 1. lia. }
  assert (MIN : (len pre <? (if cf_large c =? FILE_LARGE then fdir_header_len f + 7 + 4 else fdir_header_len f + 7)) = false).
  { rewrite LP. unfold fss_width, FILE_LARGE. destruct (cf_large c =? 1); lia. }
  rewrite MIN.
  rewrite DATA at 1. rewrite py_get_at by (symmetry; exact HL). cbn [bind].
  destruct (mdoct_of _ _ Vcl Vcs) as (R & _ & D1 & D2). fold b0 in R, D1, D2. rewrite D1, D2.
  rewrite cstype_member by exact Vcs. cbn [bind].
  (* file size *)
  assert (DATA2 : with_crc c pre ++ rest =
                  (fdir_layout f ++ [b0]) ++ be_encode (fss_n (h_conf (fd_hdr f))) (mp_fsize q)
                  ++ lv_layout S ++ lv_layout Dd ++ O ++ crc_tail c pre ++ rest).
  { rewrite DATA, <- app_assoc. reflexivity. }
  assert (I1 : fdir_header_len f + 1 = len (fdir_layout f ++ [b0])) by (rewrite len_app, HL; reflexivity).
  rewrite DATA2 at 1. rewrite I1.
  rewrite fdir_parse_fss_layout; [|exact Fl|exact Vf]. cbn [bind].
  change (Z.of_nat (fss_n (h_conf (fd_hdr f)))) with (Z.of_nat (fss_width c)).
  (* the two LVs *)
  set (i2 := len (fdir_layout f ++ [b0]) + Z.of_nat (fss_width c)).
  assert (SL1 : slice (with_crc c pre ++ rest) i2 (len pre) = lv_layout S ++ lv_layout Dd ++ O).
  { rewrite DATA2. change (be_encode (fss_n (h_conf (fd_hdr f))) (mp_fsize q)) with FSS.
    replace ((fdir_layout f ++ [b0]) ++ FSS ++ lv_layout S ++ lv_layout Dd ++ O ++ crc_tail c pre ++ rest)
      with (((fdir_layout f ++ [b0]) ++ FSS) ++ (lv_layout S ++ lv_layout Dd ++ O) ++ crc_tail c pre ++ rest)
      by (rewrite <- !app_assoc; reflexivity).
    apply slice_at; unfold i2; rewrite !len_app, ?LF, ?lv_layout_len; [reflexivity|].
    rewrite LP, ?HL, ?lv_layout_len. change (len [b0]) with 1. lia. }
  rewrite SL1. rewrite <- (lv_pack_layout S). rewrite lv_unpack_pack_app by apply Vs. cbn [bind].
  unfold lv_packet_len.
  assert (SL2 : slice (with_crc c pre ++ rest) (i2 + (len S + 1)) (len pre) = lv_layout Dd ++ O).
  { rewrite DATA2. change (be_encode (fss_n (h_conf (fd_hdr f))) (mp_fsize q)) with FSS.
    replace ((fdir_layout f ++ [b0]) ++ FSS ++ lv_layout S ++ lv_layout Dd ++ O ++ crc_tail c pre ++ rest)
      with ((((fdir_layout f ++ [b0]) ++ FSS) ++ lv_layout S) ++ (lv_layout Dd ++ O) ++ crc_tail c pre ++ rest)
      by (rewrite <- !app_assoc; reflexivity).
    apply slice_at; unfold i2; rewrite !len_app, ?LF, ?lv_layout_len; [lia|].
    rewrite LP, ?HL, ?lv_layout_len. change (len [b0]) with 1. lia. }
  rewrite SL2. rewrite <- (lv_pack_layout Dd). rewrite lv_unpack_pack_app by apply Vd. cbn [bind].
  (* options *)
  assert (I3 : i2 + (len S + 1) + (len Dd + 1) = len pre - len O).
  { unfold i2. rewrite LP, len_app, HL. change (len [b0]) with 1. lia. }
  rewrite I3.
  destruct (len pre - len O <? len pre) eqn:G.
  - assert (RAW : slice_to (with_crc c pre ++ rest) (len pre) = pre).
    { rewrite with_crc_split, <- app_assoc. apply slice_to_at. reflexivity. }
    rewrite RAW.
    set (A := fdir_layout f ++ [b0] ++ FSS ++ lv_layout S ++ lv_layout Dd).
    assert (PA : pre = A ++ cat opt_layout (opts_of o)).
    { rewrite PRE. unfold A, O. rewrite <- !app_assoc. reflexivity. }
    assert (IA : len pre - len O = len A).
    { rewrite PA at 1. rewrite len_app. fold O. lia. }
    rewrite IA.
    assert (NE : opts_of o <> []).
    { intros E0. unfold O in G. rewrite E0 in G. cbn [cat] in G. rewrite len_nil in G. lia. }
    rewrite (md_opt_loop_spec (opts_of o) (Datatypes.S (length pre)) A [] pre Vo NE); [|
      rewrite PA; rewrite app_length;
      pose proof (cat_length_ge opt_layout (opts_of o)) as X;
      assert (Forall (fun x => (1 <= length (opt_layout x))%nat) (opts_of o)) as Y
        by (apply Forall_forall; intros x _; pose proof (opt_layout_pos x); lia);
      specialize (X Y); lia | exact PA].
    cbn [bind app]. unfold md_decoded, mp_decoded, opts_decoded. fold f S Dd.
    destruct (opts_of o) as [|t l]; [congruence|]. reflexivity.
  - assert (O0 : opts_of o = []).
    { destruct (opts_of o) as [|t l] eqn:E0; [reflexivity|]. exfalso.
      unfold O in G. rewrite ?E0 in G. cbn [cat] in G. rewrite len_app in G.
      pose proof (opt_layout_pos t). pose proof (len_nonneg (cat opt_layout l)). unfold len in G at 2. lia. }
    rewrite Oe0. unfold md_decoded, mp_decoded, opts_decoded. rewrite O0. fold f S Dd. reflexivity.
Qed.

(* ================= corollaries ================= *)

Lemma md_pack_decoded c q o : md_pack (md_decoded c q o) = md_pack (md_pdu_of c q o).
Proof.
  unfold md_pack, md_decoded, md_pdu_of, mp_decoded, opts_decoded.
  cbn [md_fdir md_params md_src_lv md_dst_lv md_options mp_closure mp_cstype mp_fsize].
  destruct o as [[|t l]|]; reflexivity.
Qed.

(* K_repack *)
Theorem md_repack c q o : md_valid c q o -> md_pack (md_decoded c q o) = Ok (md_layout c q o).
Proof. intros V. rewrite md_pack_decoded. apply md_pack_layout. exact V. Qed.

Lemma tlv_eqb_refl t : tlv_eqb t t = true.
Proof. apply tlv_eqb_eq. reflexivity. Qed.
Lemma opts_eqb_refl l : opts_eqb l l = true.
Proof. induction l as [|t l IH]; cbn [opts_eqb]; [reflexivity|]. rewrite tlv_eqb_refl, IH. reflexivity. Qed.

Theorem md_eq_roundtrip c q o : md_eqb (md_decoded c q o) (md_pdu_of c q o) = true.
Proof.
  unfold md_eqb, md_decoded, md_pdu_of, mp_decoded, opts_decoded.
  cbn [md_fdir md_params md_src_lv md_dst_lv md_options mp_closure mp_cstype mp_fsize].
  rewrite fdir_eqb_refl, !Z.eqb_refl. unfold lv_eqb. rewrite !bytes_eqb_refl. cbn [andb].
  unfold options_eqb. destruct o as [[|t l]|]; cbn [opts_of]; apply opts_eqb_refl.
Qed.

(* the name getters of the decoded object return what was given (None for no / an empty name) *)
Theorem md_names_decoded c q o : md_valid c q o ->
  utf8_valid (name_octets (mp_src q)) = true ->
  md_name_get (md_src_lv (md_decoded c q o)) =
  Ok (match name_octets (mp_src q) with [] => None | n => Some n end).
Proof.
  intros _ U. unfold md_name_get, md_decoded. cbn [md_src_lv].
  destruct (name_octets (mp_src q)) as [|x r] eqn:E; [reflexivity|].
  assert (len (x :: r) =? 0 = false) as -> by (rewrite len_cons; pose proof (len_nonneg r); lia).
  unfold utf8_decode. rewrite U. reflexivity.
Qed.

Theorem md_suffix_irrelevant c q o s : md_valid c q o -> wf_bytes s ->
  md_unpack (md_layout c q o ++ s) = md_unpack (md_layout c q o).
Proof.
  intros V W. rewrite md_unpack_pack by assumption.
  pose proof (md_unpack_pack c q o [] V ltac:(constructor)) as E. rewrite app_nil_r in E. symmetry. exact E.
Qed.

Theorem md_roundtrip c q o rest : md_valid c q o -> wf_bytes rest ->
  exists p b p',
    md_new c q o = Ok (p, c, q) /\ md_pack p = Ok b /\ b = md_layout c q o /\
    md_packet_len p = len b /\
    md_unpack (b ++ rest) = Ok p' /\
    mp_closure (md_params p') = mp_closure q /\ mp_cstype (md_params p') = mp_cstype q /\
    mp_fsize (md_params p') = mp_fsize q /\
    md_src_lv p' = name_octets (mp_src q) /\ md_dst_lv p' = name_octets (mp_dst q) /\
    opts_of (md_options p') = opts_of o /\
    md_eqb p' p = true /\ md_pack p' = Ok b /\ md_packet_len p' = len b.
Proof.
  intros V W. exists (md_pdu_of c q o), (md_layout c q o), (md_decoded c q o).
  destruct (md_data_field_len c q o V) as (PL & _).
  split; [apply md_new_ok; exact V|]. split; [apply md_pack_layout; exact V|]. split; [reflexivity|].
  split; [exact PL|]. split; [apply md_unpack_pack; assumption|].
  repeat (split; [reflexivity|]).
  split; [unfold md_decoded, opts_decoded; cbn [md_options]; destruct o as [[|t l]|]; reflexivity|].
  split; [apply md_eq_roundtrip|]. split; [apply md_repack; exact V|exact PL].
Qed.

(* K_too_large_fails: a file size outside the field (>= 2^32 without the large-file flag,
   >= 2^64 with it, or negative) makes pack fail; nothing truncated is ever returned *)
Theorem md_file_size_refused p : flag (cf_large (h_conf (fd_hdr (md_fdir p)))) ->
  ~ (0 <= mp_fsize (md_params p) < 256 ^ Z.of_nat (fss_width (h_conf (fd_hdr (md_fdir p))))) ->
  exists e, md_pack p = Err e.
Proof.
  intros Fl R. unfold md_pack.
  destruct (fdir_verify_file_len _ _); [|eexists; reflexivity]. cbn [bind].
  destruct (fdir_pack _); [|eexists; reflexivity]. cbn [bind].
  destruct (ba_append _ _); [|eexists; reflexivity]. cbn [bind].
  unfold hdr_large_file, FILE_LARGE. unfold fss_width in R.
  destruct (cf_large (h_conf (fd_hdr (md_fdir p))) =? 1); rewrite struct_pack_err by exact R;
    eexists; reflexivity.
Qed.

(* names longer than 255 octets and option lists that overflow the data field are refused by
   the constructor *)
Theorem md_name_too_long_refused c q o :
  255 < len (name_octets (mp_src q)) \/ 255 < len (name_octets (mp_dst q)) ->
  md_new c q o = Err EValue.
Proof.
  intros H. unfold md_new.
  assert (N : forall x, name_lv x = if len (name_octets x) >? 255 then Err EValue else Ok (name_octets x)).
  { intros x. destruct x; reflexivity. }
  rewrite !N. destruct H; destruct (len (name_octets (mp_src q)) >? 255) eqn:E1; try lia; try reflexivity.
  cbn [bind]. destruct (len (name_octets (mp_dst q)) >? 255) eqn:E2; [reflexivity|lia].
Qed.

(* ================= non-vacuity ================= *)
Definition ex_md : MdParams :=
  {| mp_closure := 1; mp_cstype := 3; mp_fsize := 4294967296; mp_src := Some [97; 195; 164]; mp_dst := None |}.
Definition ex_opts : option (list tlv) :=
  Some [{| tlv_type := 2; tlv_value := [7; 8] |}; {| tlv_type := 5; tlv_value := [] |}].
Example md_valid_example : md_valid (ex_conf 1 1) ex_md ex_opts.
Proof.
  unfold md_valid. split; [apply ex_conf_valid; right; reflexivity|].
  split; [right; reflexivity|]. split; [unfold cstype_valid, ex_md; cbn [mp_cstype]; lia|].
  split; [vm_compute; split; congruence|].
  split; [unfold name_valid, wf_bytes; split; [vm_compute; congruence|repeat constructor; lia]|].
  split; [unfold name_valid, wf_bytes; split; [vm_compute; congruence|constructor]|].
  split; [|vm_compute; congruence].
  unfold ex_opts, opts_of, opt_valid, wf_bytes. cbn [tlv_type tlv_value].
  repeat constructor; try (vm_compute; congruence); lia.
Qed.
Example md_layout_example :
  md_layout (ex_conf 0 1) ex_md ex_opts =
  [37; 0; 21; 147; 1; 2; 255; 255; 255; 255; 255; 255; 7; 67; 0; 0; 0; 1; 0; 0; 0; 0;
   3; 97; 195; 164; 0; 2; 2; 7; 8; 5; 0].
Proof. vm_compute. reflexivity. Qed.

(* ================= C10: totality, fuel, prefix rejection; C04 ================= *)

Lemma md_opt_loop_total fuel : forall raw idx acc,
  0 <= idx < len raw -> (Z.to_nat (len raw - idx) <= fuel)%nat ->
  ok_or_documented (md_opt_loop fuel raw idx acc).
Proof.
  induction fuel as [|fuel IH]; intros raw idx acc Hi Hf; [lia|].
  cbn [md_opt_loop]. pose proof (tlv_unpack_total (slice_from raw idx)) as T.
  destruct (tlv_unpack (slice_from raw idx)) as [t|e]; [|exact T]. cbn [bind].
  pose proof (tlv_packet_len_pos t).
  destruct (idx + tlv_packet_len t >? len raw) eqn:G1; [reflexivity|].
  destruct (idx + tlv_packet_len t =? len raw) eqn:G2; [exact I|]. apply IH; lia.
Qed.

Corollary md_opt_loop_fuel_ok raw idx acc : 0 <= idx < len raw ->
  md_opt_loop (S (length raw)) raw idx acc <> Err EFuel.
Proof.
  intros H. pose proof (md_opt_loop_total (S (length raw)) raw idx acc H ltac:(unfold len; lia)) as T.
  intros E. rewrite E in T. discriminate T.
Qed.

Theorem md_unpack_total d : wf_bytes d -> ok_or_documented (md_unpack d).
Proof.
  intros W. unfold md_unpack. destruct md_empty_ok as (e0 & -> & _). cbn [bind].
  pose proof (fdir_unpack_total d W) as T.
  destruct (fdir_unpack d) as [f|e] eqn:U; [|exact T]. clear T. cbn [bind].
  destruct (fdir_unpack_inv d f W U) as (FV & _ & Lhl & _).
  destruct (hdr_valid_packet_len _ (proj1 FV)) as (Hh & Hp).
  assert (P2 : 2 <= hdr_packet_len (fd_hdr f)) by lia.
  assert (Fl : flag (cf_large (h_conf (fd_hdr f)))) by apply FV.
  destruct (hdr_verify_length_and_checksum (fd_hdr f) d) as [pl|e] eqn:Ve.
  2:{ destruct (hdr_verify_err _ _ _ P2 Ve) as [-> | ->]; reflexivity. }
  destruct (hdr_verify_accept _ _ _ P2 Ve) as (-> & Lpl & _). cbn [bind].
  unfold md_with_fdir, md_packet_len, fdir_packet_len. cbn [md_fdir md_options].
  set (e := if cf_crc (h_conf (fd_hdr f)) =? CRC_WITH_CRC then hdr_packet_len (fd_hdr f) - 2 else hdr_packet_len (fd_hdr f)).
  assert (Le : e <= len d) by (unfold e; destruct (_ =? _); lia).
  pose proof (fdir_header_len_range f FV) as Rh.
  destruct (e <? _) eqn:G; [reflexivity|].
  assert (G' : fdir_header_len f + 7 <= e) by (destruct (cf_large (h_conf (fd_hdr f)) =? FILE_LARGE); lia).
  destruct (py_get_in_range d (fdir_header_len f) ltac:(lia)) as (b & ->). cbn [bind].
  unfold checksum_type_of_int. destruct (is_checksum_type _); [|reflexivity]. cbn [bind].
  rewrite fdir_parse_fss_spec by (try exact Fl; lia). cbv zeta.
  destruct (_ >? len d); [reflexivity|]. cbn [bind].
  apply bind_documented; [apply lv_unpack_total|]. intros s _.
  apply bind_documented; [apply lv_unpack_total|]. intros dd _.
  set (i := fdir_header_len f + 1 + Z.of_nat (fss_n (h_conf (fd_hdr f))) + lv_packet_len s + lv_packet_len dd).
  destruct (i <? e) eqn:G3; [|exact I].
  apply bind_documented; [|intros; exact I].
  apply bind_documented; [|intros; exact I].
  assert (Li : 0 <= i).
  { unfold i, lv_packet_len. pose proof (len_nonneg s). pose proof (len_nonneg dd). lia. }
  assert (Lraw : len (slice_to d e) = e).
  { unfold slice_to, len. rewrite firstn_length. unfold len in Le. lia. }
  apply md_opt_loop_total; [rewrite Lraw; lia|]. unfold len. lia.
Qed.

Theorem md_prefix_rejected c q o n : md_valid c q o -> (n < length (md_layout c q o))%nat ->
  exists e, md_unpack (firstn n (md_layout c q o)) = Err e /\ documented e = true.
Proof.
  intros V L.
  assert (WL : wf_bytes (md_layout c q o)).
  { unfold md_layout. rewrite with_crc_split. apply wf_bytes_app. split; [apply md_pre_wf; exact V|apply crc_tail_wf]. }
  pose proof (md_unpack_total _ (wf_bytes_firstn n _ WL)) as T.
  destruct (md_unpack (firstn n (md_layout c q o))) as [p|e] eqn:U; [exfalso|exists e; split; [reflexivity|exact T]].
  pose proof (md_fdir_valid c q o V) as FV.
  set (f := fdir_of (conf_set_dir c 0) DT_METADATA (md_dlen c q o - 1)) in *.
  pose proof (md_layout_len c q o V) as LL.
  set (tl := md_body c q o ++ crc_tail c (hdr_layout (md_header c q o) ++ [D_METADATA] ++ md_body c q o)).
  assert (E : md_layout c q o = fdir_layout f ++ tl).
  { unfold md_layout, tl. rewrite with_crc_split, md_pre_eq, <- app_assoc. reflexivity. }
  assert (Wtl : wf_bytes tl) by (rewrite E in WL; apply wf_bytes_app in WL; apply WL).
  pose proof (fdir_layout_len f FV) as HL.
  unfold md_unpack in U. destruct md_empty_ok as (e0 & Ee & _). rewrite Ee in U. cbn [bind] in U.
  destruct (Nat.lt_ge_cases n (length (fdir_layout f))) as [Sh | Lg].
  - rewrite E in U. destruct (fdir_unpack_short_prefix f n _ FV Wtl Sh) as (e & Ue & _).
    rewrite Ue in U. discriminate U.
  - assert (Fn : firstn n (md_layout c q o) = fdir_layout f ++ firstn (n - length (fdir_layout f)) tl).
    { rewrite E at 1. rewrite firstn_app. rewrite firstn_all2 by lia. reflexivity. }
    rewrite Fn in U. rewrite fdir_unpack_layout in U; [|exact FV|apply wf_bytes_firstn; exact Wtl].
    cbn [bind] in U. rewrite hdr_verify_short in U; [discriminate U|].
    rewrite <- Fn. unfold len at 1. rewrite firstn_length.
    unfold hdr_packet_len, f, fdir_of. cbn [fd_hdr h_dlen]. unfold len in LL.
    unfold hdr_header_len, md_header in LL. cbn [h_conf] in LL. unfold hdr_header_len. cbn [h_conf]. lia.
Qed.

Theorem md_accept_needs_crc0 d p : wf_bytes d -> md_unpack d = Ok p ->
  exists h, hdr_unpack d = Ok h /\
    (cf_crc (h_conf h) = 1 -> crc16 (firstn (Z.to_nat (hdr_packet_len h)) d) = 0) /\
    hdr_packet_len h <= len d.
Proof.
  intros W U. unfold md_unpack in U. destruct md_empty_ok as (e0 & Ee & _). rewrite Ee in U. cbn [bind] in U.
  destruct (fdir_unpack d) as [f|e] eqn:Uf; [|discriminate U]. cbn [bind] in U.
  destruct (fdir_unpack_inv d f W Uf) as (FV & Uh & _).
  destruct (hdr_valid_packet_len _ (proj1 FV)) as (_ & Hp).
  assert (P2 : 2 <= hdr_packet_len (fd_hdr f)) by lia.
  destruct (hdr_verify_length_and_checksum (fd_hdr f) d) as [pl|e] eqn:Ve; [|discriminate U].
  destruct (hdr_verify_accept _ _ _ P2 Ve) as (-> & Lpl & Cr).
  exists (fd_hdr f). split; [exact Uh|]. split; [exact Cr|exact Lpl].
Qed.

(* ================= C11: lengths track the setters ================= *)

Inductive md_op :=
| MSetOptions (o : option (list tlv))
| MSetSrc (n : option bytes)
| MSetDst (n : option bytes).
Definition md_apply_op (p : MetadataPdu) (o : md_op) : res MetadataPdu :=
  match o with
  | MSetOptions x => md_set_options p x
  | MSetSrc n => md_set_src p n
  | MSetDst n => md_set_dst p n
  end.
Fixpoint md_apply_ops (p : MetadataPdu) (ops : list md_op) : res MetadataPdu :=
  match ops with [] => Ok p | o :: r => do p' <- md_apply_op p o; md_apply_ops p' r end.

Definition md_len_of (c : PduConfig) (s d : lv) (o : option (list tlv)) : Z :=
  1 + (1 + Z.of_nat (fss_width c) + (1 + len s) + (1 + len d) + opts_len (opts_of o)) + crc_octets c.
Definition md_obj (c : PduConfig) (q : MdParams) (s d : lv) (o : option (list tlv)) : MetadataPdu :=
  {| md_fdir := fdir_of (conf_set_dir c 0) DT_METADATA (md_len_of c s d o - 1); md_params := q;
     md_src_lv := s; md_dst_lv := d; md_options := o |}.
(* invariant: the cached data-field length is the one computed from the current LVs and options *)
Definition md_inv (c : PduConfig) (p : MetadataPdu) : Prop :=
  p = md_obj c (md_params p) (md_src_lv p) (md_dst_lv p) (md_options p).

(* the parameter set an object currently stands for: its three values, the names held by the LVs *)
Definition md_current (p : MetadataPdu) : MdParams :=
  {| mp_closure := mp_closure (md_params p); mp_cstype := mp_cstype (md_params p);
     mp_fsize := mp_fsize (md_params p); mp_src := Some (md_src_lv p); mp_dst := Some (md_dst_lv p) |}.

Lemma md_pdu_of_inv c q o : md_inv c (md_pdu_of c q o).
Proof.
  unfold md_inv, md_obj, md_pdu_of. cbn [md_params md_src_lv md_dst_lv md_options].
  unfold md_len_of. rewrite <- md_dlen_eq. reflexivity.
Qed.

Lemma md_apply_op_inv c p o p' : flag (cf_crc c) -> flag (cf_large c) ->
  md_inv c p -> md_apply_op p o = Ok p' -> md_inv c p'.
Proof.
  intros Fc Fl I. unfold md_inv in I.
  assert (X : forall q s d x, md_calc_len {| md_fdir := md_fdir p; md_params := q; md_src_lv := s; md_dst_lv := d;
                                             md_options := x |} = Ok p' -> md_inv c p').
  { intros q s d x H. rewrite I in H. unfold md_obj at 1 in H. cbn [md_fdir] in H.
    rewrite md_calc_len_spec in H by assumption. cbv zeta in H.
    destruct (_ <=? 65535); [|discriminate H]. injection H as <-. reflexivity. }
  destruct o as [x|n|n]; unfold md_apply_op, md_set_options, md_set_src, md_set_dst.
  - apply X.
  - destruct (name_lv n); cbn [bind]; [apply X|discriminate].
  - destruct (name_lv n); cbn [bind]; [apply X|discriminate].
Qed.

Theorem md_setters_inv c q o ops p : md_valid c q o ->
  md_apply_ops (md_pdu_of c q o) ops = Ok p -> md_inv c p.
Proof.
  intros V. assert (Fc : flag (cf_crc c)) by apply V. assert (Fl : flag (cf_large c)) by apply V.
  pose proof (md_pdu_of_inv c q o) as I0.
  revert I0. generalize (md_pdu_of c q o) as p0. induction ops as [|x r IH]; intros p0 I0 A; cbn [md_apply_ops] in A.
  - injection A as <-. exact I0.
  - destruct (md_apply_op p0 x) as [p1|e] eqn:E; [|discriminate A]. cbn [bind] in A.
    apply (IH p1); [|exact A]. apply (md_apply_op_inv c p0 x p1 Fc Fl I0 E).
Qed.

(* pack reads the names from the two LVs only *)
Lemma md_pack_names p q' : mp_closure q' = mp_closure (md_params p) -> mp_cstype q' = mp_cstype (md_params p) ->
  mp_fsize q' = mp_fsize (md_params p) ->
  md_pack {| md_fdir := md_fdir p; md_params := q'; md_src_lv := md_src_lv p; md_dst_lv := md_dst_lv p;
             md_options := md_options p |} = md_pack p.
Proof.
  intros E1 E2 E3. unfold md_pack. cbn [md_fdir md_params md_src_lv md_dst_lv md_options].
  rewrite E1, E2, E3. reflexivity.
Qed.

(* K_len_inv / K_pack_eq_fresh for the Metadata PDU *)
Theorem md_len_inv c q o ops p : md_valid c q o ->
  md_apply_ops (md_pdu_of c q o) ops = Ok p -> md_valid c (md_current p) (md_options p) ->
  md_pack p = Ok (md_layout c (md_current p) (md_options p)) /\
  md_packet_len p = len (md_layout c (md_current p) (md_options p)).
Proof.
  intros V A Vp. pose proof (md_setters_inv c q o ops p V A) as I.
  destruct (md_data_field_len c (md_current p) (md_options p) Vp) as (PL & _).
  assert (E : md_pdu_of c (md_current p) (md_options p) =
              {| md_fdir := md_fdir p; md_params := md_current p; md_src_lv := md_src_lv p;
                 md_dst_lv := md_dst_lv p; md_options := md_options p |}).
  { assert (Fd : md_fdir p = fdir_of (conf_set_dir c 0) DT_METADATA
                                 (md_len_of c (md_src_lv p) (md_dst_lv p) (md_options p) - 1))
      by (rewrite I at 1; reflexivity).
    unfold md_pdu_of. rewrite Fd. unfold md_len_of. rewrite md_dlen_eq. reflexivity. }
  split.
  - rewrite <- (md_pack_names p (md_current p)) by reflexivity. rewrite <- E. apply md_pack_layout. exact Vp.
  - rewrite <- PL, E. reflexivity.
Qed.
