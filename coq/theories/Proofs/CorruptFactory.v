(* C04 through the factory: a packed CRC-flagged PDU of any of the eight kinds, altered by any burst
   that fits 16 consecutive bit positions outside octets 1..3 and the CRC flag bit (cfdp_untouched),
   handed to PduFactory.from_raw, never yields a PDU object.  The PDU-type bit of octet 0 and the
   directive-code octet are NOT excluded: whichever decoder the corrupted octets select, it refuses
   them with a documented error; the one remaining outcome is the factory's `None` (no object, no
   exception) when the directive code has become one it does not dispatch on (0x0A).
   Also: the CRC-flag flip (protocol-inherent hole) for directive PDUs. *)
From Coq Require Import ZArith List Bool Lia ZifyBool.
From SP Require Import Base.Result Base.Bytes Base.BytesFacts Base.Crc16 Base.Crc16Facts Base.Crc16Burst
  Model.PduHeader Spec.PduHeaderSpec Proofs.PduHeaderProofs Proofs.PusTcProofs Proofs.CorruptProofs
  Proofs.CorruptCfdp Proofs.CorruptCfdpB Model.FileDirective Proofs.FileDirectiveProofs
  Spec.PduASpec Spec.PduBSpec Spec.PduCSpec Proofs.DirectiveProofs
  Model.Eof Model.Ack Model.Prompt Model.KeepAlive Model.Finished Model.Metadata Model.Nak
  Proofs.EofProofs Proofs.AckProofs Proofs.PromptProofs Proofs.KeepAliveProofs
  Proofs.FinishedProofs Proofs.MetadataProofs Proofs.NakProofs
  Model.Factory Proofs.FactoryProofs.
From SP Require Model.FileData Spec.FileDataSpec Proofs.FileDataProofs Proofs.FileDataCrc.
Import ListNotations.
Open Scope Z_scope.
Ltac Zify.zify_post_hook ::= Z.to_euclidean_division_equations.

(* from_raw as "object or error": None counts as a refusal *)
Definition fac_obj (d : bytes) : res pdu :=
  do o <- fac_from_raw d; match o with Some p => Ok p | None => Err EValue end.

(* the outcome C04 allows for a corrupted PDU: a documented error, or no object *)
Definition no_object (r : res (option pdu)) : Prop :=
  match r with Ok (Some _) => False | Ok None => True | Err x => documented x = true end.

Lemma fac_obj_total d : wf_bytes d -> ok_or_documented (fac_obj d).
Proof.
  intros W. unfold fac_obj. pose proof (fac_from_raw_total d W) as T.
  destruct (fac_from_raw d) as [[p|]|x]; cbn [bind]; [exact I|reflexivity|exact T].
Qed.

Definition accept_shape (d : bytes) : Prop :=
  exists h, hdr_unpack d = Ok h /\
    (cf_crc (h_conf h) = 1 -> crc16 (firstn (Z.to_nat (hdr_packet_len h)) d) = 0) /\
    hdr_packet_len h <= len d.

Lemma prelude_accept_shape {A} (body : fdir -> bytes -> res A) d (x : A) :
  wf_bytes d -> with_prelude body d = Ok x -> accept_shape d.
Proof.
  intros W H. destruct (with_prelude_inv body d x W H) as (f & U & FV & L & Crc & _).
  destruct (fdir_unpack_inv d f W U) as (_ & Uh & _).
  exists (fd_hdr f). split; [exact Uh|]. split; [exact Crc|exact L].
Qed.

Lemma nak_accept_shape d p : wf_bytes d -> nak_unpack d = Ok p -> accept_shape d.
Proof.
  intros W U. destruct (nak_unpack_inv d p W U) as (WF & LAY). pose proof WF as (OV & _).
  pose proof (nak_fdir_unpack_layout p [] OV ltac:(constructor)) as UF. rewrite app_nil_r, LAY in UF.
  destruct (fdir_unpack_inv d _ W UF) as (_ & Uh & _).
  pose proof (nak_wf_pl p WF) as PL. rewrite LAY in PL.
  exists (nk_hdr p). split; [exact Uh|]. split.
  - intros C. rewrite PL. unfold len. rewrite Nat2Z.id, firstn_all.
    apply (nak_accept_needs_crc0 d p W U). exact C.
  - lia.
Qed.

Lemma fac_obj_accept d t : wf_bytes d -> fac_obj d = Ok t -> accept_shape d.
Proof.
  intros W E. unfold fac_obj in E.
  destruct (fac_from_raw d) as [[p|]|x] eqn:F; cbn [bind] in E; try discriminate. clear E.
  unfold fac_from_raw in F.
  destruct (fac_is_file_directive d) as [b|]; cbn [bind] in F; [|discriminate].
  destruct b; cbn [negb] in F.
  - destruct (fac_pdu_directive_type d) as [[c|]|]; cbn [bind] in F; try discriminate.
    repeat match type of F with (if ?c then _ else _) = _ => destruct c end; try discriminate.
    + destruct (eof_unpack d) as [q|] eqn:U; [|discriminate]. rewrite eof_unpack_eq in U.
      exact (prelude_accept_shape _ _ _ W U).
    + destruct (md_unpack d) as [q|] eqn:U; [|discriminate]. exact (md_accept_needs_crc0 d q W U).
    + destruct (fin_unpack d) as [q|] eqn:U; [|discriminate]. exact (fin_accept_needs_crc0 d q W U).
    + destruct (ack_unpack d) as [q|] eqn:U; [|discriminate]. rewrite ack_unpack_eq in U.
      exact (prelude_accept_shape _ _ _ W U).
    + destruct (nak_unpack d) as [q|] eqn:U; [|discriminate]. exact (nak_accept_shape d q W U).
    + destruct (ka_unpack d) as [q|] eqn:U; [|discriminate]. rewrite ka_unpack_eq in U.
      exact (prelude_accept_shape _ _ _ W U).
    + destruct (prompt_unpack d) as [q|] eqn:U; [|discriminate]. rewrite prompt_unpack_eq in U.
      exact (prelude_accept_shape _ _ _ W U).
  - destruct (FileData.fd_unpack d) as [q|] eqn:U; [|discriminate].
    destruct (FileDataProofs.fd_unpack_inv d q W U) as (H1 & _ & H3 & H4 & _).
    exists (FileData.fd_hdr q). split; [exact H1|]. split; [exact H4|exact H3].
Qed.

(* generic: an accepted, CRC-flagged packed PDU whose declared length is its length *)
Theorem fac_corrupt_generic p hp t0 e :
  wf_bytes p -> fac_from_raw p = Ok (Some t0) ->
  hdr_unpack p = Ok hp -> cf_crc (h_conf hp) = 1 -> hdr_packet_len hp = len p ->
  burst16 e -> length e = length p -> cfdp_untouched e ->
  no_object (fac_from_raw (xor_bytes p e)).
Proof.
  intros Wp F Hp C1 PL B Le U.
  assert (F0 : fac_obj p = Ok t0) by (unfold fac_obj; rewrite F; reflexivity).
  assert (HP : forall h, hdr_unpack p = Ok h -> cf_crc (h_conf h) = 1 /\ hdr_packet_len h = len p).
  { intros h Hh. rewrite Hp in Hh. injection Hh as <-. split; assumption. }
  destruct (cfdp_corrupt_rejected_ex fac_obj fac_obj_total fac_obj_accept p t0 e Wp F0 HP B Le U)
    as (x & Ex & Dx).
  unfold fac_obj in Ex. unfold no_object.
  destruct (fac_from_raw (xor_bytes p e)) as [[q|]|y]; cbn [bind] in Ex.
  - discriminate.
  - exact I.
  - injection Ex as ->. exact Dx.
Qed.

(* ---------- the four prelude directives ---------- *)
Lemma directive_facts c dir code params : directive_ok c dir code params -> cf_crc c = 1 ->
  let L := directive_layout c dir code params in
  wf_bytes L /\ exists hp, hdr_unpack L = Ok hp /\ cf_crc (h_conf hp) = 1 /\ hdr_packet_len hp = len L.
Proof.
  intros O C1 L. pose proof (directive_layout_wf _ _ _ _ O) as WL. fold L in WL.
  split; [exact WL|].
  destruct (prelude_layout c dir code params [] O ltac:(constructor)) as (U0 & _ & _).
  rewrite app_nil_r in U0. fold L in U0.
  destruct (fdir_unpack_inv L _ WL U0) as (_ & Uh & _).
  destruct (directive_layout_len _ _ _ _ O) as (LL & _). fold L in LL.
  eexists. split; [exact Uh|]. split; [cbn; exact C1|]. symmetry. exact LL.
Qed.

Ltac use_factory_ok H :=
  destruct H as (t0 & F & _).

Theorem fac_eof_corrupt_rejected c q e : eof_valid c q -> cf_crc c = 1 ->
  burst16 e -> length e = length (eof_layout c q) -> cfdp_untouched e ->
  no_object (fac_from_raw (xor_bytes (eof_layout c q) e)).
Proof.
  intros V C1 B Le U. pose proof (factory_from_raw_eof c q V) as H. use_factory_ok H.
  destruct (directive_facts c 0 4 (eof_params_layout c q) (eof_ok c q (eof_valid_wf c q V)) C1) as (WL & hp & Hp & Cp & PL).
  exact (fac_corrupt_generic _ hp t0 e WL F Hp Cp PL B Le U).
Qed.

Theorem fac_ack_corrupt_rejected c q e : ack_valid c q -> cf_crc c = 1 ->
  burst16 e -> length e = length (ack_layout c q) -> cfdp_untouched e ->
  no_object (fac_from_raw (xor_bytes (ack_layout c q) e)).
Proof.
  intros V C1 B Le U. pose proof (factory_from_raw_ack c q V) as H. use_factory_ok H.
  destruct (directive_facts c _ 6 (ack_params_layout q) (ack_ok c q V) C1) as (WL & hp & Hp & Cp & PL).
  exact (fac_corrupt_generic _ hp t0 e WL F Hp Cp PL B Le U).
Qed.

Theorem fac_prompt_corrupt_rejected c rr e : prompt_valid c rr -> cf_crc c = 1 ->
  burst16 e -> length e = length (prompt_layout c rr) -> cfdp_untouched e ->
  no_object (fac_from_raw (xor_bytes (prompt_layout c rr) e)).
Proof.
  intros V C1 B Le U. pose proof (factory_from_raw_prompt c rr V) as H. use_factory_ok H.
  destruct (directive_facts c 0 9 (prompt_params_layout rr) (prompt_ok c rr V) C1) as (WL & hp & Hp & Cp & PL).
  exact (fac_corrupt_generic _ hp t0 e WL F Hp Cp PL B Le U).
Qed.

Theorem fac_ka_corrupt_rejected c v e : ka_valid c v -> cf_crc c = 1 ->
  burst16 e -> length e = length (ka_layout c v) -> cfdp_untouched e ->
  no_object (fac_from_raw (xor_bytes (ka_layout c v) e)).
Proof.
  intros V C1 B Le U. pose proof (factory_from_raw_ka c v V) as H. use_factory_ok H.
  destruct (directive_facts c 1 12 (ka_params_layout c v) (ka_ok c v (proj1 V)) C1) as (WL & hp & Hp & Cp & PL).
  exact (fac_corrupt_generic _ hp t0 e WL F Hp Cp PL B Le U).
Qed.

(* ---------- NAK, Finished, Metadata, File Data ---------- *)
Theorem fac_nak_corrupt_rejected c q e : nak_valid c q -> cf_crc c = 1 ->
  burst16 e -> length e = length (nak_layout c q) -> cfdp_untouched e ->
  no_object (fac_from_raw (xor_bytes (nak_layout c q) e)).
Proof.
  intros V C1 B Le U. pose proof (factory_from_raw_nak c q V) as H. use_factory_ok H.
  pose proof (nak_pdu_of_wf c q V) as WF0. pose proof WF0 as (OV0 & _).
  assert (WL : wf_bytes (nak_layout c q)) by (rewrite nak_layout_obj; apply nak_obj_layout_wf; exact OV0).
  pose proof (nak_fdir_unpack_layout (nak_pdu_of c q) [] OV0 ltac:(constructor)) as U0.
  rewrite app_nil_r, <- nak_layout_obj in U0.
  destruct (fdir_unpack_inv _ _ WL U0) as (_ & Uh & _).
  pose proof (nak_wf_pl _ WF0) as PL0. rewrite <- nak_layout_obj in PL0.
  exact (fac_corrupt_generic _ _ t0 e WL F Uh C1 PL0 B Le U).
Qed.

Theorem fac_fin_corrupt_rejected c q e : fin_valid c q -> cf_crc c = 1 ->
  burst16 e -> length e = length (fin_layout c q) -> cfdp_untouched e ->
  no_object (fac_from_raw (xor_bytes (fin_layout c q) e)).
Proof.
  intros V C1 B Le U. pose proof (factory_from_raw_finished c q V) as H. use_factory_ok H.
  assert (Wp : wf_bytes (fin_layout c q)).
  { unfold fin_layout. rewrite with_crc_split. apply wf_bytes_app. split; [apply fin_pre_wf; exact V|apply crc_tail_wf]. }
  pose proof (fin_layout_len c q V) as PL. pose proof (fin_hdr_of_layout c q V) as HL.
  apply (fac_corrupt_generic _ (fin_header c q) t0 e Wp F HL); try assumption; try (cbn; exact C1).
  rewrite PL. unfold hdr_packet_len. cbn [h_dlen fin_header]. lia.
Qed.

Theorem fac_md_corrupt_rejected c q o e : md_valid c q o -> cf_crc c = 1 ->
  burst16 e -> length e = length (md_layout c q o) -> cfdp_untouched e ->
  no_object (fac_from_raw (xor_bytes (md_layout c q o) e)).
Proof.
  intros V C1 B Le U. pose proof (factory_from_raw_metadata c q o V) as H. use_factory_ok H.
  assert (Wp : wf_bytes (md_layout c q o)).
  { unfold md_layout. rewrite with_crc_split. apply wf_bytes_app. split; [apply md_pre_wf; exact V|apply crc_tail_wf]. }
  pose proof (md_layout_len c q o V) as PL. pose proof (md_hdr_of_layout c q o V) as HL.
  apply (fac_corrupt_generic _ (md_header c q o) t0 e Wp F HL); try assumption; try (cbn; exact C1).
  rewrite PL. unfold hdr_packet_len. cbn [h_dlen md_header]. lia.
Qed.

Theorem fac_fd_corrupt_rejected c q e : FileDataSpec.fd_valid c q -> cf_crc c = 1 ->
  burst16 e -> length e = length (FileDataSpec.fd_layout c q) -> cfdp_untouched e ->
  no_object (fac_from_raw (xor_bytes (FileDataSpec.fd_layout c q) e)).
Proof.
  intros V C1 B Le U. pose proof (factory_from_raw_file_data c q V) as H. use_factory_ok H.
  set (p := FileDataSpec.fd_layout c q) in *.
  pose proof (FileDataCrc.fd_unpack_pack_full c q [] V ltac:(constructor)) as R. rewrite app_nil_r in R. fold p in R.
  assert (Wp : wf_bytes p).
  { unfold p, FileDataSpec.fd_layout. cbv zeta. rewrite C1. cbn [Z.eqb Pos.eqb].
    pose proof (FileDataProofs.fd_pre_wf c q V) as WP. rewrite wf_bytes_app. split; [exact WP|apply be_encode_wf]. }
  destruct (FileDataProofs.fd_unpack_inv p _ Wp R) as (HU & _).
  destruct (FileDataProofs.fd_data_field_len c q V) as (_ & PL & _). cbv zeta in PL. fold p in PL.
  cbn [FileData.fd_hdr FileDataSpec.fd_pdu_of] in *.
  apply (fac_corrupt_generic _ (FileDataSpec.fd_header c q) t0 e Wp F HU); try assumption; try (cbn; exact C1).
  all: try (unfold FileData.fd_packet_len in PL; cbn [FileData.fd_hdr FileDataSpec.fd_pdu_of] in PL; lia).
Qed.

(* the `None` outcome is real: a single flipped bit turns the NAK directive code 0x08 into 0x0A *)
Definition fx_conf : PduConfig :=
  {| cf_src := {| ubf_val := 1; ubf_len := 1 |}; cf_dst := {| ubf_val := 2; ubf_len := 1 |};
     cf_seq := {| ubf_val := 3; ubf_len := 1 |};
     cf_mode := 0; cf_large := 0; cf_crc := 1; cf_dir := 0; cf_segctrl := 0 |}.
Example fac_none_example :
  let L := nak_layout fx_conf {| np_start := 0; np_end := 1; np_segs := [] |} in
  let e := repeat 0 7 ++ [2] ++ repeat 0 10 in
  burst16 e /\ length e = length L /\ cfdp_untouched e /\ fac_from_raw (xor_bytes L e) = Ok None.
Proof.
  cbv zeta. split; [apply (single_bit_burst 7 1 10); lia|]. split; [vm_compute; reflexivity|].
  split; [repeat split|vm_compute; reflexivity].
Qed.

(* ================= the CRC-flag flip on directive PDUs (protocol-inherent) =================
   Flipping the CRC flag itself (bit 1 of octet 0; octets 1..3 untouched) switches verification
   off.  ACK: accepted, the two CRC octets are silently ignored.  EOF: the CRC trailer is read as
   the optional fault-location TLV, so the PDU is accepted exactly when the trailer happens to
   look like an entity-ID TLV -- file size 48178 gives CRC 06 00 = "entity ID, length 0". *)
Definition fx_ack : AckParams := {| ap_code := 4; ap_cc := 0; ap_status := 1 |}.
Definition fx_eof : EofParams := {| ep_cc := 0; ep_checksum := [1; 2; 3; 4]; ep_size := 48178; ep_fault := None |}.

Theorem ack_crcflag_flip_refuted :
  ack_valid fx_conf fx_ack /\ cf_crc fx_conf = 1 /\
  let e := 2 :: repeat 0 11 in
  burst16 e /\ length e = length (ack_layout fx_conf fx_ack) /\
  nth 1 e 0 = 0 /\ nth 2 e 0 = 0 /\ nth 3 e 0 = 0 /\
  exists p', ack_unpack (xor_bytes (ack_layout fx_conf fx_ack) e) = Ok p' /\
             ack_code p' = 4 /\ ack_status p' = 1 /\ cf_crc (h_conf (fd_hdr (ack_fd p'))) = 0 /\
             fac_from_raw (xor_bytes (ack_layout fx_conf fx_ack) e) = Ok (Some (PAck p')).
Proof.
  split.
  { unfold ack_valid, conf_valid, ubf_valid, width_ok, flag, fx_conf, fx_ack.
    cbn [cf_src cf_dst cf_seq cf_mode cf_large cf_crc cf_dir cf_segctrl ubf_val ubf_len ap_code ap_cc ap_status].
    repeat split; try lia; try (vm_compute; intuition congruence). }
  split; [reflexivity|]. cbv zeta. split.
  { exists 0%nat, [2], 11%nat. split; [reflexivity|]. constructor. lia. }
  split; [vm_compute; reflexivity|]. split; [reflexivity|]. split; [reflexivity|]. split; [reflexivity|].
  eexists. split; [vm_compute; reflexivity|].
  split; [reflexivity|]. split; [reflexivity|]. split; [reflexivity|]. vm_compute. reflexivity.
Qed.

Theorem eof_crcflag_flip_refuted :
  eof_valid fx_conf fx_eof /\ cf_crc fx_conf = 1 /\
  let e := 2 :: repeat 0 18 in
  burst16 e /\ length e = length (eof_layout fx_conf fx_eof) /\
  nth 1 e 0 = 0 /\ nth 2 e 0 = 0 /\ nth 3 e 0 = 0 /\
  exists p', eof_unpack (xor_bytes (eof_layout fx_conf fx_eof) e) = Ok p' /\
             eof_size p' = 48178 /\ cf_crc (h_conf (fd_hdr (eof_fd p'))) = 0 /\
             (* the CRC trailer 06 00 has become the fault location *)
             eof_fault p' = Some {| Tlv.tlv_type := 6; Tlv.tlv_value := [] |}.
Proof.
  split.
  { unfold eof_valid, conf_valid, ubf_valid, width_ok, flag, fx_conf, fx_eof.
    cbn [cf_src cf_dst cf_seq cf_mode cf_large cf_crc cf_dir cf_segctrl ubf_val ubf_len
         ep_cc ep_checksum ep_size ep_fault].
    repeat split; try lia; try (repeat constructor; lia); try (vm_compute; intuition congruence). }
  split; [reflexivity|]. cbv zeta. split.
  { exists 0%nat, [2], 18%nat. split; [reflexivity|]. constructor. lia. }
  split; [vm_compute; reflexivity|]. split; [reflexivity|]. split; [reflexivity|]. split; [reflexivity|].
  eexists. split; [vm_compute; reflexivity|]. repeat split.
Qed.
