(* C14 gap: the float view as_unix_seconds is STRICTLY monotone: a later timestamp gives a
   strictly larger double (consecutive representable stamps are 1 ms apart, the rounding error
   of the correctly rounded division is at most 2^-21 s on each side). *)
From Coq Require Import ZArith List Bool Lia ZifyBool.
From SP Require Import Base.Result Base.Bytes Model.Cds Model.CdsSoftFloat Model.CdsFloat
  Spec.CdsSpec Proofs.CdsProofs Proofs.CdsFloatProofs.
Import ListNotations.
Open Scope Z_scope.

(* x < y for doubles x = fm x * 2^(fe x), y = fm y * 2^(fe y), as exact rationals: both
   brought to the smaller exponent *)
Definition fl_lt (x y : fl) : Prop :=
  let e := Z.min (fe x) (fe y) in fm x * 2 ^ (fe x - e) < fm y * 2 ^ (fe y - e).

Lemma fl_lt_asym x y : fl_lt x y -> fl_lt y x -> False.
Proof. unfold fl_lt. rewrite (Z.min_comm (fe y) (fe x)). cbv zeta. lia. Qed.

Lemma fl_lt_irrefl x : ~ fl_lt x x.
Proof. unfold fl_lt. cbv zeta. lia. Qed.

(* for negative exponents: cross-multiplication *)
Lemma fl_lt_cross x y : fe x < 0 -> fe y < 0 ->
  (fl_lt x y <-> fm x * 2 ^ (- fe y) < fm y * 2 ^ (- fe x)).
Proof.
  intros Hx Hy. unfold fl_lt. cbv zeta.
  set (e := Z.min (fe x) (fe y)).
  pose proof (pow2_pos (- fe x) ltac:(lia)) as PX. pose proof (pow2_pos (- fe y) ltac:(lia)) as PY.
  pose proof (pow2_pos (fe x - e) ltac:(lia)) as Pp. pose proof (pow2_pos (fe y - e) ltac:(lia)) as Pq.
  pose proof (pow2_pos (- e) ltac:(lia)) as PE.
  assert (E1 : 2 ^ (fe x - e) * 2 ^ (- fe x) = 2 ^ (- e)) by (rewrite <- pow2_add by lia; f_equal; lia).
  assert (E2 : 2 ^ (fe y - e) * 2 ^ (- fe y) = 2 ^ (- e)) by (rewrite <- pow2_add by lia; f_equal; lia).
  set (A := 2 ^ (- fe x)) in *. set (B := 2 ^ (- fe y)) in *.
  set (P := 2 ^ (fe x - e)) in *. set (Q := 2 ^ (fe y - e)) in *. set (E := 2 ^ (- e)) in *.
  (* multiply the left inequality by A * B, the right one by E *)
  assert (L : (fm x * P) * (A * B) = (fm x * B) * E) by (rewrite <- E1; ring).
  assert (R : (fm y * Q) * (A * B) = (fm y * A) * E) by (rewrite <- E2; ring).
  assert (PAB : 0 < A * B) by (apply Z.mul_pos_pos; assumption).
  split; intros H.
  - apply (Z.mul_lt_mono_pos_r (A * B)) in H; [|assumption]. rewrite L, R in H.
    apply (Z.mul_lt_mono_pos_r E); assumption.
  - apply (Z.mul_lt_mono_pos_r E) in H; [|assumption]. rewrite <- L, <- R in H.
    apply (Z.mul_lt_mono_pos_r (A * B)); assumption.
Qed.

(* two doubles within 2^-21 of n1/1000 < n2/1000 (integers n1 < n2) are strictly ordered *)
Lemma close_lt u1 u2 n1 n2 :
  fl_close u1 n1 1000 21 -> fl_close u2 n2 1000 21 -> n1 < n2 -> fl_lt u1 u2.
Proof.
  intros [F1 C1] [F2 C2] Hn. apply fl_lt_cross; [assumption|assumption|].
  pose proof (pow2_pos (- fe u1) ltac:(lia)) as PA. pose proof (pow2_pos (- fe u2) ltac:(lia)) as PB.
  set (A := 2 ^ (- fe u1)) in *. set (B := 2 ^ (- fe u2)) in *.
  change (2 ^ 21) with 2097152 in *.
  (* 2^21 * 1000 * m1 <= (2^21 n1 + 1000) A ;  (2^21 n2 - 1000) B <= 2^21 * 1000 * m2 *)
  assert (U1 : 2097152 * (1000 * fm u1 - n1 * A) <= 1000 * A) by lia.
  assert (L2 : - (1000 * B) <= 2097152 * (1000 * fm u2 - n2 * B)) by lia.
  assert (X : 0 < A * B) by (apply Z.mul_pos_pos; assumption).
  assert (H1 : 2097152000 * (fm u1 * B) <= (2097152 * n1 + 1000) * (A * B)).
  { replace (2097152000 * (fm u1 * B)) with ((2097152 * (1000 * fm u1 - n1 * A)) * B + 2097152 * n1 * (A * B)) by ring.
    replace ((2097152 * n1 + 1000) * (A * B)) with ((1000 * A) * B + 2097152 * n1 * (A * B)) by ring.
    apply Z.add_le_mono_r. apply Z.mul_le_mono_nonneg_r; lia. }
  assert (H2 : (2097152 * n2 - 1000) * (A * B) <= 2097152000 * (fm u2 * A)).
  { replace (2097152000 * (fm u2 * A)) with ((2097152 * (1000 * fm u2 - n2 * B)) * A + 2097152 * n2 * (A * B)) by ring.
    replace ((2097152 * n2 - 1000) * (A * B)) with ((- (1000 * B)) * A + 2097152 * n2 * (A * B)) by ring.
    apply Z.add_le_mono_r. apply Z.mul_le_mono_nonneg_r; lia. }
  assert (H3 : (2097152 * n1 + 1000) * (A * B) < (2097152 * n2 - 1000) * (A * B)).
  { apply Z.mul_lt_mono_pos_r; lia. }
  lia.
Qed.

Lemma fl_lt_zero_pos u : 0 < fm u -> fe u < 0 -> fl_lt fzero u.
Proof.
  intros Hm He. unfold fl_lt, fzero. cbn [fm fe]. cbv zeta.
  rewrite Z.min_r by lia. rewrite Z.sub_diag. cbn [Z.pow]. lia.
Qed.
Lemma fl_lt_neg_zero u : fm u < 0 -> fe u < 0 -> fl_lt u fzero.
Proof.
  intros Hm He. unfold fl_lt, fzero. cbn [fm fe]. cbv zeta.
  rewrite Z.min_l by lia. rewrite Z.sub_diag. cbn [Z.pow]. lia.
Qed.

Lemma cds_unix_seconds_lt a b : cds_valid a -> cds_valid b ->
  cds_instant_ms a < cds_instant_ms b -> fl_lt (cds_unix_seconds a) (cds_unix_seconds b).
Proof.
  intros Va Vb H.
  destruct (cds_unix_seconds_close a Va) as [Za Na]. destruct (cds_unix_seconds_close b Vb) as [Zb Nb].
  destruct (Z.eq_dec (cds_instant_ms a) 0) as [Ea|Ea]; destruct (Z.eq_dec (cds_instant_ms b) 0) as [Eb|Eb].
  - lia.
  - rewrite (Za Ea). destruct (Nb Eb) as ([Fb _] & _ & Pb & _). apply fl_lt_zero_pos; [apply Pb; lia|exact Fb].
  - rewrite (Zb Eb). destruct (Na Ea) as ([Fa _] & _ & _ & Pa). apply fl_lt_neg_zero; [apply Pa; lia|exact Fa].
  - destruct (Na Ea) as (Ca & _). destruct (Nb Eb) as (Cb & _). eapply close_lt; eassumption.
Qed.

(* later timestamps map to strictly later Unix seconds, and conversely *)
Theorem cds_unix_seconds_monotone a b : cds_valid a -> cds_valid b ->
  (cds_lt a b <-> fl_lt (cds_unix_seconds a) (cds_unix_seconds b)).
Proof.
  intros Va Vb.
  assert (Ra : 0 <= cms a < 86400000) by (destruct Va; lia).
  assert (Rb : 0 <= cms b < 86400000) by (destruct Vb; lia).
  rewrite (cds_monotone a b Ra Rb). split.
  - apply cds_unix_seconds_lt; assumption.
  - intros H. destruct (Z.lt_trichotomy (cds_instant_ms a) (cds_instant_ms b)) as [L|[E|G]]; [exact L| |].
    + exfalso. rewrite !cds_unix_seconds_is, E in H. exact (fl_lt_irrefl _ H).
    + exfalso. exact (fl_lt_asym _ _ H (cds_unix_seconds_lt b a Vb Va G)).
Qed.

(* distinct timestamps have distinct Unix seconds *)
Corollary cds_unix_seconds_inj a b : cds_valid a -> cds_valid b ->
  cds_unix_seconds a = cds_unix_seconds b -> a = b.
Proof.
  intros Va Vb E.
  assert (Ra : 0 <= cms a < 86400000) by (destruct Va; lia).
  assert (Rb : 0 <= cms b < 86400000) by (destruct Vb; lia).
  apply cds_instant_inj; try assumption.
  destruct (Z.lt_trichotomy (cds_instant_ms a) (cds_instant_ms b)) as [L|[E'|G]]; [|exact E'|].
  - exfalso. pose proof (cds_unix_seconds_lt a b Va Vb L) as H. rewrite E in H. exact (fl_lt_irrefl _ H).
  - exfalso. pose proof (cds_unix_seconds_lt b a Vb Va G) as H. rewrite E in H. exact (fl_lt_irrefl _ H).
Qed.

(* non-vacuity: two stamps one millisecond apart around the Unix epoch and at the top of the range *)
Lemma unix_seconds_lt_example :
  fl_lt (cds_unix_seconds {| cdays := 4382; cms := 86399999 |}) (cds_unix_seconds {| cdays := 4383; cms := 0 |}) /\
  fl_lt (cds_unix_seconds {| cdays := 4383; cms := 0 |}) (cds_unix_seconds {| cdays := 4383; cms := 1 |}) /\
  fl_lt (cds_unix_seconds {| cdays := 65535; cms := 86399998 |}) (cds_unix_seconds {| cdays := 65535; cms := 86399999 |}).
Proof. unfold fl_lt. vm_compute. repeat split. Qed.

(* non-vacuity for dt_valid: the last microsecond before the Unix epoch *)
Lemma dt_valid_example :
  dt_valid (-1) 86399 999999 /\
  cds_from_datetime (-1) 86399 999999 = {| cdays := 4382; cms := 86399999 |}.
Proof. split; [unfold dt_valid; lia|vm_compute; reflexivity]. Qed.
