(* C17 gaps: managed parameters that do not match (insert zone / FECF presence and size;
   construction rule vs frame type) at frame_unpack level; explicit header lengths. *)
From Coq Require Import ZArith List Bool Lia ZifyBool.
From SP Require Import Base.Result Base.Bytes Base.BytesFacts Model.UslpHeader Model.UslpFrame
  Spec.UslpSpec Proofs.UslpProofs Proofs.UslpFrameProofs.
Import ListNotations.
Open Scope Z_scope.
Ltac Zify.zify_post_hook ::= Z.to_euclidean_division_equations.

(* ================= (d) the header lengths, explicitly ================= *)

Theorem phdr_layout_len_explicit h : 0 <= vcf_len h <= 7 -> len (phdr_layout h) = 7 + vcf_len h.
Proof. intros H. rewrite phdr_layout_length by lia. reflexivity. Qed.

Theorem thdr_layout_len_explicit b : len (thdr_layout b) = 4.
Proof. reflexivity. Qed.

(* ================= (a) the decoded zones have exactly the managed sizes ================= *)

Lemma py_slice_len (d : bytes) a b : 0 <= a -> a <= b -> b <= len d -> len (py_slice d a b) = b - a.
Proof.
  intros Ha Hab Hb. unfold py_slice. rewrite !norm_idx_id by lia.
  unfold len at 1. rewrite slice_length by lia. lia.
Qed.

Lemma phdr_unpack_vcf_len_nonneg raw uv ph : phdr_unpack raw uv = Ok ph -> 0 <= vcf_len ph.
Proof.
  unfold phdr_unpack. destruct (len raw <? 7); [discriminate|]. intros H.
  apply bind_ok in H as (b & _ & H). apply bind_ok in H as (r4 & _ & H).
  apply bind_ok in H as (r5 & _ & H). apply bind_ok in H as (r6 & _ & H).
  destruct (_ >? _); [discriminate|]. apply bind_ok in H as (c & _ & H).
  inversion H; subst ph. cbn [vcf_len]. apply Z.land_nonneg. right. lia.
Qed.

(* what the body of TransferFrame.unpack returns, whatever the octets: header as decoded,
   insert zone / FECF present exactly as the managed parameters say and of exactly their sizes *)
Lemma frame_unpack_body_zones raw ft p h g :
  frame_unpack_body raw ft p h = Ok g -> 0 <= hdr_len h ->
  (iz_present p = true -> 0 <= iz_size p) -> (fecf_present p = true -> 0 <= fecf_size p) ->
  hdr g = h /\
  is_some (izone g) = iz_present p /\ (iz_present p = true -> opt_len (izone g) = iz_size p) /\
  is_some (fecf g) = fecf_present p /\ (fecf_present p = true -> opt_len (fecf g) = fecf_size p).
Proof.
  unfold frame_unpack_body. intros H HL Hz Hf.
  apply bind_ok in H as ([] & E0 & H).
  apply bind_ok in H as (efl & E1 & H).
  destruct (len raw <? efl) eqn:G1; [discriminate|].
  apply bind_ok in H as (e & E2 & H).
  destruct (_ || _) eqn:G2; [discriminate|].
  apply bind_ok in H as ([iz cur] & E3 & H).
  apply bind_ok in H as (t & _ & H).
  (* e = expected frame length - header - FECF - OCF - insert zone *)
  assert (Ee : e = efl - hdr_len h
                   - (if fecf_present p then fecf_size p else 0)
                   - (match h with HPrim ph => if negb (ocf_flag ph =? 0) then 4 else 0 | HTrunc _ => 0 end)
                   - (if iz_present p then iz_size p else 0)).
  { unfold get_tfdf_len in E2. apply bind_ok in E2 as (e0 & Eb & E2).
    assert (e0 = efl - hdr_len h).
    { destruct ft, h as [b|ph]; try discriminate.
      - destruct (_ <? _) in Eb; [discriminate|]. injection Eb as <-. injection E1 as <-. cbn [hdr_len] in *. lia.
      - destruct (p_fixed p); [discriminate|]. injection Eb as <-. injection E1 as <-. cbn [hdr_len] in *. lia.
      - injection Eb as <-. injection E1 as <-. cbn [hdr_len] in *. lia. }
    subst e0. inversion E2 as [E]. clear E2.
    destruct (fecf_present p), (iz_present p), h as [b|ph]; try (destruct (negb (ocf_flag ph =? 0))); lia. }
  pose proof (len_nonneg raw) as NR.
  assert (Ecur : cur = hdr_len h + (if iz_present p then iz_size p else 0) /\
                 is_some iz = iz_present p /\ (iz_present p = true -> opt_len iz = iz_size p)).
  { destruct (iz_present p) eqn:PZ.
    - destruct (_ >? _) eqn:G3 in E3; [discriminate|]. inversion E3; subst iz cur.
      split; [reflexivity|]. split; [reflexivity|]. intros _. cbn [opt_len].
      specialize (Hz eq_refl). rewrite py_slice_len by lia. lia.
    - inversion E3; subst iz cur. split; [lia|]. split; [reflexivity|discriminate]. }
  destruct Ecur as (-> & Ziz & Liz).
  cbv zeta in H. clear E0 E1 E2 E3.
  set (hl := hdr_len h) in *. clearbody hl.
  destruct h as [b|ph].
  - injection H as <-. cbn [hdr izone fecf]. repeat split; try assumption.
    + destruct (fecf_present p); reflexivity.
    + intros F. rewrite F in *. cbv iota in Ee. cbn [opt_len]. specialize (Hf eq_refl).
      destruct (iz_present p); try specialize (Hz eq_refl); cbv iota in *;
        (rewrite py_slice_len by lia); lia.
  - destruct (negb (ocf_flag ph =? 0)) eqn:O; injection H as <-; cbn [hdr izone fecf];
      (repeat split; try assumption; [destruct (fecf_present p); reflexivity|]);
      intros F; rewrite F in *; cbv iota in Ee; cbn [opt_len]; specialize (Hf eq_refl);
      destruct (iz_present p); try specialize (Hz eq_refl); cbv iota in *;
        (rewrite py_slice_len by lia); lia.
Qed.

Lemma frame_unpack_hdr_len_nonneg raw ft p g :
  frame_unpack raw ft p = Ok g ->
  exists h, frame_unpack_body raw ft p h = Ok g /\ 4 <= hdr_len h.
Proof.
  rewrite frame_unpack_unfold. destruct (len raw <? 4); [discriminate|]. intros H.
  apply bind_ok in H as (u & _ & H). apply bind_ok in H as (ht & _ & H).
  apply bind_ok in H as (h & Eh & H). exists h. split; [exact H|].
  destruct (ht =? HT_TRUNCATED).
  - destruct ft; [discriminate|]. destruct (p_fixed p); [discriminate|].
    apply bind_ok in Eh as (b & _ & Eh). inversion Eh. cbn [hdr_len]. unfold thdr_len. lia.
  - apply bind_ok in Eh as (ph & Ep & Eh). inversion Eh. cbn [hdr_len]. unfold phdr_len.
    apply phdr_unpack_vcf_len_nonneg in Ep. lia.
Qed.

(* TransferFrame.unpack, ANY octet string, either frame type, any managed parameters with
   non-negative sizes: whenever a frame is returned, its insert zone and FECF are present exactly
   as the managed parameters say and have exactly the managed sizes *)
Theorem frame_unpack_zone_sizes raw ft p g :
  frame_unpack raw ft p = Ok g ->
  (iz_present p = true -> 0 <= iz_size p) -> (fecf_present p = true -> 0 <= fecf_size p) ->
  is_some (izone g) = iz_present p /\ (iz_present p = true -> opt_len (izone g) = iz_size p) /\
  is_some (fecf g) = fecf_present p /\ (fecf_present p = true -> opt_len (fecf g) = fecf_size p).
Proof.
  intros H Hz Hf. apply frame_unpack_hdr_len_nonneg in H as (h & H & HL).
  apply (frame_unpack_body_zones raw ft p h g H ltac:(lia) Hz Hf).
Qed.

(* the managed parameters p' differ from the frame's in the presence or the size of the insert
   zone or of the FECF *)
Definition zones_mismatch (f : frame) (p' : fprops) : Prop :=
  iz_present p' <> is_some (izone f) \/ fecf_present p' <> is_some (fecf f) \/
  (iz_present p' = true /\ iz_size p' <> opt_len (izone f)) \/
  (fecf_present p' = true /\ fecf_size p' <> opt_len (fecf f)).

(* ... then the frame is never reproduced: unpack either raises or returns a frame that differs
   from the one that was packed (in its insert zone or its FECF).  Holds for every frame type
   asked for, every other setting of p' (class, fixed / truncated length) and any octets behind
   the frame.  (Negative sizes, which the managed-parameter constructors do not refuse, are
   excluded: Python's negative slice bounds would count from the end of the buffer.) *)
Theorem frame_unpack_zones_mismatch f p' ft rest :
  (iz_present p' = true -> 0 <= iz_size p') -> (fecf_present p' = true -> 0 <= fecf_size p') ->
  zones_mismatch f p' ->
  frame_unpack (frame_layout (hdr_layout (hdr f)) f ++ rest) ft p' <> Ok (frame_norm f).
Proof.
  intros Hz Hf M E.
  destruct (frame_unpack_zone_sizes _ _ _ _ E Hz Hf) as (Pz & Sz & Pf & Sf).
  unfold frame_norm in *. cbn [izone fecf] in *.
  destruct M as [M|[M|[(Z1 & M)|(F & M)]]].
  - apply M. symmetry. exact Pz.
  - apply M. symmetry. exact Pf.
  - apply M. symmetry. apply Sz. exact Z1.
  - apply M. symmetry. apply Sf. exact F.
Qed.

(* in terms of the matching parameters p of C17_frame_unpack_pack *)
Theorem frame_unpack_props_mismatch f p p' ft rest :
  props_match f p ->
  (iz_present p' = true -> 0 <= iz_size p') -> (fecf_present p' = true -> 0 <= fecf_size p') ->
  (iz_present p' <> iz_present p \/ fecf_present p' <> fecf_present p \/
   (iz_present p' = true /\ iz_present p = true /\ iz_size p' <> iz_size p) \/
   (fecf_present p' = true /\ fecf_present p = true /\ fecf_size p' <> fecf_size p)) ->
  frame_unpack (frame_layout (hdr_layout (hdr f)) f ++ rest) ft p' <> Ok (frame_norm f).
Proof.
  intros (_ & _ & Pz & Sz & Pf & Sf) Hz Hf M.
  apply frame_unpack_zones_mismatch; try assumption. unfold zones_mismatch.
  destruct M as [M|[M|[(Z' & Z1 & M)|(F' & F & M)]]].
  - left. rewrite <- Pz. exact M.
  - right; left. rewrite <- Pf. exact M.
  - right; right; left. split; [exact Z'|]. rewrite <- (Sz Z1). exact M.
  - right; right; right. split; [exact F'|]. rewrite <- (Sf F). exact M.
Qed.

(* ---- which errors: only the USLP classes, once the class of the parameters fits ---- *)

Definition uslp_len_or_rules (e : err) : Prop := e = EInvalidLen \/ e = EInvalidConstrRules.

Lemma tfdf_unpack_errors raw tr e ft x :
  tfdf_unpack raw tr e ft = Err x -> uslp_len_or_rules x.
Proof.
  unfold tfdf_unpack, uslp_len_or_rules. destruct (len raw <? 1) eqn:L1; [intros H; inversion H; auto|].
  destruct (py_get_ok raw 0 ltac:(lia)) as (b0 & ->). cbn [bind].
  destruct (match ft with Some f => negb (verify_frame_type _ f) | None => false end);
    [intros H; inversion H; auto|].
  destruct (should_have_fhp _ tr ft).
  - destruct (_ || _) eqn:G; [intros H; inversion H; auto|].
    destruct (py_get_ok raw 1 ltac:(lia)) as (b1 & ->).
    destruct (py_get_ok raw 2 ltac:(lia)) as (b2 & ->). cbn [bind]. discriminate.
  - cbn [bind]. discriminate.
Qed.

Lemma frame_unpack_body_errors raw ft p h x :
  (forall b, h = HTrunc b -> ft = FtVariable /\ p_fixed p = false) ->
  frame_unpack_body raw ft p h = Err x -> uslp_len_or_rules x.
Proof.
  intros Hh. unfold frame_unpack_body, uslp_len_or_rules.
  destruct (match ft, h with
            | FtFixed, HPrim ph => if negb (frame_len ph + 1 =? p_len p) then Err EInvalidLen else Ok tt
            | FtFixed, HTrunc _ => Err EAttribute
            | FtVariable, _ => Ok tt end) as [[]|e0] eqn:E0; cbn [bind].
  2:{ intros H; inversion H; subst. destruct ft, h as [b|ph]; try discriminate.
      - destruct (Hh b eq_refl) as (? & _). discriminate.
      - destruct (negb _); inversion E0. auto. }
  destruct (match h with
            | HTrunc _ => if p_fixed p then Err EAttribute else Ok (p_len p)
            | HPrim ph => Ok (frame_len ph + 1) end) as [efl|e1] eqn:E1; cbn [bind].
  2:{ destruct h as [b|ph]; [|discriminate]. destruct (Hh b eq_refl) as (_ & F). rewrite F in E1. discriminate. }
  destruct (len raw <? efl); [intros H; inversion H; auto|].
  destruct (get_tfdf_len ft h (len raw) p) as [e|e2] eqn:E2; cbn [bind].
  2:{ intros H; inversion H; subst. unfold get_tfdf_len in E2.
      destruct ft, h as [b|ph]; cbn [bind] in E2.
      - destruct (Hh b eq_refl) as (? & _). discriminate.
      - destruct (_ <? _) in E2; cbn [bind] in E2; inversion E2. auto.
      - destruct (Hh b eq_refl) as (_ & F). rewrite F in E2. cbn [bind] in E2. discriminate.
      - discriminate. }
  destruct (_ || _); [intros H; inversion H; auto|].
  destruct (if iz_present p then _ else _) as [[iz cur]|e3] eqn:E3; cbn [bind].
  2:{ intros H; inversion H; subst. destruct (iz_present p); [|discriminate].
      destruct (_ >? _) in E3; inversion E3. auto. }
  destruct (tfdf_unpack _ _ _ _) as [t|e4] eqn:E4; cbn [bind].
  2:{ intros H; inversion H; subst. eapply tfdf_unpack_errors. exact E4. }
  cbv zeta. intros H. destruct h as [b|ph]; [discriminate H|]. destruct (negb _) in H; discriminate H.
Qed.

(* the octets of a packed frame (plus anything), the frame type of its construction rule, and
   managed parameters of the right class that are wrong in any other respect (lengths, insert
   zone, FECF): unpack fails only with UslpInvalidRawPacketOrFrameLen or
   UslpInvalidConstructionRules *)
Theorem frame_unpack_mismatch_error_class f p' rest x :
  frame_consistent f ->
  p_fixed p' = (match ftype_of_rule (rules (ftfdf f)) with FtFixed => true | FtVariable => false end) ->
  frame_unpack (frame_layout (hdr_layout (hdr f)) f ++ rest) (ftype_of_rule (rules (ftfdf f))) p' = Err x ->
  uslp_len_or_rules x.
Proof.
  destruct f as [h [r i fh dz sz] iz oc fe].
  unfold frame_consistent, frame_layout. cbn [hdr ftfdf izone ocf fecf rules ident fhp tfdz tsize].
  intros (Hv & _ & _ & Htr) Pfx.
  rewrite <- app_assoc. set (tail := (_ ++ _ ++ _ ++ _) ++ rest).
  assert (HL4 : 4 <= len (hdr_layout h)).
  { rewrite hdr_layout_len by assumption.
    destruct h as [b|ph]; cbn [hdr_len]; unfold thdr_len, phdr_len; [lia|].
    cbn [hdr_valid] in Hv. destruct Hv as (_ & _ & _ & _ & _ & (? & _)). lia. }
  rewrite frame_unpack_unfold. rewrite len_app. pose proof (len_nonneg tail) as NT.
  destruct (_ <? 4) eqn:G; [lia|]. clear G.
  assert (K : forall (ft : ftype),
    (forall b', hdr_norm h = HTrunc b' -> ft = FtVariable /\ p_fixed p' = false) ->
    (ft = FtFixed -> hdr_truncated h = false) ->
    (do ht <- determine_header_type (hdr_layout h ++ tail);
     do h0 <- (if ht =? HT_TRUNCATED then
                 match ft with
                 | FtVariable => if p_fixed p' then Err EValue else
                                 do b <- thdr_unpack (hdr_layout h ++ tail) USLP_VERSION_NUMBER; Ok (HTrunc b)
                 | FtFixed => Err ETruncatedNotAllowed
                 end
               else do ph <- phdr_unpack (hdr_layout h ++ tail) USLP_VERSION_NUMBER; Ok (HPrim ph));
     frame_unpack_body (hdr_layout h ++ tail) ft p' h0) = Err x -> uslp_len_or_rules x).
  { intros ft Hb Hfx. rewrite determine_hdr_layout by assumption. cbn [bind].
    destruct h as [b|ph]; cbn [hdr_truncated hdr_valid hdr_layout hdr_norm] in *.
    - change (HT_TRUNCATED =? HT_TRUNCATED) with true. cbv iota.
      destruct (Hb b eq_refl) as (-> & Pf0). rewrite Pf0.
      rewrite thdr_unpack_pack by assumption. cbn [bind].
      apply frame_unpack_body_errors. intros b' _. split; [reflexivity|exact Pf0].
    - change (HT_NON_TRUNCATED =? HT_TRUNCATED) with false. cbv iota.
      rewrite phdr_unpack_pack by assumption. cbn [bind].
      apply frame_unpack_body_errors. intros b' E. discriminate E. }
  unfold ftype_of_rule in *. destruct (r <? 3) eqn:R.
  - rewrite Pfx. cbn [negb]. destruct (_ <? p_len p'); cbn [bind].
    + intros H; inversion H. left; reflexivity.
    + apply (K FtFixed).
      * intros b' E. destruct h as [b|ph]; [specialize (Htr eq_refl); lia|discriminate E].
      * intros _. destruct h as [b|ph]; [specialize (Htr eq_refl); lia|reflexivity].
  - cbn [bind]. apply (K FtVariable).
    + intros b' E. split; [reflexivity|assumption].
    + discriminate.
Qed.

(* ================= (b) construction rule / frame type at frame level ================= *)

(* up to the data field, the body of unpack on header ++ insert zone ++ T ++ OCF ++ FECF, for
   EITHER frame type and any data field octets T *)
Lemma frame_unpack_body_reach H IZ T OC FE rest h ft iz oc fe p :
  len H = hdr_len h -> 1 <= len T ->
  IZ = opt_bytes_of iz -> OC = opt_bytes_of oc -> FE = opt_bytes_of fe ->
  ocf_consistent h oc ->
  (match h with
   | HPrim ph => frame_len ph + 1 = len H + len IZ + len T + len OC + len FE /\ 0 <= ocf_flag ph <= 1
   | HTrunc _ => ft = FtVariable /\ p_fixed p = false /\ p_len p = len H + len IZ + len T + len OC + len FE
   end) ->
  (ft = FtFixed -> p_len p = len H + len IZ + len T + len OC + len FE) ->
  iz_present p = is_some iz -> (iz_present p = true -> iz_size p = len IZ) ->
  fecf_present p = is_some fe -> (fecf_present p = true -> fecf_size p = len FE) ->
  frame_unpack_body (H ++ IZ ++ T ++ OC ++ FE ++ rest) ft p h =
  do t <- tfdf_unpack (T ++ OC ++ FE ++ rest) (hdr_truncated h) (len T) (Some ft);
  Ok {| hdr := h; ftfdf := t; izone := iz; ocf := oc; fecf := fe |}.
Proof.
  intros LH LT1 EIZ EOC EFE Ho Hh Hfix Pz Sz Pf Sf.
  pose proof (len_nonneg H) as NH. pose proof (len_nonneg IZ) as NIZ. pose proof (len_nonneg OC) as NOC.
  pose proof (len_nonneg FE) as NFE. pose proof (len_nonneg rest) as NR.
  assert (LR : len (H ++ IZ ++ T ++ OC ++ FE ++ rest) = len H + len IZ + len T + len OC + len FE + len rest).
  { rewrite !len_app. lia. }
  assert (IZe : iz_present p = false -> len IZ = 0).
  { intros E. rewrite E in Pz. symmetry in Pz. apply is_some_opt in Pz. subst iz IZ. reflexivity. }
  assert (FEe : fecf_present p = false -> len FE = 0).
  { intros E. rewrite E in Pf. symmetry in Pf. apply is_some_opt in Pf. subst fe FE. reflexivity. }
  assert (HL0 : 0 <= hdr_len h) by (rewrite <- LH; assumption).
  unfold frame_unpack_body. rewrite LR.
  assert (E1 : get_tfdf_len ft h
                 (len H + len IZ + len T + len OC + len FE + len rest) p = Ok (len T)).
  { unfold get_tfdf_len. destruct h as [b|ph]; cbn [hdr_len ocf_consistent] in *.
    - destruct Hh as (-> & Pfx & Pl). subst oc OC. change (len (opt_bytes_of None)) with 0 in *.
      rewrite Pfx. cbn [bind].
      destruct (fecf_present p) eqn:F; destruct (iz_present p) eqn:Z; f_equal;
        rewrite ?Sf, ?Sz by reflexivity; rewrite ?(FEe eq_refl), ?(IZe eq_refl) in *; lia.
    - destruct Hh as (Hfl & Hof).
      assert (OCl : len OC = if ocf_flag ph =? 0 then 0 else 4).
      { subst OC. destruct oc as [o|]; cbn [opt_bytes_of].
        - destruct Ho as (-> & ->). reflexivity.
        - rewrite Ho. reflexivity. }
      destruct ft.
      + destruct (_ <? frame_len ph + 1 - _) eqn:G; [lia|]. cbn [bind].
        destruct (fecf_present p) eqn:F; destruct (iz_present p) eqn:Z; destruct (ocf_flag ph =? 0) eqn:O;
          cbn [negb]; f_equal; rewrite ?Sf, ?Sz by reflexivity; rewrite ?(FEe eq_refl), ?(IZe eq_refl) in *; lia.
      + cbn [bind].
        destruct (fecf_present p) eqn:F; destruct (iz_present p) eqn:Z; destruct (ocf_flag ph =? 0) eqn:O;
          cbn [negb]; f_equal; rewrite ?Sf, ?Sz by reflexivity; rewrite ?(FEe eq_refl), ?(IZe eq_refl) in *; lia. }
  assert (E0 : (match ft, h with
                | FtFixed, HPrim ph => if negb (frame_len ph + 1 =? p_len p) then Err EInvalidLen else Ok tt
                | FtFixed, HTrunc _ => Err EAttribute
                | FtVariable, _ => Ok tt
                end) = Ok tt).
  { destruct ft; [|reflexivity].
    destruct h as [b|ph]; [destruct Hh as (? & _); discriminate|].
    destruct Hh as (Hfl & _). rewrite Hfix by reflexivity. rewrite Hfl, Z.eqb_refl. reflexivity. }
  rewrite E0. cbn [bind].
  assert (E2 : (match h with
                | HTrunc _ => if p_fixed p then Err EAttribute else Ok (p_len p)
                | HPrim ph => Ok (frame_len ph + 1)
                end) = Ok (len H + len IZ + len T + len OC + len FE)).
  { destruct h as [b|ph]; [destruct Hh as (_ & -> & ->)|destruct Hh as (-> & _)]; reflexivity. }
  rewrite E2. cbn [bind].
  destruct (_ <? _) eqn:G1; [lia|]. clear G1.
  rewrite E1. cbn [bind].
  destruct (_ || _) eqn:G2; [lia|]. clear G2.
  assert (E3 : (if iz_present p then
                  if hdr_len h + iz_size p + len T >? len H + len IZ + len T + len OC + len FE + len rest
                  then Err EInvalidLen else
                  Ok (Some (py_slice (H ++ IZ ++ T ++ OC ++ FE ++ rest) (hdr_len h) (hdr_len h + iz_size p)),
                      hdr_len h + iz_size p)
                else Ok (None, hdr_len h)) = Ok (iz, len H + len IZ)).
  { destruct (iz_present p) eqn:Z.
    - rewrite Sz by reflexivity. destruct (_ >? _) eqn:G; [lia|].
      rewrite py_slice_mid by lia. destruct iz as [z|]; [|discriminate Pz].
      subst IZ. cbn [opt_bytes_of]. rewrite LH. reflexivity.
    - rewrite (IZe eq_refl). symmetry in Pz. apply is_some_opt in Pz. subst iz. rewrite LH, Z.add_0_r. reflexivity. }
  rewrite E3. cbn [bind]. cbv beta iota.
  replace (H ++ IZ ++ T ++ OC ++ FE ++ rest) with ((H ++ IZ) ++ T ++ OC ++ FE ++ rest) at 1
    by (rewrite <- app_assoc; reflexivity).
  rewrite py_slice_from_app by (rewrite len_app; reflexivity).
  destruct (tfdf_unpack (T ++ OC ++ FE ++ rest) (hdr_truncated h) (len T) (Some ft)) as [t|e]; cbn [bind];
    [|reflexivity].
  assert (E4 : (match h with
                | HPrim ph => if negb (ocf_flag ph =? 0)
                              then (Some (py_slice (H ++ IZ ++ T ++ OC ++ FE ++ rest) (len H + len IZ + len T) (len H + len IZ + len T + 4)),
                                    len H + len IZ + len T + 4)
                              else (None, len H + len IZ + len T)
                | HTrunc _ => (None, len H + len IZ + len T)
                end) = (oc, len H + len IZ + len T + len OC)).
  { destruct h as [b|ph]; cbn [ocf_consistent] in Ho.
    - subst oc OC. rewrite Z.add_0_r. reflexivity.
    - destruct oc as [o|].
      + destruct Ho as (-> & L4). change (negb (1 =? 0)) with true. cbv iota.
        subst OC. cbn [opt_bytes_of]. rewrite L4.
        replace (H ++ IZ ++ T ++ o ++ FE ++ rest) with ((H ++ IZ ++ T) ++ o ++ FE ++ rest)
          by (rewrite <- !app_assoc; reflexivity).
        rewrite py_slice_mid by (rewrite !len_app; lia). reflexivity.
      + rewrite Ho. change (negb (0 =? 0)) with false. cbv iota. subst OC. rewrite Z.add_0_r. reflexivity. }
  rewrite E4. cbv beta iota.
  assert (E5 : (if fecf_present p
                then Some (py_slice (H ++ IZ ++ T ++ OC ++ FE ++ rest) (len H + len IZ + len T + len OC)
                                    (len H + len IZ + len T + len OC + fecf_size p))
                else None) = fe).
  { destruct (fecf_present p) eqn:F.
    - rewrite Sf by reflexivity.
      replace (H ++ IZ ++ T ++ OC ++ FE ++ rest) with ((H ++ IZ ++ T ++ OC) ++ FE ++ rest)
        by (rewrite <- !app_assoc; reflexivity).
      rewrite py_slice_mid by (rewrite !len_app; lia).
      destruct fe as [z|]; [|discriminate Pf]. subst FE. reflexivity.
    - symmetry in Pf. apply is_some_opt in Pf. subst fe. reflexivity. }
  rewrite E5. reflexivity.
Qed.

(* managed parameters that match a frame in everything but are used with frame type ft *)
Definition props_match_as (f : frame) (ft : ftype) (p : fprops) : Prop :=
  (ft = FtFixed -> p_fixed p = true /\ p_len p = frame_len_of f) /\
  iz_present p = is_some (izone f) /\ (iz_present p = true -> iz_size p = opt_len (izone f)) /\
  fecf_present p = is_some (fecf f) /\ (fecf_present p = true -> fecf_size p = opt_len (fecf f)).

(* a (non-truncated) frame unpacked as the OTHER frame type than the one its construction rule
   belongs to, all other managed parameters matching: UslpInvalidConstructionRules.
   (Truncated frames asked for as FIXED: C17_mismatch_truncated_fixed.) *)
Theorem frame_unpack_rule_mismatch f p ft rest : frame_consistent f -> frame_len_set f ->
  hdr_truncated (hdr f) = false -> ft <> ftype_of_rule (rules (ftfdf f)) -> props_match_as f ft p ->
  frame_unpack (frame_layout (hdr_layout (hdr f)) f ++ rest) ft p = Err EInvalidConstrRules.
Proof.
  destruct f as [h [r i fh dz sz] iz oc fe].
  unfold frame_consistent, frame_len_set, props_match_as, frame_layout, tfdf_consistent.
  cbn [hdr ftfdf izone ocf fecf rules ident fhp tfdz tsize].
  intros (Hv & (Hr & Hi & Hf & Hp & Hs) & Ho & _) Hset Htr Nft (Pfx & Pz & Sz & Pf & Sf).
  destruct h as [b|ph]; [discriminate Htr|]. clear Htr. cbn [hdr_valid hdr_layout hdr_truncated] in *.
  set (H := phdr_layout ph). set (IZ := opt_bytes_of iz). set (T := tfdf_layout r i fh dz).
  set (OC := opt_bytes_of oc). set (FE := opt_bytes_of fe).
  assert (LH : len H = hdr_len (HPrim ph)) by (apply (hdr_layout_len (HPrim ph)); assumption).
  assert (LT : len T = sz) by (unfold T; rewrite tfdf_layout_len; lia).
  assert (Ltot : frame_len_of {| hdr := HPrim ph; ftfdf := {| rules := r; ident := i; fhp := fh; tfdz := dz; tsize := sz |};
                                 izone := iz; ocf := oc; fecf := fe |}
                 = len H + len IZ + len T + len OC + len FE).
  { unfold frame_len_of, tfdf_len. cbn [hdr ftfdf izone ocf fecf tsize]. rewrite !opt_len_bytes. fold IZ OC FE. lia. }
  rewrite Ltot in *.
  replace ((H ++ IZ ++ T ++ OC ++ FE) ++ rest) with (H ++ IZ ++ T ++ OC ++ FE ++ rest)
    by (rewrite <- !app_assoc; reflexivity).
  pose proof (len_nonneg IZ) as NIZ. pose proof (len_nonneg OC) as NOC.
  pose proof (len_nonneg FE) as NFE. pose proof (len_nonneg rest) as NR. pose proof (len_nonneg dz) as Ndz.
  assert (LT1 : 1 <= len T) by (rewrite LT, Hs; destruct fh; cbn [tfdf_header_len]; lia).
  assert (LR : len (H ++ IZ ++ T ++ OC ++ FE ++ rest) = len H + len IZ + len T + len OC + len FE + len rest).
  { rewrite !len_app. lia. }
  assert (HL7 : 7 <= hdr_len (HPrim ph)).
  { cbn [hdr_len]. unfold phdr_len. destruct Hv as (_ & _ & _ & _ & _ & (? & _)). lia. }
  rewrite frame_unpack_unfold. rewrite LR.
  destruct (_ <? 4) eqn:G; [lia|]. clear G.
  assert (S1 : (match ft with
                | FtFixed => if negb (p_fixed p) then Err EValue else
                             if len H + len IZ + len T + len OC + len FE + len rest <? p_len p
                             then Err EInvalidLen else Ok tt
                | FtVariable => Ok tt
                end) = Ok tt).
  { destruct ft; [|reflexivity]. destruct (Pfx eq_refl) as (-> & ->). cbn [negb].
    destruct (_ + len rest <? _) eqn:G; [lia|reflexivity]. }
  rewrite S1. cbn [bind]. unfold H at 1.
  rewrite (determine_hdr_layout (HPrim ph)) by assumption. cbn [bind hdr_truncated]. fold H.
  change (HT_NON_TRUNCATED =? HT_TRUNCATED) with false. cbv iota.
  unfold H at 1. rewrite phdr_unpack_pack by assumption. cbn [bind]. fold H.
  rewrite (frame_unpack_body_reach H IZ T OC FE rest (HPrim (phdr_norm ph)) ft iz oc fe p);
    try reflexivity; try assumption.
  - unfold T. cbn [hdr_truncated]. rewrite tfdf_unpack_rule_mismatch by assumption. reflexivity.
  - cbn [phdr_norm frame_len ocf_flag]. destruct Hv as (_ & _ & _ & _ & Hocf & _). split; [lia|assumption].
  - intros E. apply Pfx. exact E.
  - intros E. rewrite Sz by assumption. apply opt_len_bytes.
  - intros E. rewrite Sf by assumption. apply opt_len_bytes.
Qed.

(* ================= witnesses ================= *)

(* insert zone one octet longer, FECF one octet shorter than packed: the sizes still add up, so
   no length check can notice; the data field is read one octet late and a DIFFERENT frame is
   returned without any error (the "raise" clause cannot hold for every mismatch) *)
Definition shifted_zone_frame : frame :=
  {| hdr := HPrim {| pbase := {| scid := 16; src_dest := 0; vcid := 55; map_id := 3 |};
                     frame_len := 20; bypass := 0; prot := 0; ocf_flag := 0; vcf_len := 0;
                     vcf_count := None |};
     ftfdf := {| rules := 7; ident := 0; fhp := None; tfdz := [224; 2; 3; 4; 5; 6; 7]; tsize := 8 |};
     izone := Some [0; 0; 0; 0]; ocf := None; fecf := Some [3; 4] |}.
Definition shifted_zone_props (iz fe : Z) : fprops :=
  {| p_fixed := false; p_len := 0; iz_present := true; iz_size := iz;
     fecf_present := true; fecf_size := fe |}.

Theorem frame_unpack_zones_mismatch_may_decode :
  frame_consistent shifted_zone_frame /\ frame_len_set shifted_zone_frame /\
  props_match shifted_zone_frame (shifted_zone_props 4 2) /\
  exists g, frame_unpack (frame_layout (hdr_layout (hdr shifted_zone_frame)) shifted_zone_frame)
                         FtVariable (shifted_zone_props 5 1) = Ok g /\
            g <> frame_norm shifted_zone_frame /\
            izone g = Some [0; 0; 0; 0; 224] /\ fecf g = Some [4] /\
            tfdz (ftfdf g) = [2; 3; 4; 5; 6; 7; 3].
Proof.
  split; [|split; [|split]].
  - unfold frame_consistent, tfdf_consistent, phdr_valid, base_valid, vcf_valid; cbn.
    repeat split; try discriminate; try reflexivity.
  - reflexivity.
  - unfold props_match; cbn. split; [reflexivity|]. split; [intros [H|H]; discriminate H|].
    repeat split; reflexivity.
  - eexists. split; [vm_compute; reflexivity|]. repeat split. discriminate.
Qed.

(* the hypotheses "sizes non-negative" of frame_unpack_zones_mismatch cannot be dropped: the
   managed-parameter constructors accept negative sizes, Python's negative slice bounds count
   from the end of the buffer, and with insert-zone size (s - L) and FECF size (F + L) (s, F the
   true sizes, L the length of the buffer) every slice lands where it should: the frame is
   reproduced exactly although both sizes are wrong *)
Definition negative_size_frame : frame :=
  {| hdr := HPrim {| pbase := {| scid := 16; src_dest := 0; vcid := 55; map_id := 3 |};
                     frame_len := 14; bypass := 0; prot := 0; ocf_flag := 0; vcf_len := 0;
                     vcf_count := None |};
     ftfdf := {| rules := 7; ident := 0; fhp := None; tfdz := [1; 2; 3]; tsize := 4 |};
     izone := Some [9; 9]; ocf := None; fecf := Some [5; 6] |}.

Theorem frame_unpack_zones_mismatch_negative_refuted :
  exists f p p', frame_consistent f /\ frame_len_set f /\ props_match f p /\
    iz_present p' = true /\ iz_present p = true /\ iz_size p' <> iz_size p /\
    fecf_present p' = true /\ fecf_present p = true /\ fecf_size p' <> fecf_size p /\
    frame_unpack (frame_layout (hdr_layout (hdr f)) f) (ftype_of_rule (rules (ftfdf f))) p' = Ok (frame_norm f).
Proof.
  exists negative_size_frame, (shifted_zone_props 2 2), (shifted_zone_props (-13) 17).
  split; [|split; [|split]].
  - unfold frame_consistent, tfdf_consistent, phdr_valid, base_valid, vcf_valid; cbn.
    repeat split; try discriminate; try reflexivity.
  - reflexivity.
  - unfold props_match; cbn. split; [reflexivity|]. split; [intros [H|H]; discriminate H|].
    repeat split; reflexivity.
  - split; [reflexivity|]. split; [reflexivity|]. split; [discriminate|].
    split; [reflexivity|]. split; [reflexivity|]. split; [discriminate|].
    vm_compute. reflexivity.
Qed.

Example rule_mismatch_nonvacuous :
  props_match_as shifted_zone_frame FtFixed
    {| p_fixed := true; p_len := 21; iz_present := true; iz_size := 4;
       fecf_present := true; fecf_size := 2 |} /\
  FtFixed <> ftype_of_rule (rules (ftfdf shifted_zone_frame)).
Proof. split; [unfold props_match_as; cbn; repeat split; reflexivity|discriminate]. Qed.
