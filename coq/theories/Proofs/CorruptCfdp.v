(* C04, CFDP part: generic core for every CRC-flagged PDU kind, and the File Data instance.
   Protected positions: octets 1-2 (data field length), octet 3 (the two width nibbles) and
   bit 1 of octet 0 (the CRC flag itself: flipping it switches verification off -- this is
   protocol-inherent and proved as a refutation below). *)
From Coq Require Import ZArith List Bool Lia ZifyBool.
From SP Require Import Base.Result Base.Bytes Base.BytesFacts Base.Crc16 Base.Crc16Facts Base.Crc16Burst
  Model.PduHeader Spec.PduHeaderSpec Proofs.PduHeaderProofs Proofs.PusTcProofs Proofs.CorruptProofs.
Import ListNotations.
Open Scope Z_scope.
Ltac Zify.zify_post_hook ::= Z.to_euclidean_division_equations.

Definition cfdp_untouched (e : bytes) : Prop :=
  nth 1 e 0 = 0 /\ nth 2 e 0 = 0 /\ nth 3 e 0 = 0 /\ (nth 0 e 0 / 2) mod 2 = 0.

(* what the fixed part of an accepted header says, in terms of the octets *)
Lemma hdr_unpack_fields d h : wf_bytes d -> hdr_unpack d = Ok h ->
  h_dlen h = nth 1 d 0 * 256 + nth 2 d 0 /\
  ubf_len (cf_src (h_conf h)) = (nth 3 d 0 / 16) mod 8 + 1 /\
  ubf_len (cf_seq (h_conf h)) = nth 3 d 0 mod 8 + 1 /\
  cf_crc (h_conf h) = (nth 0 d 0 / 2) mod 2.
Proof.
  intros W. rewrite hdr_unpack_spec by assumption. unfold hdr_decode_spec.
  destruct d as [|b0 [|b1 [|b2 [|b3 tl]]]]; try discriminate. cbv zeta.
  repeat match goal with |- (if ?c then _ else _) = _ -> _ => destruct c; [discriminate|] end.
  intros E. apply Ok_inj in E. subst h. cbn. repeat split.
Qed.

Definition chk_bit1 (w : Z) : bool :=
  let p0 := w / 256 in let e0 := w mod 256 in
  negb ((e0 / 2) mod 2 =? 0) || ((Z.lxor p0 e0 / 2) mod 2 =? (p0 / 2) mod 2).
Lemma bit1_sweep : forallb chk_bit1 (zrange 0 65536) = true.
Proof. vm_compute. reflexivity. Qed.
Lemma bit1_untouched p0 e0 : 0 <= p0 < 256 -> 0 <= e0 < 256 -> (e0 / 2) mod 2 = 0 ->
  (Z.lxor p0 e0 / 2) mod 2 = (p0 / 2) mod 2.
Proof.
  intros Hp He H0.
  pose proof (sweep _ 0 65536 ltac:(lia) bit1_sweep (p0 * 256 + e0) ltac:(lia)) as S.
  unfold chk_bit1 in S. cbv zeta in S.
  replace ((p0 * 256 + e0) / 256) with p0 in S by lia.
  replace ((p0 * 256 + e0) mod 256) with e0 in S by lia. lia.
Qed.

Lemma nth_wf (l : bytes) i : wf_bytes l -> 0 <= nth i l 0 < 256.
Proof.
  intros W. destruct (Nat.lt_ge_cases i (length l)) as [L|G].
  - unfold wf_bytes in W. rewrite Forall_forall in W. apply W, nth_In, L.
  - rewrite nth_overflow by lia. lia.
Qed.

Section Generic.
  Context {T : Type} (unpack : bytes -> res T) (hdr_of : T -> PduHeader).
  Hypothesis total : forall d, wf_bytes d -> ok_or_documented (unpack d).
  Hypothesis accept : forall d t, wf_bytes d -> unpack d = Ok t ->
    hdr_unpack d = Ok (hdr_of t) /\
    (cf_crc (h_conf (hdr_of t)) = 1 ->
     crc16 (firstn (Z.to_nat (hdr_packet_len (hdr_of t))) d) = 0).

  Lemma cfdp_corrupt_rejected_generic p hp e :
    wf_bytes p -> crc16 p = 0 -> hdr_unpack p = Ok hp -> cf_crc (h_conf hp) = 1 ->
    len p = hdr_packet_len hp ->
    burst16 e -> length e = length p -> cfdp_untouched e ->
    exists x, unpack (xor_bytes p e) = Err x /\ documented x = true.
  Proof.
    intros Wp C0 Hp Cp Ln B Le (U1 & U2 & U3 & U0).
    assert (We : wf_bytes e) by (apply burst16_wf; assumption).
    assert (Wd : wf_bytes (xor_bytes p e)) by (apply xor_bytes_wf; assumption).
    pose proof (total _ Wd) as Tt.
    destruct (unpack (xor_bytes p e)) as [t|x] eqn:E; [|exists x; split; [reflexivity|exact Tt]].
    exfalso. destruct (accept _ _ Wd E) as [S C].
    destruct (hdr_unpack_fields _ _ Wd S) as (D1 & D2 & D3 & D4).
    destruct (hdr_unpack_fields _ _ Wp Hp) as (P1 & P2 & P3 & P4).
    rewrite (xor_untouched p e 1%nat), (xor_untouched p e 2%nat) in D1 by assumption.
    rewrite (xor_untouched p e 3%nat) in D2, D3 by assumption.
    rewrite xor_bytes_nth in D4 by assumption.
    rewrite bit1_untouched in D4 by (try apply nth_wf; assumption).
    assert (N : hdr_packet_len (hdr_of t) = len p).
    { rewrite Ln. unfold hdr_packet_len, hdr_header_len, FIXED_LENGTH. lia. }
    rewrite N in C. unfold len in C. rewrite Nat2Z.id in C.
    rewrite <- (xor_bytes_length p e), firstn_all in C.
    apply (crc_detects_burst16 p e Wp B Le). rewrite C by lia. lia.
  Qed.
End Generic.

(* ---------- File Data PDU ---------- *)
From SP Require Import Model.FileData Spec.FileDataSpec Proofs.FileDataProofs Proofs.FileDataCrc.

Lemma unpack_wf_of_ok d : forall p, fd_unpack d = Ok p -> True. Proof. trivial. Qed.

Theorem fd_corrupt_rejected c q e :
  fd_valid c q -> cf_crc c = 1 ->
  let p := fd_layout c q in
  burst16 e -> length e = length p -> cfdp_untouched e ->
  exists x, fd_unpack (xor_bytes p e) = Err x /\ documented x = true.
Proof.
  intros V C1 p B Le U.
  pose proof (fd_unpack_pack_full c q [] V ltac:(constructor)) as R. rewrite app_nil_r in R. fold p in R.
  assert (Wp : wf_bytes p).
  { (* p decodes, hence it is the octet string pack produced; well-formedness from its parts *)
    unfold p, fd_layout. cbv zeta. rewrite C1. cbn [Z.eqb Pos.eqb].
    pose proof (fd_pre_wf c q V) as WP. rewrite wf_bytes_app. split; [exact WP|apply be_encode_wf]. }
  destruct (fd_unpack_inv p _ Wp R) as (HU & HV & LE & CR & _).
  destruct (fd_data_field_len c q V) as (_ & PL & _). cbv zeta in PL. fold p in PL.
  cbn [fd_hdr fd_pdu_of] in *.
  assert (CC : cf_crc (h_conf (fd_header c q)) = 1) by (cbn; exact C1).
  apply (cfdp_corrupt_rejected_generic fd_unpack fd_hdr fd_unpack_total) with (hp := fd_header c q);
    try assumption.
  - intros d t Wd E. destruct (fd_unpack_inv d t Wd E) as (H1 & _ & _ & H4 & _). split; assumption.
  - specialize (CR CC). unfold fd_packet_len in PL. cbn [fd_hdr fd_pdu_of] in PL.
    rewrite PL in CR. unfold len in CR. rewrite Nat2Z.id, firstn_all in CR. exact CR.
  - unfold fd_packet_len in PL. cbn [fd_hdr fd_pdu_of] in PL. lia.
Qed.

(* ---------- the protocol-inherent hole: flipping the CRC flag switches the check off ---------- *)
Definition kf_conf : PduConfig :=
  {| cf_src := {| ubf_val := 1; ubf_len := 1 |}; cf_dst := {| ubf_val := 2; ubf_len := 1 |};
     cf_seq := {| ubf_val := 3; ubf_len := 1 |};
     cf_mode := 0; cf_large := 0; cf_crc := 1; cf_dir := 0; cf_segctrl := 0 |}.
Definition kf_params : FdParams := {| fp_data := [7]; fp_offset := 0; fp_meta := None |}.
Definition kf_flip : bytes := 2 :: repeat 0 13.

Theorem pdu_crcflag_flip_refuted :
  fd_valid kf_conf kf_params /\ cf_crc kf_conf = 1 /\
  burst16 kf_flip /\ length kf_flip = length (fd_layout kf_conf kf_params) /\
  nth 1 kf_flip 0 = 0 /\ nth 2 kf_flip 0 = 0 /\ nth 3 kf_flip 0 = 0 /\
  exists p', fd_unpack (xor_bytes (fd_layout kf_conf kf_params) kf_flip) = Ok p' /\
             (* accepted, and the CRC trailer has become file data *)
             length (fp_data (fd_params p')) = 3%nat.
Proof.
  split.
  { unfold fd_valid, conf_valid, ubf_valid, meta_valid, width_ok, flag, wf_bytes, kf_conf, kf_params.
    cbn [cf_src cf_dst cf_seq cf_mode cf_large cf_crc cf_dir cf_segctrl ubf_val ubf_len
         fp_data fp_offset fp_meta].
    repeat split; try (repeat constructor; lia); try (vm_compute; intuition congruence). }
  split; [reflexivity|]. split.
  { exists 0%nat, [2], 13%nat. split; [reflexivity|]. constructor. lia. }
  split; [vm_compute; reflexivity|]. split; [reflexivity|]. split; [reflexivity|]. split; [reflexivity|].
  eexists. split; [vm_compute; reflexivity|]. reflexivity.
Qed.
