(* ACK PDU (Model/Ack.v) against Spec/PduASpec.v. *)
From Coq Require Import ZArith List Bool Lia ZifyBool.
From SP Require Import Base.Result Base.Bytes Base.BytesFacts Base.Crc16 Base.Crc16Facts
  Model.PduHeader Spec.PduHeaderSpec Proofs.PduHeaderProofs Model.FileDirective
  Proofs.FileDirectiveProofs Spec.PduASpec Proofs.DirectiveProofs Model.Ack.
Import ListNotations.
Open Scope Z_scope.
Ltac Zify.zify_post_hook ::= Z.to_euclidean_division_equations.

(* ================= the two parameter octets: sweep over all 256 values ================= *)
Definition chk_ackoct (b : Z) : bool :=
  (Z.shiftr (Z.land b 240) 4 =? b / 16) && (Z.land b 15 =? b mod 16) && (Z.land b 3 =? b mod 4) &&
  (Z.lor (Z.shiftl (b / 16) 4) (b mod 16) =? b).
Lemma ackoct_sweep : forallb chk_ackoct (zrange 0 256) = true.
Proof. vm_compute. reflexivity. Qed.
Lemma ackoct b : 0 <= b < 256 ->
  Z.shiftr (Z.land b 240) 4 = b / 16 /\ Z.land b 15 = b mod 16 /\ Z.land b 3 = b mod 4 /\
  Z.lor (Z.shiftl (b / 16) 4) (b mod 16) = b.
Proof.
  intros H. pose proof (sweep chk_ackoct 0 256 ltac:(lia) ackoct_sweep b ltac:(lia)) as S.
  unfold chk_ackoct in S. lia.
Qed.
Lemma ackoct_of hi lo : 0 <= hi <= 15 -> 0 <= lo <= 15 ->
  let b := hi * 16 + lo in
  Z.lor (Z.shiftl hi 4) lo = b /\ 0 <= b < 256 /\ Z.shiftr (Z.land b 240) 4 = hi /\ Z.land b 15 = lo /\
  Z.land b 3 = lo mod 4.
Proof.
  intros Hh Hl b. assert (Hb : 0 <= b < 256) by (unfold b; lia).
  destruct (ackoct b Hb) as (A & B & C & D).
  assert (E1 : b / 16 = hi) by (unfold b; lia). assert (E2 : b mod 16 = lo) by (unfold b; lia).
  rewrite A, B, C. rewrite E1, E2 in D. repeat split; try lia.
Qed.

(* ================= constructor, pack ================= *)

Definition ack_pdu_of (c : PduConfig) (q : AckParams) : AckPdu :=
  {| ack_fd := directive_fdir c (ack_direction_of (ap_code q)) 6 (ack_params_layout q);
     ack_code := ap_code q; ack_subtype := ack_subtype_of (ap_code q); ack_cc := ap_cc q;
     ack_status := ap_status q |}.

Lemma ack_dir_flag code : flag (ack_direction_of code).
Proof. unfold ack_direction_of, flag. destruct (code =? 5); lia. Qed.

Lemma ack_params_len q : len (ack_params_layout q) = 2.
Proof. reflexivity. Qed.

Lemma ack_ok c q : ack_valid c q -> directive_ok c (ack_direction_of (ap_code q)) 6 (ack_params_layout q).
Proof.
  intros (C & K & Rc & Rs). unfold directive_ok. split; [exact C|]. split; [apply ack_dir_flag|].
  split; [lia|]. split.
  - unfold ack_params_layout, ack_subtype_of. destruct K as [-> | ->]; cbn [Z.eqb Pos.eqb];
      (constructor; [lia|constructor; [lia|constructor]]).
  - rewrite ack_params_len. destruct (crc_octets_cases c (conf_crc_flag c C)) as [[_ E] | [_ E]]; lia.
Qed.

Theorem ack_new_ok c q : ack_valid c q ->
  ack_new c (ap_code q) (ap_cc q) (ap_status q) = Ok (ack_pdu_of c q, c).
Proof.
  intros V. pose proof V as (C & K & Rc & Rs).
  unfold ack_pdu_of, directive_fdir. rewrite ack_params_len.
  unfold ack_new, DT_FINISHED, DT_EOF, DT_ACK, DIR_TOWARDS_RECEIVER, DIR_TOWARDS_SENDER, ack_direction_of, ack_subtype_of.
  destruct K as [-> | ->]; cbn [Z.eqb Pos.eqb orb negb];
    (rewrite fdir_new_ok; [|lia|cbn [conf_set_dir cf_src cf_dst]; apply conf_widths_eq; exact C]);
    cbn [bind]; unfold ack_calc_len, CRC_WITH_CRC; cbn [ack_fd ack_code ack_subtype ack_cc ack_status];
    change (cf_crc (h_conf (fd_hdr (fdir_of (conf_set_dir c ?d) 6 2)))) with (cf_crc c);
    destruct (crc_octets_cases c (conf_crc_flag c C)) as [[E0 E1] | [E0 E1]]; rewrite E0, E1; cbn [Z.eqb Pos.eqb];
    rewrite fdir_set_param_len_of by lia; reflexivity.
Qed.

(* a directive code other than EOF (4) / Finished (5) cannot be acknowledged *)
Theorem ack_bad_code_refused c code cc st : code <> 4 -> code <> 5 -> ack_new c code cc st = Err EValue.
Proof.
  intros H4 H5. unfold ack_new, DT_FINISHED, DT_EOF.
  destruct (code =? 5) eqn:E5; [lia|]. destruct (code =? 4) eqn:E4; [lia|]. reflexivity.
Qed.

Theorem ack_pack_layout c q : ack_valid c q -> ack_pack (ack_pdu_of c q) = Ok (ack_layout c q).
Proof.
  intros V. pose proof (ack_ok c q V) as O. pose proof V as (C & K & Rc & Rs).
  unfold ack_pack, ack_pdu_of. cbn [ack_fd ack_code ack_subtype ack_cc ack_status].
  rewrite fdir_pack_layout by (apply directive_fdir_valid; exact O). cbn [bind].
  assert (S : 0 <= ack_subtype_of (ap_code q) <= 15) by (unfold ack_subtype_of; destruct (ap_code q =? 5); lia).
  destruct (ackoct_of (ap_code q) (ack_subtype_of (ap_code q)) ltac:(lia) S) as (A1 & A2 & _).
  destruct (ackoct_of (ap_cc q) (ap_status q) Rc ltac:(lia)) as (B1 & B2 & _).
  rewrite A1, B1. rewrite ba_append_ok by exact A2. cbn [bind]. rewrite ba_append_ok by exact B2. cbn [bind].
  rewrite <- app_assoc. cbn [app].
  change [ap_code q * 16 + ack_subtype_of (ap_code q); ap_cc q * 16 + ap_status q] with (ack_params_layout q).
  rewrite <- directive_pre_eq.
  exact (pack_trailer c (ack_direction_of (ap_code q)) 6 (ack_params_layout q) O).
Qed.

Theorem ack_data_field_len c q : ack_valid c q ->
  let p := ack_pdu_of c q in
  h_dlen (fd_hdr (ack_fd p)) = len (ack_layout c q) - hdr_header_len (fd_hdr (ack_fd p)) /\
  ack_packet_len p = len (ack_layout c q) /\
  h_dlen (fd_hdr (ack_fd p)) = 3 + crc_octets c.
Proof.
  intros V. cbv zeta. destruct (directive_layout_len c _ 6 _ (ack_ok c q V)) as (L1 & _ & L3).
  unfold ack_layout, ack_packet_len, fdir_packet_len, ack_pdu_of. cbn [ack_fd].
  split; [exact L3|]. split; [symmetry; exact L1|].
  unfold directive_fdir, fdir_of. cbn [fd_hdr h_dlen]. rewrite ack_params_len. lia.
Qed.

(* ================= decoder ================= *)

Definition ack_body (f : fdir) (data : bytes) : res AckPdu :=
  let current_idx := fdir_header_len f in
  if current_idx + 2 >? len data then Err ETooShort else
  do b0 <- py_get data current_idx;
  let code := Z.shiftr (Z.land b0 240) 4 in
  let subtype := Z.land b0 15 in
  let current_idx := current_idx + 1 in
  do b1 <- py_get data current_idx;
  let cc := Z.shiftr (Z.land b1 240) 4 in
  let status := Z.land b1 3 in
  Ok {| ack_fd := f; ack_code := code; ack_subtype := subtype; ack_cc := cc; ack_status := status |}.

Lemma ack_unpack_eq d : ack_unpack d = with_prelude ack_body d.
Proof. reflexivity. Qed.

Lemma ack_body_layout f q : fdir_valid f -> (ap_code q = 4 \/ ap_code q = 5) -> 0 <= ap_cc q <= 15 ->
  0 <= ap_status q <= 3 ->
  ack_body f (fdir_layout f ++ ack_params_layout q) =
  Ok {| ack_fd := f; ack_code := ap_code q; ack_subtype := ack_subtype_of (ap_code q); ack_cc := ap_cc q;
        ack_status := ap_status q |}.
Proof.
  intros FV K Rc Rs. unfold ack_body. rewrite len_app, fdir_layout_len, ack_params_len by exact FV.
  destruct (fdir_header_len f + 2 >? fdir_header_len f + 2) eqn:E; [lia|].
  unfold ack_params_layout. rewrite get_first_param by exact FV. cbn [bind].
  rewrite get_second_param by exact FV. cbn [bind].
  assert (S : 0 <= ack_subtype_of (ap_code q) <= 15) by (unfold ack_subtype_of; destruct (ap_code q =? 5); lia).
  destruct (ackoct_of (ap_code q) (ack_subtype_of (ap_code q)) ltac:(lia) S) as (_ & _ & A3 & A4 & _).
  destruct (ackoct_of (ap_cc q) (ap_status q) Rc ltac:(lia)) as (_ & _ & B3 & _ & B5).
  rewrite A3, A4, B3, B5. replace (ap_status q mod 4) with (ap_status q) by lia. reflexivity.
Qed.

Theorem ack_unpack_pack c q rest : ack_valid c q -> wf_bytes rest ->
  ack_unpack (ack_layout c q ++ rest) = Ok (ack_pdu_of c q).
Proof.
  intros V W. pose proof (ack_ok c q V) as O. pose proof V as (C & K & Rc & Rs).
  rewrite ack_unpack_eq. unfold ack_layout. rewrite with_prelude_layout by assumption.
  apply ack_body_layout; [apply directive_fdir_valid; exact O|assumption..].
Qed.

Lemma ack_body_total f data : fdir_valid f -> wf_bytes data -> ok_or_documented (ack_body f data).
Proof.
  intros FV W. unfold ack_body. pose proof (fdir_header_len_range f FV) as R.
  destruct (fdir_header_len f + 2 >? len data) eqn:E; [reflexivity|].
  destruct (py_get_in_range data (fdir_header_len f) ltac:(lia)) as (b0 & G0 & _). rewrite G0. cbn [bind].
  destruct (py_get_in_range data (fdir_header_len f + 1) ltac:(lia)) as (b1 & G1 & _). rewrite G1. exact I.
Qed.

Lemma ack_body_needs f data x : ack_body f data = Ok x -> fdir_header_len f <= len data.
Proof. unfold ack_body. destruct (fdir_header_len f + 2 >? len data) eqn:E; [discriminate|lia]. Qed.

(* C10 (before the repair 4825ca7: IndexError, witness 25 00 01 00 79 3c d6 06) *)
Theorem ack_unpack_total d : wf_bytes d -> ok_or_documented (ack_unpack d).
Proof. intros W. rewrite ack_unpack_eq. apply with_prelude_total; [exact W|apply ack_body_total]. Qed.

Theorem ack_prefix_rejected c q n : ack_valid c q -> (n < length (ack_layout c q))%nat ->
  exists e, ack_unpack (firstn n (ack_layout c q)) = Err e /\ documented e = true.
Proof.
  intros V L. rewrite ack_unpack_eq. apply with_prelude_prefix_rejected; [apply ack_ok; exact V|exact L].
Qed.

(* C09 *)
Theorem ack_suffix c q s : ack_valid c q -> wf_bytes s ->
  ack_unpack (ack_layout c q ++ s) = ack_unpack (ack_layout c q).
Proof. intros V W. rewrite !ack_unpack_eq. apply with_prelude_suffix; [apply ack_ok; exact V|exact W]. Qed.

Theorem ack_no_fold_in d p h : wf_bytes d -> ack_unpack d = Ok p -> hdr_unpack d = Ok h ->
  ack_unpack (firstn (Z.to_nat (hdr_packet_len h)) d) = Ok p.
Proof.
  intros W U Uh. rewrite ack_unpack_eq in *.
  apply (with_prelude_no_fold_in ack_body d p W U); [|exact Uh].
  intros f data. apply ack_body_needs.
Qed.

(* C04 *)
Theorem ack_accept_needs_crc0 d p h : wf_bytes d -> ack_unpack d = Ok p -> hdr_unpack d = Ok h ->
  cf_crc (h_conf h) = 1 ->
  hdr_packet_len h <= len d /\ crc16 (firstn (Z.to_nat (hdr_packet_len h)) d) = 0.
Proof. intros W U. rewrite ack_unpack_eq in U. apply (with_prelude_accept_needs_crc0 ack_body d p h W U). Qed.

(* the whole property as one chain *)
Theorem ack_roundtrip c q rest : ack_valid c q -> wf_bytes rest ->
  exists p b p',
    ack_new c (ap_code q) (ap_cc q) (ap_status q) = Ok (p, c) /\ ack_pack p = Ok b /\ b = ack_layout c q /\
    ack_unpack (b ++ rest) = Ok p' /\
    ack_code p' = ap_code q /\ ack_cc p' = ap_cc q /\ ack_status p' = ap_status q /\
    ack_subtype p' = ack_subtype_of (ap_code q) /\ p' = p /\
    ack_eqb p' p = true /\ ack_pack p' = Ok b /\ ack_packet_len p' = len b.
Proof.
  intros V W. exists (ack_pdu_of c q), (ack_layout c q), (ack_pdu_of c q).
  split; [apply ack_new_ok; exact V|]. split; [apply ack_pack_layout; exact V|]. split; [reflexivity|].
  split; [apply ack_unpack_pack; assumption|]. do 5 (split; [reflexivity|]).
  split; [|split; [apply ack_pack_layout; exact V|apply (ack_data_field_len c q V)]].
  unfold ack_eqb. rewrite fdir_eqb_refl, !Z.eqb_refl. reflexivity.
Qed.

(* non-vacuity *)
Definition ack_example_conf : PduConfig :=
  {| cf_src := {| ubf_val := 258; ubf_len := 2 |}; cf_dst := {| ubf_val := 772; ubf_len := 2 |};
     cf_seq := {| ubf_val := 5; ubf_len := 1 |};
     cf_mode := 1; cf_large := 0; cf_crc := 1; cf_dir := 1; cf_segctrl := 0 |}.
Definition ack_example_params : AckParams := {| ap_code := 5; ap_cc := 11; ap_status := 2 |}.
Example ack_valid_example : ack_valid ack_example_conf ack_example_params.
Proof.
  unfold ack_valid, conf_valid, ubf_valid, width_ok, flag, ack_example_conf, ack_example_params.
  cbn [cf_src cf_dst cf_seq cf_mode cf_large cf_crc cf_dir cf_segctrl ubf_val ubf_len ap_code ap_cc ap_status].
  change (256 ^ 2) with 65536. change (256 ^ 1) with 256. lia.
Qed.
Example ack_layout_example :
  ack_layout ack_example_conf ack_example_params = [38; 0; 5; 16; 1; 2; 5; 3; 4; 6; 81; 178; 56; 76].
Proof. vm_compute. reflexivity. Qed.
