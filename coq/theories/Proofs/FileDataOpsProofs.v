(* Setter lemmas for the operation histories of Model/FileDataOps.v: the PDU-level assignments keep
   "the PDU is the one a fresh constructor call builds for its current values" whether they are
   accepted or refused, and a refused assignment leaves the PDU exactly as it was. *)
From Coq Require Import ZArith List Bool Lia.
From SP Require Import Base.Result Base.Bytes Model.PduHeader Model.PduHeaderOps Model.FileData
  Model.FileDataOps Spec.PduHeaderSpec Spec.FileDataSpec Proofs.FileDataProofs.
Import ListNotations.
Open Scope Z_scope.

(* the assignments offered by the PDU class itself *)
Definition fd_pdu_setter (o : fd_hop) : bool :=
  match o with FSetData _ | FSetMeta _ | FReassignData | FReassignMeta => true | _ => false end.

(* refused (ValueError: the data field would exceed 65535 octets) -> nothing changed *)
Theorem fd_step_refused_unchanged p o p' e :
  fd_pdu_setter o = true -> fd_step p o = (p', Err e) -> p' = p.
Proof.
  destruct o; cbn [fd_pdu_setter]; try discriminate; intros _; cbn [fd_step];
    unfold fd_set_data_st, fd_set_meta_st, fd_try;
    match goal with |- context [match ?r with Ok _ => _ | Err _ => _ end] => destruct r end;
    intros X; injection X; intros; subst; try discriminate; reflexivity.
Qed.

(* accepted or refused, the invariant of Proofs/FileDataProofs.v (cached length = required length,
   header flag = presence of metadata) is kept *)
Theorem fd_step_setter_inv c p o : flag (cf_large c) -> fd_inv c p -> fd_pdu_setter o = true ->
  fd_inv c (fst (fd_step p o)).
Proof.
  intros L I. destruct o; cbn [fd_pdu_setter]; try discriminate; intros _; cbn [fd_step];
    unfold fd_set_data_st, fd_set_meta_st, fd_try.
  - destruct (fd_set_data p d) as [p'|e] eqn:E; cbn [fst]; [|exact I].
    apply (fd_apply_op_inv c p (SetFileData d) p' L I E).
  - destruct (fd_set_meta p m) as [p'|e] eqn:E; cbn [fst]; [|exact I].
    apply (fd_apply_op_inv c p (SetSegMeta m) p' L I E).
  - destruct (fd_set_data p (fp_data (fd_params p))) as [p'|e] eqn:E; cbn [fst]; [|exact I].
    apply (fd_apply_op_inv c p (SetFileData (fp_data (fd_params p))) p' L I E).
  - destruct (fd_set_meta p (fp_meta (fd_params p))) as [p'|e] eqn:E; cbn [fst]; [|exact I].
    apply (fd_apply_op_inv c p (SetSegMeta (fp_meta (fd_params p))) p' L I E).
Qed.

(* hence after ANY history of the PDU's own assignments -- accepted and refused ones mixed -- the
   PDU is the freshly constructed one for its current values: reported length = packed length,
   length field = what the format requires (fd_len_inv of FileDataProofs.v applies to it) *)
Fixpoint fd_run_setters (p : FileDataPdu) (ops : list fd_hop) : FileDataPdu :=
  match ops with [] => p | o :: r => fd_run_setters (fst (fd_step p o)) r end.

Theorem fd_history_setters_inv c q p0 c' ops : flag (cf_large c) ->
  fd_new c q = Ok (p0, c') -> forallb fd_pdu_setter ops = true ->
  let p := fd_run_setters p0 ops in c' = c /\ p = fd_pdu_of c (fd_params p).
Proof.
  intros L N A. destruct (fd_new_inv c q p0 c' L N) as (I & -> & _). cbv zeta. split; [reflexivity|].
  clear N. revert p0 I A. induction ops as [|o r IH]; intros p0 I A; cbn [fd_run_setters forallb] in *.
  - exact I.
  - apply andb_prop in A. destruct A as [A1 A2]. apply IH; [|exact A2].
    apply fd_step_setter_inv; assumption.
Qed.
