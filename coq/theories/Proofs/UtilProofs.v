From Coq Require Import ZArith List Bool Lia ZifyBool.
From SP Require Import Base.Result Base.Bytes Base.BytesFacts Model.Util Spec.UtilSpec.
Import ListNotations.
Open Scope Z_scope.
Ltac Zify.zify_post_hook ::= Z.to_euclidean_division_equations.

(* D-C20-1 on the unrepaired code: the empty field exists, its octets are [], and neither
   from_bytes nor the octet setter accepts them back. *)
Lemma ubf_from_bytes_empty_refuted :
  exists f, ubf_new 0 0 = Ok f /\ ubf_as_bytes f = [] /\
            ubf_from_bytes (ubf_as_bytes f) = Err EValue /\ ubf_set_bytes f [] = Err EValue.
Proof. eexists. repeat split; vm_compute; reflexivity. Qed.
