(* Proofs for Model/Util.v (property C20 and the byte-field part of C09/C10). *)
From Coq Require Import ZArith List Bool Lia ZifyBool.
From SP Require Import Base.Result Base.Bytes Base.BytesFacts Model.Util Spec.UtilSpec.
Import ListNotations.
Open Scope Z_scope.
Ltac Zify.zify_post_hook ::= Z.to_euclidean_division_equations.

(* ================= widths ================= *)

Lemma byte_num_allowed_iff n : byte_num_allowed n = true <-> width_ok n.
Proof. unfold byte_num_allowed, width_ok. lia. Qed.

Lemma byte_num_allowed_false n : ~ width_ok n -> byte_num_allowed n = false.
Proof. intros H. destruct (byte_num_allowed n) eqn:E; [|reflexivity]. apply byte_num_allowed_iff in E. tauto. Qed.

Lemma gen_width_ok_width_ok w : gen_width_ok w -> width_ok w.
Proof. unfold gen_width_ok, width_ok. tauto. Qed.

Lemma width_ok_cases w : width_ok w -> w = 0 \/ gen_width_ok w.
Proof. unfold gen_width_ok, width_ok. tauto. Qed.

Lemma pow2_8 w : 0 <= w -> 2 ^ (w * 8) = 256 ^ w.
Proof. intros H. rewrite Z.mul_comm, Z.pow_mul_r by lia. reflexivity. Qed.

Lemma uss_ok w : gen_width_ok w -> unsigned_struct_specifier w = Ok (Z.to_nat w).
Proof. intros [-> | [-> | [-> | ->]]]; reflexivity. Qed.
Lemma sss_ok w : gen_width_ok w -> signed_struct_specifier w = Ok (Z.to_nat w).
Proof. intros [-> | [-> | [-> | ->]]]; reflexivity. Qed.

Lemma gen_width_pos w : gen_width_ok w -> 1 <= w.
Proof. unfold gen_width_ok. lia. Qed.

Lemma pow256_nat w : 0 <= w -> 256 ^ Z.of_nat (Z.to_nat w) = 256 ^ w.
Proof. intros. rewrite Z2Nat.id by assumption. reflexivity. Qed.

Lemma pow256_pos' w : 0 <= w -> 0 < 256 ^ w.
Proof. intros. apply Z.pow_pos_nonneg; lia. Qed.

(* ================= IntByteConversion ================= *)

Lemma to_unsigned_bad_width n v : ~ width_ok n -> to_unsigned n v = Err EValue.
Proof. intros H. unfold to_unsigned. rewrite byte_num_allowed_false by assumption. reflexivity. Qed.

Lemma to_unsigned_0 v : to_unsigned 0 v = Ok [].
Proof. reflexivity. Qed.

Lemma to_unsigned_ok n v : gen_width_ok n -> 0 <= v < 256 ^ n ->
  to_unsigned n v = Ok (ubf_layout n v).
Proof.
  intros Hn Hv. pose proof (gen_width_pos n Hn) as Hp. unfold to_unsigned.
  assert (byte_num_allowed n = true) as -> by (apply byte_num_allowed_iff, gen_width_ok_width_ok, Hn).
  destruct (n =? 0) eqn:E0; [lia|]. rewrite pow2_8 by lia.
  destruct (v >? 256 ^ n - 1) eqn:E1; [lia|]. cbn [negb].
  rewrite uss_ok by assumption. cbn [bind].
  apply struct_pack_ok. rewrite pow256_nat by lia. assumption.
Qed.

Lemma to_unsigned_large n v : gen_width_ok n -> 256 ^ n <= v -> to_unsigned n v = Err EValue.
Proof.
  intros Hn Hv. pose proof (gen_width_pos n Hn) as Hp. unfold to_unsigned.
  assert (byte_num_allowed n = true) as -> by (apply byte_num_allowed_iff, gen_width_ok_width_ok, Hn).
  destruct (n =? 0) eqn:E0; [lia|]. rewrite pow2_8 by lia.
  destruct (v >? 256 ^ n - 1) eqn:E1; [reflexivity|lia].
Qed.

(* a negative value passes the helper's own guard and is answered by struct.error *)
Lemma to_unsigned_negative n v : gen_width_ok n -> v < 0 -> to_unsigned n v = Err EStruct.
Proof.
  intros Hn Hv. pose proof (gen_width_pos n Hn) as Hp. unfold to_unsigned.
  assert (byte_num_allowed n = true) as -> by (apply byte_num_allowed_iff, gen_width_ok_width_ok, Hn).
  destruct (n =? 0) eqn:E0; [lia|]. rewrite pow2_8 by lia.
  pose proof (pow256_pos' n ltac:(lia)).
  destruct (v >? 256 ^ n - 1) eqn:E1; [lia|]. cbn [negb].
  rewrite uss_ok by assumption. cbn [bind].
  apply struct_pack_err. lia.
Qed.

Lemma to_signed_bad_width n v : ~ width_ok n -> to_signed n v = Err EValue.
Proof. intros H. unfold to_signed. rewrite byte_num_allowed_false by assumption. reflexivity. Qed.

Lemma to_signed_0 v : to_signed 0 v = Ok [].
Proof. reflexivity. Qed.

Lemma half_pow n : 1 <= n -> 2 ^ (n * 8 - 1) = 256 ^ n / 2.
Proof.
  intros H. rewrite <- pow2_8 by lia.
  assert (E : 2 ^ (n * 8) = 2 ^ (n * 8 - 1) * 2).
  { set (k := n * 8 - 1). replace (n * 8) with (Z.succ k) by lia.
    rewrite Z.pow_succ_r by lia. lia. }
  rewrite E, Z.div_mul by lia. reflexivity.
Qed.

Lemma pow256_even n : 1 <= n -> 256 ^ n = 2 * (256 ^ n / 2).
Proof.
  intros H. rewrite <- half_pow by assumption. rewrite <- pow2_8 by lia.
  set (k := n * 8 - 1). replace (n * 8) with (Z.succ k) by lia.
  rewrite Z.pow_succ_r by lia. lia.
Qed.

Lemma twos_complement_mod n v : - (256 ^ Z.of_nat n) <= v < 256 ^ Z.of_nat n ->
  twos_complement n v = be_encode n (v mod 256 ^ Z.of_nat n).
Proof.
  intros H. unfold twos_complement. pose proof (pow256_pos n).
  destruct (v <? 0) eqn:E.
  - rewrite <- (be_encode_mod n (_ + v)). f_equal.
    rewrite Z.add_comm. rewrite <- (Z.mul_1_l (256 ^ Z.of_nat n)) at 1.
    rewrite Z_mod_plus_full. reflexivity.
  - rewrite be_encode_mod. reflexivity.
Qed.

(* accepted exactly on |v| <= 2^(8n-1) - 1 (so -2^(8n-1) is refused), and there it is the
   big-endian two's complement *)
Lemma to_signed_ok n v : gen_width_ok n -> Z.abs v <= 2 ^ (n * 8 - 1) - 1 ->
  to_signed n v = Ok (twos_complement (Z.to_nat n) v).
Proof.
  intros Hn Hv. pose proof (gen_width_pos n Hn) as Hp. unfold to_signed.
  assert (byte_num_allowed n = true) as -> by (apply byte_num_allowed_iff, gen_width_ok_width_ok, Hn).
  destruct (n =? 0) eqn:E0; [lia|].
  destruct (Z.abs v >? 2 ^ (n * 8 - 1) - 1) eqn:E1; [lia|]. cbn [negb].
  rewrite sss_ok by assumption. cbn [bind].
  rewrite half_pow in Hv by assumption. pose proof (pow256_even n Hp) as Hev.
  unfold struct_pack_signed. rewrite pow256_nat by lia.
  destruct ((- (256 ^ n / 2) <=? v) && (v <? 256 ^ n / 2)) eqn:E2; [|lia].
  rewrite twos_complement_mod by (rewrite pow256_nat by lia; lia).
  rewrite pow256_nat by lia. reflexivity.
Qed.

Lemma to_signed_refuses n v : gen_width_ok n -> Z.abs v > 2 ^ (n * 8 - 1) - 1 ->
  to_signed n v = Err EValue.
Proof.
  intros Hn Hv. pose proof (gen_width_pos n Hn) as Hp. unfold to_signed.
  assert (byte_num_allowed n = true) as -> by (apply byte_num_allowed_iff, gen_width_ok_width_ok, Hn).
  destruct (n =? 0) eqn:E0; [lia|].
  destruct (Z.abs v >? 2 ^ (n * 8 - 1) - 1) eqn:E1; [reflexivity|lia].
Qed.

(* ================= UnsignedByteField ================= *)

(* the invariant of every constructible field *)
Definition ubf_wf (f : ubf) : Prop :=
  width_ok (ubf_len f) /\ representable (ubf_len f) (ubf_val f) /\
  ubf_bytes f = ubf_layout (ubf_len f) (ubf_val f).

Lemma to_unsigned_repr w v : width_ok w -> representable w v -> to_unsigned w v = Ok (ubf_layout w v).
Proof.
  intros Hw Hv. destruct (width_ok_cases w Hw) as [-> | Hg].
  - reflexivity.
  - apply to_unsigned_ok; assumption.
Qed.

Lemma width_ok_nonneg w : width_ok w -> 0 <= w.
Proof. unfold width_ok. lia. Qed.

Lemma verify_int_value_ok w v : 0 <= w -> representable w v -> verify_int_value w v = Ok tt.
Proof.
  unfold representable, verify_int_value. intros Hw Hv. rewrite pow2_8 by assumption.
  destruct ((v >? 256 ^ w - 1) || (v <? 0)) eqn:E; [lia|reflexivity].
Qed.
Lemma verify_int_value_err w v : 0 <= w -> ~ representable w v -> verify_int_value w v = Err EValue.
Proof.
  unfold representable, verify_int_value. intros Hw Hv. rewrite pow2_8 by assumption.
  destruct ((v >? 256 ^ w - 1) || (v <? 0)) eqn:E; [reflexivity|lia].
Qed.

Lemma ubf_new_ok v w : width_ok w -> representable w v ->
  ubf_new v w = Ok {| ubf_len := w; ubf_val := v; ubf_bytes := ubf_layout w v |}.
Proof.
  intros Hw Hv. unfold ubf_new, verify_byte_len.
  assert (byte_num_allowed w = true) as -> by (apply byte_num_allowed_iff, Hw). cbn [bind].
  rewrite verify_int_value_ok by (auto using width_ok_nonneg). cbn [bind].
  rewrite to_unsigned_repr by assumption. reflexivity.
Qed.

Lemma ubf_new_err v w : ~ (width_ok w /\ representable w v) -> ubf_new v w = Err EValue.
Proof.
  intros H. unfold ubf_new, verify_byte_len.
  destruct (byte_num_allowed w) eqn:E; [|reflexivity]. apply byte_num_allowed_iff in E. cbn [bind].
  rewrite verify_int_value_err; [reflexivity|auto using width_ok_nonneg|tauto].
Qed.

(* constructor: accepted exactly for a supported width and a representable value *)
Lemma ubf_new_accepts_iff v w :
  (width_ok w /\ representable w v ->
     ubf_new v w = Ok {| ubf_len := w; ubf_val := v; ubf_bytes := ubf_layout w v |}) /\
  (~ (width_ok w /\ representable w v) -> ubf_new v w = Err EValue).
Proof. split; [intros [? ?]; apply ubf_new_ok; assumption | apply ubf_new_err]. Qed.

Lemma ubf_new_inv v w f : ubf_new v w = Ok f ->
  width_ok w /\ representable w v /\ f = {| ubf_len := w; ubf_val := v; ubf_bytes := ubf_layout w v |}.
Proof.
  intros H. destruct (ubf_new_accepts_iff v w) as [Hok Herr].
  assert (D : (width_ok w /\ representable w v) \/ ~ (width_ok w /\ representable w v)).
  { unfold width_ok, representable. lia. }
  destruct D as [D|D].
  - rewrite (Hok D) in H. inversion H. destruct D. auto.
  - rewrite (Herr D) in H. discriminate.
Qed.

Lemma ubf_wf_iff f : ubf_wf f <-> ubf_new (ubf_val f) (ubf_len f) = Ok f.
Proof.
  split.
  - intros (Hw & Hv & Hb). rewrite ubf_new_ok by assumption.
    destruct f as [l v b]; cbn [ubf_len ubf_val ubf_bytes] in *. subst. reflexivity.
  - intros H. apply ubf_new_inv in H. destruct H as (Hw & Hv & E). unfold ubf_wf.
    destruct f as [l v b]; cbn [ubf_len ubf_val ubf_bytes] in *. inversion E as [Eb].
    rewrite <- Eb. repeat split; try assumption; apply Hv.
Qed.

Lemma ubf_new_wf v w f : ubf_new v w = Ok f -> ubf_wf f.
Proof.
  intros H. apply ubf_new_inv in H. destruct H as (Hw & Hv & ->).
  unfold ubf_wf. cbn [ubf_len ubf_val ubf_bytes]. auto.
Qed.

(* ---------- hex view ---------- *)

Lemma hex_of_bytes_cons b l : hex_of_bytes (b :: l) = b / 16 :: b mod 16 :: hex_of_bytes l.
Proof. reflexivity. Qed.

Lemma hex_encode_be k v : hex_encode (2 * k) v = hex_of_bytes (be_encode k v).
Proof.
  induction k as [|k IH]; [reflexivity|].
  replace (2 * S k)%nat with (S (S (2 * k))) by lia.
  cbn [hex_encode be_encode]. rewrite hex_of_bytes_cons, IH.
  assert (P16 : 16 ^ Z.of_nat (2 * k) = 256 ^ Z.of_nat k).
  { rewrite Nat2Z.inj_mul. change (Z.of_nat 2) with 2. rewrite Z.pow_mul_r by lia. reflexivity. }
  assert (P16' : 16 ^ Z.of_nat (S (2 * k)) = 256 ^ Z.of_nat k * 16).
  { rewrite Nat2Z.inj_succ, Z.pow_succ_r by lia. rewrite P16. lia. }
  rewrite P16, P16'. pose proof (pow256_pos k) as Hp.
  rewrite <- Z.div_div by lia.
  set (x := v / 256 ^ Z.of_nat k).
  f_equal; [lia|]. f_equal. lia.
Qed.

Lemma ubf_hex_str_wf f : ubf_wf f ->
  ubf_hex_str f = if ubf_len f =? 0 then None else Some (hex_of_bytes (ubf_bytes f)).
Proof.
  intros (Hw & Hv & Hb). rewrite Hb. unfold ubf_hex_str, ubf_layout.
  destruct Hw as [->|[-> | [-> | [-> | ->]]]]; cbn [Z.eqb Pos.eqb]; try reflexivity;
    f_equal; [apply (hex_encode_be 1)|apply (hex_encode_be 2)|apply (hex_encode_be 4)|apply (hex_encode_be 8)].
Qed.

(* ---------- all views of a constructed field agree ---------- *)

Lemma ubf_views_agree v w f : ubf_new v w = Ok f ->
  ubf_int f = v /\ ubf_pylen f = w /\ ubf_as_bytes f = ubf_layout w v /\
  len (ubf_as_bytes f) = w /\ wf_bytes (ubf_as_bytes f) /\ be_decode (ubf_as_bytes f) = v /\
  ubf_hex_str f = (if w =? 0 then None else Some (hex_of_bytes (ubf_layout w v))) /\
  ubf_hash_key f = (v, w).
Proof.
  intros H. pose proof (ubf_new_wf _ _ _ H) as Hwf. pose proof (ubf_hex_str_wf f Hwf) as Hhex.
  apply ubf_new_inv in H. destruct H as (Hw & Hv & ->).
  pose proof (width_ok_nonneg w Hw) as Hn.
  cbn [ubf_int ubf_pylen ubf_as_bytes ubf_val ubf_len ubf_bytes ubf_hash_key] in *.
  repeat split; try assumption.
  - unfold len, ubf_layout. rewrite be_encode_length. lia.
  - apply be_encode_wf.
  - unfold ubf_layout. apply be_decode_encode. rewrite pow256_nat by assumption. exact Hv.
Qed.

(* ---------- from octets ---------- *)

Lemma ubf_from_bytes_ok raw : wf_bytes raw -> width_ok (len raw) ->
  ubf_from_bytes raw = Ok {| ubf_len := len raw; ubf_val := be_decode raw; ubf_bytes := raw |}.
Proof.
  intros Hwf Hw. unfold ubf_from_bytes, verify_byte_len, int_from_bytes.
  assert (byte_num_allowed (len raw) = true) as -> by (apply byte_num_allowed_iff, Hw). cbn [bind].
  rewrite ubf_new_ok; [|assumption|].
  - unfold ubf_layout, len. rewrite Nat2Z.id, be_encode_decode by assumption. reflexivity.
  - unfold representable, len. apply be_decode_range. assumption.
Qed.

Lemma ubf_from_bytes_err raw : ~ width_ok (len raw) -> ubf_from_bytes raw = Err EValue.
Proof.
  intros Hw. unfold ubf_from_bytes, verify_byte_len.
  rewrite byte_num_allowed_false by assumption. reflexivity.
Qed.

Lemma ubf_from_bytes_spec raw : wf_bytes raw ->
  (width_ok (len raw) ->
     ubf_from_bytes raw = Ok {| ubf_len := len raw; ubf_val := be_decode raw; ubf_bytes := raw |}) /\
  (~ width_ok (len raw) -> ubf_from_bytes raw = Err EValue).
Proof. intros H. split; [apply ubf_from_bytes_ok; assumption | apply ubf_from_bytes_err]. Qed.

Lemma layout_len w v : 0 <= w -> len (ubf_layout w v) = w.
Proof. intros. unfold len, ubf_layout. rewrite be_encode_length. lia. Qed.

(* building a field from its own octets gives back the same field, for every width incl. 0 *)
Lemma ubf_from_bytes_roundtrip v w f : ubf_new v w = Ok f -> ubf_from_bytes (ubf_as_bytes f) = Ok f.
Proof.
  intros H. apply ubf_new_inv in H. destruct H as (Hw & Hv & ->). cbn [ubf_as_bytes ubf_bytes].
  pose proof (width_ok_nonneg w Hw) as Hn.
  rewrite ubf_from_bytes_ok.
  - rewrite layout_len by assumption. f_equal. f_equal.
    unfold ubf_layout. apply be_decode_encode. rewrite pow256_nat by assumption. exact Hv.
  - apply be_encode_wf.
  - rewrite layout_len by assumption. assumption.
Qed.

(* sized decoders: the first w octets, anything may follow *)
Lemma slice_0_app_layout w v rest : 0 <= w -> slice (ubf_layout w v ++ rest) 0 w = ubf_layout w v.
Proof.
  intros Hw. rewrite slice_0. apply slice_to_app. rewrite layout_len by assumption. reflexivity.
Qed.

Lemma slice_0_length (d : bytes) w : 0 <= w <= len d -> length (slice d 0 w) = Z.to_nat w.
Proof. intros H. rewrite slice_length by lia. f_equal. lia. Qed.

Lemma slice_0_firstn (d : bytes) w : slice d 0 w = firstn (Z.to_nat w) d.
Proof. rewrite slice_0. reflexivity. Qed.

Definition sized_from_bytes (w : Z) (stream : bytes) : res ubf :=
  if len stream <? w then Err EValue
  else Ok {| ubf_len := w; ubf_val := be_decode (firstn (Z.to_nat w) stream);
             ubf_bytes := firstn (Z.to_nat w) stream |}.

Lemma firstn_layout (d : bytes) w : wf_bytes d -> 0 <= w <= len d ->
  ubf_layout w (be_decode (firstn (Z.to_nat w) d)) = firstn (Z.to_nat w) d.
Proof.
  intros Hwf Hw. unfold ubf_layout.
  assert (L : length (firstn (Z.to_nat w) d) = Z.to_nat w).
  { rewrite firstn_length. unfold len in Hw. lia. }
  rewrite <- L at 1. apply be_encode_decode. apply wf_bytes_firstn. assumption.
Qed.

Lemma firstn_repr (d : bytes) w : wf_bytes d -> 0 <= w <= len d ->
  representable w (be_decode (firstn (Z.to_nat w) d)).
Proof.
  intros Hwf Hw. unfold representable.
  assert (L : length (firstn (Z.to_nat w) d) = Z.to_nat w).
  { rewrite firstn_length. unfold len in Hw. lia. }
  pose proof (be_decode_range (firstn (Z.to_nat w) d) (wf_bytes_firstn _ _ Hwf)) as R.
  rewrite L, pow256_nat in R by lia. exact R.
Qed.

Lemma u8_from_bytes_spec s : wf_bytes s -> u8_from_bytes s = sized_from_bytes 1 s.
Proof.
  intros Hwf. unfold u8_from_bytes, sized_from_bytes.
  destruct (len s <? 1) eqn:E; [reflexivity|]. cbn [negb].
  destruct s as [|b r]; [cbn in E; discriminate|].
  rewrite py_get_cons_0. cbn [bind]. unfold u8_new.
  inversion Hwf as [|? ? Hb Hr]; subst.
  rewrite ubf_new_ok; [|unfold width_ok; lia|unfold representable; lia].
  change (firstn (Z.to_nat 1) (b :: r)) with [b].
  unfold ubf_layout. change (Z.to_nat 1) with 1%nat. rewrite be_encode_1.
  cbn [be_decode length]. rewrite Z.mod_small by lia. do 2 f_equal. cbn. lia.
Qed.

Lemma sized_struct_spec w s : gen_width_ok w -> wf_bytes s ->
  (check negb (len s <? w) else EValue;
   do k <- unsigned_struct_specifier w;
   do v <- struct_unpack k (slice s 0 w);
   ubf_new v w) = sized_from_bytes w s.
Proof.
  intros Hw Hwf. pose proof (gen_width_pos w Hw) as Hp. unfold sized_from_bytes.
  destruct (len s <? w) eqn:E; [reflexivity|]. cbn [negb].
  rewrite uss_ok by assumption. cbn [bind].
  rewrite struct_unpack_ok by (apply slice_0_length; lia). cbn [bind].
  rewrite slice_0_firstn.
  rewrite ubf_new_ok; [|apply gen_width_ok_width_ok; assumption|apply firstn_repr; [assumption|lia]].
  rewrite firstn_layout by (try assumption; lia). reflexivity.
Qed.

Lemma u16_from_bytes_spec s : wf_bytes s -> u16_from_bytes s = sized_from_bytes 2 s.
Proof. intros. apply (sized_struct_spec 2); [unfold gen_width_ok; lia|assumption]. Qed.
Lemma u32_from_bytes_spec s : wf_bytes s -> u32_from_bytes s = sized_from_bytes 4 s.
Proof. intros. apply (sized_struct_spec 4); [unfold gen_width_ok; lia|assumption]. Qed.
Lemma u64_from_bytes_spec s : wf_bytes s -> u64_from_bytes s = sized_from_bytes 8 s.
Proof. intros. apply (sized_struct_spec 8); [unfold gen_width_ok; lia|assumption]. Qed.

Lemma gen_from_bytes_spec w s : wf_bytes s ->
  (gen_width_ok w -> gen_from_bytes w s = sized_from_bytes w s) /\
  (~ gen_width_ok w -> gen_from_bytes w s = Err EValue).
Proof.
  intros Hwf. split.
  - intros [-> | [-> | [-> | ->]]]; unfold gen_from_bytes; cbn [Z.eqb Pos.eqb];
      auto using u8_from_bytes_spec, u16_from_bytes_spec, u32_from_bytes_spec, u64_from_bytes_spec.
  - intros H. unfold gen_from_bytes, gen_width_ok in *.
    destruct (w =? 1) eqn:E1; [lia|]. destruct (w =? 2) eqn:E2; [lia|].
    destruct (w =? 4) eqn:E4; [lia|]. destruct (w =? 8) eqn:E8; [lia|]. reflexivity.
Qed.

Lemma gen_from_int_spec w v :
  (gen_width_ok w -> gen_from_int w v = ubf_new v w) /\
  (~ gen_width_ok w -> gen_from_int w v = Err EValue).
Proof.
  split.
  - intros [-> | [-> | [-> | ->]]]; reflexivity.
  - intros H. unfold gen_from_int, gen_width_ok in *.
    destruct (w =? 1) eqn:E1; [lia|]. destruct (w =? 2) eqn:E2; [lia|].
    destruct (w =? 4) eqn:E4; [lia|]. destruct (w =? 8) eqn:E8; [lia|]. reflexivity.
Qed.

(* round trip through the width-dispatching generator, with any trailing octets *)
Lemma gen_from_bytes_roundtrip v w f rest : gen_width_ok w -> wf_bytes rest -> ubf_new v w = Ok f ->
  gen_from_bytes w (ubf_as_bytes f ++ rest) = Ok f /\ gen_from_int w v = Ok f.
Proof.
  intros Hg Hr H. split; [|rewrite (proj1 (gen_from_int_spec w v) Hg); exact H].
  apply ubf_new_inv in H. destruct H as (Hw & Hv & ->). cbn [ubf_as_bytes ubf_bytes].
  pose proof (width_ok_nonneg w Hw) as Hn.
  assert (Hwf : wf_bytes (ubf_layout w v ++ rest)).
  { apply wf_bytes_app. split; [apply be_encode_wf|assumption]. }
  rewrite (proj1 (gen_from_bytes_spec w _ Hwf) Hg). unfold sized_from_bytes.
  rewrite len_app, layout_len by assumption. pose proof (len_nonneg rest).
  destruct (w + len rest <? w) eqn:E; [lia|].
  rewrite firstn_app_exact by (unfold ubf_layout; rewrite be_encode_length; reflexivity).
  do 3 f_equal. unfold ubf_layout. apply be_decode_encode. rewrite pow256_nat by assumption. exact Hv.
Qed.

(* ---------- equality and hashing ---------- *)

Lemma ubf_eq_hash f g : ubf_eq f g = true <-> ubf_hash_key f = ubf_hash_key g.
Proof.
  unfold ubf_eq, ubf_hash_key. split.
  - intros H. f_equal; lia.
  - intros H. inversion H. lia.
Qed.

Lemma ubf_eq_iff v w f v' w' g : ubf_new v w = Ok f -> ubf_new v' w' = Ok g ->
  (ubf_eq f g = true <-> (v = v' /\ w = w')) /\ (ubf_eq f g = true <-> f = g).
Proof.
  intros Hf Hg. apply ubf_new_inv in Hf. apply ubf_new_inv in Hg.
  destruct Hf as (_ & _ & ->). destruct Hg as (_ & _ & ->).
  unfold ubf_eq. cbn [ubf_val ubf_len]. split; split.
  - lia.
  - lia.
  - intros H. assert (v = v') by lia. assert (w = w') by lia. subst. reflexivity.
  - intros H. inversion H. lia.
Qed.

Lemma ubf_eq_bytes_iff v w f b : ubf_new v w = Ok f ->
  (ubf_eq_bytes f b = true <-> b = ubf_layout w v).
Proof.
  intros Hf. apply ubf_new_inv in Hf. destruct Hf as (_ & _ & ->).
  unfold ubf_eq_bytes. cbn [ubf_bytes]. rewrite bytes_eqb_eq. split; congruence.
Qed.

(* ---------- assignment ---------- *)

(* assigning an integer = constructing afresh with the same width *)
Lemma ubf_set_int_spec f v : ubf_wf f -> ubf_set_int f v = ubf_new v (ubf_len f).
Proof.
  intros (Hw & _ & _). pose proof (width_ok_nonneg _ Hw) as Hn. unfold ubf_set_int.
  assert (D : representable (ubf_len f) v \/ ~ representable (ubf_len f) v) by (unfold representable; lia).
  destruct D as [D|D].
  - rewrite verify_int_value_ok by assumption. cbn [bind].
    rewrite to_unsigned_repr by assumption. cbn [bind]. rewrite ubf_new_ok by assumption. reflexivity.
  - rewrite verify_int_value_err by assumption. cbn [bind]. rewrite ubf_new_err by tauto. reflexivity.
Qed.

(* assigning octets = the first byte_len octets, refused when there are fewer *)
Lemma ubf_set_bytes_spec f b : ubf_wf f -> wf_bytes b ->
  ubf_set_bytes f b = sized_from_bytes (ubf_len f) b /\
  (ubf_len f <= len b -> ubf_set_bytes f b = ubf_new (be_decode (firstn (Z.to_nat (ubf_len f)) b)) (ubf_len f)).
Proof.
  intros (Hw & _ & _) Hb. pose proof (width_ok_nonneg _ Hw) as Hn.
  assert (E1 : ubf_set_bytes f b = sized_from_bytes (ubf_len f) b).
  { unfold ubf_set_bytes, verify_bytes_value, sized_from_bytes, int_from_bytes.
    destruct (len b <? ubf_len f) eqn:E; [reflexivity|]. cbn [negb].
    rewrite slice_0_firstn.
    rewrite verify_int_value_ok by (first [assumption | apply firstn_repr; [assumption|lia]]).
    reflexivity. }
  split; [exact E1|]. intros Hl. rewrite E1. unfold sized_from_bytes.
  destruct (len b <? ubf_len f) eqn:E; [lia|].
  rewrite ubf_new_ok; [|assumption|apply firstn_repr; [assumption|lia]].
  rewrite firstn_layout by (try assumption; lia). reflexivity.
Qed.

Lemma sized_from_bytes_wf w s f : width_ok w -> wf_bytes s -> sized_from_bytes w s = Ok f -> ubf_wf f.
Proof.
  intros Hw Hs. unfold sized_from_bytes. pose proof (width_ok_nonneg _ Hw) as Hn.
  destruct (len s <? w) eqn:E; [discriminate|]. intros H. inversion H. subst f.
  unfold ubf_wf. cbn [ubf_len ubf_val ubf_bytes]. repeat split.
  - assumption.
  - apply firstn_repr; [assumption|lia].
  - apply firstn_repr; [assumption|lia].
  - symmetry. apply firstn_layout; [assumption|lia].
Qed.

Definition op_wf (o : ubf_op) : Prop := match o with SetInt _ => True | SetBytes b => wf_bytes b end.

Lemma ubf_step_wf f o f' : ubf_wf f -> op_wf o -> ubf_step f o = Ok f' -> ubf_wf f' /\ ubf_len f' = ubf_len f.
Proof.
  intros Hf Ho. destruct o as [v|b]; cbn [ubf_step].
  - rewrite ubf_set_int_spec by assumption. intros H. split; [eapply ubf_new_wf; eassumption|].
    apply ubf_new_inv in H. destruct H as (_ & _ & ->). reflexivity.
  - destruct (ubf_set_bytes_spec f b Hf Ho) as [E _]. rewrite E. intros H. split.
    + eapply sized_from_bytes_wf; try eassumption. apply Hf.
    + unfold sized_from_bytes in H. destruct (len b <? ubf_len f); [discriminate|]. inversion H. reflexivity.
Qed.

(* after any sequence of assignments (accepted or refused) all views are still in step *)
Lemma ubf_history_wf ops : forall f, ubf_wf f -> Forall op_wf ops ->
  let f' := fold_left ubf_apply ops f in ubf_wf f' /\ ubf_len f' = ubf_len f.
Proof.
  induction ops as [|o ops IH]; intros f Hf Hops; cbn [fold_left]; [tauto|].
  inversion Hops as [|? ? Ho Hr]; subst.
  unfold ubf_apply at 2 4. destruct (ubf_step f o) as [f1|e] eqn:E.
  - destruct (ubf_step_wf f o f1 Hf Ho E) as [W L].
    destruct (IH f1 W Hr) as [W' L']. split; [exact W'|congruence].
  - apply IH; assumption.
Qed.

(* C11 for the one mutable class of this slice: after any assignment sequence the reported
   length is the length of the octets, and the octets are those of a freshly built field *)
Lemma ubf_len_tracks ops f : ubf_wf f -> Forall op_wf ops ->
  let f' := fold_left ubf_apply ops f in
  len (ubf_as_bytes f') = ubf_pylen f' /\ ubf_new (ubf_val f') (ubf_len f') = Ok f'.
Proof.
  intros Hf Hops. destruct (ubf_history_wf ops f Hf Hops) as [W _]. cbv zeta. split.
  - destruct W as (Hw & _ & Hb). unfold ubf_as_bytes, ubf_pylen. rewrite Hb.
    apply layout_len. apply width_ok_nonneg. assumption.
  - apply ubf_wf_iff. assumption.
Qed.

(* ================= C09 / C10 lemmas for the byte-field decoders ================= *)

Lemma sized_total w s : ok_or_documented (sized_from_bytes w s).
Proof. unfold sized_from_bytes. destruct (len s <? w); cbn; reflexivity. Qed.

Lemma ubf_from_bytes_total d : wf_bytes d -> ok_or_documented (ubf_from_bytes d).
Proof.
  intros H. destruct (ubf_from_bytes_spec d H) as [Hok Herr].
  assert (D : width_ok (len d) \/ ~ width_ok (len d)) by (unfold width_ok; lia).
  destruct D as [D|D]; [rewrite (Hok D)|rewrite (Herr D)]; cbn; reflexivity.
Qed.
Lemma u8_from_bytes_total d : wf_bytes d -> ok_or_documented (u8_from_bytes d).
Proof. intros H. rewrite u8_from_bytes_spec by assumption. apply sized_total. Qed.
Lemma u16_from_bytes_total d : wf_bytes d -> ok_or_documented (u16_from_bytes d).
Proof. intros H. rewrite u16_from_bytes_spec by assumption. apply sized_total. Qed.
Lemma u32_from_bytes_total d : wf_bytes d -> ok_or_documented (u32_from_bytes d).
Proof. intros H. rewrite u32_from_bytes_spec by assumption. apply sized_total. Qed.
Lemma u64_from_bytes_total d : wf_bytes d -> ok_or_documented (u64_from_bytes d).
Proof. intros H. rewrite u64_from_bytes_spec by assumption. apply sized_total. Qed.
Lemma gen_from_bytes_total w d : wf_bytes d -> ok_or_documented (gen_from_bytes w d).
Proof.
  intros H. destruct (gen_from_bytes_spec w d H) as [Hok Herr].
  assert (D : gen_width_ok w \/ ~ gen_width_ok w) by (unfold gen_width_ok; lia).
  destruct D as [D|D]; [rewrite (Hok D); apply sized_total|rewrite (Herr D); cbn; reflexivity].
Qed.

(* every strict prefix of a packed w-octet field is refused by the sized decoder of width w *)
Lemma gen_from_bytes_prefix_rejected w v n : gen_width_ok w -> (n < Z.to_nat w)%nat ->
  gen_from_bytes w (firstn n (ubf_layout w v)) = Err EValue.
Proof.
  intros Hg Hn.
  assert (Hwf : wf_bytes (firstn n (ubf_layout w v))) by (apply wf_bytes_firstn, be_encode_wf).
  rewrite (proj1 (gen_from_bytes_spec w _ Hwf) Hg). unfold sized_from_bytes.
  assert (len (firstn n (ubf_layout w v)) < w).
  { unfold len, ubf_layout. rewrite firstn_length, be_encode_length. lia. }
  destruct (len _ <? w) eqn:E; [reflexivity|lia].
Qed.

(* no over-read: only the first w octets matter *)
Lemma sized_no_overread w d f : 0 <= w -> sized_from_bytes w d = Ok f ->
  sized_from_bytes w (firstn (Z.to_nat w) d) = Ok f.
Proof.
  intros Hw. unfold sized_from_bytes. destruct (len d <? w) eqn:E; [discriminate|].
  intros H. assert (L : len (firstn (Z.to_nat w) d) = w).
  { unfold len in *. rewrite firstn_length. lia. }
  rewrite L. destruct (w <? w) eqn:E2; [lia|]. rewrite firstn_firstn, Nat.min_id. exact H.
Qed.

Lemma gen_from_bytes_no_overread w d f : wf_bytes d -> gen_from_bytes w d = Ok f ->
  gen_from_bytes w (firstn (Z.to_nat (ubf_len f)) d) = Ok f /\ ubf_len f = w /\ ubf_len f = len (ubf_bytes f).
Proof.
  intros Hwf H.
  assert (D : gen_width_ok w \/ ~ gen_width_ok w) by (unfold gen_width_ok; lia).
  destruct D as [D|D]; [|rewrite (proj2 (gen_from_bytes_spec w d Hwf) D) in H; discriminate].
  pose proof (gen_width_pos w D) as Hp.
  rewrite (proj1 (gen_from_bytes_spec w d Hwf) D) in H.
  assert (L : ubf_len f = w /\ ubf_len f = len (ubf_bytes f)).
  { unfold sized_from_bytes in H. destruct (len d <? w) eqn:E; [discriminate|]. inversion H.
    cbn [ubf_len ubf_bytes]. split; [reflexivity|]. unfold len in *. rewrite firstn_length. lia. }
  destruct L as [L1 L2]. rewrite L1.
  rewrite (proj1 (gen_from_bytes_spec w _ (wf_bytes_firstn _ _ Hwf)) D).
  split; [apply sized_no_overread; [lia|assumption]|]. split; [reflexivity|]. rewrite <- L1. exact L2.
Qed.

Lemma gen_from_bytes_suffix_irrelevant v w f s : gen_width_ok w -> wf_bytes s -> ubf_new v w = Ok f ->
  gen_from_bytes w (ubf_as_bytes f ++ s) = gen_from_bytes w (ubf_as_bytes f).
Proof.
  intros Hg Hs H.
  rewrite (proj1 (gen_from_bytes_roundtrip v w f s Hg Hs H)).
  rewrite <- (app_nil_r (ubf_as_bytes f)).
  rewrite (proj1 (gen_from_bytes_roundtrip v w f [] Hg ltac:(constructor) H)). reflexivity.
Qed.

(* ================= non-vacuity ================= *)

Example ubf_example_u64 :
  ubf_new 18446744073709551615 8 =
  Ok {| ubf_len := 8; ubf_val := 18446744073709551615; ubf_bytes := [255;255;255;255;255;255;255;255] |}.
Proof. vm_compute. reflexivity. Qed.
Example ubf_example_empty : ubf_new 0 0 = Ok {| ubf_len := 0; ubf_val := 0; ubf_bytes := [] |}.
Proof. vm_compute. reflexivity. Qed.
Example ubf_example_wf : ubf_wf {| ubf_len := 4; ubf_val := 2147483648; ubf_bytes := [128; 0; 0; 0] |}.
Proof. unfold ubf_wf, width_ok, representable. cbn [ubf_len ubf_val ubf_bytes]. repeat split; try lia. Qed.
Example to_signed_example : to_signed 2 (-32767) = Ok [128; 1] /\ to_signed 2 (-32768) = Err EValue.
Proof. split; vm_compute; reflexivity. Qed.

(* ================= packaged statements used by Props/C20.v ================= *)

Lemma sized_are_generator s : wf_bytes s ->
  u8_from_bytes s = gen_from_bytes 1 s /\ u16_from_bytes s = gen_from_bytes 2 s /\
  u32_from_bytes s = gen_from_bytes 4 s /\ u64_from_bytes s = gen_from_bytes 8 s.
Proof. intros _. repeat split; reflexivity. Qed.

Lemma to_unsigned_spec n v :
  (~ width_ok n -> to_unsigned n v = Err EValue) /\
  (n = 0 -> to_unsigned n v = Ok []) /\
  (gen_width_ok n -> 0 <= v < 256 ^ n -> to_unsigned n v = Ok (ubf_layout n v)) /\
  (gen_width_ok n -> 256 ^ n <= v -> to_unsigned n v = Err EValue) /\
  (gen_width_ok n -> v < 0 -> to_unsigned n v = Err EStruct).
Proof.
  split; [apply to_unsigned_bad_width|]. split; [intros ->; apply to_unsigned_0|].
  split; [apply to_unsigned_ok|]. split; [apply to_unsigned_large|apply to_unsigned_negative].
Qed.

Lemma to_signed_spec n v :
  (~ width_ok n -> to_signed n v = Err EValue) /\
  (n = 0 -> to_signed n v = Ok []) /\
  (gen_width_ok n -> Z.abs v <= 2 ^ (n * 8 - 1) - 1 ->
     to_signed n v = Ok (twos_complement (Z.to_nat n) v)) /\
  (gen_width_ok n -> Z.abs v > 2 ^ (n * 8 - 1) - 1 -> to_signed n v = Err EValue).
Proof.
  split; [apply to_signed_bad_width|]. split; [intros ->; apply to_signed_0|].
  split; [apply to_signed_ok|apply to_signed_refuses].
Qed.
