(* C04 for the Finished and Metadata PDUs: instances of the generic CFDP lemma (variant with an
   existentially quantified header, matching the shape of fin_/md_accept_needs_crc0). *)
From Coq Require Import ZArith List Bool Lia ZifyBool.
From SP Require Import Base.Result Base.Bytes Base.BytesFacts Base.Crc16 Base.Crc16Facts Base.Crc16Burst
  Model.PduHeader Spec.PduHeaderSpec Proofs.PduHeaderProofs Proofs.PusTcProofs Proofs.CorruptProofs
  Proofs.CorruptCfdp Model.FileDirective Proofs.FileDirectiveProofs Model.Finished Model.Metadata Spec.PduBSpec
  Proofs.FinishedProofs Proofs.MetadataProofs.
Import ListNotations.
Open Scope Z_scope.
Ltac Zify.zify_post_hook ::= Z.to_euclidean_division_equations.

Section GenericEx.
  Context {T : Type} (unpack : bytes -> res T).
  Hypothesis total : forall d, wf_bytes d -> ok_or_documented (unpack d).
  Hypothesis accept : forall d t, wf_bytes d -> unpack d = Ok t ->
    exists h, hdr_unpack d = Ok h /\
      (cf_crc (h_conf h) = 1 -> crc16 (firstn (Z.to_nat (hdr_packet_len h)) d) = 0) /\
      hdr_packet_len h <= len d.

  (* a packed, CRC-flagged PDU that its own decoder accepts, whose declared length is its length *)
  Lemma cfdp_corrupt_rejected_ex p t0 e :
    wf_bytes p -> unpack p = Ok t0 ->
    (forall h, hdr_unpack p = Ok h -> cf_crc (h_conf h) = 1 /\ hdr_packet_len h = len p) ->
    burst16 e -> length e = length p -> cfdp_untouched e ->
    exists x, unpack (xor_bytes p e) = Err x /\ documented x = true.
  Proof.
    intros Wp U0 HP B Le (U1 & U2 & U3 & U0').
    destruct (accept _ _ Wp U0) as (hp & Hh & Hc & _).
    destruct (HP _ Hh) as [C1 PL].
    assert (C0 : crc16 p = 0).
    { specialize (Hc C1). rewrite PL in Hc. unfold len in Hc. rewrite Nat2Z.id, firstn_all in Hc. exact Hc. }
    assert (We : wf_bytes e) by (apply burst16_wf; assumption).
    assert (Wd : wf_bytes (xor_bytes p e)) by (apply xor_bytes_wf; assumption).
    pose proof (total _ Wd) as Tt.
    destruct (unpack (xor_bytes p e)) as [t|x] eqn:E; [|exists x; split; [reflexivity|exact Tt]].
    exfalso. destruct (accept _ _ Wd E) as (h & S & C & _).
    destruct (hdr_unpack_fields _ _ Wd S) as (D1 & D2 & D3 & D4).
    destruct (hdr_unpack_fields _ _ Wp Hh) as (P1 & P2 & P3 & P4).
    rewrite (xor_untouched p e 1%nat), (xor_untouched p e 2%nat) in D1 by assumption.
    rewrite (xor_untouched p e 3%nat) in D2, D3 by assumption.
    rewrite xor_bytes_nth in D4 by assumption.
    rewrite bit1_untouched in D4 by (try apply nth_wf; assumption).
    assert (N : hdr_packet_len h = len p).
    { rewrite <- PL. unfold hdr_packet_len, hdr_header_len, FIXED_LENGTH. lia. }
    rewrite N in C. unfold len in C. rewrite Nat2Z.id in C.
    rewrite <- (xor_bytes_length p e), firstn_all in C.
    apply (crc_detects_burst16 p e Wp B Le). rewrite C by lia. lia.
  Qed.
End GenericEx.

Lemma fin_hdr_of_layout c q : fin_valid c q -> hdr_unpack (fin_layout c q) = Ok (fin_header c q).
Proof.
  intros V. pose proof (fin_dlen_nonneg c q).
  assert (HV : hdr_valid (fin_header c q)).
  { destruct (fin_fdir_valid c q V) as [HV _]. unfold fdir_of in HV. cbn [fd_hdr] in HV.
    replace (fin_dlen c q - 1 + 1) with (fin_dlen c q) in HV by lia. exact HV. }
  pose proof (fin_pre_wf c q V) as WP. rewrite wf_bytes_app in WP. destruct WP as [_ WR].
  unfold fin_layout. rewrite with_crc_split, <- app_assoc. apply hdr_unpack_pack; [exact HV|].
  rewrite wf_bytes_app. split; [exact WR|apply crc_tail_wf].
Qed.

Theorem fin_corrupt_rejected c q e : fin_valid c q -> cf_crc c = 1 ->
  let p := fin_layout c q in
  burst16 e -> length e = length p -> cfdp_untouched e ->
  exists x, fin_unpack (xor_bytes p e) = Err x /\ documented x = true.
Proof.
  intros V C1 p B Le U.
  assert (Wp : wf_bytes p).
  { unfold p, fin_layout. rewrite with_crc_split. apply wf_bytes_app. split; [apply fin_pre_wf; exact V|apply crc_tail_wf]. }
  pose proof (fin_unpack_pack c q [] V ltac:(constructor)) as R. rewrite app_nil_r in R. fold p in R.
  eapply (cfdp_corrupt_rejected_ex fin_unpack fin_unpack_total fin_accept_needs_crc0); try eassumption.
  intros h Hh.
  pose proof (fin_layout_len c q V) as PL. fold p in PL.
  pose proof (fin_hdr_of_layout c q V) as HL. fold p in HL. rewrite HL in Hh. apply Ok_inj in Hh. subst h.
  split; [cbn; exact C1|]. rewrite PL. unfold hdr_packet_len. cbn [h_dlen fin_header]. lia.
Qed.

Lemma md_hdr_of_layout c q o : md_valid c q o -> hdr_unpack (md_layout c q o) = Ok (md_header c q o).
Proof.
  intros V.
  assert (HV : hdr_valid (md_header c q o)).
  { destruct (md_fdir_valid c q o V) as [HV _]. unfold fdir_of in HV. cbn [fd_hdr] in HV.
    pose proof (md_dlen_nonneg c q o).
    replace (md_dlen c q o - 1 + 1) with (md_dlen c q o) in HV by lia. exact HV. }
  pose proof (md_pre_wf c q o V) as WP. rewrite wf_bytes_app in WP. destruct WP as [_ WR].
  unfold md_layout. rewrite with_crc_split, <- app_assoc. apply hdr_unpack_pack; [exact HV|].
  rewrite wf_bytes_app. split; [exact WR|apply crc_tail_wf].
Qed.

Theorem md_corrupt_rejected c q o e : md_valid c q o -> cf_crc c = 1 ->
  let p := md_layout c q o in
  burst16 e -> length e = length p -> cfdp_untouched e ->
  exists x, md_unpack (xor_bytes p e) = Err x /\ documented x = true.
Proof.
  intros V C1 p B Le U.
  assert (Wp : wf_bytes p).
  { unfold p, md_layout. rewrite with_crc_split. apply wf_bytes_app. split; [apply md_pre_wf; exact V|apply crc_tail_wf]. }
  pose proof (md_unpack_pack c q o [] V ltac:(constructor)) as R. rewrite app_nil_r in R. fold p in R.
  eapply (cfdp_corrupt_rejected_ex md_unpack md_unpack_total md_accept_needs_crc0); try eassumption.
  intros h Hh.
  pose proof (md_layout_len c q o V) as PL. fold p in PL.
  pose proof (md_hdr_of_layout c q o V) as HL. fold p in HL. rewrite HL in Hh. apply Ok_inj in Hh. subst h.
  split; [cbn; exact C1|]. rewrite PL. unfold hdr_packet_len. cbn [h_dlen md_header]. lia.
Qed.
