(* Cross-cutting lemmas (C09 / C10 / C11) for the space packet header and the PUS TC / TM models. *)
From Coq Require Import ZArith List Bool Lia ZifyBool.
From SP Require Import Base.Result Base.Bytes Base.BytesFacts Base.Crc16 Base.Crc16Facts
  Model.SpacePacket Spec.SpacePacketSpec Proofs.SpacePacketProofs Model.PusTc Model.PusTm Spec.PusSpec
  Proofs.PusTcProofs Proofs.PusTmProofs Proofs.CorruptProofs.
Import ListNotations.
Open Scope Z_scope.
Ltac Zify.zify_post_hook ::= Z.to_euclidean_division_equations.

(* ================= C10: totality and prefix rejection ================= *)
Theorem sph_unpack_total d : wf_bytes d -> ok_or_documented (sph_unpack d).
Proof.
  intros W. destruct (Nat.lt_ge_cases (length d) 6) as [L|G].
  - rewrite sph_unpack_short by assumption. reflexivity.
  - destruct (sph_pack_unpack d W G) as (h & -> & _). exact I.
Qed.

Theorem sph_prefix_rejected h n : (n < length (sph_layout h))%nat ->
  sph_unpack (firstn n (sph_layout h)) = Err ETooShort.
Proof.
  intros L. apply sph_unpack_short. rewrite firstn_length. cbn [length sph_layout] in *. lia.
Qed.

Theorem apid_from_raw_total d : wf_bytes d -> ok_or_documented (get_apid_from_raw_space_packet d).
Proof.
  intros W. destruct (Nat.lt_ge_cases (length d) 6) as [L|G].
  - unfold get_apid_from_raw_space_packet, len. destruct (_ <? 6) eqn:E; [reflexivity|lia].
  - destruct (apid_from_raw_spec d W G) as (h & _ & ->). exact I.
Qed.

Theorem tcsec_unpack_total d : wf_bytes d -> ok_or_documented (tcsec_unpack d).
Proof.
  intros W. destruct d as [|b6 [|b7 [|b8 [|b9 [|b10 tl]]]]];
    try (rewrite tcsec_unpack_short by (cbn; lia); reflexivity).
  rewrite tcsec_unpack_cells.
  - destruct (negb _); [reflexivity|exact I].
  - change (wf_bytes (firstn 5 (b6 :: b7 :: b8 :: b9 :: b10 :: tl))). apply wf_bytes_firstn. assumption.
Qed.

Theorem tmsec_unpack_total d ts : wf_bytes d -> 0 <= ts -> ok_or_documented (tmsec_unpack d ts).
Proof.
  intros W Hts. destruct d as [|b6 [|b7 [|b8 [|b9 [|b10 [|b11 [|b12 tl]]]]]]];
    try (rewrite tmsec_unpack_short by (cbn; lia); reflexivity).
  rewrite tmsec_unpack_cells.
  - destruct (negb _); [reflexivity|]. destruct (_ >? _); [reflexivity|exact I].
  - change (wf_bytes (firstn 7 (b6 :: b7 :: b8 :: b9 :: b10 :: b11 :: b12 :: tl))). apply wf_bytes_firstn. assumption.
Qed.

Theorem tm_service_from_bytes_total d : ok_or_documented (tm_service_from_bytes d).
Proof.
  unfold tm_service_from_bytes. destruct (len d <? 8) eqn:E; [reflexivity|].
  destruct (py_get_in_range d 7) as (b & -> & _); [lia|exact I].
Qed.

Lemma nth_firstn {A} (l : list A) n i d : (i < n)%nat -> nth i (firstn n l) d = nth i l d.
Proof.
  revert n i. induction l as [|x l IH]; intros [|n] [|i] H; cbn; try reflexivity; try lia.
  apply IH. lia.
Qed.

(* every strict prefix of a packed telecommand is rejected with a documented error *)
Theorem tc_prefix_rejected service subservice apid seq source_id ack app n :
  tc_args_valid service subservice apid seq source_id ack app ->
  let p := tc_layout service subservice apid seq source_id ack app in
  (n < length p)%nat ->
  exists e, tc_unpack (firstn n p) = Err e /\ documented e = true.
Proof.
  intros V p L. destruct (tc_layout_facts _ _ _ _ _ _ _ V) as (Wp & _ & _ & Ln). fold p in Wp, Ln.
  assert (Wd : wf_bytes (firstn n p)) by (apply wf_bytes_firstn; assumption).
  pose proof (tc_unpack_total _ Wd) as T.
  destruct (tc_unpack (firstn n p)) as [t|e] eqn:E; [|exists e; split; [reflexivity|exact T]].
  exfalso. destruct (tc_accept_inv _ _ Wd E) as (R & _ & S & _).
  pose proof (sph_unpack_dlen _ _ Wd S) as D.
  assert (Lf : len (firstn n p) = Z.of_nat n) by (unfold len; rewrite firstn_length; lia).
  unfold sph_packet_len, CCSDS_HEADER_LEN in R. rewrite Lf in R.
  rewrite !nth_firstn in D by lia. unfold len in Ln. lia.
Qed.

Theorem tm_prefix_rejected service subservice apid seq msgcnt ref dest version stamp src n ts :
  tm_args_valid service subservice apid seq msgcnt ref dest version stamp src -> 0 <= ts ->
  let p := tm_layout service subservice apid seq msgcnt ref dest version stamp src in
  (n < length p)%nat ->
  exists e, tm_unpack (firstn n p) ts = Err e /\ documented e = true.
Proof.
  intros V Hts p L. destruct (tm_layout_facts _ _ _ _ _ _ _ _ _ _ V) as (Wp & _ & _ & Ln). fold p in Wp, Ln.
  assert (Wd : wf_bytes (firstn n p)) by (apply wf_bytes_firstn; assumption).
  pose proof (tm_unpack_total _ ts Wd Hts) as T.
  destruct (tm_unpack (firstn n p) ts) as [t|e] eqn:E; [|exists e; split; [reflexivity|exact T]].
  exfalso. destruct (tm_accept_inv _ _ _ Wd Hts E) as (R & _ & S & _).
  pose proof (sph_unpack_dlen _ _ Wd S) as D.
  assert (Lf : len (firstn n p) = Z.of_nat n) by (unfold len; rewrite firstn_length; lia).
  unfold sph_packet_len, CCSDS_HEADER_LEN in R. rewrite Lf in R.
  rewrite !nth_firstn in D by lia. unfold len in Ln. lia.
Qed.

(* ================= C09: no over-read ================= *)
Theorem sph_no_overread d h : wf_bytes d -> sph_unpack d = Ok h -> sph_unpack (firstn 6 d) = Ok h.
Proof.
  intros W E.
  destruct d as [|b0 [|b1 [|b2 [|b3 [|b4 [|b5 r]]]]]];
    try (rewrite sph_unpack_short in E by (cbn; lia); discriminate).
  assert (W6 : wf_bytes [b0; b1; b2; b3; b4; b5]).
  { change (wf_bytes (firstn 6 (b0 :: b1 :: b2 :: b3 :: b4 :: b5 :: r))). apply wf_bytes_firstn. assumption. }
  rewrite sph_unpack_octets in E by assumption.
  change (firstn 6 (b0 :: b1 :: b2 :: b3 :: b4 :: b5 :: r)) with (b0 :: b1 :: b2 :: b3 :: b4 :: b5 :: []).
  rewrite sph_unpack_octets by assumption. exact E.
Qed.

Theorem sph_suffix_irrelevant h s : sph_valid h ->
  sph_unpack (sph_layout h ++ s) = sph_unpack (sph_layout h).
Proof.
  intros V. rewrite sph_unpack_pack by assumption.
  pose proof (sph_unpack_pack h [] V) as B. rewrite app_nil_r in B. rewrite B. reflexivity.
Qed.

Theorem tc_suffix_irrelevant service subservice apid seq source_id ack app s :
  tc_args_valid service subservice apid seq source_id ack app -> wf_bytes s ->
  let p := tc_layout service subservice apid seq source_id ack app in
  tc_unpack (p ++ s) = tc_unpack p.
Proof.
  intros V W p. pose proof (tc_unpack_pack _ _ _ _ _ _ _ s V W) as A.
  pose proof (tc_unpack_pack _ _ _ _ _ _ _ [] V ltac:(constructor)) as B. cbv zeta in A, B.
  rewrite app_nil_r in B. unfold p. rewrite A, B. reflexivity.
Qed.

Theorem tm_suffix_irrelevant service subservice apid seq msgcnt ref dest version stamp src s :
  tm_args_valid service subservice apid seq msgcnt ref dest version stamp src -> wf_bytes s ->
  let p := tm_layout service subservice apid seq msgcnt ref dest version stamp src in
  tm_unpack (p ++ s) (len stamp) = tm_unpack p (len stamp).
Proof.
  intros V W p. pose proof (tm_unpack_pack _ _ _ _ _ _ _ _ _ _ s V W) as A.
  pose proof (tm_unpack_pack _ _ _ _ _ _ _ _ _ _ [] V ltac:(constructor)) as B. cbv zeta in A, B.
  rewrite app_nil_r in B. unfold p. rewrite A, B. reflexivity.
Qed.

(* ================= C11: setters keep lengths in step; pack is repeatable ================= *)
(* after ANY sequence of app_data assignments the object equals a freshly constructed one with the
   final data (up to the cached CRC), so reported length = packed length and the octets are those
   of the fresh object *)
Definition tc_fresh (t : tc) (d : bytes) : tc :=
  {| tc_sph := {| ver := ver (tc_sph t); ptype := ptype (tc_sph t); shf := shf (tc_sph t);
                  apid := apid (tc_sph t); sflags := sflags (tc_sph t); scount := scount (tc_sph t);
                  dlen := 5 + len d + 1 |};
     tc_sec := tc_sec t; tc_app := d; tc_crc := tc_crc t |}.

Lemma tc_set_app_data_fresh t d : tc_set_app_data t d = tc_fresh t d.
Proof. unfold tc_set_app_data, tc_fresh, tc_get_data_length, PUS_C_SEC_HEADER_LEN. reflexivity. Qed.

Lemma tc_fresh_twice t x y : tc_fresh (tc_fresh t x) y = tc_fresh t y.
Proof. reflexivity. Qed.
Lemma last_cons_tc (d : bytes) ds d0 : last (d :: ds) d0 = last ds d.
Proof. revert d. induction ds as [|e ds IH]; intros d; [reflexivity|]. cbn [last] in *. destruct ds; [reflexivity|apply IH]. Qed.

Theorem tc_setter_history t ds d0 :
  fold_left tc_set_app_data ds (tc_set_app_data t d0) = tc_fresh t (last ds d0).
Proof.
  revert t d0. induction ds as [|d ds IH]; intros t d0; cbn [fold_left].
  - apply tc_set_app_data_fresh.
  - rewrite IH, last_cons_tc. exact (tc_fresh_twice t d0 _).
Qed.

Theorem tc_set_app_data_len service subservice apid seq source_id ack app d :
  tc_args_valid service subservice apid seq source_id ack app ->
  tc_args_valid service subservice apid seq source_id ack d ->
  exists t t', tc_new service subservice apid app seq source_id ack = Ok t /\
    tc_pack (tc_set_app_data t d) =
      Ok (tc_layout service subservice apid seq source_id ack d, t') /\
    tc_packet_len (tc_set_app_data t d) = len (tc_layout service subservice apid seq source_id ack d).
Proof.
  intros V1 V2.
  destruct (tc_pack_layout _ _ _ _ _ _ _ V2) as (u & u' & En & Ep & _ & _ & _ & PL & _).
  destruct V1 as (H1 & H2 & H3 & H4 & H5 & H6 & W & L).
  destruct V2 as (_ & _ & _ & _ & _ & _ & W2 & L2).
  rewrite tc_new_ok in * by lia. apply Ok_inj in En. subst u.
  eexists. exists u'. split; [reflexivity|]. rewrite tc_set_app_data_fresh. unfold tc_fresh.
  cbn [tc_sph tc_sec tc_app tc_crc ver ptype shf SpacePacket.apid sflags scount].
  split; [|exact PL].
  unfold tc_pack in *. cbn [tc_sph tc_sec tc_app] in *. exact Ep.
Qed.

(* packing twice yields identical octets (the cached CRC does not influence pack()) *)
Theorem tc_pack_idempotent t p t' : tc_pack t = Ok (p, t') -> exists t'', tc_pack t' = Ok (p, t'').
Proof.
  intros E. unfold tc_pack in *.
  destruct (sph_pack (tc_sph t)) as [hb|] eqn:Eh; [|discriminate]. cbn [bind] in E.
  destruct (tcsec_pack (tc_sec t)) as [sb|] eqn:Es; [|discriminate]. cbn [bind] in E.
  destruct (struct_pack 2 _) as [cb|] eqn:Ec; [|discriminate]. cbn [bind] in E.
  apply Ok_inj in E. inversion E; subst. cbn [tc_sph tc_sec tc_app].
  rewrite Eh, Es. cbn [bind]. rewrite Ec. cbn [bind]. eexists. reflexivity.
Qed.

Definition tm_fresh (t : tm) (d : bytes) : tm :=
  {| tm_sph := {| ver := ver (tm_sph t); ptype := ptype (tm_sph t); shf := shf (tm_sph t);
                  apid := apid (tm_sph t); sflags := sflags (tm_sph t); scount := scount (tm_sph t);
                  dlen := 7 + len (tms_stamp (tm_sec t)) + len d + 1 |};
     tm_sec := tm_sec t; tm_src := d; tm_crc := tm_crc t |}.

Lemma tm_set_tm_data_fresh t d : tm_set_tm_data t d = tm_fresh t d.
Proof. unfold tm_set_tm_data, tm_fresh, tm_data_len, TMSEC_MIN_LEN. reflexivity. Qed.

Lemma tm_fresh_twice t x y : tm_fresh (tm_fresh t x) y = tm_fresh t y.
Proof. reflexivity. Qed.
Lemma last_cons_tm (d : bytes) ds d0 : last (d :: ds) d0 = last ds d.
Proof. revert d. induction ds as [|e ds IH]; intros d; [reflexivity|]. cbn [last] in *. destruct ds; [reflexivity|apply IH]. Qed.

Theorem tm_setter_history t ds d0 :
  fold_left tm_set_tm_data ds (tm_set_tm_data t d0) = tm_fresh t (last ds d0).
Proof.
  revert t d0. induction ds as [|d ds IH]; intros t d0; cbn [fold_left].
  - apply tm_set_tm_data_fresh.
  - rewrite IH, last_cons_tm. exact (tm_fresh_twice t d0 _).
Qed.

Theorem tm_set_tm_data_len service subservice apid seq msgcnt ref dest version stamp src d :
  tm_args_valid service subservice apid seq msgcnt ref dest version stamp src ->
  tm_args_valid service subservice apid seq msgcnt ref dest version stamp d ->
  exists t t', tm_new service subservice stamp src apid seq msgcnt ref dest version = Ok t /\
    tm_pack (tm_set_tm_data t d) =
      Ok (tm_layout service subservice apid seq msgcnt ref dest version stamp d, t') /\
    tm_packet_len (tm_set_tm_data t d) =
      len (tm_layout service subservice apid seq msgcnt ref dest version stamp d).
Proof.
  intros V1 V2.
  destruct (tm_pack_layout _ _ _ _ _ _ _ _ _ _ V2) as (u & u' & En & Ep & _ & _ & _ & PL & _).
  destruct V1 as (H1 & H2 & H3 & H4 & H5 & H6 & H7 & H8 & W1 & W2 & L).
  destruct V2 as (_ & _ & _ & _ & _ & _ & _ & _ & _ & W2' & L2).
  rewrite tm_new_ok in * by lia. apply Ok_inj in En. subst u.
  eexists. exists u'. split; [reflexivity|]. rewrite tm_set_tm_data_fresh. unfold tm_fresh.
  cbn [tm_sph tm_sec tm_src tm_crc ver ptype shf SpacePacket.apid sflags scount tms_stamp].
  split; [|exact PL].
  unfold tm_pack in *. cbn [tm_sph tm_sec tm_src] in *. exact Ep.
Qed.

Theorem tm_pack_idempotent t p t' : tm_pack t = Ok (p, t') -> exists t'', tm_pack t' = Ok (p, t'').
Proof.
  intros E. unfold tm_pack in *.
  destruct (sph_pack (tm_sph t)) as [hb|] eqn:Eh; [|discriminate]. cbn [bind] in E.
  destruct (tmsec_pack (tm_sec t)) as [sb|] eqn:Es; [|discriminate]. cbn [bind] in E.
  destruct (struct_pack 2 _) as [cb|] eqn:Ec; [|discriminate]. cbn [bind] in E.
  apply Ok_inj in E. inversion E; subst. cbn [tm_sph tm_sec tm_src].
  rewrite Eh, Es. cbn [bind]. rewrite Ec. cbn [bind]. eexists. reflexivity.
Qed.

(* ================= the generic space-packet view never carries a stale CRC ================= *)
(* whatever CRC is cached in the object (after pack / calc_crc / unpack followed by any setter),
   to_space_packet().pack() yields exactly the octets pack() yields *)
Theorem tc_space_packet_view_any t p t' :
  sph_valid (tc_sph t) -> shf (tc_sph t) = 1 -> tc_pack t = Ok (p, t') ->
  tc_to_space_packet_pack t = Ok p.
Proof.
  intros V S E. unfold tc_pack in E. rewrite sph_pack_layout in E by assumption. cbn [bind] in E.
  destruct (tcsec_pack (tc_sec t)) as [sb|] eqn:Es; [|discriminate]. cbn [bind] in E.
  destruct (struct_pack 2 _) as [cb|] eqn:Ec; [|discriminate]. cbn [bind] in E.
  apply Ok_inj in E. apply pair_equal_spec in E. destruct E as [<- <-].
  unfold tc_to_space_packet_pack, tc_calc_crc. rewrite sph_pack_layout by assumption. cbn [bind].
  rewrite Es. cbn [bind]. rewrite Ec. cbn [bind tc_sec tc_crc tc_sph tc_app]. rewrite Es. cbn [bind].
  rewrite space_packet_pack_spec by assumption. set (L := sph_layout (tc_sph t)). rewrite S.
  f_equal. rewrite <- !app_assoc. reflexivity.
Qed.

Theorem tm_space_packet_view_any t p t' :
  sph_valid (tm_sph t) -> shf (tm_sph t) = 1 -> tm_pack t = Ok (p, t') ->
  tm_to_space_packet_pack t = Ok p.
Proof.
  intros V S E. unfold tm_pack in E. rewrite sph_pack_layout in E by assumption. cbn [bind] in E.
  destruct (tmsec_pack (tm_sec t)) as [sb|] eqn:Es; [|discriminate]. cbn [bind] in E.
  destruct (struct_pack 2 _) as [cb|] eqn:Ec; [|discriminate]. cbn [bind] in E.
  apply Ok_inj in E. apply pair_equal_spec in E. destruct E as [<- <-].
  unfold tm_to_space_packet_pack, tm_calc_crc. rewrite sph_pack_layout by assumption. cbn [bind].
  rewrite Es. cbn [bind]. rewrite Ec. cbn [bind tm_sec tm_crc tm_sph tm_src]. rewrite Es. cbn [bind].
  rewrite space_packet_pack_spec by assumption. set (L := sph_layout (tm_sph t)). rewrite S.
  f_equal. rewrite <- !app_assoc. reflexivity.
Qed.
