(* C13 gaps: the queue keeps exactly the incomplete tail (finished by a later call);
   junk and fragmentation together, remainder characterised. *)
From Coq Require Import ZArith List Bool Lia ZifyBool.
From SP Require Import Base.Result Base.Bytes Base.BytesFacts Model.SpacePacket Model.Parser
  Spec.ParserSpec Proofs.ParserProofs.
Import ListNotations.
Open Scope Z_scope.

(* ================= Part G: the incomplete tail ================= *)

Lemma wf_concat_packets raws ps : Forall (wf_packet raws) ps -> wf_bytes (concat ps).
Proof.
  induction 1 as [|q qs [Wq _] _ IHq]; [constructor|].
  cbn [concat]. apply wf_bytes_app. split; assumption.
Qed.

(* packets in front of anything: returned first, the rest is parsed as if it stood alone *)
Lemma spec_stream_packets raws ps rest : Forall (wf_packet raws) ps -> wf_bytes rest ->
  spec_stream raws (concat ps ++ rest) = let '(p, r) := spec_stream raws rest in (ps ++ p, r).
Proof.
  intros H Wr. induction H as [|p ps Hp Hps IH].
  - cbn [concat app]. destruct (spec_stream raws rest); reflexivity.
  - cbn [concat]. rewrite <- app_assoc. rewrite spec_stream_packet.
    + rewrite IH. destruct (spec_stream raws rest). reflexivity.
    + assumption.
    + apply wf_bytes_app. split; [apply (wf_concat_packets raws); assumption|assumption].
Qed.

(* a strict, non-empty prefix of a registered packet is kept whole: shorter than 7 octets
   nothing can be decided; from 7 octets on the declared length exceeds what is there *)
Lemma spec_stream_prefix raws pk n : wf_packet raws pk -> (n < length pk)%nat ->
  spec_stream raws (firstn n pk) = ([], firstn n pk).
Proof.
  intros [Wp (b0 & b1 & b2 & b3 & b4 & b5 & d & -> & R & L)] Hn.
  set (pk := b0 :: b1 :: b2 :: b3 :: b4 :: b5 :: d) in *.
  assert (Wf : wf_bytes (firstn n pk)) by (apply wf_bytes_firstn; assumption).
  assert (Lf : length (firstn n pk) = n) by (rewrite firstn_length; lia).
  destruct (Nat.le_gt_cases n 6) as [H6|H7].
  - apply spec_stream_short. lia.
  - rewrite spec_stream_eq by assumption. rewrite Lf.
    destruct (Nat.leb_spec n 6) as [?|_]; [lia|].
    assert (E : firstn n pk = b0 :: b1 :: b2 :: b3 :: b4 :: b5 :: firstn (n - 6) d).
    { subst pk. do 6 (destruct n as [|n]; [lia|]). cbn [firstn Nat.sub]. rewrite Nat.sub_0_r. reflexivity. }
    assert (hd_registered raws (firstn n pk) = true) as -> by (rewrite E; exact R).
    assert (Hpl : hd_plen (firstn n pk) = length pk).
    { rewrite E. unfold hd_plen, plen. cbn [nth]. subst pk. cbn [length]. unfold len in L. lia. }
    rewrite Hpl. destruct (Nat.leb_spec (length pk) n) as [?|_]; [lia|]. reflexivity.
Qed.

Lemma firstn_nonnil {A} (l : list A) n : (0 < n)%nat -> (0 < length l)%nat -> firstn n l <> [].
Proof. destruct n, l; cbn; intros; try lia; discriminate. Qed.

(* complete packets followed by a strict prefix of one more: every complete packet is
   returned, the queue holds exactly the prefix *)
Theorem parse_tail_kept raws ps pk n :
  Forall (wf_packet raws) ps -> wf_packet raws pk -> (0 < n < length pk)%nat ->
  parse_buf raws (concat ps ++ firstn n pk) = Ok (ps, [firstn n pk]).
Proof.
  intros Hps Hpk Hn.
  assert (Wf : wf_bytes (firstn n pk)) by (apply wf_bytes_firstn; apply Hpk).
  rewrite parse_buf_spec.
  - rewrite spec_stream_packets, spec_stream_prefix by (try assumption; lia).
    rewrite app_nil_r. unfold to_queue.
    destruct (firstn n pk) eqn:E; [|reflexivity].
    exfalso. eapply (firstn_nonnil pk n); [lia|lia|exact E].
  - apply wf_bytes_app. split; [eapply wf_concat_packets; eassumption|assumption].
Qed.

(* ... and the call after the missing octets (and any further complete packets) arrived
   returns the packet whole, then the others, and empties the queue *)
Theorem parse_tail_finished raws pk n ps' :
  wf_packet raws pk -> Forall (wf_packet raws) ps' ->
  parse_buf raws (concat [firstn n pk] ++ skipn n pk ++ concat ps') = Ok (pk :: ps', []).
Proof.
  intros Hpk Hps. cbn [concat]. rewrite app_nil_r, app_assoc, firstn_skipn.
  apply (parse_stream_complete raws (pk :: ps')). constructor; assumption.
Qed.

(* the statement proposed by the audit, literally *)
Theorem parse_tail_kept_then_finished raws ps pk n :
  Forall (wf_packet raws) ps -> wf_packet raws pk -> (0 < n < length pk)%nat ->
  parse_buf raws (concat ps ++ firstn n pk) = Ok (ps, [firstn n pk]) /\
  parse_buf raws (firstn n pk ++ skipn n pk) = Ok ([pk], []).
Proof.
  intros Hps Hpk Hn. split; [apply parse_tail_kept; assumption|].
  pose proof (parse_tail_finished raws pk n [] Hpk (Forall_nil _)) as H.
  cbn [concat] in H. rewrite !app_nil_r in H. exact H.
Qed.

(* ---- histories from any queue, ending with a parse ---- *)
Lemma run_ops_final_idem raws ids : ids_raw ids = raws ->
  forall ops q0 obs, Forall wf_bytes q0 -> Forall (op_ok raws) ops ->
  run_ops q0 (ops ++ [Parse ids]) = Ok obs ->
  parse_buf raws (concat (last (map snd obs) q0)) = Ok ([], last (map snd obs) q0).
Proof.
  intros Hid. induction ops as [|o ops IH]; intros q0 obs W0 Hops E.
  - cbn [app run_ops step] in E. rewrite parse_space_packets_buf, Hid in E.
    destruct (parse_buf raws (concat q0)) as [[p q]|e] eqn:EP; [|discriminate].
    cbn [bind] in E. inversion E; subst. cbn [map snd last].
    eapply parse_idem; [|exact EP]. apply wf_concat. assumption.
  - inversion Hops as [|? ? Ho Hr]; subst. cbn [app run_ops] in E.
    destruct (step q0 o) as [[p q']|e] eqn:ES; [|discriminate]. cbn [bind] in E.
    destruct (run_ops q' (ops ++ [Parse ids])) as [rest|e] eqn:ER; [|discriminate].
    cbn [bind] in E. inversion E; subst. cbn [map snd]. rewrite last_cons.
    apply (IH q' rest); [|assumption|exact ER].
    destruct o as [c|ids']; cbn [step op_ok] in *.
    + inversion ES; subst. apply Forall_app. split; [assumption|]. constructor; [assumption|constructor].
    + rewrite parse_space_packets_buf, Ho in ES.
      eapply parse_buf_queue_wf; [|exact ES]. apply wf_concat. assumption.
Qed.

Lemma appended_snoc_parse ops ids : appended (ops ++ [Parse ids]) = appended ops.
Proof. unfold appended. rewrite map_app, concat_app. cbn [map concat]. rewrite !app_nil_r. reflexivity. Qed.

(* any history from ANY queue that ends with a parse: the outputs together are the output of
   one parse over (queue content ++ everything appended), and the final queue is its remainder *)
Theorem parse_chunked_final_from raws ops ids q0 :
  Forall wf_bytes q0 -> Forall (op_ok raws) ops -> ids_raw ids = raws ->
  exists obs, run_ops q0 (ops ++ [Parse ids]) = Ok obs /\
    parse_buf raws (concat q0 ++ appended ops) = Ok (concat (map fst obs), last (map snd obs) q0).
Proof.
  intros W0 Hops Hid.
  assert (Hall : Forall (op_ok raws) (ops ++ [Parse ids])).
  { apply Forall_app. split; [assumption|]. constructor; [exact Hid|constructor]. }
  destruct (parse_chunked raws _ q0 W0 Hall) as (obs & E & Wf & H).
  exists obs. split; [exact E|]. cbn zeta in H.
  rewrite appended_snoc_parse in H. rewrite H.
  rewrite (run_ops_final_idem raws ids Hid ops q0 obs W0 Hops E). cbn [bind].
  rewrite app_nil_r. reflexivity.
Qed.

(* the property's clause: under every fragmentation and interleaving, a stream that ends in
   the middle of a packet leaves exactly the octets of that packet received so far *)
Theorem parse_fragmented_tail_kept raws ops ids ps pk n :
  Forall (op_ok raws) ops -> ids_raw ids = raws ->
  Forall (wf_packet raws) ps -> wf_packet raws pk -> (0 < n < length pk)%nat ->
  appended ops = concat ps ++ firstn n pk ->
  exists obs, run_ops [] (ops ++ [Parse ids]) = Ok obs /\
    concat (map fst obs) = ps /\ last (map snd obs) [] = [firstn n pk].
Proof.
  intros Hops Hid Hps Hpk Hn Happ.
  destruct (parse_chunked_final raws ops ids Hops Hid) as (obs & E & H).
  exists obs. split; [exact E|].
  rewrite Happ, parse_tail_kept in H by assumption. inversion H. split; reflexivity.
Qed.

(* ... and any later history (again cut anywhere, any interleaving) that delivers the missing
   octets followed by further complete packets finishes it: the packet comes out whole, once,
   before the others; the queue ends empty *)
Theorem parse_fragmented_tail_finished raws ops ids pk n ps' :
  Forall (op_ok raws) ops -> ids_raw ids = raws ->
  wf_packet raws pk -> Forall (wf_packet raws) ps' ->
  appended ops = skipn n pk ++ concat ps' ->
  exists obs, run_ops [firstn n pk] (ops ++ [Parse ids]) = Ok obs /\
    concat (map fst obs) = pk :: ps' /\ last (map snd obs) [firstn n pk] = [].
Proof.
  intros Hops Hid Hpk Hps Happ.
  assert (W0 : Forall wf_bytes [firstn n pk]).
  { constructor; [apply wf_bytes_firstn; apply Hpk|constructor]. }
  destruct (parse_chunked_final_from raws ops ids [firstn n pk] W0 Hops Hid) as (obs & E & H).
  exists obs. split; [exact E|].
  rewrite Happ, parse_tail_finished in H by assumption. inversion H. split; reflexivity.
Qed.

(* ================= Part H: junk and fragmentation together ================= *)

(* junk j in front of at most 6 further octets t: the walk stops when 6 octets are left *)
Lemma spec_stream_junk_tail raws : forall j t, wf_bytes (j ++ t) -> junk_ok raws j t ->
  (length t <= 6)%nat ->
  spec_stream raws (j ++ t) = ([], skipn (length (j ++ t) - 6) (j ++ t)).
Proof.
  induction j as [|b0 j IH]; intros t W J Ht.
  - cbn [app]. rewrite spec_stream_short by assumption.
    replace (length t - 6)%nat with 0%nat by lia. reflexivity.
  - cbn [junk_ok] in J. destruct J as [J0 J].
    assert (W' : wf_bytes (j ++ t)) by (apply (wf_bytes_tl _ W)).
    destruct (Nat.le_gt_cases (length ((b0 :: j) ++ t)) 6) as [H6|H6].
    + rewrite spec_stream_short by assumption.
      replace (length ((b0 :: j) ++ t) - 6)%nat with 0%nat by lia. reflexivity.
    + rewrite spec_stream_eq by assumption.
      destruct (Nat.leb_spec (length ((b0 :: j) ++ t)) 6) as [?|_]; [lia|].
      assert (hd_registered raws ((b0 :: j) ++ t) = false) as ->.
      { unfold hd_registered. cbn [app nth]. destruct (j ++ t) as [|b1 r] eqn:E.
        - cbn [app length] in H6. rewrite E in H6. cbn [length] in H6. lia.
        - exact J0. }
      cbn [app tl]. rewrite IH by assumption.
      cbn [app length] in H6. cbn [length].
      replace (S (length (j ++ t)) - 6)%nat with (S (length (j ++ t) - 6)) by lia.
      reflexivity.
Qed.

(* packets, each preceded by junk, in front of anything *)
Lemma spec_stream_junk_segs raws segs trail :
  Forall (fun jp => wf_bytes (fst jp) /\ wf_packet raws (snd jp) /\ junk_ok raws (fst jp) (snd jp)) segs ->
  wf_bytes trail ->
  spec_stream raws (junk_stream segs trail) =
  let '(p, r) := spec_stream raws trail in (map snd segs ++ p, r).
Proof.
  induction 1 as [|[j p] r (Wj & Wp & Jp) Hr IH]; intros Wt.
  - cbn [junk_stream map app]. destruct (spec_stream raws trail); reflexivity.
  - cbn [junk_stream map fst snd] in *.
    assert (Wrest : wf_bytes (junk_stream r trail)).
    { apply junk_stream_wf; [|assumption].
      eapply Forall_impl; [|exact Hr]. intros [j' p'] (? & [? _] & _). split; assumption. }
    pose proof Wp as [Wpb Hex]. pose proof Hex as (b0 & b1 & b2 & b3 & b4 & b5 & d & Ep & _ & Ld).
    assert (J' : junk_ok raws j (p ++ junk_stream r trail)).
    { rewrite Ep in *. rewrite <- app_comm_cons. eapply junk_ok_head. exact Jp. }
    destruct (junk_skipped raws j (p ++ junk_stream r trail)) as [_ H]; [|exact J'|].
    { apply wf_bytes_app; split; [assumption|]. apply wf_bytes_app; split; assumption. }
    rewrite H.
    + rewrite spec_stream_packet by assumption. rewrite (IH Wt).
      destruct (spec_stream raws trail). reflexivity.
    + rewrite Ep in Wpb. pose proof (hdr_bytes _ _ _ _ _ _ _ Wpb) as Hb.
      rewrite app_length, Ep. cbn [length]. unfold len in Ld. lia.
Qed.

(* the remainder after trailing junk: its last (at most 6) octets *)
Definition junk_rest (trail : bytes) : bytes := skipn (length trail - 6) trail.

Theorem parse_stream_junk_rest raws segs trail :
  Forall (fun jp => wf_bytes (fst jp) /\ wf_packet raws (snd jp) /\ junk_ok raws (fst jp) (snd jp)) segs ->
  wf_bytes trail -> junk_ok raws trail [] ->
  parse_buf raws (junk_stream segs trail) = Ok (map snd segs, to_queue (junk_rest trail)).
Proof.
  intros H Wt Jt. rewrite parse_buf_spec.
  - rewrite spec_stream_junk_segs by assumption.
    pose proof (spec_stream_junk_tail raws trail [] ltac:(rewrite app_nil_r; assumption) Jt ltac:(cbn [length]; lia)) as E.
    rewrite app_nil_r in E. rewrite E, app_nil_r. reflexivity.
  - apply junk_stream_wf; [|assumption].
    eapply Forall_impl; [|exact H]. intros [j p] (? & [? _] & _). split; assumption.
Qed.

(* junk between packets AND arbitrary fragmentation / interleaving: every packet exactly once, in
   order; what stays in the queue is the last (at most 6) octets of the trailing junk, nothing
   when there is none *)
Theorem parse_fragmented_stream_junk raws ops ids segs trail :
  Forall (op_ok raws) ops -> ids_raw ids = raws ->
  Forall (fun jp => wf_bytes (fst jp) /\ wf_packet raws (snd jp) /\ junk_ok raws (fst jp) (snd jp)) segs ->
  wf_bytes trail -> junk_ok raws trail [] ->
  appended ops = junk_stream segs trail ->
  exists obs, run_ops [] (ops ++ [Parse ids]) = Ok obs /\
    concat (map fst obs) = map snd segs /\
    last (map snd obs) [] = to_queue (junk_rest trail).
Proof.
  intros Hops Hid Hs Wt Jt Happ.
  destruct (parse_chunked_final raws ops ids Hops Hid) as (obs & E & H).
  exists obs. split; [exact E|].
  rewrite Happ, parse_stream_junk_rest in H by assumption. inversion H. split; reflexivity.
Qed.

(* junk between packets, fragmentation, AND a stream that ends inside a packet (at least its
   first 7 octets received, junk in front of it): the queue holds exactly that prefix *)
Theorem parse_fragmented_stream_junk_tail raws ops ids segs j pk n :
  Forall (op_ok raws) ops -> ids_raw ids = raws ->
  Forall (fun jp => wf_bytes (fst jp) /\ wf_packet raws (snd jp) /\ junk_ok raws (fst jp) (snd jp)) segs ->
  wf_bytes j -> wf_packet raws pk -> junk_ok raws j pk -> (7 <= n < length pk)%nat ->
  appended ops = junk_stream segs (j ++ firstn n pk) ->
  exists obs, run_ops [] (ops ++ [Parse ids]) = Ok obs /\
    concat (map fst obs) = map snd segs /\ last (map snd obs) [] = [firstn n pk].
Proof.
  intros Hops Hid Hs Wj Hpk Jj Hn Happ.
  destruct (parse_chunked_final raws ops ids Hops Hid) as (obs & E & H).
  exists obs. split; [exact E|].
  assert (Wf : wf_bytes (firstn n pk)) by (apply wf_bytes_firstn; apply Hpk).
  assert (Wt : wf_bytes (j ++ firstn n pk)) by (apply wf_bytes_app; split; assumption).
  assert (Lf : length (firstn n pk) = n) by (rewrite firstn_length; lia).
  assert (J' : junk_ok raws j (firstn n pk)).
  { destruct Hpk as [_ (b0 & b1 & b2 & b3 & b4 & b5 & d & Ep & _)]. subst pk.
    destruct n as [|n]; [lia|]. cbn [firstn]. eapply junk_ok_head. exact Jj. }
  assert (S : spec_stream raws (j ++ firstn n pk) = ([], firstn n pk)).
  { destruct (junk_skipped raws j (firstn n pk) Wt J') as [_ K].
    rewrite K by lia. apply spec_stream_prefix; [assumption|lia]. }
  rewrite Happ, parse_buf_spec in H.
  - rewrite spec_stream_junk_segs, S, app_nil_r in H by assumption.
    unfold to_queue in H. destruct (firstn n pk) eqn:En; [cbn [length] in Lf; lia|].
    inversion H. split; reflexivity.
  - apply junk_stream_wf; [|assumption].
    eapply Forall_impl; [|exact Hs]. intros [j' p'] (? & [? _] & _). split; assumption.
Qed.

(* ... and when fewer than 7 octets of that packet have arrived nothing can be decided yet:
   the queue holds the last 6 octets of (junk ++ prefix), which end with the prefix *)
Theorem parse_fragmented_stream_junk_short_tail raws ops ids segs j pk n :
  Forall (op_ok raws) ops -> ids_raw ids = raws ->
  Forall (fun jp => wf_bytes (fst jp) /\ wf_packet raws (snd jp) /\ junk_ok raws (fst jp) (snd jp)) segs ->
  wf_bytes j -> wf_packet raws pk -> junk_ok raws j pk -> (0 < n <= 6)%nat ->
  appended ops = junk_stream segs (j ++ firstn n pk) ->
  exists obs, run_ops [] (ops ++ [Parse ids]) = Ok obs /\
    concat (map fst obs) = map snd segs /\
    last (map snd obs) [] = [junk_rest (j ++ firstn n pk)] /\
    exists k, skipn k (junk_rest (j ++ firstn n pk)) = firstn n pk.
Proof.
  intros Hops Hid Hs Wj Hpk Jj Hn Happ.
  destruct (parse_chunked_final raws ops ids Hops Hid) as (obs & E & H).
  exists obs. split; [exact E|].
  assert (Wf : wf_bytes (firstn n pk)) by (apply wf_bytes_firstn; apply Hpk).
  assert (Wt : wf_bytes (j ++ firstn n pk)) by (apply wf_bytes_app; split; assumption).
  assert (Lp : (7 <= length pk)%nat).
  { destruct Hpk as [Wp (b0 & b1 & b2 & b3 & b4 & b5 & d & Ep & _ & Ld)]. subst pk.
    pose proof (hdr_bytes _ _ _ _ _ _ _ Wp). cbn [length]. unfold len in Ld. lia. }
  assert (Lf : length (firstn n pk) = n) by (rewrite firstn_length; lia).
  assert (J' : junk_ok raws j (firstn n pk)).
  { destruct Hpk as [_ (b0 & b1 & b2 & b3 & b4 & b5 & d & Ep & _)]. subst pk.
    destruct n as [|n]; [lia|]. cbn [firstn]. eapply junk_ok_head. exact Jj. }
  pose proof (spec_stream_junk_tail raws j (firstn n pk) Wt J' ltac:(lia)) as S.
  fold (junk_rest (j ++ firstn n pk)) in S.
  assert (Lr : length (junk_rest (j ++ firstn n pk)) = Nat.min 6 (length j + n)).
  { unfold junk_rest. rewrite skipn_length, app_length, Lf. lia. }
  rewrite Happ, parse_buf_spec in H.
  - rewrite spec_stream_junk_segs, S, app_nil_r in H by assumption.
    unfold to_queue in H. destruct (junk_rest (j ++ firstn n pk)) eqn:En; [cbn [length] in Lr; lia|].
    inversion H. split; [reflexivity|]. split; [reflexivity|].
    rewrite <- En. unfold junk_rest.
    destruct (Nat.le_gt_cases (length (j ++ firstn n pk)) 6) as [L6|L6].
    + replace (length (j ++ firstn n pk) - 6)%nat with 0%nat by lia. cbn [skipn].
      exists (length j). apply skipn_app_exact. reflexivity.
    + exists (6 - n)%nat. rewrite skipn_skipn'.
      rewrite app_length, Lf in *.
      replace (length j + n - 6 + (6 - n))%nat with (length j) by lia.
      apply skipn_app_exact. reflexivity.
  - apply junk_stream_wf; [|assumption].
    eapply Forall_impl; [|exact Hs]. intros [j' p'] (? & [? _] & _). split; assumption.
Qed.

(* non-vacuity / concrete behaviour of the repaired code on short prefixes and trailing junk *)
Example tail_kept_example :
  parse_buf [2051] ([8; 3; 192; 0; 0; 0; 85] ++ [8; 3]) = Ok ([[8; 3; 192; 0; 0; 0; 85]], [[8; 3]]) /\
  parse_buf [2051] ([0; 255] ++ [8; 3; 192; 0; 0; 0; 85] ++ [1; 2; 3; 4; 5; 6; 7; 9]) =
    Ok ([[8; 3; 192; 0; 0; 0; 85]], [[3; 4; 5; 6; 7; 9]]).
Proof. split; reflexivity. Qed.
