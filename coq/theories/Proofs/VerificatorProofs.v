(* C16: theorems about the tracker model: one-step facts by case analysis over the
   subservice, history facts by induction over arbitrary operation lists. *)
From Coq Require Import ZArith List Bool Lia ZifyBool.
From SP Require Import Base.Result Base.Bytes Model.SpacePacket Model.Verificator Spec.VerificatorSpec
  Proofs.VerificatorBase.
Import ListNotations.
Open Scope Z_scope.

(* ================= one report on one status ================= *)

Ltac cs_split r s H :=
  unfold check_subservice, step_val, check_all_replies_recvd_after_step, TM_ACCEPTANCE_SUCCESS,
    TM_ACCEPTANCE_FAILURE, TM_START_SUCCESS, TM_START_FAILURE, TM_STEP_SUCCESS, TM_STEP_FAILURE,
    TM_COMPLETION_SUCCESS, TM_COMPLETION_FAILURE, UNSET, FAILURE, SUCCESS in H;
  destruct s as [rc ac st sp sl co];
  cbn [recvd acc sta step steps comp] in *;
  repeat match type of H with context [rep_sub r =? ?c] => destruct (Z.eqb_spec (rep_sub r) c) as [?E|?N] end;
  repeat match type of H with
         | context [?a =? ?b] => is_var a; destruct (Z.eqb_spec a b); cbn [negb andb] in H
         | context [rep_step r] => destruct (rep_step r)
         end;
  unfold set_recvd, set_acc, set_sta, set_step, set_comp, append_step in H;
  cbn [recvd acc sta step steps comp] in H;
  inversion H; subst; clear H; cbn [recvd acc sta step steps comp].

(* a failed step is never overwritten, whatever the report and even when it raises *)
Lemma failed_step_sticky_1 r s s' x :
  check_subservice r s = (s', x) -> step s = FAILURE -> step s' = FAILURE.
Proof. intros H Hf. unfold FAILURE in *. cs_split r s H; cbn [step] in *; try reflexivity; try assumption; try lia. Qed.

Lemma recvd_monotone_1 r s s' x :
  check_subservice r s = (s', x) -> recvd s = 1 -> recvd s' = 1.
Proof. intros H Hf. cs_split r s H; cbn [recvd] in *; try reflexivity; try assumption; try lia. Qed.

(* the other fields: only the report's own field changes *)
Lemma completed_flag_1 r s s' c : 1 <= rep_sub r <= 8 ->
  check_subservice r s = (s', Ok c) ->
  (c = true <-> rep_sub r = 2 \/ rep_sub r = 4 \/ rep_sub r = 6 \/ rep_sub r = 7 \/ rep_sub r = 8).
Proof.
  intros Hs H. cs_split r s H;
    repeat match goal with E : rep_sub r = _ |- _ => rewrite E in * end;
    try (split; [intros _; lia | reflexivity]);
    try (split; [discriminate | lia]).
  all: lia.
Qed.

(* the condition under which the documented machine says "all verifications received" *)
Definition finished_by (sub : Z) (s : vstatus) : Prop :=
  sub = 2 \/ (sub = 4 /\ acc s <> UNSET) \/
  ((sub = 6 \/ sub = 7 \/ sub = 8) /\ acc s <> UNSET /\ sta s <> UNSET).

Lemma all_recvd_1 r s s' c : 1 <= rep_sub r <= 8 ->
  check_subservice r s = (s', Ok c) ->
  (recvd s' = 1 <-> recvd s = 1 \/ finished_by (rep_sub r) s) /\ (recvd s' = recvd s \/ recvd s' = 1).
Proof.
  intros Hs H. unfold finished_by, UNSET. cs_split r s H;
    repeat match goal with E : rep_sub r = _ |- _ => rewrite E in * end; cbn [acc sta]; try lia.
Qed.

Lemma step_list_1 r s s' c :
  check_subservice r s = (s', Ok c) ->
  steps s' = steps s ++
    match rep_step r with
    | Some v => if (rep_sub r =? 5) || (rep_sub r =? 6) then [v] else []
    | None => []
    end.
Proof.
  intros H. cs_split r s H;
    repeat match goal with E : rep_sub r = _ |- _ => rewrite E end;
    cbn [Z.eqb Pos.eqb orb]; rewrite ?app_nil_r; try reflexivity.
  all: destruct (rep_step r); rewrite app_nil_r; reflexivity.
Qed.

(* the other status fields: a report touches only its own field *)
Lemma own_field_1 r s s' x : check_subservice r s = (s', x) ->
  (rep_sub r <> 1 /\ rep_sub r <> 2 -> acc s' = acc s) /\
  (rep_sub r <> 3 /\ rep_sub r <> 4 -> sta s' = sta s) /\
  (rep_sub r <> 5 /\ rep_sub r <> 6 -> step s' = step s /\ steps s' = steps s) /\
  (rep_sub r <> 7 /\ rep_sub r <> 8 -> comp s' = comp s).
Proof.
  intros H. cs_split r s H; repeat split; intros; try reflexivity; try lia.
Qed.

(* ================= one call on the dictionary ================= *)

Lemma mem_lookup k d : mem k d = match lookup k d with Some _ => true | None => false end.
Proof. reflexivity. Qed.

(* unknown request id: no result, dictionary untouched *)
Theorem unknown_id_none d r :
  lookup (reqid_as_u32 (rep_id r)) d = None -> add_tm d r = (d, Ok None).
Proof. intros H. unfold add_tm. rewrite H. reflexivity. Qed.

(* duplicates are refused; a new telecommand starts with the initial status, at the end *)
Theorem duplicate_refused d h :
  (lookup (key_of_hdr h) d <> None -> add_tc d h = (d, false)) /\
  (lookup (key_of_hdr h) d = None -> add_tc d h = (d ++ [(key_of_hdr h, vstatus_init)], true)).
Proof.
  unfold add_tc, key_of_hdr, mem. destruct (lookup _ d); split; intros H; try reflexivity; congruence.
Qed.

(* add_tm touches no other entry, keeps keys and their order *)
Theorem isolation d r : let d' := fst (add_tm d r) in
  map fst d' = map fst d /\
  forall k, k <> reqid_as_u32 (rep_id r) -> lookup k d' = lookup k d.
Proof.
  unfold add_tm. destruct (lookup _ d) as [s|] eqn:L; cbn [fst]; [|split; reflexivity].
  destruct (_ || _); cbn [fst]; [split; reflexivity|].
  destruct (check_subservice r s) as [s' c]. cbn [fst]. split; [apply keys_replace|].
  intros k Hk. rewrite lookup_replace. destruct (Z.eqb_spec k (reqid_as_u32 (rep_id r))); [congruence|reflexivity].
Qed.

(* what add_tm does to its own entry *)
Lemma add_tm_own d r s : lookup (reqid_as_u32 (rep_id r)) d = Some s ->
  1 <= rep_sub r <= 8 ->
  add_tm d r = (replace (reqid_as_u32 (rep_id r)) (fst (check_subservice r s)) d,
                match snd (check_subservice r s) with
                | Ok b => Ok (Some (fst (check_subservice r s), b)) | Err e => Err e end) /\
  lookup (reqid_as_u32 (rep_id r)) (fst (add_tm d r)) = Some (fst (check_subservice r s)).
Proof.
  intros L Hs. unfold add_tm. rewrite L.
  destruct ((rep_sub r <=? 0) || (rep_sub r >? 8)) eqn:G; [lia|].
  destruct (check_subservice r s) as [s' c]. cbn [fst snd]. split; [reflexivity|].
  rewrite lookup_replace, Z.eqb_refl, L. reflexivity.
Qed.

Lemma add_tm_invalid d r s : lookup (reqid_as_u32 (rep_id r)) d = Some s ->
  ~ (1 <= rep_sub r <= 8) -> add_tm d r = (d, Err EValue).
Proof.
  intros L Hs. unfold add_tm. rewrite L.
  destruct ((rep_sub r <=? 0) || (rep_sub r >? 8)) eqn:G; [reflexivity|lia].
Qed.

Theorem completed_flag_iff d r d' s' c :
  add_tm d r = (d', Ok (Some (s', c))) ->
  (c = true <-> rep_sub r = 2 \/ rep_sub r = 4 \/ rep_sub r = 6 \/ rep_sub r = 7 \/ rep_sub r = 8).
Proof.
  unfold add_tm. destruct (lookup _ d) as [s|]; [|discriminate].
  destruct ((rep_sub r <=? 0) || (rep_sub r >? 8)) eqn:G; [discriminate|].
  destruct (check_subservice r s) as [s1 [b|e]] eqn:C; [|discriminate].
  intros H. inversion H; subst. eapply completed_flag_1; [lia|exact C].
Qed.

Theorem all_recvd_iff d r d' s s' c :
  lookup (reqid_as_u32 (rep_id r)) d = Some s ->
  add_tm d r = (d', Ok (Some (s', c))) ->
  lookup (reqid_as_u32 (rep_id r)) d' = Some s' /\
  (recvd s' = 1 <-> recvd s = 1 \/ finished_by (rep_sub r) s).
Proof.
  intros L. unfold add_tm. rewrite L.
  destruct ((rep_sub r <=? 0) || (rep_sub r >? 8)) eqn:G; [discriminate|].
  destruct (check_subservice r s) as [s1 [b|e]] eqn:C; [|discriminate].
  intros H. inversion H; subst. split.
  - rewrite lookup_replace, Z.eqb_refl, L. reflexivity.
  - eapply all_recvd_1; [lia|exact C].
Qed.

Theorem step_list_appends d r d' s s' c :
  lookup (reqid_as_u32 (rep_id r)) d = Some s ->
  add_tm d r = (d', Ok (Some (s', c))) ->
  steps s' = steps s ++
    match rep_step r with
    | Some v => if (rep_sub r =? 5) || (rep_sub r =? 6) then [v] else []
    | None => []
    end.
Proof.
  intros L. unfold add_tm. rewrite L.
  destruct ((rep_sub r <=? 0) || (rep_sub r >? 8)) eqn:G; [discriminate|].
  destruct (check_subservice r s) as [s1 [b|e]] eqn:C; [|discriminate].
  intros H. inversion H; subst. eapply step_list_1. exact C.
Qed.

Theorem remove_completed_exact d k : uniq d ->
  lookup k (remove_completed_entries d) =
  match lookup k d with Some s => if recvd s =? 0 then Some s else None | None => None end.
Proof. intros U. unfold remove_completed_entries. apply (lookup_filter (fun s => recvd s =? 0)). assumption. Qed.

Theorem remove_entry_exact d r : uniq d -> let k := reqid_as_u32 r in
  snd (remove_entry d r) = mem k d /\
  lookup k (fst (remove_entry d r)) = None /\
  forall k', k' <> k -> lookup k' (fst (remove_entry d r)) = lookup k' d.
Proof.
  intros U k. unfold remove_entry. fold k. rewrite mem_lookup.
  destruct (lookup k d) eqn:L; cbn [fst snd].
  - split; [reflexivity|]. split.
    + rewrite lookup_delete, Z.eqb_refl by assumption. reflexivity.
    + intros k' Hk. rewrite lookup_delete by assumption. destruct (Z.eqb_spec k' k); [congruence|reflexivity].
  - split; [reflexivity|]. split; [assumption|reflexivity].
Qed.

(* ================= refinement of the documented state machine ================= *)

Lemma abs_init : abs_st vstatus_init = s_init.
Proof. reflexivity. Qed.

Theorem tracker_refines_step d o : uniq d -> op_in_spec o ->
  uniq (fst (vstep d o)) /\
  abs_out (snd (vstep d o)) = snd (spec_step (abs_dict d) (abs_op o)) /\
  forall k, abs_dict (fst (vstep d o)) k = fst (spec_step (abs_dict d) (abs_op o)) k.
Proof.
  intros Ud Ho. destruct o as [h|r|q|]; cbn [vstep abs_op spec_step].
  - (* add_tc *)
    unfold add_tc. fold (key_of_hdr h). rewrite mem_lookup.
    destruct (lookup (key_of_hdr h) d) eqn:L;
      (assert (M : abs_dict d (key_of_hdr h) = option_map abs_st (lookup (key_of_hdr h) d)) by reflexivity);
      rewrite L in M; cbn [option_map] in M; rewrite !M; cbn [fst snd abs_out].
    + repeat split; try assumption; reflexivity.
    + split; [apply uniq_app; assumption|]. split; [reflexivity|].
      intros k. unfold abs_dict, t_set. rewrite lookup_app.
      destruct (lookup k d) eqn:Lk; cbn [option_map].
      * destruct (Z.eqb_spec k (key_of_hdr h)); [congruence|reflexivity].
      * rewrite (Z.eqb_sym (key_of_hdr h) k). destruct (k =? key_of_hdr h); reflexivity.
  - (* add_tm *)
    cbn [op_in_spec] in Ho.
    destruct (lookup (reqid_as_u32 (rep_id r)) d) as [s|] eqn:L;
      (assert (M : abs_dict d (reqid_as_u32 (rep_id r)) = option_map abs_st (lookup (reqid_as_u32 (rep_id r)) d)) by reflexivity);
      rewrite L in M; cbn [option_map] in M; rewrite !M.
    + destruct (Z_le_dec 1 (rep_sub r)) as [H1|H1]; [destruct (Z_le_dec (rep_sub r) 8) as [H8|H8]|].
      * destruct (check_subservice_table r s (conj H1 H8) Ho) as (s' & c & C & T).
        destruct (add_tm_own d r s L (conj H1 H8)) as [A _]. rewrite A, C, T. cbn [fst snd abs_out].
        split; [apply uniq_replace; assumption|]. split; [reflexivity|].
        intros k. unfold abs_dict, t_set. rewrite lookup_replace, L.
        destruct (k =? reqid_as_u32 (rep_id r)); reflexivity.
      * rewrite (add_tm_invalid d r s L) by lia. rewrite table_None by lia. cbn [fst snd abs_out].
        repeat split; try assumption; reflexivity.
      * rewrite (add_tm_invalid d r s L) by lia. rewrite table_None by lia. cbn [fst snd abs_out].
        repeat split; try assumption; reflexivity.
    + rewrite unknown_id_none by assumption. cbn [fst snd abs_out]. repeat split; try assumption; reflexivity.
  - (* remove_entry *)
    unfold remove_entry. rewrite mem_lookup.
    destruct (lookup (reqid_as_u32 q) d) eqn:L;
      (assert (M : abs_dict d (reqid_as_u32 q) = option_map abs_st (lookup (reqid_as_u32 q) d)) by reflexivity);
      rewrite L in M; cbn [option_map] in M; rewrite !M; cbn [fst snd abs_out].
    + split; [apply uniq_delete; assumption|]. split; [reflexivity|].
      intros k. unfold abs_dict, t_set. rewrite lookup_delete by assumption.
      destruct (k =? reqid_as_u32 q); reflexivity.
    + repeat split; try assumption; reflexivity.
  - (* remove_completed_entries *)
    cbn [fst snd abs_out]. split; [apply uniq_filter; assumption|]. split; [reflexivity|].
    intros k. unfold abs_dict. rewrite remove_completed_exact by assumption.
    destruct (lookup k d) as [s|]; cbn [option_map]; [|reflexivity].
    unfold abs_st at 2. cbn [s_recvd]. destruct (recvd s =? 0); reflexivity.
Qed.

(* the spec does not look at anything but the map's values *)
Lemma spec_step_ext m1 m2 o : (forall k, m1 k = m2 k) ->
  snd (spec_step m1 o) = snd (spec_step m2 o) /\
  forall k, fst (spec_step m1 o) k = fst (spec_step m2 o) k.
Proof.
  intros H. destruct o as [k|k sub st|k|]; cbn [spec_step].
  - rewrite (H k). destruct (m2 k); cbn [fst snd]; split; auto.
    intros k'. unfold t_set. destruct (k' =? k); auto.
  - rewrite (H k). destruct (m2 k) as [t|]; cbn [fst snd]; [|split; auto].
    destruct (table sub st t) as [[t' c]|]; cbn [fst snd]; split; auto.
    intros k'. unfold t_set. destruct (k' =? k); auto.
  - rewrite (H k). destruct (m2 k); cbn [fst snd]; split; auto.
    intros k'. unfold t_set. destruct (k' =? k); auto.
  - cbn [fst snd]. split; [reflexivity|]. intros k. rewrite (H k). reflexivity.
Qed.

(* histories on the spec *)
Fixpoint spec_run (m : tracker) (ops : list sop) : list sout * tracker :=
  match ops with
  | [] => ([], m)
  | o :: r => let '(m', x) := spec_step m o in let '(xs, mf) := spec_run m' r in (x :: xs, mf)
  end.

Lemma spec_run_ext : forall ops m1 m2, (forall k, m1 k = m2 k) ->
  fst (spec_run m1 ops) = fst (spec_run m2 ops) /\
  forall k, snd (spec_run m1 ops) k = snd (spec_run m2 ops) k.
Proof.
  induction ops as [|o ops IH]; intros m1 m2 H; cbn [spec_run]; [split; auto|].
  destruct (spec_step_ext m1 m2 o H) as [Ho Hm].
  destruct (spec_step m1 o) as [m1' x1], (spec_step m2 o) as [m2' x2]. cbn [fst snd] in *. subst x2.
  destruct (IH m1' m2' Hm) as [Hx Hf].
  destruct (spec_run m1' ops), (spec_run m2' ops). cbn [fst snd] in *. subst. split; auto.
Qed.

Lemma vfinal_cons d o ops : vfinal d (o :: ops) = vfinal (fst (vstep d o)) ops.
Proof. reflexivity. Qed.

(* every history: same answers as the documented machine, same map afterwards, keys unique *)
Theorem tracker_refines : forall ops d, uniq d -> Forall op_in_spec ops ->
  map (fun x => abs_out (fst x)) (vrun d ops) = fst (spec_run (abs_dict d) (map abs_op ops)) /\
  (forall k, abs_dict (vfinal d ops) k = snd (spec_run (abs_dict d) (map abs_op ops)) k) /\
  uniq (vfinal d ops).
Proof.
  induction ops as [|o ops IH]; intros d U H; [cbn; auto|].
  inversion H as [|? ? Ho Hr]; subst.
  destruct (tracker_refines_step d o U Ho) as (U' & Hx & Hm).
  rewrite vfinal_cons. cbn [vrun map spec_run].
  destruct (vstep d o) as [d' x] eqn:V. cbn [fst snd] in *.
  destruct (spec_step (abs_dict d) (abs_op o)) as [m' y] eqn:Sp. cbn [fst snd] in *.
  destruct (IH d' U' Hr) as (I1 & I2 & I3).
  destruct (spec_run_ext (map abs_op ops) (abs_dict d') m' Hm) as [E1 E2].
  destruct (spec_run m' (map abs_op ops)) as [xs mf]. cbn [fst snd map] in *.
  split; [rewrite I1, E1, Hx; reflexivity|]. split; [|assumption].
  intros k. rewrite I2. apply E2.
Qed.

(* ================= history theorems ================= *)

(* the entry of k is there after every call of the history *)
Fixpoint always_present (k : Z) (d : vdict) (ops : list vop) : Prop :=
  match ops with
  | [] => True
  | o :: r => lookup k (fst (vstep d o)) <> None /\ always_present k (fst (vstep d o)) r
  end.

Lemma uniq_vstep d o : uniq d -> uniq (fst (vstep d o)).
Proof.
  intros U. destruct o as [h|r|q|]; cbn [vstep].
  - unfold add_tc. rewrite mem_lookup. destruct (lookup _ d) eqn:L; cbn [fst]; [assumption|].
    apply uniq_app; assumption.
  - unfold add_tm. destruct (lookup _ d) as [s0|]; cbn [fst]; [|assumption].
    destruct (_ || _); cbn [fst]; [assumption|].
    destruct (check_subservice r s0). cbn [fst]. apply uniq_replace. assumption.
  - unfold remove_entry. destruct (mem _ d); cbn [fst]; [apply uniq_delete|]; assumption.
  - cbn [fst]. apply uniq_filter. assumption.
Qed.

(* one call: an entry either keeps a property preserved by check_subservice, or disappears *)
Lemma vstep_preserves (P : vstatus -> Prop) :
  (forall r s s' x, check_subservice r s = (s', x) -> P s -> P s') ->
  forall d o k s, uniq d -> lookup k d = Some s -> P s ->
  match lookup k (fst (vstep d o)) with Some s' => P s' | None => True end.
Proof.
  intros HP d o k s U L Ps. destruct o as [h|r|q|]; cbn [vstep].
  - unfold add_tc. destruct (mem _ d) eqn:M; cbn [fst]; [rewrite L; assumption|].
    rewrite lookup_app, L. assumption.
  - unfold add_tm. destruct (lookup (reqid_as_u32 (rep_id r)) d) as [s0|] eqn:L0; cbn [fst]; [|rewrite L; assumption].
    destruct (_ || _); cbn [fst]; [rewrite L; assumption|].
    destruct (check_subservice r s0) as [s1 c] eqn:C. cbn [fst].
    rewrite lookup_replace. destruct (Z.eqb_spec k (reqid_as_u32 (rep_id r))) as [E|N].
    + subst k. rewrite L0. rewrite L in L0. inversion L0; subst. eapply HP; eassumption.
    + rewrite L. assumption.
  - unfold remove_entry. destruct (mem _ d); cbn [fst]; [|rewrite L; assumption].
    rewrite lookup_delete by assumption. destruct (k =? _); [exact I|rewrite L; assumption].
  - cbn [fst]. rewrite remove_completed_exact, L by assumption. destruct (recvd s =? 0); [assumption|exact I].
Qed.

Lemma history_preserves (P : vstatus -> Prop) :
  (forall r s s' x, check_subservice r s = (s', x) -> P s -> P s') ->
  forall ops d k s, uniq d -> lookup k d = Some s -> P s -> always_present k d ops ->
  exists s', lookup k (vfinal d ops) = Some s' /\ P s'.
Proof.
  intros HP. induction ops as [|o ops IH]; intros d k s U L Ps A.
  - exists s. split; assumption.
  - cbn [always_present] in A. destruct A as [A0 A]. rewrite vfinal_cons.
    pose proof (vstep_preserves P HP d o k s U L Ps) as V.
    destruct (lookup k (fst (vstep d o))) as [s1|] eqn:L1; [|congruence].
    apply (IH _ k s1); try assumption.
    apply uniq_vstep. assumption.
Qed.

(* a failed step is never overwritten by a later success, along any history in which the
   entry stays in the dictionary (a removed and re-registered telecommand starts afresh) *)
Theorem failed_step_sticky ops d k s : uniq d -> lookup k d = Some s -> step s = FAILURE ->
  always_present k d ops -> exists s', lookup k (vfinal d ops) = Some s' /\ step s' = FAILURE.
Proof. apply (history_preserves (fun s => step s = FAILURE)). intros; eapply failed_step_sticky_1; eassumption. Qed.

(* 'all verifications received' never reverts *)
Theorem all_recvd_monotone ops d k s : uniq d -> lookup k d = Some s -> recvd s = 1 ->
  always_present k d ops -> exists s', lookup k (vfinal d ops) = Some s' /\ recvd s' = 1.
Proof. apply (history_preserves (fun s => recvd s = 1)). intros; eapply recvd_monotone_1; eassumption. Qed.

(* every status ever stored has fields in range *)
Definition valid_status (s : vstatus) : Prop :=
  (recvd s = 0 \/ recvd s = 1) /\ -1 <= acc s <= 1 /\ -1 <= sta s <= 1 /\ -1 <= step s <= 1 /\ -1 <= comp s <= 1.

Lemma valid_1 r s s' x : check_subservice r s = (s', x) -> valid_status s -> valid_status s'.
Proof.
  intros H V. unfold valid_status in *. cs_split r s H; cbn [recvd acc sta step comp] in *; lia.
Qed.

Definition all_valid (d : vdict) : Prop := forall k s, lookup k d = Some s -> valid_status s.

Theorem reachable_valid : forall ops d, uniq d -> all_valid d ->
  uniq (vfinal d ops) /\ all_valid (vfinal d ops).
Proof.
  induction ops as [|o ops IH]; intros d U V; [split; assumption|].
  rewrite vfinal_cons. apply IH; [apply uniq_vstep; assumption|].
  intros k s1 L1. destruct o as [h|r|q|]; cbn [vstep] in L1.
  - unfold add_tc in L1. destruct (mem _ d); cbn [fst] in L1; [eapply V; eassumption|].
    rewrite lookup_app in L1. destruct (lookup k d) eqn:L; [inversion L1; subst; eapply V; eassumption|].
    destruct (_ =? k); [|discriminate]. inversion L1; subst. unfold valid_status, vstatus_init, UNSET. cbn. lia.
  - unfold add_tm in L1. destruct (lookup (reqid_as_u32 (rep_id r)) d) as [s0|] eqn:L0; cbn [fst] in L1; [|eapply V; eassumption].
    destruct (_ || _); cbn [fst] in L1; [eapply V; eassumption|].
    destruct (check_subservice r s0) as [s2 c] eqn:C. cbn [fst] in L1.
    rewrite lookup_replace, L0 in L1. destruct (k =? _); [|eapply V; eassumption].
    inversion L1; subst. eapply valid_1; [exact C|]. eapply V; eassumption.
  - unfold remove_entry in L1. destruct (mem _ d); cbn [fst] in L1; [|eapply V; eassumption].
    rewrite lookup_delete in L1 by assumption. destruct (k =? _); [discriminate|eapply V; eassumption].
  - cbn [fst] in L1. rewrite remove_completed_exact in L1 by assumption.
    destruct (lookup k d) eqn:L; [|discriminate]. destruct (recvd v =? 0); [|discriminate].
    inversion L1; subst. eapply V; eassumption.
Qed.

(* non-vacuity: the nominal chain *)
Example nominal_chain :
  let h := {| ver := 0; ptype := 1; shf := 1; apid := 5; sflags := 3; scount := 7; dlen := 0 |} in
  let q := reqid_from_sp_header h in
  let rp sub st := AddTm {| rep_id := q; rep_sub := sub; rep_step := st |} in
  map fst (vrun [] [AddTc h; rp 1 None; rp 3 None; rp 5 (Some 1); rp 7 None; RemoveCompleted]) =
  [OBool true;
   OResult {| recvd := 0; acc := 1; sta := -1; step := -1; steps := []; comp := -1 |} false;
   OResult {| recvd := 0; acc := 1; sta := 1; step := -1; steps := []; comp := -1 |} false;
   OResult {| recvd := 0; acc := 1; sta := 1; step := 1; steps := [1]; comp := -1 |} false;
   OResult {| recvd := 1; acc := 1; sta := 1; step := 1; steps := [1]; comp := 1 |} true;
   ONone] /\
  vfinal [] [AddTc h; rp 1 None; rp 3 None; rp 5 (Some 1); rp 7 None; RemoveCompleted] = [].
Proof. vm_compute. split; reflexivity. Qed.

(* C10-style totality: a report that carries a step id when its subservice needs one makes
   add_tm return, or raise the documented ValueError (subservice outside 1..8); nothing else *)
Theorem add_tm_errors_documented d r e :
  (rep_sub r = 5 \/ rep_sub r = 6 -> rep_step r <> None) ->
  snd (add_tm d r) = Err e -> e = EValue /\ ~ (1 <= rep_sub r <= 8) /\ fst (add_tm d r) = d.
Proof.
  intros Hs. unfold add_tm. destruct (lookup _ d) as [s|]; cbn [snd]; [|discriminate].
  destruct ((rep_sub r <=? 0) || (rep_sub r >? 8)) eqn:G; cbn [fst snd].
  - intros H. inversion H. repeat split; try reflexivity. lia.
  - destruct (check_subservice_table r s ltac:(lia) Hs) as (s' & c & C & _). rewrite C. cbn [snd]. discriminate.
Qed.

(* Observation (not a theorem of the property): the flag is evaluated only at the report that
   terminates the sequence, so it depends on the arrival order: the same three reports
   (acceptance, start, completion success) leave the same fields but a different flag. *)
Example all_recvd_depends_on_order :
  let h := {| ver := 0; ptype := 1; shf := 1; apid := 5; sflags := 3; scount := 7; dlen := 0 |} in
  let q := reqid_from_sp_header h in
  let rp sub := AddTm {| rep_id := q; rep_sub := sub; rep_step := None |} in
  map (fun e => recvd (snd e)) (vfinal [] [AddTc h; rp 1; rp 3; rp 7]) = [1] /\
  map (fun e => recvd (snd e)) (vfinal [] [AddTc h; rp 1; rp 7; rp 3]) = [0] /\
  map (fun e => (acc (snd e), sta (snd e), comp (snd e))) (vfinal [] [AddTc h; rp 1; rp 7; rp 3]) = [(1, 1, 1)].
Proof. vm_compute. repeat split. Qed.

(* ================= the dictionary key is the request id's 32-bit value ================= *)
From SP Require Import Base.BytesFacts Spec.SpacePacketSpec Proofs.SpacePacketProofs.

(* ccsds version (3 bits) | packet id (13 bits) | sequence control (16 bits) *)
Theorem key_of_hdr_arith h : sph_valid h ->
  key_of_hdr h = sph_word0 h * 65536 + sph_word1 h /\ 0 <= key_of_hdr h < 2 ^ 32.
Proof.
  intros V. unfold key_of_hdr, reqid_as_u32, reqid_from_sp_header. cbn [r_ver r_pid r_psc].
  rewrite pid_raw_word0, psc_raw_word1 by assumption.
  rewrite shiftl_mul by lia.
  assert (R0 : 0 <= sph_word0 h < 65536) by (unfold sph_word0, sph_valid in *; lia).
  assert (R1 : 0 <= sph_word1 h < 65536) by (unfold sph_word1, sph_valid in *; lia).
  rewrite (lor_disjoint _ _ 16); [change (2 ^ 16) with 65536; lia|lia| |assumption].
  change (2 ^ 16) with 65536. apply Z_mod_mult.
Qed.

(* distinct telecommands (version, packet id, sequence control) never share a key *)
Theorem key_of_hdr_inj h1 h2 : sph_valid h1 -> sph_valid h2 -> key_of_hdr h1 = key_of_hdr h2 ->
  ver h1 = ver h2 /\ ptype h1 = ptype h2 /\ shf h1 = shf h2 /\ apid h1 = apid h2 /\
  sflags h1 = sflags h2 /\ scount h1 = scount h2.
Proof.
  intros V1 V2 E.
  destruct (key_of_hdr_arith h1 V1) as [E1 _], (key_of_hdr_arith h2 V2) as [E2 _].
  rewrite E1, E2 in E. unfold sph_word0, sph_word1, sph_valid in *. lia.
Qed.
