From Coq Require Import ZArith List Bool Lia ZifyBool.
From SP Require Import Base.Result Base.Bytes Base.BytesFacts Base.Crc16 Model.PduHeader Spec.PduHeaderSpec.
Import ListNotations.
Open Scope Z_scope.
Ltac Zify.zify_post_hook ::= Z.to_euclidean_division_equations.
Ltac list_eq := repeat (apply f_equal2; [lia|]); try reflexivity.

(* ================= generic list / slice helpers (local) ================= *)

Lemma firstn_skipn_firstn {A} (l : list A) n m :
  firstn n l ++ firstn m (skipn n l) = firstn (n + m) l.
Proof.
  revert l. induction n as [|n IH]; intros l; [reflexivity|].
  destruct l as [|x l]; cbn [firstn skipn Nat.add app].
  - rewrite firstn_nil. reflexivity.
  - f_equal. apply IH.
Qed.

Lemma skipn_skipn' {A} (l : list A) n m : skipn n (skipn m l) = skipn (m + n) l.
Proof.
  revert l. induction m as [|m IH]; intros l; [reflexivity|].
  destruct l as [|x l]; cbn [skipn Nat.add]; [apply skipn_nil|apply IH].
Qed.

Lemma slice_adjacent (d : bytes) a b c :
  0 <= a <= b -> b <= c -> slice d a b ++ slice d b c = slice d a c.
Proof.
  intros H1 H2. unfold slice.
  replace (skipn (Z.to_nat b) d) with (skipn (Z.to_nat (b - a)) (skipn (Z.to_nat a) d))
    by (rewrite skipn_skipn'; f_equal; lia).
  rewrite firstn_skipn_firstn. f_equal. lia.
Qed.

Lemma slice_0_firstn (d : bytes) n : slice d 0 n = firstn (Z.to_nat n) d.
Proof. unfold slice. cbn [Z.to_nat skipn]. rewrite Z.sub_0_r. reflexivity. Qed.

Lemma slice_cons4 b0 b1 b2 b3 (tl : bytes) i j :
  4 <= i -> slice (b0 :: b1 :: b2 :: b3 :: tl) i j = slice tl (i - 4) (j - 4).
Proof.
  intros H. unfold slice.
  replace (Z.to_nat i) with (4 + Z.to_nat (i - 4))%nat by lia.
  cbn [skipn Nat.add]. f_equal. lia.
Qed.

Lemma slice_len (d : bytes) i j : 0 <= i -> i <= j -> j <= len d -> len (slice d i j) = j - i.
Proof. intros. unfold len at 1. rewrite slice_length by assumption. lia. Qed.

Lemma slice_whole (s : bytes) n : len s = n -> slice s 0 n = s.
Proof.
  intros H. rewrite slice_0_firstn. apply firstn_all2. unfold len in H. lia.
Qed.

Lemma len_length (l : bytes) : len l = Z.of_nat (length l).
Proof. reflexivity. Qed.

Lemma firstn_app_le {A} (a b : list A) n : (n <= length a)%nat -> firstn n (a ++ b) = firstn n a.
Proof.
  intros H. rewrite firstn_app. replace (n - length a)%nat with 0%nat by lia.
  cbn [firstn]. apply app_nil_r.
Qed.

(* ================= UnsignedByteField pieces ================= *)

Lemma width_ok_b w : width_ok w <-> widthb w = true.
Proof. unfold width_ok, widthb. lia. Qed.

Lemma width_pow w : width_ok w -> 2 ^ (w * 8) = 256 ^ w.
Proof. intros [-> | [-> | [-> | ->]]]; reflexivity. Qed.

Lemma width_nat w : width_ok w -> 256 ^ Z.of_nat (Z.to_nat w) = 256 ^ w.
Proof. intros [-> | [-> | [-> | ->]]]; reflexivity. Qed.

Lemma ubf_new_ok v w : width_ok w -> 0 <= v < 256 ^ w ->
  ubf_new v w = Ok {| ubf_val := v; ubf_len := w |}.
Proof.
  intros W R. unfold ubf_new, to_unsigned.
  assert (A : byte_len_allowed w = true) by (unfold byte_len_allowed, width_ok in *; lia).
  rewrite A. cbn [negb]. rewrite (width_pow w W).
  assert (Z0 : (w =? 0) = false) by (unfold width_ok in W; lia). rewrite Z0.
  destruct ((v >? 256 ^ w - 1) || (v <? 0)) eqn:E; [lia|].
  destruct (v >? 256 ^ w - 1) eqn:E2; [lia|].
  rewrite struct_pack_ok by (rewrite width_nat by assumption; lia).
  reflexivity.
Qed.

(* the constructor accepts exactly widths 0,1,2,4,8 with 0 <= v < 256^w *)
Lemma ubf_new_spec v w :
  ubf_new v w =
  if byte_len_allowed w && (0 <=? v) && (v <? 256 ^ w)
  then Ok {| ubf_val := v; ubf_len := w |} else Err EValue.
Proof.
  destruct (byte_len_allowed w) eqn:A.
  - assert (W : w = 0 \/ width_ok w) by (unfold byte_len_allowed, width_ok in *; lia).
    destruct W as [-> | W].
    + unfold ubf_new, to_unsigned. cbn [byte_len_allowed Z.eqb orb negb Z.mul andb].
      change (2 ^ 0 - 1) with 0. change (256 ^ 0) with 1.
      destruct ((v >? 0) || (v <? 0)) eqn:E.
      * destruct ((0 <=? v) && (v <? 1)) eqn:E2; [lia|reflexivity].
      * destruct ((0 <=? v) && (v <? 1)) eqn:E2; [reflexivity|lia].
    + cbn [andb]. destruct ((0 <=? v) && (v <? 256 ^ w)) eqn:E.
      * apply ubf_new_ok; [assumption|lia].
      * unfold ubf_new. rewrite A. cbn [negb]. rewrite (width_pow w W).
        destruct ((v >? 256 ^ w - 1) || (v <? 0)) eqn:E2; [reflexivity|lia].
  - unfold ubf_new. rewrite A. reflexivity.
Qed.

Lemma ubf_as_bytes_length u : length (ubf_as_bytes u) = Z.to_nat (ubf_len u).
Proof. apply be_encode_length. Qed.

(* ByteFieldGenerator.from_bytes on exactly w well-formed octets *)
Lemma bfg_from_bytes_decode w s : width_ok w -> wf_bytes s -> len s = w ->
  bfg_from_bytes w s = Ok {| ubf_val := be_decode s; ubf_len := w |}.
Proof.
  intros W F L.
  pose proof (be_decode_range s F) as R.
  assert (R' : 0 <= be_decode s < 256 ^ w) by (rewrite <- L; exact R).
  unfold bfg_from_bytes.
  destruct W as [-> | [-> | [-> | ->]]]; cbn [Z.eqb Pos.eqb];
    unfold u8_from_bytes, uN_from_bytes; rewrite L; cbn [Z.ltb Z.compare Pos.compare Pos.compare_cont].
  - destruct s as [|b [|? ?]]; try (unfold len in L; cbn in L; lia).
    cbn [py_get Z.ltb Z.compare Z.to_nat nth_error bind].
    replace (be_decode [b]) with b in * by (cbn; lia).
    apply ubf_new_ok; [unfold width_ok; lia|exact R'].
  - rewrite slice_whole by assumption.
    rewrite struct_unpack_ok by (unfold len in L; lia). cbn [bind].
    apply ubf_new_ok; [unfold width_ok; lia|exact R'].
  - rewrite slice_whole by assumption.
    rewrite struct_unpack_ok by (unfold len in L; lia). cbn [bind].
    apply ubf_new_ok; [unfold width_ok; lia|exact R'].
  - rewrite slice_whole by assumption.
    rewrite struct_unpack_ok by (unfold len in L; lia). cbn [bind].
    apply ubf_new_ok; [unfold width_ok; lia|exact R'].
Qed.

Lemma bfg_from_bytes_encode w v : width_ok w -> 0 <= v < 256 ^ w ->
  bfg_from_bytes w (be_encode (Z.to_nat w) v) = Ok {| ubf_val := v; ubf_len := w |}.
Proof.
  intros W R.
  rewrite bfg_from_bytes_decode; [|assumption|apply be_encode_wf|].
  - rewrite be_decode_encode by (rewrite width_nat by assumption; exact R). reflexivity.
  - unfold len. rewrite be_encode_length. unfold width_ok in W. lia.
Qed.

(* ================= constructor and setters ================= *)

Lemma hdr_set_dlen_spec h n :
  hdr_set_dlen h n =
  if n <=? 65535 then Ok {| h_type := h_type h; h_meta := h_meta h; h_dlen := n; h_conf := h_conf h |}
  else Err EValue.
Proof.
  unfold hdr_set_dlen. change (2 ^ 16 - 1) with 65535.
  destruct (n >? 65535) eqn:E, (n <=? 65535) eqn:E2; try lia; reflexivity.
Qed.

Lemma hdr_set_entity_ids_spec h s d :
  hdr_set_entity_ids h s d =
  if ubf_len s =? ubf_len d
  then Ok (hdr_with_conf h (conf_set_dst (conf_set_src (h_conf h) s) d)) else Err EValue.
Proof. unfold hdr_set_entity_ids. destruct (ubf_len s =? ubf_len d); reflexivity. Qed.

Lemma conf_eta c :
  {| cf_src := cf_src c; cf_dst := cf_dst c; cf_seq := cf_seq c; cf_mode := cf_mode c;
     cf_large := cf_large c; cf_crc := cf_crc c; cf_dir := cf_dir c; cf_segctrl := cf_segctrl c |} = c.
Proof. destruct c; reflexivity. Qed.

(* PduHeader(...) is accepted exactly when the data-field length is <= 65535 and the two
   entity IDs have the same width; every other argument tuple -> ValueError.  The header
   then holds the arguments unchanged. *)
Theorem hdr_new_spec t m n c :
  (n <= 65535 /\ ubf_len (cf_src c) = ubf_len (cf_dst c) ->
     hdr_new t m n c = Ok {| h_type := t; h_meta := m; h_dlen := n; h_conf := c |}) /\
  (~ (n <= 65535 /\ ubf_len (cf_src c) = ubf_len (cf_dst c)) -> hdr_new t m n c = Err EValue).
Proof.
  unfold hdr_new. rewrite hdr_set_dlen_spec. split.
  - intros [H1 H2]. destruct (n <=? 65535) eqn:E; [|lia]. cbn [bind].
    rewrite hdr_set_entity_ids_spec. rewrite H2, Z.eqb_refl. cbn [bind].
    unfold hdr_set_meta, hdr_set_seq, hdr_with_conf, conf_set_seq, conf_set_dst, conf_set_src.
    cbn [h_type h_meta h_dlen h_conf cf_src cf_dst cf_seq cf_mode cf_large cf_crc cf_dir cf_segctrl].
    rewrite conf_eta. reflexivity.
  - intros H. destruct (n <=? 65535) eqn:E; [|reflexivity]. cbn [bind].
    rewrite hdr_set_entity_ids_spec.
    destruct (ubf_len (cf_src c) =? ubf_len (cf_dst c)) eqn:E2; [lia|reflexivity].
Qed.

Lemma hdr_new_ok t m n c : n <= 65535 -> ubf_len (cf_src c) = ubf_len (cf_dst c) ->
  hdr_new t m n c = Ok {| h_type := t; h_meta := m; h_dlen := n; h_conf := c |}.
Proof. intros. apply hdr_new_spec. split; assumption. Qed.

Theorem hdr_header_len_spec h :
  hdr_header_len h = 4 + 2 * hdr_idw h + hdr_seqw h /\
  hdr_packet_len h = h_dlen h + (4 + 2 * hdr_idw h + hdr_seqw h).
Proof. unfold hdr_packet_len, hdr_header_len, hdr_idw, hdr_seqw, FIXED_LENGTH. lia. Qed.

Theorem conf_header_len_spec c : ubf_len (cf_src c) = ubf_len (cf_dst c) ->
  forall t m n, conf_header_len c = hdr_header_len {| h_type := t; h_meta := m; h_dlen := n; h_conf := c |}.
Proof. intros H t m n. unfold conf_header_len, hdr_header_len, FIXED_LENGTH. cbn [h_conf]. lia. Qed.

(* ================= pack = layout ================= *)

Lemma ba_append_ok l x : 0 <= x < 256 -> ba_append l x = Ok (l ++ [x]).
Proof. intros H. unfold ba_append, is_byte. destruct (_ && _) eqn:E; [reflexivity|lia]. Qed.

Lemma oct0_pack t d m c l : flag t -> flag d -> flag m -> flag c -> flag l ->
  Z.lor (Z.lor (Z.lor (Z.lor (Z.lor (Z.shiftl CFDP_VERSION_2 5) (Z.shiftl t 4)) (Z.shiftl d 3))
                      (Z.shiftl m 2)) (Z.shiftl c 1)) l
  = 32 + t * 16 + d * 8 + m * 4 + c * 2 + l.
Proof. intros [-> | ->] [-> | ->] [-> | ->] [-> | ->] [-> | ->]; reflexivity. Qed.

Lemma oct3_pack s iw m qw : flag s -> width_ok iw -> flag m -> width_ok qw ->
  Z.lor (Z.lor (Z.lor (Z.shiftl s 7) (Z.shiftl (iw - 1) 4)) (Z.shiftl m 3)) (qw - 1)
  = s * 128 + (iw - 1) * 16 + m * 8 + (qw - 1).
Proof.
  intros [-> | ->] [-> | [-> | [-> | ->]]] [-> | ->] [-> | [-> | [-> | ->]]]; reflexivity.
Qed.

Lemma dlen_octets n : 0 <= n <= 65535 ->
  Z.land (Z.shiftr n 8) 255 = n / 256 /\ Z.land n 255 = n mod 256.
Proof.
  intros H. rewrite shiftr_div by lia. change 255 with (2 ^ 8 - 1).
  rewrite !land_ones_mod by lia. change (2 ^ 8) with 256. lia.
Qed.

Ltac dvalid H :=
  destruct H as ((Vs & Vd & Vq & Heq & Hm & Hl & Hc & Hd & Hs) & Ht & Hme & Hn);
  destruct Vs as (Ws & Rs); destruct Vd as (Wd & Rd); destruct Vq as (Wq & Rq).

Lemma oct0_fields t d m c l : flag t -> flag d -> flag m -> flag c -> flag l ->
  let o := 32 + t * 16 + d * 8 + m * 4 + c * 2 + l in
  0 <= o < 256 /\ o / 32 = 1 /\ (o / 16) mod 2 = t /\ (o / 8) mod 2 = d /\
  (o / 4) mod 2 = m /\ (o / 2) mod 2 = c /\ o mod 2 = l.
Proof.
  intros [-> | ->] [-> | ->] [-> | ->] [-> | ->] [-> | ->]; cbv zeta; repeat split; lia.
Qed.

Lemma oct3_fields s iw m qw : flag s -> width_ok iw -> flag m -> width_ok qw ->
  let o := s * 128 + (iw - 1) * 16 + m * 8 + (qw - 1) in
  0 <= o < 256 /\ o / 128 = s /\ (o / 16) mod 8 + 1 = iw /\ (o / 8) mod 2 = m /\ o mod 8 + 1 = qw.
Proof.
  intros [-> | ->] [-> | [-> | [-> | ->]]] [-> | ->] [-> | [-> | [-> | ->]]];
    cbv zeta; repeat split; lia.
Qed.

Lemma hdr_fixed_layout_pack h : hdr_valid h ->
  exists o0 o1 o2 o3,
    hdr_fixed_layout h = [o0; o1; o2; o3] /\
    0 <= o0 < 256 /\ 0 <= o1 < 256 /\ 0 <= o2 < 256 /\ 0 <= o3 < 256 /\
    o0 / 32 = 1 /\ (o0 / 16) mod 2 = h_type h /\ (o0 / 8) mod 2 = cf_dir (h_conf h) /\
    (o0 / 4) mod 2 = cf_mode (h_conf h) /\ (o0 / 2) mod 2 = cf_crc (h_conf h) /\
    o0 mod 2 = cf_large (h_conf h) /\ o1 * 256 + o2 = h_dlen h /\
    o3 / 128 = cf_segctrl (h_conf h) /\ (o3 / 16) mod 8 + 1 = hdr_idw h /\
    (o3 / 8) mod 2 = h_meta h /\ o3 mod 8 + 1 = hdr_seqw h.
Proof.
  intros V. dvalid V. unfold hdr_fixed_layout. do 4 eexists. split; [reflexivity|].
  pose proof (oct0_fields _ _ _ _ _ Ht Hd Hm Hc Hl) as P0.
  pose proof (oct3_fields _ _ _ _ Hs Ws Hme Wq) as P3.
  cbv zeta in P0, P3. unfold hdr_idw, hdr_seqw.
  destruct P0 as (A0 & A1 & A2 & A3 & A4 & A5 & A6).
  destruct P3 as (B0 & B1 & B2 & B3 & B4).
  repeat split; try assumption; try lia.
Qed.

Theorem hdr_pack_layout h : hdr_valid h -> hdr_pack h = Ok (hdr_layout h).
Proof.
  intros V. dvalid V. unfold hdr_pack.
  rewrite oct0_pack by assumption.
  destruct (dlen_octets _ Hn) as [D1 D2]. rewrite D1, D2.
  rewrite oct3_pack by assumption.
  pose proof (oct0_fields _ _ _ _ _ Ht Hd Hm Hc Hl) as (A0 & _).
  pose proof (oct3_fields _ _ _ _ Hs Ws Hme Wq) as (B0 & _).
  do 4 (rewrite ba_append_ok by (try assumption; lia); cbn [bind app]).
  unfold hdr_layout, hdr_fixed_layout, ubf_as_bytes, hdr_idw, hdr_seqw. rewrite <- Heq. reflexivity.
Qed.

Theorem hdr_layout_length h : hdr_valid h ->
  len (hdr_layout h) = hdr_header_len h /\ len (hdr_layout h) = 4 + 2 * hdr_idw h + hdr_seqw h.
Proof.
  intros V. destruct (hdr_header_len_spec h) as [-> _]. dvalid V.
  unfold hdr_layout, hdr_fixed_layout, len. rewrite !app_length, !be_encode_length. cbn [length].
  unfold hdr_idw, hdr_seqw, width_ok in *. lia.
Qed.

Lemma hdr_layout_wf h : hdr_valid h -> wf_bytes (hdr_layout h).
Proof.
  intros V. pose proof (hdr_fixed_layout_pack h V) as (o0 & o1 & o2 & o3 & E & R0 & R1 & R2 & R3 & _).
  unfold hdr_layout. rewrite E. rewrite !wf_bytes_app. repeat split; try apply be_encode_wf.
  unfold wf_bytes. repeat (constructor; [assumption|]). constructor.
Qed.

(* ================= unpack: shift/mask -> arithmetic, octets 0 and 3 by sweep(256) ================= *)

Definition chk_oct0 (o : Z) : bool :=
  (Z.land (Z.shiftr o 5) 7 =? o / 32) &&
  (Z.shiftr (Z.land o 16) 4 =? (o / 16) mod 2) &&
  (Z.shiftr (Z.land o 8) 3 =? (o / 8) mod 2) &&
  (Z.shiftr (Z.land o 4) 2 =? (o / 4) mod 2) &&
  (Z.shiftr (Z.land o 2) 1 =? (o / 2) mod 2) &&
  (Z.land o 1 =? o mod 2).
Lemma oct0_sweep : forallb chk_oct0 (zrange 0 256) = true.
Proof. vm_compute. reflexivity. Qed.

Definition chk_oct3 (o : Z) : bool :=
  (Z.shiftr (Z.land o 128) 7 =? o / 128) &&
  (Z.land (Z.shiftr o 4) 7 =? (o / 16) mod 8) &&
  (Z.land (Z.shiftr o 3) 1 =? (o / 8) mod 2) &&
  (Z.land o 7 =? o mod 8).
Lemma oct3_sweep : forallb chk_oct3 (zrange 0 256) = true.
Proof. vm_compute. reflexivity. Qed.

Lemma oct0_unpack o : 0 <= o < 256 ->
  Z.land (Z.shiftr o 5) 7 = o / 32 /\ Z.shiftr (Z.land o 16) 4 = (o / 16) mod 2 /\
  Z.shiftr (Z.land o 8) 3 = (o / 8) mod 2 /\ Z.shiftr (Z.land o 4) 2 = (o / 4) mod 2 /\
  Z.shiftr (Z.land o 2) 1 = (o / 2) mod 2 /\ Z.land o 1 = o mod 2.
Proof.
  intros H. pose proof (sweep _ 0 256 ltac:(lia) oct0_sweep o ltac:(lia)) as P.
  unfold chk_oct0 in P. rewrite !andb_true_iff, !Z.eqb_eq in P. tauto.
Qed.

Lemma oct3_unpack o : 0 <= o < 256 ->
  Z.shiftr (Z.land o 128) 7 = o / 128 /\ Z.land (Z.shiftr o 4) 7 = (o / 16) mod 8 /\
  Z.land (Z.shiftr o 3) 1 = (o / 8) mod 2 /\ Z.land o 7 = o mod 8.
Proof.
  intros H. pose proof (sweep _ 0 256 ltac:(lia) oct3_sweep o ltac:(lia)) as P.
  unfold chk_oct3 in P. rewrite !andb_true_iff, !Z.eqb_eq in P. tauto.
Qed.

Lemma dlen_unpack b1 b2 : 0 <= b1 < 256 -> 0 <= b2 < 256 ->
  Z.lor (Z.shiftl b1 8) b2 = b1 * 256 + b2.
Proof.
  intros H1 H2. rewrite shiftl_mul by lia. change (2 ^ 8) with 256.
  apply (lor_disjoint _ _ 8); [lia| |exact H2]. change (2 ^ 8) with 256. lia.
Qed.

Lemma check_len_in_bytes_spec w :
  check_len_in_bytes w = if widthb w then Ok w else Err EValue.
Proof. reflexivity. Qed.

(* ================= PduHeader.unpack = the decoder of the standard, on every octet string ================= *)

Theorem hdr_unpack_spec d : wf_bytes d -> hdr_unpack d = hdr_decode_spec d.
Proof.
  intros W.
  destruct d as [|b0 [|b1 [|b2 [|b3 tl]]]]; try reflexivity.
  unfold wf_bytes in W.
  inversion W as [|? ? R0 W1]; subst. inversion W1 as [|? ? R1 W2]; subst.
  inversion W2 as [|? ? R2 W3]; subst. inversion W3 as [|? ? R3 Wt]; subst.
  clear W W1 W2 W3. fold (wf_bytes tl) in Wt.
  unfold hdr_unpack, hdr_decode_spec.
  assert (L : len (b0 :: b1 :: b2 :: b3 :: tl) = 4 + len tl) by (unfold len; cbn [length]; lia).
  rewrite L. unfold FIXED_LENGTH, CFDP_VERSION_2.
  pose proof (len_nonneg tl) as Ln.
  destruct (4 + len tl <? 4) eqn:E0; [lia|]. clear E0.
  eval_get. cbn [bind].
  destruct (oct0_unpack b0 R0) as (P1 & P2 & P3 & P4 & P5 & P6).
  destruct (oct3_unpack b3 R3) as (Q1 & Q2 & Q3 & Q4).
  rewrite P1, P2, P3, P4, P5, P6, Q1, Q2, Q3, Q4, dlen_unpack by assumption.
  destruct (negb (b0 / 32 =? 1)); [reflexivity|].
  rewrite hdr_set_dlen_spec. destruct (b1 * 256 + b2 <=? 65535) eqn:E1; [|lia]. clear E1.
  cbn [bind]. rewrite !check_len_in_bytes_spec.
  set (iw := (b3 / 16) mod 8 + 1). set (qw := b3 mod 8 + 1).
  destruct (widthb iw) eqn:Wi; [|reflexivity]. cbn [bind negb].
  destruct (widthb qw) eqn:Wq; [|reflexivity]. cbn [bind negb].
  apply width_ok_b in Wi, Wq.
  assert (Ri : 1 <= iw <= 8) by (unfold width_ok in Wi; lia).
  assert (Rq : 1 <= qw <= 8) by (unfold width_ok in Wq; lia).
  destruct (len tl <? 2 * iw + qw) eqn:E2.
  { destruct (2 * iw + qw + 4 >? 4 + len tl) eqn:E3; [reflexivity|lia]. }
  destruct (2 * iw + qw + 4 >? 4 + len tl) eqn:E3; [lia|]. clear E3.
  rewrite !slice_cons4 by lia.
  replace (4 - 4) with 0 by lia. replace (4 + iw - 4) with iw by lia.
  replace (4 + iw + qw - 4) with (iw + qw) by lia.
  replace (4 + iw + qw + iw - 4) with (iw + qw + iw) by lia.
  rewrite (bfg_from_bytes_decode iw (slice tl 0 iw))
    by (try assumption; try (apply wf_bytes_slice; assumption); rewrite slice_len by lia; lia).
  cbn [bind].
  rewrite (bfg_from_bytes_decode qw (slice tl iw (iw + qw)))
    by (try assumption; try (apply wf_bytes_slice; assumption); rewrite slice_len by lia; lia).
  cbn [bind].
  rewrite (bfg_from_bytes_decode iw (slice tl (iw + qw) (iw + qw + iw)))
    by (try assumption; try (apply wf_bytes_slice; assumption); rewrite slice_len by lia; lia).
  cbn [bind].
  rewrite hdr_set_entity_ids_spec. cbn [ubf_len]. rewrite Z.eqb_refl.
  reflexivity.
Qed.

(* ================= decode (encode h ++ rest) = h ================= *)

Lemma hdr_eta h :
  {| h_type := h_type h; h_meta := h_meta h; h_dlen := h_dlen h;
     h_conf := {| cf_src := {| ubf_val := ubf_val (cf_src (h_conf h)); ubf_len := ubf_len (cf_src (h_conf h)) |};
                  cf_dst := {| ubf_val := ubf_val (cf_dst (h_conf h)); ubf_len := ubf_len (cf_dst (h_conf h)) |};
                  cf_seq := {| ubf_val := ubf_val (cf_seq (h_conf h)); ubf_len := ubf_len (cf_seq (h_conf h)) |};
                  cf_mode := cf_mode (h_conf h); cf_large := cf_large (h_conf h);
                  cf_crc := cf_crc (h_conf h); cf_dir := cf_dir (h_conf h);
                  cf_segctrl := cf_segctrl (h_conf h) |} |} = h.
Proof. destruct h as [t m n [[sv sl] [dv dl] [qv ql] mo la cr di sg]]. reflexivity. Qed.

Theorem hdr_unpack_pack h rest : hdr_valid h -> wf_bytes rest ->
  hdr_unpack (hdr_layout h ++ rest) = Ok h.
Proof.
  intros V Wr.
  rewrite hdr_unpack_spec by (apply wf_bytes_app; split; [apply hdr_layout_wf; assumption|assumption]).
  pose proof (hdr_fixed_layout_pack h V)
    as (o0 & o1 & o2 & o3 & E & R0 & R1 & R2 & R3 & F1 & F2 & F3 & F4 & F5 & F6 & F7 & F8 & F9 & F10 & F11).
  unfold hdr_layout. rewrite E. cbn [app]. unfold hdr_decode_spec.
  dvalid V. unfold hdr_idw, hdr_seqw in *.
  set (S := be_encode (Z.to_nat (ubf_len (cf_src (h_conf h)))) (ubf_val (cf_src (h_conf h)))).
  set (Q := be_encode (Z.to_nat (ubf_len (cf_seq (h_conf h)))) (ubf_val (cf_seq (h_conf h)))).
  set (D := be_encode (Z.to_nat (ubf_len (cf_src (h_conf h)))) (ubf_val (cf_dst (h_conf h)))).
  assert (LS : len S = ubf_len (cf_src (h_conf h)))
    by (unfold len, S; rewrite be_encode_length; unfold width_ok in Ws; lia).
  assert (LQ : len Q = ubf_len (cf_seq (h_conf h)))
    by (unfold len, Q; rewrite be_encode_length; unfold width_ok in Wq; lia).
  assert (LD : len D = ubf_len (cf_src (h_conf h)))
    by (unfold len, D; rewrite be_encode_length; unfold width_ok in Ws; lia).
  rewrite F9, F11, F1. cbn [Z.eqb Pos.eqb negb].
  rewrite (proj1 (width_ok_b _) Ws), (proj1 (width_ok_b _) Wq). cbn [negb].
  rewrite <- !app_assoc.
  assert (LT : len (S ++ Q ++ D ++ rest) = len S + len Q + len D + len rest)
    by (rewrite !len_app; lia).
  pose proof (len_nonneg rest) as Lr.
  match goal with |- context [?a <? ?b] => destruct (a <? b) eqn:E2 end; [lia|]. clear E2.
  assert (S1 : slice (S ++ Q ++ D ++ rest) 0 (ubf_len (cf_src (h_conf h))) = S).
  { apply (slice_mid [] S (Q ++ D ++ rest)); [reflexivity|rewrite len_nil; lia]. }
  assert (S2 : slice (S ++ Q ++ D ++ rest) (ubf_len (cf_src (h_conf h)))
                 (ubf_len (cf_src (h_conf h)) + ubf_len (cf_seq (h_conf h))) = Q).
  { apply (slice_mid S Q (D ++ rest)); lia. }
  assert (S3 : slice (S ++ Q ++ D ++ rest) (ubf_len (cf_src (h_conf h)) + ubf_len (cf_seq (h_conf h)))
                 (ubf_len (cf_src (h_conf h)) + ubf_len (cf_seq (h_conf h)) + ubf_len (cf_src (h_conf h))) = D).
  { replace (S ++ Q ++ D ++ rest) with ((S ++ Q) ++ D ++ rest) by (rewrite <- app_assoc; reflexivity).
    apply (slice_mid (S ++ Q) D rest); rewrite len_app; lia. }
  rewrite S1, S2, S3. f_equal.
  unfold hdr_of_octets. rewrite F2, F3, F4, F5, F6, F7, F8, F9, F10, F11.
  unfold S, Q, D.
  rewrite !be_decode_encode by (rewrite width_nat by assumption; first [assumption | rewrite Heq; assumption]).
  rewrite Heq at 2. apply hdr_eta.
Qed.

(* ================= every accepted octet string: fields valid, re-encoding gives its prefix ================= *)

Lemma hdr_of_octets_valid b0 b1 b2 b3 S Q D :
  0 <= b0 < 256 -> 0 <= b1 < 256 -> 0 <= b2 < 256 -> 0 <= b3 < 256 ->
  width_ok ((b3 / 16) mod 8 + 1) -> width_ok (b3 mod 8 + 1) ->
  wf_bytes S -> wf_bytes Q -> wf_bytes D ->
  len S = (b3 / 16) mod 8 + 1 -> len Q = b3 mod 8 + 1 -> len D = (b3 / 16) mod 8 + 1 ->
  hdr_valid (hdr_of_octets b0 b1 b2 b3 S Q D).
Proof.
  intros R0 R1 R2 R3 Wi Wq WS WQ WD LS LQ LD.
  pose proof (be_decode_range S WS) as RS. pose proof (be_decode_range Q WQ) as RQ.
  pose proof (be_decode_range D WD) as RD.
  unfold len in LS, LQ, LD. rewrite LS in RS. rewrite LQ in RQ. rewrite LD in RD.
  unfold hdr_valid, conf_valid, ubf_valid, hdr_of_octets, flag.
  cbn [h_type h_meta h_dlen h_conf cf_src cf_dst cf_seq cf_mode cf_large cf_crc cf_dir cf_segctrl ubf_val ubf_len].
  repeat split; try assumption; try lia.
Qed.

Lemma hdr_layout_of_octets b0 b1 b2 b3 S Q D :
  0 <= b0 < 256 -> 0 <= b1 < 256 -> 0 <= b2 < 256 -> 0 <= b3 < 256 -> b0 / 32 = 1 ->
  wf_bytes S -> wf_bytes Q -> wf_bytes D ->
  len S = (b3 / 16) mod 8 + 1 -> len Q = b3 mod 8 + 1 -> len D = (b3 / 16) mod 8 + 1 ->
  hdr_layout (hdr_of_octets b0 b1 b2 b3 S Q D) = b0 :: b1 :: b2 :: b3 :: S ++ Q ++ D.
Proof.
  intros R0 R1 R2 R3 V WS WQ WD LS LQ LD.
  unfold hdr_layout, hdr_fixed_layout, hdr_idw, hdr_seqw, hdr_of_octets.
  cbn [h_type h_meta h_dlen h_conf cf_src cf_dst cf_seq cf_mode cf_large cf_crc cf_dir cf_segctrl ubf_val ubf_len].
  assert (BE : forall w X, wf_bytes X -> len X = w -> be_encode (Z.to_nat w) (be_decode X) = X).
  { intros w X WX LX. replace (Z.to_nat w) with (length X) by (unfold len in LX; lia).
    apply be_encode_decode. assumption. }
  rewrite !BE by assumption.
  cbn [app]. list_eq.
Qed.

Theorem hdr_pack_unpack d h : wf_bytes d -> hdr_unpack d = Ok h ->
  hdr_valid h /\ hdr_header_len h <= len d /\
  hdr_layout h = firstn (Z.to_nat (hdr_header_len h)) d /\
  hdr_pack h = Ok (firstn (Z.to_nat (hdr_header_len h)) d).
Proof.
  intros W U. rewrite hdr_unpack_spec in U by assumption.
  destruct d as [|b0 [|b1 [|b2 [|b3 tl]]]]; try discriminate.
  unfold wf_bytes in W.
  inversion W as [|? ? R0 W1]; subst. inversion W1 as [|? ? R1 W2]; subst.
  inversion W2 as [|? ? R2 W3]; subst. inversion W3 as [|? ? R3 Wt]; subst.
  clear W W1 W2 W3. fold (wf_bytes tl) in Wt.
  unfold hdr_decode_spec in U.
  set (iw := (b3 / 16) mod 8 + 1) in *. set (qw := b3 mod 8 + 1) in *.
  destruct (b0 / 32 =? 1) eqn:V; [|discriminate]. cbn [negb] in U.
  destruct (widthb iw) eqn:Wi; [|discriminate]. cbn [negb] in U.
  destruct (widthb qw) eqn:Wq; [|discriminate]. cbn [negb] in U.
  destruct (len tl <? 2 * iw + qw) eqn:L; [discriminate|].
  apply width_ok_b in Wi, Wq.
  assert (Ri : 1 <= iw <= 8) by (unfold width_ok in Wi; lia).
  assert (Rq : 1 <= qw <= 8) by (unfold width_ok in Wq; lia).
  injection U as U.
  assert (LS : len (slice tl 0 iw) = iw) by (rewrite slice_len; lia).
  assert (LQ : len (slice tl iw (iw + qw)) = qw) by (rewrite slice_len; lia).
  assert (LD : len (slice tl (iw + qw) (iw + qw + iw)) = iw) by (rewrite slice_len; lia).
  assert (HV : hdr_valid h).
  { subst h. apply hdr_of_octets_valid; try assumption; try (apply wf_bytes_slice; assumption). }
  assert (HL : hdr_header_len h = 4 + 2 * iw + qw).
  { subst h. reflexivity. }
  assert (LY : hdr_layout h = firstn (Z.to_nat (hdr_header_len h)) (b0 :: b1 :: b2 :: b3 :: tl)).
  { rewrite HL. subst h.
    rewrite hdr_layout_of_octets; try assumption; try (apply wf_bytes_slice; assumption); [|lia].
    rewrite !slice_adjacent by lia.
    replace (Z.to_nat (4 + 2 * iw + qw)) with (4 + Z.to_nat (iw + qw + iw))%nat by lia.
    cbn [firstn Nat.add]. rewrite slice_0_firstn. reflexivity. }
  split; [exact HV|]. split.
  { rewrite HL. unfold len in *. cbn [length]. lia. }
  split; [exact LY|]. rewrite <- LY. apply hdr_pack_layout. exact HV.
Qed.

(* an octet string that carries version 001, supported width codes and enough octets is accepted *)
Theorem hdr_unpack_accepts d : wf_bytes d ->
  hdr_decode_spec d = hdr_unpack d /\
  (forall b0 b1 b2 b3 tl, d = b0 :: b1 :: b2 :: b3 :: tl ->
     b0 / 32 = 1 -> width_ok ((b3 / 16) mod 8 + 1) -> width_ok (b3 mod 8 + 1) ->
     4 + 2 * ((b3 / 16) mod 8 + 1) + (b3 mod 8 + 1) <= len d ->
     exists h, hdr_unpack d = Ok h).
Proof.
  intros W. split; [symmetry; apply hdr_unpack_spec; assumption|].
  intros b0 b1 b2 b3 tl -> V Wi Wq L. rewrite hdr_unpack_spec by assumption.
  unfold hdr_decode_spec. rewrite V. cbn [Z.eqb Pos.eqb negb].
  rewrite (proj1 (width_ok_b _) Wi), (proj1 (width_ok_b _) Wq). cbn [negb].
  unfold len in L. cbn [length] in L.
  match goal with |- context [?a <? ?b] => destruct (a <? b) eqn:E2 end; [unfold len in E2; lia|].
  eexists. reflexivity.
Qed.

(* the refusals, each with the documented error class *)
Theorem hdr_refuses :
  (* fewer than four octets *)
  (forall d, len d < 4 -> hdr_unpack d = Err ETooShort) /\
  (* version other than 001 *)
  (forall b0 b1 b2 b3 tl, wf_bytes (b0 :: b1 :: b2 :: b3 :: tl) -> b0 / 32 <> 1 ->
     hdr_unpack (b0 :: b1 :: b2 :: b3 :: tl) = Err EVersion) /\
  (* a width code other than 0, 1, 3, 7 (widths 1, 2, 4, 8), for entity IDs or sequence number *)
  (forall b0 b1 b2 b3 tl, wf_bytes (b0 :: b1 :: b2 :: b3 :: tl) -> b0 / 32 = 1 ->
     ~ (width_ok ((b3 / 16) mod 8 + 1) /\ width_ok (b3 mod 8 + 1)) ->
     hdr_unpack (b0 :: b1 :: b2 :: b3 :: tl) = Err EValue) /\
  (* variable part incomplete *)
  (forall b0 b1 b2 b3 tl, wf_bytes (b0 :: b1 :: b2 :: b3 :: tl) -> b0 / 32 = 1 ->
     width_ok ((b3 / 16) mod 8 + 1) -> width_ok (b3 mod 8 + 1) ->
     len tl < 2 * ((b3 / 16) mod 8 + 1) + (b3 mod 8 + 1) ->
     hdr_unpack (b0 :: b1 :: b2 :: b3 :: tl) = Err ETooShort).
Proof.
  split; [|split; [|split]].
  - intros d L. unfold hdr_unpack, FIXED_LENGTH. destruct (len d <? 4) eqn:E; [reflexivity|lia].
  - intros b0 b1 b2 b3 tl W V. rewrite hdr_unpack_spec by assumption. unfold hdr_decode_spec.
    destruct (b0 / 32 =? 1) eqn:E; [lia|reflexivity].
  - intros b0 b1 b2 b3 tl W V NW. rewrite hdr_unpack_spec by assumption. unfold hdr_decode_spec.
    rewrite V. cbn [Z.eqb Pos.eqb negb].
    destruct (widthb ((b3 / 16) mod 8 + 1)) eqn:Wi; [|reflexivity].
    destruct (widthb (b3 mod 8 + 1)) eqn:Wq; [|reflexivity].
    apply width_ok_b in Wi, Wq. tauto.
  - intros b0 b1 b2 b3 tl W V Wi Wq L. rewrite hdr_unpack_spec by assumption. unfold hdr_decode_spec.
    rewrite V. cbn [Z.eqb Pos.eqb negb].
    rewrite (proj1 (width_ok_b _) Wi), (proj1 (width_ok_b _) Wq). cbn [negb].
    match goal with |- context [?a <? ?b] => destruct (a <? b) eqn:E2 end; [reflexivity|lia].
Qed.

(* ================= cross-cutting: C09 (no over-read), C10 (total, prefixes) ================= *)

Theorem hdr_unpack_total d : wf_bytes d -> ok_or_documented (hdr_unpack d).
Proof.
  intros W. rewrite hdr_unpack_spec by assumption. unfold hdr_decode_spec.
  destruct d as [|b0 [|b1 [|b2 [|b3 tl]]]]; try reflexivity.
  repeat match goal with |- context [if ?c then _ else _] => destruct c end; reflexivity.
Qed.

Theorem hdr_no_overread d h : wf_bytes d -> hdr_unpack d = Ok h ->
  hdr_unpack (firstn (Z.to_nat (hdr_header_len h)) d) = Ok h.
Proof.
  intros W U. destruct (hdr_pack_unpack d h W U) as (V & _ & LY & _).
  rewrite <- LY. rewrite <- (app_nil_r (hdr_layout h)).
  apply hdr_unpack_pack; [assumption|constructor].
Qed.

Theorem hdr_suffix_irrelevant h s : hdr_valid h -> wf_bytes s ->
  hdr_unpack (hdr_layout h ++ s) = hdr_unpack (hdr_layout h).
Proof.
  intros V W. rewrite hdr_unpack_pack by assumption.
  symmetry. rewrite <- (app_nil_r (hdr_layout h)). apply hdr_unpack_pack; [assumption|constructor].
Qed.

Theorem hdr_prefix_rejected h n : hdr_valid h -> (n < length (hdr_layout h))%nat ->
  exists e, hdr_unpack (firstn n (hdr_layout h)) = Err e /\ documented e = true.
Proof.
  intros V L.
  pose proof (hdr_layout_wf h V) as W.
  assert (Wp : wf_bytes (firstn n (hdr_layout h))) by (apply wf_bytes_firstn; assumption).
  pose proof (hdr_unpack_total _ Wp) as T.
  destruct (hdr_unpack (firstn n (hdr_layout h))) as [h'|e] eqn:U; [|exists e; split; [reflexivity|exact T]].
  exfalso.
  destruct (hdr_pack_unpack _ _ Wp U) as (V' & L' & LY' & _).
  (* the whole layout starts with layout h', so it decodes to h' as well: h' = h *)
  assert (E : hdr_layout h = hdr_layout h' ++ skipn (Z.to_nat (hdr_header_len h')) (hdr_layout h)).
  { rewrite LY'. rewrite firstn_firstn.
    replace (Nat.min (Z.to_nat (hdr_header_len h')) n) with (Z.to_nat (hdr_header_len h')).
    - symmetry. apply firstn_skipn.
    - unfold len in L'. rewrite firstn_length in L'. lia. }
  assert (U2 : hdr_unpack (hdr_layout h) = Ok h').
  { rewrite E. apply hdr_unpack_pack; [assumption|]. apply wf_bytes_skipn. assumption. }
  rewrite <- (app_nil_r (hdr_layout h)) in U2.
  rewrite hdr_unpack_pack in U2 by (try assumption; constructor).
  injection U2 as <-.
  destruct (hdr_layout_length h V) as [LL _]. unfold len in LL, L'.
  rewrite firstn_length in L'. lia.
Qed.

(* ================= header_len_from_raw ================= *)

Theorem header_len_from_raw_spec d :
  (forall b0 b1 b2 b3 tl, d = b0 :: b1 :: b2 :: b3 :: tl -> 0 <= b3 < 256 ->
     header_len_from_raw d = Ok (4 + 2 * ((b3 / 16) mod 8 + 1) + (b3 mod 8 + 1))) /\
  (len d < 4 -> header_len_from_raw d = Err ETooShort).
Proof.
  split.
  - intros b0 b1 b2 b3 tl -> R. unfold header_len_from_raw, FIXED_LENGTH.
    assert (L : len (b0 :: b1 :: b2 :: b3 :: tl) <? 4 = false).
    { unfold len. cbn [length]. lia. }
    rewrite L. eval_get. cbn [bind].
    destruct (oct3_unpack b3 R) as (_ & Q2 & _ & Q4). rewrite Q2, Q4. reflexivity.
  - intros L. unfold header_len_from_raw, FIXED_LENGTH.
    destruct (len d <? 4) eqn:E; [reflexivity|lia].
Qed.

(* C10: every octet string gives a length or the documented too-short error
   (before the repair c753acf: IndexError on fewer than 4 octets, witness [32;0;0]) *)
Theorem header_len_from_raw_total d : wf_bytes d -> ok_or_documented (header_len_from_raw d).
Proof.
  intros W. destruct (header_len_from_raw_spec d) as [S1 S2].
  destruct d as [|b0 [|b1 [|b2 [|b3 tl]]]];
    try (rewrite S2 by (unfold len; cbn [length]; lia); reflexivity).
  rewrite (S1 _ _ _ _ _ eq_refl); [exact I|].
  unfold wf_bytes in W. inversion W as [|? ? _ W1]; subst. inversion W1 as [|? ? _ W2]; subst.
  inversion W2 as [|? ? _ W3]; subst. inversion W3; subst. assumption.
Qed.

Theorem header_len_from_raw_prefix_rejected h n : hdr_valid h -> (n < 4)%nat ->
  header_len_from_raw (firstn n (hdr_layout h)) = Err ETooShort.
Proof.
  intros V L. apply header_len_from_raw_spec. unfold len. rewrite firstn_length. lia.
Qed.

Theorem header_len_from_raw_pack h rest : hdr_valid h ->
  header_len_from_raw (hdr_layout h ++ rest) = Ok (hdr_header_len h).
Proof.
  intros V.
  pose proof (hdr_fixed_layout_pack h V)
    as (o0 & o1 & o2 & o3 & E & R0 & R1 & R2 & R3 & F1 & F2 & F3 & F4 & F5 & F6 & F7 & F8 & F9 & F10 & F11).
  unfold hdr_layout. rewrite E. cbn [app].
  destruct (header_len_from_raw_spec (o0 :: o1 :: o2 :: o3 :: (be_encode (Z.to_nat (hdr_idw h)) (ubf_val (cf_src (h_conf h))) ++
      be_encode (Z.to_nat (hdr_seqw h)) (ubf_val (cf_seq (h_conf h))) ++
      be_encode (Z.to_nat (hdr_idw h)) (ubf_val (cf_dst (h_conf h)))) ++ rest)) as [S _].
  rewrite (S _ _ _ _ _ eq_refl R3). rewrite F9, F11.
  destruct (hdr_header_len_spec h) as [-> _]. reflexivity.
Qed.

(* whenever the header decoder accepts, header_len_from_raw agrees with the decoded header *)
Theorem header_len_from_raw_unpack d h : wf_bytes d -> hdr_unpack d = Ok h ->
  header_len_from_raw d = Ok (hdr_header_len h).
Proof.
  intros W U. destruct (hdr_pack_unpack d h W U) as (V & _ & LY & _).
  rewrite <- (firstn_skipn (Z.to_nat (hdr_header_len h)) d). rewrite <- LY.
  apply header_len_from_raw_pack. assumption.
Qed.

(* ================= verify_length_and_checksum ================= *)

Theorem hdr_verify_spec h d :
  2 <= hdr_packet_len h ->
  hdr_verify_length_and_checksum h d =
  if len d <? hdr_packet_len h then Err ETooShort
  else if (cf_crc (h_conf h) =? 1) && negb (crc16 (firstn (Z.to_nat (hdr_packet_len h)) d) =? 0)
       then Err ECrc else Ok (hdr_packet_len h).
Proof.
  intros P. unfold hdr_verify_length_and_checksum, CRC_WITH_CRC, slice_to.
  destruct (len d <? hdr_packet_len h) eqn:L; [reflexivity|].
  destruct (cf_crc (h_conf h) =? 1); [|reflexivity]. cbn [andb].
  destruct (negb (crc16 (firstn (Z.to_nat (hdr_packet_len h)) d) =? 0)); [|reflexivity].
  rewrite struct_unpack_ok; [reflexivity|].
  rewrite slice_length by lia. lia.
Qed.

Lemma hdr_valid_packet_len h : hdr_valid h -> 7 <= hdr_header_len h <= 28 /\ 7 <= hdr_packet_len h.
Proof.
  intros V. dvalid V. unfold hdr_packet_len, hdr_header_len, FIXED_LENGTH, width_ok in *. lia.
Qed.

(* ================= non-vacuity ================= *)

Definition hdr_example : PduHeader :=
  {| h_type := 1; h_meta := 1; h_dlen := 65535;
     h_conf := {| cf_src := {| ubf_val := 72623859790382856; ubf_len := 8 |};
                  cf_dst := {| ubf_val := 18446744073709551615; ubf_len := 8 |};
                  cf_seq := {| ubf_val := 4660; ubf_len := 2 |};
                  cf_mode := 1; cf_large := 1; cf_crc := 1; cf_dir := 1; cf_segctrl := 1 |} |}.
Example hdr_valid_example : hdr_valid hdr_example.
Proof.
  unfold hdr_valid, conf_valid, ubf_valid, width_ok, flag, hdr_example.
  cbn [h_type h_meta h_dlen h_conf cf_src cf_dst cf_seq cf_mode cf_large cf_crc cf_dir cf_segctrl ubf_val ubf_len].
  change (256 ^ 8) with 18446744073709551616. change (256 ^ 2) with 65536. lia.
Qed.
Example hdr_layout_example :
  hdr_layout hdr_example =
  [63; 255; 255; 249; 1; 2; 3; 4; 5; 6; 7; 8; 18; 52; 255; 255; 255; 255; 255; 255; 255; 255].
Proof. vm_compute. reflexivity. Qed.
Example hdr_refuses_example :
  hdr_unpack [64; 0; 0; 0; 1; 2; 3] = Err EVersion /\
  hdr_unpack [32; 0; 0; 32; 1; 2; 3; 4; 5; 6; 7; 8; 9] = Err EValue /\
  hdr_unpack [32; 0; 0; 17; 1; 2; 3; 4; 5] = Err ETooShort /\
  hdr_unpack [32; 0; 0] = Err ETooShort.
Proof. vm_compute. repeat split. Qed.
